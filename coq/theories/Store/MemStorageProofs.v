(* Store/MemStorageProofs.v — the (repaired) memStorage refines the storage contract on every call that is not in
   [dev_mem]; the invariant of deviation-free runs. *)
From Coq Require Import List NArith ZArith Bool Lia Arith PeanoNat.
From GL Require Import Base.Bytes Store.StorContract Store.MemStorage.
Import ListNotations.

(* ================================================================ descriptors, association lists *)

Lemma xfd_eqb_spec a b : reflect (a = b) (xfd_eqb a b).
Proof.
  destruct a as [t n], b as [t' n']. unfold xfd_eqb. cbn [x_ty x_num].
  destruct (N.eqb_spec t t'); destruct (Z.eqb_spec n n'); cbn [andb]; constructor; congruence.
Qed.

Lemma xfd_eqb_refl a : xfd_eqb a a = true.
Proof. destruct (xfd_eqb_spec a a); congruence. Qed.

Section Maps.
  Context {A B : Type}.
  Variable g : xfd * A -> xfd * B.
  Hypothesis g_key : forall e, fst (g e) = fst e.

  Lemma dlookup_map k (d : list (xfd * A)) :
    dlookup k (map g d) = match dlookup k d with
                          | Some v => Some (snd (g (k, v)))
                          | None => None
                          end.
  Proof.
    induction d as [|[k' v] d IH]; [reflexivity|]. cbn [map dlookup].
    pose proof (g_key (k', v)) as E. destruct (g (k', v)) as [k'' w] eqn:G. cbn [fst] in E. subst k''.
    destruct (xfd_eqb_spec k k') as [->|N]; [now rewrite G|apply IH].
  Qed.

  Lemma dremove_map k (d : list (xfd * A)) : dremove k (map g d) = map g (dremove k d).
  Proof.
    induction d as [|[k' v] d IH]; [reflexivity|]. cbn [map dremove].
    pose proof (g_key (k', v)) as E. destruct (g (k', v)) as [k'' w] eqn:G. cbn [fst] in E. subst k''.
    destruct (xfd_eqb k k'); [exact IH|]. cbn [map]. now rewrite G, IH.
  Qed.

  Lemma dset_map k v (d : list (xfd * A)) :
    dset k (snd (g (k, v))) (map g d) = map g (dset k v d).
  Proof.
    induction d as [|[k' v'] d IH]; cbn [map dset].
    - pose proof (g_key (k, v)) as E. destruct (g (k, v)) as [k'' w]. cbn [fst snd] in *. now subst.
    - pose proof (g_key (k', v')) as E. destruct (g (k', v')) as [k'' w] eqn:G. cbn [fst] in E. subst k''.
      destruct (xfd_eqb k k'); cbn [map].
      + pose proof (g_key (k, v)) as E. destruct (g (k, v)) as [k'' w']. cbn [fst snd] in *. now subst.
      + now rewrite G, IH.
  Qed.
End Maps.

Lemma In_dremove {A} k (d : list (xfd * A)) e : In e (dremove k d) -> In e d /\ fst e <> k.
Proof.
  induction d as [|[k' v] d IH]; cbn [dremove]; [intros []|].
  destruct (xfd_eqb_spec k k') as [->|N].
  - intros H. destruct (IH H). split; [right|]; auto.
  - intros [<-|H]; [split; [left; reflexivity|cbn; congruence]|]. destruct (IH H). split; [right|]; auto.
Qed.

(* keys of an association list *)
Definition dkeys {A} (d : list (xfd * A)) : list xfd := map fst d.

Lemma dkeys_dremove {A} k (d : list (xfd * A)) : NoDup (dkeys d) -> NoDup (dkeys (dremove k d)) /\ ~ In k (dkeys (dremove k d)).
Proof.
  unfold dkeys. induction d as [|[k' v] d IH]; cbn [dremove map fst]; intros H.
  - split; [constructor|intros []].
  - inversion H as [|? ? Hn Hd]; subst. destruct (IH Hd) as (I1 & I2).
    destruct (xfd_eqb_spec k k') as [->|N]; [auto|].
    cbn [map fst]. split.
    + constructor; [|exact I1]. intros Hin. apply Hn.
      apply in_map_iff in Hin. destruct Hin as (e & E1 & E2). apply In_dremove in E2.
      apply in_map_iff. exists e. split; [exact E1|apply E2].
    + intros [E|Hin]; [congruence|auto].
Qed.

Lemma In_dkeys_dremove {A} k k0 (d : list (xfd * A)) : In k0 (dkeys (dremove k d)) -> In k0 (dkeys d).
Proof.
  unfold dkeys. intros H. apply in_map_iff in H. destruct H as (e & E1 & E2). apply In_dremove in E2.
  apply in_map_iff. exists e. split; [exact E1|apply E2].
Qed.

Lemma dlookup_In {A} k (d : list (xfd * A)) v : dlookup k d = Some v -> In (k, v) d.
Proof.
  induction d as [|[k' v'] d IH]; cbn [dlookup]; [discriminate|].
  destruct (xfd_eqb_spec k k') as [->|N]; [intros [= ->]; left; reflexivity|intros H; right; auto].
Qed.

Lemma dlookup_None {A} k (d : list (xfd * A)) : dlookup k d = None -> ~ In k (dkeys d).
Proof.
  unfold dkeys. induction d as [|[k' v'] d IH]; cbn [dlookup map fst]; [intros _ []|].
  destruct (xfd_eqb_spec k k') as [->|N]; [discriminate|]. intros H [E|Hin]; [congruence|]. exact (IH H Hin).
Qed.

Lemma In_nodup_lookup {A} k v (d : list (xfd * A)) : NoDup (dkeys d) -> In (k, v) d -> dlookup k d = Some v.
Proof.
  unfold dkeys. induction d as [|[k' v'] d IH]; cbn [dlookup map fst]; [intros _ []|].
  intros H Hin. inversion H as [|? ? Hn Hd]; subst.
  destruct (xfd_eqb_spec k k') as [->|N].
  - destruct Hin as [[= ->]|Hin]; [reflexivity|]. exfalso. apply Hn. apply in_map_iff. exists (k', v). auto.
  - destruct Hin as [[= -> ->]|Hin]; [congruence|]. auto.
Qed.

(* dset on a list without repeated keys: the entries are the old ones with another key, plus the new one *)
Lemma In_dset_nodup {A} k v (d : list (xfd * A)) e :
  NoDup (dkeys d) -> (In e (dset k v d) <-> e = (k, v) \/ (In e d /\ fst e <> k)).
Proof.
  unfold dkeys. induction d as [|[k' v'] d IH]; cbn [dset map fst]; intros H.
  - split; [intros [<-|[]]; auto|intros [->|([] & _)]; left; reflexivity].
  - inversion H as [|? ? Hn Hd]; subst. destruct (xfd_eqb_spec k k') as [->|N].
    + split.
      * intros [<-|Hin]; [auto|]. right. split; [right; exact Hin|]. intros E. apply Hn.
        apply in_map_iff. exists e. auto.
      * intros [->|([E|Hin] & Hne)]; [left; reflexivity| |right; exact Hin].
        subst e. cbn in Hne. congruence.
    + specialize (IH Hd). split.
      * intros [<-|Hin]; [right; split; [left; reflexivity|cbn; congruence]|].
        apply IH in Hin. destruct Hin as [->|(Hin & Hne)]; [auto|right; split; [right|]; auto].
      * intros [->|([<-|Hin] & Hne)]; [right; apply IH; auto|left; reflexivity|right; apply IH; auto].
Qed.

Lemma dkeys_dset {A} k v (d : list (xfd * A)) : NoDup (dkeys d) -> NoDup (dkeys (dset k v d)).
Proof.
  unfold dkeys. induction d as [|[k' v'] d IH]; cbn [dset map fst]; intros H.
  - constructor; [intros []|constructor].
  - inversion H as [|? ? Hn Hd]; subst. destruct (xfd_eqb_spec k k') as [->|N]; cbn [map fst].
    + constructor; assumption.
    + constructor; [|auto]. intros Hin. apply in_map_iff in Hin. destruct Hin as (e & E1 & E2).
      apply (In_dset_nodup k v d e Hd) in E2. destruct E2 as [->|(E2 & _)]; [cbn in E1; congruence|].
      apply Hn. apply in_map_iff. exists e. auto.
Qed.

(* ================================================================ lists *)

Lemma set_nth_length {A} (l : list A) : forall i x, length (set_nth l i x) = length l.
Proof. induction l as [|y l IH]; intros [|i] x; cbn [set_nth length]; auto. Qed.

Lemma nth_error_set_nth {A} (l : list A) : forall i j x,
  nth_error (set_nth l i x) j = if Nat.eqb i j then (if Nat.ltb i (length l) then Some x else None) else nth_error l j.
Proof.
  induction l as [|y l IH]; intros i j x.
  - cbn [set_nth length]. destruct (Nat.eqb i j); destruct j; reflexivity.
  - destruct i as [|i]; destruct j as [|j]; cbn [set_nth nth_error Nat.eqb length]; try reflexivity.
    rewrite IH. destruct (Nat.eqb i j); [|reflexivity].
    change (Nat.ltb (S i) (S (length l))) with (Nat.ltb i (length l)). reflexivity.
Qed.

Lemma nth_set_nth {A} (l : list A) d : forall i j x,
  nth j (set_nth l i x) d = if Nat.eqb i j && Nat.ltb i (length l) then x else nth j l d.
Proof.
  induction l as [|y l IH]; intros i j x.
  - cbn [set_nth length]. rewrite andb_false_r. reflexivity.
  - destruct i as [|i]; destruct j as [|j]; cbn [set_nth nth Nat.eqb length andb]; try reflexivity.
    rewrite IH. change (Nat.ltb (S i) (S (length l))) with (Nat.ltb i (length l)). reflexivity.
Qed.

Lemma map_set_nth {A B} (f : A -> B) (l : list A) : forall i x, map f (set_nth l i x) = set_nth (map f l) i (f x).
Proof. induction l as [|y l IH]; intros [|i] x; cbn [set_nth map]; try reflexivity. now rewrite IH. Qed.

Lemma nth_error_map_some {A B} (f : A -> B) (l : list A) i : nth_error (map f l) i = option_map f (nth_error l i).
Proof. revert i. induction l as [|y l IH]; intros [|i]; cbn [map nth_error option_map]; auto. Qed.

(* ================================================================ last_writer *)

Lemma lw_from_app hs : forall x j i acc,
  last_writer_from (hs ++ [x]) j i acc =
  match x with
  | MW j' _ => if Nat.eqb j' j then Some (i + length hs)%nat else last_writer_from hs j i acc
  | MR _ _ _ _ => last_writer_from hs j i acc
  end.
Proof.
  induction hs as [|h hs IH]; intros x j i acc.
  - cbn [app last_writer_from length]. rewrite Nat.add_0_r. destruct x; reflexivity.
  - cbn [app last_writer_from length]. destruct h as [j0 c0|j0 s0 e0 c0]; rewrite IH;
      destruct x as [j' c|j' s e c]; try reflexivity;
      (destruct (Nat.eqb j' j); [f_equal; lia|reflexivity]).
Qed.

Lemma lw_app_writer hs j c j' :
  last_writer (hs ++ [MW j c]) j' = if Nat.eqb j j' then Some (length hs) else last_writer hs j'.
Proof. unfold last_writer. rewrite lw_from_app. reflexivity. Qed.

Lemma lw_app_reader hs j s e c j' : last_writer (hs ++ [MR j s e c]) j' = last_writer hs j'.
Proof. unfold last_writer. rewrite lw_from_app. reflexivity. Qed.

Lemma lw_from_sound hs : forall j i acc k,
  last_writer_from hs j i acc = Some k ->
  acc = Some k \/ (i <= k /\ exists c, nth_error hs (k - i) = Some (MW j c))%nat.
Proof.
  induction hs as [|h hs IH]; intros j i acc k; cbn [last_writer_from]; [auto|].
  destruct h as [j0 c0|j0 s0 e0 c0]; intros H; apply IH in H.
  - destruct H as [H|(Hle & c & Hn)].
    + destruct (Nat.eqb_spec j0 j) as [->|N]; [|auto]. injection H as <-. right. split; [lia|].
      exists c0. rewrite Nat.sub_diag. reflexivity.
    + right. split; [lia|]. exists c. replace (k - i)%nat with (S (k - S i)) by lia. exact Hn.
  - destruct H as [H|(Hle & c & Hn)]; [auto|]. right. split; [lia|]. exists c.
    replace (k - i)%nat with (S (k - S i)) by lia. exact Hn.
Qed.

Lemma lw_sound hs j k : last_writer hs j = Some k -> exists c, nth_error hs k = Some (MW j c).
Proof.
  unfold last_writer. intros H. apply lw_from_sound in H. destruct H as [H|(_ & c & Hn)]; [discriminate|].
  rewrite Nat.sub_0_r in Hn. eauto.
Qed.

(* changing only the closed flag of a handle does not change who wrote last *)
Definition same_but_closed (a b : mhandle) : Prop :=
  match a, b with
  | MW j _, MW j' _ => j = j'
  | MR _ _ _ _, MR _ _ _ _ => True
  | _, _ => False
  end.

Lemma lw_from_set hs : forall i x j k acc,
  (forall y, nth_error hs i = Some y -> same_but_closed y x) ->
  last_writer_from (set_nth hs i x) j k acc = last_writer_from hs j k acc.
Proof.
  induction hs as [|h hs IH]; intros i x j k acc H; [destruct i; reflexivity|].
  destruct i as [|i]; cbn [set_nth last_writer_from].
  - specialize (H h eq_refl). destruct h, x; cbn in H; try contradiction; subst; reflexivity.
  - destruct h; apply IH; exact H.
Qed.

Lemma lw_set hs i x j :
  (forall y, nth_error hs i = Some y -> same_but_closed y x) -> last_writer (set_nth hs i x) j = last_writer hs j.
Proof. apply lw_from_set. Qed.

(* ================================================================ the invariant of deviation-free runs *)

Definition unclosed (m : mst) (i : nat) (j : nat) : Prop :=
  exists hd, nth_error (m_hs m) i = Some hd /\ h_closed hd = false /\ h_file hd = j.

Record minv (m : mst) : Prop := MI {
  mi_keys : NoDup (dkeys (m_dir m));
  mi_files : NoDup (map snd (m_dir m));
  mi_range : forall e, In e (m_dir m) -> (snd e < length (m_files m))%nat;
  mi_open : forall i j, unclosed m i j -> mf_open (m_file m j) = true;
  mi_uniq : forall i i' j, unclosed m i j -> unclosed m i' j -> i = i';
  mi_last : forall i j, nth_error (m_hs m) i = Some (MW j false) -> last_writer (m_hs m) j = Some i;
  mi_meta : forall f, m_meta m = Some f -> xfd_ok f = true }.

Lemma minv_empty : minv m_empty.
Proof.
  constructor; cbn; try constructor; try (intros; contradiction); try discriminate.
  - intros i j (hd & H & _). destruct i; discriminate.
  - intros i i' j (hd & H & _). destruct i; discriminate.
  - intros i j H. destruct i; discriminate.
Qed.

Lemma mnorm_small f : xfd_ok f = true -> big_num f = false -> mnorm f = f.
Proof.
  unfold big_num, xfd_ok, mnorm. intros H. rewrite H. cbn [andb]. intros Hb.
  apply andb_prop in H. destruct H as (_ & Hn). apply Z.leb_le in Hn. apply Z.leb_gt in Hb.
  destruct f as [t n]. cbn [x_ty x_num] in *. f_equal. apply Z.mod_small. lia.
Qed.

(* abstraction of an entry, pointwise *)
Definition absval (m : mst) (j : nat) : cfile := (mf_data (m_file m j), last_writer (m_hs m) j).

Lemma abs_entry_key m e : fst (abs_entry m e) = fst e.
Proof. reflexivity. Qed.

Lemma abs_dir_ext m m' d :
  (forall e, In e d -> absval m' (snd e) = absval m (snd e)) -> map (abs_entry m') d = map (abs_entry m) d.
Proof.
  intros H. apply map_ext_in. intros e He. unfold abs_entry. specialize (H e He). unfold absval in H.
  injection H as -> ->. reflexivity.
Qed.

Lemma m_file_app_old m x j : (j < length (m_files m))%nat -> nth j (m_files m ++ [x]) mf_default = m_file m j.
Proof. intros H. unfold m_file. apply app_nth1. exact H. Qed.

(* ================================================================ more list facts *)

Lemma dset_absent {A} k (v : A) d : dlookup k d = None -> dset k v d = d ++ [(k, v)].
Proof.
  induction d as [|[k' v'] d IH]; cbn [dlookup dset app]; [reflexivity|].
  destruct (xfd_eqb k k'); [discriminate|]. intros H. now rewrite IH.
Qed.

Lemma NoDup_map_inj_in {A B} (f : A -> B) (l : list A) x y :
  NoDup (map f l) -> In x l -> In y l -> f x = f y -> x = y.
Proof.
  induction l as [|z l IH]; cbn [map]; [intros _ []|].
  intros H Hx Hy E. inversion H as [|? ? Hn Hd]; subst.
  destruct Hx as [->|Hx]; destruct Hy as [->|Hy]; auto.
  - exfalso. apply Hn. rewrite E. apply in_map. exact Hy.
  - exfalso. apply Hn. rewrite <- E. apply in_map. exact Hx.
Qed.

Lemma snd_dremove_nodup {A} k (d : list (xfd * A)) : NoDup (map snd d) -> NoDup (map snd (dremove k d)).
Proof.
  induction d as [|[k' v] d IH]; cbn [dremove map snd]; intros H; [constructor|].
  inversion H as [|? ? Hn Hd]; subst. destruct (xfd_eqb k k'); [auto|].
  cbn [map snd]. constructor; [|auto]. intros Hin. apply Hn.
  apply in_map_iff in Hin. destruct Hin as (e & E1 & E2). apply In_dremove in E2.
  apply in_map_iff. exists e. split; [exact E1|apply E2].
Qed.

Lemma snd_dset_nodup {A} k (v : A) (d : list (xfd * A)) :
  NoDup (map snd d) -> ~ In v (map snd d) -> NoDup (map snd (dset k v d)).
Proof.
  induction d as [|[k' v'] d IH]; cbn [dset map snd]; intros H Hv.
  - constructor; [intros []|constructor].
  - inversion H as [|? ? Hn Hd]; subst. destruct (xfd_eqb k k'); cbn [map snd].
    + constructor; [|exact Hd]. intros Hin. apply Hv. right. exact Hin.
    + constructor.
      * intros Hin. apply in_map_iff in Hin. destruct Hin as (e & E1 & E2).
        assert (Hcase : e = (k, v) \/ In e d).
        { clear -E2. induction d as [|[k2 v2] d IH]; cbn [dset] in E2.
          - destruct E2 as [<-|[]]. auto.
          - destruct (xfd_eqb k k2).
            + destruct E2 as [<-|E2]; [auto|right; right; exact E2].
            + destruct E2 as [<-|E2]; [right; left; reflexivity|]. destruct (IH E2); [auto|right; right; assumption]. }
        destruct Hcase as [->|Hin]; [cbn in E1; subst; apply Hv; left; reflexivity|].
        apply Hn. rewrite <- E1. apply in_map. exact Hin.
      * apply IH; [exact Hd|]. intros Hin. apply Hv. right. exact Hin.
Qed.

(* ================================================================ files after an update *)

Lemma file_after_set m j x j' :
  nth j' (set_nth (m_files m) j x) mf_default = if Nat.eqb j j' && Nat.ltb j (length (m_files m)) then x else m_file m j'.
Proof. apply nth_set_nth. Qed.

Lemma data_set_open m j b j' : mf_data (nth j' (set_open m j b) mf_default) = mf_data (m_file m j').
Proof.
  unfold set_open. rewrite file_after_set. destruct (Nat.eqb_spec j j') as [->|N]; cbn [andb]; [|reflexivity].
  destruct (Nat.ltb _ _); reflexivity.
Qed.

Lemma open_set_open m j b j' :
  mf_open (nth j' (set_open m j b) mf_default) =
  if Nat.eqb j j' && Nat.ltb j (length (m_files m)) then b else mf_open (m_file m j').
Proof.
  unfold set_open. rewrite file_after_set. destruct (Nat.eqb j j' && Nat.ltb j (length (m_files m))); reflexivity.
Qed.

Lemma open_in_range m j : mf_open (m_file m j) = true -> (j < length (m_files m))%nat.
Proof.
  intros H. destruct (Nat.lt_ge_cases j (length (m_files m))); [assumption|].
  unfold m_file in H. rewrite nth_overflow in H by assumption. discriminate.
Qed.

(* unclosed handles after appending one *)
Lemma unclosed_app m hs' x i j :
  (exists hd, nth_error (m_hs m ++ [x]) i = Some hd /\ h_closed hd = false /\ h_file hd = j) ->
  hs' = m_hs m ->
  unclosed m i j \/ (i = length (m_hs m) /\ h_closed x = false /\ h_file x = j).
Proof.
  intros (hd & Hn & Hc & Hf) _. destruct (Nat.lt_ge_cases i (length (m_hs m))) as [Hlt|Hge].
  - left. exists hd. rewrite nth_error_app1 in Hn by assumption. auto.
  - right. rewrite nth_error_app2 in Hn by assumption.
    destruct (i - length (m_hs m))%nat as [|k] eqn:E; cbn in Hn; [|destruct k; discriminate].
    injection Hn as <-. repeat split; auto. lia.
Qed.

(* ================================================================ one call *)

Definition refines (m : mst) (o : sop) : Prop :=
  let '(m', r) := mstep true m o in minv m' /\ cstep (m_abs m) o = (m_abs m', r).

Lemma minv_same m m' :
  m_dir m' = m_dir m -> m_files m' = m_files m -> m_hs m' = m_hs m ->
  (forall f, m_meta m' = Some f -> xfd_ok f = true) -> minv m -> minv m'.
Proof.
  intros Ed Ef Eh Hm [K F R O U L M]. unfold unclosed, m_file in *.
  constructor; unfold unclosed, m_file; rewrite ?Ed, ?Ef, ?Eh; auto.
Qed.

Lemma abs_same m m' :
  m_dir m' = m_dir m -> m_files m' = m_files m -> m_hs m' = m_hs m ->
  c_dir (m_abs m') = c_dir (m_abs m) /\ c_hs (m_abs m') = c_hs (m_abs m).
Proof.
  intros Ed Ef Eh. unfold m_abs. cbn [c_dir c_hs]. rewrite Ed, Eh. split; [|reflexivity].
  apply map_ext. intros e. unfold abs_entry, m_file. now rewrite Ef, Eh.
Qed.

Lemma abs_lookup m f :
  dlookup f (c_dir (m_abs m)) = match dlookup f (m_dir m) with Some j => Some (absval m j) | None => None end.
Proof. unfold m_abs. cbn [c_dir]. rewrite (dlookup_map (abs_entry m) (abs_entry_key m)). reflexivity. Qed.

Lemma ref_lock m : minv m -> refines m SLock.
Proof.
  intros I. unfold refines. cbn [mstep cstep m_abs c_closed c_lock c_dir c_hs c_nlock c_meta].
  destruct (m_lock m); (split; [|reflexivity]); [exact I|].
  apply (minv_same m); auto. apply (mi_meta m I).
Qed.

Lemma ref_unlock m k : minv m -> refines m (SUnlock k).
Proof.
  intros I. unfold refines. cbn [mstep cstep m_abs c_closed c_lock c_dir c_hs c_nlock c_meta].
  destruct (m_lock m) as [k'|]; [destruct (Nat.eqb k k')|]; (split; [|reflexivity]); try exact I.
  apply (minv_same m); auto. apply (mi_meta m I).
Qed.

Lemma ref_setmeta m f : minv m -> refines m (SSetMeta f).
Proof.
  intros I. unfold refines. cbn [mstep cstep m_abs c_closed c_lock c_dir c_hs c_nlock c_meta].
  destruct (xfd_ok f) eqn:Hok; cbn [negb]; (split; [|reflexivity]); [|exact I].
  apply (minv_same m); auto. cbn [m_meta]. intros f' [= <-]. exact Hok.
Qed.

Lemma ref_getmeta m : minv m -> dev_mem m SGetMeta = false -> refines m SGetMeta.
Proof.
  intros I D. unfold refines. cbn [mstep cstep c_closed m_abs c_meta]. cbn [dev_mem] in D.
  destruct (m_meta m) as [f|] eqn:Hm; [|split; [exact I|reflexivity]].
  split; [exact I|]. apply orb_false_elim in D. destruct D as (D1 & D2).
  fold (m_abs m). rewrite abs_lookup.
  rewrite (mnorm_small f (mi_meta m I f Hm) D1) in D2.
  destruct (dlookup f (m_dir m)); [reflexivity|discriminate].
Qed.

Lemma ref_list m mask : minv m -> refines m (SList mask).
Proof.
  intros I. unfold refines. cbn [mstep cstep c_closed m_abs c_dir]. split; [exact I|].
  rewrite map_map. cbn [abs_entry fst]. reflexivity.
Qed.

Lemma ref_sync m h : minv m -> dev_mem m (HSync h) = false -> refines m (HSync h).
Proof.
  intros I D. unfold refines. cbn [mstep cstep m_abs c_hs]. cbn [dev_mem] in D.
  rewrite nth_error_map_some. destruct (nth_error (m_hs m) h) as [[j c|j s e c]|]; cbn [option_map abs_handle];
    (split; [exact I|]); try reflexivity.
  cbn [h_closed] in D. subst c. reflexivity.
Qed.

Lemma ref_readall m h : minv m -> dev_mem m (HReadAll h) = false -> refines m (HReadAll h).
Proof.
  intros I D. unfold refines. cbn [mstep cstep m_abs c_hs]. cbn [dev_mem] in D.
  rewrite nth_error_map_some. destruct (nth_error (m_hs m) h) as [[j c|j s e c]|]; cbn [option_map abs_handle].
  - split; [exact I|reflexivity].
  - apply orb_false_elim in D. destruct D as (-> & D2). apply negb_false_iff in D2. rewrite D2.
    split; [exact I|reflexivity].
  - split; [exact I|reflexivity].
Qed.

(* ---- Open *)
Lemma minv_push_handle m j x fl :
  minv m -> (j < length (m_files m))%nat -> mf_open (m_file m j) = false ->
  h_file x = j -> h_closed x = false -> mf_open fl = true ->
  minv (MS (m_dir m) (set_nth (m_files m) j fl) (m_hs m ++ [x]) (m_lock m) (m_nlock m) (m_meta m)).
Proof.
  intros [K F R O U L M] Hj Hno Hxf Hxc Hfl.
  assert (Hfile : forall j', mf_open (nth j' (set_nth (m_files m) j fl) mf_default) =
                             if Nat.eqb j j' then true else mf_open (m_file m j')).
  { intros j'. rewrite file_after_set. apply Nat.ltb_lt in Hj. rewrite Hj, andb_true_r.
    destruct (Nat.eqb j j'); [exact Hfl|reflexivity]. }
  assert (Hold : forall i j', unclosed m i j' -> j' <> j).
  { intros i j' Hu ->. rewrite (O _ _ Hu) in Hno. discriminate. }
  constructor; cbn [m_dir m_files m_hs m_meta]; auto.
  - intros e He. rewrite set_nth_length. auto.
  - intros i j' Hu. unfold m_file. cbn [m_files]. rewrite Hfile.
    destruct (unclosed_app m (m_hs m) x i j' Hu eq_refl) as [Hu'|(-> & _ & <-)].
    + destruct (Nat.eqb j j'); [reflexivity|]. apply (O _ _ Hu').
    + rewrite Hxf, Nat.eqb_refl. reflexivity.
  - intros i i' j' Hu Hu'.
    destruct (unclosed_app m (m_hs m) x i j' Hu eq_refl) as [H1|(-> & _ & E1)];
      destruct (unclosed_app m (m_hs m) x i' j' Hu' eq_refl) as [H2|(-> & _ & E2)].
    + exact (U _ _ _ H1 H2).
    + exfalso. apply (Hold _ _ H1). congruence.
    + exfalso. apply (Hold _ _ H2). congruence.
    + reflexivity.
  - intros i j' Hn. destruct (Nat.lt_ge_cases i (length (m_hs m))) as [Hlt|Hge].
    + rewrite nth_error_app1 in Hn by assumption.
      assert (Hne : j' <> j) by (apply (Hold i); exists (MW j' false); auto).
      destruct x as [jx cx|jx sx ex cx].
      * rewrite lw_app_writer. cbn [h_file] in Hxf. subst jx.
        destruct (Nat.eqb_spec j j'); [congruence|]. apply L. exact Hn.
      * rewrite lw_app_reader. apply L. exact Hn.
    + rewrite nth_error_app2 in Hn by assumption.
      destruct (i - length (m_hs m))%nat as [|k] eqn:E; cbn in Hn; [|destruct k; discriminate].
      injection Hn as ->. rewrite lw_app_writer, Nat.eqb_refl. f_equal. lia.
Qed.

Lemma ref_open m f : minv m -> dev_mem m (SOpen f) = false -> refines m (SOpen f).
Proof.
  intros I D. unfold refines. cbn [mstep dev_mem] in *. unfold cstep.
  change (c_closed (m_abs m)) with false. change (c_hs (m_abs m)) with (map abs_handle (m_hs m)).
  destruct (xfd_ok f) eqn:Hok; cbn [negb]; [|split; [exact I|reflexivity]].
  apply orb_false_elim in D. destruct D as (D1 & D2). cbn [andb] in D2.
  rewrite (mnorm_small f Hok D1) in *. unfold name_open in D2. rewrite (mnorm_small f Hok D1) in D2.
  rewrite abs_lookup.
  destruct (dlookup f (m_dir m)) as [j|] eqn:Hl; [|split; [exact I|reflexivity]].
  rewrite D2. cbn [absval].
  assert (Hj : (j < length (m_files m))%nat) by (apply (mi_range m I (f, j)); apply dlookup_In; exact Hl).
  split.
  - unfold set_open. apply minv_push_handle; auto.
  - rewrite map_length. f_equal. unfold m_abs, with_hs. cbn [c_dir c_hs c_lock c_nlock c_meta c_closed m_dir m_hs m_lock m_nlock m_meta].
    rewrite map_app. cbn [map abs_handle]. f_equal.
    symmetry. apply abs_dir_ext. intros e He. unfold absval, m_file. cbn [m_files m_hs].
    rewrite data_set_open, lw_app_reader. reflexivity.
Qed.

(* ---- Create *)
Lemma dset_same {A} k (v : A) d : dlookup k d = Some v -> dset k v d = d.
Proof.
  induction d as [|[k' v'] d IH]; cbn [dlookup dset]; [discriminate|].
  destruct (xfd_eqb_spec k k') as [->|N]; [intros [= ->]; reflexivity|]. intros H. now rewrite IH.
Qed.

Lemma dset_map_ext {A B} (g g' : xfd * A -> xfd * B) k v (d : list (xfd * A)) :
  (forall e, fst (g e) = fst e) -> (forall e, fst (g' e) = fst e) ->
  NoDup (dkeys d) -> (forall e, In e d -> fst e <> k -> g e = g' e) ->
  dset k v (map g d) = dset k v (map g' d).
Proof.
  intros Gk Gk'. unfold dkeys. induction d as [|[k' v'] d IH]; cbn [map dset fst]; intros Hnd H; [reflexivity|].
  inversion Hnd as [|? ? Hn Hd]; subst.
  pose proof (Gk (k', v')) as E1. pose proof (Gk' (k', v')) as E2.
  destruct (g (k', v')) as [k1 w1] eqn:G1. destruct (g' (k', v')) as [k2 w2] eqn:G2. cbn [fst] in E1, E2. subst k1 k2.
  destruct (xfd_eqb_spec k k') as [->|N].
  - f_equal. apply map_ext_in. intros e He. apply H; [right; exact He|].
    intros E. apply Hn. apply in_map_iff. exists e. auto.
  - assert (E : (k', w1) = (k', w2)) by (rewrite <- G1, <- G2; apply H; [left; reflexivity|cbn; congruence]).
    injection E as ->. f_equal. apply IH; [exact Hd|]. intros e He. apply H. right. exact He.
Qed.

Lemma NoDup_app_end {A} (l : list A) x : NoDup l -> ~ In x l -> NoDup (l ++ [x]).
Proof.
  induction l as [|y l IH]; cbn [app]; intros H Hx; [constructor; [intros []|constructor]|].
  inversion H as [|? ? Hn Hd]; subst. constructor.
  - intros Hin. apply in_app_or in Hin. destruct Hin as [Hin|[E|[]]]; [auto|]. apply Hx. left. auto.
  - apply IH; [exact Hd|]. intros Hin. apply Hx. right. exact Hin.
Qed.

Lemma minv_create_fresh m k :
  minv m -> dlookup k (m_dir m) = None ->
  minv (MS (dset k (length (m_files m)) (m_dir m)) (m_files m ++ [MF [] true 0])
           (m_hs m ++ [MW (length (m_files m)) false]) (m_lock m) (m_nlock m) (m_meta m)).
Proof.
  intros [K F R O U L M] Hl. set (j := length (m_files m)).
  assert (Hold : forall i j', unclosed m i j' -> (j' < j)%nat) by (intros i j' Hu; apply open_in_range, (O _ _ Hu)).
  assert (Hfile : forall j', (j' < j)%nat -> nth j' (m_files m ++ [MF [] true 0]) mf_default = m_file m j')
    by (intros j' Hj; apply app_nth1; exact Hj).
  constructor; cbn [m_dir m_files m_hs m_meta]; auto.
  - apply dkeys_dset. exact K.
  - rewrite dset_absent by exact Hl. rewrite map_app. cbn [map snd]. apply NoDup_app_end.
    + exact F.
    + intros Hin. apply in_map_iff in Hin. destruct Hin as (e & E1 & E2). specialize (R e E2). subst j. lia.
  - intros e He. rewrite dset_absent in He by exact Hl. rewrite app_length. cbn [length].
    apply in_app_or in He. destruct He as [He|[<-|[]]]; [specialize (R e He); lia|cbn; subst j; lia].
  - intros i j' Hu. unfold m_file. cbn [m_files].
    destruct (unclosed_app m (m_hs m) _ i j' Hu eq_refl) as [Hu'|(-> & _ & <-)].
    + rewrite Hfile by (apply (Hold i); exact Hu'). apply (O _ _ Hu').
    + cbn [h_file]. rewrite app_nth2 by lia. fold j. rewrite Nat.sub_diag. reflexivity.
  - intros i i' j' Hu Hu'.
    destruct (unclosed_app m (m_hs m) _ i j' Hu eq_refl) as [H1|(-> & _ & E1)];
      destruct (unclosed_app m (m_hs m) _ i' j' Hu' eq_refl) as [H2|(-> & _ & E2)].
    + exact (U _ _ _ H1 H2).
    + exfalso. specialize (Hold _ _ H1). cbn [h_file] in E2. lia.
    + exfalso. specialize (Hold _ _ H2). cbn [h_file] in E1. lia.
    + reflexivity.
  - intros i j' Hn. destruct (Nat.lt_ge_cases i (length (m_hs m))) as [Hlt|Hge].
    + rewrite nth_error_app1 in Hn by assumption.
      assert (Hlt' : (j' < j)%nat) by (apply (Hold i); exists (MW j' false); auto).
      rewrite lw_app_writer. destruct (Nat.eqb_spec j j'); [lia|]. apply L. exact Hn.
    + rewrite nth_error_app2 in Hn by assumption.
      destruct (i - length (m_hs m))%nat as [|k0] eqn:E; cbn in Hn; [|destruct k0; discriminate].
      injection Hn as <-. rewrite lw_app_writer, Nat.eqb_refl. f_equal. lia.
Qed.

Lemma ref_create m f : minv m -> dev_mem m (SCreate f) = false -> refines m (SCreate f).
Proof.
  intros I D. unfold refines. cbn [mstep dev_mem] in *. unfold cstep.
  change (c_closed (m_abs m)) with false. change (c_hs (m_abs m)) with (map abs_handle (m_hs m)).
  destruct (xfd_ok f) eqn:Hok; cbn [negb]; [|split; [exact I|reflexivity]].
  apply orb_false_elim in D. destruct D as (D1 & D2). cbn [andb] in D2.
  unfold name_open in D2. rewrite (mnorm_small f Hok D1) in *.
  destruct (dlookup f (m_dir m)) as [j|] eqn:Hl.
  - rewrite D2.
    assert (Hj : (j < length (m_files m))%nat) by (apply (mi_range m I (f, j)); apply dlookup_In; exact Hl).
    split; [apply minv_push_handle; auto|].
    rewrite map_length. f_equal.
    unfold m_abs. cbn [c_dir c_hs c_lock c_nlock c_meta c_closed m_dir m_hs m_lock m_nlock m_meta].
    rewrite map_app. cbn [map abs_handle]. f_equal.
    set (m' := MS (m_dir m) (set_nth (m_files m) j (MF [] true (mf_epoch (m_file m j) + 1)))
                  (m_hs m ++ [MW j false]) (m_lock m) (m_nlock m) (m_meta m)).
    assert (Ej : absval m' j = ([], Some (length (m_hs m)))).
    { unfold absval, m', m_file. cbn [m_files m_hs]. rewrite file_after_set, Nat.eqb_refl.
      apply Nat.ltb_lt in Hj. rewrite Hj. cbn [andb mf_data]. rewrite lw_app_writer, Nat.eqb_refl. reflexivity. }
    rewrite <- (dset_same f j (m_dir m) Hl) at 2.
    rewrite <- (dset_map (abs_entry m') (abs_entry_key m')). cbn [abs_entry snd fst]. fold (absval m' j). rewrite Ej.
    apply dset_map_ext; [apply abs_entry_key|apply abs_entry_key|apply (mi_keys m I)|].
    intros e He Hne. unfold abs_entry. f_equal.
    assert (Hsj : snd e <> j).
    { intros E. apply Hne.
      assert (e = (f, j)) by (apply (NoDup_map_inj_in snd (m_dir m)); [apply (mi_files m I)|exact He|apply dlookup_In; exact Hl|exact E]).
      subst e. reflexivity. }
    unfold m', m_file. cbn [m_files m_hs]. rewrite file_after_set.
    destruct (Nat.eqb_spec j (snd e)); [congruence|]. cbn [andb]. rewrite lw_app_writer.
    destruct (Nat.eqb_spec j (snd e)); [congruence|]. reflexivity.
  - split; [apply minv_create_fresh; auto|].
    rewrite map_length. f_equal.
    unfold m_abs. cbn [c_dir c_hs c_lock c_nlock c_meta c_closed m_dir m_hs m_lock m_nlock m_meta].
    rewrite map_app. cbn [map abs_handle]. f_equal.
    set (j := length (m_files m)).
    set (m' := MS (dset f j (m_dir m)) (m_files m ++ [MF [] true 0]) (m_hs m ++ [MW j false]) (m_lock m) (m_nlock m) (m_meta m)).
    assert (Ej : absval m' j = ([], Some (length (m_hs m)))).
    { unfold absval, m', m_file. cbn [m_files m_hs]. rewrite app_nth2 by (subst j; lia). subst j. rewrite Nat.sub_diag.
      cbn [nth mf_data]. rewrite lw_app_writer, Nat.eqb_refl. reflexivity. }
    rewrite <- (dset_map (abs_entry m') (abs_entry_key m')). cbn [abs_entry snd fst]. fold (absval m' j). rewrite Ej.
    f_equal. symmetry. apply abs_dir_ext. intros e He. pose proof (mi_range m I e He) as Hr.
    unfold absval, m', m_file. cbn [m_files m_hs]. rewrite app_nth1 by exact Hr. rewrite lw_app_writer.
    destruct (Nat.eqb_spec j (snd e)); [subst j; lia|]. reflexivity.
Qed.

(* ---- Remove / Rename: the directory only *)
Lemma minv_dir m d :
  minv m -> NoDup (dkeys d) -> NoDup (map snd d) -> (forall e, In e d -> (snd e < length (m_files m))%nat) ->
  minv (MS d (m_files m) (m_hs m) (m_lock m) (m_nlock m) (m_meta m)).
Proof. intros [K F R O U L M] K' F' R'. constructor; cbn [m_dir m_files m_hs m_meta]; auto. Qed.

Lemma abs_dir_only m d :
  m_abs (MS d (m_files m) (m_hs m) (m_lock m) (m_nlock m) (m_meta m)) = with_dir (m_abs m) (map (abs_entry m) d).
Proof. reflexivity. Qed.

Lemma ref_remove m f : minv m -> dev_mem m (SRemove f) = false -> refines m (SRemove f).
Proof.
  intros I D. unfold refines. cbn [mstep dev_mem] in *. unfold cstep.
  change (c_closed (m_abs m)) with false.
  destruct (xfd_ok f) eqn:Hok; cbn [negb]; [|split; [exact I|reflexivity]].
  rewrite (mnorm_small f Hok D) in *. rewrite abs_lookup.
  destruct (dlookup f (m_dir m)) as [j|] eqn:Hl; [|split; [exact I|reflexivity]].
  split.
  - apply minv_dir; [exact I|apply dkeys_dremove, (mi_keys m I)|apply snd_dremove_nodup, (mi_files m I)|].
    intros e He. apply In_dremove in He. apply (mi_range m I). apply He.
  - rewrite abs_dir_only. f_equal. unfold with_dir. f_equal.
    change (c_dir (m_abs m)) with (map (abs_entry m) (m_dir m)).
    apply (dremove_map (abs_entry m) (abs_entry_key m)).
Qed.

Lemma ref_rename m a b : minv m -> dev_mem m (SRename a b) = false -> refines m (SRename a b).
Proof.
  intros I D. unfold refines. cbn [mstep dev_mem] in *. unfold cstep.
  change (c_closed (m_abs m)) with false.
  destruct (xfd_ok a) eqn:Ha; cbn [negb orb]; [|split; [exact I|reflexivity]].
  destruct (xfd_ok b) eqn:Hb; cbn [negb orb]; [|split; [exact I|reflexivity]].
  destruct (xfd_eqb_spec a b) as [->|Nab]; [split; [exact I|reflexivity]|].
  apply orb_false_elim in D. destruct D as (D & D3). apply orb_false_elim in D. destruct D as (D1 & D2).
  cbn [andb negb] in D3. rewrite (mnorm_small a Ha D1), (mnorm_small b Hb D2) in *.
  rewrite abs_lookup. unfold name_open in D3. rewrite (mnorm_small a Ha D1), (mnorm_small b Hb D2) in D3.
  destruct (dlookup a (m_dir m)) as [ja|] eqn:Hla; [|split; [exact I|reflexivity]].
  apply orb_false_elim in D3. destruct D3 as (Oa & Ob).
  replace (match dlookup b (m_dir m) with Some jb => mf_open (m_file m jb) | None => false end) with false
    by (symmetry; exact Ob).
  rewrite Oa. cbn [orb].
  pose proof (dkeys_dremove a (m_dir m) (mi_keys m I)) as (K1 & K2).
  split.
  - apply minv_dir; [exact I|apply dkeys_dset; exact K1| |].
    + apply snd_dset_nodup; [apply snd_dremove_nodup, (mi_files m I)|].
      intros Hin. apply in_map_iff in Hin. destruct Hin as (e & E1 & E2). apply In_dremove in E2. destruct E2 as (E2 & E3).
      apply E3. assert (e = (a, ja)) by (apply (NoDup_map_inj_in snd (m_dir m)); [apply (mi_files m I)|exact E2|apply dlookup_In; exact Hla|exact E1]).
      subst e. reflexivity.
    + intros e He. apply (In_dset_nodup b ja _ e K1) in He. destruct He as [->|(He & _)].
      * apply (mi_range m I (a, ja)). apply dlookup_In. exact Hla.
      * apply In_dremove in He. apply (mi_range m I). apply He.
  - rewrite abs_dir_only. f_equal. unfold with_dir. f_equal.
    change (c_dir (m_abs m)) with (map (abs_entry m) (m_dir m)).
    rewrite (dremove_map (abs_entry m) (abs_entry_key m)).
    apply (dset_map (abs_entry m) (abs_entry_key m) b ja).
Qed.

(* ---- Write through a writer *)
Lemma ref_write m h d : minv m -> dev_mem m (HWrite h d) = false -> refines m (HWrite h d).
Proof.
  intros I D. unfold refines. cbn [mstep dev_mem] in *. unfold cstep.
  change (c_hs (m_abs m)) with (map abs_handle (m_hs m)). rewrite nth_error_map_some.
  destruct (nth_error (m_hs m) h) as [[j c|j s e c]|] eqn:Hn; cbn [option_map abs_handle h_closed] in *;
    [|subst c; split; [exact I|reflexivity]|split; [exact I|reflexivity]].
  subst c. destruct I as [K F R O U L M].
  set (fl := MF (mf_data (m_file m j) ++ d) (mf_open (m_file m j)) (mf_epoch (m_file m j))).
  assert (Hopen : forall j', mf_open (nth j' (set_nth (m_files m) j fl) mf_default) = mf_open (m_file m j')).
  { intros j'. rewrite file_after_set. destruct (Nat.eqb_spec j j') as [->|N]; cbn [andb]; [|reflexivity].
    destruct (Nat.ltb _ _); reflexivity. }
  split.
  - constructor; unfold m_with_files, unclosed, m_file in *; cbn [m_dir m_files m_hs m_meta]; auto.
    + intros e He. rewrite set_nth_length. auto.
    + intros i j' Hu. rewrite Hopen. apply (O _ _ Hu).
  - f_equal. unfold m_abs, m_with_files, with_dir.
    cbn [c_dir c_hs c_lock c_nlock c_meta c_closed m_dir m_hs m_lock m_nlock m_meta m_files]. f_equal.
    rewrite map_map. apply map_ext_in. intros [k j'] He. unfold abs_entry, cappend. cbn [fst snd].
    cbn [m_hs]. unfold m_file at 4. cbn [m_files]. rewrite file_after_set.
    specialize (R _ He). cbn [snd] in R.
    destruct (Nat.eqb_spec j j') as [<-|N].
    + apply Nat.ltb_lt in R. rewrite R. cbn [andb]. rewrite (L _ _ Hn), Nat.eqb_refl. reflexivity.
    + cbn [andb]. destruct (last_writer (m_hs m) j') as [h'|] eqn:Hl; [|reflexivity].
      destruct (Nat.eqb_spec h' h) as [->|]; [|reflexivity].
      apply lw_sound in Hl. destruct Hl as (c & Hl). rewrite Hn in Hl. congruence.
Qed.

(* ---- Close of a handle *)
Lemma ref_hclose m h : minv m -> refines m (HClose h).
Proof.
  intros I. unfold refines. cbn [mstep]. unfold cstep.
  change (c_hs (m_abs m)) with (map abs_handle (m_hs m)). rewrite nth_error_map_some.
  destruct (nth_error (m_hs m) h) as [hd|] eqn:Hn; cbn [option_map]; [|split; [exact I|reflexivity]].
  destruct hd as [j [|]|j s e [|]]; cbn [abs_handle]; try (split; [exact I|reflexivity]).
  - (* an open writer *)
    pose proof I as [K F R O U L M].
    assert (Hu : unclosed m h j) by (exists (MW j false); auto).
    split.
    + constructor; cbn [m_dir m_files m_hs m_meta]; auto.
      * intros e0 He. unfold set_open. rewrite set_nth_length. auto.
      * intros i j' (hd & Hi & Hc & Hf). cbn [m_hs] in Hi. rewrite nth_error_set_nth in Hi.
        destruct (Nat.eqb_spec h i) as [->|Nh].
        { destruct (Nat.ltb _ _); [injection Hi as <-; discriminate|discriminate]. }
        assert (Hu' : unclosed m i j') by (exists hd; auto).
        unfold m_file. cbn [m_files]. rewrite open_set_open.
        destruct (Nat.eqb_spec j j') as [<-|Nj]; [exfalso; apply Nh; exact (U _ _ _ Hu Hu')|]. apply (O _ _ Hu').
      * intros i i' j' (hd & Hi & Hc & Hf) (hd' & Hi' & Hc' & Hf'). cbn [m_hs] in Hi, Hi'. rewrite nth_error_set_nth in Hi, Hi'.
        destruct (Nat.eqb_spec h i) as [->|Nh]; [destruct (Nat.ltb _ _); [injection Hi as <-; discriminate|discriminate]|].
        destruct (Nat.eqb_spec h i') as [->|Nh']; [destruct (Nat.ltb _ _); [injection Hi' as <-; discriminate|discriminate]|].
        apply (U i i' j'); [exists hd|exists hd']; auto.
      * intros i j' Hi. rewrite nth_error_set_nth in Hi.
        destruct (Nat.eqb_spec h i) as [->|Nh]; [destruct (Nat.ltb _ _); discriminate|].
        rewrite lw_set; [apply L; exact Hi|]. intros y Hy. rewrite Hn in Hy. injection Hy as <-. reflexivity.
    + f_equal. unfold m_abs, with_hs.
      cbn [c_dir c_hs c_lock c_nlock c_meta c_closed m_dir m_hs m_lock m_nlock m_meta]. f_equal.
      * symmetry. apply abs_dir_ext. intros e0 He. unfold absval, m_file. cbn [m_files m_hs].
        rewrite data_set_open. f_equal. apply lw_set. intros y Hy. rewrite Hn in Hy. injection Hy as <-. reflexivity.
      * rewrite map_set_nth. reflexivity.
  - (* an open reader *)
    pose proof I as [K F R O U L M].
    assert (Hu : unclosed m h j) by (exists (MR j s e false); auto).
    split.
    + constructor; cbn [m_dir m_files m_hs m_meta]; auto.
      * intros e0 He. unfold set_open. rewrite set_nth_length. auto.
      * intros i j' (hd & Hi & Hc & Hf). cbn [m_hs] in Hi. rewrite nth_error_set_nth in Hi.
        destruct (Nat.eqb_spec h i) as [->|Nh].
        { destruct (Nat.ltb _ _); [injection Hi as <-; discriminate|discriminate]. }
        assert (Hu' : unclosed m i j') by (exists hd; auto).
        unfold m_file. cbn [m_files]. rewrite open_set_open.
        destruct (Nat.eqb_spec j j') as [<-|Nj]; [exfalso; apply Nh; exact (U _ _ _ Hu Hu')|]. apply (O _ _ Hu').
      * intros i i' j' (hd & Hi & Hc & Hf) (hd' & Hi' & Hc' & Hf'). cbn [m_hs] in Hi, Hi'. rewrite nth_error_set_nth in Hi, Hi'.
        destruct (Nat.eqb_spec h i) as [->|Nh]; [destruct (Nat.ltb _ _); [injection Hi as <-; discriminate|discriminate]|].
        destruct (Nat.eqb_spec h i') as [->|Nh']; [destruct (Nat.ltb _ _); [injection Hi' as <-; discriminate|discriminate]|].
        apply (U i i' j'); [exists hd|exists hd']; auto.
      * intros i j' Hi. rewrite nth_error_set_nth in Hi.
        destruct (Nat.eqb_spec h i) as [->|Nh]; [destruct (Nat.ltb _ _); discriminate|].
        rewrite lw_set; [apply L; exact Hi|]. intros y Hy. rewrite Hn in Hy. injection Hy as <-. exact Logic.I.
    + f_equal. unfold m_abs, with_hs.
      cbn [c_dir c_hs c_lock c_nlock c_meta c_closed m_dir m_hs m_lock m_nlock m_meta]. f_equal.
      * symmetry. apply abs_dir_ext. intros e0 He. unfold absval, m_file. cbn [m_files m_hs].
        rewrite data_set_open. f_equal. apply lw_set. intros y Hy. rewrite Hn in Hy. injection Hy as <-. exact Logic.I.
      * rewrite map_set_nth. reflexivity.
Qed.

(* ================================================================ every call, every run *)

Theorem mem_step_refines m o : minv m -> dev_mem m o = false -> refines m o.
Proof.
  intros I D. destruct o.
  - apply ref_lock; auto.
  - apply ref_unlock; auto.
  - apply ref_setmeta; auto.
  - apply ref_getmeta; auto.
  - apply ref_list; auto.
  - apply ref_open; auto.
  - apply ref_create; auto.
  - apply ref_remove; auto.
  - apply ref_rename; auto.
  - discriminate D.
  - apply ref_write; auto.
  - apply ref_sync; auto.
  - apply ref_readall; auto.
  - apply ref_hclose; auto.
Qed.

Theorem mem_run_refines : forall ops m,
  minv m -> mem_dev_free m ops = true ->
  let '(m', rs) := mrun true m ops in minv m' /\ crun (m_abs m) ops = (m_abs m', rs).
Proof.
  induction ops as [|o ops IH]; intros m I D; cbn [mrun crun].
  - auto.
  - cbn [mem_dev_free] in D. apply andb_prop in D. destruct D as (D1 & D2). apply negb_true_iff in D1.
    pose proof (mem_step_refines m o I D1) as R. unfold refines in R.
    destruct (mstep true m o) as [m1 r] eqn:Hs. cbn [fst] in D2. destruct R as (I1 & R1).
    specialize (IH m1 I1 D2). destruct (mrun true m1 ops) as [m2 rs]. destruct IH as (I2 & R2).
    split; [exact I2|]. rewrite R1, R2. reflexivity.
Qed.

Corollary memstorage_contract_from_empty ops :
  mem_dev_free m_empty ops = true -> snd (crun c_empty ops) = snd (mrun true m_empty ops).
Proof.
  intros D. pose proof (mem_run_refines ops m_empty minv_empty D) as R.
  destruct (mrun true m_empty ops) as [m' rs]. destruct R as (_ & R).
  change (m_abs m_empty) with c_empty in R. rewrite R. reflexivity.
Qed.

(* ================================================================ the checker's storage (vstor) *)

Theorem vstor_step_refines c o :
  c_closed c = false -> dev_vstor c o = false ->
  vstep c o = cstep c o /\ c_closed (fst (vstep c o)) = false.
Proof.
  intros Hc D.
  assert (Hstep : forall o', (match o' with SClose => False | _ => True end) -> c_closed (fst (cstep c o')) = false).
  { intros o' Ho. destruct o'; try contradiction; cbn [cstep]; rewrite ?Hc;
      repeat match goal with
             | |- context [match ?x with _ => _ end] => destruct x
             end; cbn [fst c_closed with_hs with_dir]; auto. }
  destruct o; cbn [vstep dev_vstor] in *; try discriminate;
    try (split; [reflexivity|apply Hstep; exact Logic.I]).
  cbn [cstep]. rewrite Hc. destruct (c_meta c) as [f|]; [|auto].
  destruct (dlookup f (c_dir c)); [auto|discriminate].
Qed.

Fixpoint vstor_dev_free (c : cst) (ops : list sop) : bool :=
  match ops with
  | [] => true
  | o :: ops' => negb (dev_vstor c o) && vstor_dev_free (fst (vstep c o)) ops'
  end.

Theorem vstor_run_refines : forall ops c,
  c_closed c = false -> vstor_dev_free c ops = true -> vrun c ops = crun c ops.
Proof.
  induction ops as [|o ops IH]; intros c Hc D; cbn [vrun crun]; [reflexivity|].
  cbn [vstor_dev_free] in D. apply andb_prop in D. destruct D as (D1 & D2). apply negb_true_iff in D1.
  destruct (vstor_step_refines c o Hc D1) as (E & Hc'). rewrite <- E.
  destruct (vstep c o) as [c1 r]. cbn [fst] in *. rewrite (IH c1 Hc' D2). reflexivity.
Qed.
