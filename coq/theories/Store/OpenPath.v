(* Store/OpenPath.v — leveldb.Open as ONE function on a storage image given as bytes.
   Model file: definitions only (proofs: Store/OpenPathProofs.v, Store/OpenJournalProofs.v, Store/OpenEndProofs.v).

   Go code followed, step by step, by CALLING the models of the layers (nothing is re-modelled here):
     leveldb/db.go            Open (recover / create / ErrorIfMissing / ErrorIfExist), openDB, recoverJournal,
                              recoverJournalRO                                                   (this file)
     leveldb/session.go       session.recover: GetMeta, Open of the manifest, journal.NewReader(strict, checksum = true),
                              the record loop, the checks      (Codec/Journal.v jread + Codec/SessionRecord.v session_recover)
                              session.commit: spawn, newManifest when there is no writer yet, newManifest with a
                              table-less record when Size() >= MaxManifestFileSize, flushManifest otherwise  (this file,
                              with SessionRecord.commit / finish_level for versionStaging and SessionRecord.encode)
     leveldb/session_util.go  newManifest, flushManifest, fillRecord, recordCommited, allocFileNum, markFileNum,
                              setNextFileNum                                                      (this file)
     leveldb/version.go       version.fillRecord, versionStaging.finish's sorting (sortByNum / sortByKey)  (this file)
     leveldb/session_compaction.go  flushMemdb: tOps.createFrom over the memdb iterator, pickMemdbLevel(…, 0) = 0
                              (Codec/Table.v twrite on Lsm/ReadPath.v mem_pairs; iComparer's Separator / Successor
                              from Codec/IKey.v)
     leveldb/batch.go         decodeBatchToMem                                   (Codec/Batch.v decode_to_mem)
     leveldb/memdb            New / Reset / Len / Size / Put                     (Mem/MemDB.v)
     leveldb/db_state.go      newMem(0) at Open: allocFileNum, Create of the journal file
     leveldb/db_util.go       checkAndCleanFiles                                 (Store/Sweep.v janitor, rj_select)
     leveldb/storage          the abstract storage of the checker (harness/lib/vstor): a meta pointer and files by
                              (type, number); List is ordered by type code, then number.  The real file storage
                              enters through Store/FileStorage.v get_meta (open_dir below).

   What is a result: an explicit error exactly where the Go code returns one, or the recovered DB: the byte-level
   state of Lsm/ReadPath.v (db.mem, the version's levels with every table file's bytes), db.seq, the session's
   numbers, the storage as Open leaves it (new manifest, new journal, flushed tables, removed files) and the
   sequence of Remove calls.  [os_kept] is a ghost: (first sequence number, count) of every journal batch applied.

   Not modelled: storage errors (every storage call succeeds: C08), the table cache, logging, the goroutines
   started by openDB, option getters' clamping (the harness passes in-range values), compression other than the
   [compress]/[snappy] handed to the table writer model, the number of entries flushMemdb logs. *)
From Coq Require Import List NArith ZArith Bool.
From GL Require Import Base.Bytes Base.Order Codec.IKey Codec.Journal Codec.JournalSpec Codec.Table Lsm.ReadPath.
From GL Require Codec.SessionRecord Codec.Batch Store.Sweep Store.FileStorage Mem.MemDB.
Import ListNotations.
Open Scope N_scope.

Module SR := GL.Codec.SessionRecord.
Module BT := GL.Codec.Batch.
Module SW := GL.Store.Sweep.
Module FS := GL.Store.FileStorage.

(* ------------------------------------------------------------------ the storage *)
Definition files : Type := list (SW.fd * bytes).          (* first binding counts *)

Record simage := mkSI {
  si_meta : option N;        (* GetMeta: number of the manifest the meta pointer names; None = os.ErrNotExist *)
  si_files : files }.

Fixpoint f_lookup (fs : files) (x : SW.fd) : option bytes :=
  match fs with
  | [] => None
  | (y, d) :: r => if SW.fd_eqb x y then Some d else f_lookup r x
  end.
Definition f_del (fs : files) (x : SW.fd) : files := filter (fun e => negb (SW.fd_eqb x (fst e))) fs.
(* Create + Write + Close: a new file, or the truncation of an existing one *)
Definition f_set (fs : files) (x : SW.fd) (d : bytes) : files := (x, d) :: f_del fs x.

(* storage.FileType values order the listing (vstor.List: by type, then number) *)
Definition tcode (t : SW.ftype) : N :=
  match t with SW.FManifest => 1 | SW.FJournal => 2 | SW.FTable => 4 | SW.FTemp => 8 end.
Definition fd_lt (a b : SW.fd) : bool :=
  (tcode (fst a) <? tcode (fst b)) || ((tcode (fst a) =? tcode (fst b)) && (snd a <? snd b)).
Fixpoint fd_insert (x : SW.fd) (l : list SW.fd) : list SW.fd :=
  match l with
  | [] => [x]
  | y :: l' => if fd_lt x y then x :: l else y :: fd_insert x l'
  end.
Definition f_list (fs : files) : list SW.fd := fold_right fd_insert [] (map fst fs).

(* ------------------------------------------------------------------ options, errors, results *)
Record oopts := mkOO {
  oo_strict_man : bool;      (* opt.StrictManifest *)
  oo_strict_j : bool;        (* opt.StrictJournal *)
  oo_jck : bool;             (* opt.StrictJournalChecksum *)
  oo_wbuf : Z;               (* GetWriteBuffer() *)
  oo_maxman : Z;             (* GetMaxManifestFileSize() *)
  oo_ro : bool;              (* ReadOnly *)
  oo_err_missing : bool;     (* ErrorIfMissing *)
  oo_err_exist : bool;       (* ErrorIfExist *)
  oo_cmp_name : bytes }.     (* s.icmp.uName() *)

Inductive oerr :=
| OENotExist                          (* os.ErrNotExist handed through (ErrorIfMissing or ReadOnly, empty storage) *)
| OEEntryCorrupt                      (* "database entry point either missing or corrupted" *)
| OEMetaCorrupt                       (* GetMeta of the file storage: ErrCorrupted (no usable CURRENT*, some unusable) *)
| OEExist                             (* os.ErrExist (ErrorIfExist) *)
| OEManifestRead                      (* the journal reader's error on the manifest (StrictManifest) *)
| OEManifest (f : SR.rfail)           (* what session.recover itself reports *)
| OEJournalRead (j : N)               (* the journal reader's error on journal j (StrictJournal) *)
| OEBatch (j : N) (e : BT.berr)       (* decodeBatchToMem's error on journal j, returned when StrictJournal *)
| OEFlush                             (* tOps.createFrom: the table writer refused a key *)
| OEEncode                            (* sessionRecord.encode panics (a negative number) *)
| OEMissing (ts : list N)             (* checkAndCleanFiles: ErrCorrupted{ErrMissingFiles} *)
| OEPanic
| OEFuel.

Inductive ores (A : Type) := OOk (a : A) | OErr (e : oerr).
Arguments OOk {A} a. Arguments OErr {A} e.
Definition obind {A B} (m : ores A) (k : A -> ores B) : ores B :=
  match m with OOk a => k a | OErr e => OErr e end.
Notation "'odo' x <- m ; k" := (obind m (fun x => k)) (at level 200, x pattern, m at level 100, k at level 200).

Definition of_mres {A} (r : MemDB.res A) : ores A :=
  match r with MemDB.Ok a => OOk a | MemDB.Panic => OErr OEPanic | MemDB.OutOfFuel => OErr OEFuel end.

(* the session: stNextFileNum, stJournalNum, stPrevJournalNum, stSeqNum, stCompPtrs, the version (as the records
   of its tables, every level in slice order), manifestFd.Num, manifest != nil, and the records written to the
   manifest this session owns (its file is their journal framing, every record followed by Flush) *)
Record sess := mkSess {
  s_next : Z; s_jnum : Z; s_prev : Z; s_seq : N;
  s_cptrs : list (option bytes);
  s_levels : list (list SR.atrec);
  s_manfd : Z; s_hasman : bool; s_manrecs : list bytes }.

(* the recovered DB *)
Record ostate := mkOS {
  os_bs : bstate;              (* db.mem, db.frozenMem, the version with the bytes of its table files *)
  os_seq : N;                  (* db.seq *)
  os_sess : sess;
  os_journal : option N;       (* db.journalFd.Num; None in read-only mode *)
  os_image : simage;           (* the storage afterwards *)
  os_removed : list SW.fd;     (* every Remove call, in order *)
  os_commits : list (N * N * list N);   (* ghost: (journal, sequence number, added tables) of every committed record *)
  os_kept : list (N * N);      (* ghost: journal batches applied *)
  os_hts : list N }.           (* the memdb heights not consumed *)

Section OpenPath.
  Variable jcrc : bytes -> N.            (* the journal's checksum *)
  Variable jp : jparams.
  Variable rp : SR.rparams.
  Variable kp : kparams.
  Variable bhl : N.                      (* batchHeaderLen *)
  Variable mp : MemDB.mparams.
  Variable tp : tparams.
  Variable tcrc : bytes -> N.            (* the table's checksum *)
  Variable compress : bytes -> bytes.
  Variable snappy : bool.                (* o.GetCompression() == SnappyCompression *)
  Variable fgen : option (bytes * (list (N * list bytes) -> bytes)).   (* o.GetFilter() on the writer side *)
  Variable blockSize ri : N.             (* o.GetBlockSize(), o.GetBlockRestartInterval() *)
  Variable c : comparer.                 (* the user comparer *)

  (* iComparer as the table writer sees it: Compare on encoded keys (ReadPath.ibc_cmp), Separator / Successor of
     Codec/IKey.v (a panic of the assert — a key shorter than 8 bytes — reads as "no shortening"; memdb keys
     are made by makeInternalKey) *)
  Definition iwc : comparer :=
    {| cmp := ibc_cmp c;
       sep := fun a b => match isep_bytes c kp a b with Some r => r | None => None end;
       succ := fun b => match isucc_bytes c kp b with Some r => r | None => None end |}.

  (* the manifest file of the session: Next, encode, Flush per record *)
  Definition man_bytes (recs : list bytes) : bytes := jwrite jcrc jp (repeat true (length recs)) recs.

  (* ---------------------------------------------------------------- versionStaging.finish(false) with its sorts *)
  Fixpoint ins_by (less : SR.atrec -> SR.atrec -> bool) (t : SR.atrec) (l : list SR.atrec) : list SR.atrec :=
    match l with
    | [] => [t]
    | x :: l' => if less t x then t :: l else x :: ins_by less t l'
    end.
  Definition sort_by (less : SR.atrec -> SR.atrec -> bool) (l : list SR.atrec) : list SR.atrec :=
    fold_right (ins_by less) [] l.
  (* lessByNum: descending file number *)
  Definition less_num (a b : SR.atrec) : bool := (SR.at_num b <? SR.at_num a)%Z.
  (* lessByKey: imin ascending under iComparer, then file number ascending *)
  Definition less_key (a b : SR.atrec) : bool :=
    match ibc_cmp c (SR.at_imin a) (SR.at_imin b) with
    | Lt => true
    | Eq => (SR.at_num a <? SR.at_num b)%Z
    | Gt => false
    end.
  Definition sort_level (level : nat) (l : list SR.atrec) : list SR.atrec :=
    match level with O => sort_by less_num l | S _ => sort_by less_key l end.

  (* one level: unchanged when the scratch is empty, the filtered base when nothing was added, sorted otherwise *)
  Definition finish_level_go (level : nat) (base : list SR.atrec) (sc : SR.scratch) : list SR.atrec :=
    match SR.sc_added sc with
    | [] => SR.finish_level base sc
    | _ => sort_level level (SR.finish_level base sc)
    end.
  Definition finish_go (base : list (list SR.atrec)) (stg : list SR.scratch) : list (list SR.atrec) :=
    SR.trim_levels (map (fun i => finish_level_go i (nth i base []) (nth i stg SR.sc_empty))
                        (seq 0 (Nat.max (length base) (length stg)))).

  (* version.spawn(rec, false) *)
  Definition spawn (base : list (list SR.atrec)) (rec : SR.srec) : ores (list (list SR.atrec)) :=
    match SR.commit base [] rec with
    | SR.PPanic => OErr OEPanic
    | SR.POk stg => OOk (finish_go base stg)
    end.

  (* ---------------------------------------------------------------- session_util.go *)
  (* recordCommited *)
  Definition record_commited (s : sess) (rec : SR.srec) : ores sess :=
    match SR.pfold SR.set_comp_ptr (SR.sr_cps rec) (s_cptrs s) with
    | SR.PPanic => OErr OEPanic
    | SR.POk cps =>
        OOk (mkSess (s_next s)
                    (if SR.has rec (SR.tJournalNum rp) then SR.sr_journal rec else s_jnum s)
                    (if SR.has rec (SR.tPrevJournalNum rp) then SR.sr_prevjournal rec else s_prev s)
                    (if SR.has rec (SR.tSeqNum rp) then SR.sr_seq rec else s_seq s)
                    cps (s_levels s) (s_manfd s) (s_hasman s) (s_manrecs s))
    end.

  (* for level, ik := range s.stCompPtrs { if ik != nil { r.addCompPtr(level, ik) } } *)
  Fixpoint add_cptrs (level : Z) (cps : list (option bytes)) (rec : SR.srec) : SR.srec :=
    match cps with
    | [] => rec
    | Some ik :: r => add_cptrs (level + 1)%Z r (SR.add_comp_ptr rp rec (SR.mkcp level ik))
    | None :: r => add_cptrs (level + 1)%Z r rec
    end.

  (* session.fillRecord(r, snapshot) *)
  Definition fill_record (s : sess) (rec : SR.srec) (snapshot : bool) (name : bytes) : SR.srec :=
    let r1 := SR.set_nextfile rp rec (s_next s) in
    if snapshot then
      let r2 := if SR.has r1 (SR.tJournalNum rp) then r1 else SR.set_journal rp r1 (s_jnum s) in
      let r3 := if SR.has r2 (SR.tSeqNum rp) then r2 else SR.set_seq rp r2 (s_seq s) in
      SR.set_comparer rp (add_cptrs 0%Z (s_cptrs s) r3) name
    else r1.

  (* version.fillRecord(r): every table of the version that the record does not already add *)
  Definition v_fill_record (v : list (list SR.atrec)) (rec : SR.srec) : SR.srec :=
    let listed := map SR.at_num (SR.sr_adds rec) in
    fold_left (fun r lt =>
                 fold_left (fun r' t => if SR.memZ (SR.at_num t) listed then r'
                                        else SR.add_table rp r' (SR.mkat (Z.of_nat (fst lt)) (SR.at_num t) (SR.at_size t)
                                                                         (SR.at_imin t) (SR.at_imax t)))
                           (snd lt) r)
              (combine (seq 0 (length v)) v) rec.

  (* what commit works on: the storage, the meta pointer, the session, the Remove calls so far *)
  Record cst := mkC { c_files : files; c_meta : option N; c_sess : sess; c_removed : list SW.fd;
                      c_commits : list (N * N * list N) }.   (* ghost: (journal, sequence number, added tables) per committed record *)

  (* newManifest(rec, v): the record as the caller sees it afterwards comes back (it is filled in place) *)
  Definition new_manifest (name : bytes) (rec : SR.srec) (v : list (list SR.atrec)) (st : cst) : ores (cst * SR.srec) :=
    let s := c_sess st in
    let m := s_next s in                                       (* allocFileNum *)
    let s1 := mkSess (m + 1)%Z (s_jnum s) (s_prev s) (s_seq s) (s_cptrs s) (s_levels s) (s_manfd s) (s_hasman s) (s_manrecs s) in
    let rec' := v_fill_record v (fill_record s1 rec true name) in
    match SR.encode rp rec' with
    | None => OErr OEEncode
    | Some b =>
        odo s2 <- record_commited s1 rec';
        let fs1 := f_set (c_files st) (SW.FManifest, Z.to_N m) (man_bytes [b]) in
        (* "if !s.manifestFd.Zero()": the descriptor recover stored has a type, a session that was just created has none *)
        let old := (SW.FManifest, Z.to_N (s_manfd s)) in
        let has_old := s_hasman s || negb (s_manfd s <? 0)%Z in
        let '(fs2, rm) := if has_old then (f_del fs1 old, [old]) else (fs1, []) in
        OOk (mkC fs2 (Some (Z.to_N m))
                 (mkSess (s_next s2) (s_jnum s2) (s_prev s2) (s_seq s2) (s_cptrs s2) (s_levels s2) m true [b])
                 (c_removed st ++ rm) (c_commits st), rec')
    end.

  (* flushManifest(rec) *)
  Definition flush_manifest (name : bytes) (rec : SR.srec) (st : cst) : ores (cst * SR.srec) :=
    let s := c_sess st in
    let rec' := fill_record s rec false name in
    match SR.encode rp rec' with
    | None => OErr OEEncode
    | Some b =>
        odo s2 <- record_commited s rec';
        let recs := s_manrecs s ++ [b] in
        OOk (mkC (f_set (c_files st) (SW.FManifest, Z.to_N (s_manfd s)) (man_bytes recs)) (c_meta st)
                 (mkSess (s_next s2) (s_jnum s2) (s_prev s2) (s_seq s2) (s_cptrs s2) (s_levels s2) (s_manfd s2) true recs)
                 (c_removed st) (c_commits st), rec')
    end.

  Definition set_levels (s : sess) (v : list (list SR.atrec)) : sess :=
    mkSess (s_next s) (s_jnum s) (s_prev s) (s_seq s) (s_cptrs s) v (s_manfd s) (s_hasman s) (s_manrecs s).

  (* session.commit(rec, false) *)
  Definition commit (o : oopts) (rec : SR.srec) (st : cst) : ores (cst * SR.srec) :=
    let s := c_sess st in
    odo nv <- spawn (s_levels s) rec;
    odo r <-
      (if negb (s_hasman s) then new_manifest (oo_cmp_name o) rec nv st
       else if (oo_maxman o <=? Z.of_N (lenN (man_bytes (s_manrecs s))))%Z then
         let nr0 := SR.sr_empty in
         let nr1 := if SR.has rec (SR.tJournalNum rp) then SR.set_journal rp nr0 (SR.sr_journal rec) else nr0 in
         let nr2 := if SR.has rec (SR.tPrevJournalNum rp) then SR.set_prevjournal rp nr1 (SR.sr_prevjournal rec) else nr1 in
         let nr3 := if SR.has rec (SR.tSeqNum rp) then SR.set_seq rp nr2 (SR.sr_seq rec) else nr2 in
         odo r' <- new_manifest (oo_cmp_name o) nr3 nv st;
         OOk (fst r', rec)
       else flush_manifest (oo_cmp_name o) rec st);
    let '(st', rec') := r in
    (* setVersion(r, nv); the ghost trace records what the commit hook of the harness sees *)
    OOk (mkC (c_files st') (c_meta st') (set_levels (c_sess st') nv) (c_removed st')
             (c_commits st' ++ [(Z.to_N (SR.sr_journal rec'), SR.sr_seq rec', map (fun t => Z.to_N (SR.at_num t)) (SR.sr_adds rec'))]),
         rec').

  (* ---------------------------------------------------------------- session.recover *)
  (* the outcomes of the journal reader up to its first error *)
  Fixpoint upto_err (l : list outcome) : list outcome * option outcome :=
    match l with
    | [] => ([], None)
    | Rec b :: r => let (a, e) := upto_err r in (Rec b :: a, e)
    | Skipped :: r => let (a, e) := upto_err r in (Skipped :: a, e)
    | Dropped x y :: r => upto_err r
    | o :: _ => ([], Some o)
    end.

  Definition stop_err (o : outcome) (read_err : oerr) : oerr :=
    match o with Journal.Panic => OEPanic | Journal.OutOfFuel => OEFuel | _ => read_err end.

  (* GetMeta + Open of the manifest; None = os.ErrNotExist *)
  Definition manifest_of (img : simage) : option (N * bytes) :=
    match si_meta img with
    | None => None
    | Some m => option_map (fun d => (m, d)) (f_lookup (si_files img) (SW.FManifest, m))
    end.

  Definition session_recover (o : oopts) (m : N) (d : bytes) : ores sess :=
    let (outs_, stop) := upto_err (jread jcrc jp (oo_strict_man o) true d) in
    let r := SR.session_recover rp (oo_strict_man o) (oo_cmp_name o) (recs_of outs_) in
    let late := match stop with Some e => Some (stop_err e OEManifestRead) | None => None end in
    match r, late with
    | SR.RecFail (SR.RFDecode e), _ => OErr (OEManifest (SR.RFDecode e))
    | SR.RecFail SR.RFPanic, _ => OErr OEPanic
    | SR.RecFail SR.RFFuel, _ => OErr OEFuel
    | _, Some e => OErr e
    | SR.RecFail f, None => OErr (OEManifest f)
    | SR.RecOk ss, None =>
        OOk (mkSess (SR.ss_nextfile ss) (SR.ss_journal ss) (SR.ss_prevjournal ss) (SR.ss_seq ss) (SR.ss_cptrs ss)
                    (map (fun lt => sort_level (fst lt) (snd lt))
                         (combine (seq 0 (length (SR.ss_levels ss))) (SR.ss_levels ss)))
                    (Z.of_N m) false [])
    end.

  (* ---------------------------------------------------------------- recoverJournal *)
  Record rj := mkRJ {
    r_c : cst;
    r_rec : SR.srec;          (* rec = &sessionRecord{}, reused by every commit *)
    r_seq : N;                (* db.seq *)
    r_mdb : MemDB.db;
    r_hts : list N;
    r_kept : list (N * N) }.

  (* session.flushMemdb(rec, mdb, 0) *)
  Definition flush_memdb (st : rj) : ores rj :=
    let kvs := mem_pairs mp (r_mdb st) in
    match twrite tp tcrc compress iwc blockSize ri snappy fgen kvs with
    | None => OErr OEFlush
    | Some file =>
        let cs := r_c st in
        let s := c_sess cs in
        let t := s_next s in
        let s' := mkSess (t + 1)%Z (s_jnum s) (s_prev s) (s_seq s) (s_cptrs s) (s_levels s) (s_manfd s) (s_hasman s) (s_manrecs s) in
        let imin := match kvs with kv :: _ => fst kv | [] => [] end in
        let imax := fst (last kvs ([], [])) in
        OOk (mkRJ (mkC (f_set (c_files cs) (SW.FTable, Z.to_N t) file) (c_meta cs) s' (c_removed cs) (c_commits cs))
                  (SR.add_table rp (r_rec st) (SR.mkat 0%Z t (Z.of_N (lenN file)) imin imax))
                  (r_seq st) (r_mdb st) (r_hts st) (r_kept st))
    end.

  Definition set_mdb (st : rj) (d : MemDB.db) : rj := mkRJ (r_c st) (r_rec st) (r_seq st) d (r_hts st) (r_kept st).

  (* one record of a journal: decodeBatchToMem(buf.Bytes(), db.seq, mdb); skipped when damaged unless strict;
     db.seq = batchSeq + batchLen; flush when the buffer is large enough (flush = false in read-only mode) *)
  Definition replay_record (o : oopts) (flush : bool) (j : N) (data : bytes) (st : rj) : ores rj :=
    match BT.decode_to_mem kp bhl (ibc c) mp data (r_seq st) (r_mdb st) (r_hts st) with
    | BT.TmPanic => OErr OEPanic
    | BT.TmFuel => OErr OEFuel
    | BT.TmErr e d hts =>
        if oo_strict_j o then OErr (OEBatch j e)
        else OOk (mkRJ (r_c st) (r_rec st) (r_seq st) d hts (r_kept st))
    | BT.TmOk seq blen d hts =>
        let st1 := mkRJ (r_c st) (r_rec st) (BT.u64 (seq + blen)) d hts (r_kept st ++ [(seq, blen)]) in
        if flush && (oo_wbuf o <=? MemDB.mdb_size d)%Z then
          odo st2 <- flush_memdb st1;
          odo d0 <- of_mres (MemDB.mdb_reset mp (r_mdb st2));
          OOk (set_mdb st2 d0)
        else OOk st1
    end.

  Fixpoint replay_outcomes (o : oopts) (flush : bool) (j : N) (l : list outcome) (st : rj) : ores rj :=
    match l with
    | [] => OOk st
    | Rec b :: r => odo st' <- replay_record o flush j b st; replay_outcomes o flush j r st'
    | Skipped :: r => replay_outcomes o flush j r st          (* io.ErrUnexpectedEOF: continue *)
    | Dropped _ _ :: r => replay_outcomes o flush j r st
    | Err :: _ => OErr (OEJournalRead j)
    | Journal.Panic :: _ => OErr OEPanic
    | Journal.OutOfFuel :: _ => OErr OEFuel
    end.

  Definition set_rec (st : rj) (rec : SR.srec) : rj := mkRJ (r_c st) rec (r_seq st) (r_mdb st) (r_hts st) (r_kept st).

  Definition commit_rj (o : oopts) (jnum : N) (st : rj) : ores rj :=
    let rec := SR.set_seq rp (SR.set_journal rp (r_rec st) (Z.of_N jnum)) (r_seq st) in
    odo r <- commit o rec (r_c st);
    OOk (mkRJ (fst r) (snd r) (r_seq st) (r_mdb st) (r_hts st) (r_kept st)).

  Definition remove_file (x : SW.fd) (st : rj) : rj :=
    let cs := r_c st in
    mkRJ (mkC (f_del (c_files cs) x) (c_meta cs) (c_sess cs) (c_removed cs ++ [x]) (c_commits cs))
         (r_rec st) (r_seq st) (r_mdb st) (r_hts st) (r_kept st).

  Definition journal_bytes (st : rj) (j : N) : bytes :=
    match f_lookup (c_files (r_c st)) (SW.FJournal, j) with Some d => d | None => [] end.

  (* the loop over the selected journals; ofd = the journal replayed before this one *)
  Fixpoint rj_loop (o : oopts) (js : list N) (ofd : option N) (st : rj) : ores (rj * option N) :=
    match js with
    | [] => OOk (st, ofd)
    | j :: more =>
        let data := journal_bytes st j in
        odo st1 <-
          (match ofd with
           | None => OOk st
           | Some old =>
               odo a <- (if (0 <? MemDB.mdb_len (r_mdb st))%Z then flush_memdb st else OOk st);
               odo b <- commit_rj o j a;
               OOk (remove_file (SW.FJournal, old) (set_rec b (SR.reset_added rp (r_rec b))))
           end);
        odo d0 <- of_mres (MemDB.mdb_reset mp (r_mdb st1));
        odo st2 <- replay_outcomes o true j (jread jcrc jp (oo_strict_j o) (oo_jck o) data) (set_mdb st1 d0);
        rj_loop o more (Some j) st2
    end.

  (* markFileNum *)
  Definition mark_file_num (s : sess) (n : N) : sess :=
    mkSess (Z.max (s_next s) (Z.of_N n + 1)) (s_jnum s) (s_prev s) (s_seq s) (s_cptrs s) (s_levels s) (s_manfd s)
           (s_hasman s) (s_manrecs s).

  Definition table_nums (v : list (list SR.atrec)) : list N := map (fun t => Z.to_N (SR.at_num t)) (concat v).

  Definition tfile_of (fs : files) (t : SR.atrec) : tfile :=
    mkTF (Z.to_N (SR.at_num t)) (SR.at_imin t) (SR.at_imax t)
         (match f_lookup fs (SW.FTable, Z.to_N (SR.at_num t)) with Some d => d | None => [] end).
  Definition levels_of (fs : files) (v : list (list SR.atrec)) : list (list tfile) := map (map (tfile_of fs)) v.

  Fixpoint remove_all (rem : list SW.fd) (st : rj) : rj :=
    match rem with [] => st | x :: r => remove_all r (remove_file x st) end.

  Definition jsel_list (s : sess) (fs : files) : list N :=
    SW.rj_select (Z.to_N (s_jnum s)) (Z.to_N (s_prev s)) (f_list fs).

  (* openDB, read-write: recoverJournal, checkAndCleanFiles *)
  Definition open_rw (o : oopts) (hts : list N) (cs : cst) : ores ostate :=
    let s := c_sess cs in
    let js := jsel_list s (c_files cs) in
    odo d0 <- of_mres (MemDB.mdb_new mp);
    let cs1 := match js with
               | [] => cs
               | _ => mkC (c_files cs) (c_meta cs) (mark_file_num s (last js 0)) (c_removed cs) (c_commits cs)
               end in
    let st0 := mkRJ cs1 SR.sr_empty (s_seq s) d0 hts [] in
    odo r <- rj_loop o js None st0;
    let '(st1, ofd) := r in
    odo st2 <- (match js with
                | [] => OOk st1
                | _ => if (0 <? MemDB.mdb_len (r_mdb st1))%Z then flush_memdb st1 else OOk st1
                end);
    (* newMem(0) *)
    let s2 := c_sess (r_c st2) in
    let j := Z.to_N (s_next s2) in
    let s3 := mkSess (s_next s2 + 1)%Z (s_jnum s2) (s_prev s2) (s_seq s2) (s_cptrs s2) (s_levels s2) (s_manfd s2)
                     (s_hasman s2) (s_manrecs s2) in
    odo mem <- of_mres (MemDB.mdb_new mp);
    let st3 := mkRJ (mkC (f_set (c_files (r_c st2)) (SW.FJournal, j) []) (c_meta (r_c st2)) s3 (c_removed (r_c st2)) (c_commits (r_c st2)))
                    (r_rec st2) (r_seq st2) (r_mdb st2) (r_hts st2) (r_kept st2) in
    odo st4 <- commit_rj o j st3;
    let st5 := match ofd with Some old => remove_file (SW.FJournal, old) st4 | None => st4 end in
    (* checkAndCleanFiles *)
    let s5 := c_sess (r_c st5) in
    let js5 := {| SW.js_tabs := table_nums (s_levels s5); SW.js_manifest := Z.to_N (s_manfd s5);
                  SW.js_journal := j; SW.js_frozen := None |} in
    match SW.janitor js5 (f_list (c_files (r_c st5))) with
    | SW.JMissing ts => OErr (OEMissing ts)
    | SW.JRemove rem =>
        let st6 := remove_all rem st5 in
        let cs6 := r_c st6 in
        OOk (mkOS (mkBS (Some mem) None (levels_of (c_files cs6) (s_levels (c_sess cs6))))
                  (r_seq st6) (c_sess cs6) (Some j) (mkSI (c_meta cs6) (c_files cs6)) (c_removed cs6)
                  (c_commits cs6) (r_kept st6) (r_hts st6))
    end.

  (* openDB, read-only: recoverJournalRO — one buffer for all journals, nothing written, no janitor *)
  Fixpoint rj_loop_ro (o : oopts) (js : list N) (st : rj) : ores rj :=
    match js with
    | [] => OOk st
    | j :: more =>
        odo st' <- replay_outcomes o false j (jread jcrc jp (oo_strict_j o) (oo_jck o) (journal_bytes st j)) st;
        rj_loop_ro o more st'
    end.

  Definition open_ro (o : oopts) (hts : list N) (cs : cst) : ores ostate :=
    let s := c_sess cs in
    odo d0 <- of_mres (MemDB.mdb_new mp);
    odo st <- rj_loop_ro o (jsel_list s (c_files cs)) (mkRJ cs SR.sr_empty (s_seq s) d0 hts []);
    OOk (mkOS (mkBS (Some (r_mdb st)) None (levels_of (c_files cs) (s_levels s)))
              (r_seq st) s None (mkSI (c_meta cs) (c_files cs)) [] [] (r_kept st) (r_hts st)).

  (* a session that was just made by newSession: every number 0, no version, no manifest descriptor *)
  Definition sess_new : sess := mkSess 0%Z 0%Z 0%Z 0 [] [] (-1)%Z false [].

  (* leveldb.Open *)
  Definition open_bytes (o : oopts) (hts : list N) (img : simage) : ores ostate :=
    odo cs <-
      (match manifest_of img with
       | Some (m, d) =>
           odo s <- session_recover o m d;
           if oo_err_exist o then OErr OEExist
           else OOk (mkC (si_files img) (si_meta img) s [] [])
       | None =>
           (* os.ErrNotExist from GetMeta or from Open of the manifest; recover's deferred check *)
           match si_files img with
           | _ :: _ => OErr OEEntryCorrupt
           | [] =>
               if oo_err_missing o || oo_ro o then OErr OENotExist
               else
                 (* s.create() *)
                 odo r <- new_manifest (oo_cmp_name o) SR.sr_empty []
                            (mkC (si_files img) (si_meta img) sess_new [] []);
                 OOk (fst r)
           end
       end);
    if oo_ro o then open_ro o hts cs else open_rw o hts cs.

  (* ---------------------------------------------------------------- what the theorems and (K) look at *)
  (* table numbers per level, in slice order *)
  Definition layout_of (r : ostate) : list (list N) := map (map tf_num) (bs_levels (os_bs r)).
  (* the live buffer as the list of its (internal key, value) pairs *)
  Definition mem_list (r : ostate) : list (bytes * bytes) :=
    match bs_mem (os_bs r) with Some d => mem_pairs mp d | None => [] end.
End OpenPath.

(* ---------------------------------------------------------------- the real file storage (Store/FileStorage.v) *)
(* A directory (name -> content) as the abstract storage sees it: the files whose names parse as manifest /
   journal / table / temp files, and the manifest GetMeta chooses (with its repair when not read-only: the
   directory afterwards differs in CURRENT* files only, which are not files of the abstract storage). *)
Definition sw_type (t : FS.ftype) : SW.ftype :=
  match t with FS.TManifest => SW.FManifest | FS.TJournal => SW.FJournal | FS.TTable => SW.FTable | FS.TTemp => SW.FTemp end.

Definition dir_files (v : FS.view) : files :=
  flat_map (fun e => match FS.parse_name (fst e) with
                     | Some x => if (FS.fd_num x <? 0)%Z then [] else [((sw_type (FS.fd_type x), Z.to_N (FS.fd_num x)), snd e)]
                     | None => []
                     end) v.

Inductive dres := DImage (img : simage) | DCorrupted | DOther.

Definition dir_image (ro : bool) (v : FS.view) : dres :=
  match fst (FS.get_meta ro v) with
  | FS.GOk x => DImage (mkSI (Some (Z.to_N (FS.fd_num x))) (dir_files v))
  | FS.GErr FS.GNotExist => DImage (mkSI None (dir_files v))
  | FS.GErr FS.GCorrupted => DCorrupted
  end.

(* leveldb.OpenFile's Open on a directory of the real file storage *)
Section OpenDir.
  Variable jcrc : bytes -> N.
  Variable jp : jparams.
  Variable rp : SR.rparams.
  Variable kp : kparams.
  Variable bhl : N.
  Variable mp : MemDB.mparams.
  Variable tp : tparams.
  Variable tcrc : bytes -> N.
  Variable compress : bytes -> bytes.
  Variable snappy : bool.
  Variable fgen : option (bytes * (list (N * list bytes) -> bytes)).
  Variable blockSize ri : N.
  Variable c : comparer.

  Definition open_dir (o : oopts) (hts : list N) (v : FS.view) : ores ostate :=
    match dir_image (oo_ro o) v with
    | DImage img => open_bytes jcrc jp rp kp bhl mp tp tcrc compress snappy fgen blockSize ri c o hts img
    | DCorrupted => OErr OEMetaCorrupt
    | DOther => OErr OEPanic
    end.
End OpenDir.

