(* Store/RepairBytesProofs.v — proofs about Store/RepairBytes.v (leveldb.Recover on bytes).
   (1) the scan of recoverTable ("for iter.Next()" on the non-strict table iterator) over a table some of whose
       data blocks cannot be read returns exactly the pairs of the readable blocks, in order (from C13's
       table_iter_skips_unreadable);
   (2) the table buildTable writes passes the byte-level format check of the read path and holds exactly the good
       pairs in order (from C01's writer_output_ok);
   (3) the decision of the inner recoverTable and its bookkeeping (verdict, counters, record, files);
   (4) the sequence number recorded is at least that of every good key of every registered table. *)
From Coq Require Import List NArith ZArith Bool Lia.
From GL Require Import Base.Bytes Base.Order Base.OrderProofs Base.Cursor Codec.IKey Codec.Block Codec.Table Codec.TableCheck
  Codec.TableProofs Codec.TableDamageIterProofs Lsm.Lsm Lsm.ReadPath Lsm.WritePath Lsm.WritePathTable
  Store.OpenPath Store.RepairBytes.
Import ListNotations.
Local Open Scope N_scope.

(* ------------------------------------------------------------------ draining a cursor *)
Fixpoint cut {A} (l : list (option A)) : list A :=
  match l with
  | Some x :: r => x :: cut r
  | _ => []
  end.

Section CursorDrain.
  Context {V : Type}.
  Variable c : comparer.
  Variable L : list (bytes * V).

  Definition rest (p : cpos) : list (bytes * V) :=
    match p with CSOI => L | CAt i => skipn (S i) L | CEOI => [] end.
  Definition pos_ok (p : cpos) : Prop := match p with CAt i => (i < length L)%nat | _ => True end.

  Lemma skipn_nth_error : forall (l : list (bytes * V)) i x, nth_error l i = Some x -> skipn i l = x :: skipn (S i) l.
  Proof.
    induction l as [|y l IH]; intros [|i] x H; simpl in *; try discriminate.
    - inversion H; reflexivity.
    - apply IH in H. exact H.
  Qed.

  Lemma first_cases : (L = [] /\ c_first L = CEOI) \/ (exists x, nth_error L 0 = Some x /\ c_first L = CAt 0).
  Proof. unfold c_first. destruct L as [|x l]; [left; split; reflexivity | right; exists x; split; reflexivity]. Qed.

  Lemma drain_cursor : forall n p, pos_ok p -> (length (rest p) < n)%nat ->
    cut (c_run c L p (repeat OpNext n)) = rest p /\ In None (c_run c L p (repeat OpNext n)).
  Proof.
    induction n as [|n IH]; intros p Hp Hn; [lia|].
    cbn [repeat c_run c_step].
    destruct p as [|i|].
    - (* CSOI *)
      cbn [c_next]. destruct first_cases as [[EL Ef]|(x & Ex & Ef)]; rewrite Ef.
      + cbn [c_get cut rest]. split; [symmetry; exact EL | left; reflexivity].
      + cbn [c_get]. rewrite Ex. cbn [cut].
        pose proof (skipn_nth_error L 0%nat x Ex) as Es. cbn [skipn] in Es.
        assert (Hl : (0 < length L)%nat) by (rewrite Es at 1; cbn; lia).
        destruct (IH (CAt 0%nat)) as [E I].
        * exact Hl.
        * cbn [rest] in *. rewrite Es in Hn at 1. cbn [length] in Hn. cbn [skipn]. lia.
        * split; [rewrite E; cbn [rest]; symmetry; exact Es | right; exact I].
    - (* CAt i *)
      cbn [c_next]. cbn [pos_ok] in Hp. cbn [rest] in Hn.
      destruct (Nat.ltb (S i) (length L)) eqn:El.
      + apply Nat.ltb_lt in El.
        destruct (nth_error L (S i)) as [y|] eqn:Ey; [| apply nth_error_None in Ey; lia].
        cbn [c_get]. rewrite Ey. cbn [cut].
        pose proof (skipn_nth_error L (S i) y Ey) as Es.
        destruct (IH (CAt (S i))) as [E I].
        * exact El.
        * cbn [rest]. rewrite Es in Hn. cbn [length] in Hn. lia.
        * split; [rewrite E; cbn [rest]; symmetry; exact Es | right; exact I].
      + apply Nat.ltb_ge in El. cbn [c_get cut].
        split; [| left; reflexivity].
        symmetry. apply skipn_all2. exact El.
    - (* CEOI *)
      cbn [c_next c_get cut rest]. split; [reflexivity | left; reflexivity].
  Qed.

  Lemma drain_cursor_soi n : (length L < n)%nat ->
    cut (c_run c L CSOI (repeat OpNext n)) = L /\ In None (c_run c L CSOI (repeat OpNext n)).
  Proof. intros H. apply (drain_cursor n CSOI I H). Qed.
End CursorDrain.

Section Scan.
  Variable tp : tparams.
  Variable tcrc : bytes -> N.
  Variable decompress : bytes -> option bytes.
  Variable fname : option bytes.
  Variable ufc : bytes -> N -> bytes -> bool.
  Variable verify : bool.
  Variable c : comparer.

  Local Notation ic := (ibc c).

  (* the loop of recoverTable and the observations of the iterator model under repeated Next *)
  Lemma drain_run rd : forall fuel t,
    In None (fst (ti_run ic rd t (repeat OpNext fuel))) ->
    drain c rd fuel t = Some (cut (fst (ti_run ic rd t (repeat OpNext fuel)))).
  Proof.
    induction fuel as [|f IH]; intros t H; [destruct H|].
    cbn [repeat ti_run ti_step drain] in *.
    destruct (ti_next ic rd t) as [ok t'] eqn:En.
    destruct (ti_run ic rd t' (repeat OpNext f)) as [l tf] eqn:Er.
    cbn [fst] in *.
    destruct ok.
    - destruct (ti_get t') as [kv|] eqn:Eg.
      + cbn [cut]. destruct H as [H|H]; [discriminate|].
        specialize (IH t'). rewrite Er in IH. cbn [fst] in IH. rewrite (IH H). reflexivity.
      + reflexivity.
    - reflexivity.
  Qed.

  (* (1) *)
  Theorem scan_skips_damaged rd0 blocks seps hs (bad : nat -> bool) data :
    comparer_ok ic -> table_wf ic rd0 blocks seps hs ->
    let rd := rt_reader tp tcrc decompress fname ufc verify c data in
    tr_index rd = tr_index rd0 ->
    (forall j, (j < length blocks)%nat ->
       tr_fetch rd (nth j hs bh0) = if bad j then Corrupt else tr_fetch rd0 (nth j hs bh0)) ->
    let kept := concat (map (fun j => if bad j then [] else nth j blocks []) (seq 0 (length blocks))) in
    (length kept < scan_fuel data)%nat ->
    scan tp tcrc decompress fname ufc verify c data = Some kept.
  Proof.
    intros Hc wf rd Hidx Hf kept Hfuel.
    destruct (table_iter_skips_unreadable ic rd0 rd blocks seps hs bad Hc wf Hidx Hf) as (t & Et & Hrun).
    unfold scan. fold rd. rewrite Et.
    destruct (drain_cursor_soi ic kept (scan_fuel data) Hfuel) as [E I]. unfold kept in E, I.
    rewrite <- (Hrun (repeat OpNext (scan_fuel data))) in E, I.
    rewrite (drain_run rd _ t I). rewrite E. reflexivity.
  Qed.
End Scan.

(* ------------------------------------------------------------------ (4) sequence numbers *)
Section Seq.
  Variable kp : kparams.

  Lemma tseq_fold_ge : forall (l : list (bytes * bytes)) m0,
    m0 <= fold_left (fun m kv => if m <? key_seq kp (fst kv) then key_seq kp (fst kv) else m) l m0 /\
    forall kv, In kv l -> key_seq kp (fst kv) <= fold_left (fun m kv => if m <? key_seq kp (fst kv) then key_seq kp (fst kv) else m) l m0.
  Proof.
    induction l as [|x l IH]; intros m0; cbn [fold_left].
    - split; [lia | intros kv []].
    - destruct (IH (if m0 <? key_seq kp (fst x) then key_seq kp (fst x) else m0)) as [A B].
      split.
      + destruct (m0 <? key_seq kp (fst x)) eqn:E; [apply N.ltb_lt in E | ]; lia.
      + intros kv [->|H]; [| apply B; exact H].
        destruct (m0 <? key_seq kp (fst kv)) eqn:E; [| apply N.ltb_ge in E]; lia.
  Qed.

  Theorem tseq_above_all (l : list (bytes * bytes)) kv : In kv l -> key_seq kp (fst kv) <= tseq_of kp l.
  Proof. intros H. apply (proj2 (tseq_fold_ge l 0) kv H). Qed.
End Seq.

(* ------------------------------------------------------------------ (3) the inner recoverTable *)
Section One.
  Variable rp : SR.rparams.
  Variable kp : kparams.
  Variable tp : tparams.
  Variable tcrc : bytes -> N.
  Variable compress : bytes -> bytes.
  Variable decompress : bytes -> option bytes.
  Variable fname : option bytes.
  Variable ufc : bytes -> N -> bytes -> bool.
  Variable verify : bool.
  Variable wo : wopts.
  Variable c : comparer.

  Local Notation one := (recover_one_bytes rp kp tp tcrc compress decompress fname ufc verify wo c).
  Local Notation file_at st num := (match f_lookup (c_files (rb_c st)) (SW.FTable, num) with Some d => d | None => [] end).

  Lemma f_lookup_set fs x d : f_lookup (f_set fs x d) x = Some d.
  Proof.
    unfold f_set. cbn [f_lookup].
    assert (E : SW.fd_eqb x x = true).
    { unfold SW.fd_eqb. destruct x as [t n]. cbn. rewrite N.eqb_refl. destruct t; reflexivity. }
    rewrite E. reflexivity.
  Qed.

  (* the decision, the counters, the sequence number, and — when rebuilt — the file that replaces the table *)
  Theorem recover_one_spec strict st num all :
    scan tp tcrc decompress fname ufc verify c (file_at st num) = Some all ->
    let data := file_at st num in
    let g := good_of kp all in
    let corrupted := (0 <? N.of_nat (length all) - N.of_nat (length g)) || (0 <? cblocks_of tp tcrc decompress fname ufc verify c data) in
    if (strict && corrupted) || match g with [] => true | _ => false end then
      exists s, one strict st num = OOk (mkRB (rb_c st) (rb_rec st) (rb_maxseq st) (rb_temp st) (rb_stats st ++ [s])) /\
                ts_verdict s = TDropped /\ ts_num s = num
    else if corrupted then
      match table_bytes c kp tp tcrc compress wo g with
      | None => one strict st num = OErr OEFlush
      | Some nd =>
          exists st', one strict st num = OOk st' /\
            f_lookup (c_files (rb_c st')) (SW.FTable, num) = Some nd /\
            f_lookup (c_files (rb_c st')) (SW.FTemp, rb_temp st) = None /\
            rb_temp st' = rb_temp st + 1 /\
            tseq_of kp g <= rb_maxseq st' /\ rb_maxseq st <= rb_maxseq st' /\
            rb_rec st' = SR.add_table rp (rb_rec st)
                           (SR.mkat 0%Z (Z.of_N num) (Z.of_N (lenN nd)) (key_first g) (key_last g)) /\
            exists s, rb_stats st' = rb_stats st ++ [s] /\ ts_verdict s = TRebuilt /\ ts_good s = N.of_nat (length g)
      end
    else
      exists st', one strict st num = OOk st' /\ c_files (rb_c st') = c_files (rb_c st) /\
        tseq_of kp g <= rb_maxseq st' /\ rb_maxseq st <= rb_maxseq st' /\
        rb_rec st' = SR.add_table rp (rb_rec st)
                       (SR.mkat 0%Z (Z.of_N num) (Z.of_N (lenN data)) (key_first g) (key_last g)) /\
        exists s, rb_stats st' = rb_stats st ++ [s] /\ ts_verdict s = TKept /\ ts_good s = N.of_nat (length g).
  Proof.
    intros Hs data g corrupted. unfold recover_one_bytes. cbv zeta. rewrite Hs. fold data. fold g. fold corrupted.
    destruct (strict && corrupted) eqn:Esc; cbn [orb].
    - eexists. split; [reflexivity | split; reflexivity].
    - destruct g as [|kv0 gr] eqn:Eg.
      + eexists. split; [reflexivity | split; reflexivity].
      + assert (Hlast : fst (last (kv0 :: gr) kv0) = key_last (kv0 :: gr)).
        { unfold key_last. destruct gr as [|y gr']; [reflexivity|]. reflexivity. }
        assert (Hmax : forall a b : N, b <= (if a <? b then b else a) /\ a <= (if a <? b then b else a)).
        { intros a b. destruct (a <? b) eqn:E; [apply N.ltb_lt in E | apply N.ltb_ge in E]; lia. }
        destruct corrupted.
        * destruct (table_bytes c kp tp tcrc compress wo (kv0 :: gr)) as [nd|]; [| reflexivity].
          eexists. split; [reflexivity|]. cbn [rb_c rb_temp rb_maxseq rb_rec rb_stats set_files c_files].
          split; [apply f_lookup_set|].
          split.
          { unfold f_set at 1. cbn [f_lookup]. cbn [SW.fd_eqb fst snd].
            assert (E : SW.fd_eqb (SW.FTemp, rb_temp st) (SW.FTable, num) = false) by reflexivity.
            rewrite E.
            (* the temporary file was deleted by the rename and is not re-created *)
            assert (D : forall fs x, f_lookup (f_del fs x) x = None).
            { induction fs as [|[y d] fs IH]; intros x; [reflexivity|]. unfold f_del in *. cbn [filter fst].
              destruct (SW.fd_eqb x y) eqn:Exy; cbn [negb]; [apply IH|]. cbn [f_lookup]. rewrite Exy. apply IH. }
            assert (D2 : forall fs x y, f_lookup fs x = None -> f_lookup (f_del fs y) x = None).
            { induction fs as [|[z d] fs IH]; intros x y H; [reflexivity|]. unfold f_del in *. cbn [filter fst].
              cbn [f_lookup] in H. destruct (SW.fd_eqb x z) eqn:Exz; [discriminate|].
              destruct (SW.fd_eqb y z); cbn [negb]; [apply IH; exact H|]. cbn [f_lookup]. rewrite Exz. apply IH; exact H. }
            apply D2. apply D. }
          split; [reflexivity|].
          split; [apply Hmax|]. split; [apply Hmax|].
          split; [rewrite Hlast; reflexivity|].
          eexists. split; [reflexivity | split; reflexivity].
        * eexists. split; [reflexivity|]. cbn [rb_c rb_temp rb_maxseq rb_rec rb_stats].
          split; [reflexivity|].
          split; [apply Hmax|]. split; [apply Hmax|].
          split; [rewrite Hlast; reflexivity|].
          eexists. split; [reflexivity | split; reflexivity].
  Qed.
End One.

(* ------------------------------------------------------------------ (2) the rebuilt table *)
Theorem rebuilt_table_ok :
  forall c, comparer_ok c -> forall p, kparams_ok p -> forall tp, tparams_ok tp ->
  forall crc, (forall b, (crc b < 2 ^ 32)%N) ->
  forall compress decompress, (forall x, decompress (compress x) = Some x) -> (forall x, compress x <> []) ->
  forall fname ufc verify o, (1 <= wo_ri o)%N -> forall num all nd,
  let g := good_of p all in
  Cursor.sorted (ibc c) g -> g <> [] -> Forall (fun kv => key_okb p (fst kv) = true) g ->
  table_bytes c p tp crc compress o g = Some nd -> write_sizes_ok c p tp crc compress o g = true ->
  (wo_filter o = None \/
   filter_part c tp crc decompress fname ufc verify (mkTF num (key_first g) (key_last g) nd) = true) ->
  tfile_okb c p tp crc decompress fname ufc verify (wo_ri o) (mkTF num (key_first g) (key_last g) nd) = true /\
  tf_pairs c tp crc decompress fname ufc verify (wo_ri o) (mkTF num (key_first g) (key_last g) nd) = g.
Proof.
  intros c Hc p Hp tp Htp crc Hcrc compress decompress Hcodec Hne fname ufc verify o Hri num all nd g Hs Hn Hk Hb Hsz Hf.
  destruct (writer_output_ok c Hc p Hp tp Htp crc Hcrc compress decompress Hcodec Hne fname ufc verify o Hri num g nd Hs Hn Hk Hb Hsz Hf)
    as (A & B & _).
  split; assumption.
Qed.
