(* Store/ApiTotality.v -- the TOTALITY table of goleveldb's public API surface (definitions only).

   One row per exported entry point of the packages leveldb, leveldb/util, comparer, filter, memdb, iterator,
   journal, table, cache, storage, opt, errors: exported functions "<pkg>.<Func>", exported methods of exported
   types "<pkg>.<Type>.<Method>", and the methods listed in exported interface types "<pkg>.<Iface>.<Method>".
   A row is (entry point, exceptions); an exception is (argument class, mask of allowed outcome classes).

   Outcome classes (bit positions of a mask):
     0 ok   1 error   2 panic   3 hang   4 huge allocation   5 the process died
   DEFAULT, for every entry point and every argument class that is not listed: mask 3 = the call RETURNS, a
   result or an error.  An exception either widens the default (documented misuse: the doc comment forbids the
   argument or announces the panic; a required collaborator is nil; the argument is the size the caller asks
   for; the caller's own implementation breaks the contract of its interface; an undocumented precondition that
   the entry point's Coq model has as a panic result, not repaired) or narrows it to 2 = "must be an error".
   The reasons, with the quoted doc comments, are in harness/cmd/c18/api_table.go (the Go copy of this table,
   used by the (P) oracle) and in props/C18.json.

   Tie to the code, every run of ./check C18: the harness calls every entry point over an argument lattice in
   child processes (harness/cmd/c18/api*.go) and hands every observation (entry point, argument class, outcome
   class) to [outcome_allowed] as a case [KApi]; it enumerates the exported surface from the Go SOURCE with
   go/ast and hands it to [surface_known] as a case [KApiEnum] (Corr/C18Run.v).  A new panic, hang or
   allocation anywhere in the surface, and a new exported function or method, are mismatches before anybody
   has classified them. *)
From Coq Require Import List NArith String Bool.
Import ListNotations.
Open Scope string_scope.
Open Scope N_scope.

Definition oc_ok : N := 0.
Definition oc_error : N := 1.
Definition oc_panic : N := 2.
Definition oc_hang : N := 3.
Definition oc_alloc : N := 4.
Definition oc_died : N := 5.

(* "returns": ok or error *)
Definition m_ret : N := 3.
(* "must be an error" *)
Definition m_err : N := 2.

Definition api_row : Type := (string * list (string * N))%type.

Definition api_totality_table : list api_row := [
  ("cache.Cache.Capacity", []);
  ("cache.Cache.Close", []);
  ("cache.Cache.Delete", []);
  ("cache.Cache.Evict", []);
  ("cache.Cache.EvictAll", []);
  ("cache.Cache.EvictNS", []);
  ("cache.Cache.Get", [("setFunc panics", 7)]);
  ("cache.Cache.GetStats", []);
  ("cache.Cache.Nodes", []);
  ("cache.Cache.SetCapacity", []);
  ("cache.Cache.Size", []);
  ("cache.Cacher.Ban", []);
  ("cache.Cacher.Capacity", []);
  ("cache.Cacher.Evict", []);
  ("cache.Cacher.Promote", []);
  ("cache.Cacher.SetCapacity", []);
  ("cache.Handle.Release", []);
  ("cache.Handle.Value", []);
  ("cache.NamespaceGetter.Get", [("required argument nil", 7)]);
  ("cache.NewCache", []);
  ("cache.NewLRU", []);
  ("cache.Node.GetHandle", [("node without a reference", 7)]);
  ("cache.Node.Key", []);
  ("cache.Node.NS", []);
  ("cache.Node.Ref", []);
  ("cache.Node.Size", []);
  ("cache.Node.Value", []);
  ("comparer.BasicComparer.Compare", []);
  ("comparer.Comparer.Name", []);
  ("comparer.Comparer.Separator", []);
  ("comparer.Comparer.Successor", []);
  ("errors.ErrCorrupted.Error", [("wrapped error nil", 7)]);
  ("errors.ErrMissingFiles.Error", []);
  ("errors.IsCorrupted", []);
  ("errors.New", []);
  ("errors.NewErrCorrupted", []);
  ("errors.SetFd", [("typed nil pointer", 7)]);
  ("filter.Buffer.Alloc", []);
  ("filter.Buffer.Write", []);
  ("filter.Buffer.WriteByte", []);
  ("filter.Filter.Contains", []);
  ("filter.Filter.Name", []);
  ("filter.Filter.NewGenerator", []);
  ("filter.FilterGenerator.Add", []);
  ("filter.FilterGenerator.Generate", [("required argument nil", 7); ("n huge", 19)]);
  ("filter.NewBloomFilter", []);
  ("iterator.Array.Index", []);
  ("iterator.ArrayIndexer.Get", []);
  ("iterator.BasicArray.Len", []);
  ("iterator.BasicArray.Search", []);
  ("iterator.CommonIterator.Error", []);
  ("iterator.CommonIterator.Valid", []);
  ("iterator.ErrorCallbackSetter.SetErrorCallback", []);
  ("iterator.Iterator.Key", []);
  ("iterator.Iterator.Value", []);
  ("iterator.IteratorIndexer.Get", []);
  ("iterator.IteratorSeeker.First", []);
  ("iterator.IteratorSeeker.Last", []);
  ("iterator.IteratorSeeker.Next", []);
  ("iterator.IteratorSeeker.Prev", []);
  ("iterator.IteratorSeeker.Seek", []);
  ("iterator.NewArrayIndexer", []);
  ("iterator.NewArrayIterator", [("required argument nil", 7)]);
  ("iterator.NewEmptyIterator", []);
  ("iterator.NewIndexedIterator", [("required argument nil", 7); ("index returns a nil child", 7)]);
  ("iterator.NewMergedIterator", [("a child is nil", 7); ("required argument nil", 7)]);
  ("journal.Dropper.Drop", []);
  ("journal.ErrCorrupted.Error", []);
  ("journal.NewReader", [("required argument nil", 7); ("reader fails", 2)]);
  ("journal.NewWriter", [("required argument nil", 7)]);
  ("journal.Reader.Next", []);
  ("journal.Reader.Reset", [("required argument nil", 7)]);
  ("journal.Writer.Close", []);
  ("journal.Writer.Flush", []);
  ("journal.Writer.Next", []);
  ("journal.Writer.Reset", [("required argument nil", 7)]);
  ("journal.Writer.Size", []);
  ("leveldb.Batch.Delete", []);
  ("leveldb.Batch.Dump", []);
  ("leveldb.Batch.Len", []);
  ("leveldb.Batch.Load", []);
  ("leveldb.Batch.Put", []);
  ("leveldb.Batch.Replay", [("required argument nil", 7); ("callback panics", 7)]);
  ("leveldb.Batch.Reset", []);
  ("leveldb.BatchReplay.Delete", []);
  ("leveldb.BatchReplay.Put", []);
  ("leveldb.DB.Close", []);
  ("leveldb.DB.CompactRange", []);
  ("leveldb.DB.Delete", []);
  ("leveldb.DB.Get", []);
  ("leveldb.DB.GetProperty", []);
  ("leveldb.DB.GetSnapshot", []);
  ("leveldb.DB.Has", []);
  ("leveldb.DB.NewIterator", []);
  ("leveldb.DB.OpenTransaction", []);
  ("leveldb.DB.Put", []);
  ("leveldb.DB.SetReadOnly", []);
  ("leveldb.DB.SizeOf", []);
  ("leveldb.DB.Stats", [("required argument nil", 7)]);
  ("leveldb.DB.Write", []);
  ("leveldb.ErrBatchCorrupted.Error", []);
  ("leveldb.ErrInternalKeyCorrupted.Error", []);
  ("leveldb.ErrManifestCorrupted.Error", []);
  ("leveldb.MakeBatch", [("n huge", 23)]);
  ("leveldb.MakeBatchWithConfig", []);
  ("leveldb.Open", [("option extreme (a size in bytes)", 55); ("storage nil", 2); ("storage refuses the lock", 2)]);
  ("leveldb.OpenFile", [("path regular file", 2); ("path below a regular file", 2)]);
  ("leveldb.Reader.Get", []);
  ("leveldb.Reader.NewIterator", []);
  ("leveldb.Recover", [("storage nil", 2)]);
  ("leveldb.RecoverFile", [("path regular file", 2); ("path below a regular file", 2)]);
  ("leveldb.Sizes.Sum", []);
  ("leveldb.Snapshot.Get", []);
  ("leveldb.Snapshot.Has", []);
  ("leveldb.Snapshot.NewIterator", []);
  ("leveldb.Snapshot.Release", []);
  ("leveldb.Snapshot.String", []);
  ("leveldb.Transaction.Commit", []);
  ("leveldb.Transaction.Delete", []);
  ("leveldb.Transaction.Discard", []);
  ("leveldb.Transaction.Get", []);
  ("leveldb.Transaction.Has", []);
  ("leveldb.Transaction.NewIterator", []);
  ("leveldb.Transaction.Put", []);
  ("leveldb.Transaction.Write", []);
  ("memdb.DB.Capacity", []);
  ("memdb.DB.Contains", []);
  ("memdb.DB.Delete", []);
  ("memdb.DB.Find", []);
  ("memdb.DB.Free", []);
  ("memdb.DB.Get", []);
  ("memdb.DB.Len", []);
  ("memdb.DB.NewIterator", []);
  ("memdb.DB.Put", []);
  ("memdb.DB.Reset", []);
  ("memdb.DB.Size", []);
  ("memdb.New", [("n huge", 23); ("required argument nil", 7)]);
  ("opt.Cacher.New", []);
  ("opt.CacherFunc", []);
  ("opt.Compression.String", []);
  ("opt.GetStrict", []);
  ("opt.NewLRU", []);
  ("opt.Options.GetAltFilters", []);
  ("opt.Options.GetBlockCacheCapacity", []);
  ("opt.Options.GetBlockCacheEvictRemoved", []);
  ("opt.Options.GetBlockCacher", []);
  ("opt.Options.GetBlockRestartInterval", []);
  ("opt.Options.GetBlockSize", []);
  ("opt.Options.GetCompactionExpandLimit", []);
  ("opt.Options.GetCompactionGPOverlaps", []);
  ("opt.Options.GetCompactionL0Trigger", []);
  ("opt.Options.GetCompactionSourceLimit", []);
  ("opt.Options.GetCompactionTableSize", []);
  ("opt.Options.GetCompactionTotalSize", []);
  ("opt.Options.GetComparer", []);
  ("opt.Options.GetCompression", []);
  ("opt.Options.GetDisableBlockCache", []);
  ("opt.Options.GetDisableBufferPool", []);
  ("opt.Options.GetDisableCompactionBackoff", []);
  ("opt.Options.GetDisableLargeBatchTransaction", []);
  ("opt.Options.GetDisableSeeksCompaction", []);
  ("opt.Options.GetErrorIfExist", []);
  ("opt.Options.GetErrorIfMissing", []);
  ("opt.Options.GetFilter", []);
  ("opt.Options.GetFilterBaseLg", []);
  ("opt.Options.GetIteratorSamplingRate", []);
  ("opt.Options.GetMaxManifestFileSize", []);
  ("opt.Options.GetNoSync", []);
  ("opt.Options.GetNoWriteMerge", []);
  ("opt.Options.GetOpenFilesCacheCapacity", []);
  ("opt.Options.GetOpenFilesCacher", []);
  ("opt.Options.GetReadOnly", []);
  ("opt.Options.GetStrict", []);
  ("opt.Options.GetWriteBuffer", []);
  ("opt.Options.GetWriteL0PauseTrigger", []);
  ("opt.Options.GetWriteL0SlowdownTrigger", []);
  ("opt.PassthroughCacher", []);
  ("opt.ReadOptions.GetDontFillCache", []);
  ("opt.ReadOptions.GetStrict", []);
  ("opt.WriteOptions.GetNoWriteMerge", []);
  ("opt.WriteOptions.GetSync", []);
  ("storage.ErrCorrupted.Error", [("wrapped error nil", 7)]);
  ("storage.FileDesc.String", []);
  ("storage.FileDesc.Zero", []);
  ("storage.FileDescOk", []);
  ("storage.FileType.String", []);
  ("storage.Locker.Unlock", []);
  ("storage.NewMemStorage", []);
  ("storage.OpenFile", [("path regular file", 2); ("path below a regular file", 2)]);
  ("storage.Storage.Close", []);
  ("storage.Storage.Create", [("fd invalid", 2)]);
  ("storage.Storage.GetMeta", []);
  ("storage.Storage.List", []);
  ("storage.Storage.Lock", []);
  ("storage.Storage.Log", []);
  ("storage.Storage.Open", [("fd invalid", 2)]);
  ("storage.Storage.Remove", [("fd invalid", 2)]);
  ("storage.Storage.Rename", [("fd invalid", 2)]);
  ("storage.Storage.SetMeta", [("fd invalid", 2)]);
  ("storage.Syncer.Sync", []);
  ("table.ErrCorrupted.Error", []);
  ("table.NewReader", [("size wrong", 2); ("bytes arbitrary", 2); ("reader fails", 2); ("required argument nil", 2)]);
  ("table.NewWriter", [("n huge", 23); ("required argument nil", 7)]);
  ("table.Reader.Find", []);
  ("table.Reader.FindKey", []);
  ("table.Reader.Get", []);
  ("table.Reader.NewIterator", []);
  ("table.Reader.OffsetOf", []);
  ("table.Reader.Release", []);
  ("table.Writer.Append", [("keys out of order", 2); ("after Close", 2)]);
  ("table.Writer.BlocksLen", []);
  ("table.Writer.BytesLen", []);
  ("table.Writer.Close", []);
  ("table.Writer.EntriesLen", []);
  ("util.BasicReleaser.Release", []);
  ("util.BasicReleaser.Released", []);
  ("util.BasicReleaser.SetReleaser", [("releaser already present", 7); ("already released", 7)]);
  ("util.Buffer.Alloc", [("n<0", 7); ("n huge", 23)]);
  ("util.Buffer.Bytes", []);
  ("util.Buffer.Grow", [("n<0", 7); ("n huge", 23)]);
  ("util.Buffer.Len", []);
  ("util.Buffer.Next", [("n<0", 7)]);
  ("util.Buffer.Read", []);
  ("util.Buffer.ReadByte", []);
  ("util.Buffer.ReadBytes", []);
  ("util.Buffer.ReadFrom", [("reader breaks io.Reader", 7); ("required argument nil", 7)]);
  ("util.Buffer.Reset", []);
  ("util.Buffer.String", []);
  ("util.Buffer.Truncate", [("n out of range", 7)]);
  ("util.Buffer.Write", []);
  ("util.Buffer.WriteByte", []);
  ("util.Buffer.WriteTo", [("writer breaks io.Writer", 7)]);
  ("util.BufferPool.Get", [("n<0", 7); ("n huge", 23)]);
  ("util.BufferPool.Put", []);
  ("util.BufferPool.String", []);
  ("util.BytesPrefix", []);
  ("util.CRC.Update", []);
  ("util.CRC.Value", []);
  ("util.Hash", []);
  ("util.NewBuffer", []);
  ("util.NewBufferPool", [("n<=0", 7)]);
  ("util.NewCRC", []);
  ("util.NoopReleaser.Release", []);
  ("util.ReleaseSetter.SetReleaser", []);
  ("util.Releaser.Release", [])
].

Fixpoint lookup_row (t : list api_row) (e : string) : option (list (string * N)) :=
  match t with
  | [] => None
  | (n, ex) :: t' => if String.eqb n e then Some ex else lookup_row t' e
  end.

Fixpoint lookup_exc (ex : list (string * N)) (c : string) : option N :=
  match ex with
  | [] => None
  | (n, m) :: ex' => if String.eqb n c then Some m else lookup_exc ex' c
  end.

(* the mask of an (entry point, argument class); None: the entry point is not in the table *)
Definition allowed_mask (e c : string) : option N :=
  match lookup_row api_totality_table e with
  | None => None
  | Some ex => Some (match lookup_exc ex c with Some m => m | None => m_ret end)
  end.

(* the boolean checker of one observation *)
Definition outcome_allowed (e c : string) (o : N) : bool :=
  match allowed_mask e c with
  | None => false
  | Some m => N.testbit m o
  end.

(* every name of the exported surface has a row *)
Definition surface_known (names : list string) : bool :=
  forallb (fun n => match lookup_row api_totality_table n with Some _ => true | None => false end) names.

(* ---- checks over the table itself (used by Store/ApiTotalityProofs.v) *)

Definition all_exceptions : list (string * string * N) :=
  flat_map (fun r => map (fun x => (fst r, fst x, snd x)) (snd r)) api_totality_table.

(* no exception allows a hang *)
Definition table_no_hang : bool :=
  forallb (fun x => negb (N.testbit (snd x) oc_hang)) all_exceptions.

(* the death of the process is allowed in one place only *)
Definition table_died_only_option_sizes : bool :=
  forallb (fun x => negb (N.testbit (snd x) oc_died) ||
                    (String.eqb (fst (fst x)) "leveldb.Open" && String.eqb (snd (fst x)) "option extreme (a size in bytes)"))
          all_exceptions.

(* no mask is empty, none has a bit above 5 *)
Definition table_masks_sane : bool :=
  forallb (fun x => (0 <? snd x) && (snd x <? 64)) all_exceptions.

(* no entry point occurs twice (lookup_row would hide the second row) *)
Fixpoint nodup_names (l : list string) : bool :=
  match l with
  | [] => true
  | n :: l' => negb (existsb (String.eqb n) l') && nodup_names l'
  end.

Definition table_rows_distinct : bool := nodup_names (map fst api_totality_table).
