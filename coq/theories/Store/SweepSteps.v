From Coq Require Import NArith PeanoNat List Bool Lia Permutation Sorted.
From GL Require Import Store.Sweep Store.SweepProofs Store.SweepInv Store.SweepCommit.
Import ListNotations.
Open Scope N_scope.

Local Arguments N.eqb : simpl never.
Local Arguments N.leb : simpl never.
Local Arguments N.ltb : simpl never.
Local Arguments N.add : simpl never.
Local Arguments N.max : simpl never.
Local Arguments tget : simpl never.
Local Arguments tset : simpl never.
Local Arguments tdel : simpl never.
Local Arguments retag : simpl never.
Local Arguments keys_with : simpl never.
Local Arguments tabs_of : simpl never.
Local Arguments fadd : simpl never.
Local Arguments fdel : simpl never.
Local Arguments fmem : simpl never.
Local Arguments nmem : simpl never.
Local Arguments needed : simpl never.
Local Arguments jsel : simpl never.
Local Arguments install : simpl never.
Local Arguments do_rm : simpl never.
Local Arguments mark_failed : simpl never.
Local Arguments reuse_num : simpl never.

Local Arguments commit : simpl never.
Local Arguments tops_remove : simpl never.
Local Arguments del_func : simpl never.
Local Arguments orphan : simpl never.

(* ---------- session.commit by a job ---------- *)

Lemma set_fdone_true_Inv : forall s, Inv s ->
  (forall v, In v (views s) -> v_jnum v = journal s) -> sjnum s = journal s -> Inv (set_fdone true s).
Proof. intros s H Hv Hs. constructor; cbn; try apply H. intros _. split; auto. Qed.

Lemma step_commit : forall s k rot o rmok s', Inv s -> step s (OCommit k rot o rmok) = Some s' -> Inv s'.
Proof.
  intros s k rot o rmok s' H. cbn.
  destruct (opened s); cbn; [|discriminate].
  destruct (j_on (getjob k s)) eqn:Eon; cbn; [|discriminate].
  destruct (cur_of k s) eqn:Ecur; [discriminate|]. cbn.
  destruct (match k with KTxn => _ | _ => true end); [|discriminate].
  set (jn := match k with KFlush => Some (journal s) | _ => None end).
  assert (Hjn : jn = None \/ jn = Some (journal s)) by (destruct k; cbn; auto).
  destruct (commit_Inv (Some k) (j_del (getjob k s)) jn rot o rmok s H Hjn) as (H1&Hok&Hfail).
  destruct (commit (Some k) (j_del (getjob k s)) jn rot o rmok s) as [s1 ok]. cbn [fst snd] in *.
  destruct ok; intros E; inversion E; subst; clear E; auto.
  destruct (Hok eq_refl) as (Pa&Pb&Pc&Pd&Pe&Pf&Pg&Ph&Pi&Pj).
  assert (Hnc : forall t, tget (tb s1) t <> Some (CCur k)).
  { intros t Hc. apply Pa in Hc; try discriminate. revert Hc. apply cur_of_None; auto. apply (i_k s H). }
  assert (H2 : Inv (match k with KFlush => set_fdone true s1 | _ => s1 end)).
  { destruct k; auto. destruct (Pc (journal s) eq_refl) as [V S].
    apply set_fdone_true_Inv; auto; rewrite Pe; auto. }
  assert (Etb : tb (match k with KFlush => set_fdone true s1 | _ => s1 end) = tb s1) by (destruct k; reflexivity).
  apply setjob_Inv; auto; cbn.
  - intros _ t. rewrite Etb. split; [apply (Pb k eq_refl) | apply Hnc].
  - intros _ v t _ _. rewrite Etb. apply (Pb k eq_refl).
Qed.

(* ---------- Transaction.discard ---------- *)

Lemma del_func_fields : forall t ok s,
  views (del_func t ok s) = views s /\ mfailed (del_func t ok s) = mfailed s /\ held (del_func t ok s) = held s /\
  pins (del_func t ok s) = pins s /\ (forall k, getjob k (del_func t ok s) = getjob k s) /\
  tb (del_func t ok s) = tdel (tb s) t.
Proof.
  intros. unfold del_func.
  destruct (do_rm_eq (FTable, t) ok RFailed (set_tb (tdel (tb s) t) s)) as (E1&E2&E3&E4&E5&E6&E7&E8&E9&E10&E11&E12&E13&E14&E15&E16&E17&E18&E19&_).
  pose proof (fun k => getjob_do_rm k (FTable, t) ok RFailed (set_tb (tdel (tb s) t) s)) as Hg.
  set (s2 := fst (do_rm (FTable, t) ok RFailed (set_tb (tdel (tb s) t) s))) in *.
  assert (Hr : forall x, views (reuse_num x s2) = views s2 /\ mfailed (reuse_num x s2) = mfailed s2 /\
                         held (reuse_num x s2) = held s2 /\ pins (reuse_num x s2) = pins s2 /\
                         (forall k, getjob k (reuse_num x s2) = getjob k s2) /\ tb (reuse_num x s2) = tb s2).
  { intros x. unfold reuse_num. destruct (next s2 =? x + 1); cbn; repeat split; auto; intros k; destruct k; reflexivity. }
  destruct (reuse s2).
  - destruct (Hr t) as (R1&R2&R3&R4&R5&R6). rewrite R1, R2, R3, R4, R6, E8, E6, E3, E16, E2. cbn.
    repeat split; auto; try (intros k; rewrite R5, Hg; apply getjob_set_tb).
  - rewrite E8, E6, E3, E16, E2. cbn. repeat split; auto; try (intros k; rewrite Hg; apply getjob_set_tb).
Qed.

Lemma tops_remove_fields : forall t ok s,
  views (tops_remove t ok s) = views s /\ mfailed (tops_remove t ok s) = mfailed s /\
  held (tops_remove t ok s) = held s /\ pins (tops_remove t ok s) = pins s /\
  (forall k, getjob k (tops_remove t ok s) = getjob k s) /\
  (forall u, u <> t -> tget (tb (tops_remove t ok s)) u = tget (tb s) u) /\
  (tget (tb (tops_remove t ok s)) t = Some CPend \/ tget (tb (tops_remove t ok s)) t = None).
Proof.
  intros. unfold tops_remove. destruct (nmem (pins s) t).
  - split; [|split; [|split; [|split; [|split; [|split]]]]]; auto.
    + cbn. intros u Hu. rewrite tget_tset. destruct (N.eqb_spec t u); congruence.
    + cbn. left. rewrite tget_tset, N.eqb_refl. reflexivity.
  - destruct (del_func_fields t ok s) as (E1&E2&E3&E4&E5&E6). rewrite E1, E2, E3, E4, E6.
    split; [|split; [|split; [|split; [|split; [|split]]]]]; auto.
    + intros u Hu. apply tget_tdel_neq. congruence.
    + right. apply tget_tdel_eq.
Qed.

Lemma tops_remove_all_Inv : forall ts bad s, Inv s -> NoDup ts ->
  (forall t, In t ts -> tget (tb s) t = Some (COut KTxn)) ->
  (mfailed s = false \/ j_cfail (jt s) = false) ->
  Inv (tops_remove_all ts bad s) /\
  (forall u c, tget (tb (tops_remove_all ts bad s)) u = Some c -> c <> CPend -> tget (tb s) u = Some c /\ ~ In u ts).
Proof.
  induction ts as [|t ts IH]; intros bad s H Hnd Hts Hcond; cbn.
  - split; auto.
  - inversion Hnd as [|x l Hnotin Hnd']; subst.
    assert (Ec : tget (tb s) t = Some (COut KTxn)) by (apply Hts; left; auto).
    assert (Hv : forall v, In v (views s) -> ~ In t (v_tabs v)).
    { destruct Hcond as [Em|Ecf].
      - destruct (i_v2 s H Em) as [v0 [Ev0 Hiff]]. intros v Hv Ht. rewrite Ev0 in Hv. destruct Hv as [ <- |[]].
        apply Hiff in Ht. congruence.
      - apply (not_viewed s t (COut KTxn)); auto; try discriminate. intros k E. inversion E; subst. auto. }
    assert (H1 : Inv (tops_remove t (negb (fmem bad (FTable, t))) s)).
    { apply (tops_remove_Inv s t (COut KTxn)); auto; try discriminate.
      apply (not_held s t (COut KTxn)); auto; discriminate. }
    destruct (tops_remove_fields t (negb (fmem bad (FTable, t))) s) as (E1&E2&E3&E4&E5&E6&E7).
    set (s1 := tops_remove t (negb (fmem bad (FTable, t))) s) in *.
    assert (Hts1 : forall u, In u ts -> tget (tb s1) u = Some (COut KTxn)).
    { intros u Hu. rewrite E6; [apply Hts; right; auto|]. intro; subst; contradiction. }
    assert (Hcond1 : mfailed s1 = false \/ j_cfail (jt s1) = false).
    { rewrite E2. specialize (E5 KTxn). cbn in E5. rewrite E5. auto. }
    destruct (IH bad s1 H1 Hnd' Hts1 Hcond1) as [I1 I2]. split; auto.
    intros u c Hc Hnp. destruct (I2 u c Hc Hnp) as [Hc1 Hnin].
    destruct (N.eqb_spec u t) as [->|Hne].
    + destruct E7 as [E7|E7]; rewrite E7 in Hc1; inversion Hc1; subst; congruence.
    + rewrite E6 in Hc1 by auto. split; auto. intros [ <- |Hin]; auto.
Qed.

Lemma step_discard : forall s o rmok bad s', Inv s -> step s (ODiscard o rmok bad) = Some s' -> Inv s'.
Proof.
  intros s o rmok bad s' H. cbn.
  destruct (opened s); cbn; [|discriminate].
  destruct (j_on (jt s)) eqn:Eon; cbn; [|discriminate].
  destruct (cur_of KTxn s) eqn:Ecur; [discriminate|].
  pose proof (i_k s H) as HK.
  assert (Hcur : forall t, tget (tb s) t <> Some (CCur KTxn)) by (intros t; apply cur_of_None; auto).
  assert (Hstage : forall s1 keep,
            (s1, keep) = (if j_cfail (jt s) && mfailed s
                          then let '(s', ok) := commit None [] None false o rmok s in (s', negb ok)
                          else (s, false)) ->
            Inv s1 /\ (forall t c, tget (tb s1) t = Some c -> c <> CTab -> c <> CObs -> tget (tb s) t = Some c) /\
            (keep = false -> mfailed s1 = false \/ j_cfail (jt s1) = false)).
  { intros s1 keep E. destruct (j_cfail (jt s) && mfailed s) eqn:Eg.
    - destruct (commit_Inv None [] None false o rmok s H (or_introl eq_refl)) as (H1&Hok&Hfail).
      destruct (commit None [] None false o rmok s) as [sc ok]. cbn [fst snd] in *. inversion E; subst.
      split; auto. destruct ok.
      + destruct (Hok eq_refl) as (Pa&Pb&Pc&Pd&Pe&Pf&Pg&Ph&Pi&Pj). split; auto.
      + destruct (Hfail eq_refl) as (Q1&_). rewrite Q1. split; auto. discriminate.
    - inversion E; subst. split; auto. split; auto. intros _.
      apply andb_false_iff in Eg. destruct Eg; auto. }
  destruct (if j_cfail (jt s) && mfailed s
            then let '(s', ok) := commit None [] None false o rmok s in (s', negb ok)
            else (s, false)) as [s1 keep] eqn:Est.
  destruct (Hstage s1 keep eq_refl) as (H1&Hcls&Hcond).
  pose proof (i_k s1 H1) as HK1.
  assert (Hcur1 : forall t, tget (tb s1) t <> Some (CCur KTxn)).
  { intros t Hc. apply Hcls in Hc; try discriminate. apply (Hcur t); auto. }
  destruct keep; intros E; inversion E; subst; clear E.
  - change (set_jt job_off (orphan (keys_with (is_out KTxn) (tb s1)) RKept s1))
      with (setjob KTxn job_off (orphan (keys_with (is_out KTxn) (tb s1)) RKept s1)).
    apply setjob_Inv.
    + apply orphan_Inv; auto. intros t Ht. apply outs_In in Ht; auto. rewrite Ht. split; discriminate.
    + intros _ t. rewrite orphan_tget. destruct (nmem (keys_with (is_out KTxn) (tb s1)) t) eqn:En; [split; discriminate|].
      split; auto. intro Hc. apply outs_In in Hc; auto. apply nmem_In in Hc. congruence.
    + intros _ v t _ _. rewrite orphan_tget. destruct (nmem (keys_with (is_out KTxn) (tb s1)) t) eqn:En; [discriminate|].
      intro Hc. apply outs_In in Hc; auto. apply nmem_In in Hc. congruence.
  - destruct (tops_remove_all_Inv (keys_with (is_out KTxn) (tb s1)) bad s1 H1 (keys_with_NoDup _ _ HK1)) as [I1 I2]; auto.
    { intros t Ht. apply outs_In; auto. }
    change (set_jt job_off (tops_remove_all (keys_with (is_out KTxn) (tb s1)) bad s1))
      with (setjob KTxn job_off (tops_remove_all (keys_with (is_out KTxn) (tb s1)) bad s1)).
    apply setjob_Inv; auto.
    + intros _ t. split.
      * intro Hc. destruct (I2 t _ Hc ltac:(discriminate)) as [Hc1 Hn]. apply Hn. apply outs_In; auto.
      * intro Hc. destruct (I2 t _ Hc ltac:(discriminate)) as [Hc1 Hn]. apply (Hcur1 t); auto.
    + intros _ v t _ _ Hc. destruct (I2 t _ Hc ltac:(discriminate)) as [Hc1 Hn]. apply Hn. apply outs_In; auto.
Qed.

Lemma step_close : forall s s', Inv s -> step s OClose = Some s' -> InvC s'.
Proof.
  intros s s' H. cbn. destruct (opened s && all_off s && _ && _); [|discriminate].
  intros E; inversion E; subst. constructor; cbn.
  - apply (i_fl s H).
  - intros v Hv. apply (i_v7 s H v Hv).
  - apply (i_t s H).
  - reflexivity.
Qed.
