(* Store/RepairProofs.v — proofs about the model of leveldb.Recover (Store/Repair.v):
   - moving every table to level 0 changes no read (all_at_level0_equiv);
   - the state Recover builds is well-formed and holds exactly the entries it could read plus the journal's
     (recover_spec), hence on a settled DB it answers every read as before (recover_settled) and with damaged
     blocks it returns every surviving entry that is the newest of its key and invents nothing
     (recover_damaged). *)
From GL Require Import Base.Order Base.OrderProofs Codec.IKey Codec.IKeyProofs Lsm.Lsm Lsm.Compact Lsm.LsmProofs
  Lsm.CompactProofs Lsm.ReorgProofs Store.Repair.
From Coq Require Import ZArith Lia ZifyN ZifyNat ZifyBool Permutation.

(* ---- sub-sequences ---- *)
Inductive sub {A} : list A -> list A -> Prop :=
| sub_nil : sub [] []
| sub_skip x l1 l2 : sub l1 l2 -> sub l1 (x :: l2)
| sub_keep x l1 l2 : sub l1 l2 -> sub (x :: l1) (x :: l2).

Lemma sub_refl {A} (l : list A) : sub l l.
Proof. induction l; constructor; assumption. Qed.

Lemma sub_nil_l {A} (l : list A) : sub [] l.
Proof. induction l; constructor; assumption. Qed.

Lemma sub_app {A} (a a' b b' : list A) : sub a a' -> sub b b' -> sub (a ++ b) (a' ++ b').
Proof. intros H1 H2. induction H1; cbn [app]; try constructor; assumption. Qed.

Lemma sub_trans {A} (l1 l2 l3 : list A) : sub l1 l2 -> sub l2 l3 -> sub l1 l3.
Proof.
  intros H1 H2. revert l1 H1. induction H2; intros l0 H1.
  - exact H1.
  - apply sub_skip. apply IHsub. exact H1.
  - inversion H1; subst.
    + apply sub_skip. apply IHsub. assumption.
    + apply sub_keep. apply IHsub. assumption.
Qed.

Lemma sub_filter {A} (q : A -> bool) (l : list A) : sub (filter q l) l.
Proof. induction l as [|x l IH]; cbn [filter]; [constructor|]. destruct (q x); constructor; exact IH. Qed.

Lemma sub_map {A B} (f : A -> B) (l1 l2 : list A) : sub l1 l2 -> sub (map f l1) (map f l2).
Proof. induction 1; cbn [map]; constructor; assumption. Qed.

Lemma sub_In {A} (l1 l2 : list A) x : sub l1 l2 -> In x l1 -> In x l2.
Proof.
  induction 1; intros H0; [exact H0|right; auto|].
  destruct H0 as [->|H0]; [left; reflexivity|right; auto].
Qed.

Lemma sub_NoDup {A} (l1 l2 : list A) : sub l1 l2 -> NoDup l2 -> NoDup l1.
Proof.
  induction 1; intros Hn; [exact Hn| |].
  - inversion Hn; subst. auto.
  - inversion Hn as [|? ? Hx Hn']; subst. constructor; [|auto].
    intros Hi. apply Hx. eapply sub_In; eauto.
Qed.

Lemma sub_concat_filter {A B} (g : A -> list B) (q : A -> bool) (l : list A) :
  sub (concat (map g (filter q l))) (concat (map g l)).
Proof.
  induction l as [|x l IH]; cbn [filter map concat]; [constructor|].
  destruct (q x); cbn [map concat].
  - apply sub_app; [apply sub_refl|exact IH].
  - change (concat (map g (filter q l))) with ([] ++ concat (map g (filter q l))).
    apply sub_app; [apply sub_nil_l|exact IH].
Qed.

Lemma sub_concat_map {A B} (g h : A -> list B) (l : list A) :
  (forall x, In x l -> sub (g x) (h x)) -> sub (concat (map g l)) (concat (map h l)).
Proof.
  induction l as [|x l IH]; intros H; cbn [map concat]; [constructor|].
  apply sub_app; [apply H; left; reflexivity|apply IH; intros y Hy; apply H; right; exact Hy].
Qed.

(* ---- the sorts are permutations ---- *)
Lemma ins_by_perm {A} (le : A -> A -> bool) x l : Permutation (x :: l) (ins_by le x l).
Proof.
  induction l as [|y l IH]; cbn [ins_by]; [reflexivity|].
  destruct (le x y); [reflexivity|].
  etransitivity; [apply perm_swap|]. apply perm_skip. exact IH.
Qed.

Lemma sort_by_perm {A} (le : A -> A -> bool) l : Permutation l (sort_by le l).
Proof.
  induction l as [|x l IH]; cbn [sort_by fold_right]; [reflexivity|]. fold (sort_by le l).
  etransitivity; [apply perm_skip; exact IH|]. apply ins_by_perm.
Qed.

Lemma perm_concat_map {A B} (g : A -> list B) l l' :
  Permutation l l' -> Permutation (concat (map g l)) (concat (map g l')).
Proof.
  induction 1; cbn [map concat].
  - reflexivity.
  - apply Permutation_app_head. assumption.
  - rewrite !app_assoc. apply Permutation_app_tail. apply Permutation_app_comm.
  - etransitivity; eassumption.
Qed.

Lemma nodup_map_inj {A B} (f : A -> B) l a b : NoDup (map f l) -> In a l -> In b l -> f a = f b -> a = b.
Proof.
  induction l as [|x l IH]; intros Hn Ha Hb E; [destruct Ha|].
  cbn [map] in Hn. inversion Hn as [|? ? Hx Hn']; subst.
  destruct Ha as [->|Ha]; destruct Hb as [->|Hb]; auto.
  - exfalso. apply Hx. rewrite E. apply in_map. exact Hb.
  - exfalso. apply Hx. rewrite <- E. apply in_map. exact Ha.
Qed.

Section Proofs.
  Variable c : comparer.
  Hypothesis ok : comparer_ok c.
  Variable p : kparams.
  Hypothesis pok : kparams_ok p.

  Notation ssorted := (ssorted c).
  Notation kinds_ok := (kinds_ok p).
  Notation wf_state := (wf_state c p).
  Notation tables_ok := (tables_ok c p).
  Notation table_ok := (table_ok c p).
  Notation lsm_get := (lsm_get c p).
  Notation newest := (newest c).
  Notation entries_of ts := (concat (map t_entries ts)).

  (* ---- sortedness and kinds of sub-sequences ---- *)
  Lemma sub_ssorted l1 l2 : sub l1 l2 -> ssorted l2 -> ssorted l1.
  Proof.
    induction 1; intros Hs; [exact Hs| |].
    - destruct Hs as [_ Hs]. auto.
    - destruct Hs as [Hall Hs]. split; [|auto].
      rewrite Forall_forall in *. intros y Hy. apply Hall. eapply sub_In; eauto.
  Qed.

  Lemma sub_kinds l1 l2 : sub l1 l2 -> kinds_ok l2 -> kinds_ok l1.
  Proof.
    unfold LsmProofs.kinds_ok. rewrite !Forall_forall. intros Hs H x Hx. apply H. eapply sub_In; eauto.
  Qed.

  Lemma nodup_uniq_in l : NoDup (map keyseq l) -> uniq_in l.
  Proof.
    intros Hn a b Ha Hb Eu Es. apply (nodup_map_inj keyseq l a b Hn Ha Hb). unfold keyseq. congruence.
  Qed.

  Lemma perm_same_elems (l1 l2 : list entry) : Permutation l1 l2 -> same_elems l1 l2.
  Proof. intros H x. split; intros Hx; [eapply Permutation_in; eauto|eapply Permutation_in; [symmetry|]; eauto]. Qed.

  (* ---- a state whose tables all sit at level 0 ---- *)
  Definition l0_state (ts : list table) : lstate :=
    {| st_mem := []; st_frozen := []; st_aux := []; st_levels := [ts] |}.

  Lemma newer_nil_l y : newer_thanP [] y.
  Proof. intros a b []. Qed.

  Lemma l0_state_wf ts : tables_ok ts -> NoDup (map keyseq (entries_of ts)) -> wf_state (l0_state ts).
  Proof.
    intros Hok Hnd. constructor; cbn [l0_state st_mem st_frozen st_aux st_levels hd tl].
    - split; [exact I|constructor].
    - split; [exact I|constructor].
    - split; [constructor|]. unfold uniq, LsmProofs.level_entries. cbn. constructor.
    - split; [exact Hok|exact Hnd].
    - constructor.
    - unfold comps, l0_state; cbn [st_mem st_frozen st_aux st_levels map chain_newer].
      assert (N : forall l : list (list entry), Forall (fun y => newer_thanP (@nil entry) y) l).
      { intros l. apply Forall_forall. intros y _. apply newer_nil_l. }
      change (LsmProofs.level_entries []) with (@nil entry).
      repeat split; try apply N. constructor.
  Qed.

  Lemma all_entries_l0 ts : all_entries (l0_state ts) = entries_of ts.
  Proof. unfold all_entries, all_tables, l0_state; cbn. rewrite app_nil_r. reflexivity. Qed.

  (* ---- reads are determined by the stored entries ---- *)
  Lemma get_same_entries st1 st2 : wf_state st1 -> wf_state st2 -> uniq_in (all_entries st1) ->
    same_elems (all_entries st1) (all_entries st2) ->
    forall k s, lsm_get st1 k s = lsm_get st2 k s.
  Proof.
    intros W1 W2 U SE k s.
    rewrite (get_correct c ok p pok st1 k s W1), (get_correct c ok p pok st2 k s W2).
    rewrite (newest_same_elems c ok k s _ _ U SE). reflexivity.
  Qed.

  (* ---- every table moved to level 0 ---- *)
  Lemma level_entries_concat (lvls : list (list table)) :
    LsmProofs.level_entries (concat lvls) = concat (map LsmProofs.level_entries lvls).
  Proof.
    unfold LsmProofs.level_entries. induction lvls as [|l ls IH]; [reflexivity|].
    cbn [concat map]. rewrite map_app, concat_app, IH. reflexivity.
  Qed.

  Lemma newer_concat x (rest : list (list entry)) : Forall (fun y => newer_thanP x y) rest -> newer_thanP x (concat rest).
  Proof. apply newer_thanP_concat. Qed.

  Lemma wf_tables_all st : wf_state st -> tables_ok (concat (st_levels st)).
  Proof.
    intros W. destruct W as [_ _ _ [H0 _] Hd _].
    destruct (st_levels st) as [|l0 rest]; [constructor|]. cbn [hd tl concat] in *.
    unfold LsmProofs.tables_ok in *. apply Forall_app. split; [exact H0|].
    induction Hd as [|l ls [Hl _] _ IH]; [constructor|]. cbn [concat]. apply Forall_app. split; assumption.
  Qed.

  Lemma all_entries_flatten st : all_entries (flatten st) = all_entries st.
  Proof. unfold all_entries, all_tables, flatten; cbn. rewrite app_nil_r. reflexivity. Qed.

  Theorem all_at_level0_equiv st : wf_state st ->
    NoDup (map keyseq (entries_of (concat (st_levels st)))) ->
    wf_state (flatten st) /\ forall k s, lsm_get (flatten st) k s = lsm_get st k s.
  Proof.
    intros W Hnd.
    assert (WF : wf_state (flatten st)).
    { pose proof (wf_tables_all st W) as Hall.
      destruct W as [Hm Hf Ha H0 Hd Hch].
      constructor; cbn [flatten st_mem st_frozen st_aux st_levels hd tl]; try assumption.
      - split; [exact Hall|exact Hnd].
      - constructor.
      - unfold comps in *. cbn [flatten st_mem st_frozen st_aux st_levels map] in *.
        cbn [chain_newer] in *. destruct Hch as [Nm [Nf [Na Hch]]].
        inversion Nm as [|? ? Nm1 Nm']; subst. inversion Nm' as [|? ? Nm2 Nm3]; subst.
        inversion Nf as [|? ? Nf1 Nf2]; subst.
        rewrite level_entries_concat.
        repeat split.
        + constructor; [exact Nm1|]. constructor; [exact Nm2|]. constructor; [|constructor].
          apply newer_concat. exact Nm3.
        + constructor; [exact Nf1|]. constructor; [|constructor]. apply newer_concat. exact Nf2.
        + constructor; [|constructor]. apply newer_concat. exact Na.
        + constructor. }
    split; [exact WF|]. intros k s.
    rewrite (get_correct c ok p pok _ k s WF), (get_correct c ok p pok _ k s W), all_entries_flatten.
    reflexivity.
  Qed.

  (* ---- the table scan ---- *)
  Notation kept := (kept p).
  Notation good := (good p).
  Definition maxf (m : N) (e : entry) : N := if m <? e_seq e then e_seq e else m.

  (* the table registered for one file, if any *)
  Definition table_for (strict : bool) (f : tfile) : list table :=
    match kept strict f with [] => [] | g => [{| t_num := tf_num f; t_entries := g |}] end.
  Definition tables_of (strict : bool) (fs : list tfile) : list table := concat (map (table_for strict) fs).

  Lemma recover_one_added strict r f : r_added (recover_one p strict r f) = r_added r ++ table_for strict f.
  Proof.
    unfold recover_one, table_for, Repair.kept.
    destruct (strict && ((0 <? ckeys p f) || (0 <? cblocks f))); cbn [r_added]; [rewrite app_nil_r; reflexivity|].
    destruct (Repair.good p f); cbn [r_added]; [rewrite app_nil_r|]; reflexivity.
  Qed.

  Lemma recover_fold_added strict fs : forall r,
    r_added (fold_left (recover_one p strict) fs r) = r_added r ++ tables_of strict fs.
  Proof.
    induction fs as [|f fs IH]; intros r; cbn [fold_left]; unfold tables_of; cbn [map concat];
      [rewrite app_nil_r; reflexivity|].
    rewrite IH, recover_one_added, app_assoc. reflexivity.
  Qed.

  Lemma entries_table_for strict f : entries_of (table_for strict f) = kept strict f.
  Proof.
    unfold table_for. destruct (kept strict f) eqn:E; cbn [map concat t_entries]; [reflexivity|].
    rewrite app_nil_r. reflexivity.
  Qed.

  Lemma entries_tables_of strict fs : entries_of (tables_of strict fs) = concat (map (kept strict) fs).
  Proof.
    unfold tables_of. induction fs as [|f fs IH]; cbn [map concat]; [reflexivity|].
    rewrite map_app, concat_app, entries_table_for, IH. reflexivity.
  Qed.

  Lemma maxf_ge l : forall m, m <= fold_left maxf l m /\ forall e, In e l -> e_seq e <= fold_left maxf l m.
  Proof.
    induction l as [|a l IH]; intros m; cbn [fold_left]; [split; [lia|intros e []]|].
    destruct (IH (maxf m a)) as [H1 H2].
    assert (M : m <= maxf m a /\ e_seq a <= maxf m a) by (unfold maxf; destruct (m <? e_seq a) eqn:E; lia).
    split; [lia|]. intros e [<-|He]; [lia|apply H2; exact He].
  Qed.

  Lemma maxf_le l B : forall m, m <= B -> (forall e, In e l -> e_seq e <= B) -> fold_left maxf l m <= B.
  Proof.
    induction l as [|a l IH]; intros m Hm H; cbn [fold_left]; [exact Hm|].
    apply IH; [|intros e He; apply H; right; exact He].
    assert (e_seq a <= B) by (apply H; left; reflexivity). unfold maxf. destruct (m <? e_seq a); lia.
  Qed.

  Lemma recover_one_maxseq strict r f :
    r_maxseq r <= r_maxseq (recover_one p strict r f) /\
    (forall e, In e (kept strict f) -> e_seq e <= r_maxseq (recover_one p strict r f)) /\
    (forall B, r_maxseq r <= B -> (forall e, In e (kept strict f) -> e_seq e <= B) ->
               r_maxseq (recover_one p strict r f) <= B).
  Proof.
    unfold recover_one, Repair.kept.
    destruct (strict && ((0 <? ckeys p f) || (0 <? cblocks f))); cbn [r_maxseq].
    { split; [lia|]. split; [intros e []|]. intros B H _. exact H. }
    destruct (Repair.good p f) as [|a g] eqn:G; cbn [r_maxseq].
    { split; [lia|]. split; [intros e []|]. intros B H _. exact H. }
    change (tseq (a :: g)) with (fold_left maxf (a :: g) 0). pose proof (maxf_ge (a :: g) 0) as [_ H2].
    split; [|split].
    - destruct (r_maxseq r <? fold_left maxf (a :: g) 0) eqn:E; lia.
    - intros e He. specialize (H2 e He). destruct (r_maxseq r <? fold_left maxf (a :: g) 0) eqn:E; lia.
    - intros B HB H. pose proof (maxf_le (a :: g) B 0 ltac:(lia) H).
      destruct (r_maxseq r <? fold_left maxf (a :: g) 0); lia.
  Qed.

  Lemma recover_fold_maxseq strict fs : forall r,
    r_maxseq r <= r_maxseq (fold_left (recover_one p strict) fs r) /\
    (forall e, In e (concat (map (kept strict) fs)) -> e_seq e <= r_maxseq (fold_left (recover_one p strict) fs r)) /\
    (forall B, r_maxseq r <= B -> (forall e, In e (concat (map (kept strict) fs)) -> e_seq e <= B) ->
               r_maxseq (fold_left (recover_one p strict) fs r) <= B).
  Proof.
    induction fs as [|f fs IH]; intros r; cbn [fold_left map concat].
    { split; [lia|]. split; [intros e []|]. intros B H _. exact H. }
    destruct (recover_one_maxseq strict r f) as [A1 [A2 A3]].
    destruct (IH (recover_one p strict r f)) as [B1 [B2 B3]].
    split; [lia|]. split.
    - intros e He. apply in_app_or in He as [He|He]; [specialize (A2 e He); lia|apply B2; exact He].
    - intros B HB H. apply B3.
      + apply A3; [exact HB|]. intros e He. apply H. apply in_or_app. left; exact He.
      + intros e He. apply H. apply in_or_app. right; exact He.
  Qed.

  (* ---- the journal replay ---- *)
  (* no batch is rejected: each starts at or above the sequence number reached so far *)
  Fixpoint chain (seq : N) (js : list jbatch) : Prop :=
    match js with
    | [] => True
    | b :: r => seq <= jb_seq b /\ chain (jb_seq b + N.of_nat (length (jb_recs b))) r
    end.
  Fixpoint jend (seq : N) (js : list jbatch) : N :=
    match js with
    | [] => seq
    | b :: r => jend (jb_seq b + N.of_nat (length (jb_recs b))) r
    end.

  Lemma chain_weaken B seq js : chain B js -> seq <= B -> chain seq js.
  Proof. destruct js as [|b r]; cbn [chain]; [auto|]. intros [H1 H2] H. split; [lia|exact H2]. Qed.

  Lemma mem_put_app mem l1 l2 : mem_put c (mem_put c mem l1) l2 = mem_put c mem (l1 ++ l2).
  Proof. unfold mem_put. rewrite fold_left_app. reflexivity. Qed.

  Lemma replay_chain sj js : forall seq mem, chain seq js ->
    replay c sj seq mem js = Some (jend seq js, mem_put c mem (jentries js)).
  Proof.
    induction js as [|b r IH]; intros seq mem H; cbn [replay jend]; [reflexivity|].
    destruct H as [H1 H2].
    replace (jb_seq b <? seq) with false by (symmetry; apply N.ltb_ge; exact H1).
    rewrite (IH _ _ H2). unfold jentries. cbn [map concat]. rewrite mem_put_app. reflexivity.
  Qed.

  Lemma stamp_seq l : forall s e, In e (stamp s l) -> s <= e_seq e /\ e_seq e < s + N.of_nat (length l).
  Proof.
    induction l as [|a l IH]; intros s e H; cbn [stamp] in H; [destruct H|].
    cbn [length]. destruct H as [<-|H]; [cbn [e_seq]; lia|].
    apply IH in H. lia.
  Qed.

  Lemma jend_ge js : forall seq, chain seq js -> seq <= jend seq js.
  Proof.
    induction js as [|b r IH]; intros seq H; cbn [jend]; [lia|].
    destruct H as [H1 H2]. specialize (IH _ H2). lia.
  Qed.

  Lemma jentries_lt js : forall seq, chain seq js -> forall e, In e (jentries js) -> e_seq e < jend seq js.
  Proof.
    induction js as [|b r IH]; intros seq H e He; [destruct He|].
    destruct H as [H1 H2]. unfold jentries in He. cbn [map concat] in He. cbn [jend].
    apply in_app_or in He as [He|He].
    - apply stamp_seq in He. pose proof (jend_ge r _ H2). lia.
    - apply (IH _ H2). exact He.
  Qed.

  (* ---- the write buffer rebuilt from the journal ---- *)
  Lemma ins_perm e l : Permutation (e :: l) (ins c e l).
  Proof.
    induction l as [|y l IH]; cbn [ins]; [reflexivity|].
    destruct (ecmp c e y); try reflexivity.
    etransitivity; [apply perm_swap|]. apply perm_skip. exact IH.
  Qed.

  Lemma mem_put_perm l : forall mem, Permutation (mem ++ l) (mem_put c mem l).
  Proof.
    induction l as [|a l IH]; intros mem; cbn [mem_put fold_left]; [rewrite app_nil_r; reflexivity|].
    fold (mem_put c (ins c a mem) l). etransitivity; [|apply IH].
    etransitivity; [symmetry; apply Permutation_middle|].
    change (a :: mem ++ l) with ((a :: mem) ++ l). apply Permutation_app_tail. apply ins_perm.
  Qed.

  Lemma perm_kinds l1 l2 : Permutation l1 l2 -> kinds_ok l1 -> kinds_ok l2.
  Proof. unfold LsmProofs.kinds_ok. intros H. apply Permutation_Forall. exact H. Qed.

  Lemma mem_put_sorted l : forall mem, ssorted mem -> kinds_ok (mem ++ l) -> NoDup (map keyseq (mem ++ l)) ->
    ssorted (mem_put c mem l).
  Proof.
    induction l as [|a l IH]; intros mem Hs Hk Hn; cbn [mem_put fold_left]; [exact Hs|].
    fold (mem_put c (ins c a mem) l).
    assert (P : Permutation (mem ++ a :: l) (ins c a mem ++ l)).
    { etransitivity; [symmetry; apply Permutation_middle|].
      change (a :: mem ++ l) with ((a :: mem) ++ l). apply Permutation_app_tail. apply ins_perm. }
    apply IH.
    - apply (ins_sorted c ok); [exact Hs|]. intros x Hx E.
      apply (ecmp_eq_keyseq c ok p pok) in E as [E1 E2].
      + rewrite map_app in Hn. cbn [map] in Hn. apply NoDup_remove_2 in Hn. apply Hn.
        apply in_or_app. left. replace (keyseq a) with (keyseq x) by (unfold keyseq; congruence).
        apply in_map. exact Hx.
      + apply (kinds_pair p (mem ++ a :: l)); [exact Hk| |].
        * apply in_or_app. right. left. reflexivity.
        * apply in_or_app. left. exact Hx.
    - eapply perm_kinds; eauto.
    - eapply Permutation_NoDup; [apply Permutation_map; exact P|exact Hn].
  Qed.

  Lemma stamp_kinds l : forall s, kinds_ok l -> kinds_ok (stamp s l).
  Proof.
    unfold LsmProofs.kinds_ok. induction l as [|a l IH]; intros s H; cbn [stamp]; [constructor|].
    inversion H; subst. constructor; [cbn [e_kind]; assumption|apply IH; assumption].
  Qed.

  (* ---- what Recover builds ---- *)
  Definition files_ok (fs : list tfile) : Prop :=
    Forall (fun f => ssorted (file_entries f) /\ kinds_ok (file_entries f)) fs.
  (* every entry stored before any damage / every entry Recover can still read *)
  Definition orig_entries (fs : list tfile) (js : list jbatch) : list entry :=
    concat (map file_entries fs) ++ jentries js.
  Definition surviving (strict : bool) (fs : list tfile) (js : list jbatch) : list entry :=
    concat (map (kept strict) fs) ++ jentries js.

  Lemma kept_sub strict f : sub (kept strict f) (file_entries f).
  Proof.
    unfold Repair.kept. destruct (strict && ((0 <? ckeys p f) || (0 <? cblocks f))); [apply sub_nil_l|].
    unfold Repair.good. eapply sub_trans; [apply sub_filter|].
    unfold readable, file_entries. apply sub_concat_filter.
  Qed.

  Lemma surviving_sub strict fs js : sub (surviving strict fs js) (orig_entries fs js).
  Proof.
    apply sub_app; [|apply sub_refl]. apply sub_concat_map. intros f _. apply kept_sub.
  Qed.

  Lemma table_for_ok strict f : ssorted (file_entries f) -> kinds_ok (file_entries f) ->
    tables_ok (table_for strict f).
  Proof.
    intros Hs Hk. unfold table_for. destruct (kept strict f) as [|a g] eqn:E; [constructor|].
    constructor; [|constructor]. unfold LsmProofs.table_ok. cbn [t_entries]. rewrite <- E. split.
    - eapply sub_ssorted; [apply kept_sub|exact Hs].
    - eapply sub_kinds; [apply kept_sub|exact Hk].
  Qed.

  Lemma tables_of_ok strict fs : files_ok fs -> tables_ok (tables_of strict fs).
  Proof.
    unfold files_ok, tables_of. induction 1 as [|f fs [Hs Hk] _ IH]; cbn [map concat]; [constructor|].
    unfold LsmProofs.tables_ok in *. apply Forall_app. split; [apply table_for_ok; assumption|exact IH].
  Qed.

  Theorem recover_spec strict sj fs js next :
    files_ok fs ->
    kinds_ok (jentries js) ->
    NoDup (map keyseq (orig_entries fs js)) ->
    (exists B, (forall e, In e (concat (map file_entries fs)) -> e_seq e <= B) /\ chain B js) ->
    exists st' seq', recover c p strict sj fs js next = ROk st' seq' /\ wf_state st' /\
      Permutation (all_entries st') (surviving strict fs js) /\
      (forall e, In e (surviving strict fs js) -> e_seq e <= seq').
  Proof.
    intros Hf Hjk Hnd [B [HB Hch]].
    assert (PF : Permutation fs (sort_fds fs)) by apply sort_by_perm.
    assert (Hnd' : NoDup (map keyseq (surviving strict fs js))).
    { eapply sub_NoDup; [apply sub_map; apply surviving_sub|exact Hnd]. }
    unfold recover, recover_tables.
    pose proof (recover_fold_added strict (sort_fds fs) r_init) as HA. cbn [r_init r_added app] in HA.
    pose proof (recover_fold_maxseq strict (sort_fds fs) r_init) as [_ [HM1 HM2]].
    set (r := fold_left (recover_one p strict) (sort_fds fs) r_init) in *.
    rewrite HA. set (T := tables_of strict (sort_fds fs)).
    assert (PT : Permutation (entries_of T) (concat (map (kept strict) fs))).
    { unfold T. rewrite entries_tables_of. apply perm_concat_map. symmetry. exact PF. }
    assert (TK : tables_ok T).
    { unfold T. apply tables_of_ok. unfold files_ok in *. eapply Permutation_Forall; eauto. }
    assert (MB : r_maxseq r <= B).
    { apply HM2; [cbn; lia|]. intros e He. apply HB.
      assert (He' : In e (concat (map (kept strict) fs))).
      { eapply Permutation_in; [apply perm_concat_map; symmetry; exact PF|exact He]. }
      apply in_concat in He' as [l [Hl He']]. apply in_map_iff in Hl as [f [<- Hf']].
      apply in_concat. exists (file_entries f). split; [apply in_map; exact Hf'|].
      eapply sub_In; [apply kept_sub|exact He']. }
    rewrite (replay_chain sj js _ [] (chain_weaken _ _ _ Hch MB)).
    set (mem := mem_put c [] (jentries js)).
    assert (PM : Permutation (jentries js) mem) by (apply (mem_put_perm (jentries js) [])).
    assert (JN : NoDup (map keyseq (jentries js))).
    { eapply sub_NoDup; [apply sub_map|exact Hnd]. unfold orig_entries.
      change (jentries js) with ([] ++ jentries js) at 1. apply sub_app; [apply sub_nil_l|apply sub_refl]. }
    assert (MS : ssorted mem) by (apply (mem_put_sorted (jentries js) []); [exact I|exact Hjk|exact JN]).
    assert (MK : kinds_ok mem) by (eapply perm_kinds; eauto).
    set (l0' := match mem with [] => sort_l0 T | _ :: _ => sort_l0 ({| t_num := next; t_entries := mem |} :: sort_l0 T) end).
    assert (PL : Permutation (entries_of l0') (surviving strict fs js) /\ tables_ok l0').
    { unfold l0', surviving. destruct mem as [|a m] eqn:EM.
      - apply Permutation_sym, Permutation_nil in PM. rewrite PM, app_nil_r. split.
        + etransitivity; [apply perm_concat_map; symmetry; apply sort_by_perm|exact PT].
        + unfold LsmProofs.tables_ok in *. eapply Permutation_Forall; [apply sort_by_perm|exact TK].
      - split.
        + etransitivity; [apply perm_concat_map; symmetry; apply sort_by_perm|]. cbn [map concat t_entries].
          etransitivity; [apply Permutation_app_comm|]. apply Permutation_app; [|symmetry; exact PM].
          etransitivity; [apply perm_concat_map; symmetry; apply sort_by_perm|exact PT].
        + unfold LsmProofs.tables_ok in *. eapply Permutation_Forall; [apply sort_by_perm|].
          constructor; [split; assumption|]. eapply Permutation_Forall; [apply sort_by_perm|exact TK]. }
    destruct PL as [PL TL].
    exists (l0_state l0'), (jend (r_maxseq r) js).
    split; [unfold l0_state, l0'; destruct mem; reflexivity|].
    split; [|split].
    - apply l0_state_wf; [exact TL|]. eapply Permutation_NoDup; [apply Permutation_map; symmetry; exact PL|exact Hnd'].
    - rewrite all_entries_l0. exact PL.
    - intros e He. unfold surviving in He. apply in_app_or in He as [He|He].
      + pose proof (jend_ge js _ (chain_weaken _ _ _ Hch MB)).
        assert (e_seq e <= r_maxseq r); [|lia]. apply HM1.
        eapply Permutation_in; [apply perm_concat_map; exact PF|exact He].
      + pose proof (jentries_lt js _ (chain_weaken _ _ _ Hch MB) e He). lia.
  Qed.

  (* ---- undamaged files ---- *)
  Definition intact (f : tfile) : Prop := Forall (fun b => fb_damaged b = false) (tf_blocks f).
  Definition table_of_file (f : tfile) : table := {| t_num := tf_num f; t_entries := file_entries f |}.

  Lemma filter_all {A} (q : A -> bool) (l : list A) : (forall x, In x l -> q x = true) -> filter q l = l.
  Proof.
    induction l as [|x l IH]; intros H; cbn [filter]; [reflexivity|].
    rewrite (H x) by (left; reflexivity). f_equal. apply IH. intros y Hy. apply H. right; exact Hy.
  Qed.

  Lemma filter_none {A} (q : A -> bool) (l : list A) : (forall x, In x l -> q x = false) -> filter q l = [].
  Proof.
    induction l as [|x l IH]; intros H; cbn [filter]; [reflexivity|].
    rewrite (H x) by (left; reflexivity). apply IH. intros y Hy. apply H. right; exact Hy.
  Qed.

  Lemma intact_kept strict f : intact f -> (forall e, In e (file_entries f) -> valid p e = true) ->
    kept strict f = file_entries f.
  Proof.
    intros Hi Hv. unfold intact in Hi. rewrite Forall_forall in Hi.
    assert (R : readable f = file_entries f).
    { unfold readable, file_entries. rewrite filter_all; [reflexivity|]. intros b Hb. rewrite (Hi b Hb). reflexivity. }
    assert (G : Repair.good p f = file_entries f).
    { unfold Repair.good. rewrite R. apply filter_all. exact Hv. }
    assert (CB : cblocks f = 0).
    { unfold cblocks. rewrite filter_none; [reflexivity|]. exact Hi. }
    assert (CK : ckeys p f = 0) by (unfold ckeys; rewrite G, R; lia).
    unfold Repair.kept. rewrite CB, CK, G. cbn. rewrite Bool.andb_false_r. reflexivity.
  Qed.

  (* what "a clean, settled shutdown" leaves on storage, relative to the DB state st: no frozen buffer, no
     open transaction, exactly one undamaged file per live table, the journal holding the write buffer's
     contents with sequence numbers above every table entry *)
  Definition settled_image (st : lstate) (fs : list tfile) (js : list jbatch) : Prop :=
    st_frozen st = [] /\ st_aux st = [] /\
    Forall intact fs /\
    Permutation (map table_of_file fs) (concat (st_levels st)) /\
    Permutation (jentries js) (st_mem st) /\
    exists B, (forall e, In e (entries_of (concat (st_levels st))) -> e_seq e <= B) /\ chain B js.

  Theorem recover_settled strict sj st fs js next :
    wf_state st ->
    NoDup (map keyseq (all_entries st)) ->
    (forall e, In e (all_entries st) -> valid p e = true) ->
    settled_image st fs js ->
    exists st' seq', recover c p strict sj fs js next = ROk st' seq' /\ wf_state st' /\
      (forall k s, lsm_get st' k s = lsm_get st k s) /\
      (forall e, In e (all_entries st) -> e_seq e <= seq').
  Proof.
    intros W Hnd Hv [Hfr [Hax [Hint [PT [PJ [B [HB Hch]]]]]]].
    set (tabs := concat (st_levels st)) in *.
    assert (AE : all_entries st = st_mem st ++ entries_of tabs).
    { unfold all_entries, all_tables. rewrite Hfr, Hax. reflexivity. }
    assert (FE : concat (map file_entries fs) = entries_of (map table_of_file fs)).
    { rewrite map_map. reflexivity. }
    assert (PE : Permutation (concat (map file_entries fs)) (entries_of tabs)).
    { rewrite FE. apply perm_concat_map. exact PT. }
    assert (PO : Permutation (orig_entries fs js) (all_entries st)).
    { rewrite AE. unfold orig_entries. etransitivity; [apply Permutation_app_comm|].
      apply Permutation_app; assumption. }
    assert (Hf : files_ok fs).
    { pose proof (wf_tables_all st W) as TA. fold tabs in TA.
      assert (TF : tables_ok (map table_of_file fs)).
      { unfold LsmProofs.tables_ok in *. eapply Permutation_Forall; [symmetry; exact PT|exact TA]. }
      unfold files_ok. unfold LsmProofs.tables_ok in TF. rewrite Forall_map in TF. exact TF. }
    assert (Hjk : kinds_ok (jentries js)).
    { eapply perm_kinds; [symmetry; exact PJ|]. destruct W as [[_ Hk] _ _ _ _ _]. exact Hk. }
    assert (Hnd' : NoDup (map keyseq (orig_entries fs js))).
    { eapply Permutation_NoDup; [apply Permutation_map; symmetry; exact PO|exact Hnd]. }
    assert (HB' : exists B, (forall e, In e (concat (map file_entries fs)) -> e_seq e <= B) /\ chain B js).
    { exists B. split; [|exact Hch]. intros e He. apply HB. eapply Permutation_in; eauto. }
    destruct (recover_spec strict sj fs js next Hf Hjk Hnd' HB') as [st' [seq' [HR [W' [PA HS]]]]].
    assert (SV : surviving strict fs js = orig_entries fs js).
    { unfold surviving, orig_entries. f_equal. f_equal. apply map_ext_in. intros f Hf'.
      apply intact_kept.
      - rewrite Forall_forall in Hint. apply Hint. exact Hf'.
      - intros e He. apply Hv. eapply Permutation_in; [exact PO|]. unfold orig_entries. apply in_or_app. left.
        apply in_concat. exists (file_entries f). split; [apply in_map; exact Hf'|exact He]. }
    rewrite SV in PA, HS.
    exists st', seq'. split; [exact HR|]. split; [exact W'|]. split.
    - intros k s. symmetry. apply get_same_entries; [exact W|exact W'|apply nodup_uniq_in; exact Hnd|].
      apply perm_same_elems. etransitivity; [symmetry; exact PO|symmetry; exact PA].
    - intros e He. apply HS. eapply Permutation_in; [symmetry; exact PO|exact He].
  Qed.

  (* ---- damaged blocks ---- *)
  (* the entry is still readable: it was in the journal, or it sits in an undamaged block of some table
     file (and its key parses) *)
  Definition survives (fs : list tfile) (js : list jbatch) (e : entry) : Prop :=
    In e (jentries js) \/
    exists f b, In f fs /\ In b (tf_blocks f) /\ fb_damaged b = false /\ In e (fb_entries b) /\ valid p e = true.

  Lemma survives_in fs js e : survives fs js e -> In e (surviving false fs js).
  Proof.
    unfold surviving. intros [H|[f [b [Hf [Hb [Hd [He Hv]]]]]]]; apply in_or_app; [right; exact H|left].
    apply in_concat. exists (kept false f). split; [apply in_map; exact Hf|].
    unfold Repair.kept. cbn [andb]. unfold Repair.good. apply filter_In. split; [|exact Hv].
    unfold readable. apply in_concat. exists (fb_entries b). split; [|exact He].
    apply in_map. apply filter_In. split; [exact Hb|]. rewrite Hd. reflexivity.
  Qed.

  Lemma newest_subset k s L S e : uniq_in L -> (forall x, In x S -> In x L) ->
    newest k s L None = Some e -> In e S -> newest k s S None = Some e.
  Proof.
    intros U Hsub HL HeS.
    pose proof (newest_max_acc c k s L None e HL) as [ML _].
    apply (newest_in c) in HL as [HL|[HeL Ve]]; [discriminate|].
    destruct (newest k s S None) as [m|] eqn:E.
    - pose proof (newest_max_acc c k s S None m E) as [MS _].
      apply (newest_in c) in E as [E|[HmS Vm]]; [discriminate|].
      f_equal. apply U; [apply Hsub; exact HmS|exact HeL| |].
      + apply (vis_true c ok) in Ve as [U1 _]. apply (vis_true c ok) in Vm as [U2 _]. congruence.
      + assert (e_seq e <= e_seq m) by (apply MS; assumption).
        assert (e_seq m <= e_seq e) by (apply ML; [apply Hsub; exact HmS|exact Vm]). lia.
    - pose proof (newest_none_all c k s S E e HeS). congruence.
  Qed.

  Theorem recover_damaged sj fs js next :
    files_ok fs ->
    kinds_ok (jentries js) ->
    NoDup (map keyseq (orig_entries fs js)) ->
    (exists B, (forall e, In e (concat (map file_entries fs)) -> e_seq e <= B) /\ chain B js) ->
    exists st' seq', recover c p false sj fs js next = ROk st' seq' /\ wf_state st' /\
      (forall k s e, newest k s (orig_entries fs js) None = Some e -> survives fs js e ->
                     lsm_get st' k s = res_of p e) /\
      (forall k s v, lsm_get st' k s = GFound v ->
                     exists e, In e (orig_entries fs js) /\ e_uk e = k /\ e_seq e <= s /\
                               e_kind e <> keyTypeDel p /\ e_val e = v) /\
      (forall e, survives fs js e -> e_seq e <= seq').
  Proof.
    intros Hf Hjk Hnd HB.
    destruct (recover_spec false sj fs js next Hf Hjk Hnd HB) as [st' [seq' [HR [W' [PA HS]]]]].
    exists st', seq'. split; [exact HR|]. split; [exact W'|].
    assert (US : uniq_in (all_entries st')).
    { apply nodup_uniq_in. eapply Permutation_NoDup; [apply Permutation_map; symmetry; exact PA|].
      eapply sub_NoDup; [apply sub_map; apply surviving_sub|exact Hnd]. }
    assert (NE : forall k s, newest k s (all_entries st') None = newest k s (surviving false fs js) None).
    { intros k s. apply (newest_same_elems c ok); [exact US|apply perm_same_elems; exact PA]. }
    split; [|split].
    - intros k s e HN Hsv.
      rewrite (get_correct c ok p pok st' k s W'), NE.
      rewrite (newest_subset k s (orig_entries fs js) (surviving false fs js) e); [reflexivity| | |exact HN|].
      + apply nodup_uniq_in. exact Hnd.
      + intros x Hx. eapply sub_In; [apply surviving_sub|exact Hx].
      + apply survives_in. exact Hsv.
    - intros k s v HG. rewrite (get_correct c ok p pok st' k s W'), NE in HG.
      destruct (newest k s (surviving false fs js) None) as [e|] eqn:E; [|discriminate].
      cbn [group_res] in HG. unfold res_of in HG.
      destruct (e_kind e =? keyTypeDel p) eqn:K; [discriminate|]. injection HG as HG.
      apply (newest_in c) in E as [E|[He Ve]]; [discriminate|].
      apply (vis_true c ok) in Ve as [Ue Se].
      exists e. split; [eapply sub_In; [apply surviving_sub|exact He]|].
      repeat split; try assumption. apply N.eqb_neq. exact K.
    - intros e He. apply HS. apply survives_in. exact He.
  Qed.
End Proofs.
