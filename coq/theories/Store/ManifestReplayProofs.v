(* Store/ManifestReplayProofs.v — replaying a manifest: the model of session.recover's loop (one reused record,
   versionStaging with its per-level scratch maps, setCompPtr, the final checks) against the plain meaning of the
   records decoded one by one (Codec/SessionRecordSpec.v: replay_result), the connection to the record-level
   persistence model Store/Crash.v (replay_man on the edits the records denote), and the instantiation of the
   abstract edit codec of Store/CrashBytes.v by the manifest record codec. *)
From GL Require Import Base.Bytes Base.BytesProofs Base.Varint Base.VarintProofs
  Codec.SessionRecord Codec.SessionRecordSpec Codec.SessionRecordProofs Codec.SessionRecordCutProofs
  Codec.SessionRecordBuildProofs.
From GL Require Import Store.Crash Store.CrashProofs Codec.Journal Codec.JournalSpec Store.CrashBytes Store.CrashBytesProofs.
From Coq Require Import Lia ZArith.
Open Scope N_scope.

(* ---------------- lists: nth against growing and updating ---------------- *)
Lemma nth_grow {A} (d : A) lv k l : nth l (lv ++ repeat d k) d = nth l lv d.
Proof.
  destruct (Nat.lt_ge_cases l (length lv)) as [H|H].
  - apply app_nth1. exact H.
  - rewrite app_nth2 by lia. rewrite nth_repeat. symmetry. apply nth_overflow. lia.
Qed.

Lemma upd_nth_length {A} n (f : A -> A) l : length (upd_nth n f l) = length l.
Proof. revert n. induction l as [|x l IH]; intros [|n]; cbn [upd_nth length]; try reflexivity. rewrite IH. reflexivity. Qed.

Lemma nth_upd_same {A} n (f : A -> A) l d : (n < length l)%nat -> nth n (upd_nth n f l) d = f (nth n l d).
Proof.
  revert n. induction l as [|x l IH]; intros [|n] H; cbn [length] in H; try lia; cbn [upd_nth nth]; [reflexivity|].
  apply IH. lia.
Qed.

Lemma nth_upd_other {A} n (f : A -> A) l d k : k <> n -> nth k (upd_nth n f l) d = nth k l d.
Proof.
  revert n k. induction l as [|x l IH]; intros [|n] [|k] H; cbn [upd_nth nth]; try reflexivity; try lia.
  apply IH. lia.
Qed.

Lemma nth_trim_levels L : forall l, nth l (trim_levels L) [] = nth l L [].
Proof.
  induction L as [|x L IH]; intros l; [reflexivity|]. cbn [trim_levels].
  destruct (trim_levels L) as [|y T] eqn:E.
  - destruct x as [|a x].
    + destruct l as [|l]; cbn [nth]; [reflexivity|]. rewrite <- IH. destruct l; reflexivity.
    + destruct l as [|l]; cbn [nth]; [reflexivity|]. rewrite <- IH. destruct l; reflexivity.
  - destruct l as [|l]; cbn [nth]; [reflexivity|]. apply IH.
Qed.

Lemma last_some_from_snoc {A} (l : list (option A)) : forall acc o,
  last_some_from acc (l ++ [o]) = match o with Some a => Some a | None => last_some_from acc l end.
Proof. induction l as [|x l IH]; intros acc o; cbn [app last_some_from]; [reflexivity|]. apply IH. Qed.

Lemma last_some_from_some {A} (l : list (option A)) : forall acc j d,
  last_some_from acc l = Some j -> acc = None -> last_some_from (Some d) l = Some j.
Proof.
  induction l as [|x l IH]; intros acc j d H Hacc; cbn [last_some_from] in *.
  - subst. discriminate.
  - destruct x as [a|]; [exact H|]. subst. apply (IH None j d H eq_refl).
Qed.

Section Replay.
  Variable p : rparams.
  Hypothesis pok : rparams_ok p.

  Ltac nodup_facts :=
    let H := fresh in
    destruct pok as [H _]; unfold tags in H;
    repeat match goal with
           | H : NoDup (_ :: _) |- _ => inversion H; clear H; subst
           end;
    cbn [In] in *.
  Ltac eqb_one a b :=
    let E := fresh in
    assert (E : (a =? b) = false) by (apply N.eqb_neq; intros ?; nodup_facts; intuition congruence);
    rewrite E; clear E.

  (* ---------------- the live set, level by level ---------------- *)
  Lemma live_at_del_same live d :
    live_at (dt_level d) (live_del live d) = filter (fun t => negb (at_num t =? dt_num d)%Z) (live_at (dt_level d) live).
  Proof.
    unfold live_at, live_del, same_file. induction live as [|a live IH]; [reflexivity|]. cbn [filter].
    destruct (at_level a =? dt_level d)%Z eqn:El; cbn [andb negb filter].
    - destruct (at_num a =? dt_num d)%Z; cbn [negb filter]; rewrite ?El; cbn [filter]; rewrite IH; reflexivity.
    - rewrite El. exact IH.
  Qed.

  Lemma live_at_del_other live d l : l <> dt_level d -> live_at l (live_del live d) = live_at l live.
  Proof.
    intros H. unfold live_at, live_del, same_file. induction live as [|a live IH]; [reflexivity|]. cbn [filter].
    destruct (at_level a =? dt_level d)%Z eqn:El; cbn [andb negb filter].
    - destruct (at_num a =? dt_num d)%Z; cbn [negb filter].
      + replace (at_level a =? l)%Z with false by lia. exact IH.
      + rewrite IH. reflexivity.
    - rewrite IH. reflexivity.
  Qed.

  Lemma live_add_as_del live t : live_add live t = t :: live_del live (mkdt (at_level t) (at_num t)).
  Proof. reflexivity. Qed.

  (* ---------------- versionStaging against the live set ---------------- *)
  Definition stg_rep (stg : list scratch) (live : list atrec) : Prop :=
    (forall l : nat, map snd (sc_added (nth l stg sc_empty)) = live_at (Z.of_nat l) live) /\
    (forall l : nat, sc_deleted (nth l stg sc_empty) = []) /\
    (forall l : nat, Forall (fun kv => fst kv = at_num (snd kv)) (sc_added (nth l stg sc_empty))) /\
    Forall (fun t => (0 <= at_level t)%Z) live.

  Lemma stg_rep_init : stg_rep [] [].
  Proof.
    repeat split; try (intros l; destruct l; cbn; try reflexivity; constructor). constructor.
  Qed.

  Lemma map_snd_map_del k (m : list (Z * atrec)) : Forall (fun kv => fst kv = at_num (snd kv)) m ->
    map snd (map_del k m) = filter (fun t => negb (at_num t =? k)%Z) (map snd m).
  Proof.
    unfold map_del. induction 1 as [|kv m Hkv Hm IH]; [reflexivity|]. cbn [filter map].
    rewrite Hkv. destruct (at_num (snd kv) =? k)%Z; cbn [negb map]; rewrite IH; reflexivity.
  Qed.

  Lemma map_del_keys k (m : list (Z * atrec)) : Forall (fun kv => fst kv = at_num (snd kv)) m ->
    Forall (fun kv => fst kv = at_num (snd kv)) (map_del k m).
  Proof.
    unfold map_del. induction 1 as [|kv m Hkv Hm IH]; [constructor|]. cbn [filter].
    destruct (negb _); [constructor; assumption|assumption].
  Qed.

  Lemma base_nil_has l : base_has_tables [] l = false.
  Proof. unfold base_has_tables. destruct (Z.to_nat l); reflexivity. Qed.

  Lemma grown_length stg lvl : (Z.to_nat lvl < length (stg ++ repeat sc_empty (S (Z.to_nat lvl) - length stg)))%nat.
  Proof. rewrite app_length, repeat_length. lia. Qed.

  Lemma commit_del_rep stg live d : stg_rep stg live -> (0 <= dt_level d)%Z ->
    exists stg', commit_del [] stg d = POk stg' /\ stg_rep stg' (live_del live d).
  Proof.
    intros (Ha & Hd & Hk & Hl) H0. unfold commit_del, grow_levels.
    replace (dt_level d <? 0)%Z with false by lia. cbn [pbind]. eexists. split; [reflexivity|].
    rewrite base_nil_has.
    set (n := Z.to_nat (dt_level d)). set (lv := stg ++ repeat sc_empty (S n - length stg)).
    assert (Hn : (n < length lv)%nat) by apply grown_length.
    assert (Hz : Z.of_nat n = dt_level d) by (unfold n; lia).
    repeat split.
    - intros l. destruct (Nat.eq_dec l n) as [->|Hne].
      + rewrite nth_upd_same by exact Hn. cbn [sc_added]. unfold lv. rewrite nth_grow.
        rewrite map_snd_map_del by apply Hk. rewrite Ha, Hz. symmetry. apply live_at_del_same.
      + rewrite nth_upd_other by exact Hne. unfold lv. rewrite nth_grow, Ha.
        symmetry. apply live_at_del_other. lia.
    - intros l. destruct (Nat.eq_dec l n) as [->|Hne].
      + rewrite nth_upd_same by exact Hn. cbn [sc_deleted]. unfold lv. rewrite nth_grow. apply Hd.
      + rewrite nth_upd_other by exact Hne. unfold lv. rewrite nth_grow. apply Hd.
    - intros l. destruct (Nat.eq_dec l n) as [->|Hne].
      + rewrite nth_upd_same by exact Hn. cbn [sc_added]. unfold lv. rewrite nth_grow. apply map_del_keys, Hk.
      + rewrite nth_upd_other by exact Hne. unfold lv. rewrite nth_grow. apply Hk.
    - unfold live_del. clear -Hl. induction Hl as [|a live Ha Hl IH]; [constructor|]. cbn [filter].
      destruct (negb _); [constructor; assumption|assumption].
  Qed.

  Lemma commit_add_rep stg live t : stg_rep stg live -> (0 <= at_level t)%Z ->
    exists stg', commit_add stg t = POk stg' /\ stg_rep stg' (live_add live t).
  Proof.
    intros (Ha & Hd & Hk & Hl) H0. unfold commit_add, grow_levels.
    replace (at_level t <? 0)%Z with false by lia. cbn [pbind]. eexists. split; [reflexivity|].
    set (n := Z.to_nat (at_level t)). set (lv := stg ++ repeat sc_empty (S n - length stg)).
    assert (Hn : (n < length lv)%nat) by apply grown_length.
    assert (Hz : Z.of_nat n = at_level t) by (unfold n; lia).
    rewrite live_add_as_del. set (d := mkdt (at_level t) (at_num t)).
    repeat split.
    - intros l. destruct (Nat.eq_dec l n) as [->|Hne].
      + rewrite nth_upd_same by exact Hn. cbn [sc_added map_put map snd]. unfold lv. rewrite nth_grow.
        rewrite map_snd_map_del by apply Hk. rewrite Ha, Hz.
        unfold live_at at 2. cbn [filter]. rewrite Z.eqb_refl. f_equal.
        symmetry. apply (live_at_del_same live d).
      + rewrite nth_upd_other by exact Hne. unfold lv. rewrite nth_grow, Ha.
        unfold live_at at 2. cbn [filter]. replace (at_level t =? Z.of_nat l)%Z with false by lia.
        symmetry. apply (live_at_del_other live d). cbn [d dt_level]. lia.
    - intros l. destruct (Nat.eq_dec l n) as [->|Hne].
      + rewrite nth_upd_same by exact Hn. cbn [sc_deleted]. unfold lv. rewrite nth_grow, Hd. reflexivity.
      + rewrite nth_upd_other by exact Hne. unfold lv. rewrite nth_grow. apply Hd.
    - intros l. destruct (Nat.eq_dec l n) as [->|Hne].
      + rewrite nth_upd_same by exact Hn. cbn [sc_added map_put]. unfold lv. rewrite nth_grow.
        constructor; [reflexivity|]. apply map_del_keys, Hk.
      + rewrite nth_upd_other by exact Hne. unfold lv. rewrite nth_grow. apply Hk.
    - constructor; [exact H0|]. unfold live_del. clear -Hl. induction Hl as [|a live Ha Hl IH]; [constructor|]. cbn [filter].
      destruct (negb _); [constructor; assumption|assumption].
  Qed.

  Lemma pfold_dels_rep dels : forall stg live, stg_rep stg live -> Forall (fun d => (0 <= dt_level d)%Z) dels ->
    exists stg', pfold (commit_del []) dels stg = POk stg' /\ stg_rep stg' (fold_left live_del dels live).
  Proof.
    induction dels as [|d dels IH]; intros stg live H Hd; cbn [pfold fold_left].
    - eexists. split; [reflexivity|exact H].
    - inversion Hd as [|? ? H0 Hd']; subst.
      destruct (commit_del_rep stg live d H H0) as (stg1 & E1 & R1). rewrite E1. cbn [pbind]. apply IH; assumption.
  Qed.

  Lemma pfold_adds_rep adds : forall stg live, stg_rep stg live -> Forall (fun t => (0 <= at_level t)%Z) adds ->
    exists stg', pfold commit_add adds stg = POk stg' /\ stg_rep stg' (fold_left live_add adds live).
  Proof.
    induction adds as [|t adds IH]; intros stg live H Ht; cbn [pfold fold_left].
    - eexists. split; [reflexivity|exact H].
    - inversion Ht as [|? ? H0 Ht']; subst.
      destruct (commit_add_rep stg live t H H0) as (stg1 & E1 & R1). rewrite E1. cbn [pbind]. apply IH; assumption.
  Qed.

  Lemma commit_rep stg live r : stg_rep stg live -> lv_ok r ->
    exists stg', commit [] stg r = POk stg' /\ stg_rep stg' (live_apply live r).
  Proof.
    intros H (_ & Ha & Hd). unfold commit, live_apply.
    destruct (pfold_dels_rep _ stg live H Hd) as (stg1 & E1 & R1). rewrite E1. cbn [pbind].
    apply pfold_adds_rep; assumption.
  Qed.

  Lemma finish_rep stg live : stg_rep stg live -> forall l, nth l (finish [] stg) [] = live_at (Z.of_nat l) live.
  Proof.
    intros (Ha & Hd & _ & _) l. unfold finish. rewrite nth_trim_levels. cbn [length Nat.max].
    assert (F : forall i, finish_level (nth i [] []) (nth i stg sc_empty) = live_at (Z.of_nat i) live).
    { intros i. rewrite <- Ha. unfold finish_level. rewrite Hd.
      replace (nth i (@nil (list atrec)) []) with (@nil atrec) by (destruct i; reflexivity).
      destruct (sc_added (nth i stg sc_empty)); reflexivity. }
    destruct (Nat.lt_ge_cases l (length stg)) as [H|H].
    - rewrite (nth_indep _ [] (finish_level (nth 0%nat [] []) (nth 0%nat stg sc_empty))) by (rewrite map_length, seq_length; exact H).
      rewrite (map_nth (fun i => finish_level (nth i [] []) (nth i stg sc_empty))).
      rewrite seq_nth by exact H. apply F.
    - rewrite nth_overflow by (rewrite map_length, seq_length; exact H).
      rewrite <- Ha. rewrite nth_overflow by exact H. reflexivity.
  Qed.

  (* ---------------- compaction pointers ---------------- *)
  Definition cps_rep (cps : list (option bytes)) (all : list cprec) : Prop :=
    forall l : nat, nth l cps None = cp_lookup all (Z.of_nat l).

  Lemma set_comp_ptr_rep cps all c : cps_rep cps all -> (0 <= cp_level c)%Z ->
    exists cps', set_comp_ptr cps c = POk cps' /\ cps_rep cps' (all ++ [c]).
  Proof.
    intros H H0. unfold set_comp_ptr. replace (cp_level c <? 0)%Z with false by lia. eexists. split; [reflexivity|].
    set (n := Z.to_nat (cp_level c)). set (lv := cps ++ repeat None (S n - length cps)).
    assert (Hn : (n < length lv)%nat) by (unfold lv; rewrite app_length, repeat_length; lia).
    intros l. unfold cp_lookup, last_some. rewrite map_app. cbn [map]. rewrite last_some_from_snoc.
    destruct (Nat.eq_dec l n) as [->|Hne].
    - rewrite nth_upd_same by exact Hn. replace (cp_level c =? Z.of_nat n)%Z with true by (unfold n; lia). reflexivity.
    - rewrite nth_upd_other by exact Hne. unfold lv. rewrite nth_grow.
      replace (cp_level c =? Z.of_nat l)%Z with false by (unfold n in Hne; lia). apply H.
  Qed.

  Lemma pfold_cps_rep cs : forall cps all, cps_rep cps all -> Forall (fun c => (0 <= cp_level c)%Z) cs ->
    exists cps', pfold set_comp_ptr cs cps = POk cps' /\ cps_rep cps' (all ++ cs).
  Proof.
    induction cs as [|c cs IH]; intros cps all H Hc; cbn [pfold].
    - eexists. split; [reflexivity|]. rewrite app_nil_r. exact H.
    - inversion Hc as [|? ? H0 Hc']; subst.
      destruct (set_comp_ptr_rep cps all c H H0) as (cps1 & E1 & R1). rewrite E1. cbn [pbind].
      destruct (IH cps1 (all ++ [c]) R1 Hc') as (cps2 & E2 & R2). exists cps2. split; [exact E2|].
      rewrite <- app_assoc in R2. exact R2.
  Qed.

  (* ---------------- the reused record ---------------- *)
  Definition acc (r0 r : srec) : srec := reset_lists p (carry p r0 r).
  Definition lists_empty (r : srec) : Prop := sr_cps r = [] /\ sr_adds r = [] /\ sr_dels r = [].

  Lemma acc_lists_empty r0 r : lists_empty (acc r0 r).
  Proof. repeat split. Qed.

  Definition scalar_tag (t : N) : Prop :=
    t = tComparer p \/ t = tJournalNum p \/ t = tNextFileNum p \/ t = tSeqNum p \/ t = tPrevJournalNum p.

  Lemma has_acc r0 r t : scalar_tag t -> has (acc r0 r) t = has r0 t || has r t.
  Proof.
    intros Ht. unfold acc, reset_lists, reset_deleted, reset_added, reset_comp_ptrs, carry, has.
    cbn [sr_has]. rewrite !N.clearbit_eqb, N.lor_spec.
    destruct Ht as [-> | [-> | [-> | [-> | ->]]]];
      (eqb_one (tDelTable p) (tComparer p) || eqb_one (tDelTable p) (tJournalNum p) || eqb_one (tDelTable p) (tNextFileNum p)
       || eqb_one (tDelTable p) (tSeqNum p) || eqb_one (tDelTable p) (tPrevJournalNum p));
      (eqb_one (tAddTable p) (tComparer p) || eqb_one (tAddTable p) (tJournalNum p) || eqb_one (tAddTable p) (tNextFileNum p)
       || eqb_one (tAddTable p) (tSeqNum p) || eqb_one (tAddTable p) (tPrevJournalNum p));
      (eqb_one (tCompPtr p) (tComparer p) || eqb_one (tCompPtr p) (tJournalNum p) || eqb_one (tCompPtr p) (tNextFileNum p)
       || eqb_one (tCompPtr p) (tSeqNum p) || eqb_one (tCompPtr p) (tPrevJournalNum p));
      cbn [negb]; rewrite !andb_true_r; reflexivity.
  Qed.

  (* a scalar field f of the reused record, with its bit t, after the records rs *)
  Lemma scalar_fold {A} t (f : srec -> A) : scalar_tag t ->
    (forall r0 r, f (acc r0 r) = if has r t then f r else f r0) ->
    forall rs r0,
      (if has (fold_left acc rs r0) t then Some (f (fold_left acc rs r0)) else None) =
      last_some_from (if has r0 t then Some (f r0) else None) (map (fun r => if has r t then Some (f r) else None) rs).
  Proof.
    intros Ht Hf. induction rs as [|r rs IH]; intros r0; cbn [fold_left map last_some_from]; [reflexivity|].
    rewrite IH. f_equal. rewrite has_acc by exact Ht. rewrite Hf.
    destruct (has r t); [rewrite orb_true_r; reflexivity|rewrite orb_false_r; reflexivity].
  Qed.

  Lemma scalar_final {A} t (f : srec -> A) (d : A) rs : scalar_tag t -> f sr_empty = d ->
    (forall r0 r, f (acc r0 r) = if has r t then f r else f r0) ->
    (if has (fold_left acc rs sr_empty) t then Some (f (fold_left acc rs sr_empty)) else None) = scalar_of t f rs.
  Proof.
    intros Ht _ Hf. rewrite (scalar_fold t f Ht Hf). unfold scalar_of, last_some.
    replace (has sr_empty t) with false by (unfold has; cbn [sr_empty sr_has]; rewrite N.bits_0; reflexivity).
    reflexivity.
  Qed.

  (* ---------------- the loop ---------------- *)
  Lemma recover_loop_ok strict recs rs : Forall2 (fun b r => decode p sr_empty b = DOk r) recs rs ->
    forall rec cps stg live all, lists_empty rec -> stg_rep stg live -> cps_rep cps all ->
    exists cps' stg',
      recover_loop p strict recs rec cps stg = inr (fold_left acc rs rec, cps', stg') /\
      stg_rep stg' (fold_left (live_apply) rs live) /\ cps_rep cps' (all ++ flat_map sr_cps rs).
  Proof.
    induction 1 as [|b r recs rs Hd Hrest IH]; intros rec cps stg live all Hle Hs Hc; cbn [recover_loop fold_left flat_map].
    - exists cps, stg. rewrite app_nil_r. split; [reflexivity|split; assumption].
    - pose proof (decode_carry p pok rec b) as D. rewrite Hd in D. rewrite D.
      assert (L : lv_ok r) by (apply (decode_lv p sr_empty b r lv_ok_empty Hd)).
      destruct Hle as (E1 & E2 & E3).
      assert (C1 : sr_cps (carry p rec r) = sr_cps r) by (cbn [carry sr_cps]; rewrite E1; reflexivity).
      assert (C2 : sr_adds (carry p rec r) = sr_adds r) by (cbn [carry sr_adds]; rewrite E2; reflexivity).
      assert (C3 : sr_dels (carry p rec r) = sr_dels r) by (cbn [carry sr_dels]; rewrite E3; reflexivity).
      rewrite C1. destruct L as (Lc & La & Ld).
      destruct (pfold_cps_rep (sr_cps r) cps all Hc Lc) as (cps1 & Ec & Rc). rewrite Ec.
      destruct (commit_rep stg live (carry p rec r) Hs) as (stg1 & Es & Rs).
      { unfold lv_ok. rewrite C1, C2, C3. repeat split; assumption. }
      rewrite Es.
      assert (LA : live_apply live (carry p rec r) = live_apply live r) by (unfold live_apply; rewrite C2, C3; reflexivity).
      rewrite LA in Rs.
      destruct (IH (acc rec r) cps1 stg1 (live_apply live r) (all ++ sr_cps r) (acc_lists_empty rec r) Rs Rc)
        as (cps2 & stg2 & E & R1 & R2).
      exists cps2, stg2. split; [exact E|]. split; [exact R1|]. rewrite <- app_assoc in R2. exact R2.
  Qed.

  (* Applying the records of a manifest in order, as session.recover does — one reused record, scratch maps per
     level, compaction pointers, the final checks — gives exactly what the records decoded one by one denote:
     the same failure of the consistency checks, or the numbers set last, per level the live tables (a deletion
     removes a (level, number), an addition replaces it, deletions of a record first), per level the compaction
     pointer set last.  For EVERY list of records each of which decodes; strict or not. *)
  Theorem manifest_replay strict cmp recs rs : Forall2 (fun b r => decode p sr_empty b = DOk r) recs rs ->
    agrees (session_recover p strict cmp recs) (replay_result p cmp rs).
  Proof.
    intros H. unfold session_recover.
    destruct (recover_loop_ok strict recs rs H sr_empty [] [] [] [] (conj eq_refl (conj eq_refl eq_refl)) stg_rep_init)
      as (cps & stg & E & Rs & Rc).
    { intros l. destruct l; reflexivity. }
    rewrite E. clear E. set (R := fold_left acc rs sr_empty) in *.
    assert (S1 := scalar_final (tComparer p) sr_comparer [] rs (or_introl eq_refl) eq_refl (fun _ _ => eq_refl)).
    assert (S2 := scalar_final (tNextFileNum p) sr_nextfile 0%Z rs (or_intror (or_intror (or_introl eq_refl))) eq_refl (fun _ _ => eq_refl)).
    assert (S3 := scalar_final (tJournalNum p) sr_journal 0%Z rs (or_intror (or_introl eq_refl)) eq_refl (fun _ _ => eq_refl)).
    assert (S4 := scalar_final (tSeqNum p) sr_seq 0 rs (or_intror (or_intror (or_intror (or_introl eq_refl)))) eq_refl (fun _ _ => eq_refl)).
    assert (S5 := scalar_final (tPrevJournalNum p) sr_prevjournal 0%Z rs (or_intror (or_intror (or_intror (or_intror eq_refl)))) eq_refl (fun _ _ => eq_refl)).
    fold R in S1, S2, S3, S4, S5. unfold replay_result.
    rewrite <- S1. destruct (has R (tComparer p)); cbn [negb]; [|reflexivity].
    destruct (beq (sr_comparer R) cmp); cbn [negb]; [|reflexivity].
    rewrite <- S2. destruct (has R (tNextFileNum p)); cbn [negb]; [|reflexivity].
    rewrite <- S3. destruct (has R (tJournalNum p)); cbn [negb]; [|reflexivity].
    rewrite <- S4. destruct (has R (tSeqNum p)); cbn [negb]; [|reflexivity].
    rewrite <- S5. cbn [agrees ss_journal ss_prevjournal ss_nextfile ss_seq ss_levels ss_cptrs].
    repeat split.
    - destruct (has R (tPrevJournalNum p)); reflexivity.
    - intros l. apply finish_rep. exact Rs.
    - intros l. apply Rc.
  Qed.

  (* ---------------- the connection to Store/Crash.v ---------------- *)
  Fixpoint last_dflt {A} (d : A) (l : list (option A)) : A :=
    match l with
    | [] => d
    | o :: rest => last_dflt (match o with Some a => a | None => d end) rest
    end.

  Lemma replay_man_spec es : forall jn sq tabs,
    replay_man es jn sq tabs = (last_dflt jn (map m_jnum es), last_dflt sq (map m_seq es), tabs ++ flat_map m_tab es).
  Proof.
    induction es as [|e es IH]; intros jn sq tabs; cbn [replay_man map last_dflt flat_map].
    - rewrite app_nil_r. reflexivity.
    - rewrite IH. rewrite <- app_assoc. reflexivity.
  Qed.

  Lemma last_dflt_some {A} (l : list (option A)) : forall acc d,
    last_dflt (match acc with Some a => a | None => d end) l =
    match last_some_from acc l with Some a => a | None => d end.
  Proof.
    induction l as [|x l IH]; intros acc d; cbn [last_dflt last_some_from]; [reflexivity|].
    destruct x as [a|]; [apply (IH (Some a) d)|apply IH].
  Qed.

  Lemma last_dflt_map {A B} (g : A -> B) (l : list (option A)) : forall d,
    last_dflt (g d) (map (option_map g) l) = g (last_dflt d l).
  Proof.
    induction l as [|x l IH]; intros d; cbn [map last_dflt]; [reflexivity|].
    rewrite <- IH. destruct x; reflexivity.
  Qed.

  (* When the replay of the records succeeds, the manifest-edit list they denote (journal number, sequence
     number, the batches each added table newly makes durable) replays in the record-level model to the same
     journal and sequence numbers, and to the batches of all tables ever added, in order. *)
  Theorem manifest_replay_abs newb cmp rs j pj nf q live cps :
    replay_result p cmp rs = SpecOk j pj nf q live cps ->
    replay_man (map (medit_of p newb) rs) 0 0 [] = (Z.to_N j, q, flat_map newb (flat_map sr_adds rs)).
  Proof.
    unfold replay_result. intros H.
    destruct (scalar_of (tComparer p) sr_comparer rs); [|discriminate].
    destruct (negb _); [discriminate|].
    destruct (scalar_of (tNextFileNum p) sr_nextfile rs); [|discriminate].
    destruct (scalar_of (tJournalNum p) sr_journal rs) as [j'|] eqn:Ej; [|discriminate].
    destruct (scalar_of (tSeqNum p) sr_seq rs) as [q'|] eqn:Eq; [|discriminate].
    injection H as <- _ _ <- _ _.
    rewrite replay_man_spec. cbn [app]. rewrite !map_map. cbn [medit_of m_jnum m_seq m_tab].
    f_equal; [f_equal|].
    - unfold scalar_of, last_some in Ej.
      pose proof (last_dflt_map Z.to_N (map (fun r => if has r (tJournalNum p) then Some (sr_journal r) else None) rs) 0%Z) as M.
      rewrite map_map in M. change (Z.to_N 0) with 0 in M.
      erewrite map_ext in M; [rewrite M|].
      + f_equal. rewrite (last_dflt_some _ None 0%Z), Ej. reflexivity.
      + intros r. cbn beta. destruct (has r (tJournalNum p)); reflexivity.
    - unfold scalar_of, last_some in Eq. rewrite (last_dflt_some _ None 0), Eq. reflexivity.
    - clear. induction rs as [|r rs IH]; [reflexivity|]. cbn [map flat_map]. rewrite IH, flat_map_app. reflexivity.
  Qed.

  (* ---------------- Store/CrashBytes.v's abstract edit codec, instantiated ---------------- *)
  Theorem codecs_ok_medit enc_batch dec_batch s :
    (forall b, In b (p_issued s) -> dec_batch (enc_batch b) = Some b) ->
    Forall medit_ok (p_man s) ->
    codecs_ok enc_batch dec_batch (enc_medit p) (dec_medit p) s.
  Proof.
    intros Hb Hm. split; [exact Hb|]. intros e He. apply medit_roundtrip; [exact pok|].
    rewrite Forall_forall in Hm. apply Hm. exact He.
  Qed.

  Theorem crash_safe_bytes_concrete crc jp : jparams_ok jp ->
    forall enc_batch dec_batch ck ops b,
    (forall x, In x (p_issued (prun ops)) -> dec_batch (enc_batch x) = Some x) ->
    Forall medit_ok (p_man (prun ops)) ->
    is_byte_image crc jp enc_batch (enc_medit p) ck (prun ops) b ->
    let r := recover_image_bytes crc jp dec_batch (dec_medit p) ck (prun ops) b in
    (forall x, In x (p_acked (prun ops)) -> In x r) /\
    (forall x, In x r -> In x (p_issued (prun ops))) /\
    sorted_b r.
  Proof.
    intros Hj enc_batch dec_batch ck ops b Hb Hm Hi.
    apply (crash_safe_bytes crc jp Hj enc_batch dec_batch (enc_medit p) (dec_medit p) ck ops b); [|exact Hi].
    apply codecs_ok_medit; assumption.
  Qed.
End Replay.
