(* Store/OpenEndProofs.v — what the DB that Open returns ANSWERS: the byte-level read path (Lsm/ReadPath.v) on
   the recovered state, composed with the journal replay (Store/OpenJournalProofs.v, Store/OpenPathProofs.v) and
   the record-level crash theorem (Store/CrashProofs.v).  Proof file.

   The buffer Open rebuilds holds the stamped records of the accepted journal batches, all newer than whatever the
   tables hold; a read therefore returns the tables' answer overlaid with the accepted batches in order
   (HistoryProofs.hist_recs, iterated over batches with gaps between their sequence numbers). *)
From Coq Require Import List NArith ZArith Bool Lia.
From GL Require Import Base.Bytes Base.Order Base.OrderProofs Codec.IKey Codec.Batch Codec.BatchProofs Codec.BatchGroupProofs
  Lsm.Lsm Lsm.LsmProofs Lsm.History Lsm.HistoryProofs Lsm.ReorgProofs Lsm.ReadPath Lsm.ReadPathKey Lsm.ReadPathMem
  Lsm.ReadPathProofs Lsm.BatchWriteProofs Store.OpenPath Store.OpenJournalProofs.
From GL Require Mem.MemDB.
Import ListNotations.
Open Scope N_scope.

Section OpenEnd.
  Variable c : comparer.
  Hypothesis ok : comparer_ok c.
  Variable p : kparams.
  Hypothesis pok : kparams_ok p.
  Hypothesis seek_val : keyTypeSeek p <= keyTypeVal p.
  Variable mp : MemDB.mparams.
  Hypothesis mpok : MemDB.mparams_ok mp.
  Variable tp : Table.tparams.
  Variable crc : bytes -> N.
  Variable decompress : bytes -> option bytes.
  Variable fname : option bytes.
  Variable ufc : bytes -> N -> bytes -> bool.
  Variable verify : bool.
  Variable ri : N.

  Local Notation wfb := (wf_bstate c p mp tp crc decompress fname ufc verify ri).
  Local Notation absS := (ReadPath.abs c mp tp crc decompress fname ufc verify ri).
  Local Notation getb := (db_get_bytes c p mp tp crc decompress fname ufc verify).
  Local Notation wmem := (with_mem).

  (* write_wf of BatchWriteProofs for ANY collection of new entries that are newer than everything stored *)
  Lemma write_wf_gen st d d' (new : list entry) lo :
    wfb st -> bs_mem st = Some d -> mem_ok c p mp d' ->
    (forall x, In x (all_entries (absS st)) -> e_seq x <= lo) ->
    (forall a, In a new -> lo < e_seq a) ->
    (forall x, In x (mem_entries mp (Some d')) <-> In x (mem_entries mp (Some d)) \/ In x new) ->
    wfb (wmem st d') /\ same_elems (all_entries (absS st) ++ new) (all_entries (absS (wmem st d'))).
  Proof.
    intros W Hd Hm' Hfresh Hnew Hin.
    assert (Emem : st_mem (absS st) = mem_entries mp (Some d)) by (cbn [ReadPath.abs st_mem]; rewrite Hd; reflexivity).
    split.
    - destruct W as [Wm Wf Wt Wa]. constructor.
      + intros x Hx. cbn [with_mem bs_mem] in Hx. injection Hx as <-. exact Hm'.
      + exact Wf.
      + exact Wt.
      + destruct Wa as [Wmem Wfro Waux Wl0 Wdeep Wch].
        rewrite abs_with_mem.
        constructor; cbn [st_mem st_frozen st_aux st_levels].
        * destruct Hm' as [(A' & L' & I') Hk'].
          assert (Hks : keys_ok p (mem_pairs mp d')).
          { unfold keys_ok. apply Forall_forall. unfold mem_keys_okb in Hk'. rewrite forallb_forall in Hk'. exact Hk'. }
          split.
          -- cbn [mem_entries]. apply (sorted_ssorted c ok p _ Hks).
             apply (mem_pairs_sorted c p seek_val mp mpok d' A' L' I').
          -- cbn [mem_entries]. apply (keys_ok_kinds p pok _ Hks).
        * exact Wfro.
        * exact Waux.
        * exact Wl0.
        * exact Wdeep.
        * unfold comps in *. cbn [st_mem st_frozen st_aux st_levels chain_newer] in *.
          destruct Wch as [Nm Rest]. split; [|exact Rest].
          apply Forall_forall. intros y Hy a b Ha Hb Hu.
          apply Hin in Ha as [Ha|Ha].
          -- rewrite Forall_forall in Nm. rewrite <- Emem in Ha. exact (Nm y Hy a b Ha Hb Hu).
          -- specialize (Hnew a Ha).
             assert (In b (all_entries (absS st))).
             { eapply in_comps_tail; [|exact Hb]. unfold comps. cbn [tl]. exact Hy. }
             specialize (Hfresh b H). lia.
    - intros x. unfold all_entries. rewrite abs_with_mem.
      cbn [st_mem st_frozen st_aux st_levels all_tables].
      rewrite Emem. cbn [ReadPath.abs st_aux]. rewrite !in_app_iff. rewrite Hin. tauto.
  Qed.

  (* ---------------------------------------------------------------- the accepted batches *)
  Local Notation jb_entries := (OpenJournalProofs.jb_entries p).
  Local Notation jb_ok := (OpenJournalProofs.jb_ok p).

  (* what the sequence rule accepts is a chain: every batch starts at or above the running number *)
  Fixpoint jchain (cur : N) (l : list jbatch) (e : N) : Prop :=
    match l with
    | [] => cur = e
    | b :: r => cur <= fst b /\ jchain (fst b + jb_n b) r e
    end.

  Lemma accepted_chain bs : forall cur, jchain cur (fst (accepted bs cur)) (snd (accepted bs cur)).
  Proof.
    induction bs as [|b r IH]; intros cur; cbn [accepted]; [reflexivity|].
    destruct (fst b <? cur) eqn:E; [apply IH|].
    specialize (IH (fst b + jb_n b)). destruct (accepted r (fst b + jb_n b)) as [a e]. cbn [fst snd jchain] in *.
    apply N.ltb_ge in E. split; assumption.
  Qed.

  Lemma accepted_in bs : forall cur b, In b (fst (accepted bs cur)) -> In b bs.
  Proof.
    induction bs as [|x r IH]; intros cur b; cbn [accepted]; [intros []|].
    destruct (fst x <? cur); [intros H; right; exact (IH _ _ H)|].
    specialize (IH (fst x + jb_n x) b). destruct (accepted r (fst x + jb_n x)) as [a e]. cbn [fst In] in *.
    intros [<-|H]; [left; reflexivity|right; exact (IH H)].
  Qed.

  Lemma jchain_le l : forall cur e, jchain cur l e -> cur <= e.
  Proof.
    induction l as [|b r IH]; intros cur e; cbn [jchain]; [intros ->; lia|].
    intros (H1 & H2). specialize (IH _ _ H2). lia.
  Qed.

  (* the plain map driven by a list of batches, in order *)
  Definition apply_batches (m : amap) (l : list jbatch) : amap :=
    fold_left (fun m b => fold_left (a_apply c p) (jb_recs b) m) l m.

  Lemma a_apply_norm m r : rec_wf p r -> a_apply c p m (norm_rec p r) = a_apply c p m r.
  Proof.
    destruct r as [[kd k] v]. intros ([Hk|Hk] & _); cbn [fst] in Hk; subst kd; cbn [norm_rec a_apply].
    - rewrite N.eqb_refl. reflexivity.
    - rewrite N.eqb_refl. reflexivity.
  Qed.

  Lemma fold_apply_norm recs : Forall (rec_wf p) recs -> forall m,
    fold_left (a_apply c p) (map (norm_rec p) recs) m = fold_left (a_apply c p) recs m.
  Proof.
    induction 1 as [|r t Hr Ht IH]; intros m; [reflexivity|].
    cbn [map fold_left]. rewrite (a_apply_norm m r Hr). apply IH.
  Qed.

  Lemma jchain_ge l : forall cur e, jchain cur l e -> forall b, In b l -> cur <= fst b.
  Proof.
    induction l as [|x r IH]; intros cur e H b Hb; [destruct Hb|].
    destruct H as (H1 & H2). destruct Hb as [<-|Hb]; [exact H1|].
    specialize (IH _ _ H2 b Hb). unfold jb_n in *. lia.
  Qed.

  (* reading a collection [old] overlaid with the entries of a chain of batches that are all newer than it: at any
     sequence number sr that is not below the collection and the chain *)
  Lemma newest_batches k : forall acc old s cur e m sr,
    Forall jb_ok acc -> jchain cur acc e -> (forall b, In b acc -> s < fst b) ->
    (forall x, In x old -> e_seq x <= s) ->
    History.res p (newest c k s old None) = a_get c k m ->
    s <= sr -> e <= sr + 1 ->
    History.res p (newest c k sr (old ++ flat_map jb_entries acc) None) = a_get c k (apply_batches m acc) /\
    (forall x, In x (old ++ flat_map jb_entries acc) -> e_seq x <= sr).
  Proof.
    induction acc as [|b r IH]; intros old s cur e m sr Hok Hch Hnew Hold Hm Hsr He.
    - cbn [flat_map apply_batches fold_left]. rewrite app_nil_r. split.
      + rewrite (newest_seq_irrelevant c k s sr old None Hold Hsr). exact Hm.
      + intros x Hx. specialize (Hold x Hx). lia.
    - inversion Hok as [|? ? Hb Hr]; subst. destruct Hch as (H1 & Hch).
      destruct Hb as (Hw & Hb1 & Hs & _ & _).
      pose proof (Hnew b (or_introl eq_refl)) as Hsb.
      cbn [flat_map]. rewrite app_assoc.
      assert (Hold' : forall x, In x old -> e_seq x <= fst b - 1) by (intros x Hx; specialize (Hold x Hx); lia).
      assert (Hm' : History.res p (newest c k (fst b - 1) old None) = a_get c k m).
      { rewrite (newest_seq_irrelevant c k s (fst b - 1) old None Hold) by lia. exact Hm. }
      pose proof (hist_recs c ok p k (map (norm_rec p) (jb_recs b)) (fst b - 1) old m Hold' Hm') as Hh.
      rewrite map_length in Hh. rewrite (fold_apply_norm _ Hw) in Hh.
      unfold OpenJournalProofs.jb_entries in *.
      assert (Es : fst b - 1 + N.of_nat (length (jb_recs b)) = fst b + jb_n b - 1) by (unfold jb_n; lia).
      rewrite Es in Hh.
      pose proof (jchain_le _ _ _ Hch) as Hle.
      apply (IH (old ++ stamp (fst b - 1) (map (norm_rec p) (jb_recs b))) (fst b + jb_n b - 1) (fst b + jb_n b) e
                (fold_left (a_apply c p) (jb_recs b) m) sr Hr Hch).
      + intros b' Hb'. pose proof (jchain_ge _ _ _ Hch b' Hb'). lia.
      + intros x Hx. apply in_app_or in Hx as [Hx|Hx]; [specialize (Hold' x Hx); lia|].
        apply stamp_seq in Hx as [_ Hx]. rewrite map_length in Hx. unfold jb_n. lia.
      + exact Hh.
      + lia.
      + exact He.
  Qed.

  (* ---------------------------------------------------------------- distinctness of the replayed entries *)
  Lemma stamp_uniq recs : forall s a b, In a (stamp s recs) -> In b (stamp s recs) -> e_seq a = e_seq b -> a = b.
  Proof.
    induction recs as [|[[kd k'] v] t IH]; intros s a b Ha Hb E; [destruct Ha|].
    cbn [stamp] in Ha, Hb. destruct Ha as [<-|Ha], Hb as [<-|Hb].
    - reflexivity.
    - apply stamp_seq in Hb as [Hb _]. cbn [e_seq] in *. lia.
    - apply stamp_seq in Ha as [Ha _]. cbn [e_seq] in *. lia.
    - apply (IH (s + 1)); assumption.
  Qed.

  Lemma jb_entries_range b x : In x (jb_entries b) -> 1 <= fst b -> fst b <= e_seq x /\ e_seq x < fst b + jb_n b.
  Proof.
    unfold OpenJournalProofs.jb_entries. intros Hx H1. apply stamp_seq in Hx as [A B].
    rewrite map_length in B. unfold jb_n. lia.
  Qed.

  Lemma chain_entries_range acc : forall cur e, Forall jb_ok acc -> jchain cur acc e ->
    forall x, In x (flat_map jb_entries acc) -> cur <= e_seq x /\ e_seq x < e.
  Proof.
    induction acc as [|b r IH]; intros cur e Hok Hch x Hx; [destruct Hx|].
    inversion Hok as [|? ? Hb Hr]; subst. destruct Hch as (H1 & Hch). destruct Hb as (_ & Hb1 & _).
    cbn [flat_map] in Hx. apply in_app_or in Hx as [Hx|Hx].
    - destruct (jb_entries_range b x Hx Hb1). pose proof (jchain_le _ _ _ Hch). lia.
    - destruct (IH _ _ Hr Hch x Hx). unfold jb_n in *. lia.
  Qed.

  Lemma chain_entries_uniq acc : forall cur e, Forall jb_ok acc -> jchain cur acc e ->
    forall a b, In a (flat_map jb_entries acc) -> In b (flat_map jb_entries acc) -> e_seq a = e_seq b -> a = b.
  Proof.
    induction acc as [|x r IH]; intros cur e Hok Hch a b Ha Hb E; [destruct Ha|].
    inversion Hok as [|? ? Hx Hr]; subst. destruct Hch as (H1 & Hch). destruct Hx as (_ & Hx1 & _).
    cbn [flat_map] in Ha, Hb. apply in_app_or in Ha. apply in_app_or in Hb.
    destruct Ha as [Ha|Ha], Hb as [Hb|Hb].
    - unfold OpenJournalProofs.jb_entries in Ha, Hb. exact (stamp_uniq _ _ a b Ha Hb E).
    - destruct (jb_entries_range x a Ha Hx1). destruct (chain_entries_range r _ _ Hr Hch b Hb). lia.
    - destruct (jb_entries_range x b Hb Hx1). destruct (chain_entries_range r _ _ Hr Hch a Ha). lia.
    - exact (IH _ _ Hr Hch a b Ha Hb E).
  Qed.

  (* ---------------------------------------------------------------- what the recovered state answers *)
  (* st0: the tables Open found with an empty buffer; d': the buffer after the replay, holding the entries of the
     accepted batches.  s0: a sequence number that no stored entry exceeds (the recorded one) and below which
     every batch the sequence rule can accept starts; cur: the running number the replay starts from *)
  Theorem replayed_state_answers st0 d0 d' bs s0 cur k m :
    wfb st0 -> bs_mem st0 = Some d0 -> mem_entries mp (Some d0) = [] ->
    uniq_in (all_entries (absS st0)) ->
    (forall x, In x (all_entries (absS st0)) -> e_seq x <= s0) ->
    s0 <= cur -> (forall b, In b bs -> cur <= fst b -> s0 < fst b) ->
    Forall jb_ok bs -> snd (accepted bs cur) <= keyMaxSeq p ->
    mem_ok c p mp d' ->
    (forall x, In x (mem_entries mp (Some d')) <-> In x (flat_map jb_entries (fst (accepted bs cur)))) ->
    wf_bytes k ->
    bapi (getb st0 k s0) = Some (a_get c k m) ->
    wfb (wmem st0 d') /\
    bapi (getb (wmem st0 d') k (snd (accepted bs cur))) = Some (a_get c k (apply_batches m (fst (accepted bs cur)))).
  Proof.
    intros W Hd He0 Hu Hold Hsc Hgap Hbs Hmax Hm' Hin Wk Htab.
    set (acc := fst (accepted bs cur)) in *. set (e := snd (accepted bs cur)) in *.
    assert (Hch : jchain cur acc e) by apply accepted_chain.
    assert (Hacc : Forall jb_ok acc).
    { apply Forall_forall. intros b Hb. rewrite Forall_forall in Hbs. apply Hbs. exact (accepted_in bs cur b Hb). }
    assert (Hle : cur <= e) by exact (jchain_le _ _ _ Hch).
    assert (Hgap' : forall b, In b acc -> s0 < fst b).
    { intros b Hb. apply Hgap; [exact (accepted_in bs cur b Hb)|exact (jchain_ge _ _ _ Hch b Hb)]. }
    assert (Hnew : forall a, In a (flat_map jb_entries acc) -> s0 < e_seq a).
    { intros a Ha. apply in_flat_map in Ha as (b & Hb & Ha). specialize (Hgap' b Hb).
      assert (H1 : 1 <= fst b) by lia. destruct (jb_entries_range b a Ha H1). lia. }
    assert (Hin' : forall x, In x (mem_entries mp (Some d')) <-> In x (mem_entries mp (Some d0)) \/ In x (flat_map jb_entries acc)).
    { intros x. rewrite He0, Hin. cbn [In]. tauto. }
    destruct (write_wf_gen st0 d0 d' _ s0 W Hd Hm' Hold Hnew Hin') as [W' SE].
    split; [exact W'|].
    rewrite (get_correct_bytes c ok p pok seek_val mp mpok tp crc decompress fname ufc verify ri k e Wk Hmax _ W').
    rewrite (get_correct_bytes c ok p pok seek_val mp mpok tp crc decompress fname ufc verify ri k s0 Wk ltac:(lia) _ W) in Htab.
    cbn [bapi] in *. f_equal. injection Htab as Htab.
    assert (Hu2 : uniq_in (all_entries (absS st0) ++ flat_map jb_entries acc)).
    { intros a b Ha Hb Euk Eseq. apply in_app_iff in Ha. apply in_app_iff in Hb.
      destruct Ha as [Ha|Ha], Hb as [Hb|Hb].
      - apply Hu; assumption.
      - specialize (Hold a Ha). specialize (Hnew b Hb). lia.
      - specialize (Hold b Hb). specialize (Hnew a Ha). lia.
      - exact (chain_entries_uniq acc _ _ Hacc Hch a b Ha Hb Eseq). }
    rewrite <- (newest_same_elems c ok k _ _ _ Hu2 SE).
    change (api_of (group_res p ?z)) with (History.res p z) in *.
    destruct (newest_batches k acc (all_entries (absS st0)) s0 cur e m e Hacc Hch Hgap' Hold Htab ltac:(lia) ltac:(lia)) as (G & _).
    exact G.
  Qed.

  (* ---------------------------------------------------------------- a DB without tables (used for non-vacuity) *)
  Lemma chain_newer_empty (cs : list (list entry)) : Forall (fun x => x = []) cs -> chain_newer cs.
  Proof.
    induction 1 as [|x cs -> Hcs IH]; cbn [chain_newer]; [exact I|]. split; [|exact IH].
    apply Forall_forall. intros y _ a b [].
  Qed.

  Theorem empty_state_answers d0 lvls k s :
    mem_ok c p mp d0 -> mem_entries mp (Some d0) = [] -> Forall (fun l => l = []) lvls -> wf_bytes k -> s <= keyMaxSeq p ->
    wfb (mkBS (Some d0) None lvls) /\ all_entries (absS (mkBS (Some d0) None lvls)) = [] /\
    bapi (getb (mkBS (Some d0) None lvls) k s) = Some None.
  Proof.
    intros Hm He Hl Wk Hs.
    assert (Elv : map (map (abs_table c tp crc decompress fname ufc verify ri)) lvls = map (fun _ => []) lvls).
    { induction Hl as [|x l -> Hl IH]; [reflexivity|]. cbn [map]. f_equal. exact IH. }
    assert (Eall : all_entries (absS (mkBS (Some d0) None lvls)) = []).
    { unfold all_entries, all_tables. cbn [ReadPath.abs st_mem st_frozen st_aux st_levels bs_mem bs_frozen bs_levels].
      rewrite He, Elv. cbn [mem_entries app]. clear. induction lvls as [|x l IH]; [reflexivity|]. cbn [map concat app]. exact IH. }
    assert (W : wfb (mkBS (Some d0) None lvls)).
    { constructor; cbn [bs_mem bs_frozen bs_levels].
      - intros d E. injection E as <-. exact Hm.
      - intros d E. discriminate.
      - clear - Hl. induction Hl as [|x l -> Hl IH]; [constructor|constructor; [constructor|exact IH]].
      - constructor; cbn [ReadPath.abs st_mem st_frozen st_aux st_levels bs_mem bs_frozen bs_levels]; rewrite ?He, ?Elv.
        + split; [exact I|constructor].
        + split; [exact I|constructor].
        + split; [constructor|constructor].
        + destruct lvls; cbn [map hd]; split; constructor.
        + destruct lvls as [|x l]; cbn [map tl]; [constructor|]. clear. induction l as [|y l IH]; cbn [map]; constructor; [|exact IH].
          split; [constructor|]. exact I.
        + apply chain_newer_empty. unfold comps.
          cbn [ReadPath.abs st_mem st_frozen st_aux st_levels bs_mem bs_frozen bs_levels]. rewrite He, Elv.
          cbn [mem_entries level_entries map concat].
          repeat (constructor; [reflexivity|]). clear. induction lvls as [|y l IH]; cbn [map]; constructor; [reflexivity|exact IH]. }
    split; [exact W|]. split; [exact Eall|].
    rewrite (get_correct_bytes c ok p pok seek_val mp mpok tp crc decompress fname ufc verify ri k s Wk Hs _ W), Eall.
    reflexivity.
  Qed.
End OpenEnd.
