(* Store/FileStorageCrashProofs.v — a crash at any point of a manifest switch (setMeta) leaves a directory on
   which GetMeta answers the old or the new manifest.  Model: Store/FileStorage.v section 4. *)
From Coq Require Import List NArith ZArith Bool Lia.
From GL Require Import Base.Bytes Base.BytesProofs Store.FileStorage Store.FileStorageProofs.
Import ListNotations.
Open Scope N_scope.

(* ================================================================ contents that cannot mislead GetMeta *)

Lemma plain_digits l : digits_ok l -> Forall plain l.
Proof. unfold digits_ok. apply Forall_impl. intros b H. now apply digit_plain. Qed.

Lemma fmt_d06_plain z : Forall plain (fmt_d06 z).
Proof.
  unfold fmt_d06. destruct (z <? 0)%Z.
  - constructor; [unfold plain; lia|]. destruct (dec_spec (Z.to_N (- z))) as (ds & -> & Hok & Hne & _).
    apply plain_digits. now apply pad0_spec.
  - destruct (dec_spec (Z.to_N z)) as (ds & -> & Hok & Hne & _). apply plain_digits. now apply pad0_spec.
Qed.

Lemma gen_name_plain fd : Forall plain (gen_name fd).
Proof.
  unfold gen_name. destruct (fd_type fd); apply Forall_app; split; try apply fmt_d06_plain;
    repeat constructor; unfold plain; lia.
Qed.

Lemma Forall_firstn' {A} (P : A -> Prop) k : forall l, Forall P l -> Forall P (firstn k l).
Proof. induction k; intros l H; [constructor|]. destruct l; [constructor|]. inversion H; subst. cbn. constructor; auto. Qed.

Lemma check_content_last l fd : check_content l = Some fd -> exists r, l = r ++ [10].
Proof.
  unfold check_content. destruct (rev l) as [|c r] eqn:E; [discriminate|].
  destruct (c =? 10) eqn:C; [|discriminate]. apply N.eqb_eq in C. subst c. intros _.
  exists (rev r). rewrite <- (rev_involutive l), E. reflexivity.
Qed.

(* a prefix of what setMeta writes is either the whole content or rejected *)
Lemma check_prefix fd k fd' : int64_ok (fd_num fd) = true ->
  check_content (firstn k (meta_content fd)) = Some fd' -> fd' = fd.
Proof.
  intros Hi H. unfold meta_content in *.
  destruct (Nat.le_gt_cases (length (gen_name fd) + 1) k) as [Hk|Hk].
  - rewrite firstn_all2 in H by (rewrite app_length; cbn; lia).
    fold (meta_content fd) in H. rewrite check_meta_content in H by assumption. congruence.
  - exfalso. rewrite firstn_app in H. replace (k - length (gen_name fd))%nat with 0%nat in H by lia.
    cbn [firstn] in H. rewrite app_nil_r in H. destruct (check_content_last _ _ H) as (r & E).
    pose proof (gen_name_plain fd) as P. apply (Forall_firstn' _ k) in P. rewrite E in P.
    apply Forall_app in P. destruct P as [_ P]. inversion P; subst. unfold plain in *. lia.
Qed.

Lemma check_nil : check_content [] = None.
Proof. reflexivity. Qed.

(* ================================================================ the window of GetMeta *)

Lemma has_lookup {A} (v : list (bytes * A)) n : has v n = true <-> lookup v n <> None.
Proof. unfold has. destruct (lookup v n); split; congruence. Qed.

(* If CURRENT holds what setMeta wrote for A or for B, both files exist, and every pending file that validates
   names B or something not newer than A, then GetMeta answers A or B. *)
Lemma get_meta_window v A B :
  (fd_num A <= fd_num B)%Z -> int64_ok (fd_num A) = true -> int64_ok (fd_num B) = true ->
  (lookup v s_CURRENT = Some (meta_content A) \/ lookup v s_CURRENT = Some (meta_content B)) ->
  has v (gen_name A) = true -> has v (gen_name B) = true ->
  (forall q c fd, In q (pend_names v) -> lookup v q = Some c -> check_content c = Some fd ->
                  fd = B \/ (fd_num fd <= fd_num A)%Z) ->
  get_meta_result v = GOk A \/ get_meta_result v = GOk B.
Proof.
  intros Hle HiA HiB Hcur HA HB Hpend.
  assert (exists X, (X = A \/ X = B) /\ tc_cur (try_currents v [s_CURRENT; s_CURRENT_bak] false false) = Some (s_CURRENT, X)) as (X & HX & Hc).
  { destruct Hcur as [Hc|Hc]; [exists A|exists B]; (split; [auto|]); cbn [try_currents]; unfold try_current at 1;
      rewrite Hc, check_meta_content by assumption; [rewrite HA|rewrite HB]; reflexivity. }
  unfold get_meta_result. rewrite get_meta_ops_unfold. unfold get_meta_choice. cbn [g_chosen]. rewrite Hc.
  destruct (tc_cur (try_currents v (pend_names v) false false)) as [[pn pfd]|] eqn:Ep.
  - apply try_currents_some in Ep. destruct Ep as [Hin Hok].
    destruct (try_current_ok _ _ _ Hok) as (c & Hl & Hch & _).
    destruct (Hpend _ _ _ Hin Hl Hch) as [->|Hn].
    + destruct (fd_num B >? fd_num X)%Z; cbn [fst]; [now right|]. destruct HX as [-> | ->]; auto.
    + assert ((fd_num pfd >? fd_num X)%Z = false) as ->.
      { rewrite Z.gtb_ltb. apply Z.ltb_ge. destruct HX as [-> | ->]; lia. }
      cbn [fst]. destruct HX as [-> | ->]; auto.
  - cbn [fst]. destruct HX as [-> | ->]; auto.
Qed.

(* ================================================================ inode table, directory images *)

Lemma get_set_ino t i x j : get_ino (set_ino t i x) j = if i =? j then x else get_ino t j.
Proof.
  induction t as [|[k y] t IH]; cbn [set_ino get_ino].
  - destruct (i =? j); reflexivity.
  - destruct (k =? i) eqn:E.
    + apply N.eqb_eq in E. subst k. cbn [get_ino]. destruct (i =? j); reflexivity.
    + cbn [get_ino]. rewrite IH. destruct (k =? j) eqn:E2; [|reflexivity].
      apply N.eqb_eq in E2. subst k. now rewrite N.eqb_sym, E.
Qed.

Lemma image_ents_app ops1 : forall mask ops2 e,
  image_ents mask (ops1 ++ ops2) e =
  image_ents (skipn (length ops1) mask) ops2 (image_ents (firstn (length ops1) mask) ops1 e) \/
  (length mask < length ops1)%nat /\ image_ents mask (ops1 ++ ops2) e = image_ents mask ops1 e.
Proof.
  induction ops1 as [|o ops1 IH]; intros mask ops2 e.
  - left. reflexivity.
  - cbn [app image_ents length]. destruct mask as [|b mask].
    + right. split; [cbn; lia|reflexivity].
    + cbn [skipn firstn image_ents]. destruct (IH mask ops2 (if b then dapply e o else e)) as [H|[H1 H2]].
      * left. exact H.
      * right. split; [cbn; lia|exact H2].
Qed.

Lemma image_ents_nil_mask ops e : image_ents [] ops e = e.
Proof. destruct ops; reflexivity. Qed.

(* a crash image of ops1 ++ ops2 is an image of ops1 followed by a sub-selection of ops2 *)
Lemma image_ents_split ops1 ops2 mask e :
  exists m1 m2, image_ents mask (ops1 ++ ops2) e = image_ents m2 ops2 (image_ents m1 ops1 e).
Proof.
  destruct (image_ents_app ops1 mask ops2 e) as [H|[_ H]].
  - eauto.
  - exists mask, []. now rewrite image_ents_nil_mask.
Qed.

Lemma lookup_view_of t e f n : lookup (view_of t e f) n = option_map (fun i => f (get_ino t i)) (lookup e n).
Proof.
  unfold view_of. induction e as [|[k i] e IH]; cbn [map lookup fst snd]; [reflexivity|].
  destruct (beq k n); [reflexivity|exact IH].
Qed.

Lemma lookup_image_view mask sel s n :
  lookup (image_view mask sel s) n =
  option_map (fun i => crash_data (sel i) (get_ino (inos s) i)) (lookup (image_ents mask (pdir s) (dents s)) n).
Proof.
  unfold image_view. induction (image_ents mask (pdir s) (dents s)) as [|[k i] e IH]; cbn [map lookup fst snd]; [reflexivity|].
  destruct (beq k n); [reflexivity|exact IH].
Qed.

Lemma has_image_view mask sel s n : has (image_view mask sel s) n = has (image_ents mask (pdir s) (dents s)) n.
Proof. unfold has. rewrite lookup_image_view. destruct (lookup _ n); reflexivity. Qed.

(* ================================================================ the invariant of a settled / switching directory *)

Definition famc (n : bytes) : Prop := n = s_CURRENT \/ n = s_CURRENT_bak \/ exists z, n = pend_name z.

(* a file content that GetMeta either rejects or reads as B or as something not newer than A *)
Definition harmless (A B : fdesc) (c : bytes) : Prop :=
  forall fd, check_content c = Some fd -> fd = B \/ (fd_num fd <= fd_num A)%Z.

Definition pend_ino (A B : fdesc) (x : inode) : Prop :=
  (forall sel, harmless A B (crash_data sel x)) /\ harmless A B (vdata x).

(* pending directory operations the invariant tolerates: anything on other files as long as the files in K stay;
   on the CURRENT family: a new CURRENT.bak, a new pending file with harmless content, unlinks (not of CURRENT) *)
Definition okop (A B : fdesc) (K : list bytes) (t : list (N * inode)) (o : dop) : Prop :=
  match o with
  | DLink n i => n <> s_CURRENT /\ (forall z, n = pend_name z -> pend_ino A B (get_ino t i))
  | DRename a b i => ~ famc a /\ ~ famc b /\ ~ In a K
  | DUnlink n => n <> s_CURRENT /\ ~ In n K
  end.

Record clean (s : fsys) (A B : fdesc) (K : list bytes) (i0 : N) : Prop := {
  k_inj : forall n m i, lookup (ents s) n = Some i -> lookup (ents s) m = Some i -> n = m;
  k_bnd_e : forall n i, lookup (ents s) n = Some i -> i < next s;
  k_bnd_d : forall n i, lookup (dents s) n = Some i -> i < next s;
  k_bnd_p : forall n i, In (DLink n i) (pdir s) -> i < next s;
  k_sep : forall n i, (forall z, n <> pend_name z) -> lookup (ents s) n = Some i ->
            (forall z, lookup (dents s) (pend_name z) <> Some i) /\ (forall z, ~ In (DLink (pend_name z) i) (pdir s));
  k_ops : Forall (okop A B K (inos s)) (pdir s);
  k_cur_e : lookup (ents s) s_CURRENT = Some i0;
  k_cur_d : lookup (dents s) s_CURRENT = Some i0;
  k_cur_i : get_ino (inos s) i0 = IN (meta_content A) (meta_content A) false;
  k_keep : forall k, In k K -> has (dents s) k = true;
  k_keep_e : forall k, In k K -> has (ents s) k = true;
  k_Knf : forall k, In k K -> ~ famc k;
  k_pend_d : forall z i, lookup (dents s) (pend_name z) = Some i -> pend_ino A B (get_ino (inos s) i);
  k_pend_e : forall z i, lookup (ents s) (pend_name z) = Some i -> pend_ino A B (get_ino (inos s) i) }.

(* what every crash image must satisfy for GetMeta to answer A or B *)
Definition good (s : fsys) (A B : fdesc) (K : list bytes) : Prop :=
  forall mask, let e := image_ents mask (pdir s) (dents s) in
    (exists i, lookup e s_CURRENT = Some i /\
               forall sel, crash_data sel (get_ino (inos s) i) = meta_content A \/
                           crash_data sel (get_ino (inos s) i) = meta_content B) /\
    (forall k, In k K -> has e k = true) /\
    forall z i, lookup e (pend_name z) = Some i -> pend_ino A B (get_ino (inos s) i).

Theorem good_images s A B K v :
  good s A B K -> In (gen_name A) K -> In (gen_name B) K ->
  (fd_num A <= fd_num B)%Z -> int64_ok (fd_num A) = true -> int64_ok (fd_num B) = true ->
  crash_image s v -> get_meta_result v = GOk A \/ get_meta_result v = GOk B.
Proof.
  intros G HKA HKB Hle HA HB (mask & sel & ->). destruct (G mask) as ((i & Hi & Hd) & Hk & Hp).
  apply get_meta_window; try assumption.
  - rewrite lookup_image_view, Hi. cbn [option_map]. destruct (Hd (sel i)) as [-> | ->]; auto.
  - rewrite has_image_view. auto.
  - rewrite has_image_view. auto.
  - intros q c fd Hq Hl Hc. apply in_pend_names in Hq. destruct Hq as (n & z & _ & _ & ->).
    rewrite lookup_image_view in Hl. destruct (lookup (image_ents mask (pdir s) (dents s)) (pend_name z)) as [j|] eqn:E; [|discriminate].
    cbn [option_map] in Hl. inversion Hl; subst c. exact (proj1 (Hp z j E) (sel j) fd Hc).
Qed.

Lemma synced_data c sel : crash_data sel (IN c c false) = c.
Proof.
  unfold crash_data. destruct sel as [k|]; [|reflexivity]. cbn [itrunc ddata vdata orb].
  destruct (length c <=? k)%nat eqn:E; [|reflexivity]. apply Nat.leb_le in E. now apply firstn_all2.
Qed.

Lemma pend_name_not_famc_names z : pend_name z <> s_CURRENT /\ pend_name z <> s_CURRENT_bak.
Proof. split; [apply pend_name_not_current|apply pend_name_not_bak]. Qed.

(* what survives any sub-selection of tolerated directory operations *)
Definition Jinv (A B : fdesc) (K : list bytes) (t : list (N * inode)) (i0 : N) (e : list (bytes * N)) : Prop :=
  lookup e s_CURRENT = Some i0 /\ (forall k, In k K -> has e k = true) /\
  (forall z i, lookup e (pend_name z) = Some i -> pend_ino A B (get_ino t i)).

Lemma Jinv_step A B K t i0 e o : Jinv A B K t i0 e -> okop A B K t o -> Jinv A B K t i0 (dapply e o).
Proof.
  intros (Hc & Hk & Hp) Ho. destruct o as [n i|a b i|n]; cbn [dapply okop] in *.
  - destruct Ho as [Hn Hz]. split; [|split].
    + rewrite lookup_set_at, beq_neq by assumption. exact Hc.
    + intros k Hin. apply has_lookup. rewrite lookup_set_at. destruct (beq n k); [discriminate|]. apply has_lookup. auto.
    + intros z j. rewrite lookup_set_at. beq_case n (pend_name z).
      * intro H. inversion H; subst. now apply (Hz z).
      * apply Hp.
  - destruct Ho as (Ha & Hb & HK). split; [|split].
    + rewrite lookup_set_at, lookup_remove_at. rewrite (beq_neq b s_CURRENT), (beq_neq a s_CURRENT); [exact Hc| |];
        intro X; [apply Ha|apply Hb]; left; assumption.
    + intros k Hin. apply has_lookup. rewrite lookup_set_at, lookup_remove_at. destruct (beq b k); [discriminate|].
      rewrite (beq_neq a k) by (intro X; subst; contradiction). apply has_lookup. auto.
    + intros z j. rewrite lookup_set_at, lookup_remove_at.
      rewrite (beq_neq b (pend_name z)), (beq_neq a (pend_name z)); [apply Hp| |];
        intro X; [apply Ha|apply Hb]; right; right; eauto.
  - destruct Ho as [Hn HK]. split; [|split].
    + rewrite lookup_remove_at, beq_neq by assumption. exact Hc.
    + intros k Hin. apply has_lookup. rewrite lookup_remove_at, (beq_neq n k) by (intro X; subst; contradiction).
      apply has_lookup. auto.
    + intros z j. rewrite lookup_remove_at. destruct (beq n (pend_name z)); [discriminate|apply Hp].
Qed.

Lemma Jinv_image A B K t i0 ops : forall mask e,
  Forall (okop A B K t) ops -> Jinv A B K t i0 e -> Jinv A B K t i0 (image_ents mask ops e).
Proof.
  induction ops as [|o ops IH]; intros mask e Hf J; [exact J|].
  inversion Hf; subst. cbn [image_ents]. destruct mask as [|b mask]; [exact J|].
  apply IH; [assumption|]. destruct b; [now apply Jinv_step|exact J].
Qed.

Lemma clean_Jinv s A B K i0 : clean s A B K i0 -> Jinv A B K (inos s) i0 (dents s).
Proof. intros C. split; [apply C|]. split; [apply C|apply C]. Qed.

Theorem clean_good s A B K i0 : clean s A B K i0 -> good s A B K.
Proof.
  intros C mask. cbn zeta.
  destruct (Jinv_image A B K (inos s) i0 (pdir s) mask (dents s) (k_ops _ _ _ _ _ C) (clean_Jinv _ _ _ _ _ C)) as (Hc & Hk & Hp).
  split; [|split; [exact Hk|exact Hp]].
  exists i0. split; [exact Hc|]. intro sel. left. rewrite (k_cur_i _ _ _ _ _ C). apply synced_data.
Qed.

(* ================================================================ the invariant is kept by the operations *)

Ltac beq_case' a b := let E := fresh "E" in destruct (beq a b) eqn:E; [apply beq_eq in E|].

Lemma harmless_mono A B A' c : harmless A B c -> (fd_num A <= fd_num A')%Z -> harmless A' B c.
Proof. intros H Hle fd Hc. destruct (H fd Hc); [now left|right; lia]. Qed.

Lemma harmless_settle A B c : harmless A B c -> (fd_num A <= fd_num B)%Z -> harmless B B c.
Proof. intros H Hle fd Hc. destruct (H fd Hc); [now left|right; lia]. Qed.

Lemma harmless_open A B c : harmless A A c -> harmless A B c.
Proof. intros H fd Hc. destruct (H fd Hc) as [->|]; right; lia. Qed.

Lemma harmless_nil A B : harmless A B [].
Proof. intros fd H. discriminate. Qed.

Lemma pend_ino_fresh A B : pend_ino A B (IN [] [] false).
Proof. split; [intros [k|]; cbn; [destruct k|]; apply harmless_nil|apply harmless_nil]. Qed.

Lemma pend_ino_trunc A B x : pend_ino A B x -> pend_ino A B (IN [] (ddata x) true).
Proof.
  intros [H _]. split; [|apply harmless_nil]. intros [k|]; cbn [crash_data itrunc ddata vdata orb].
  - rewrite firstn_nil. apply harmless_nil.
  - exact (H None).
Qed.

Lemma pend_ino_write A B x : pend_ino A B x -> vdata x = [] -> int64_ok (fd_num B) = true ->
  pend_ino A B (IN (vdata x ++ meta_content B) (ddata x) (itrunc x)).
Proof.
  intros [H _] Hv Hi. split.
  - intros [k|]; cbn [crash_data itrunc ddata vdata].
    + rewrite Hv. cbn [app]. destruct (itrunc x || (length (ddata x) <=? k)%nat).
      * intros fd Hc. left. now apply (check_prefix B k).
      * exact (H None).
    + exact (H None).
  - cbn [vdata]. rewrite Hv. cbn [app]. intros fd Hc. left. rewrite check_meta_content in Hc by assumption. congruence.
Qed.

Lemma pend_ino_synced A B : int64_ok (fd_num B) = true -> pend_ino A B (IN (meta_content B) (meta_content B) false).
Proof.
  intros Hi. split; [intros sel fd; rewrite synced_data|intro fd; cbn [vdata]];
    rewrite check_meta_content by assumption; intro H; left; congruence.
Qed.

Definition upd (s : fsys) (i : N) (x : inode) : fsys := FS (ents s) (dents s) (pdir s) (set_ino (inos s) i x) (next s).

Definition pending_related (s : fsys) (i : N) : Prop :=
  (exists z, lookup (dents s) (pend_name z) = Some i) \/ (exists z, In (DLink (pend_name z) i) (pdir s)) \/
  (exists z, lookup (ents s) (pend_name z) = Some i).

Lemma clean_upd s A B K i0 i x :
  clean s A B K i0 -> i <> i0 -> (pending_related s i -> pend_ino A B x) -> clean (upd s i x) A B K i0.
Proof.
  intros C Hi Hx. constructor; unfold upd; cbn [ents dents pdir inos next]; try apply C.
  - apply Forall_forall. intros o Ho. pose proof (proj1 (Forall_forall _ _) (k_ops _ _ _ _ _ C) o Ho) as Hok.
    destruct o as [n j|a b j|n]; cbn [okop] in *; [|exact Hok|exact Hok].
    destruct Hok as [H1 H2]. split; [exact H1|]. intros z ->. rewrite get_set_ino.
    destruct (i =? j) eqn:E; [|now apply (H2 z)]. apply N.eqb_eq in E. subst j.
    apply Hx. right. left. eauto.
  - rewrite get_set_ino. rewrite (proj2 (N.eqb_neq i i0) Hi). apply C.
  - intros z j Hl. rewrite get_set_ino. destruct (i =? j) eqn:E; [|now apply (k_pend_d _ _ _ _ _ C z)].
    apply N.eqb_eq in E. subst j. apply Hx. left. eauto.
  - intros z j Hl. rewrite get_set_ino. destruct (i =? j) eqn:E; [|now apply (k_pend_e _ _ _ _ _ C z)].
    apply N.eqb_eq in E. subst j. apply Hx. right. right. eauto.
Qed.

(* the inode of a name that is not a pending file is none of the pending-related ones *)
Lemma not_pending_related s A B K i0 n i :
  clean s A B K i0 -> (forall z, n <> pend_name z) -> lookup (ents s) n = Some i -> ~ pending_related s i.
Proof.
  intros C Hn Hl [(z & H)|[(z & H)|(z & H)]].
  - now apply (proj1 (k_sep _ _ _ _ _ C n i Hn Hl) z).
  - now apply (proj2 (k_sep _ _ _ _ _ C n i Hn Hl) z).
  - apply (Hn z). exact (k_inj _ _ _ _ _ C _ _ _ Hl H).
Qed.

Lemma not_pend_bak : forall z, s_CURRENT_bak <> pend_name z.
Proof. intros z H. symmetry in H. now apply pend_name_not_bak in H. Qed.

Lemma not_pend_current : forall z, s_CURRENT <> pend_name z.
Proof. intros z H. symmetry in H. now apply pend_name_not_current in H. Qed.

(* content operations on a file that is neither CURRENT nor a pending file *)
Lemma clean_upd_other s A B K i0 n i x :
  clean s A B K i0 -> n <> s_CURRENT -> (forall z, n <> pend_name z) -> lookup (ents s) n = Some i ->
  clean (upd s i x) A B K i0.
Proof.
  intros C Hn Hz Hl. apply clean_upd; [assumption| |].
  - intro E. subst i. apply Hn. exact (k_inj _ _ _ _ _ C _ _ _ Hl (k_cur_e _ _ _ _ _ C)).
  - intro P. exfalso. exact (not_pending_related _ _ _ _ _ _ _ C Hz Hl P).
Qed.

(* creation of a new name (anything but CURRENT) *)
Lemma clean_link_new s A B K i0 n :
  clean s A B K i0 -> n <> s_CURRENT -> lookup (ents s) n = None ->
  clean (fapply s (OCreate n)) A B K i0 /\ lookup (ents (fapply s (OCreate n))) n = Some (next s) /\
  get_ino (inos (fapply s (OCreate n))) (next s) = IN [] [] false.
Proof.
  intros C Hn Hl. cbn [fapply]. rewrite Hl.
  assert (forall j, j < next s -> get_ino (set_ino (inos s) (next s) (IN [] [] false)) j = get_ino (inos s) j) as Hold.
  { intros j Hj. rewrite get_set_ino. now rewrite (proj2 (N.eqb_neq (next s) j)) by lia. }
  split; [|split; [cbn [ents]; now rewrite lookup_set_at, beq_refl|cbn [inos]; now rewrite get_set_ino, N.eqb_refl]].
  constructor; cbn [ents dents pdir inos next].
  - intros a b i. rewrite !lookup_set_at. beq_case' n a; beq_case' n b; intros H1 H2; try congruence.
    + inversion H1; subst i. apply (k_bnd_e _ _ _ _ _ C) in H2. lia.
    + inversion H2; subst i. apply (k_bnd_e _ _ _ _ _ C) in H1. lia.
    + exact (k_inj _ _ _ _ _ C _ _ _ H1 H2).
  - intros a i. rewrite lookup_set_at. destruct (beq n a); intro H.
    + inversion H. lia.
    + apply (k_bnd_e _ _ _ _ _ C) in H. lia.
  - intros a i H. apply (k_bnd_d _ _ _ _ _ C) in H. lia.
  - intros a i H. apply in_app_or in H. destruct H as [H|[H|[]]].
    + apply (k_bnd_p _ _ _ _ _ C) in H. lia.
    + inversion H. lia.
  - intros a i Ha. rewrite lookup_set_at. beq_case' n a; intro H.
    + subst a. inversion H; subst i. split.
      * intros z Hd. apply (k_bnd_d _ _ _ _ _ C) in Hd. lia.
      * intros z Hin. apply in_app_or in Hin. destruct Hin as [Hin|[Hin|[]]].
        -- apply (k_bnd_p _ _ _ _ _ C) in Hin. lia.
        -- inversion Hin. now apply (Ha z).
    + destruct (k_sep _ _ _ _ _ C a i Ha H) as [S1 S2]. split; [exact S1|].
      intros z Hin. apply in_app_or in Hin. destruct Hin as [Hin|[Hin|[]]]; [now apply (S2 z)|].
      inversion Hin; subst. apply (k_bnd_e _ _ _ _ _ C) in H. lia.
  - apply Forall_app. split.
    + apply Forall_forall. intros o Ho. pose proof (proj1 (Forall_forall _ _) (k_ops _ _ _ _ _ C) o Ho) as Hok.
      destruct o as [m j|a b j|m]; cbn [okop] in *; [|exact Hok|exact Hok].
      destruct Hok as [H1 H2]. split; [exact H1|]. intros z Hz. rewrite Hold; [now apply (H2 z)|].
      exact (k_bnd_p _ _ _ _ _ C _ _ Ho).
    + constructor; [|constructor]. cbn [okop]. split; [assumption|]. intros z _.
      rewrite get_set_ino, N.eqb_refl. apply pend_ino_fresh.
  - rewrite lookup_set_at, beq_neq by assumption. apply C.
  - apply C.
  - rewrite Hold; [apply C|]. exact (k_bnd_e _ _ _ _ _ C _ _ (k_cur_e _ _ _ _ _ C)).
  - apply C.
  - intros k Hk. apply has_lookup. rewrite lookup_set_at. destruct (beq n k); [discriminate|].
    apply has_lookup. now apply (k_keep_e _ _ _ _ _ C).
  - apply C.
  - intros z i H. rewrite Hold; [now apply (k_pend_d _ _ _ _ _ C z)|]. exact (k_bnd_d _ _ _ _ _ C _ _ H).
  - intros z i. rewrite lookup_set_at. beq_case' n (pend_name z); intro H.
    + inversion H; subst i. rewrite get_set_ino, N.eqb_refl. apply pend_ino_fresh.
    + rewrite Hold; [now apply (k_pend_e _ _ _ _ _ C z)|]. exact (k_bnd_e _ _ _ _ _ C _ _ H).
Qed.

(* ================================================================ the phases of setMeta *)

Lemma fapply_create_existing s n i : lookup (ents s) n = Some i ->
  fapply s (OCreate n) = upd s i (IN [] (ddata (get_ino (inos s) i)) true).
Proof. intro H. cbn [fapply]. now rewrite H. Qed.

Lemma fapply_write s n d i : lookup (ents s) n = Some i ->
  fapply s (OWrite n d) = upd s i (IN (vdata (get_ino (inos s) i) ++ d) (ddata (get_ino (inos s) i)) (itrunc (get_ino (inos s) i))).
Proof. intro H. cbn [fapply]. now rewrite H. Qed.

Lemma fapply_fsync s n i : lookup (ents s) n = Some i ->
  fapply s (OFsync n) = upd s i (IN (vdata (get_ino (inos s) i)) (vdata (get_ino (inos s) i)) false).
Proof. intro H. cbn [fapply]. now rewrite H. Qed.

Lemma bak_not_current : s_CURRENT_bak <> s_CURRENT.
Proof. unfold s_CURRENT_bak, s_CURRENT. congruence. Qed.

Lemma bak_create s A B K i0 : clean s A B K i0 ->
  clean (fapply s (OCreate s_CURRENT_bak)) A B K i0 /\ exists ib, lookup (ents (fapply s (OCreate s_CURRENT_bak))) s_CURRENT_bak = Some ib.
Proof.
  intro C. destruct (lookup (ents s) s_CURRENT_bak) as [i|] eqn:E.
  - rewrite (fapply_create_existing _ _ _ E). split; [|exists i; exact E].
    eapply clean_upd_other; [eassumption|apply bak_not_current|apply not_pend_bak|eassumption].
  - destruct (clean_link_new _ _ _ _ _ s_CURRENT_bak C) as (C' & Hl & _); [apply bak_not_current|assumption|]. eauto.
Qed.

Lemma bak_write s A B K i0 ib d : clean s A B K i0 -> lookup (ents s) s_CURRENT_bak = Some ib ->
  clean (fapply s (OWrite s_CURRENT_bak d)) A B K i0 /\ lookup (ents (fapply s (OWrite s_CURRENT_bak d))) s_CURRENT_bak = Some ib.
Proof.
  intros C E. rewrite (fapply_write _ _ _ _ E). split; [|exact E].
  eapply clean_upd_other; [eassumption|apply bak_not_current|apply not_pend_bak|eassumption].
Qed.

Lemma bak_fsync s A B K i0 ib : clean s A B K i0 -> lookup (ents s) s_CURRENT_bak = Some ib ->
  clean (fapply s (OFsync s_CURRENT_bak)) A B K i0 /\ lookup (ents (fapply s (OFsync s_CURRENT_bak))) s_CURRENT_bak = Some ib.
Proof.
  intros C E. rewrite (fapply_fsync _ _ _ E). split; [|exact E].
  eapply clean_upd_other; [eassumption|apply bak_not_current|apply not_pend_bak|eassumption].
Qed.

Lemma pend_not_i0 s A B K i0 z j : clean s A B K i0 -> lookup (ents s) (pend_name z) = Some j -> j <> i0.
Proof.
  intros C E X. subst j. pose proof (k_inj _ _ _ _ _ C _ _ _ E (k_cur_e _ _ _ _ _ C)) as H.
  now apply pend_name_not_current in H.
Qed.

Lemma p_create s A B K i0 z : clean s A B K i0 ->
  exists j, clean (fapply s (OCreate (pend_name z))) A B K i0 /\
            lookup (ents (fapply s (OCreate (pend_name z)))) (pend_name z) = Some j /\
            vdata (get_ino (inos (fapply s (OCreate (pend_name z)))) j) = [].
Proof.
  intro C. destruct (lookup (ents s) (pend_name z)) as [j|] eqn:E.
  - exists j. rewrite (fapply_create_existing _ _ _ E). split; [|split; [exact E|]].
    + apply clean_upd; [assumption|eapply pend_not_i0; eassumption|]. intros _.
      apply pend_ino_trunc. exact (k_pend_e _ _ _ _ _ C z j E).
    + unfold upd. cbn [inos]. now rewrite get_set_ino, N.eqb_refl.
  - exists (next s). destruct (clean_link_new _ _ _ _ _ (pend_name z) C) as (C' & Hl & Hi);
      [apply pend_name_not_current|assumption|]. split; [assumption|split; [assumption|]]. now rewrite Hi.
Qed.

Lemma p_write s A B K i0 z j : clean s A B K i0 -> int64_ok (fd_num B) = true ->
  lookup (ents s) (pend_name z) = Some j -> vdata (get_ino (inos s) j) = [] ->
  let s' := fapply s (OWrite (pend_name z) (meta_content B)) in
  clean s' A B K i0 /\ lookup (ents s') (pend_name z) = Some j /\ vdata (get_ino (inos s') j) = meta_content B.
Proof.
  intros C Hi E Hv. cbn zeta. rewrite (fapply_write _ _ _ _ E). split; [|split; [exact E|]].
  - apply clean_upd; [assumption|eapply pend_not_i0; eassumption|]. intros _.
    apply pend_ino_write; [exact (k_pend_e _ _ _ _ _ C z j E)|assumption|assumption].
  - unfold upd. cbn [inos]. rewrite get_set_ino, N.eqb_refl. cbn [vdata]. now rewrite Hv.
Qed.

Lemma p_fsync s A B K i0 z j : clean s A B K i0 -> int64_ok (fd_num B) = true ->
  lookup (ents s) (pend_name z) = Some j -> vdata (get_ino (inos s) j) = meta_content B ->
  let s' := fapply s (OFsync (pend_name z)) in
  clean s' A B K i0 /\ lookup (ents s') (pend_name z) = Some j /\
  get_ino (inos s') j = IN (meta_content B) (meta_content B) false.
Proof.
  intros C Hi E Hv. cbn zeta. rewrite (fapply_fsync _ _ _ E). split; [|split; [exact E|]].
  - apply clean_upd; [assumption|eapply pend_not_i0; eassumption|]. intros _. rewrite Hv. now apply pend_ino_synced.
  - unfold upd. cbn [inos]. rewrite get_set_ino, N.eqb_refl. now rewrite Hv.
Qed.

(* after the rename, before the directory is synced: CURRENT is the old or the new file *)
Lemma rename_good s A B K i0 z j :
  clean s A B K i0 ->
  lookup (ents s) (pend_name z) = Some j -> get_ino (inos s) j = IN (meta_content B) (meta_content B) false ->
  good (fapply s (ORename (pend_name z) s_CURRENT)) A B K.
Proof.
  intros C E Hj mask. cbn [fapply]. rewrite E. cbn [pdir dents inos]. cbn zeta.
  destruct (image_ents_split (pdir s) [DRename (pend_name z) s_CURRENT j] mask (dents s)) as (m1 & m2 & ->).
  destruct (Jinv_image A B K (inos s) i0 (pdir s) m1 (dents s) (k_ops _ _ _ _ _ C) (clean_Jinv _ _ _ _ _ C)) as (Hc & Hk & Hp).
  set (e := image_ents m1 (pdir s) (dents s)) in *.
  assert (forall sel, crash_data sel (get_ino (inos s) i0) = meta_content A) as Hd0
    by (intro sel; rewrite (k_cur_i _ _ _ _ _ C); apply synced_data).
  destruct m2 as [|[|] m2]; cbn [image_ents dapply].
  - split; [exists i0; split; [exact Hc|intro; left; apply Hd0]|]. auto.
  - split; [|split].
    + exists j. split; [now rewrite lookup_set_at, beq_refl|]. intro sel. right. rewrite Hj. apply synced_data.
    + intros k HK. apply has_lookup. rewrite lookup_set_at. destruct (beq s_CURRENT k); [discriminate|].
      rewrite lookup_remove_at, beq_neq; [apply has_lookup; auto|].
      intro X. apply (k_Knf _ _ _ _ _ C _ HK). right. right. eauto.
    + intros z' i. rewrite lookup_set_at, (beq_neq s_CURRENT (pend_name z')) by apply not_pend_current.
      rewrite lookup_remove_at. destruct (beq (pend_name z) (pend_name z')); [discriminate|]. apply Hp.
  - split; [exists i0; split; [exact Hc|intro; left; apply Hd0]|]. auto.
Qed.

Lemma pend_ino_settle A B x : pend_ino A B x -> (fd_num A <= fd_num B)%Z -> pend_ino B B x.
Proof.
  intros [H1 H2] Hle. split; [intro sel|].
  - eapply harmless_settle; [apply H1|assumption].
  - eapply harmless_settle; [apply H2|assumption].
Qed.

(* the directory sync at the end of setMeta settles on B *)
Lemma syncdir_clean s A B K i0 z j :
  clean s A B K i0 -> (fd_num A <= fd_num B)%Z ->
  lookup (ents s) (pend_name z) = Some j -> get_ino (inos s) j = IN (meta_content B) (meta_content B) false ->
  clean (fapply (fapply s (ORename (pend_name z) s_CURRENT)) OSyncDir) B B K j.
Proof.
  intros C Hle E Hj. cbn [fapply]. rewrite E. cbn [fapply ents dents pdir inos next].
  assert (forall m i, lookup (rename_at (ents s) (pend_name z) s_CURRENT) m = Some i ->
            (m = s_CURRENT /\ i = j) \/ (m <> s_CURRENT /\ m <> pend_name z /\ lookup (ents s) m = Some i)) as Hr.
  { intros m i. rewrite (lookup_rename_at _ _ _ _ _ E). beq_case' s_CURRENT m; [intro H; inversion H; auto|].
    beq_case' (pend_name z) m; [discriminate|]. intro H. right. repeat split; try assumption.
    - intro X. subst m. now rewrite beq_refl in E0.
    - intro X. subst m. now rewrite beq_refl in E1. }
  assert (forall a b i, lookup (rename_at (ents s) (pend_name z) s_CURRENT) a = Some i ->
                        lookup (rename_at (ents s) (pend_name z) s_CURRENT) b = Some i -> a = b) as Hinj.
  { intros a b i Ha Hb. apply Hr in Ha, Hb.
    destruct Ha as [[-> ->]|(Ha1 & Ha2 & Ha3)], Hb as [[-> Hb]|(Hb1 & Hb2 & Hb3)]; try reflexivity.
    - exfalso. apply Hb2. exact (k_inj _ _ _ _ _ C _ _ _ Hb3 E).
    - subst i. exfalso. apply Ha2. exact (k_inj _ _ _ _ _ C _ _ _ Ha3 E).
    - exact (k_inj _ _ _ _ _ C _ _ _ Ha3 Hb3). }
  assert (forall m i, lookup (rename_at (ents s) (pend_name z) s_CURRENT) m = Some i -> i < next s) as Hb.
  { intros m i H. apply Hr in H. destruct H as [[_ ->]|(_ & _ & H)]; eapply (k_bnd_e _ _ _ _ _ C); eassumption. }
  constructor; cbn [ents dents pdir inos next]; try assumption.
  - intros n i [].
  - intros n i Hn Hl. split; [|intros z' []]. intros z' Hz. apply (Hn z'). exact (Hinj _ _ _ Hl Hz).
  - constructor.
  - now rewrite (lookup_rename_at _ _ _ _ _ E), beq_refl.
  - now rewrite (lookup_rename_at _ _ _ _ _ E), beq_refl.
  - intros k Hk. apply has_lookup. rewrite (lookup_rename_at _ _ _ _ _ E). destruct (beq s_CURRENT k); [discriminate|].
    rewrite beq_neq; [apply has_lookup; now apply (k_keep_e _ _ _ _ _ C)|].
    intro X. apply (k_Knf _ _ _ _ _ C _ Hk). right. right. eauto.
  - intros k Hk. apply has_lookup. rewrite (lookup_rename_at _ _ _ _ _ E). destruct (beq s_CURRENT k); [discriminate|].
    rewrite beq_neq; [apply has_lookup; now apply (k_keep_e _ _ _ _ _ C)|].
    intro X. apply (k_Knf _ _ _ _ _ C _ Hk). right. right. eauto.
  - apply C.
  - intros z' i H. apply Hr in H. destruct H as [[H _]|(_ & _ & H)]; [now apply pend_name_not_current in H|].
    eapply pend_ino_settle; [exact (k_pend_e _ _ _ _ _ C z' i H)|assumption].
  - intros z' i H. apply Hr in H. destruct H as [[H _]|(_ & _ & H)]; [now apply pend_name_not_current in H|].
    eapply pend_ino_settle; [exact (k_pend_e _ _ _ _ _ C z' i H)|assumption].
Qed.

(* ================================================================ the switch *)

Lemma pend_ino_open A B x : pend_ino A A x -> pend_ino A B x.
Proof. intros [H1 H2]. split; [intro sel|]; apply harmless_open; [apply H1|apply H2]. Qed.

Lemma clean_open s A B K i0 : clean s A A K i0 -> clean s A B K i0.
Proof.
  intro C. constructor; try apply C.
  - apply Forall_forall. intros o Ho. pose proof (proj1 (Forall_forall _ _) (k_ops _ _ _ _ _ C) o Ho) as Hok.
    destruct o as [n j|a b j|n]; cbn [okop] in *; [|exact Hok|exact Hok].
    destruct Hok as [H1 H2]. split; [exact H1|]. intros z Hz. apply pend_ino_open. now apply (H2 z).
  - intros z i H. apply pend_ino_open. exact (k_pend_d _ _ _ _ _ C z i H).
  - intros z i H. apply pend_ino_open. exact (k_pend_e _ _ _ _ _ C z i H).
Qed.

Lemma vol_cur s A B K i0 : clean s A B K i0 -> lookup (vol_view s) s_CURRENT = Some (meta_content A).
Proof.
  intro C. unfold vol_view. rewrite lookup_view_of, (k_cur_e _ _ _ _ _ C). cbn [option_map].
  now rewrite (k_cur_i _ _ _ _ _ C).
Qed.

Lemma meta_content_inj A B : int64_ok (fd_num A) = true -> int64_ok (fd_num B) = true ->
  meta_content A = meta_content B -> A = B.
Proof. intros HA HB E. apply check_meta_content in HA, HB. rewrite E in HA. congruence. Qed.

Definition switch_ops (A B : fdesc) : list fsop :=
  [OCreate s_CURRENT_bak; OWrite s_CURRENT_bak (meta_content A); OFsync s_CURRENT_bak;
   OCreate (pend_name (fd_num B)); OWrite (pend_name (fd_num B)) (meta_content B); OFsync (pend_name (fd_num B));
   ORename (pend_name (fd_num B)) s_CURRENT; OSyncDir].

Lemma has_vol_view s n : has (vol_view s) n = has (ents s) n.
Proof. unfold has, vol_view. rewrite lookup_view_of. destruct (lookup (ents s) n); reflexivity. Qed.

Lemma vol_try_current s A B K i0 : clean s A B K i0 -> In (gen_name A) K -> int64_ok (fd_num A) = true ->
  try_current (vol_view s) s_CURRENT = TOk A.
Proof.
  intros C HK Hi. unfold try_current. rewrite (vol_cur _ _ _ _ _ C), check_meta_content by assumption.
  now rewrite has_vol_view, (k_keep_e _ _ _ _ _ C _ HK).
Qed.

Lemma set_meta_ops_switch' s A B K i0 : clean s A B K i0 -> In (gen_name A) K ->
  int64_ok (fd_num A) = true -> int64_ok (fd_num B) = true -> A <> B ->
  set_meta_ops (vol_view s) B = switch_ops A B.
Proof.
  intros C HK HA HB Hne. unfold set_meta_ops. rewrite (vol_try_current _ _ _ _ _ C HK HA), (vol_cur _ _ _ _ _ C).
  rewrite beq_neq; [reflexivity|]. intro E. apply Hne. now apply meta_content_inj.
Qed.

(* the eight operations, from a directory whose CURRENT holds A and whose pending files are harmless for (A, B) *)
Lemma switch_safe s A B K i0 :
  clean s A B K i0 -> In (gen_name A) K -> In (gen_name B) K ->
  (fd_num A <= fd_num B)%Z -> int64_ok (fd_num A) = true -> int64_ok (fd_num B) = true ->
  (forall k v, crash_image (fapply_all s (firstn k (switch_ops A B))) v ->
               get_meta_result v = GOk A \/ get_meta_result v = GOk B) /\
  (exists j, clean (fapply_all s (switch_ops A B)) B B K j) /\
  (forall v, crash_image (fapply_all s (switch_ops A B)) v -> get_meta_result v = GOk B).
Proof.
  intros C HKA HKB Hle HiA HiB.
  set (p := fd_num B).
  (* the states *)
  destruct (bak_create _ _ _ _ _ C) as (C1 & ib & E1). set (s1 := fapply s (OCreate s_CURRENT_bak)) in *.
  destruct (bak_write _ _ _ _ _ ib (meta_content A) C1 E1) as (C2 & E2). set (s2 := fapply s1 (OWrite s_CURRENT_bak (meta_content A))) in *.
  destruct (bak_fsync _ _ _ _ _ ib C2 E2) as (C3 & E3). set (s3 := fapply s2 (OFsync s_CURRENT_bak)) in *.
  destruct (p_create _ _ _ _ _ p C3) as (j & C4 & E4 & V4). set (s4 := fapply s3 (OCreate (pend_name p))) in *.
  destruct (p_write _ _ _ _ _ p j C4 HiB E4 V4) as (C5 & E5 & V5). set (s5 := fapply s4 (OWrite (pend_name p) (meta_content B))) in *.
  destruct (p_fsync _ _ _ _ _ p j C5 HiB E5 V5) as (C6 & E6 & V6). set (s6 := fapply s5 (OFsync (pend_name p))) in *.
  pose proof (rename_good _ _ _ _ _ p j C6 E6 V6) as G7. set (s7 := fapply s6 (ORename (pend_name p) s_CURRENT)) in *.
  pose proof (syncdir_clean _ _ _ _ _ p j C6 Hle E6 V6) as C8. fold s7 in C8. set (s8 := fapply s7 OSyncDir) in *.
  assert (forall t, clean t A B K i0 -> forall v, crash_image t v -> get_meta_result v = GOk A \/ get_meta_result v = GOk B) as HG.
  { intros t Ct v Hv. eapply good_images; [eapply clean_good; eassumption| | | | | |]; eassumption. }
  assert (forall v, crash_image s8 v -> get_meta_result v = GOk B) as H8.
  { intros v Hv. assert (good s8 B B K) as G by (eapply clean_good; eassumption).
    destruct (good_images _ _ _ _ _ G HKB HKB (Z.le_refl _) HiB HiB Hv); assumption. }
  assert (fapply_all s (switch_ops A B) = s8) as Hall by reflexivity.
  split; [|split].
  - intros k v. unfold switch_ops.
    destruct k as [|[|[|[|[|[|[|[|k]]]]]]]]; cbn [firstn fapply_all fold_left]; fold s1 s2 s3 s4 s5 s6 s7 s8.
    + now apply HG.
    + now apply HG.
    + now apply HG.
    + now apply HG.
    + now apply HG.
    + now apply HG.
    + now apply HG.
    + intro Hv. eapply good_images; eassumption.
    + rewrite firstn_nil. cbn [fold_left]. intro Hv. right. now apply H8.
  - exists j. rewrite Hall. exact C8.
  - rewrite Hall. exact H8.
Qed.

(* setMeta(B) from a settled directory on A *)
Theorem set_meta_crash_atomic s A B K i0 :
  clean s A A K i0 -> In (gen_name A) K -> In (gen_name B) K ->
  (fd_num A < fd_num B)%Z -> int64_ok (fd_num A) = true -> int64_ok (fd_num B) = true ->
  (forall k v, crash_image (fapply_all s (firstn k (set_meta_ops (vol_view s) B))) v ->
               get_meta_result v = GOk A \/ get_meta_result v = GOk B) /\
  (exists j, clean (set_meta s B) B B K j) /\
  (forall v, crash_image (set_meta s B) v -> get_meta_result v = GOk B).
Proof.
  intros C0 HKA HKB Hlt HiA HiB.
  assert (A <> B) as Hne by (intro X; subst; lia).
  unfold set_meta. rewrite (set_meta_ops_switch' _ _ _ _ _ (clean_open _ _ B _ _ C0) HKA HiA HiB Hne).
  apply (switch_safe s A B K i0); try assumption; [now apply clean_open|lia].
Qed.

(* ================================================================ after the crash: the restarted machine *)

(* the same invariant, on a plain directory *)
Definition cleanv (v : view) (A B : fdesc) (K : list bytes) : Prop :=
  lookup v s_CURRENT = Some (meta_content A) /\ (forall k, In k K -> has v k = true) /\
  (forall k, In k K -> ~ famc k) /\
  forall z c, lookup v (pend_name z) = Some c -> harmless A B c.

Lemma fs_of_view_from_spec v : forall s0,
  let e := fst (fs_of_view_from v s0) in let t := snd (fs_of_view_from v s0) in
  (forall n i, lookup e n = Some i -> s0 <= i < s0 + N.of_nat (length v) /\
                                       exists c, lookup v n = Some c /\ get_ino t i = IN c c false) /\
  (forall n c, lookup v n = Some c -> exists i, lookup e n = Some i) /\
  (forall n m i, lookup e n = Some i -> lookup e m = Some i -> n = m).
Proof.
  induction v as [|[k c] v IH]; intro s0; cbn zeta.
  - cbn. repeat split; intros; discriminate.
  - cbn [fs_of_view_from]. specialize (IH (s0 + 1)). cbn zeta in IH.
    destruct (fs_of_view_from v (s0 + 1)) as [e t]. cbn [fst snd] in *. destruct IH as (I1 & I2 & I3).
    split; [|split].
    + intros n i. cbn [lookup length]. beq_case' k n.
      * intro H. inversion H; subst i. split; [lia|]. exists c. split; [reflexivity|]. cbn [get_ino]. now rewrite N.eqb_refl.
      * intro H. destruct (I1 _ _ H) as (Hb & c' & Hc & Hg). split; [lia|]. exists c'. split; [assumption|].
        cbn [get_ino]. now rewrite (proj2 (N.eqb_neq s0 i)) by lia.
    + intros n c'. cbn [lookup]. destruct (beq k n); [eauto|]. apply I2.
    + intros n m i. cbn [lookup]. beq_case' k n; beq_case' k m; intros H1 H2; try congruence.
      * inversion H1; subst i. apply I1 in H2. lia.
      * inversion H2; subst i. apply I1 in H1. lia.
      * eapply I3; eassumption.
Qed.

Theorem restart_clean v A B K : cleanv v A B K -> exists i0, clean (fs_of_view v) A B K i0.
Proof.
  intros (Hc & Hk & Hnf & Hp). unfold fs_of_view.
  pose proof (fs_of_view_from_spec v 0) as S. cbn zeta in S.
  destruct (fs_of_view_from v 0) as [e t]. cbn [fst snd] in S. destruct S as (S1 & S2 & S3).
  destruct (S2 _ _ Hc) as (i0 & Hi0). exists i0.
  assert (forall n i c, lookup e n = Some i -> lookup v n = Some c -> get_ino t i = IN c c false) as Hg.
  { intros n i c Hl Hv. destruct (S1 _ _ Hl) as (_ & c' & Hc' & Hg). congruence. }
  assert (forall c, harmless A B c -> pend_ino A B (IN c c false)) as Hsyn.
  { intros c H. split; [intro sel; now rewrite synced_data|exact H]. }
  constructor; cbn [ents dents pdir inos next].
  - exact S3.
  - intros n i H. apply S1 in H. lia.
  - intros n i H. apply S1 in H. lia.
  - intros n i [].
  - intros n i Hn Hl. split; [|intros z []]. intros z Hz. apply (Hn z). eapply S3; eassumption.
  - constructor.
  - exact Hi0.
  - exact Hi0.
  - eapply Hg; eassumption.
  - intros k Hin. apply has_lookup. apply Hk, has_lookup in Hin. destruct (lookup v k) as [c|] eqn:E; [|congruence].
    destruct (S2 _ _ E) as (i & ->). discriminate.
  - intros k Hin. apply has_lookup. apply Hk, has_lookup in Hin. destruct (lookup v k) as [c|] eqn:E; [|congruence].
    destruct (S2 _ _ E) as (i & ->). discriminate.
  - exact Hnf.
  - intros z i H. destruct (S1 _ _ H) as (_ & c & Hc' & ->). apply Hsyn. eapply Hp; eassumption.
  - intros z i H. destruct (S1 _ _ H) as (_ & c & Hc' & ->). apply Hsyn. eapply Hp; eassumption.
Qed.

(* every crash image of a good state is a clean directory: still on A, or already on B *)
Theorem good_cleanv s A B K v :
  good s A B K -> (fd_num A <= fd_num B)%Z -> (forall k, In k K -> ~ famc k) -> crash_image s v ->
  cleanv v A B K \/ cleanv v B B K.
Proof.
  intros G Hle Hnf (mask & sel & ->). destruct (G mask) as ((i & Hi & Hd) & Hk & Hp).
  assert (forall z c, lookup (image_view mask sel s) (pend_name z) = Some c -> harmless A B c) as Hh.
  { intros z c. rewrite lookup_image_view.
    destruct (lookup (image_ents mask (pdir s) (dents s)) (pend_name z)) as [j|] eqn:E; [|discriminate].
    cbn [option_map]. intro H. inversion H. apply (proj1 (Hp z j E)). }
  assert (forall k, In k K -> has (image_view mask sel s) k = true) as Hk' by (intros k Hin; rewrite has_image_view; auto).
  destruct (Hd (sel i)) as [E|E]; [left|right]; (split; [rewrite lookup_image_view, Hi; cbn [option_map]; now rewrite E|]);
    (split; [exact Hk'|split; [exact Hnf|]]).
  - exact Hh.
  - intros z c H. eapply harmless_settle; [eapply Hh; eassumption|assumption].
Qed.

Corollary clean_image_cleanv s A B K i0 v : clean s A B K i0 -> (fd_num A <= fd_num B)%Z -> crash_image s v ->
  cleanv v A B K.
Proof.
  intros C Hle (mask & sel & ->).
  destruct (Jinv_image A B K (inos s) i0 (pdir s) mask (dents s) (k_ops _ _ _ _ _ C) (clean_Jinv _ _ _ _ _ C)) as (Hc & Hk & Hp).
  split; [|split; [|split]].
  - rewrite lookup_image_view, Hc. cbn [option_map]. now rewrite (k_cur_i _ _ _ _ _ C), synced_data.
  - intros k Hin. rewrite has_image_view. auto.
  - apply C.
  - intros z c. rewrite lookup_image_view.
    destruct (lookup (image_ents mask (pdir s) (dents s)) (pend_name z)) as [j|] eqn:E; [|discriminate].
    cbn [option_map]. intro H. inversion H. apply (proj1 (Hp z j E)).
Qed.

(* a settled directory stays settled across any number of crashes and restarts *)
Theorem settled_across_crashes s A K i0 v :
  clean s A A K i0 -> In (gen_name A) K -> int64_ok (fd_num A) = true -> crash_image s v ->
  get_meta_result v = GOk A /\ exists i1, clean (fs_of_view v) A A K i1.
Proof.
  intros C HK Hi Hv. split.
  - destruct (good_images _ _ _ _ _ (clean_good _ _ _ _ _ C) HK HK (Z.le_refl _) Hi Hi Hv); assumption.
  - apply restart_clean. eapply clean_image_cleanv; [eassumption|lia|assumption].
Qed.

(* ================================================================ what the session does between two switches *)

(* operations on other files: anything that keeps the files of K and leaves the CURRENT family alone *)
Inductive foreign (K : list bytes) : fsop -> Prop :=
| fo_create n : ~ famc n -> foreign K (OCreate n)
| fo_write n d : ~ famc n -> foreign K (OWrite n d)
| fo_fsync n : ~ famc n -> foreign K (OFsync n)
| fo_rename a b : ~ famc a -> ~ famc b -> ~ In a K -> foreign K (ORename a b)
| fo_unlink n : ~ famc n -> ~ In n K -> foreign K (OUnlink n)
| fo_syncdir : foreign K OSyncDir.

Lemma not_famc n : ~ famc n -> n <> s_CURRENT /\ n <> s_CURRENT_bak /\ forall z, n <> pend_name z.
Proof.
  intro H. split; [|split].
  - intro X. apply H. now left.
  - intro X. apply H. right. now left.
  - intros z X. apply H. right. right. eauto.
Qed.

Lemma rename_cases {A} (e : list (bytes * A)) a b x : lookup e a = Some x -> forall m i,
  lookup (rename_at e a b) m = Some i -> (m = b /\ i = x) \/ (m <> b /\ m <> a /\ lookup e m = Some i).
Proof.
  intros E m i. rewrite (lookup_rename_at _ _ _ _ _ E). beq_case' b m; [intro H; inversion H; auto|].
  beq_case' a m; [discriminate|]. intro H. right. repeat split; try assumption.
  - intro X. subst m. now rewrite beq_refl in E0.
  - intro X. subst m. now rewrite beq_refl in E1.
Qed.

Lemma clean_syncdir s A B K i0 : clean s A B K i0 -> clean (fapply s OSyncDir) A B K i0.
Proof.
  intro C. cbn [fapply]. constructor; cbn [ents dents pdir inos next]; try apply C.
  - intros n i [].
  - intros n i Hn Hl. split; [|intros z []]. intros z Hz. apply (Hn z). exact (k_inj _ _ _ _ _ C _ _ _ Hl Hz).
  - constructor.
Qed.

Lemma clean_foreign s A B K i0 o : clean s A B K i0 -> foreign K o -> clean (fapply s o) A B K i0.
Proof.
  intros C F. destruct F as [n Hn|n d Hn|n Hn|a b Ha Hb HK|n Hn HK|].
  - destruct (not_famc _ Hn) as (N1 & _ & N3). destruct (lookup (ents s) n) as [i|] eqn:E.
    + rewrite (fapply_create_existing _ _ _ E). eapply clean_upd_other; eassumption.
    + now apply clean_link_new.
  - destruct (not_famc _ Hn) as (N1 & _ & N3). destruct (lookup (ents s) n) as [i|] eqn:E.
    + rewrite (fapply_write _ _ _ _ E). eapply clean_upd_other; eassumption.
    + cbn [fapply]. now rewrite E.
  - destruct (not_famc _ Hn) as (N1 & _ & N3). destruct (lookup (ents s) n) as [i|] eqn:E.
    + rewrite (fapply_fsync _ _ _ E). eapply clean_upd_other; eassumption.
    + cbn [fapply]. now rewrite E.
  - destruct (not_famc _ Ha) as (A1 & _ & A3). destruct (not_famc _ Hb) as (B1 & _ & B3).
    cbn [fapply]. destruct (lookup (ents s) a) as [x|] eqn:E; [|exact C].
    pose proof (rename_cases (ents s) a b x E) as Hr.
    constructor; cbn [ents dents pdir inos next]; try apply C.
    + intros n m i H1 H2. apply Hr in H1, H2.
      destruct H1 as [[-> ->]|(Ha1 & Ha2 & Ha3)], H2 as [[-> H2]|(Hb1 & Hb2 & Hb3)]; try reflexivity.
      * exfalso. apply Hb2. exact (k_inj _ _ _ _ _ C _ _ _ Hb3 E).
      * subst i. exfalso. apply Ha2. exact (k_inj _ _ _ _ _ C _ _ _ Ha3 E).
      * exact (k_inj _ _ _ _ _ C _ _ _ Ha3 Hb3).
    + intros n i H. apply Hr in H. destruct H as [[_ ->]|(_ & _ & H)]; eapply (k_bnd_e _ _ _ _ _ C); eassumption.
    + intros n i H. apply in_app_or in H. destruct H as [H|[H|[]]]; [now apply (k_bnd_p _ _ _ _ _ C) in H|discriminate].
    + intros n i Hn Hl. apply Hr in Hl. destruct Hl as [[-> ->]|(_ & _ & Hl)].
      * destruct (k_sep _ _ _ _ _ C a x A3 E) as [S1 S2]. split; [exact S1|].
        intros z Hin. apply in_app_or in Hin. destruct Hin as [Hin|[Hin|[]]]; [now apply (S2 z)|discriminate].
      * destruct (k_sep _ _ _ _ _ C n i Hn Hl) as [S1 S2]. split; [exact S1|].
        intros z Hin. apply in_app_or in Hin. destruct Hin as [Hin|[Hin|[]]]; [now apply (S2 z)|discriminate].
    + apply Forall_app. split; [apply C|]. constructor; [|constructor]. cbn [okop]. auto.
    + rewrite (lookup_rename_at _ _ _ _ _ E), (beq_neq b s_CURRENT), (beq_neq a s_CURRENT) by assumption. apply C.
    + intros k Hk. apply has_lookup. rewrite (lookup_rename_at _ _ _ _ _ E). destruct (beq b k); [discriminate|].
      rewrite beq_neq by (intro X; subst; contradiction). apply has_lookup. now apply (k_keep_e _ _ _ _ _ C).
    + intros z i H. apply Hr in H. destruct H as [[H _]|(_ & _ & H)]; [symmetry in H; now apply B3 in H|].
      exact (k_pend_e _ _ _ _ _ C z i H).
  - destruct (not_famc _ Hn) as (N1 & _ & N3).
    cbn [fapply]. destruct (lookup (ents s) n) as [x|] eqn:E; [|exact C].
    assert (forall m i, lookup (remove_at (ents s) n) m = Some i -> lookup (ents s) m = Some i) as Hr.
    { intros m i. rewrite lookup_remove_at. destruct (beq n m); [discriminate|auto]. }
    constructor; cbn [ents dents pdir inos next]; try apply C.
    + intros a b i H1 H2. apply Hr in H1, H2. exact (k_inj _ _ _ _ _ C _ _ _ H1 H2).
    + intros a i H. apply Hr in H. eapply (k_bnd_e _ _ _ _ _ C); eassumption.
    + intros a i H. apply in_app_or in H. destruct H as [H|[H|[]]]; [now apply (k_bnd_p _ _ _ _ _ C) in H|discriminate].
    + intros a i Ha Hl. apply Hr in Hl. destruct (k_sep _ _ _ _ _ C a i Ha Hl) as [S1 S2]. split; [exact S1|].
      intros z Hin. apply in_app_or in Hin. destruct Hin as [Hin|[Hin|[]]]; [now apply (S2 z)|discriminate].
    + apply Forall_app. split; [apply C|]. constructor; [|constructor]. cbn [okop]. auto.
    + rewrite lookup_remove_at, beq_neq by assumption. apply C.
    + intros k Hk. apply has_lookup. rewrite lookup_remove_at, beq_neq by (intro X; subst; contradiction).
      apply has_lookup. now apply (k_keep_e _ _ _ _ _ C).
    + intros z i H. apply Hr in H. exact (k_pend_e _ _ _ _ _ C z i H).
  - now apply clean_syncdir.
Qed.

Lemma clean_K_sub s A B K K' i0 : clean s A B K i0 -> (forall k, In k K' -> In k K) -> clean s A B K' i0.
Proof.
  intros C Hs. constructor; try apply C.
  - apply Forall_forall. intros o Ho. pose proof (proj1 (Forall_forall _ _) (k_ops _ _ _ _ _ C) o Ho) as Hok.
    destruct o as [n j|a b j|n]; cbn [okop] in *; [exact Hok| |].
    + destruct Hok as (H1 & H2 & H3). split; [assumption|split; [assumption|]]. intro X. apply H3. auto.
    + destruct Hok as (H1 & H2). split; [assumption|]. intro X. apply H2. auto.
  - intros k Hk. apply (k_keep _ _ _ _ _ C). auto.
  - intros k Hk. apply (k_keep_e _ _ _ _ _ C). auto.
  - intros k Hk. apply (k_Knf _ _ _ _ _ C). auto.
Qed.

Lemma clean_K_add s A B K i0 k : clean s A B K i0 -> pdir s = [] -> has (dents s) k = true -> has (ents s) k = true ->
  ~ famc k -> clean s A B (k :: K) i0.
Proof.
  intros C Hp Hd He Hn. constructor; try apply C.
  - rewrite Hp. constructor.
  - intros k' [<-|Hk]; [assumption|now apply (k_keep _ _ _ _ _ C)].
  - intros k' [<-|Hk]; [assumption|now apply (k_keep_e _ _ _ _ _ C)].
  - intros k' [<-|Hk]; [assumption|now apply (k_Knf _ _ _ _ _ C)].
Qed.

Lemma gen_name_not_famc fd : int64_ok (fd_num fd) = true -> ~ famc (gen_name fd).
Proof.
  intros Hi [H|[H|(z & H)]]; destruct (gen_name_not_family fd Hi) as (H1 & H2 & H3); [auto|auto|now apply (H3 z)].
Qed.

(* ================================================================ a chain of switches *)

Inductive chain_ev := EvForeign (o : fsop) | EvSwitch (B : fdesc).

(* the events the session may issue: other files' operations that keep the current manifest; a switch to a newer
   manifest that exists — newManifest syncs the manifest (file and directory) and then calls SetMeta; after the
   switch only the new manifest has to stay *)
Fixpoint valid_chain (s : fsys) (A : fdesc) (K : list bytes) (evs : list chain_ev) : Prop :=
  match evs with
  | [] => True
  | EvForeign o :: l => foreign K o /\ valid_chain (fapply s o) A K l
  | EvSwitch B :: l =>
      has (ents s) (gen_name B) = true /\ (fd_num A < fd_num B)%Z /\ int64_ok (fd_num B) = true /\
      valid_chain (set_meta (fapply s OSyncDir) B) B [gen_name B] l
  end.

(* every state between two file-system operations, with the manifests GetMeta may answer there *)
Fixpoint chain_states (s : fsys) (A : fdesc) (evs : list chain_ev) : list (fsys * fdesc * fdesc) :=
  match evs with
  | [] => [(s, A, A)]
  | EvForeign o :: l => (s, A, A) :: chain_states (fapply s o) A l
  | EvSwitch B :: l =>
      let s1 := fapply s OSyncDir in
      let ops := set_meta_ops (vol_view s1) B in
      (s, A, A) :: map (fun k => (fapply_all s1 (firstn k ops), A, B)) (seq 0 (S (length ops))) ++
      chain_states (set_meta s1 B) B l
  end.

Definition safe (x : fsys * fdesc * fdesc) : Prop :=
  let '(s, A, B) := x in forall v, crash_image s v -> get_meta_result v = GOk A \/ get_meta_result v = GOk B.

Theorem chain_safe evs : forall s A K i0,
  clean s A A K i0 -> In (gen_name A) K -> int64_ok (fd_num A) = true -> valid_chain s A K evs ->
  Forall safe (chain_states s A evs).
Proof.
  induction evs as [|[o|B] l IH]; intros s A K i0 C HK Hi V; cbn [chain_states valid_chain] in *.
  - constructor; [|constructor]. intros v Hv. left. eapply settled_across_crashes; eassumption.
  - destruct V as [F V]. constructor.
    + intros v Hv. left. eapply settled_across_crashes; eassumption.
    + eapply IH; [eapply clean_foreign; eassumption|assumption|assumption|assumption].
  - destruct V as (Hhas & Hlt & HiB & V). constructor.
    + intros v Hv. left. eapply settled_across_crashes; eassumption.
    + pose proof (clean_syncdir _ _ _ _ _ C) as C1. set (s1 := fapply s OSyncDir) in *.
      assert (clean s1 A A (gen_name B :: K) i0) as C2.
      { apply clean_K_add; [assumption|reflexivity|exact Hhas|exact Hhas|now apply gen_name_not_famc]. }
      destruct (set_meta_crash_atomic s1 A B (gen_name B :: K) i0 C2 (or_intror HK) (or_introl eq_refl) Hlt Hi HiB) as (H1 & (j & H2) & H3).
      apply Forall_app. split.
      * apply Forall_forall. intros x Hx. apply in_map_iff in Hx. destruct Hx as (k & <- & _). exact (H1 k).
      * apply (IH _ B [gen_name B] j); [|now left|assumption|assumption].
        eapply clean_K_sub; [exact H2|]. intros k [<-|[]]. now left.
Qed.

(* ================================================================ the repair inside a read-write GetMeta *)

Lemma clean_unlink s A B K i0 n : clean s A B K i0 -> n <> s_CURRENT -> ~ In n K -> clean (fapply s (OUnlink n)) A B K i0.
Proof.
  intros C N1 HK. cbn [fapply]. destruct (lookup (ents s) n) as [x|] eqn:E; [|exact C].
  assert (forall m i, lookup (remove_at (ents s) n) m = Some i -> lookup (ents s) m = Some i) as Hr.
  { intros m i. rewrite lookup_remove_at. destruct (beq n m); [discriminate|auto]. }
  constructor; cbn [ents dents pdir inos next]; try apply C.
  - intros a b i H1 H2. apply Hr in H1, H2. exact (k_inj _ _ _ _ _ C _ _ _ H1 H2).
  - intros a i H. apply Hr in H. eapply (k_bnd_e _ _ _ _ _ C); eassumption.
  - intros a i H. apply in_app_or in H. destruct H as [H|[H|[]]]; [now apply (k_bnd_p _ _ _ _ _ C) in H|discriminate].
  - intros a i Ha Hl. apply Hr in Hl. destruct (k_sep _ _ _ _ _ C a i Ha Hl) as [S1 S2]. split; [exact S1|].
    intros z Hin. apply in_app_or in Hin. destruct Hin as [Hin|[Hin|[]]]; [now apply (S2 z)|discriminate].
  - apply Forall_app. split; [apply C|]. constructor; [|constructor]. cbn [okop]. auto.
  - rewrite lookup_remove_at, beq_neq by assumption. apply C.
  - intros k Hk. apply has_lookup. rewrite lookup_remove_at, beq_neq by (intro X; subst; contradiction).
    apply has_lookup. now apply (k_keep_e _ _ _ _ _ C).
  - intros z i H. apply Hr in H. exact (k_pend_e _ _ _ _ _ C z i H).
Qed.

Lemma fapply_all_app s a b : fapply_all s (a ++ b) = fapply_all (fapply_all s a) b.
Proof. unfold fapply_all. apply fold_left_app. Qed.

Lemma clean_unlinks A B K i0 l : (forall q, In q l -> exists z, q = pend_name z) ->
  forall s k, clean s A B K i0 -> clean (fapply_all s (firstn k (map OUnlink l))) A B K i0.
Proof.
  induction l as [|q l IH]; intros Hl s k C.
  - cbn. now rewrite firstn_nil.
  - destruct k as [|k]; [exact C|]. cbn [map firstn fapply_all fold_left].
    apply (IH (fun q' H => Hl q' (or_intror H))). destruct (Hl q (or_introl eq_refl)) as (z & ->).
    apply clean_unlink; [assumption|apply pend_name_not_current|].
    intro X. apply (k_Knf _ _ _ _ _ C _ X). right. right. eauto.
Qed.

(* which file wins on the directory the running process sees *)
Lemma clean_choice s A B K i0 :
  clean s A B K i0 -> In (gen_name A) K -> In (gen_name B) K ->
  int64_ok (fd_num A) = true -> int64_ok (fd_num B) = true ->
  g_chosen (get_meta_choice (vol_view s)) = Some (s_CURRENT, A) \/
  (exists q, In q (pend_names (vol_view s)) /\ g_chosen (get_meta_choice (vol_view s)) = Some (q, B) /\
             (fd_num A < fd_num B)%Z).
Proof.
  intros C HKA HKB HiA HiB. set (v := vol_view s).
  assert (tc_cur (try_currents v [s_CURRENT; s_CURRENT_bak] false false) = Some (s_CURRENT, A)) as Hc.
  { cbn [try_currents]. unfold try_current at 1. unfold v. rewrite (vol_cur _ _ _ _ _ C), check_meta_content by assumption.
    rewrite has_vol_view, (k_keep_e _ _ _ _ _ C _ HKA). reflexivity. }
  unfold get_meta_choice. cbn [g_chosen]. fold v. rewrite Hc.
  destruct (tc_cur (try_currents v (pend_names v) false false)) as [[q pfd]|] eqn:Ep; [|now left].
  apply try_currents_some in Ep. destruct Ep as [Hin Hok].
  destruct (try_current_ok _ _ _ Hok) as (c & Hl & Hch & _).
  pose proof Hin as Hin'. apply in_pend_names in Hin'. destruct Hin' as (n & z & _ & _ & ->).
  assert (harmless A B c) as Hh.
  { unfold v, vol_view in Hl. rewrite lookup_view_of in Hl.
    destruct (lookup (ents s) (pend_name z)) as [i|] eqn:E; [|discriminate]. cbn [option_map] in Hl. inversion Hl.
    exact (proj2 (k_pend_e _ _ _ _ _ C z i E)). }
  destruct (Hh _ Hch) as [->|Hle].
  - destruct (fd_num B >? fd_num A)%Z eqn:G; [|now left]. right. exists (pend_name z).
    split; [assumption|split; [reflexivity|]]. now apply Z.gtb_lt in G.
  - assert ((fd_num pfd >? fd_num A)%Z = false) as -> by (rewrite Z.gtb_ltb; apply Z.ltb_ge; lia). now left.
Qed.

Lemma firstn_app_cases {X} k (a b : list X) :
  (k <= length a)%nat /\ firstn k (a ++ b) = firstn k a \/
  exists k', firstn k (a ++ b) = a ++ firstn k' b.
Proof.
  destruct (Nat.le_gt_cases k (length a)) as [H|H].
  - left. split; [assumption|]. rewrite firstn_app. replace (k - length a)%nat with 0%nat by lia.
    cbn. now rewrite app_nil_r.
  - right. exists (k - length a)%nat. rewrite firstn_app, firstn_all2 by lia. reflexivity.
Qed.

(* GetMeta on a read-write storage, from a settled directory or from one a crash left in the middle of a switch:
   it answers A or B, a crash at any point of its repair leaves a directory that answers A or B, and the
   repaired directory is settled on the answer (or, when the pending file did not validate, still open on A). *)
Theorem repair_safe s A B K i0 :
  clean s A B K i0 -> In (gen_name A) K -> In (gen_name B) K -> (fd_num A <= fd_num B)%Z ->
  int64_ok (fd_num A) = true -> int64_ok (fd_num B) = true ->
  let r := fst (get_meta_ops false (vol_view s)) in
  let ops := snd (get_meta_ops false (vol_view s)) in
  (forall k v, crash_image (fapply_all s (firstn k ops)) v -> get_meta_result v = GOk A \/ get_meta_result v = GOk B) /\
  ((r = GOk A /\ clean (fapply_all s ops) A B K i0) \/ (r = GOk B /\ exists j, clean (fapply_all s ops) B B K j)).
Proof.
  intros C HKA HKB Hle HiA HiB. cbn zeta.
  assert (forall t i X, (X = A \/ X = B) -> clean t X B K i -> forall v, crash_image t v -> get_meta_result v = GOk A \/ get_meta_result v = GOk B) as HG.
  { intros t i X [-> | ->] Ct v Hv.
    - eapply good_images; [eapply clean_good; eassumption| | | | | |]; eassumption.
    - right. destruct (good_images _ _ _ _ _ (clean_good _ _ _ _ _ Ct) HKB HKB (Z.le_refl _) HiB HiB Hv); assumption. }
  assert (forall q, In q (pend_names (vol_view s)) -> exists z, q = pend_name z) as Hpn.
  { intros q Hq. apply in_pend_names in Hq. destruct Hq as (n & z & _ & _ & ->). eauto. }
  rewrite get_meta_ops_unfold.
  destruct (clean_choice _ _ _ _ _ C HKA HKB HiA HiB) as [Hch|(q & Hq & Hch & Hlt)]; rewrite Hch; cbn [fst snd].
  - (* CURRENT wins *)
    rewrite beq_refl. cbn [negb orb andb]. change (g_pend (get_meta_choice (vol_view s))) with (pend_names (vol_view s)).
    rewrite (set_meta_ops_same _ A (vol_cur _ _ _ _ _ C)). cbn [app].
    assert (forall k, clean (fapply_all s (firstn k (if negb match pend_names (vol_view s) with [] => true | _ :: _ => false end
                                                    then map OUnlink (pend_names (vol_view s)) else []))) A B K i0) as Hcl.
    { intro k. destruct (pend_names (vol_view s)) eqn:E; cbn [negb]; [now rewrite firstn_nil|]. rewrite <- E in *.
      now apply clean_unlinks. }
    split.
    + intros k v. apply (HG _ i0 A); [now left|apply Hcl].
    + left. split; [reflexivity|]. specialize (Hcl (length (map OUnlink (pend_names (vol_view s))))).
      destruct (pend_names (vol_view s)) eqn:E; cbn [negb] in *; [exact C|]. rewrite <- E in *.
      now rewrite firstn_all in Hcl.
  - (* a pending file naming B wins: the switch is replayed *)
    assert (A <> B) as Hne by (intro X; subst; lia).
    assert (beq q s_CURRENT = false) as ->.
    { destruct (Hpn q Hq) as (z & ->). apply beq_neq, pend_name_not_current. }
    cbn [negb orb andb]. change (g_pend (get_meta_choice (vol_view s))) with (pend_names (vol_view s)).
    rewrite (set_meta_ops_switch' _ _ _ _ _ C HKA HiA HiB Hne).
    destruct (switch_safe s A B K i0 C HKA HKB Hle HiA HiB) as (H1 & (j & H2) & H3).
    split.
    + intros k v. destruct (firstn_app_cases k (switch_ops A B) (map OUnlink (pend_names (vol_view s)))) as [[_ ->]|(k' & ->)].
      * apply H1.
      * rewrite fapply_all_app. apply (HG _ j B); [now right|]. now apply clean_unlinks.
    + right. split; [reflexivity|]. exists j. rewrite fapply_all_app.
      pose proof (clean_unlinks B B K j (pend_names (vol_view s)) Hpn _ (length (map OUnlink (pend_names (vol_view s)))) H2) as X.
      now rewrite firstn_all in X.
Qed.

(* ================================================================ witnesses *)

Definition M (n : Z) : fdesc := FD TManifest n.

(* ---- a settled directory with a stale backup and a stale pending file, and a chain of events on it *)
Definition ex_settled_view : view :=
  [(s_LOCK, []); (s_LOG, [83]); (gen_name (M 1), [109]); (s_CURRENT, meta_content (M 1));
   (s_CURRENT_bak, meta_content (M 0)); (pend_name 1, meta_content (M 1))].

Lemma lookup_in {A} (v : list (bytes * A)) n x : lookup v n = Some x -> In (n, x) v.
Proof.
  induction v as [|[k y] v IH]; cbn [lookup]; [discriminate|]. beq_case' k n.
  - intro H. inversion H; subst. now left.
  - intro H. right. auto.
Qed.

Lemma ex_settled_cleanv : cleanv ex_settled_view (M 1) (M 1) [gen_name (M 1)].
Proof.
  split; [reflexivity|split; [|split]].
  - intros k [<-|[]]. reflexivity.
  - intros k [<-|[]]. now apply gen_name_not_famc.
  - intros z c H. apply lookup_in in H. unfold ex_settled_view in H. cbn [In] in H.
    destruct H as [H|[H|[H|[H|[H|[H|[]]]]]]]; pose proof (f_equal fst H) as Hn; pose proof (f_equal snd H) as Hc; cbn [fst snd] in Hn, Hc; clear H.
    + exfalso. unfold pend_name, s_CURRENT_dot, s_LOCK in Hn. cbn [app] in Hn. discriminate.
    + exfalso. unfold pend_name, s_CURRENT_dot, s_LOG in Hn. cbn [app] in Hn. discriminate.
    + exfalso. destruct (gen_name_not_family (M 1) eq_refl) as (_ & _ & Hg3). exact (Hg3 z Hn).
    + exfalso. symmetry in Hn. now apply pend_name_not_current in Hn.
    + exfalso. symmetry in Hn. now apply pend_name_not_bak in Hn.
    + subst c. intros fd Hfd. vm_compute in Hfd. inversion Hfd. right. cbn. lia.
Qed.

Definition ex_chain : list chain_ev :=
  [EvForeign (OCreate (gen_name (FD TTable 7))); EvForeign (OWrite (gen_name (FD TTable 7)) [1; 2]);
   EvForeign (OCreate (gen_name (M 2))); EvForeign (OWrite (gen_name (M 2)) [109]);
   EvSwitch (M 2); EvForeign (OUnlink (gen_name (M 1)));
   EvForeign (OCreate (gen_name (M 3))); EvSwitch (M 3)].

Theorem ex_chain_valid :
  exists i0, clean (fs_of_view ex_settled_view) (M 1) (M 1) [gen_name (M 1)] i0 /\
  valid_chain (fs_of_view ex_settled_view) (M 1) [gen_name (M 1)] ex_chain /\
  List.length (chain_states (fs_of_view ex_settled_view) (M 1) ex_chain) = 27%nat.
Proof.
  destruct (restart_clean _ _ _ _ ex_settled_cleanv) as (i0 & C). exists i0. split; [exact C|]. split.
  - assert (forall fd, int64_ok (fd_num fd) = true -> ~ famc (gen_name fd)) as NF by (intros; now apply gen_name_not_famc).
    cbn [valid_chain ex_chain]. repeat split; try (constructor; apply NF; reflexivity); try reflexivity; try (cbn; lia).
    + constructor; [apply NF; reflexivity|]. intros [H|[]]. vm_compute in H. discriminate.
  - reflexivity.
Qed.

(* ---- CURRENT unusable, CURRENT.bak good: before the repair "fix: setMeta backs up CURRENT only when it is
   usable" GetMeta's own repair destroyed the only usable pointer *)
Definition ex_bak_view : view :=
  [(s_CURRENT, [77; 65; 78; 73; 70]); (s_CURRENT_bak, meta_content (M 4)); (gen_name (M 4), [109])].

Theorem repair_from_backup_old_refuted :
  get_meta_result ex_bak_view = GOk (M 4) /\
  exists k mask sel,
    get_meta_result (image_view mask sel (fapply_all (fs_of_view ex_bak_view) (firstn k (get_meta_ops_old ex_bak_view))))
    = GErr GCorrupted.
Proof. split; [reflexivity|]. exists 3%nat, [], (fun _ => None). reflexivity. Qed.

(* all crash states of the repaired repair on that directory, enumerated: every prefix, every sub-selection of
   the pending directory operations, the new file cut at every length *)
Fixpoint all_masks (n : nat) : list (list bool) :=
  match n with
  | O => [[]]
  | S n' => flat_map (fun m => [true :: m; false :: m]) (all_masks n')
  end.

Definition ex_sels : list (N -> option nat) :=
  (fun _ => None) :: map (fun k i => if i =? 3 then Some k else None) (seq 0 18).

Theorem repair_from_backup_fixed_enumerated :
  let ops := snd (get_meta_ops false ex_bak_view) in
  ops = [OCreate (pend_name 4); OWrite (pend_name 4) (meta_content (M 4)); OFsync (pend_name 4);
         ORename (pend_name 4) s_CURRENT; OSyncDir] /\
  forallb (fun k =>
    forallb (fun mask =>
      forallb (fun sel =>
        match get_meta_result (image_view mask sel (fapply_all (fs_of_view ex_bak_view) (firstn k ops))) with
        | GOk fd => fd_eqb fd (M 4)
        | GErr _ => false
        end) ex_sels) (all_masks 2)) (seq 0 6) = true.
Proof. vm_compute. split; reflexivity. Qed.

(* ---- an answer that was observed can be taken back: a read-only GetMeta sees the pending file of an interrupted
   switch and answers the new manifest; a crash inside the repair of the next read-write GetMeta (which truncates
   that very file before rewriting it) leaves a directory that answers the old one.  Both manifests are intact. *)
Definition ex_pending_view : view :=
  [(s_CURRENT, meta_content (M 1)); (gen_name (M 1), [109]); (gen_name (M 2), [109]); (pend_name 2, meta_content (M 2))].

Theorem observed_answer_may_revert :
  get_meta_result ex_pending_view = GOk (M 2) /\
  exists k mask sel,
    get_meta_result (image_view mask sel (fapply_all (fs_of_view ex_pending_view)
                                                   (firstn k (snd (get_meta_ops false ex_pending_view)))))
    = GOk (M 1).
Proof. split; [reflexivity|]. exists 4%nat, [true], (fun i => if i =? 3 then Some 0%nat else None). reflexivity. Qed.

(* ---- outside the invariant: a pending file that names a manifest which does not exist (left by a setMeta that
   failed after writing it) makes the answer depend on other files: creating the named file flips GetMeta *)
Definition ex_dangling_view : view :=
  [(s_CURRENT, meta_content (M 5)); (gen_name (M 5), [109]); (pend_name 9, meta_content (M 9))].

Theorem dangling_pending_flips :
  get_meta_result ex_dangling_view = GOk (M 5) /\
  get_meta_result (vapply ex_dangling_view (OCreate (gen_name (M 9)))) = GOk (M 9).
Proof. split; reflexivity. Qed.

(* ---- a switch to an OLDER number is not atomic in this sense: the stale pending file wins afterwards *)
Definition ex_backwards_view : view :=
  [(s_CURRENT, meta_content (M 9)); (gen_name (M 9), [109]); (gen_name (M 5), [109]); (gen_name (M 7), [109]);
   (pend_name 7, meta_content (M 7))].

Theorem backwards_switch_refuted :
  get_meta_result ex_backwards_view = GOk (M 9) /\
  get_meta_result (vol_view (set_meta (fs_of_view ex_backwards_view) (M 5))) = GOk (M 7).
Proof. split; reflexivity. Qed.

Theorem crash_image_restarts_clean s A B K v :
  good s A B K -> (fd_num A <= fd_num B)%Z -> (forall k, In k K -> ~ famc k) -> crash_image s v ->
  (exists i, clean (fs_of_view v) A B K i) \/ (exists i, clean (fs_of_view v) B B K i).
Proof.
  intros G Hle Hnf Hv.
  destruct (good_cleanv s A B K v G Hle Hnf Hv) as [H|H]; [left|right]; exact (restart_clean _ _ _ _ H).
Qed.
