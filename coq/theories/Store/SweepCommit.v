From Coq Require Import NArith PeanoNat List Bool Lia Permutation Sorted.
From GL Require Import Store.Sweep Store.SweepProofs Store.SweepInv.
Import ListNotations.
Open Scope N_scope.

Local Arguments N.eqb : simpl never.
Local Arguments N.leb : simpl never.
Local Arguments N.ltb : simpl never.
Local Arguments N.add : simpl never.
Local Arguments N.max : simpl never.
Local Arguments tget : simpl never.
Local Arguments tset : simpl never.
Local Arguments tdel : simpl never.
Local Arguments retag : simpl never.
Local Arguments keys_with : simpl never.
Local Arguments tabs_of : simpl never.
Local Arguments fadd : simpl never.
Local Arguments fdel : simpl never.
Local Arguments fmem : simpl never.
Local Arguments nmem : simpl never.
Local Arguments needed : simpl never.
Local Arguments jsel : simpl never.
Local Arguments install : simpl never.
Local Arguments do_rm : simpl never.
Local Arguments mark_failed : simpl never.
Local Arguments reuse_num : simpl never.

Lemma commit_Inv : forall ko dels jn rot o rmok s, Inv s ->
  (jn = None \/ jn = Some (journal s)) ->
  Inv (fst (commit ko dels jn rot o rmok s)) /\
  (snd (commit ko dels jn rot o rmok s) = true -> commit_ok_post ko jn s (fst (commit ko dels jn rot o rmok s))) /\
  (snd (commit ko dels jn rot o rmok s) = false -> commit_fail_post ko s (fst (commit ko dels jn rot o rmok s))).
Proof.
  intros ko dels jn rot o rmok s H Hjn. unfold commit.
  destruct (i_n s H) as (A&B&C&D&F).
  assert (Hsj : match jn with Some j => j | None => sjnum s end <= journal s).
  { destruct Hjn as [ -> | -> ]; [apply (proj2 (i_v5 s H)) | lia]. }
  assert (Hsj6 : fdone s = true -> match jn with Some j => j | None => sjnum s end = journal s).
  { intros Ef. destruct Hjn as [ -> | -> ]; auto. apply (proj2 (i_v6 s H Ef)). }
  destruct (negb (hasman s) || mfailed s || rot) eqn:Epath.
  - (* newManifest *)
    set (m := next s).
    assert (H1 : Inv (set_next (m + 1) s)) by (apply bump_next_Inv; auto; unfold m; lia).
    destruct o.
    + (* success *)
      set (s1 := set_next (m + 1) s) in *.
      destruct (install_core ko dels jn s1 H1) as (K2&N2&H2&P2&J2).
      destruct (install_fields ko dels jn s1) as (F1&F2&F3&F4&F5&F6&F7&F8&F9&F10&F11&F12&F13&F14).
      pose proof (install_back ko dels jn s1) as Hback.
      pose proof (install_back_same ko dels jn s1) as Hsame.
      pose proof (install_tab ko dels jn s1) as Htab.
      pose proof (fun k => getjob_install k ko dels jn s1) as Hgi.
      remember (install ko dels jn s1) as s2 eqn:Es2.
      cbn in F1, F2, F3, F4, F5, F6, F7, F8, F9, F10, F11, F12, F13, F14, N2, H2, P2.
      set (v := {| v_tabs := tabs_of (tb s2); v_jnum := sjnum s2; v_prev := None; v_next := next s2; v_man := m |}).
      set (s3 := set_views [v] (set_files (fadd (files s2) (FManifest, m)) s2)).
      assert (Hfl3 : NoDup (files s3)) by (subst s3; cbn; apply fadd_NoDup; rewrite F1; apply (i_fl s H)).
      assert (Hs4 : forall s4, s4 = match man s with Some old => fst (do_rm (FManifest, old) rmok RFailed s3) | None => s3 end ->
                    tb s4 = tb s2 /\ next s4 = m + 1 /\ held s4 = held s /\ views s4 = [v] /\ journal s4 = journal s /\
                    frozen s4 = frozen s /\ fdone s4 = fdone s /\ pins s4 = pins s /\ opened s4 = opened s /\
                    sjnum s4 = sjnum s2 /\ (forall k, getjob k s4 = getjob k s) /\ NoDup (files s4) /\ IT (trace s4)).
      { intros s4 Es4. destruct (man s) as [old|] eqn:Em.
        - destruct (do_rm_eq (FManifest, old) rmok RFailed s3) as (E1&E2&E3&E4&E5&E6&E7&E8&E9&E10&E11&E12&E13&E14&E15&E16&E17&E18&E19&_).
          pose proof (do_rm_files_NoDup (FManifest, old) rmok RFailed s3 Hfl3) as Hfl4.
          pose proof (fun k => getjob_do_rm k (FManifest, old) rmok RFailed s3) as Hg.
          rewrite <- Es4 in *.
          rewrite E2, E1, E3, E8, E9, E10, E11, E16, E17, E7, E19. subst s3. cbn.
          rewrite F2, F3, F8, F9, F10, F11, F12.
          repeat split; auto.
          + intros k. rewrite Hg. destruct (getjob_setters k s2) as (G1&G2&_).
            assert (Eg : getjob k (set_views [v] (set_files (fadd (files s2) (FManifest, m)) s2)) = getjob k s2) by (destruct k; reflexivity).
            rewrite Eg, Hgi. subst s1. apply getjob_set_next.
          + apply IT_cons; [rewrite F13; apply (i_t s H)|]. left. unfold needed. cbn.
            rewrite orb_false_r. apply N.eqb_neq. specialize (B old eq_refl). unfold m. lia.
        - subst s4 s3. cbn. rewrite F2, F3, F8, F9, F10, F11, F12, F13. repeat split; auto; try apply (i_t s H);
          try (intros k; assert (Eg : getjob k (set_views [v] (set_files (fadd (files s2) (FManifest, m)) s2)) = getjob k s2) by (destruct k; reflexivity);
               rewrite Eg, Hgi; subst s1; apply getjob_set_next). }
      remember (match man s with Some old => fst (do_rm (FManifest, old) rmok RFailed s3) | None => s3 end) as s4 eqn:Es4.
      destruct (Hs4 s4 eq_refl) as (T1&T2&T3&T4&T5&T6&T7&T8&T9&T10&T11&T12&T13). clear Hs4.
      assert (Hv_tab : forall t, In t (v_tabs v) <-> tget (tb s2) t = Some CTab) by (intros; apply tabs_of_In; auto).
      cbn [fst snd]. split; [|split; [|discriminate]].
      * constructor; cbn.
        -- auto.
        -- rewrite T1; auto.
        -- rewrite T2, T5, T6, T1, T8. destruct N2 as (A2&B2&C2&D2&F2').
           split; [|split; [|split; [|split]]]; auto.
           ++ intros x Hx. inversion Hx. lia.
           ++ intros t c Hc. destruct (D2 t c Hc) as (D21&D22&D23&D24).
              destruct (Hback _ _ Hc) as [c0 [Hc0 _]]. destruct (D t c0 Hc0) as (D01&_).
              repeat split; auto. intros E. inversion E. unfold m in *. lia.
        -- rewrite T3, T1. auto.
        -- rewrite T8, T1. auto.
        -- intros k Hoff.
           assert (Eg : getjob k (set_man (Some m) (set_hasman true (set_mfailed false s4))) = getjob k s4) by (destruct k; reflexivity).
           rewrite Eg, T11 in Hoff. cbn. rewrite T1. specialize (J2 k). rewrite Hgi in J2. subst s1. rewrite getjob_set_next in J2. auto.
        -- intros v0 t c. cbn. rewrite T4, T1. intros [ <- |[]] Ht Hc. left. apply Hv_tab in Ht. congruence.
        -- intros _. cbn. exists v. rewrite T4, T1. split; auto.
        -- rewrite T4. intros v0 [ <- |[]]. reflexivity.
        -- rewrite T4. intros v0 [ <- |[]]. reflexivity.
        -- rewrite T4, T5, T10. split; [intros v0 [ <- |[]]; cbn|]; rewrite F14; auto.
        -- rewrite T7, T4, T5, T10. intros Ef. split; [intros v0 [ <- |[]]; cbn|]; rewrite F14; auto.
        -- rewrite T4, T2. intros v0 [ <- |[]]. cbn.
           assert (Htl : forall t, In t (tabs_of (tb s2)) -> t < m + 1).
           { intros t Ht. apply Hv_tab in Ht. destruct N2 as (_&_&_&D2&_). apply (D2 t _ Ht). }
           split; [split; cbn; [rewrite F2; lia | rewrite F2; auto] | auto].
        -- auto.
        -- rewrite T9. apply (i_o s H).
      * intros _. unfold commit_ok_post. cbn. rewrite T1, T4, T5, T6, T7, T3, T8, T10.
        split; [|split; [|split; [|split]]].
        -- intros t c' Hc Hn1 Hn2. apply (Hsame t c'); auto.
        -- intros k Ek t Hc. subst ko.
           destruct (Hback _ _ Hc) as [c0 [Hc0 [E|[(_&E&_)|[k0 (_&_&E)]]]]]; try discriminate.
           subst c0. assert (Ht : tget (tb s2) t = Some CTab).
           { apply Htab. right. exists k. auto. }
           congruence.
        -- intros j Ej. rewrite F14, Ej. split; auto. intros v0 [ <- |[]]. cbn. rewrite F14, Ej. auto.
        -- intros k. assert (Eg : getjob k (set_man (Some m) (set_hasman true (set_mfailed false s4))) = getjob k s4) by (destruct k; reflexivity).
           rewrite Eg. auto.
        -- repeat split; auto.
    + (* newManifest fails: the file is removed again, the number given back *)
      set (s1 := set_next (m + 1) s) in *.
      set (s2 := set_files (fadd (files s1) (FManifest, m)) s1).
      assert (H2 : Inv s2) by (apply set_files_Inv; auto; apply fadd_NoDup, (i_fl s H)).
      assert (Hn : needed s2 (FManifest, m) = false).
      { unfold needed. cbn. apply not_true_is_false. intro E. apply existsb_exists in E. destruct E as [v0 [Hv0 E]].
        apply N.eqb_eq in E. pose proof (i_v4 s H v0 Hv0) as E4. specialize (B _ E4). unfold m in *. lia. }
      pose proof (do_rm_Inv (FManifest, m) rmok RFailed s2 H2 (or_introl Hn)) as H3.
      destruct (do_rm_eq (FManifest, m) rmok RFailed s2) as (E1&E2&E3&E4&E5&E6&E7&E8&E9&E10&E11&E12&E13&E14&E15&E16&E17&E18&E19&_).
      pose proof (fun k => getjob_do_rm k (FManifest, m) rmok RFailed s2) as Hg.
      set (s3 := fst (do_rm (FManifest, m) rmok RFailed s2)) in *.
      assert (H4 : Inv (reuse_num m s3)).
      { apply reuse_Inv; auto.
        - rewrite E2. cbn. destruct (tget (tb s) m) eqn:Eg; auto. destruct (D m _ Eg). unfold m in *. lia.
        - rewrite E9. cbn. unfold m. lia.
        - rewrite E4. cbn. intros Em. specialize (B _ Em). unfold m in *. lia.
        - rewrite E10. cbn. intros Em. specialize (C _ Em). unfold m in *. lia.
        - rewrite E16. cbn. intros Hp. specialize (F _ Hp). unfold m in *. lia.
        - rewrite E8. cbn. intros v0 u Hv0 Hu ->. destruct (i_v7 s H v0 Hv0) as [_ L]. specialize (L _ Hu). unfold m in *. lia. }
      assert (Er : reuse_num m s3 = set_next m s3).
      { unfold reuse_num. rewrite E1. cbn. rewrite N.eqb_refl. reflexivity. }
      cbn [fst snd]. split; [apply mark_failed_Inv; auto|]. split; [discriminate|]. intros _.
      destruct (mark_failed_fields ko (reuse_num m s3)) as (M1&M2&M3&M4&M5&M6&M7&M8&M9).
      destruct (mark_failed_more ko (reuse_num m s3)) as (M10&M11&M12&_).
      unfold commit_fail_post. rewrite M1, M6, M8, M10, M11, M12, Er. cbn.
      rewrite E2, E9, E11, E10, E3, E16. cbn. repeat split; auto.
      * intros k' Hk'. rewrite mark_failed_getjob by auto.
        assert (Eg : getjob k' (set_next m s3) = getjob k' s3) by (destruct k'; reflexivity).
        rewrite Eg. unfold s3. rewrite Hg. destruct k'; reflexivity.
      * rewrite <- Er. auto.
    + (* same for the other failure *)
      set (s1 := set_next (m + 1) s) in *.
      set (s2 := set_files (fadd (files s1) (FManifest, m)) s1).
      assert (H2 : Inv s2) by (apply set_files_Inv; auto; apply fadd_NoDup, (i_fl s H)).
      assert (Hn : needed s2 (FManifest, m) = false).
      { unfold needed. cbn. apply not_true_is_false. intro E. apply existsb_exists in E. destruct E as [v0 [Hv0 E]].
        apply N.eqb_eq in E. pose proof (i_v4 s H v0 Hv0) as E4. specialize (B _ E4). unfold m in *. lia. }
      pose proof (do_rm_Inv (FManifest, m) rmok RFailed s2 H2 (or_introl Hn)) as H3.
      destruct (do_rm_eq (FManifest, m) rmok RFailed s2) as (E1&E2&E3&E4&E5&E6&E7&E8&E9&E10&E11&E12&E13&E14&E15&E16&E17&E18&E19&_).
      pose proof (fun k => getjob_do_rm k (FManifest, m) rmok RFailed s2) as Hg.
      set (s3 := fst (do_rm (FManifest, m) rmok RFailed s2)) in *.
      assert (H4 : Inv (reuse_num m s3)).
      { apply reuse_Inv; auto.
        - rewrite E2. cbn. destruct (tget (tb s) m) eqn:Eg; auto. destruct (D m _ Eg). unfold m in *. lia.
        - rewrite E9. cbn. unfold m. lia.
        - rewrite E4. cbn. intros Em. specialize (B _ Em). unfold m in *. lia.
        - rewrite E10. cbn. intros Em. specialize (C _ Em). unfold m in *. lia.
        - rewrite E16. cbn. intros Hp. specialize (F _ Hp). unfold m in *. lia.
        - rewrite E8. cbn. intros v0 u Hv0 Hu ->. destruct (i_v7 s H v0 Hv0) as [_ L]. specialize (L _ Hu). unfold m in *. lia. }
      assert (Er : reuse_num m s3 = set_next m s3).
      { unfold reuse_num. rewrite E1. cbn. rewrite N.eqb_refl. reflexivity. }
      cbn [fst snd]. split; [apply mark_failed_Inv; auto|]. split; [discriminate|]. intros _.
      destruct (mark_failed_fields ko (reuse_num m s3)) as (M1&M2&M3&M4&M5&M6&M7&M8&M9).
      destruct (mark_failed_more ko (reuse_num m s3)) as (M10&M11&M12&_).
      unfold commit_fail_post. rewrite M1, M6, M8, M10, M11, M12, Er. cbn.
      rewrite E2, E9, E11, E10, E3, E16. cbn. repeat split; auto.
      * intros k' Hk'. rewrite mark_failed_getjob by auto.
        assert (Eg : getjob k' (set_next m s3) = getjob k' s3) by (destruct k'; reflexivity).
        rewrite Eg. unfold s3. rewrite Hg. destruct k'; reflexivity.
      * rewrite <- Er. auto.
  - (* flushManifest *)
    apply orb_false_iff in Epath. destruct Epath as [Epath _]. apply orb_false_iff in Epath. destruct Epath as [_ Emf].
    destruct (i_v2 s H Emf) as [v0 [Ev0 Hv0]].
    rewrite Ev0. cbn [hd].
    set (r := apply_rec v0 (outs_of ko s) dels jn (next s)).
    assert (Hv0in : In v0 (views s)) by (rewrite Ev0; left; auto).
    assert (Houts : forall t, In t (outs_of ko s) <-> exists k, ko = Some k /\ tget (tb s) t = Some (COut k)).
    { intros t. unfold outs_of. destruct ko as [k|].
      - rewrite outs_In by apply (i_k s H). split; [intros; exists k; auto | intros [k0 [E Ht]]; inversion E; subst; auto].
      - split; [intros [] | intros [k0 [E _]]; discriminate]. }
    assert (Hr_tabs : forall t, In t (v_tabs r) <->
              (tget (tb s) t = Some CTab /\ ~ In t dels) \/ (exists k, ko = Some k /\ tget (tb s) t = Some (COut k))).
    { intros t. unfold r, apply_rec. cbn. rewrite in_app_iff, filter_In, negb_true_iff, nmem_false, Hv0, Houts. tauto. }
    assert (Hr3 : v_prev r = None) by (apply (i_v3 s H v0 Hv0in)).
    assert (Hr4 : man s = Some (v_man r)) by (apply (i_v4 s H v0 Hv0in)).
    assert (Hr5 : v_jnum r <= journal s).
    { unfold r, apply_rec. cbn. destruct Hjn as [ -> | -> ]; [apply (proj1 (i_v5 s H) v0 Hv0in) | lia]. }
    assert (Hr6 : fdone s = true -> v_jnum r = journal s).
    { intros Ef. unfold r, apply_rec. cbn. destruct Hjn as [ -> | -> ]; auto. apply (proj1 (i_v6 s H Ef) v0 Hv0in). }
    assert (Hr8 : forall t, In t (v_tabs r) -> t < next s).
    { intros t Ht. apply Hr_tabs in Ht. destruct Ht as [[Ht _]|[k [_ Ht]]]; apply (D t _ Ht). }
    assert (Hr7 : view_wf r).
    { split; auto; try (unfold r, apply_rec; cbn; apply (B _ Hr4)). }
    destruct o.
    + (* success *)
      set (s2 := install ko dels jn s).
      destruct (install_core ko dels jn s H) as (K2&N2&H2&P2&J2). fold s2 in K2, N2, H2, P2, J2.
      destruct (install_fields ko dels jn s) as (F1&F2&F3&F4&F5&F6&F7&F8&F9&F10&F11&F12&F13&F14). fold s2 in F1,F2,F3,F4,F5,F6,F7,F8,F9,F10,F11,F12,F13,F14.
      assert (Hr_tab2 : forall t, In t (v_tabs r) <-> tget (tb s2) t = Some CTab).
      { intros t. rewrite Hr_tabs. symmetry. apply (install_tab ko dels jn s). }
      cbn [fst snd]. split; [|split; [|discriminate]].
      * constructor; cbn.
        -- rewrite F1. apply (i_fl s H).
        -- auto.
        -- rewrite F2, F8, F4, F9, F11. auto.
        -- rewrite F3. auto.
        -- rewrite F11. auto.
        -- intros k. assert (Eg : getjob k (set_views [r] s2) = getjob k s2) by (destruct k; reflexivity).
           rewrite Eg. apply J2.
        -- intros v t c. cbn. intros [ <- |[]] Ht Hc. left. apply Hr_tab2 in Ht. congruence.
        -- intros _. cbn. exists r. split; auto.
        -- intros v [ <- |[]]. auto.
        -- rewrite F4. intros v [ <- |[]]. auto.
        -- rewrite F8, F14. split; [intros v [ <- |[]]; auto | auto].
        -- rewrite F10, F8, F14. intros Ef. split; [intros v [ <- |[]]; auto | auto].
        -- rewrite F2. intros v [ <- |[]]. split; auto.
        -- rewrite F13. apply (i_t s H).
        -- rewrite F12. apply (i_o s H).
      * intros _. unfold commit_ok_post. cbn. rewrite F8, F10, F9, F3, F11, F6, F14.
        split; [|split; [|split; [|split]]].
        -- intros t c' Hc Hn1 Hn2. apply (install_back_same ko dels jn s t c'); auto.
        -- intros k Ek t Hc. subst ko. fold s2 in Hc.
           destruct (install_back (Some k) dels jn s _ _ Hc) as [c0 [Hc0 [E|[(_&E&_)|[k0 (_&_&E)]]]]]; try discriminate.
           subst c0. assert (Ht : tget (tb s2) t = Some CTab) by (apply (install_tab (Some k) dels jn s); right; exists k; auto).
           congruence.
        -- intros j Ej. rewrite Ej. split; auto. intros v [ <- |[]]. unfold r, apply_rec. cbn. rewrite Ej. auto.
        -- intros k. assert (Eg : getjob k (set_views [r] s2) = getjob k s2) by (destruct k; reflexivity).
           rewrite Eg. apply getjob_install.
        -- repeat split; auto.
    + (* nothing written *)
      cbn [fst snd]. split; [|split; [discriminate|]].
      * apply mark_failed_Inv. constructor; cbn; try apply H. intros E; discriminate.
      * intros _. destruct (mark_failed_fields ko (set_mfailed true s)) as (M1&M2&M3&M4&M5&M6&M7&M8&M9).
        destruct (mark_failed_more ko (set_mfailed true s)) as (M10&M11&M12&_).
        unfold commit_fail_post. rewrite M1, M6, M8, M10, M11, M12. cbn. repeat split; auto.
        intros k' Hk'. rewrite mark_failed_getjob by auto. destruct k'; reflexivity.
    + (* the record may or may not be found later *)
      cbn [fst snd].
      assert (Eswap : mark_failed ko (set_mfailed true (set_views ([v0] ++ [r]) s)) =
                      set_mfailed true (set_views (views (mark_failed ko s) ++ [r]) (mark_failed ko s))).
      { destruct (mark_failed_fields ko s) as (_&M2&_). rewrite M2, Ev0.
        destruct ko as [[]|]; reflexivity. }
      cbn [app] in Eswap |- *. rewrite Eswap.
      destruct (mark_failed_fields ko s) as (M1&M2&M3&M4&M5&M6&M7&M8&M9).
      destruct (mark_failed_more ko s) as (M10&M11&M12&_).
      split; [|split; [discriminate|]].
      * apply add_view_Inv; auto.
        -- apply mark_failed_Inv; auto.
        -- intros t c Ht. rewrite M1. intros Hc. apply Hr_tabs in Ht.
           destruct Ht as [[Ht _]|[k [Ek Ht]]]; [left; congruence|]. right. exists k. split; [congruence | auto].
        -- rewrite M5. auto.
        -- rewrite M6. auto.
        -- rewrite M8, M6. auto.
        -- rewrite M4. auto.
      * intros _. unfold commit_fail_post. cbn. rewrite M1, M6, M8, M10, M11, M12. repeat split; auto.
        intros k' Hk'. assert (Eg : forall x y z, getjob k' (set_mfailed x (set_views y z)) = getjob k' z) by (intros; destruct k'; reflexivity).
        rewrite Eg. apply mark_failed_getjob; auto.
Qed.
