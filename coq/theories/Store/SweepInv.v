(* Store/SweepInv.v — invariants of the step machine of Store/Sweep.v and the theorems about every
   sequence of steps: no Remove call ever hits a needed file (never_remove_needed) and what is on storage
   at a quiescent point (no_residue). *)
From Coq Require Import NArith PeanoNat List Bool Lia Permutation Sorted.
From GL Require Import Store.Sweep Store.SweepProofs.
Import ListNotations.
Open Scope N_scope.

Local Arguments N.eqb : simpl never.
Local Arguments N.leb : simpl never.
Local Arguments N.ltb : simpl never.
Local Arguments N.add : simpl never.
Local Arguments N.max : simpl never.

(* ---------- the table map ---------- *)

Lemma tget_In : forall m t c, tget m t = Some c -> In (t, c) m.
Proof.
  induction m as [|[t' c'] m IH]; cbn; intros t c H; [discriminate|].
  destruct (t =? t') eqn:E.
  - apply N.eqb_eq in E. inversion H; subst. auto.
  - right. apply IH; auto.
Qed.

Lemma In_tget : forall m t c, NoDup (map fst m) -> In (t, c) m -> tget m t = Some c.
Proof.
  induction m as [|[t' c'] m IH]; cbn; intros t c Hn H; [destruct H|].
  inversion Hn as [|x l Hnot Hn']; subst. destruct H as [H|H].
  - inversion H; subst. rewrite N.eqb_refl. reflexivity.
  - destruct (N.eqb_spec t t') as [E|E].
    + subst. exfalso. apply Hnot. apply in_map_iff. exists (t', c). auto.
    + apply IH; auto.
Qed.

Lemma tget_tdel_eq : forall m t, tget (tdel m t) t = None.
Proof.
  induction m as [|[t' c'] m IH]; cbn; intros t; auto.
  destruct (t =? t') eqn:E; cbn.
  - exact (IH t).
  - rewrite E. exact (IH t).
Qed.

Lemma tget_tdel_neq : forall m t u, t <> u -> tget (tdel m t) u = tget m u.
Proof.
  induction m as [|[t' c'] m IH]; cbn; intros t u H; auto.
  destruct (t =? t') eqn:E; cbn.
  - apply N.eqb_eq in E. subst. destruct (u =? t') eqn:E2; [apply N.eqb_eq in E2; congruence|].
    exact (IH t' u H).
  - destruct (u =? t'); auto. exact (IH t u H).
Qed.

Lemma tget_tdel : forall m t u, tget (tdel m t) u = if t =? u then None else tget m u.
Proof.
  intros. destruct (t =? u) eqn:E.
  - apply N.eqb_eq in E. subst. apply tget_tdel_eq.
  - apply N.eqb_neq in E. apply tget_tdel_neq; auto.
Qed.

Lemma tget_tset : forall m t c u, tget (tset m t c) u = if t =? u then Some c else tget m u.
Proof.
  intros. unfold tset. cbn. rewrite (N.eqb_sym u t). destruct (t =? u) eqn:E; auto.
  apply N.eqb_neq in E. apply tget_tdel_neq; auto.
Qed.

Lemma tdel_keys : forall m t x, In x (map fst (tdel m t)) <-> In x (map fst m) /\ x <> t.
Proof.
  intros. unfold tdel. rewrite !in_map_iff. split.
  - intros [[u c] [E H]]. cbn in E; subst. apply filter_In in H. destruct H as [H E]. cbn in E.
    rewrite negb_true_iff, N.eqb_neq in E. split; [exists (x, c); auto | congruence].
  - intros [[[u c] [E H]] Hn]. cbn in E; subst. exists (x, c). split; auto. apply filter_In. split; auto.
    cbn. rewrite negb_true_iff, N.eqb_neq. congruence.
Qed.

Lemma filter_keys_NoDup : forall (p : N * tclass -> bool) m, NoDup (map fst m) -> NoDup (map fst (filter p m)).
Proof.
  induction m as [|x m IH]; cbn; intros H; [constructor|]. inversion H; subst.
  destruct (p x); cbn; auto. constructor; auto.
  intro Hin. apply H2. apply in_map_iff in Hin. destruct Hin as [y [E Hy]]. apply filter_In in Hy.
  apply in_map_iff. exists y. tauto.
Qed.

Lemma tdel_NoDup : forall m t, NoDup (map fst m) -> NoDup (map fst (tdel m t)).
Proof. intros. unfold tdel. apply filter_keys_NoDup; auto. Qed.

Lemma tset_NoDup : forall m t c, NoDup (map fst m) -> NoDup (map fst (tset m t c)).
Proof.
  intros. unfold tset. cbn. constructor; [rewrite tdel_keys; tauto | apply tdel_NoDup; auto].
Qed.

Lemma retag_keys : forall f m, map fst (retag f m) = map fst m.
Proof. intros. unfold retag. rewrite map_map. reflexivity. Qed.

Lemma tget_retag : forall f m t, tget (retag f m) t = option_map (f t) (tget m t).
Proof.
  induction m as [|[t' c'] m IH]; cbn; intros t; auto.
  destruct (t =? t') eqn:E; auto. apply N.eqb_eq in E. subst. reflexivity.
Qed.

Lemma tget_filter_keys : forall (p : N -> bool) m t,
  tget (filter (fun x => p (fst x)) m) t = if p t then tget m t else None.
Proof.
  induction m as [|[t' c'] m IH]; cbn; intros t; [destruct (p t); auto|].
  destruct (p t') eqn:Ep; cbn.
  - destruct (t =? t') eqn:E; auto. apply N.eqb_eq in E. subst. rewrite Ep. auto.
  - destruct (t =? t') eqn:E; auto. apply N.eqb_eq in E. subst. rewrite IH, Ep. auto.
Qed.

Lemma keys_with_In : forall p m t, NoDup (map fst m) ->
  (In t (keys_with p m) <-> exists c, tget m t = Some c /\ p c = true).
Proof.
  intros p m t Hn. unfold keys_with. rewrite in_map_iff. split.
  - intros [[u c] [E H]]. cbn in E; subst. apply filter_In in H. destruct H as [H Hp]. exists c.
    split; auto. apply In_tget; auto.
  - intros [c [H Hp]]. exists (t, c). split; auto. apply filter_In. split; auto. apply tget_In; auto.
Qed.

Lemma tabs_of_In : forall m t, NoDup (map fst m) -> (In t (tabs_of m) <-> tget m t = Some CTab).
Proof.
  intros m t Hn. unfold tabs_of. rewrite keys_with_In by auto. split.
  - intros [c [H Hp]]. destruct c; try discriminate. auto.
  - intros H0. exists CTab. auto.
Qed.

Lemma jkind_eqb_eq : forall a b, jkind_eqb a b = true <-> a = b.
Proof. destruct a, b; cbn; split; congruence. Qed.

Lemma jkind_eqb_refl : forall a, jkind_eqb a a = true.
Proof. destruct a; reflexivity. Qed.

Lemma jkind_eqb_neq : forall a b, jkind_eqb a b = false <-> a <> b.
Proof. destruct a, b; cbn; split; congruence. Qed.
