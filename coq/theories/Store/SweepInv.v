(* Store/SweepInv.v — invariants of the step machine of Store/Sweep.v and the theorems about every
   sequence of steps: no Remove call ever hits a needed file (never_remove_needed) and what is on storage
   at a quiescent point (no_residue). *)
From Coq Require Import NArith PeanoNat List Bool Lia Permutation Sorted.
From GL Require Import Store.Sweep Store.SweepProofs.
Import ListNotations.
Open Scope N_scope.

Local Arguments N.eqb : simpl never.
Local Arguments N.leb : simpl never.
Local Arguments N.ltb : simpl never.
Local Arguments N.add : simpl never.
Local Arguments N.max : simpl never.

(* ---------- the table map ---------- *)

Lemma tget_In : forall m t c, tget m t = Some c -> In (t, c) m.
Proof.
  induction m as [|[t' c'] m IH]; cbn; intros t c H; [discriminate|].
  destruct (t =? t') eqn:E.
  - apply N.eqb_eq in E. inversion H; subst. auto.
  - right. apply IH; auto.
Qed.

Lemma In_tget : forall m t c, NoDup (map fst m) -> In (t, c) m -> tget m t = Some c.
Proof.
  induction m as [|[t' c'] m IH]; cbn; intros t c Hn H; [destruct H|].
  inversion Hn as [|x l Hnot Hn']; subst. destruct H as [H|H].
  - inversion H; subst. rewrite N.eqb_refl. reflexivity.
  - destruct (N.eqb_spec t t') as [E|E].
    + subst. exfalso. apply Hnot. apply in_map_iff. exists (t', c). auto.
    + apply IH; auto.
Qed.

Lemma tget_tdel_eq : forall m t, tget (tdel m t) t = None.
Proof.
  induction m as [|[t' c'] m IH]; cbn; intros t; auto.
  destruct (t =? t') eqn:E; cbn.
  - exact (IH t).
  - rewrite E. exact (IH t).
Qed.

Lemma tget_tdel_neq : forall m t u, t <> u -> tget (tdel m t) u = tget m u.
Proof.
  induction m as [|[t' c'] m IH]; cbn; intros t u H; auto.
  destruct (t =? t') eqn:E; cbn.
  - apply N.eqb_eq in E. subst. destruct (u =? t') eqn:E2; [apply N.eqb_eq in E2; congruence|].
    exact (IH t' u H).
  - destruct (u =? t'); auto. exact (IH t u H).
Qed.

Lemma tget_tdel : forall m t u, tget (tdel m t) u = if t =? u then None else tget m u.
Proof.
  intros. destruct (t =? u) eqn:E.
  - apply N.eqb_eq in E. subst. apply tget_tdel_eq.
  - apply N.eqb_neq in E. apply tget_tdel_neq; auto.
Qed.

Lemma tget_tset : forall m t c u, tget (tset m t c) u = if t =? u then Some c else tget m u.
Proof.
  intros. unfold tset. cbn. rewrite (N.eqb_sym u t). destruct (t =? u) eqn:E; auto.
  apply N.eqb_neq in E. apply tget_tdel_neq; auto.
Qed.

Lemma tdel_keys : forall m t x, In x (map fst (tdel m t)) <-> In x (map fst m) /\ x <> t.
Proof.
  intros. unfold tdel. rewrite !in_map_iff. split.
  - intros [[u c] [E H]]. cbn in E; subst. apply filter_In in H. destruct H as [H E]. cbn in E.
    rewrite negb_true_iff, N.eqb_neq in E. split; [exists (x, c); auto | congruence].
  - intros [[[u c] [E H]] Hn]. cbn in E; subst. exists (x, c). split; auto. apply filter_In. split; auto.
    cbn. rewrite negb_true_iff, N.eqb_neq. congruence.
Qed.

Lemma filter_keys_NoDup : forall (p : N * tclass -> bool) m, NoDup (map fst m) -> NoDup (map fst (filter p m)).
Proof.
  induction m as [|x m IH]; cbn; intros H; [constructor|]. inversion H; subst.
  destruct (p x); cbn; auto. constructor; auto.
  intro Hin. apply H2. apply in_map_iff in Hin. destruct Hin as [y [E Hy]]. apply filter_In in Hy.
  apply in_map_iff. exists y. tauto.
Qed.

Lemma tdel_NoDup : forall m t, NoDup (map fst m) -> NoDup (map fst (tdel m t)).
Proof. intros. unfold tdel. apply filter_keys_NoDup; auto. Qed.

Lemma tset_NoDup : forall m t c, NoDup (map fst m) -> NoDup (map fst (tset m t c)).
Proof.
  intros. unfold tset. cbn. constructor; [rewrite tdel_keys; tauto | apply tdel_NoDup; auto].
Qed.

Lemma retag_keys : forall f m, map fst (retag f m) = map fst m.
Proof. intros. unfold retag. rewrite map_map. reflexivity. Qed.

Lemma tget_retag : forall f m t, tget (retag f m) t = option_map (f t) (tget m t).
Proof.
  induction m as [|[t' c'] m IH]; cbn; intros t; auto.
  destruct (t =? t') eqn:E; auto. apply N.eqb_eq in E. subst. reflexivity.
Qed.

Lemma tget_filter_keys : forall (p : N -> bool) m t,
  tget (filter (fun x => p (fst x)) m) t = if p t then tget m t else None.
Proof.
  induction m as [|[t' c'] m IH]; cbn; intros t; [destruct (p t); auto|].
  destruct (p t') eqn:Ep; cbn.
  - destruct (t =? t') eqn:E; auto. apply N.eqb_eq in E. subst. rewrite Ep. auto.
  - destruct (t =? t') eqn:E; auto. apply N.eqb_eq in E. subst. rewrite IH, Ep. auto.
Qed.

Lemma keys_with_In : forall p m t, NoDup (map fst m) ->
  (In t (keys_with p m) <-> exists c, tget m t = Some c /\ p c = true).
Proof.
  intros p m t Hn. unfold keys_with. rewrite in_map_iff. split.
  - intros [[u c] [E H]]. cbn in E; subst. apply filter_In in H. destruct H as [H Hp]. exists c.
    split; auto. apply In_tget; auto.
  - intros [c [H Hp]]. exists (t, c). split; auto. apply filter_In. split; auto. apply tget_In; auto.
Qed.

Lemma tabs_of_In : forall m t, NoDup (map fst m) -> (In t (tabs_of m) <-> tget m t = Some CTab).
Proof.
  intros m t Hn. unfold tabs_of. rewrite keys_with_In by auto. split.
  - intros [c [H Hp]]. destruct c; try discriminate. auto.
  - intros H0. exists CTab. auto.
Qed.

Lemma jkind_eqb_eq : forall a b, jkind_eqb a b = true <-> a = b.
Proof. destruct a, b; cbn; split; congruence. Qed.

Lemma jkind_eqb_refl : forall a, jkind_eqb a a = true.
Proof. destruct a; reflexivity. Qed.

Lemma jkind_eqb_neq : forall a b, jkind_eqb a b = false <-> a <> b.
Proof. destruct a, b; cbn; split; congruence. Qed.

(* ---------- the invariant ---------- *)

Definition IN (nx jr : N) (mn fz : option N) (m : list (N * tclass)) (pn : list N) : Prop :=
  jr < nx /\ (forall x, mn = Some x -> x < nx) /\ (forall z, fz = Some z -> z < jr) /\
  (forall t c, tget m t = Some c -> t < nx /\ t <> jr /\ mn <> Some t /\ fz <> Some t) /\
  (forall t, In t pn -> t < nx).

Definition IH (hd : list (list N)) (m : list (N * tclass)) : Prop :=
  forall h t, In h hd -> In t h -> tget m t = Some CTab \/ tget m t = Some CObs.

Definition IP (pn : list N) (m : list (N * tclass)) : Prop :=
  forall t, In t pn -> forall k, tget m t <> Some (CCur k) /\ (k <> KTxn -> tget m t <> Some (COut k)).

Definition IJ (s : st) : Prop :=
  forall k, j_on (getjob k s) = false ->
  forall t, tget (tb s) t <> Some (COut k) /\ tget (tb s) t <> Some (CCur k).

Definition IV1 (s : st) : Prop :=
  forall v t c, In v (views s) -> In t (v_tabs v) -> tget (tb s) t = Some c ->
  c = CTab \/ exists k, c = COut k /\ j_cfail (getjob k s) = true.

Definition IV2 (s : st) : Prop :=
  mfailed s = false -> exists v, views s = [v] /\ forall t, In t (v_tabs v) <-> tget (tb s) t = Some CTab.

Definition IV3 (vs : list view) : Prop := forall v, In v vs -> v_prev v = None.
Definition IV4 (vs : list view) (mn : option N) : Prop := forall v, In v vs -> mn = Some (v_man v).
Definition IV5 (vs : list view) (jr sj : N) : Prop := (forall v, In v vs -> v_jnum v <= jr) /\ sj <= jr.
Definition IV6 (fd : bool) (vs : list view) (jr sj : N) : Prop :=
  fd = true -> (forall v, In v vs -> v_jnum v = jr) /\ sj = jr.
Definition view_wf (v : view) : Prop := v_man v < v_next v /\ forall t, In t (v_tabs v) -> t < v_next v.
Definition IV7 (vs : list view) (nx : N) : Prop :=
  forall v, In v vs -> view_wf v /\ forall t, In t (v_tabs v) -> t < nx.
Definition IT (tr : list (fd * bool)) : Prop := forall f b, In (f, b) tr -> b = false \/ f = (FJournal, 0).

Record Inv (s : st) : Prop := {
  i_fl : NoDup (files s);
  i_k : NoDup (map fst (tb s));
  i_n : IN (next s) (journal s) (man s) (frozen s) (tb s) (pins s);
  i_h : IH (held s) (tb s);
  i_p : IP (pins s) (tb s);
  i_j : IJ s;
  i_v1 : IV1 s;
  i_v2 : IV2 s;
  i_v3 : IV3 (views s);
  i_v4 : IV4 (views s) (man s);
  i_v5 : IV5 (views s) (journal s) (sjnum s);
  i_v6 : IV6 (fdone s) (views s) (journal s) (sjnum s);
  i_v7 : IV7 (views s) (next s);
  i_t : IT (trace s);
  i_o : opened s = true }.

Record InvC (s : st) : Prop := {
  c_fl : NoDup (files s);
  c_v : forall v, In v (views s) -> view_wf v;
  c_t : IT (trace s);
  c_o : opened s = false }.

Definition Good (s : st) : Prop := if opened s then Inv s else InvC s.

(* ---------- needed, Remove calls ---------- *)

Lemma needed_table_false : forall s t,
  NoDup (map fst (tb s)) ->
  tget (tb s) t <> Some CTab ->
  (forall h, In h (held s) -> ~ In t h) ->
  (forall v, In v (views s) -> ~ In t (v_tabs v)) ->
  ~ In t (pins s) ->
  needed s (FTable, t) = false.
Proof.
  intros s t Hk Ht Hh Hv Hp. cbn.
  repeat rewrite orb_false_iff. repeat split.
  - apply nmem_false. rewrite tabs_of_In; auto.
  - apply not_true_is_false. intro E. apply existsb_exists in E. destruct E as [h [Hin E]].
    apply nmem_In in E. apply (Hh h); auto.
  - apply not_true_is_false. intro E. apply existsb_exists in E. destruct E as [v [Hin E]].
    apply nmem_In in E. apply (Hv v); auto.
  - apply nmem_false; auto.
Qed.

Local Arguments tget : simpl never.
Local Arguments tset : simpl never.
Local Arguments tdel : simpl never.
Local Arguments retag : simpl never.
Local Arguments keys_with : simpl never.
Local Arguments tabs_of : simpl never.
Local Arguments fadd : simpl never.
Local Arguments fdel : simpl never.
Local Arguments fmem : simpl never.
Local Arguments nmem : simpl never.
Local Arguments needed : simpl never.
Local Arguments jsel : simpl never.

Lemma IT_cons : forall tr f b, IT tr -> (b = false \/ f = (FJournal, 0)) -> IT ((f, b) :: tr).
Proof. intros tr f b H Hb g c [E|Hin]; [inversion E; subst; auto | apply (H g c); auto]. Qed.

(* effect of one Remove call on the fields *)
Lemma do_rm_eq : forall f ok why s,
  let s' := fst (do_rm f ok why s) in
  next s' = next s /\ tb s' = tb s /\ held s' = held s /\ man s' = man s /\ hasman s' = hasman s /\
  mfailed s' = mfailed s /\ sjnum s' = sjnum s /\ views s' = views s /\ journal s' = journal s /\
  frozen s' = frozen s /\ fdone s' = fdone s /\ fempty s' = fempty s /\ jf s' = jf s /\ jc s' = jc s /\
  jt s' = jt s /\ pins s' = pins s /\ opened s' = opened s /\ reuse s' = reuse s /\
  trace s' = (f, needed s f) :: trace s /\
  (files s' = files s \/ files s' = fdel (files s) f).
Proof.
  intros. unfold do_rm in s'. subst s'.
  destruct (fmem (files s) f); [destruct ok|]; cbn; repeat split; auto.
Qed.

Lemma do_rm_files_NoDup : forall f ok why s, NoDup (files s) -> NoDup (files (fst (do_rm f ok why s))).
Proof.
  intros. destruct (do_rm_eq f ok why s) as (_&_&_&_&_&_&_&_&_&_&_&_&_&_&_&_&_&_&_&[E|E]); rewrite E; auto.
  apply fdel_NoDup; auto.
Qed.

Lemma getjob_do_rm : forall k f ok why s, getjob k (fst (do_rm f ok why s)) = getjob k s.
Proof.
  intros. destruct (do_rm_eq f ok why s) as (_&_&_&_&_&_&_&_&_&_&_&_&Ef&Ec&Et&_).
  destruct k; cbn; auto.
Qed.

(* a Remove call keeps the invariant, provided the file is not needed at that moment *)
Lemma do_rm_Inv : forall f ok why s, Inv s -> (needed s f = false \/ f = (FJournal, 0)) ->
  Inv (fst (do_rm f ok why s)).
Proof.
  intros f ok why s H Hn.
  pose proof (do_rm_files_NoDup f ok why s (i_fl s H)) as Hfl.
  pose proof (getjob_do_rm) as Hg.
  destruct (do_rm_eq f ok why s) as (E1&E2&E3&E4&E5&E6&E7&E8&E9&E10&E11&E12&E13&E14&E15&E16&E17&E18&E19&_).
  constructor; auto.
  - rewrite E2. apply (i_k s H).
  - rewrite E1, E9, E4, E10, E2, E16. apply (i_n s H).
  - rewrite E3, E2. apply (i_h s H).
  - rewrite E16, E2. apply (i_p s H).
  - intros k. rewrite Hg, E2. apply (i_j s H).
  - intros v t c. rewrite E8, E2. intros Hv Ht Hc. destruct (i_v1 s H v t c Hv Ht Hc) as [|[k [Ek Hk]]]; auto.
    right. exists k. rewrite Hg. auto.
  - unfold IV2. rewrite E6, E8, E2. apply (i_v2 s H).
  - rewrite E8. apply (i_v3 s H).
  - rewrite E8, E4. apply (i_v4 s H).
  - rewrite E8, E9, E7. apply (i_v5 s H).
  - rewrite E11, E8, E9, E7. apply (i_v6 s H).
  - rewrite E8, E1. apply (i_v7 s H).
  - rewrite E19. apply IT_cons; auto. apply (i_t s H).
  - rewrite E17. apply (i_o s H).
Qed.

Lemma getjob_set_tb : forall k x s, getjob k (set_tb x s) = getjob k s.
Proof. destruct k; reflexivity. Qed.
Lemma getjob_set_next : forall k x s, getjob k (set_next x s) = getjob k s.
Proof. destruct k; reflexivity. Qed.

(* a table that is in no version, no view and held by no reader leaves the map *)
Lemma del_table_Inv : forall s t c, Inv s ->
  tget (tb s) t = Some c -> c <> CTab ->
  (forall h, In h (held s) -> ~ In t h) ->
  (forall v, In v (views s) -> ~ In t (v_tabs v)) ->
  ~ In t (pins s) ->
  Inv (set_tb (tdel (tb s) t) s) /\ needed (set_tb (tdel (tb s) t) s) (FTable, t) = false.
Proof.
  intros s t c H Hc Hnt Hh Hv Hp.
  assert (Hget : forall u, tget (tdel (tb s) t) u = if t =? u then None else tget (tb s) u) by (intros; apply tget_tdel).
  assert (Hsub : forall u d, tget (tdel (tb s) t) u = Some d -> tget (tb s) u = Some d /\ u <> t).
  { intros u d. rewrite Hget. destruct (N.eqb_spec t u); [discriminate|]. intros; split; auto. }
  split.
  - constructor; cbn.
    + apply (i_fl s H).
    + apply tdel_NoDup, (i_k s H).
    + destruct (i_n s H) as (A&B&C&D&E). split; [|split; [|split; [|split]]]; auto.
      intros u d Hu. apply Hsub in Hu. destruct Hu as [Hu _]. apply (D u d Hu).
    + intros h u Hin Hu. rewrite Hget. destruct (N.eqb_spec t u) as [->|].
      * exfalso. apply (Hh h); auto.
      * apply (i_h s H h u); auto.
    + intros u Hu k. rewrite Hget. destruct (N.eqb_spec t u); [split; [discriminate | intros; discriminate]|].
      apply (i_p s H u Hu k).
    + intros k. rewrite getjob_set_tb. cbn. intros Hoff u. rewrite Hget.
      destruct (N.eqb_spec t u); [split; discriminate|]. apply (i_j s H k Hoff u).
    + intros v u d. cbn. intros Hin Hu Hd. apply Hsub in Hd. destruct Hd as [Hd _].
      destruct (i_v1 s H v u d Hin Hu Hd) as [|[k [Ek Hk]]]; auto. right. exists k. rewrite getjob_set_tb. auto.
    + intros Hm. cbn in Hm. destruct (i_v2 s H Hm) as [v [Ev Hiff]]. exists v. cbn. split; auto.
      intros u. rewrite Hget, Hiff. destruct (N.eqb_spec t u) as [->|]; [|tauto].
      split; [|discriminate]. intro Hu. exfalso. apply (Hv v); [rewrite Ev; left; auto|]. apply Hiff; auto.
    + apply (i_v3 s H).
    + apply (i_v4 s H).
    + apply (i_v5 s H).
    + apply (i_v6 s H).
    + apply (i_v7 s H).
    + apply (i_t s H).
    + apply (i_o s H).
  - apply needed_table_false; cbn; auto.
    + apply tdel_NoDup, (i_k s H).
    + rewrite tget_tdel_eq. discriminate.
Qed.

(* reuseFileNum of a number nothing refers to any more *)
Lemma reuse_Inv : forall s t, Inv s ->
  tget (tb s) t = None -> t <> journal s -> man s <> Some t -> frozen s <> Some t -> ~ In t (pins s) ->
  (forall v u, In v (views s) -> In u (v_tabs v) -> u <> t) ->
  Inv (reuse_num t s).
Proof.
  intros s t H Hg Hj Hm Hf Hp Hv. unfold reuse_num. destruct (N.eqb_spec (next s) (t + 1)) as [E|E]; auto.
  constructor; cbn; try apply H.
  - destruct (i_n s H) as (A&B&C&D&F). split; [|split; [|split; [|split]]]; auto.
    + lia.
    + intros x Hx. specialize (B x Hx). assert (x <> t) by congruence. lia.
    + intros u d Hu. destruct (D u d Hu) as (D1&D2&D3&D4). assert (u <> t) by (intro; subst; congruence).
      repeat split; auto. lia.
    + intros u Hu. specialize (F u Hu). assert (u <> t) by (intro; subst; auto). lia.
  - intros v Hin. destruct (i_v7 s H v Hin) as [W L]. split; auto.
    intros u Hu. specialize (L u Hu). specialize (Hv v u Hin Hu). lia.
Qed.

Lemma del_func_Inv : forall s t c ok, Inv s ->
  tget (tb s) t = Some c -> c <> CTab ->
  (forall h, In h (held s) -> ~ In t h) ->
  (forall v, In v (views s) -> ~ In t (v_tabs v)) ->
  ~ In t (pins s) ->
  Inv (del_func t ok s).
Proof.
  intros s t c ok H Hc Hnt Hh Hv Hp. unfold del_func.
  destruct (del_table_Inv s t c H Hc Hnt Hh Hv Hp) as [H1 Hn].
  set (s1 := set_tb (tdel (tb s) t) s) in *.
  pose proof (do_rm_Inv (FTable, t) ok RFailed s1 H1 (or_introl Hn)) as H2.
  destruct (do_rm_eq (FTable, t) ok RFailed s1) as (E1&E2&E3&E4&E5&E6&E7&E8&E9&E10&E11&E12&E13&E14&E15&E16&E17&E18&E19&_).
  set (s2 := fst (do_rm (FTable, t) ok RFailed s1)) in *.
  destruct (reuse s2); auto.
  destruct (i_n s H) as (_&_&_&D&_). destruct (D t c Hc) as (_&D2&D3&D4).
  apply reuse_Inv; auto.
  - rewrite E2. subst s1. cbn. apply tget_tdel_eq.
  - rewrite E9. auto.
  - rewrite E4. auto.
  - rewrite E10. auto.
  - rewrite E16. auto.
  - rewrite E8. intros v u Hin Hu ->. apply (Hv v); auto.
Qed.

Lemma bump_next_Inv : forall s n, Inv s -> next s <= n -> Inv (set_next n s).
Proof.
  intros s n H Hle. constructor; cbn; try apply H.
  - destruct (i_n s H) as (A&B&C&D&F). split; [|split; [|split; [|split]]]; auto.
    + lia.
    + intros x Hx. specialize (B x Hx). lia.
    + intros u d Hu. destruct (D u d Hu) as (D1&D2&D3&D4). repeat split; auto. lia.
    + intros u Hu. specialize (F u Hu). lia.
  - intros v Hin. destruct (i_v7 s H v Hin) as [W L]. split; auto. intros u Hu. specialize (L u Hu). lia.
Qed.

Lemma set_files_Inv : forall s x, Inv s -> NoDup x -> Inv (set_files x s).
Proof. intros s x H Hx. constructor; cbn; try apply H. auto. Qed.

Lemma set_residue_Inv : forall s x, Inv s -> Inv (set_residue x s).
Proof. intros s x H. constructor; cbn; apply H. Qed.

(* a table outside every version and view gets a class other than CTab *)
Lemma set_class_Inv : forall s t c', Inv s ->
  t < next s -> t <> journal s -> man s <> Some t -> frozen s <> Some t ->
  (forall h, In h (held s) -> ~ In t h) ->
  (forall v, In v (views s) -> ~ In t (v_tabs v)) ->
  c' <> CTab ->
  (forall k, c' = CCur k \/ c' = COut k -> j_on (getjob k s) = true) ->
  (In t (pins s) -> forall k, c' <> CCur k /\ (k <> KTxn -> c' <> COut k)) ->
  Inv (set_tb (tset (tb s) t c') s).
Proof.
  intros s t c' H L1 L2 L3 L4 Hh Hv Hnt Hon Hpin.
  assert (Hget : forall u, tget (tset (tb s) t c') u = if t =? u then Some c' else tget (tb s) u) by (intros; apply tget_tset).
  constructor; cbn; try apply H.
  - apply tset_NoDup, (i_k s H).
  - destruct (i_n s H) as (A&B&C&D&F). split; [|split; [|split; [|split]]]; auto.
    intros u d. rewrite Hget. destruct (N.eqb_spec t u) as [ <- | ]; [intros _; repeat split; auto | intros Hd; apply (D u d Hd)].
  - intros h u Hin Hu. rewrite Hget. destruct (N.eqb_spec t u) as [ <- | ]; [exfalso; apply (Hh h); auto|].
    apply (i_h s H h u); auto.
  - intros u Hu k. rewrite Hget. destruct (N.eqb_spec t u) as [ <- | ]; [|apply (i_p s H u Hu k)].
    destruct (Hpin Hu k) as [P1 P2]. split; [congruence|]. intros Hk E. apply (P2 Hk). congruence.
  - intros k. rewrite getjob_set_tb. cbn. intros Hoff u. rewrite Hget.
    destruct (N.eqb_spec t u) as [ <- | ]; [|apply (i_j s H k Hoff u)].
    split; intro E; inversion E; subst; rewrite Hon in Hoff; auto; discriminate.
  - intros v u d Hin Hu. cbn. rewrite Hget. destruct (N.eqb_spec t u) as [ <- | ]; [exfalso; apply (Hv v); auto|].
    intros Hd. destruct (i_v1 s H v u d Hin Hu Hd) as [|[k [Ek Hk]]]; auto. right. exists k. rewrite getjob_set_tb. auto.
  - intros Hm. cbn in Hm. destruct (i_v2 s H Hm) as [v [Ev Hiff]]. exists v. cbn. split; auto.
    intros u. rewrite Hget, Hiff. destruct (N.eqb_spec t u) as [ <- | ]; [|tauto].
    split; [|congruence]. intro Hu. exfalso. apply (Hv v); [rewrite Ev; left; auto|]. apply Hiff; auto.
Qed.

(* ---------- small facts used by the steps ---------- *)

Lemma cur_of_Some : forall k s t, NoDup (map fst (tb s)) -> cur_of k s = Some t -> tget (tb s) t = Some (CCur k).
Proof.
  intros k s t Hn. unfold cur_of. destruct (keys_with (is_cur k) (tb s)) as [|u l] eqn:E; [discriminate|].
  intros H; inversion H; subst.
  assert (Hin : In t (keys_with (is_cur k) (tb s))) by (rewrite E; left; auto).
  apply keys_with_In in Hin; auto. destruct Hin as [c [Hc Hp]]. destruct c; try discriminate.
  cbn in Hp. apply jkind_eqb_eq in Hp. subst. auto.
Qed.

Lemma cur_of_None : forall k s t, NoDup (map fst (tb s)) -> cur_of k s = None -> tget (tb s) t <> Some (CCur k).
Proof.
  intros k s t Hn. unfold cur_of. destruct (keys_with (is_cur k) (tb s)) as [|u l] eqn:E; [|discriminate].
  intros _ Hc. assert (Hin : In t (keys_with (is_cur k) (tb s))).
  { apply keys_with_In; auto. exists (CCur k). split; auto. cbn. apply jkind_eqb_refl. }
  rewrite E in Hin. destruct Hin.
Qed.

Lemma outs_In : forall k m t, NoDup (map fst m) -> (In t (keys_with (is_out k) m) <-> tget m t = Some (COut k)).
Proof.
  intros k m t Hn. rewrite keys_with_In by auto. split.
  - intros [c [Hc Hp]]. destruct c; try discriminate. cbn in Hp. apply jkind_eqb_eq in Hp. subst. auto.
  - intros H. exists (COut k). split; auto. cbn. apply jkind_eqb_refl.
Qed.

Lemma nremove1_In : forall l x y, In y (nremove1 l x) -> In y l.
Proof.
  induction l as [|z l IH]; cbn; intros x y H; auto.
  destruct (x =? z); [right; auto|]. destruct H; [left; auto | right; eapply IH; eauto].
Qed.

Lemma remove_nth_In : forall (A : Type) i (l : list A) y, In y (remove_nth i l) -> In y l.
Proof.
  induction i; destruct l; cbn; intros y H; auto. destruct H; [left; auto | right; auto].
Qed.

Lemma getjob_setjob_eq : forall k j s, getjob k (setjob k j s) = j.
Proof. destruct k; reflexivity. Qed.

Lemma getjob_setjob_neq : forall k k' j s, k <> k' -> getjob k' (setjob k j s) = getjob k' s.
Proof. destruct k, k'; intros; try congruence; reflexivity. Qed.

Lemma setjob_fields : forall k j s,
  files (setjob k j s) = files s /\ next (setjob k j s) = next s /\ tb (setjob k j s) = tb s /\
  held (setjob k j s) = held s /\ man (setjob k j s) = man s /\ mfailed (setjob k j s) = mfailed s /\
  sjnum (setjob k j s) = sjnum s /\ views (setjob k j s) = views s /\ journal (setjob k j s) = journal s /\
  frozen (setjob k j s) = frozen s /\ fdone (setjob k j s) = fdone s /\ pins (setjob k j s) = pins s /\
  opened (setjob k j s) = opened s /\ trace (setjob k j s) = trace s.
Proof. destruct k; cbn; repeat split; reflexivity. Qed.

(* replacing a job record: the job-related parts of the invariant under the new record *)
Lemma setjob_Inv : forall k j s, Inv s ->
  (j_on j = false -> forall t, tget (tb s) t <> Some (COut k) /\ tget (tb s) t <> Some (CCur k)) ->
  (j_cfail j = false -> forall v t, In v (views s) -> In t (v_tabs v) -> tget (tb s) t <> Some (COut k)) ->
  Inv (setjob k j s).
Proof.
  intros k j s H Hon Hcf.
  destruct (setjob_fields k j s) as (E1&E2&E3&E4&E5&E6&E7&E8&E9&E10&E11&E12&E13&E14).
  constructor.
  - rewrite E1. apply H.
  - rewrite E3. apply H.
  - rewrite E2, E9, E5, E10, E3, E12. apply H.
  - rewrite E4, E3. apply H.
  - rewrite E12, E3. apply H.
  - intros k'. rewrite E3. destruct (jkind_eqb k k') eqn:Ek.
    + apply jkind_eqb_eq in Ek. subst k'. rewrite getjob_setjob_eq. auto.
    + apply jkind_eqb_neq in Ek. rewrite getjob_setjob_neq by auto. apply (i_j s H).
  - intros v t c. rewrite E8, E3. intros Hv Ht Hc.
    destruct (i_v1 s H v t c Hv Ht Hc) as [|[k' [Ec Hk]]]; auto. right. exists k'. split; auto.
    destruct (jkind_eqb k k') eqn:Ek.
    + apply jkind_eqb_eq in Ek. subst k'. rewrite getjob_setjob_eq.
      destruct (j_cfail j) eqn:Ej; auto. exfalso. apply (Hcf eq_refl v t Hv Ht). congruence.
    + apply jkind_eqb_neq in Ek. rewrite getjob_setjob_neq by auto. auto.
  - unfold IV2. rewrite E6, E8, E3. apply H.
  - rewrite E8. apply H.
  - rewrite E8, E5. apply H.
  - rewrite E8, E9, E7. apply H.
  - rewrite E11, E8, E9, E7. apply H.
  - rewrite E8, E2. apply H.
  - rewrite E14. apply H.
  - rewrite E13. apply H.
Qed.

Lemma set_pins_Inv : forall s x, Inv s ->
  (forall t, In t x -> t < next s) -> IP x (tb s) -> Inv (set_pins x s).
Proof.
  intros s x H Hlt Hp. constructor; cbn; try apply H; auto.
  destruct (i_n s H) as (A&B&C&D&F). split; [|split; [|split; [|split]]]; auto.
Qed.

Lemma set_held_Inv : forall s x, Inv s -> IH x (tb s) -> Inv (set_held x s).
Proof. intros s x H Hh. constructor; cbn; try apply H; auto. Qed.

(* ---------- the steps of a running DB ---------- *)

Lemma held_class : forall s t h, Inv s -> In h (held s) -> In t h ->
  tget (tb s) t = Some CTab \/ tget (tb s) t = Some CObs.
Proof. intros. eapply (i_h s H); eauto. Qed.

Lemma not_held : forall s t c, Inv s -> tget (tb s) t = Some c -> c <> CTab -> c <> CObs ->
  forall h, In h (held s) -> ~ In t h.
Proof. intros s t c H Hc H1 H2 h Hh Ht. destruct (held_class s t h H Hh Ht); congruence. Qed.

Lemma not_viewed : forall s t c, Inv s -> tget (tb s) t = Some c -> c <> CTab ->
  (forall k, c = COut k -> j_cfail (getjob k s) = false) ->
  forall v, In v (views s) -> ~ In t (v_tabs v).
Proof.
  intros s t c H Hc H1 H2 v Hv Ht. destruct (i_v1 s H v t c Hv Ht Hc) as [|[k [E Hk]]]; [congruence|].
  rewrite (H2 k E) in Hk. discriminate.
Qed.

Lemma step_pin : forall s t s', Inv s -> step s (OPin t) = Some s' -> Inv s'.
Proof.
  intros s t s' H. cbn. destruct (opened s); cbn; [|discriminate].
  destruct (tget (tb s) t) as [c|] eqn:Ec; [|discriminate].
  assert (Hlt : t < next s) by (destruct (i_n s H) as (_&_&_&D&_); apply (D t c Ec)).
  assert (Hgo : (c = CTab \/ c = CObs \/ c = COut KTxn) -> Inv (set_pins (t :: pins s) s)).
  { intros Hc. apply set_pins_Inv; auto.
    - intros u [ <- | Hu]; auto. destruct (i_n s H) as (_&_&_&_&F). auto.
    - intros u [ <- | Hu] k; [|apply (i_p s H u Hu k)]. rewrite Ec.
      destruct Hc as [ -> | [ -> | -> ] ]; split; try congruence. }
  destruct c as [| | |k|k]; try discriminate.
  - intros E; inversion E; subst; apply Hgo; auto.
  - destruct (existsb _ _); [|discriminate]. intros E; inversion E; subst; apply Hgo; auto.
  - destruct k; try discriminate. intros E; inversion E; subst; apply Hgo; auto.
Qed.

Lemma step_unpin : forall s t ok s', Inv s -> step s (OUnpin t ok) = Some s' -> Inv s'.
Proof.
  intros s t ok s' H. cbn. destruct (opened s); cbn; [|discriminate].
  destruct (nmem (pins s) t) eqn:Ep; [|discriminate].
  assert (H1 : Inv (set_pins (nremove1 (pins s) t) s)).
  { apply set_pins_Inv; auto.
    - intros u Hu. apply nremove1_In in Hu. destruct (i_n s H) as (_&_&_&_&F). auto.
    - intros u Hu. apply nremove1_In in Hu. apply (i_p s H u Hu). }
  cbn. destruct (tget (tb s) t) as [c|] eqn:Ec; [|intros E; inversion E; subst; auto].
  destruct c; try (intros E; inversion E; subst; auto; fail).
  destruct (nmem (nremove1 (pins s) t) t) eqn:Ep2; intros E; inversion E; subst; auto.
  apply (del_func_Inv _ t CPend); auto; cbn.
  - discriminate.
  - apply (not_held s t CPend); auto; discriminate.
  - apply (not_viewed s t CPend); auto; discriminate.
  - apply nmem_false; auto.
Qed.

Lemma step_acquire : forall s s', Inv s -> step s OAcquire = Some s' -> Inv s'.
Proof.
  intros s s' H. cbn. destruct (opened s); [|discriminate]. intros E; inversion E; subst.
  apply set_held_Inv; auto. intros h t [ <- | Hh] Ht; [|eapply (i_h s H); eauto].
  left. apply tabs_of_In; auto. apply (i_k s H).
Qed.

Lemma step_release : forall s i s', Inv s -> step s (ORelease i) = Some s' -> Inv s'.
Proof.
  intros s i s' H. cbn. destruct (opened s && _); [|discriminate]. intros E; inversion E; subst.
  apply set_held_Inv; auto. intros h t Hh Ht. apply remove_nth_In in Hh. eapply (i_h s H); eauto.
Qed.

Lemma step_begin : forall s k dels s', Inv s -> step s (OBegin k dels) = Some s' -> Inv s'.
Proof.
  intros s k dels s' H. cbn. destruct (opened s); cbn; [|discriminate].
  destruct (j_on (getjob k s)) eqn:Eon; cbn; [discriminate|].
  destruct (match k with KFlush => _ | KComp => _ | KTxn => _ end); [|discriminate].
  intros E; inversion E; subst. apply setjob_Inv; auto; cbn; [discriminate|].
  intros _ v t _ _. apply (i_j s H k Eon t).
Qed.

Lemma step_finish : forall s k s', Inv s -> step s (OFinish k) = Some s' -> Inv s'.
Proof.
  intros s k s' H. cbn. destruct (cur_of k s) as [t|] eqn:Ec; [|discriminate].
  destruct (opened s); [|discriminate]. intros E; inversion E; subst.
  apply cur_of_Some in Ec; [|apply (i_k s H)].
  destruct (i_n s H) as (_&_&_&D&_). destruct (D t _ Ec) as (D1&D2&D3&D4).
  assert (Hon : j_on (getjob k s) = true).
  { destruct (j_on (getjob k s)) eqn:Eon; auto. exfalso. apply (i_j s H k Eon t). auto. }
  apply set_class_Inv; auto.
  - apply (not_held s t (CCur k)); auto; discriminate.
  - apply (not_viewed s t (CCur k)); auto; discriminate.
  - discriminate.
  - intros k' [E'|E']; inversion E'; subst; auto.
  - intros Hp. exfalso. destruct (i_p s H t Hp k) as [P _]. apply P; auto.
Qed.

Lemma step_create : forall s k ok s', Inv s -> step s (OCreate k ok) = Some s' -> Inv s'.
Proof.
  intros s k ok s' H. cbn. destruct (opened s); cbn; [|discriminate].
  destruct (j_on (getjob k s)) eqn:Eon; cbn; [|discriminate].
  destruct (negb (j_cfail (getjob k s)) || jkind_eqb k KTxn); cbn; [|discriminate].
  destruct (cur_of k s); [discriminate|].
  assert (H1 : Inv (set_next (next s + 1) s)) by (apply bump_next_Inv; auto; lia).
  destruct ok; intros E; inversion E; subst; auto.
  set (t := next s) in *.
  assert (Hfresh : tget (tb s) t = None).
  { destruct (tget (tb s) t) eqn:Eg; auto. destruct (i_n s H) as (_&_&_&D&_). destruct (D t _ Eg). unfold t in *. lia. }
  destruct (i_n s H) as (A&B&C&D&F).
  assert (H2 : Inv (set_residue (filter (fun x => negb (fd_eqb (FTable, t) (fst x))) (residue (set_next (t + 1) s)))
                     (set_files (fadd (files (set_next (t + 1) s)) (FTable, t)) (set_next (t + 1) s)))).
  { apply set_residue_Inv, set_files_Inv; auto. cbn. apply fadd_NoDup, (i_fl s H). }
  apply (set_class_Inv _ t (CCur k)) in H2; cbn in *; auto.
  - unfold t. lia.
  - unfold t. lia.
  - intros E1. specialize (B t E1). unfold t in B. lia.
  - intros E1. specialize (C t E1). unfold t in *. lia.
  - intros h Hh Ht. destruct (i_h s H h t Hh Ht); congruence.
  - intros v Hv Ht. destruct (i_v7 s H v Hv) as [_ L]. specialize (L t Ht). unfold t in L. lia.
  - discriminate.
  - intros k' [E'|E']; inversion E'; subst. destruct k'; auto.
  - intros Hp. specialize (F t Hp). unfold t in F. lia.
Qed.

Lemma step_drop : forall s k ok s', Inv s -> step s (ODrop k ok) = Some s' -> Inv s'.
Proof.
  intros s k ok s' H. cbn. destruct (cur_of k s) as [t|] eqn:Ec; [|discriminate].
  destruct (opened s); [|discriminate].
  apply cur_of_Some in Ec; [|apply (i_k s H)].
  assert (Hh : forall h, In h (held s) -> ~ In t h) by (apply (not_held s t (CCur k)); auto; discriminate).
  assert (Hv : forall v, In v (views s) -> ~ In t (v_tabs v)) by (apply (not_viewed s t (CCur k)); auto; discriminate).
  assert (Hp : ~ In t (pins s)) by (intro Hp; destruct (i_p s H t Hp k) as [P _]; apply P; auto).
  destruct (del_table_Inv s t (CCur k) H Ec ltac:(discriminate) Hh Hv Hp) as [H1 Hn].
  set (s1 := set_tb (tdel (tb s) t) s) in *.
  pose proof (do_rm_Inv (FTable, t) ok RFailed s1 H1 (or_introl Hn)) as H2.
  destruct (do_rm_eq (FTable, t) ok RFailed s1) as (E1&E2&E3&E4&E5&E6&E7&E8&E9&E10&E11&E12&E13&E14&E15&E16&E17&E18&E19&_).
  destruct (do_rm (FTable, t) ok RFailed s1) as [s2 done]. cbn in *.
  destruct done; intros E; inversion E; subst; auto.
  destruct (i_n s H) as (_&_&_&D&_). destruct (D t _ Ec) as (_&D2&D3&D4).
  apply reuse_Inv; auto.
  - rewrite E2. subst s1. cbn. apply tget_tdel_eq.
  - rewrite E9. auto.
  - rewrite E4. auto.
  - rewrite E10. auto.
  - rewrite E16. auto.
  - rewrite E8. intros v u Hin Hu ->. apply (Hv v); auto.
Qed.

Lemma step_rotate : forall s ok empty s', Inv s -> step s (ORotate ok empty) = Some s' -> Inv s'.
Proof.
  intros s ok empty s' H. cbn. destruct (opened s); cbn; [|discriminate].
  destruct (negb (j_on (jt s))); cbn; [|discriminate].
  destruct (frozen s) eqn:Ef; [discriminate|].
  destruct (i_n s H) as (A&B&C&D&F).
  destruct ok; intros E; inversion E; subst; clear E.
  - constructor; cbn; try apply H.
    + apply fadd_NoDup, (i_fl s H).
    + split; [|split; [|split; [|split]]].
      * lia.
      * intros x Hx. specialize (B x Hx). lia.
      * intros z Hz. inversion Hz; subst. auto.
      * intros t c Hc. destruct (D t c Hc) as (D1&D2&D3&D4). repeat split; auto; try lia. congruence.
      * intros t Ht. specialize (F t Ht). lia.
    + destruct (i_v5 s H) as [V S]. split; [intros v Hv; specialize (V v Hv); lia | lia].
    + intros E; discriminate.
    + intros v Hv. destruct (i_v7 s H v Hv) as [W L]. split; auto. intros t Ht. specialize (L t Ht). lia.
  - unfold reuse_num. cbn. rewrite N.eqb_refl.
    assert (E : set_next (next s) (set_next (next s + 1) s) = s) by (destruct s; reflexivity).
    rewrite E. auto.
Qed.

Lemma jsel_false : forall jn n, n < jn -> n <> 0 -> jsel jn 0 n = false.
Proof.
  intros. unfold jsel. apply orb_false_iff. split; [apply N.leb_gt; auto | apply N.eqb_neq; auto].
Qed.

Lemma needed_journal_old : forall s n, IV3 (views s) ->
  (forall v, In v (views s) -> n < v_jnum v) -> n <> 0 -> needed s (FJournal, n) = false.
Proof.
  intros s n H3 Hv Hn. unfold needed. cbn [fst snd]. apply andb_false_iff. left.
  apply not_true_is_false. intro E. apply existsb_exists in E. destruct E as [v [Hin E]].
  unfold pjn in E. rewrite (H3 v Hin) in E. rewrite jsel_false in E; auto. discriminate.
Qed.

Lemma step_dropfrozen : forall s ok s', Inv s -> step s (ODropFrozen ok) = Some s' -> Inv s'.
Proof.
  intros s ok s' H. cbn. destruct (frozen s) as [z|] eqn:Ef; [|discriminate].
  destruct (opened s); cbn; [|discriminate].
  destruct (fdone s || fempty s) eqn:Eg; [|discriminate].
  intros E; inversion E; subst; clear E.
  assert (Hn : needed s (FJournal, z) = false \/ (FJournal, z) = (FJournal, 0)).
  { destruct (N.eqb_spec z 0) as [->|Hz]; auto. left.
    destruct (fempty s) eqn:Ee.
    - unfold needed. cbn [fst snd]. rewrite Ee, Ef, N.eqb_refl. cbn. apply andb_false_r.
    - rewrite orb_false_r in Eg. destruct (i_v6 s H Eg) as [V _].
      apply needed_journal_old; auto; [apply (i_v3 s H)|].
      intros v Hv. rewrite (V v Hv). destruct (i_n s H) as (_&_&C&_). auto. }
  pose proof (do_rm_Inv (FJournal, z) ok RFailed s H Hn) as H2.
  destruct (do_rm_eq (FJournal, z) ok RFailed s) as (E1&E2&E3&E4&E5&E6&E7&E8&E9&E10&E11&E12&E13&E14&E15&E16&E17&E18&E19&_).
  set (s2 := fst (do_rm (FJournal, z) ok RFailed s)) in *.
  constructor; cbn; try apply H2.
  - destruct (i_n s2 H2) as (A&B&C&D&F). split; [|split; [|split; [|split]]]; auto.
    + intros x Hx; discriminate.
    + intros t c Hc. destruct (D t c Hc) as (D1&D2&D3&D4). repeat split; auto. discriminate.
  - intros E; discriminate.
Qed.

Lemma tops_remove_Inv : forall s t c ok, Inv s ->
  tget (tb s) t = Some c -> c <> CTab -> (forall k, c <> CCur k) ->
  (forall h, In h (held s) -> ~ In t h) ->
  (forall v, In v (views s) -> ~ In t (v_tabs v)) ->
  Inv (tops_remove t ok s).
Proof.
  intros s t c ok H Hc Hnt Hnc Hh Hv. unfold tops_remove.
  destruct (nmem (pins s) t) eqn:Ep.
  - destruct (i_n s H) as (_&_&_&D&_). destruct (D t c Hc) as (D1&D2&D3&D4).
    apply set_class_Inv; auto; try discriminate.
    + intros k [E|E]; discriminate.
    + intros _ k. split; [discriminate | intros _; discriminate].
  - apply (del_func_Inv s t c); auto. apply nmem_false; auto.
Qed.

Lemma step_loopremove : forall s t ok s', Inv s -> step s (OLoopRemove t ok) = Some s' -> Inv s'.
Proof.
  intros s t ok s' H. cbn. destruct (opened s); cbn; [|discriminate].
  destruct (tget (tb s) t) as [c|] eqn:Ec; [|discriminate].
  destruct c; try discriminate. cbn.
  destruct (existsb (fun h => nmem h t) (held s)) eqn:Eh; [discriminate|].
  intros E; inversion E; subst. apply (tops_remove_Inv s t CObs); auto; try discriminate.
  - intros h Hh Ht. assert (existsb (fun h => nmem h t) (held s) = true); [|congruence].
    apply existsb_exists. exists h. split; auto. apply nmem_In; auto.
  - apply (not_viewed s t CObs); auto; discriminate.
Qed.

Lemma keys_with_NoDup : forall p m, NoDup (map fst m) -> NoDup (keys_with p m).
Proof. intros. unfold keys_with. apply filter_keys_NoDup; auto. Qed.

(* tables that are in no version leave the map without a Remove call *)
Lemma drop_tables_Inv : forall s ts, Inv s ->
  (forall t, In t ts -> tget (tb s) t <> Some CTab /\ tget (tb s) t <> Some CObs) ->
  Inv (set_tb (filter (fun x => negb (nmem ts (fst x))) (tb s)) s).
Proof.
  intros s ts H Hts.
  assert (Hget : forall u, tget (filter (fun x => negb (nmem ts (fst x))) (tb s)) u =
                           if negb (nmem ts u) then tget (tb s) u else None).
  { intros u. apply (tget_filter_keys (fun t => negb (nmem ts t))). }
  assert (Hsub : forall u d, tget (filter (fun x => negb (nmem ts (fst x))) (tb s)) u = Some d -> tget (tb s) u = Some d).
  { intros u d. rewrite Hget. destruct (negb (nmem ts u)); [auto | discriminate]. }
  assert (Hkeep : forall u, (tget (tb s) u = Some CTab \/ tget (tb s) u = Some CObs) ->
                            tget (filter (fun x => negb (nmem ts (fst x))) (tb s)) u = tget (tb s) u).
  { intros u Hu. rewrite Hget. destruct (nmem ts u) eqn:E; auto. apply nmem_In in E.
    destruct (Hts u E). destruct Hu; congruence. }
  constructor; cbn; try apply H.
  - apply filter_keys_NoDup, (i_k s H).
  - destruct (i_n s H) as (A&B&C&D&F). split; [|split; [|split; [|split]]]; auto.
    intros u d Hu. apply (D u d (Hsub u d Hu)).
  - intros h u Hin Hu. rewrite Hkeep; [|apply (i_h s H h u); auto]. apply (i_h s H h u); auto.
  - intros u Hu k. rewrite Hget. destruct (negb (nmem ts u)); [apply (i_p s H u Hu k)|].
    split; [discriminate | intros; discriminate].
  - intros k. rewrite getjob_set_tb. cbn. intros Hoff u. rewrite Hget.
    destruct (negb (nmem ts u)); [apply (i_j s H k Hoff u) | split; discriminate].
  - intros v u d Hin Hu. cbn. intros Hd. apply Hsub in Hd.
    destruct (i_v1 s H v u d Hin Hu Hd) as [|[k [Ek Hk]]]; auto. right. exists k. rewrite getjob_set_tb. auto.
  - intros Hm. cbn in Hm. destruct (i_v2 s H Hm) as [v [Ev Hiff]]. exists v. cbn. split; auto.
    intros u. rewrite Hiff. split.
    + intros Hu. rewrite Hkeep; auto.
    + apply Hsub.
Qed.

Lemma orphan_Inv : forall s ts why, Inv s ->
  (forall t, In t ts -> tget (tb s) t <> Some CTab /\ tget (tb s) t <> Some CObs) ->
  Inv (orphan ts why s).
Proof. intros. unfold orphan. apply set_residue_Inv, drop_tables_Inv; auto. Qed.

Lemma orphan_tget : forall s ts why u,
  tget (tb (orphan ts why s)) u = if nmem ts u then None else tget (tb s) u.
Proof.
  intros. unfold orphan. cbn. rewrite (tget_filter_keys (fun t => negb (nmem ts t))).
  destruct (nmem ts u); reflexivity.
Qed.

Lemma orphan_getjob : forall s ts why k, getjob k (orphan ts why s) = getjob k s.
Proof. intros. unfold orphan. destruct k; reflexivity. Qed.

Lemma revert_seq_Inv : forall k ts bad s, Inv s -> k <> KTxn -> j_cfail (getjob k s) = false ->
  NoDup ts -> (forall t, In t ts -> tget (tb s) t = Some (COut k)) ->
  Inv (revert_seq ts bad s) /\
  (forall u, tget (tb (revert_seq ts bad s)) u = if nmem ts u then None else tget (tb s) u) /\
  (forall k', getjob k' (revert_seq ts bad s) = getjob k' s).
Proof.
  intros k ts bad. induction ts as [|t ts IH]; intros s H Hk Hcf Hnd Hts; cbn.
  - split; [auto | split; intros; reflexivity].
  - inversion Hnd as [|x l Hnotin Hnd']; subst.
    assert (Ec : tget (tb s) t = Some (COut k)) by (apply Hts; left; auto).
    assert (Hh : forall h, In h (held s) -> ~ In t h) by (apply (not_held s t (COut k)); auto; discriminate).
    assert (Hv : forall v, In v (views s) -> ~ In t (v_tabs v)).
    { apply (not_viewed s t (COut k)); auto; try discriminate. intros k' E. inversion E; subst; auto. }
    assert (Hp : ~ In t (pins s)).
    { intro Hp. destruct (i_p s H t Hp k) as [_ P]. apply (P Hk); auto. }
    destruct (del_table_Inv s t (COut k) H Ec ltac:(discriminate) Hh Hv Hp) as [H1 Hn].
    set (s1 := set_tb (tdel (tb s) t) s) in *.
    pose proof (do_rm_Inv (FTable, t) (negb (fmem bad (FTable, t))) RFailed s1 H1 (or_introl Hn)) as HI2.
    pose proof (getjob_do_rm) as Hgj.
    destruct (do_rm_eq (FTable, t) (negb (fmem bad (FTable, t))) RFailed s1) as (E1&E2&E3&E4&E5&E6&E7&E8&E9&E10&E11&E12&E13&E14&E15&E16&E17&E18&E19&_).
    specialize (Hgj k (FTable, t) (negb (fmem bad (FTable, t))) RFailed s1).
    pose proof (fun k' => getjob_do_rm k' (FTable, t) (negb (fmem bad (FTable, t))) RFailed s1) as Hgj'.
    destruct (do_rm (FTable, t) (negb (fmem bad (FTable, t))) RFailed s1) as [s2 ok]. cbn in *.
    assert (Htb2 : forall u, tget (tb s2) u = if t =? u then None else tget (tb s) u).
    { intros u. rewrite E2. subst s1. cbn. apply tget_tdel. }
    assert (Hrest : forall u, In u ts -> tget (tb s2) u = Some (COut k)).
    { intros u Hu. rewrite Htb2. destruct (N.eqb_spec t u) as [->|]; [contradiction|]. apply Hts; right; auto. }
    assert (Hnm : forall u, nmem (t :: ts) u = (t =? u) || nmem ts u).
    { intros u. unfold nmem. cbn. rewrite (N.eqb_sym u t). reflexivity. }
    destruct ok.
    + assert (Hcf2 : j_cfail (getjob k s2) = false) by (rewrite Hgj; subst s1; rewrite getjob_set_tb; auto).
      destruct (IH s2 HI2 Hk Hcf2 Hnd' Hrest) as (I1&I2&I3).
      split; [auto|]. split.
      * intros u. rewrite I2, Htb2, Hnm. destruct (t =? u), (nmem ts u); auto.
      * intros k'. rewrite I3, Hgj'. subst s1. apply getjob_set_tb.
    + split; [|split].
      * apply orphan_Inv; auto. intros u Hu. rewrite (Hrest u Hu). split; discriminate.
      * intros u. rewrite orphan_tget, Htb2, Hnm. destruct (t =? u), (nmem ts u); auto.
      * intros k'. rewrite orphan_getjob, Hgj'. subst s1. apply getjob_set_tb.
Qed.

Lemma step_revert : forall s k bad s', Inv s -> step s (ORevert k bad) = Some s' -> Inv s'.
Proof.
  intros s k bad s' H. cbn. destruct (opened s); cbn; [|discriminate].
  destruct (j_on (getjob k s)); cbn; [|discriminate].
  destruct (j_cfail (getjob k s)) eqn:Ecf; cbn; [discriminate|].
  destruct (jkind_eqb k KTxn) eqn:Ek; cbn; [discriminate|]. apply jkind_eqb_neq in Ek.
  destruct (cur_of k s) eqn:Ecur; [discriminate|].
  intros E; inversion E; subst; clear E.
  pose proof (i_k s H) as HK.
  destruct (revert_seq_Inv k (keys_with (is_out k) (tb s)) bad s H Ek Ecf (keys_with_NoDup _ _ HK)) as (I1&I2&I3).
  { intros t Ht. apply outs_In; auto. }
  apply setjob_Inv; auto.
  - intros _ t. rewrite I2. destruct (nmem (keys_with (is_out k) (tb s)) t) eqn:En; [split; discriminate|].
    split.
    + intro Hc. apply outs_In in Hc; auto. apply nmem_In in Hc. congruence.
    + apply cur_of_None; auto.
  - intros _ v t _ _. rewrite I2. destruct (nmem (keys_with (is_out k) (tb s)) t) eqn:En; [discriminate|].
    intro Hc. apply outs_In in Hc; auto. apply nmem_In in Hc. congruence.
Qed.

Lemma step_abandon : forall s k s', Inv s -> step s (OAbandon k) = Some s' -> Inv s'.
Proof.
  intros s k s' H. cbn. destruct (opened s); cbn; [|discriminate].
  destruct (j_on (getjob k s)); cbn; [|discriminate].
  destruct (jkind_eqb k KTxn) eqn:Ek; cbn; [discriminate|].
  destruct (cur_of k s) eqn:Ecur; [discriminate|].
  intros E; inversion E; subst; clear E.
  pose proof (i_k s H) as HK.
  apply setjob_Inv.
  - apply orphan_Inv; auto. intros t Ht. apply outs_In in Ht; auto. rewrite Ht. split; discriminate.
  - intros _ t. rewrite orphan_tget. destruct (nmem (keys_with (is_out k) (tb s)) t) eqn:En; [split; discriminate|].
    split.
    + intro Hc. apply outs_In in Hc; auto. apply nmem_In in Hc. congruence.
    + apply cur_of_None; auto.
  - intros _ v t _ _. rewrite orphan_tget. destruct (nmem (keys_with (is_out k) (tb s)) t) eqn:En; [discriminate|].
    intro Hc. apply outs_In in Hc; auto. apply nmem_In in Hc. congruence.
Qed.

(* ---------- session.commit ---------- *)

Definition inst_f (ko : option jkind) (dels : list N) (t : N) (c : tclass) : tclass :=
  match c with
  | COut k' => match ko with Some k => if jkind_eqb k k' then CTab else c | None => c end
  | CTab => if nmem dels t then CObs else c
  | _ => c
  end.

Lemma install_tget : forall ko dels jn s t,
  tget (tb (install ko dels jn s)) t = option_map (inst_f ko dels t) (tget (tb s) t).
Proof. intros. unfold install. cbn. apply tget_retag. Qed.

Lemma install_keys : forall ko dels jn s, map fst (tb (install ko dels jn s)) = map fst (tb s).
Proof. intros. unfold install. cbn. apply retag_keys. Qed.

Lemma getjob_install : forall k ko dels jn s, getjob k (install ko dels jn s) = getjob k s.
Proof. intros. unfold install. destruct k; reflexivity. Qed.

(* what a class after install says about the class before *)
Lemma install_back : forall ko dels jn s t c',
  tget (tb (install ko dels jn s)) t = Some c' ->
  exists c, tget (tb s) t = Some c /\
    (c' = c \/ (c = CTab /\ c' = CObs /\ In t dels) \/ (exists k, ko = Some k /\ c = COut k /\ c' = CTab)).
Proof.
  intros ko dels jn s t c'. rewrite install_tget. destruct (tget (tb s) t) as [c|]; [|discriminate].
  cbn. intros E. inversion E; subst. exists c. split; auto.
  destruct c; cbn; auto.
  - destruct (nmem dels t) eqn:En; auto. right. left. apply nmem_In in En. auto.
  - destruct ko as [k0|]; auto. destruct (jkind_eqb k0 k) eqn:Ek; auto.
    apply jkind_eqb_eq in Ek. subst. right. right. exists k. auto.
Qed.

Lemma install_tab : forall ko dels jn s t,
  tget (tb (install ko dels jn s)) t = Some CTab <->
  (tget (tb s) t = Some CTab /\ ~ In t dels) \/ (exists k, ko = Some k /\ tget (tb s) t = Some (COut k)).
Proof.
  intros. rewrite install_tget. destruct (tget (tb s) t) as [c|] eqn:Ec; cbn.
  - destruct c; cbn.
    + destruct (nmem dels t) eqn:En.
      * apply nmem_In in En. split; [discriminate|]. intros [[_ Hn]|[k [_ E]]]; [contradiction | discriminate].
      * apply nmem_false in En. split; auto.
    + split; [discriminate|]. intros [[E _]|[k [_ E]]]; discriminate.
    + split; [discriminate|]. intros [[E _]|[k [_ E]]]; discriminate.
    + split; [discriminate|]. intros [[E _]|[k0 [_ E]]]; discriminate.
    + destruct ko as [k0|].
      * destruct (jkind_eqb k0 k) eqn:Ek.
        -- apply jkind_eqb_eq in Ek. subst. split; auto. intros _. right. exists k. auto.
        -- apply jkind_eqb_neq in Ek. split; [discriminate|].
           intros [[E _]|[k1 [E1 E2]]]; [discriminate|]. inversion E1; inversion E2; subst. congruence.
      * split; [discriminate|]. intros [[E _]|[k1 [E1 _]]]; discriminate.
  - split; [discriminate|]. intros [[E _]|[k [_ E]]]; discriminate.
Qed.

Lemma install_back_same : forall ko dels jn s t c',
  tget (tb (install ko dels jn s)) t = Some c' -> c' <> CTab -> c' <> CObs -> tget (tb s) t = Some c'.
Proof.
  intros ko dels jn s t c' Hc H1 H2.
  destruct (install_back _ _ _ _ _ _ Hc) as [c [Hc0 [E|[(_&E&_)|[k0 (_&_&E)]]]]]; congruence.
Qed.

(* the parts of the invariant that do not mention the views survive install *)
Lemma install_core : forall ko dels jn s, Inv s ->
  let s' := install ko dels jn s in
  NoDup (map fst (tb s')) /\ IN (next s) (journal s) (man s) (frozen s) (tb s') (pins s) /\
  IH (held s) (tb s') /\ IP (pins s) (tb s') /\ IJ s'.
Proof.
  intros ko dels jn s H s'. subst s'.
  split; [rewrite install_keys; apply (i_k s H)|].
  split; [|split; [|split]].
  - destruct (i_n s H) as (A&B&C&D&F). split; [|split; [|split; [|split]]]; auto.
    intros t c' Hc. destruct (install_back _ _ _ _ _ _ Hc) as [c [Hc0 _]]. apply (D t c Hc0).
  - intros h t Hh Ht. destruct (i_h s H h t Hh Ht) as [E|E]; rewrite install_tget, E; cbn; auto.
    destruct (nmem dels t); auto.
  - intros t Ht k. destruct (i_p s H t Ht k) as [P1 P2]. split.
    + intro Hc. apply install_back_same in Hc; try discriminate. auto.
    + intros Hk Hc. apply install_back_same in Hc; try discriminate. apply (P2 Hk); auto.
  - intros k. rewrite getjob_install. intros Hoff t. destruct (i_j s H k Hoff t) as [J1 J2]. split.
    + intro Hc. apply install_back_same in Hc; try discriminate. auto.
    + intro Hc. apply install_back_same in Hc; try discriminate. auto.
Qed.

Lemma install_fields : forall ko dels jn s,
  let s' := install ko dels jn s in
  files s' = files s /\ next s' = next s /\ held s' = held s /\ man s' = man s /\ hasman s' = hasman s /\
  mfailed s' = mfailed s /\ views s' = views s /\ journal s' = journal s /\ frozen s' = frozen s /\
  fdone s' = fdone s /\ pins s' = pins s /\ opened s' = opened s /\ trace s' = trace s /\
  sjnum s' = match jn with Some j => j | None => sjnum s end.
Proof. intros. unfold install. cbn. repeat split; reflexivity. Qed.

Lemma mark_failed_Inv : forall ko s, Inv s -> Inv (mark_failed ko s).
Proof.
  intros [k|] s H; cbn; auto. apply setjob_Inv; auto; cbn.
  - intros Hoff. apply (i_j s H k Hoff).
  - discriminate.
Qed.

Lemma mark_failed_fields : forall ko s,
  tb (mark_failed ko s) = tb s /\ views (mark_failed ko s) = views s /\ mfailed (mark_failed ko s) = mfailed s /\
  next (mark_failed ko s) = next s /\ man (mark_failed ko s) = man s /\ journal (mark_failed ko s) = journal s /\
  sjnum (mark_failed ko s) = sjnum s /\ fdone (mark_failed ko s) = fdone s /\
  (forall k, ko = Some k -> j_cfail (getjob k (mark_failed ko s)) = true).
Proof.
  intros [k|] s; cbn.
  - destruct (setjob_fields k {| j_on := j_on (getjob k s); j_del := j_del (getjob k s); j_cfail := true |} s)
      as (E1&E2&E3&E4&E5&E6&E7&E8&E9&E10&E11&E12&E13&E14).
    repeat split; auto. intros k0 E. inversion E; subst. rewrite getjob_setjob_eq. reflexivity.
  - repeat split; auto. intros k E; discriminate.
Qed.

(* a further possible view, after a record was written but its write or sync failed *)
Lemma add_view_Inv : forall s r, Inv s ->
  (forall t c, In t (v_tabs r) -> tget (tb s) t = Some c ->
     c = CTab \/ exists k, c = COut k /\ j_cfail (getjob k s) = true) ->
  v_prev r = None -> man s = Some (v_man r) -> v_jnum r <= journal s ->
  (fdone s = true -> v_jnum r = journal s) ->
  view_wf r -> (forall t, In t (v_tabs r) -> t < next s) ->
  Inv (set_mfailed true (set_views (views s ++ [r]) s)).
Proof.
  intros s r H H1 H3 H4 H5 H6 H7 H8.
  assert (Hin : forall v, In v (views s ++ [r]) -> In v (views s) \/ v = r).
  { intros v Hv. apply in_app_or in Hv. destruct Hv as [|[ <- |[]]]; auto. }
  constructor; cbn; try apply H.
  - intros v t c Hv Ht Hc. cbn in *.
    assert (Hx : c = CTab \/ exists k, c = COut k /\ j_cfail (getjob k s) = true).
    { destruct (Hin v Hv) as [Hv' | -> ]; [apply (i_v1 s H v t c Hv' Ht Hc) | apply (H1 t c); auto]. }
    destruct Hx as [|[k [E1 E2]]]; auto; try (right; exists k; split; auto; destruct k; auto).
  - intros E; discriminate.
  - intros v Hv. destruct (Hin v Hv) as [Hv' | -> ]; auto. apply (i_v3 s H v Hv').
  - intros v Hv. destruct (Hin v Hv) as [Hv' | -> ]; auto. apply (i_v4 s H v Hv').
  - destruct (i_v5 s H) as [V S]. split; auto. intros v Hv. destruct (Hin v Hv) as [Hv' | -> ]; auto.
  - intros Ef. destruct (i_v6 s H Ef) as [V S]. split; auto. intros v Hv. destruct (Hin v Hv) as [Hv' | -> ]; auto.
  - intros v Hv. destruct (Hin v Hv) as [Hv' | -> ]; [apply (i_v7 s H v Hv') | split; auto].
Qed.

Lemma getjob_setters : forall k s,
  (forall x, getjob k (set_files x s) = getjob k s) /\ (forall x, getjob k (set_views x s) = getjob k s) /\
  (forall x, getjob k (set_man x s) = getjob k s) /\ (forall x, getjob k (set_hasman x s) = getjob k s) /\
  (forall x, getjob k (set_mfailed x s) = getjob k s) /\ (forall x, getjob k (set_residue x s) = getjob k s) /\
  (forall x, getjob k (set_fdone x s) = getjob k s) /\ (forall x, getjob k (set_pins x s) = getjob k s).
Proof. intros; destruct k; repeat split; reflexivity. Qed.

Lemma mark_failed_getjob : forall ko s k', ko <> Some k' -> getjob k' (mark_failed ko s) = getjob k' s.
Proof.
  intros [k|] s k' Hne; cbn; auto. apply getjob_setjob_neq. congruence.
Qed.

Lemma mark_failed_more : forall ko s,
  frozen (mark_failed ko s) = frozen s /\ held (mark_failed ko s) = held s /\ pins (mark_failed ko s) = pins s /\
  files (mark_failed ko s) = files s /\ trace (mark_failed ko s) = trace s /\ opened (mark_failed ko s) = opened s.
Proof.
  intros [k|] s; cbn; [|repeat split; auto].
  destruct (setjob_fields k {| j_on := j_on (getjob k s); j_del := j_del (getjob k s); j_cfail := true |} s)
    as (E1&E2&E3&E4&E5&E6&E7&E8&E9&E10&E11&E12&E13&E14). repeat split; auto.
Qed.

Definition commit_ok_post (ko : option jkind) (jn : option N) (s s' : st) : Prop :=
  (forall t c', tget (tb s') t = Some c' -> c' <> CTab -> c' <> CObs -> tget (tb s) t = Some c') /\
  (forall k, ko = Some k -> forall t, tget (tb s') t <> Some (COut k)) /\
  (forall j, jn = Some j -> (forall v, In v (views s') -> v_jnum v = j) /\ sjnum s' = j) /\
  (forall k, getjob k s' = getjob k s) /\
  journal s' = journal s /\ fdone s' = fdone s /\ frozen s' = frozen s /\ held s' = held s /\ pins s' = pins s /\
  (mfailed s' = false).

Definition commit_fail_post (ko : option jkind) (s s' : st) : Prop :=
  tb s' = tb s /\ journal s' = journal s /\ fdone s' = fdone s /\ frozen s' = frozen s /\ held s' = held s /\
  pins s' = pins s /\ (forall k', ko <> Some k' -> getjob k' s' = getjob k' s) /\
  (forall k, ko = Some k -> j_cfail (getjob k s') = true).

