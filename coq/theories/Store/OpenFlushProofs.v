(* Store/OpenFlushProofs.v — the tables that the recovery of read-write Open flushes (Store/OpenPath.v flush_memdb).
   Proof file.
   (1) The table writer model does not depend on the comparer beyond Compare, and Separator / Successor on the keys it
       is given (tw_append_all_cong, tw_close_cong).
   (2) BRIDGE: session.flushMemdb's writer call in the model of Open — Codec/Table.v twrite with Store/OpenPath.v's
       iComparer iwc (isep_bytes / isucc_bytes of Codec/IKey.v) and the filter generator handed to Open — IS
       Lsm/WritePath.v's table_bytes (Lsm/WritePath.v's iwc, options record wo_of) on every list of decodable keys,
       for a user comparer whose Separator / Successor return byte strings (cmp_wf: in Go a []byte always is one; the
       model's lists of N need saying so — Lsm/WritePath.v's iwc refuses an answer that is no byte string, Codec/IKey.v's
       does not look).
   (3) Hence C01_writer_output_ok applies to the recovery's flush: the file flush_memdb writes passes tfile_okb with
       the bounds it records in the pending session record and table_check's to exactly the pairs of the replay buffer,
       which are strictly increasing under iComparer and are the stamped records of the batches replayed into that
       buffer since it was last reset (Store/OpenJournalProofs.v replay_record_written / replay_recs_written). *)
From Coq Require Import List NArith ZArith Bool Lia.
From GL Require Import Base.Bytes Base.Order Base.Cursor Codec.IKey Codec.Block Codec.Table Codec.TableSizes Codec.TableCheck
  Lsm.Lsm Lsm.ReadPath Lsm.ReadPathKey Lsm.ReadPathMem Lsm.WritePath Lsm.WritePathTable
  Store.OpenPath Store.OpenJournalProofs Store.OpenRwProofs Store.OpenTotalProofs.
From GL Require Mem.MemDB.
Import ListNotations.
Open Scope N_scope.

(* ------------------------------------------------------------------ (1) the writer and its comparer *)
Section WriterCong.
  Variable tp : tparams.
  Variable crc : bytes -> N.
  Variable compress : bytes -> bytes.
  Variables c1 c2 : comparer.
  Variable blockSize ri : N.
  Variable snappy : bool.
  Variable P : bytes -> Prop.
  Hypothesis Hcmp : forall a b, cmp c1 a b = cmp c2 a b.
  Hypothesis Hsep : forall a b, P a -> P b -> sep c1 a b = sep c2 a b.
  Hypothesis Hsucc : forall a, P a -> succ c1 a = succ c2 a.

  Lemma flush_pending_cong w key : P (bw_prev (tw_data w)) -> P key ->
    tw_flush_pending c1 w key = tw_flush_pending c2 w key.
  Proof.
    intros Hp Hk. unfold tw_flush_pending. destruct (bh_len (tw_pending w) =? 0); [reflexivity|].
    destruct key as [|x key]; [rewrite (Hsucc _ Hp)|rewrite (Hsep _ _ Hp Hk)]; reflexivity.
  Qed.

  Lemma flush_pending_nil_cong w : P (bw_prev (tw_data w)) -> tw_flush_pending c1 w [] = tw_flush_pending c2 w [].
  Proof.
    intros Hp. unfold tw_flush_pending. destruct (bh_len (tw_pending w) =? 0); [reflexivity|].
    rewrite (Hsucc _ Hp). reflexivity.
  Qed.

  Lemma tw_append_cong w k v : P (bw_prev (tw_data w)) -> P k ->
    tw_append tp crc compress c1 blockSize ri snappy w k v = tw_append tp crc compress c2 blockSize ri snappy w k v.
  Proof.
    intros Hp Hk. unfold tw_append. rewrite Hcmp. rewrite (flush_pending_cong w k Hp Hk). reflexivity.
  Qed.

  Lemma tw_append_all_cong kvs : forall w, P (bw_prev (tw_data w)) -> Forall (fun kv => P (fst kv)) kvs ->
    tw_append_all tp crc compress c1 blockSize ri snappy w kvs = tw_append_all tp crc compress c2 blockSize ri snappy w kvs /\
    forall w', tw_append_all tp crc compress c1 blockSize ri snappy w kvs = Some w' -> P (bw_prev (tw_data w')).
  Proof.
    induction kvs as [|[k v] r IH]; intros w Hp Hk; cbn [tw_append_all].
    - split; [reflexivity|]. intros w' E. injection E as <-. exact Hp.
    - inversion Hk as [|? ? Hk1 Hkr]; subst. cbn [fst] in Hk1.
      rewrite <- (tw_append_cong w k v Hp Hk1).
      destruct (tw_append tp crc compress c1 blockSize ri snappy w k v) as [w1|] eqn:E1.
      + destruct (tw_append_prev tp crc compress c1 blockSize ri snappy w k v w1 E1) as (Ep & _).
        apply IH; [rewrite Ep; exact Hk1|exact Hkr].
      + split; [reflexivity|discriminate].
  Qed.

  Lemma finish_block_prev w : bw_prev (tw_data (tw_finish_block tp crc compress snappy w)) = bw_prev (tw_data w).
  Proof. unfold tw_finish_block. destruct (write_block _ _ _ _ _ _). reflexivity. Qed.

  Lemma tw_close_cong fgen w : P (bw_prev (tw_data w)) ->
    tw_close tp crc compress c1 ri snappy fgen w = tw_close tp crc compress c2 ri snappy fgen w.
  Proof.
    intros Hp. unfold tw_close.
    set (w1 := if (0 <? bw_n (tw_data w)) || (tw_n w =? 0) then tw_finish_block tp crc compress snappy w else w).
    assert (H1 : P (bw_prev (tw_data w1))).
    { unfold w1. destruct ((0 <? bw_n (tw_data w)) || (tw_n w =? 0)); [rewrite finish_block_prev|]; exact Hp. }
    rewrite (flush_pending_nil_cong w1 H1). reflexivity.
  Qed.
End WriterCong.

(* ------------------------------------------------------------------ (2) the bridge *)
(* the user comparer's Separator / Successor return byte strings on byte strings *)
Definition cmp_wf (c : comparer) : Prop :=
  (forall a b d, wf_bytes a -> wf_bytes b -> sep c a b = Some d -> wf_bytes d) /\
  (forall b d, wf_bytes b -> succ c b = Some d -> wf_bytes d).

(* the options of Lsm/WritePath.v that reach the table writer, from what Open is given (the other fields play no role
   in table_bytes) *)
Definition wo_of (blockSize ri : N) (snappy : bool) (fgen : option (bytes * (list (N * list bytes) -> bytes))) : wopts :=
  mkWO blockSize ri snappy
       (match fgen with Some (n, g) => Some (n, fun bl _ => Some (g bl)) | None => None end)
       (fun _ => 0) (fun _ => 0) (fun _ => 0) 0%nat false.

Section Bridge.
  Variable c : comparer.
  Variable kp : kparams.
  Hypothesis cwf : cmp_wf c.
  Variable tp : tparams.
  Variable crc : bytes -> N.
  Variable compress : bytes -> bytes.
  Variable blockSize ri : N.
  Variable snappy : bool.
  Variable fgen : option (bytes * (list (N * list bytes) -> bytes)).

  Local Notation iwo := (OpenPath.iwc kp c).       (* the writer's comparer in the model of Open *)
  Local Notation iww := (WritePath.iwc c kp).      (* ... in the model of the write path *)
  Definition kdec (a : bytes) : Prop := a = [] \/ exists x, ik_dec a = Some x.

  Lemma enc_short_wf z : wf_bytes (uk z) -> enc_short (Some z) = Some (encode_ikey z).
  Proof. intros W. unfold enc_short. apply wf_bytesb_ok in W. rewrite W. reflexivity. Qed.

  Lemma iw_sep a b : kdec a -> kdec b -> sep iwo a b = sep iww a b.
  Proof.
    intros [->|(x & Dx)]; [reflexivity|]. cbn [sep OpenPath.iwc WritePath.iwc]. unfold isep_bytes. rewrite Dx.
    destruct (ik_dec_some a x Dx) as (_ & Sx & _). rewrite Sx.
    intros [->|(y & Dy)]; [reflexivity|]. rewrite Dy. destruct (ik_dec_some b y Dy) as (_ & Sy & _). rewrite Sy.
    destruct (isep c kp x y) as [z|] eqn:Ez; [|reflexivity]. cbn [option_map].
    rewrite enc_short_wf; [reflexivity|].
    unfold isep in Ez. destruct (sep c (uk x) (uk y)) as [d|] eqn:Ed; [|discriminate].
    destruct (_ && _); [|discriminate]. injection Ez as <-. cbn [uk].
    exact (proj1 cwf _ _ _ (ik_dec_wf_uk _ _ Dx) (ik_dec_wf_uk _ _ Dy) Ed).
  Qed.

  Lemma iw_succ a : kdec a -> succ iwo a = succ iww a.
  Proof.
    intros [->|(x & Dx)]; [reflexivity|]. cbn [succ OpenPath.iwc WritePath.iwc]. unfold isucc_bytes. rewrite Dx.
    destruct (ik_dec_some a x Dx) as (_ & Sx & _). rewrite Sx.
    destruct (isucc c kp x) as [z|] eqn:Ez; [|reflexivity]. cbn [option_map].
    rewrite enc_short_wf; [reflexivity|].
    unfold isucc in Ez. destruct (succ c (uk x)) as [d|] eqn:Ed; [|discriminate].
    destruct (_ && _); [|discriminate]. injection Ez as <-. cbn [uk].
    exact (proj2 cwf _ _ (ik_dec_wf_uk _ _ Dx) Ed).
  Qed.

  Theorem twrite_table_bytes kvs : Forall (fun kv => exists x, ik_dec (fst kv) = Some x) kvs ->
    twrite tp crc compress iwo blockSize ri snappy fgen kvs =
    table_bytes c kp tp crc compress (wo_of blockSize ri snappy fgen) kvs.
  Proof.
    intros Hk. unfold twrite, table_bytes. cbn [wo_blockSize wo_ri wo_snappy wo_filter wo_of].
    assert (Hk' : Forall (fun kv => kdec (fst kv)) kvs) by (eapply Forall_impl; [|exact Hk]; intros kv H; right; exact H).
    destruct (tw_append_all_cong tp crc compress iwo iww blockSize ri snappy kdec (fun a b => eq_refl) iw_sep iw_succ
                kvs tw_empty (or_introl eq_refl) Hk') as (E & Hp).
    rewrite <- E. destruct (tw_append_all tp crc compress iwo blockSize ri snappy tw_empty kvs) as [w|]; [|reflexivity].
    cbn [option_map]. specialize (Hp w eq_refl).
    rewrite (tw_close_cong tp crc compress iwo iww ri snappy kdec iw_succ fgen w Hp).
    destruct fgen as [[n g]|]; reflexivity.
  Qed.
End Bridge.

(* ------------------------------------------------------------------ (3) the flush of the recovery *)
Lemma last_cons_default {A} (l : list A) : forall x d, last (x :: l) d = last l x.
Proof. induction l as [|y l IH]; intros x d; [reflexivity|]. cbn [last] in *. destruct l; [reflexivity|]. apply IH. Qed.

Section FlushTable.
  Variable rp : SR.rparams.
  Variable kp : kparams.
  Hypothesis kpok : kparams_ok kp.
  Hypothesis seek_val : keyTypeSeek kp <= keyTypeVal kp.
  Variable mp : MemDB.mparams.
  Hypothesis mpok : MemDB.mparams_ok mp.
  Variable tp : tparams.
  Hypothesis tpok : tparams_ok tp.
  Variable tcrc : bytes -> N.
  Hypothesis crc_bound : forall b, tcrc b < 2 ^ 32.
  Variable compress : bytes -> bytes.
  Variable decompress : bytes -> option bytes.
  Hypothesis codec_ok : forall x, decompress (compress x) = Some x.
  Hypothesis compress_ne : forall x, compress x <> [].
  Variable snappy : bool.
  Variable fgen : option (bytes * (list (N * list bytes) -> bytes)).
  Variable blockSize ri : N.
  Hypothesis ri_pos : 1 <= ri.
  Variable c : comparer.
  Hypothesis cok : comparer_ok c.
  Hypothesis cwf : cmp_wf c.
  Variable fname : option bytes.
  Variable ufc : bytes -> N -> bytes -> bool.
  Variable verify : bool.

  Local Notation wo := (wo_of blockSize ri snappy fgen).
  Local Notation flushm := (flush_memdb rp kp mp tp tcrc compress snappy fgen blockSize ri c).
  Local Notation okb := (tfile_okb c kp tp tcrc decompress fname ufc verify ri).

  (* the side conditions of C01_writer_output_ok for one buffer: the computable size condition of the writer theorem
     (C13: every block, handle and the file fit their fields) and, when a filter policy is configured, the
     no-false-negative condition of C16 on the file written *)
  Definition flush_side_ok (num : N) (kvs : list (bytes * bytes)) : Prop :=
    write_sizes_ok c kp tp tcrc compress wo kvs = true /\
    (fgen = None \/
     forall data, table_bytes c kp tp tcrc compress wo kvs = Some data ->
       filter_part c tp tcrc decompress fname ufc verify (mkTF num (key_first kvs) (key_last kvs) data) = true).

  Theorem flush_memdb_table_ok st st' :
    mem_ok c kp mp (r_mdb st) -> mem_pairs mp (r_mdb st) <> [] ->
    flush_side_ok (Z.to_N (s_next (c_sess (r_c st)))) (mem_pairs mp (r_mdb st)) ->
    flushm st = OOk st' ->
    let kvs := mem_pairs mp (r_mdb st) in
    let num := s_next (c_sess (r_c st)) in
    exists file,
      table_bytes c kp tp tcrc compress wo kvs = Some file /\
      c_files (r_c st') = f_set (c_files (r_c st)) (SW.FTable, Z.to_N num) file /\
      s_next (c_sess (r_c st')) = (num + 1)%Z /\ s_levels (c_sess (r_c st')) = s_levels (c_sess (r_c st)) /\
      r_mdb st' = r_mdb st /\
      let t := SR.mkat 0%Z num (Z.of_N (lenN file)) (key_first kvs) (key_last kvs) in
      SR.sr_adds (r_rec st') = SR.sr_adds (r_rec st) ++ [t] /\
      let f := tfile_of (c_files (r_c st')) t in
      f = mkTF (Z.to_N num) (key_first kvs) (key_last kvs) file /\
      okb f = true /\
      table_check (ibc c) (tf_reader c tp tcrc decompress fname ufc verify f) ri = Some kvs /\
      Cursor.sorted (ibc c) kvs /\
      map (entry_of) kvs = mem_entries mp (Some (r_mdb st)).
  Proof.
    intros Hm Hne (Hsz & Hfl) E. cbv zeta.
    pose proof Hm as [(A & L & I) Hkeys].
    pose proof (mem_pairs_sorted c kp seek_val mp mpok (r_mdb st) A L I) as Hs.
    assert (Hk : Forall (fun kv => key_okb kp (fst kv) = true) (mem_pairs mp (r_mdb st))).
    { apply Forall_forall. unfold mem_keys_okb in Hkeys. rewrite forallb_forall in Hkeys. exact Hkeys. }
    assert (Hd : Forall (fun kv => exists x, ik_dec (fst kv) = Some x) (mem_pairs mp (r_mdb st))).
    { eapply Forall_impl; [|exact Hk]. intros kv H. destruct (key_okb_dec kp _ H) as (x & D & _). exists x. exact D. }
    revert E. unfold flush_memdb.
    rewrite (twrite_table_bytes c kp cwf tp tcrc compress blockSize ri snappy fgen _ Hd).
    destruct (table_bytes c kp tp tcrc compress wo (mem_pairs mp (r_mdb st))) as [file|] eqn:Eb; [|discriminate].
    intros E. injection E as <-. cbn [r_c r_rec r_mdb c_files c_sess s_next s_levels SR.add_table SR.sr_adds].
    exists file. split; [reflexivity|]. split; [reflexivity|]. split; [reflexivity|]. split; [reflexivity|]. split; [reflexivity|].
    set (kvs := mem_pairs mp (r_mdb st)) in *.
    set (num := s_next (c_sess (r_c st))) in *.
    assert (Emin : match kvs with kv :: _ => fst kv | [] => [] end = key_first kvs) by reflexivity.
    assert (Emax : fst (last kvs ([], [])) = key_last kvs).
    { destruct kvs as [|kv r]; [reflexivity|]. rewrite last_cons_default. reflexivity. }
    rewrite Emin, Emax. split; [reflexivity|].
    assert (Ef : tfile_of (f_set (c_files (r_c st)) (SW.FTable, Z.to_N num) file)
                          (SR.mkat 0%Z num (Z.of_N (lenN file)) (key_first kvs) (key_last kvs)) =
                 mkTF (Z.to_N num) (key_first kvs) (key_last kvs) file).
    { unfold tfile_of. cbn [SR.at_num SR.at_imin SR.at_imax]. rewrite f_lookup_set_same. reflexivity. }
    rewrite Ef. split; [reflexivity|].
    assert (Hfl' : wo_filter wo = None \/
                   filter_part c tp tcrc decompress fname ufc verify (mkTF (Z.to_N num) (key_first kvs) (key_last kvs) file) = true).
    { destruct Hfl as [->|H]; [left; reflexivity|right; exact (H file eq_refl)]. }
    destruct (writer_output_ok c cok kp kpok tp tpok tcrc crc_bound compress decompress codec_ok compress_ne fname ufc verify wo
                ri_pos (Z.to_N num) kvs file Hs Hne Hk Eb Hsz Hfl') as (O1 & _ & O3).
    split; [exact O1|]. split; [exact O3|]. split; [exact Hs|reflexivity].
  Qed.
End FlushTable.

(* ------------------------------------------------------------------ what the flushed buffer holds *)
(* One journal record in read-write mode (Store/OpenPath.v replay_record with flush = true) is the read-only step —
   whose buffer afterwards holds what it held plus the stamped records of the batch, when the sequence rule accepts it —
   followed, when the buffer has reached the write buffer size, by flush_memdb of exactly that buffer and a Reset.  So
   the buffer a flush writes out holds exactly the stamped records of the batches accepted since the last Reset (the
   recovery resets the buffer at the start of every journal and after every flush), and flush_memdb_table_ok says the
   table holds exactly those, in iComparer order. *)
Section ReplayFlush.
  Variable rp : SR.rparams.
  Variable kp : kparams.
  Hypothesis kpok : kparams_ok kp.
  Hypothesis seek_val : keyTypeSeek kp <= keyTypeVal kp.
  Variable mp : MemDB.mparams.
  Hypothesis mpok : MemDB.mparams_ok mp.
  Variable tp : tparams.
  Variable tcrc : bytes -> N.
  Variable compress : bytes -> bytes.
  Variable snappy : bool.
  Variable fgen : option (bytes * (list (N * list bytes) -> bytes)).
  Variable blockSize ri : N.
  Variable c : comparer.
  Hypothesis cok : comparer_ok c.

  Local Notation bhl := 12.
  Local Notation minv := (OpenJournalProofs.mem_inv kp mp c).
  Local Notation flushm := (flush_memdb rp kp mp tp tcrc compress snappy fgen blockSize ri c).
  Local Notation rrec := (replay_record rp kp bhl mp tp tcrc compress snappy fgen blockSize ri c).
  Local Notation ents st := (mem_entries mp (Some (r_mdb st))).

  Theorem replay_record_rw_decompose o j b st st' :
    oo_strict_j o = false -> OpenJournalProofs.jb_ok kp b -> minv st -> rrec o true j (jb_enc kp b) st = OOk st' ->
    exists st1,
      rrec o false j (jb_enc kp b) st = OOk st1 /\ minv st1 /\ r_c st1 = r_c st /\ r_rec st1 = r_rec st /\
      (if fst b <? r_seq st then r_mdb st1 = r_mdb st
       else forall x, In x (ents st1) <-> In x (ents st) \/ In x (jb_entries kp b)) /\
      (st' = st1 \/
       exists st2, flushm st1 = OOk st2 /\ r_c st' = r_c st2 /\ r_rec st' = r_rec st2 /\ ents st' = [] /\ minv st').
  Proof.
    intros Hns Hb Hinv.
    destruct (replay_record_written rp kp kpok seek_val mp mpok tp tcrc compress snappy fgen blockSize ri c cok
                o j b st Hns Hb Hinv) as (st1 & E1 & Ec1 & Er1 & Hinv1 & Hcase).
    intros E. exists st1. split; [exact E1|]. split; [exact Hinv1|]. split; [exact Ec1|]. split; [exact Er1|].
    split.
    { destruct (fst b <? r_seq st); [exact (proj1 (proj2 Hcase))|exact (proj2 (proj2 Hcase))]. }
    revert E1 E. unfold replay_record.
    destruct (BT.decode_to_mem kp bhl (ibc c) mp (jb_enc kp b) (r_seq st) (r_mdb st) (r_hts st)) as [sq bl d hts|e d hts| |];
      try discriminate.
    - cbn [andb]. intros E1. injection E1 as <-.
      destruct (oo_wbuf o <=? MemDB.mdb_size d)%Z; [|intros E; injection E as <-; left; reflexivity].
      set (st1 := mkRJ _ _ _ _ _ _) in *.
      destruct (flushm st1) as [st2|e2] eqn:Ef; cbn [obind]; [|discriminate].
      destruct (flush_memdb_facts rp kp mp tp tcrc compress snappy fgen blockSize ri c _ _ Ef) as (Fs & Fm & Fh & Fk & Fj).
      destruct (reset_mem_ok kp seek_val mp mpok c (r_mdb st2)) as (d0 & Er & Hm0 & He0); [rewrite Fm; exact (proj1 Hinv1)|].
      rewrite Er. cbn [of_mres obind]. intros E. injection E as <-. right. exists st2.
      split; [reflexivity|]. unfold set_mdb. cbn [r_c r_rec r_mdb r_seq r_hts]. split; [reflexivity|]. split; [reflexivity|].
      split; [exact He0|].
      unfold OpenJournalProofs.mem_inv. cbn [r_seq r_mdb r_hts].
      split; [exact Hm0|]. split; [rewrite Fh; exact (proj1 (proj2 Hinv1))|]. intros x Hx. rewrite He0 in Hx. destruct Hx.
    - rewrite Hns. intros E1 E. rewrite E1 in E. injection E as <-. left. reflexivity.
  Qed.
End ReplayFlush.

(* ------------------------------------------------------------------ non-vacuity *)
From GL Require Import Codec.BytesCmp Codec.BytesCmpProofs Codec.TblCrc Store.OpenPathProofs Store.OpenExample
  Gen.Consts Gen.ConstsOk Gen.ConstsOkMem Gen.ConstsOkTbl Gen.Inst Gen.InstTbl Gen.InstMem Gen.InstRecord.

(* goleveldb's default comparer returns byte strings *)
Lemma bytewise_wf : cmp_wf bytewise.
Proof.
  split.
  - induction a as [|x a IH]; intros b d Wa Wb; [discriminate|]. destruct b as [|y b]; [discriminate|].
    cbn [sep bytewise bsep]. inversion Wa as [|? ? Wx Wa']; subst. inversion Wb as [|? ? Wy Wb']; subst.
    destruct (x =? y).
    + destruct (bsep a b) as [d'|] eqn:E; [|discriminate]. cbn [option_map]. intros H. injection H as <-.
      constructor; [exact Wx|]. exact (IH b d' Wa' Wb' E).
    + destruct ((x <? 255) && (x + 1 <? y)) eqn:E; [|discriminate]. intros H. injection H as <-.
      constructor; [|constructor]. unfold wf_byte. apply andb_prop in E as [E _]. apply N.ltb_lt in E. lia.
  - induction b as [|x b IH]; intros d W; [discriminate|]. cbn [succ bytewise bsucc]. inversion W as [|? ? Wx Wb']; subst.
    destruct (x =? 255) eqn:E.
    + destruct (bsucc b) as [d'|] eqn:E2; [|discriminate]. cbn [option_map]. intros H. injection H as <-.
      constructor; [exact Wx|]. exact (IH d' Wb' E2).
    + intros H. injection H as <-. constructor; [|constructor]. unfold wf_byte in *. apply N.eqb_neq in E. lia.
Qed.

(* the hypotheses of flush_memdb_table_ok hold together: the replay buffer after the synced batch of the example image
   (Store/OpenExample.v ox_b1: Put a, Delete b at sequence numbers 1, 2), flushed as table 0 with the generated
   constants, the real CRC-32C, 4 KiB blocks, restart interval 16, no compression, no filter *)
Lemma fx_flush_hyps :
  cmp_wf bytewise /\ (forall b, tbl_crc b < 2 ^ 32) /\
  exists st st',
    mem_ok bytewise kp mp (r_mdb st) /\ length (mem_pairs mp (r_mdb st)) = 2%nat /\
    flush_side_ok kp tblp tbl_crc (fun x => 0 :: x) (fun x => Some (tl x)) false None 4096 16 bytewise None (fun _ _ _ => true) true
      (Z.to_N (s_next (c_sess (r_c st)))) (mem_pairs mp (r_mdb st)) /\
    flush_memdb rp kp mp tblp tbl_crc (fun x => 0 :: x) false None 4096 16 bytewise st = OOk st'.
Proof.
  split; [exact bytewise_wf|]. split; [intros b; unfold tbl_crc, crc_mask; apply N.mod_lt; discriminate|].
  destruct (new_mem_ok kp ox_seek_val mp mp_ok bytewise) as (d0 & E0 & Hm0 & He0).
  set (st0 := mkRJ (mkC [] None sess_new [] []) SR.sr_empty 1 d0 [] []).
  assert (Hinv0 : OpenJournalProofs.mem_inv kp mp bytewise st0).
  { split; [exact Hm0|]. split; [constructor|]. cbn [r_mdb st0]. intros x Hx. rewrite He0 in Hx. destruct Hx. }
  assert (Hb : OpenJournalProofs.jb_ok kp ox_b1).
  { pose proof ox_jb_ok as H. inversion H; subst. assumption. }
  destruct (replay_record_written rp kp kp_ok ox_seek_val mp mp_ok tblp tbl_crc (fun x => 0 :: x) false None 4096 16 bytewise
              bytewise_ok (ox_opts false) 1 ox_b1 st0 eq_refl Hb Hinv0) as (st1 & E1 & _ & _ & Hinv1 & _).
  exists st1.
  destruct (flush_memdb_total rp kp ox_seek_val mp mp_ok tblp tbl_crc (fun x => 0 :: x) false None 4096 16 bytewise st1
              (proj1 Hinv1)) as (st2 & E2).
  exists st2. split; [exact (proj1 Hinv1)|].
  vm_compute in E0. injection E0 as <-. vm_compute in E1. injection E1 as <-.
  split; [vm_compute; reflexivity|]. split; [|exact E2].
  split; [vm_compute; reflexivity|left; reflexivity].
Qed.
