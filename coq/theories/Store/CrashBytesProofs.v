(* Store/CrashBytesProofs.v — a byte-level crash image of a journal-format file is read back as one of the
   record-level images Store/Crash.v quantifies over.  Built on C12's results (Codec/JournalProofs.v):
   truncation, truncation_complete (pure cuts) and the two refinement results reader_factor /
   jwrite_layout with the block-parser lemmas (cuts followed by zeros or garbage). *)
From GL Require Import Base.Bytes Base.BytesProofs Codec.Journal Codec.JournalSpec Codec.JournalLemmas
  Codec.JournalLayoutProofs Codec.JournalReaderProofs Codec.JournalWriterProofs Codec.JournalProofs Store.Crash Store.CrashProofs
  Store.CrashBytes.
From Coq Require Import PeanoNat Lia ZifyN ZifyNat ZifyBool.

Lemma recs_of_app a b : recs_of (a ++ b) = recs_of a ++ recs_of b.
Proof. unfold recs_of. apply flat_map_app. Qed.

Lemma recs_of_map_rec l : recs_of (map Rec l) = l.
Proof. induction l as [|x l IH]; [reflexivity|]. cbn. unfold recs_of in IH. now rewrite IH. Qed.

Lemma recs_of_end_ok t : end_ok false t -> recs_of t = [].
Proof. intros [->| ->]; reflexivity. Qed.

Lemma firstn_firstn_len {A} (l : list A) m : firstn m l = firstn (Nat.min m (length l)) l.
Proof.
  destruct (Nat.le_ge_cases m (length l)) as [H|H].
  - now rewrite Nat.min_l.
  - rewrite Nat.min_r by exact H. now rewrite !firstn_all2 by lia.
Qed.

Lemma Forall2_len {A B} (R : A -> B -> Prop) a b : Forall2 R a b -> length a = length b.
Proof. induction 1; cbn; congruence. Qed.

Lemma firstn_S_nth {A} (d : A) i : forall l, (i < length l)%nat -> firstn (S i) l = firstn i l ++ [nth i l d].
Proof.
  induction i as [|i IH]; intros [|x l] H; cbn [length] in H; try lia; [reflexivity|].
  cbn [firstn nth app]. f_equal. apply IH. lia.
Qed.

Lemma hd_skipn_nth {A} (d : A) i : forall l, hd d (skipn i l) = nth i l d.
Proof. induction i as [|i IH]; intros [|x l]; try reflexivity. cbn [skipn nth]. apply IH. Qed.

Section CrashBytesProofs.
  Variable crc : bytes -> N.
  Variable p : jparams.
  Hypothesis pok : jparams_ok p.

  Let H7 : hs p = 7 := hs7 p pok.
  Let Hb : hs p < bs p := hs_lt_bs p pok.

  (* ------------------------------------------------------------------ pure cuts: C12 as a black box *)
  (* Reading the first n bytes of the stream written for rs keeps a prefix of rs that contains every
     record written (and flushed) within those n bytes. *)
  Lemma cut_records ck fl (rs : list bytes) n :
    exists m, (m <= length rs)%nat /\
      recs_of (jread crc p false ck (firstn n (jwrite crc p fl rs))) = firstn m rs /\
      forall k, (length (jwrite crc p fl (firstn k rs)) <= n)%nat -> (Nat.min k (length rs) <= m)%nat.
  Proof.
    destruct (truncation crc p pok false ck fl rs n) as (m0 & t & E & Ht).
    exists (Nat.min m0 (length rs)). split; [lia|]. split.
    - rewrite E, recs_of_app, recs_of_map_rec, (recs_of_end_ok t Ht), app_nil_r.
      apply firstn_firstn_len.
    - intros k Hk. destruct (truncation_complete crc p pok false ck fl rs n k Hk) as (t' & E').
      rewrite E in E'. apply (f_equal recs_of) in E'.
      rewrite !recs_of_app, !recs_of_map_rec, (recs_of_end_ok t Ht), app_nil_r in E'.
      apply (f_equal (@length _)) in E'. rewrite app_length, !firstn_length in E'. lia.
  Qed.

  (* ------------------------------------------------------------------ cuts followed by anything *)
  Lemma render_chunks_app a b : render_chunks crc (a ++ b) = render_chunks crc a ++ render_chunks crc b.
  Proof. unfold render_chunks. apply flat_map_app. Qed.

  (* the stream of a layout is a prefix of the stream of any layout that extends it *)
  Lemma render_ext l1 l : lay_ext l1 l -> exists y, render_lay crc p l = render_lay crc p l1 ++ y.
  Proof.
    intros (more & [(E1 & E2)|(rest & E)]); unfold render_lay.
    - rewrite E1, E2, render_chunks_app. eexists. rewrite <- app_assoc. reflexivity.
    - rewrite E, flat_map_app.
      change (flat_map (render_closed crc p) ((l_open l1 ++ more) :: rest))
        with (render_closed crc p (l_open l1 ++ more) ++ flat_map (render_closed crc p) rest).
      assert (R : forall a b, render_closed crc p (a ++ b) =
                  render_chunks crc a ++ (render_chunks crc b ++ zeros (bs p - bsize p (a ++ b)))).
      { intros a b. unfold render_closed. rewrite render_chunks_app, <- app_assoc. reflexivity. }
      rewrite R. eexists. rewrite <- !app_assoc. reflexivity.
  Qed.

  Lemma open_ok_tl c cs : open_ok p (c :: cs) -> open_ok p cs.
  Proof. intros (Hs & Hf). split; [cbn [bsize] in Hs; lia|]. now inversion Hf. Qed.

  (* the chunks of an open block parse back whatever follows them *)
  Lemma parse_chunks_app ck cs z : open_ok p cs ->
    parse_from crc p ck (render_chunks crc cs ++ z) = map BChunk cs ++ parse_from crc p ck z.
  Proof.
    intros Hok. induction cs as [|c cs IH]; [reflexivity|].
    unfold render_chunks. cbn [flat_map map]. fold (render_chunks crc cs). rewrite <- !app_assoc.
    rewrite (parse_chunk crc p pok).
    - cbn [app]. f_equal. apply IH. apply (open_ok_tl c). exact Hok.
    - destruct Hok as (_ & Hf). now inversion Hf.
    - apply (chunk_len_bound p pok (c :: cs)); [exact Hok|now left].
  Qed.

  (* whatever follows the stream of a layout, the block parser first yields the layout's chunks *)
  Lemma events_prefix_gen ck closed open z : Forall (closed_ok p) closed -> open_ok p open ->
    exists E, stream_events crc p ck (flat_map (render_closed crc p) closed ++ render_chunks crc open ++ z)
              = map BChunk (concat closed ++ open) ++ E.
  Proof.
    intros Hc Ho. induction closed as [|c1 closed IH].
    - cbn [flat_map concat app]. destruct open as [|c cs].
      + cbn. eexists. reflexivity.
      + pose proof (lenN_render_chunks crc p pok (c :: cs)) as L.
        eexists. rewrite (stream_events_cons crc p pok).
        * destruct Ho as (Hs & Hf). rewrite takeN_app_ge by lia.
          rewrite (parse_chunks_app ck (c :: cs) _ (conj Hs Hf)). rewrite <- app_assoc. reflexivity.
        * intros E0. apply (f_equal lenN) in E0. rewrite lenN_app, L in E0. cbn [bsize] in E0.
          unfold csize in E0. change (lenN (@nil N)) with 0 in E0. lia.
    - inversion Hc as [|? ? Hc1 Hc']; subst. cbn [flat_map concat]. rewrite <- !app_assoc.
      destruct Hc1 as (Hbig & Hok1).
      pose proof (lenN_render_closed crc p pok c1 Hok1) as L1.
      destruct (IH Hc') as (E & IHE). exists E.
      rewrite (stream_events_cons crc p pok).
      + rewrite takeN_app_exact, dropN_app_exact by exact L1. rewrite IHE.
        rewrite (map_app BChunk c1), <- app_assoc. f_equal.
        unfold render_closed. apply (parse_chunks crc p pok); [exact Hok1|]. rewrite lenN_zeros. lia.
      + intros E0. apply (f_equal lenN) in E0. rewrite lenN_app, L1 in E0.
        change (lenN (@nil N)) with 0 in E0. lia.
  Qed.

  Lemma events_prefix ck l z : wf_lay p l ->
    exists E, stream_events crc p ck (render_lay crc p l ++ z) = map BChunk (lay_chunks l) ++ E.
  Proof.
    intros (H1 & H2). unfold render_lay, lay_chunks. rewrite <- app_assoc.
    apply events_prefix_gen; assumption.
  Qed.

  (* ---- the hypothesis, unfolded *)
  Lemma lead_chunks_spec evs : forall cs rest, lead_chunks evs = (cs, rest) -> evs = map BChunk cs ++ rest.
  Proof.
    induction evs as [|e evs IH]; intros cs rest H; cbn [lead_chunks] in H.
    - injection H as <- <-. reflexivity.
    - destruct e as [c|r sz].
      + destruct (lead_chunks evs) as (cs0, r0). injection H as <- <-. cbn [map app]. f_equal. apply IH. reflexivity.
      + injection H as <- <-. reflexivity.
  Qed.

  Lemma chunk_eqb_eq a b : chunk_eqb a b = true -> a = b.
  Proof.
    destruct a as [t d], b as [t' d']. unfold chunk_eqb. cbn [c_type c_data]. intros H.
    apply andb_true_iff in H. destruct H as (Ht & Hd). apply N.eqb_eq in Ht. apply beq_eq in Hd. now subst.
  Qed.

  Lemma chunks_prefixb_sound a : forall b, chunks_prefixb a b = true -> exists c, b = a ++ c.
  Proof.
    induction a as [|x a IH]; intros b H.
    - exists b. reflexivity.
    - destruct b as [|y b]; cbn [chunks_prefixb] in H; [discriminate|].
      apply andb_true_iff in H. destruct H as (Hx & Hr). apply chunk_eqb_eq in Hx. subst y.
      destruct (IH b Hr) as (c & ->). exists c. reflexivity.
  Qed.

  Lemma chunks_prefixb_refl a : forall c, chunks_prefixb a (a ++ c) = true.
  Proof.
    induction a as [|x a IH]; intros c; [reflexivity|]. cbn [app chunks_prefixb]. rewrite IH.
    unfold chunk_eqb. rewrite N.eqb_refl. replace (beq (c_data x) (c_data x)) with true; [reflexivity|].
    symmetry. apply beq_eq. reflexivity.
  Qed.

  Lemma chunk_run_prefix a : forall b E bads,
    map BChunk a ++ E = map BChunk b ++ bads -> forallb is_bad bads = true ->
    exists c, b = a ++ c /\ E = map BChunk c ++ bads.
  Proof.
    induction a as [|x a IH]; intros b E bads H Hbad.
    - exists b. split; [reflexivity|exact H].
    - destruct b as [|y b]; cbn [map app] in H.
      + destruct bads as [|e bads]; [discriminate|]. injection H as <- _. cbn in Hbad. discriminate.
      + injection H as <- H. destruct (IH b E bads H Hbad) as (c & -> & ->). exists c. split; reflexivity.
  Qed.

  (* ---- what the tolerant assembler makes of chunks followed by rejected regions only *)
  Lemma assemble_idle_bads t : forallb is_bad t = true -> outs (assemble p false AIdle t) = [].
  Proof.
    induction t as [|e t IH]; intros H; [reflexivity|].
    destruct e as [c|r sz]; cbn in H; [discriminate|]. cbn [assemble]. rewrite outs_drop. apply IH. exact H.
  Qed.

  Lemma assemble_in_bads acc t : forallb is_bad t = true -> outs (assemble p false (AIn acc) t) = [Skipped].
  Proof.
    destruct t as [|e t]; intros H; [reflexivity|].
    destruct e as [c|r sz]; cbn in H; [discriminate|]. cbn [assemble]. rewrite outs_drop.
    change (outs (Skipped :: assemble p false AIdle t)) with (Skipped :: outs (assemble p false AIdle t)).
    rewrite assemble_idle_bads by exact H. reflexivity.
  Qed.

  Lemma assemble_cont_cut_bads x cs : cont_chunks p x cs -> forall k acc t,
    (k < length cs)%nat -> forallb is_bad t = true ->
    outs (assemble p false (AIn acc) (map BChunk (firstn k cs) ++ t)) = [Skipped].
  Proof.
    pose proof (type_facts p pok) as (_&_&_&_&_&Hm&_&Hl).
    induction 1 as [d|d x cs Hc IH]; intros k acc t Hk Ht.
    - cbn [length] in Hk. replace k with 0%nat by lia. cbn [firstn map app].
      apply assemble_in_bads; exact Ht.
    - destruct k as [|k]; cbn [firstn map app].
      + apply assemble_in_bads; exact Ht.
      + cbn [assemble mk c_type c_data]. rewrite Hm. apply IH; [cbn [length] in Hk; lia|exact Ht].
  Qed.

  Lemma assemble_rec_cut_bads r cs k t : rec_chunks p r cs ->
    (k < length cs)%nat -> forallb is_bad t = true ->
    end_ok false (outs (assemble p false AIdle (map BChunk (firstn k cs) ++ t))).
  Proof.
    pose proof (type_facts p pok) as (Hs1&Hl1&Hs2&Hl2&_).
    intros Hr Hk Ht. destruct k as [|k].
    - cbn [firstn map app]. left. apply assemble_idle_bads; exact Ht.
    - destruct Hr as [r'|d x cs' Hc]; cbn [length] in Hk; [lia|].
      cbn [firstn map app assemble mk c_type c_data]. rewrite Hs2, Hl2.
      right. apply (assemble_cont_cut_bads x cs' Hc); [lia|exact Ht].
  Qed.

  (* the records yielded are exactly those all of whose chunks are among the first k *)
  Lemma assemble_prefix_bads rs css : Forall2 (rec_chunks p) rs css -> forall k t,
    forallb is_bad t = true ->
    exists m tl,
      outs (assemble p false AIdle (map BChunk (firstn k (concat css)) ++ t)) = map Rec (firstn m rs) ++ tl /\
      end_ok false tl /\ (m <= length rs)%nat /\
      (length (concat (firstn m css)) <= k)%nat /\
      ((m < length rs)%nat -> (k < length (concat (firstn (S m) css)))%nat).
  Proof.
    induction 1 as [|r cs rs css Hr Hrs IH]; intros k t Ht.
    - exists 0%nat, []. rewrite firstn_nil. cbn [concat map app firstn length].
      rewrite assemble_idle_bads by exact Ht.
      split; [reflexivity|]. split; [left; reflexivity|]. split; [lia|]. split; lia.
    - cbn [concat]. destruct (Nat.leb (length cs) k) eqn:E.
      + apply Nat.leb_le in E.
        rewrite firstn_app. rewrite firstn_all2 by lia.
        destruct (IH (k - length cs)%nat t Ht) as (m & tl & Em & Hok & Hm & Hlo & Hhi).
        exists (S m), tl. rewrite map_app, <- app_assoc, (assemble_rec p pok false r cs _ Hr).
        rewrite outs_rec, Em. split; [reflexivity|]. split; [exact Hok|].
        rewrite !firstn_cons. cbn [length concat]. rewrite !app_length. split; [lia|]. split; [lia|].
        intros Hlt. assert (Hm' : (m < length rs)%nat) by lia. specialize (Hhi Hm').
        lia.
      + apply Nat.leb_gt in E.
        rewrite firstn_app. replace (k - length cs)%nat with 0%nat by lia. cbn [firstn]. rewrite app_nil_r.
        exists 0%nat, (outs (assemble p false AIdle (map BChunk (firstn k cs) ++ t))).
        split; [reflexivity|]. split; [apply (assemble_rec_cut_bads r cs k t Hr E Ht)|].
        cbn [firstn concat length]. rewrite app_nil_r. split; [lia|]. split; lia.
  Qed.

  Lemma jwrite_nil fl : jwrite crc p fl [] = [].
  Proof. rewrite (jwrite_layout crc p pok). reflexivity. Qed.

  (* Reading "the first n bytes of the stream written for rs, then anything" under the hypothesis: a
     prefix of rs that contains every record written within the n bytes. *)
  Lemma tail_records_k ck fl (rs : list bytes) n tail k :
    (length (jwrite crc p fl (firstn k rs)) <= n)%nat ->
    no_forgery_tail crc p ck rs (firstn n (jwrite crc p fl rs) ++ tail) = true ->
    exists m, (m <= length rs)%nat /\ (Nat.min k (length rs) <= m)%nat /\
      recs_of (jread crc p false ck (firstn n (jwrite crc p fl rs) ++ tail)) = firstn m rs.
  Proof.
    intros Hlen Hnf. unfold jread. rewrite (reader_factor crc p pok).
    rewrite !(jwrite_layout crc p pok) in *.
    set (rs1 := firstn k rs) in *. set (rs2 := skipn k rs).
    assert (Ers : rs = rs1 ++ rs2) by (symmetry; apply firstn_skipn).
    destruct (layout_ok crc p pok rs1 lay_empty (wf_empty p pok)) as (W1 & css1 & E1 & H1).
    change (lay_chunks lay_empty) with (@nil chunk) in E1. cbn [app] in E1.
    fold (layout p rs1) in W1, E1.
    destruct (layout_ok crc p pok rs2 (layout p rs1) W1) as (W & css2 & E2 & H2).
    assert (EL : layout p rs = fold_left (lay_record p) rs2 (layout p rs1)).
    { unfold layout. rewrite Ers at 1. rewrite fold_left_app. reflexivity. }
    rewrite <- EL in W, E2.
    assert (Hext : lay_ext (layout p rs1) (layout p rs)) by (rewrite EL; apply lay_ext_fold, lay_ext_refl).
    destruct (render_ext _ _ Hext) as (y & Ey).
    set (d := firstn n (render_lay crc p (layout p rs)) ++ tail) in *.
    set (z := firstn (n - length (render_lay crc p (layout p rs1))) y ++ tail).
    assert (Ed : d = render_lay crc p (layout p rs1) ++ z).
    { unfold d, z. rewrite Ey, firstn_app, (firstn_all2 (render_lay crc p (layout p rs1))) by lia.
      rewrite <- app_assoc. reflexivity. }
    destruct (events_prefix ck (layout p rs1) z W1) as (E & EE). rewrite <- Ed in EE.
    unfold no_forgery_tail in Hnf. destruct (lead_chunks (stream_events crc p ck d)) as (cs, rest) eqn:Elc.
    apply andb_true_iff in Hnf. destruct Hnf as (Hpre & Hbad).
    apply lead_chunks_spec in Elc. rewrite Elc in EE. symmetry in EE.
    destruct (chunk_run_prefix _ _ _ _ EE Hbad) as (c & Ecs & _).
    destruct (chunks_prefixb_sound _ _ Hpre) as (c2 & Ec2).
    rewrite E2, Ecs, E1, <- app_assoc in Ec2. apply app_inv_head in Ec2.
    assert (Ec : c = firstn (length c) (concat css2)).
    { rewrite Ec2, firstn_app, firstn_all, Nat.sub_diag. cbn [firstn]. now rewrite app_nil_r. }
    rewrite Elc, Ecs, E1, map_app, <- app_assoc.
    rewrite (assemble_records p pok false rs1 css1 _ H1). rewrite outs_app, outs_recs.
    rewrite Ec.
    destruct (assemble_prefix_bads rs2 css2 H2 (length c) rest Hbad) as (m & tl & Em & Hok & Hm & _).
    rewrite Em. exists (length rs1 + m)%nat.
    assert (L1 : length rs1 = Nat.min k (length rs)) by (unfold rs1; apply firstn_length).
    pose proof (f_equal (@length _) Ers) as Lrs. rewrite app_length in Lrs.
    split; [lia|]. split; [lia|].
    rewrite !recs_of_app, !recs_of_map_rec, (recs_of_end_ok tl Hok), app_nil_r.
    rewrite Ers at 1. rewrite firstn_app_2. reflexivity.
  Qed.

  Lemma tail_records ck fl (rs : list bytes) n tail :
    no_forgery_tail crc p ck rs (firstn n (jwrite crc p fl rs) ++ tail) = true ->
    exists m, (m <= length rs)%nat /\
      recs_of (jread crc p false ck (firstn n (jwrite crc p fl rs) ++ tail)) = firstn m rs /\
      forall k, (length (jwrite crc p fl (firstn k rs)) <= n)%nat -> (Nat.min k (length rs) <= m)%nat.
  Proof.
    intros Hnf.
    assert (H0 : (length (jwrite crc p fl (firstn 0 rs)) <= n)%nat).
    { cbn [firstn]. rewrite jwrite_nil. cbn. lia. }
    destruct (tail_records_k ck fl rs n tail 0 H0 Hnf) as (m & Hm & _ & Em).
    exists m. split; [exact Hm|]. split; [exact Em|].
    intros k Hk. destruct (tail_records_k ck fl rs n tail k Hk Hnf) as (m' & Hm' & Hk' & Em').
    rewrite Em in Em'. apply (f_equal (@length _)) in Em'. rewrite !firstn_length in Em'. lia.
  Qed.

  (* the hypothesis holds of every pure cut *)
  Lemma lead_chunks_run l tl : tail_ok tl -> lead_chunks (map BChunk l ++ tl) = (l, tl).
  Proof.
    intros Ht. induction l as [|c l IH]; cbn [map app lead_chunks].
    - destruct Ht as [->|(r & sz & ->)]; reflexivity.
    - rewrite IH. reflexivity.
  Qed.

  Lemma no_forgery_tail_cut ck fl (rs : list bytes) n :
    no_forgery_tail crc p ck rs (firstn n (jwrite crc p fl rs) ++ []) = true.
  Proof.
    rewrite app_nil_r, (jwrite_layout crc p pok).
    destruct (layout_chunks crc p pok rs) as ((W1 & W2) & css & E & H).
    replace (firstn n (render_lay crc p (layout p rs)))
      with (takeN (N.of_nat n) (render_lay crc p (layout p rs)))
      by (unfold takeN; rewrite Nat2N.id; reflexivity).
    destruct (stream_events_cut_gen crc p pok ck _ _ W1 W2 (N.of_nat n)) as (tl & Ek & Ht).
    change (flat_map (render_closed crc p) (l_closed (layout p rs)) ++ render_chunks crc (l_open (layout p rs)))
      with (render_lay crc p (layout p rs)) in Ek.
    change (concat (l_closed (layout p rs)) ++ l_open (layout p rs)) with (lay_chunks (layout p rs)) in Ek.
    unfold no_forgery_tail. rewrite Ek, (lead_chunks_run _ _ Ht).
    apply andb_true_iff. split.
    - set (q := fitb p _ _ _). rewrite <- (firstn_skipn q (lay_chunks (layout p rs))) at 2.
      apply chunks_prefixb_refl.
    - destruct Ht as [->|(r & sz & ->)]; reflexivity.
  Qed.

  (* ------------------------------------------------------------------ exactly the records inside the cut *)
  (* the open block of a non-empty layout is never empty: a record ends with the push of its last chunk *)
  Lemma lay_record_open l r : wf_lay p l -> l_open (lay_record p l r) <> [].
  Proof.
    intros Wf. destruct (lay_next_ok p pok l Wf) as (W1 & Hfit & _).
    unfold lay_record. rewrite (lws_fin p pok).
    - destruct (lay_write_st p (length r) (lay_next p l) true [] r) as ((l', f'), d').
      cbn. intros E. destruct (l_open l'); discriminate.
    - unfold fits. change (lenN (@nil N)) with 0. lia.
    - lia.
  Qed.

  Lemma layout_open_nonempty rs : forall l, wf_lay p l -> rs <> [] ->
    l_open (fold_left (lay_record p) rs l) <> [].
  Proof.
    induction rs as [|r rs IH]; intros l Wf Hne; [congruence|]. cbn [fold_left].
    destruct rs as [|r' rs'].
    - cbn. apply lay_record_open. exact Wf.
    - apply IH; [|discriminate]. apply (lay_record_ok crc p pok). exact Wf.
  Qed.

  Lemma fit_lt a : forall b n, n < bsize p a -> (fit p (a ++ b) n < length a)%nat.
  Proof.
    induction a as [|c a IH]; intros b n H; cbn [bsize app fit length] in *; [lia|].
    destruct (csize p c <=? n) eqn:E; [|lia].
    specialize (IH b (n - csize p c)). lia.
  Qed.

  Lemma fitb_lt_same cl1 o1 more : o1 <> [] -> forall n, n < bs p * lenN cl1 + bsize p o1 ->
    (fitb p cl1 (o1 ++ more) n < length (concat cl1) + length o1)%nat.
  Proof.
    intros Ho. induction cl1 as [|c1 cl IH]; intros n Hn.
    - cbn [fitb concat length]. change (lenN (@nil (list chunk))) with 0 in Hn. apply fit_lt. lia.
    - rewrite lenN_cons in Hn. cbn [fitb concat]. rewrite app_length.
      destruct (bs p <=? n) eqn:E.
      + specialize (IH (n - bs p)). lia.
      + pose proof (fit_le p pok c1 n). destruct o1; [congruence|]. cbn [length]. lia.
  Qed.

  Lemma fitb_lt_closed cl1 o1 more rest open' : o1 <> [] -> bsize p o1 <= bs p ->
    forall n, n < bs p * lenN cl1 + bsize p o1 ->
    (fitb p (cl1 ++ (o1 ++ more) :: rest) open' n < length (concat cl1) + length o1)%nat.
  Proof.
    intros Ho Hs. induction cl1 as [|c1 cl IH]; intros n Hn.
    - cbn [app fitb concat length]. change (lenN (@nil (list chunk))) with 0 in Hn.
      replace (bs p <=? n) with false by lia. apply fit_lt. lia.
    - rewrite lenN_cons in Hn. cbn [app fitb concat]. rewrite app_length.
      destruct (bs p <=? n) eqn:E.
      + specialize (IH (n - bs p)). lia.
      + pose proof (fit_le p pok c1 n). destruct o1; [congruence|]. cbn [length]. lia.
  Qed.

  Lemma fitb_lt_ext l1 l n :
    wf_lay p l1 -> lay_ext l1 l -> l_open l1 <> [] -> n < lenN (render_lay crc p l1) ->
    (fitb p (l_closed l) (l_open l) n < length (lay_chunks l1))%nat.
  Proof.
    intros W1 (more & Hext) Ho Hn. rewrite (lenN_render_lay crc p pok l1 W1) in Hn.
    destruct W1 as (Wc & (Ws & _)). unfold lay_chunks. rewrite app_length.
    destruct Hext as [(E1 & E2)|(rest & E)].
    - rewrite E1, E2. apply fitb_lt_same; assumption.
    - rewrite E. apply fitb_lt_closed; assumption.
  Qed.

  Lemma tail_ok_bad tl : tail_ok tl -> forallb is_bad tl = true.
  Proof. intros [->|(r & sz & ->)]; reflexivity. Qed.

  (* a cut strictly inside the stream of the first j records loses the j-th *)
  Lemma cut_upper ck fl (rs : list bytes) n j :
    (1 <= j <= length rs)%nat -> (n < length (jwrite crc p fl (firstn j rs)))%nat ->
    (length (recs_of (jread crc p false ck (firstn n (jwrite crc p fl rs)))) < j)%nat.
  Proof.
    intros Hj Hlen. unfold jread. rewrite (reader_factor crc p pok).
    rewrite !(jwrite_layout crc p pok) in *.
    set (rs1 := firstn j rs) in *. set (rs2 := skipn j rs).
    assert (Ers : rs = rs1 ++ rs2) by (symmetry; apply firstn_skipn).
    assert (L1 : length rs1 = j) by (unfold rs1; rewrite firstn_length; lia).
    destruct (layout_ok crc p pok rs1 lay_empty (wf_empty p pok)) as (W1 & css1 & E1 & H1).
    change (lay_chunks lay_empty) with (@nil chunk) in E1. cbn [app] in E1.
    fold (layout p rs1) in W1, E1.
    destruct (layout_ok crc p pok rs2 (layout p rs1) W1) as (W & css2 & E2 & H2).
    assert (EL : layout p rs = fold_left (lay_record p) rs2 (layout p rs1)).
    { unfold layout. rewrite Ers at 1. rewrite fold_left_app. reflexivity. }
    rewrite <- EL in W, E2.
    assert (Hext : lay_ext (layout p rs1) (layout p rs)) by (rewrite EL; apply lay_ext_fold, lay_ext_refl).
    assert (Ho : l_open (layout p rs1) <> []).
    { apply layout_open_nonempty; [apply (wf_empty p pok)|]. intros E0. rewrite E0 in L1. cbn in L1. lia. }
    replace (firstn n (render_lay crc p (layout p rs)))
      with (takeN (N.of_nat n) (render_lay crc p (layout p rs)))
      by (unfold takeN; rewrite Nat2N.id; reflexivity).
    destruct W as (Wc & Wo). unfold render_lay at 1.
    destruct (stream_events_cut_gen crc p pok ck _ _ Wc Wo (N.of_nat n)) as (tl & Ek & Ht).
    rewrite Ek. fold (lay_chunks (layout p rs)). rewrite E2.
    assert (Hn' : N.of_nat n < lenN (render_lay crc p (layout p rs1))) by (unfold lenN; lia).
    pose proof (fitb_lt_ext (layout p rs1) (layout p rs) (N.of_nat n) W1 Hext Ho Hn') as Hq.
    set (q := fitb p _ _ _) in *. rewrite E1 in Hq |- *.
    rewrite firstn_app. replace (q - length (concat css1))%nat with 0%nat by lia.
    cbn [firstn]. rewrite app_nil_r.
    destruct (assemble_prefix_bads rs1 css1 H1 q tl (tail_ok_bad tl Ht)) as (m & tlo & Em & Hok & Hm & Hlo & _).
    rewrite Em, recs_of_app, recs_of_map_rec, (recs_of_end_ok tlo Hok), app_nil_r, firstn_length.
    assert (m < length rs1)%nat; [|lia].
    destruct (Nat.eq_dec m (length rs1)) as [Em1|]; [|lia].
    pose proof (Forall2_len _ _ _ H1) as L2. rewrite firstn_all2 in Hlo by lia. lia.
  Qed.

  (* cut_records with m characterised: the m records kept are wholly inside the n bytes, and no more are *)
  Lemma cut_records_exact ck fl (rs : list bytes) n :
    exists m, (m <= length rs)%nat /\
      recs_of (jread crc p false ck (firstn n (jwrite crc p fl rs))) = firstn m rs /\
      (length (jwrite crc p fl (firstn m rs)) <= n)%nat /\
      forall k, (k <= length rs)%nat -> (length (jwrite crc p fl (firstn k rs)) <= n)%nat -> (k <= m)%nat.
  Proof.
    destruct (cut_records ck fl rs n) as (m & Hm & Em & Hk).
    exists m. split; [exact Hm|]. split; [exact Em|]. split.
    - destruct m as [|m']; [cbn [firstn]; rewrite jwrite_nil; cbn; lia|].
      destruct (Nat.le_gt_cases (length (jwrite crc p fl (firstn (S m') rs))) n) as [H|H]; [exact H|].
      pose proof (cut_upper ck fl rs n (S m') ltac:(lia) H) as Hu.
      rewrite Em, firstn_length in Hu. lia.
    - intros k Hkl Hlen. specialize (Hk k Hlen). lia.
  Qed.

  (* ------------------------------------------------------------------ where a Sync can happen *)
  (* writeJournal / flushManifest call Sync right after Flush.  When the writer model has written k records
     and flushed after the k-th, the bytes that have reached the file are exactly jwrite fl (firstn k rs)
     — the synced_len of Store/CrashBytes.v — and writing the remaining records continues from that state. *)
  Lemma wRecords_app a : forall s fl b,
    wRecords crc p s fl (a ++ b) =
    wbind (wRecords crc p s fl a) (fun s1 => wRecords crc p s1 (skipn (length a) fl) b).
  Proof.
    induction a as [|r a IH]; intros s fl b; [reflexivity|].
    cbn [app wRecords length]. destruct (wRecord crc p s r (hd false fl)) as [s1| |]; cbn [wbind]; [|reflexivity|reflexivity].
    rewrite IH. destruct fl as [|f fl]; [|reflexivity]. cbn [tl skipn]. now rewrite skipn_nil.
  Qed.

  Lemma writePending_flushed s s' : writePending crc p s = WOk s' -> w_pending s' = false /\ w_written s' = w_j s'.
  Proof.
    unfold writePending. intros H.
    destruct (w_pending s) eqn:Ep.
    - destruct (fillHeader crc p true s) as [s1| |]; cbn [wbind] in H; try discriminate.
      destruct (slice _ _ _); [|discriminate]. injection H as <-. cbn. split; reflexivity.
    - cbn [wbind] in H. destruct (slice _ _ _); [|discriminate]. injection H as <-. cbn. split; [exact Ep|reflexivity].
  Qed.

  Lemma writePending_idem s s' : w_pending s = false -> w_written s = w_j s ->
    writePending crc p s = WOk s' -> w_out s' = w_out s.
  Proof.
    intros Ep Ew H. unfold writePending in H. rewrite Ep in H. cbn [wbind] in H.
    destruct (slice (w_buf s) (w_written s) (w_j s)) as [d|] eqn:Es; [|discriminate].
    injection H as <-. cbn. apply slice_len in Es. destruct Es as (_ & _ & Ld).
    rewrite Ew, N.sub_diag in Ld. apply lenN_0 in Ld. subst d. apply app_nil_r.
  Qed.

  Theorem sync_point_bytes fl (rs : list bytes) k :
    (1 <= k <= length rs)%nat -> nth (k - 1) fl false = true ->
    exists s, wRecords crc p (w_init p) fl (firstn k rs) = WOk s /\
              w_out s = jwrite crc p fl (firstn k rs) /\
              wRecords crc p (w_init p) fl rs = wRecords crc p s (skipn k fl) (skipn k rs).
  Proof.
    intros Hk Hfl.
    destruct (writer_total crc p pok fl (firstn k rs)) as (s' & Eres & Eout).
    unfold jwrite_res in Eres.
    destruct (wRecords crc p (w_init p) fl (firstn k rs)) as [s| |] eqn:Er; cbn [wbind] in Eres; try discriminate.
    exists s. split; [reflexivity|]. split.
    - rewrite <- Eout. symmetry. unfold wClose in Eres.
      (* the k-th record was flushed: s is the result of a writePending *)
      assert (Hs : w_pending s = false /\ w_written s = w_j s).
      { assert (Ek : firstn k rs = firstn (k - 1) rs ++ [nth (k - 1) rs []]).
        { replace k with (S (k - 1)) at 1 by lia. apply firstn_S_nth. lia. }
        rewrite Ek, wRecords_app in Er.
        destruct (wRecords crc p (w_init p) fl (firstn (k - 1) rs)) as [s0| |]; cbn [wbind] in Er; try discriminate.
        cbn [wRecords] in Er.
        assert (Eh : hd false (skipn (length (firstn (k - 1) rs)) fl) = true).
        { rewrite firstn_length, Nat.min_l by lia. rewrite <- Hfl.
          apply hd_skipn_nth. }
        rewrite Eh in Er. unfold wRecord in Er.
        destruct (wNext crc p s0) as [s1| |]; cbn [wbind] in Er; try discriminate.
        destruct (wWrite crc p _ s1 _) as [s2| |]; cbn [wbind] in Er; try discriminate.
        destruct (wFlush crc p s2) as [s3| |] eqn:Ef; cbn [wbind] in Er; try discriminate.
        injection Er as <-. unfold wFlush in Ef. apply (writePending_flushed s2 s3 Ef). }
      destruct Hs as (Hp & Hw). apply (writePending_idem s s' Hp Hw Eres).
    - rewrite <- (firstn_skipn k rs) at 1. rewrite wRecords_app, Er. cbn [wbind].
      rewrite firstn_length, Nat.min_l by lia. reflexivity.
  Qed.
End CrashBytesProofs.

(* ------------------------------------------------------------------ records with their own encoding *)
Section RecsProofs.
  Variable crc : bytes -> N.
  Variable p : jparams.
  Hypothesis pok : jparams_ok p.
  Variable A : Type.
  Variable enc : A -> bytes.
  Variable dec : bytes -> option A.

  (* the decoder contract, for the records that were written *)
  Definition dec_ok (recs : list A) : Prop := Forall (fun a => dec (enc a) = Some a) recs.

  Lemma keep_decoded_enc recs : dec_ok recs -> keep_decoded A dec (map enc recs) = recs.
  Proof.
    induction 1 as [|a recs Ha Hr IH]; [reflexivity|].
    cbn [map keep_decoded flat_map]. rewrite Ha. cbn [app]. f_equal. exact IH.
  Qed.

  Lemma dec_ok_firstn recs m : dec_ok recs -> dec_ok (firstn m recs).
  Proof.
    intros H. apply Forall_forall. intros a Ha. apply (proj1 (Forall_forall _ _) H).
    rewrite <- (firstn_skipn m recs). apply in_or_app. now left.
  Qed.

  (* A cut at any byte, followed by anything that satisfies the hypothesis: recovery keeps a prefix of the
     records that contains every record written and flushed within the kept bytes. *)
  Theorem byte_image_is_record_image ck fl recs n tail :
    dec_ok recs ->
    no_forgery_tail crc p ck (map enc recs) (crash_bytes crc p A enc fl recs n tail) = true ->
    exists m, (m <= length recs)%nat /\
      recover_bytes crc p A dec ck (crash_bytes crc p A enc fl recs n tail) = firstn m recs /\
      forall k, (synced_len crc p A enc fl recs k <= n)%nat -> (Nat.min k (length recs) <= m)%nat.
  Proof.
    intros Hd Hnf. unfold crash_bytes, jbytes, synced_len, recover_bytes, recover_records in *.
    destruct (tail_records crc p pok ck fl (map enc recs) n tail Hnf) as (m & Hm & Em & Hk).
    rewrite map_length in Hm, Hk. exists m. split; [exact Hm|]. split.
    - rewrite Em, firstn_map. apply keep_decoded_enc. apply dec_ok_firstn. exact Hd.
    - intros k Hlen. apply Hk. rewrite firstn_map. exact Hlen.
  Qed.

  (* the same for a pure cut: no hypothesis (C12's truncation and truncation_complete), and m is exactly the
     number of records whose stream lies within the first n bytes *)
  Theorem byte_cut_is_record_image ck fl recs n :
    dec_ok recs ->
    exists m, (m <= length recs)%nat /\
      recover_bytes crc p A dec ck (crash_bytes crc p A enc fl recs n []) = firstn m recs /\
      (synced_len crc p A enc fl recs m <= n)%nat /\
      forall k, (synced_len crc p A enc fl recs k <= n)%nat -> (Nat.min k (length recs) <= m)%nat.
  Proof.
    intros Hd. unfold crash_bytes, jbytes, synced_len, recover_bytes, recover_records in *.
    rewrite app_nil_r.
    destruct (cut_records_exact crc p pok ck fl (map enc recs) n) as (m & Hm & Em & Hin & Hk).
    rewrite map_length in Hm, Hk. exists m. split; [exact Hm|]. split; [|split].
    - rewrite Em, firstn_map. apply keep_decoded_enc. apply dec_ok_firstn. exact Hd.
    - unfold jbytes. rewrite <- firstn_map. exact Hin.
    - intros k Hlen. destruct (Nat.le_gt_cases k (length recs)) as [Hle|Hgt].
      + rewrite Nat.min_l by exact Hle. apply Hk; [exact Hle|]. unfold jbytes in Hlen. rewrite firstn_map. exact Hlen.
      + rewrite Nat.min_r by lia. apply Hk; [lia|]. unfold jbytes in Hlen.
        rewrite firstn_all2 by (rewrite map_length; lia).
        rewrite firstn_all2 in Hlen by lia. exact Hlen.
  Qed.

  (* what is_crash_bytes gives: a record prefix that contains the synced records *)
  Lemma crash_bytes_prefix ck recs k d :
    dec_ok recs -> is_crash_bytes crc p enc ck recs k d ->
    exists k', (k <= k')%nat /\ recover_bytes crc p A dec ck d = firstn k' recs.
  Proof.
    intros Hd (fl & n & tail & Hs & -> & Hnf).
    destruct (byte_image_is_record_image ck fl recs n tail Hd Hnf) as (m & Hm & Em & Hk).
    specialize (Hk k Hs). rewrite Em.
    destruct (Nat.le_gt_cases k m) as [Hle|Hgt].
    - exists m. split; [exact Hle|reflexivity].
    - exists k. split; [lia|]. assert (m = length recs) by lia. subst m.
      now rewrite !firstn_all2 by lia.
  Qed.
End RecsProofs.

(* ------------------------------------------------------------------ images of a persistence state *)
Section ImageProofs.
  Variable crc : bytes -> N.
  Variable p : jparams.
  Hypothesis pok : jparams_ok p.
  Variable enc_batch : batch -> bytes.
  Variable dec_batch : bytes -> option batch.
  Variable enc_edit : medit -> bytes.
  Variable dec_edit : bytes -> option medit.

  Definition codecs_ok (s : pstate) : Prop :=
    (forall b, In b (p_issued s) -> dec_batch (enc_batch b) = Some b) /\
    (forall e, In e (p_man s) -> dec_edit (enc_edit e) = Some e).

  Lemma jprefix_eq j k : (j_synced j <= k)%nat ->
    jprefix j k = {| j_num := j_num j; j_recs := firstn k (j_recs j); j_synced := j_synced j |}.
  Proof. intros H. unfold jprefix. f_equal. lia. Qed.

  (* Every byte-level crash image is, after the tolerant read, one of the record-level images. *)
  Theorem byte_image_is_image ck s b :
    pinv s -> codecs_ok s -> is_byte_image crc p enc_batch enc_edit ck s b ->
    is_image s (abs_image crc p dec_batch dec_edit ck s b).
  Proof.
    intros Hinv (Hcb & Hce) (Hl & Hf & Hm).
    assert (Dl : dec_ok batch enc_batch dec_batch (j_recs (p_live s))).
    { apply Forall_forall. intros x Hx. apply Hcb. apply (pi_issued s Hinv). right. left. exact Hx. }
    assert (Dm : dec_ok medit enc_edit dec_edit (p_man s)).
    { apply Forall_forall. intros x Hx. apply Hce. exact Hx. }
    unfold is_image, abs_image. cbn [i_live i_frozen i_man]. split; [|split].
    - destruct (crash_bytes_prefix crc p pok batch enc_batch dec_batch ck _ _ _ Dl Hl) as (k & Hk & Ek).
      exists k. split; [exact Hk|]. rewrite Ek, jprefix_eq by exact Hk. reflexivity.
    - destruct (p_frozen s) as [f|] eqn:Ef; destruct (bi_frozen b) as [d|]; try exact Hf; try exact I.
      assert (Df : dec_ok batch enc_batch dec_batch (j_recs f)).
      { apply Forall_forall. intros x Hx. apply Hcb. apply (pi_issued s Hinv). right. right.
        exists f. split; [exact Ef|exact Hx]. }
      destruct (crash_bytes_prefix crc p pok batch enc_batch dec_batch ck _ _ _ Df Hf) as (k & Hk & Ek).
      exists k. split; [exact Hk|]. rewrite Ek, jprefix_eq by exact Hk. reflexivity.
    - destruct (crash_bytes_prefix crc p pok medit enc_edit dec_edit true _ _ _ Dm Hm) as (k & Hk & Ek).
      exists k. split; [exact Hk|exact Ek].
  Qed.

  (* crash_safe, with the files given as bytes *)
  Theorem crash_safe_bytes ck ops b :
    codecs_ok (prun ops) -> is_byte_image crc p enc_batch enc_edit ck (prun ops) b ->
    let r := recover_image_bytes crc p dec_batch dec_edit ck (prun ops) b in
    (forall x, In x (p_acked (prun ops)) -> In x r) /\
    (forall x, In x r -> In x (p_issued (prun ops))) /\
    sorted_b r.
  Proof.
    intros Hc Hb. apply crash_safe. apply byte_image_is_image; [apply pinv_run|exact Hc|exact Hb].
  Qed.
End ImageProofs.
