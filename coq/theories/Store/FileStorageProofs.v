(* Store/FileStorageProofs.v — proofs about the file-storage model (Store/FileStorage.v):
   the name codec (round trip, what else parses), GetMeta (read-only purity, the repair is a fixpoint),
   the lock / close order laws.  The crash theorems are in FileStorageCrashProofs.v. *)
From Coq Require Import List NArith ZArith Bool Lia.
From GL Require Import Base.Bytes Base.BytesProofs Store.FileStorage.
Import ListNotations.
Open Scope N_scope.

(* ================================================================ decimal digits *)

Definition digits_ok (l : bytes) : Prop := Forall (fun b => is_digit b = true) l.

Definition dval (acc : N) (l : bytes) : N := fold_left (fun a b => 10 * a + (b - 48)) l acc.

Lemma is_digit_spec b : is_digit b = true <-> 48 <= b <= 57.
Proof. unfold is_digit. rewrite andb_true_iff, !N.leb_le. tauto. Qed.

Lemma take_digits_spec ds : forall rest acc,
  digits_ok ds -> (rest = [] \/ exists b r, rest = b :: r /\ is_digit b = false) ->
  take_digits (ds ++ rest) acc = (dval acc ds, rest).
Proof.
  induction ds as [|d ds IH]; intros rest acc Hd Hr.
  - cbn. destruct Hr as [->|(b & r & -> & Hb)]; cbn; [reflexivity|]. now rewrite Hb.
  - inversion Hd; subst. cbn [app take_digits]. rewrite H1. rewrite IH by assumption. reflexivity.
Qed.

Lemma dval_app a x y : dval a (x ++ y) = dval (dval a x) y.
Proof. unfold dval. now rewrite fold_left_app. Qed.

Lemma dval_zeros k : dval 0 (repeat 48 k) = 0.
Proof. induction k; cbn; [reflexivity|]. exact IHk. Qed.

Lemma digits_ok_zeros k : digits_ok (repeat 48 k).
Proof. induction k; constructor; [reflexivity|assumption]. Qed.

Lemma digits_ok_app x y : digits_ok x -> digits_ok y -> digits_ok (x ++ y).
Proof. unfold digits_ok. rewrite Forall_app. tauto. Qed.

Lemma dval_single a d : dval a [48 + d] = 10 * a + d.
Proof. unfold dval. cbn [fold_left]. lia. Qed.

(* dec_aux with enough fuel prepends the digits of n *)
Lemma dec_aux_spec f : forall n acc, n < 2 ^ N.of_nat (S f) ->
  exists ds, dec_aux (S f) n acc = ds ++ acc /\ digits_ok ds /\ ds <> [] /\ forall a, exists k, dval a ds = a * 10 ^ k + n.
Proof.
  induction f as [|f IH]; intros n acc Hn.
  - assert (n < 2) by (cbn in Hn; lia).
    cbn [dec_aux]. assert (n / 10 = 0) as -> by (apply N.div_small; lia). cbn [N.eqb].
    exists [48 + n mod 10]. repeat split.
    + constructor; [|constructor]. apply is_digit_spec. rewrite N.mod_small by lia. lia.
    + discriminate.
    + intro a. exists 1. rewrite dval_single, N.pow_1_r, N.mod_small by lia. lia.
  - cbn [dec_aux]. destruct (n / 10 =? 0) eqn:E.
    + apply N.eqb_eq in E. assert (n < 10). { destruct (N.lt_ge_cases n 10); [assumption|]. assert (1 <= n / 10) by (apply N.div_le_lower_bound; lia). lia. }
      exists [48 + n mod 10]. repeat split.
      * constructor; [|constructor]. apply is_digit_spec. rewrite N.mod_small by lia. lia.
      * discriminate.
      * intro a. exists 1. rewrite dval_single, N.pow_1_r, N.mod_small by lia. lia.
    + assert (n / 10 < 2 ^ N.of_nat (S f)) as Hlt.
      { apply N.div_lt_upper_bound; [lia|]. rewrite Nat2N.inj_succ, N.pow_succ_r' in Hn. rewrite Nat2N.inj_succ in *. lia. }
      destruct (IH (n / 10) ((48 + n mod 10) :: acc) Hlt) as (ds & Heq & Hok & Hne & Hv).
      exists (ds ++ [48 + n mod 10]). repeat split.
      * change (dec_aux (S f) (n / 10) ((48 + n mod 10) :: acc) = (ds ++ [48 + n mod 10]) ++ acc). rewrite Heq, <- app_assoc. reflexivity.
      * apply digits_ok_app; [assumption|]. constructor; [|constructor]. apply is_digit_spec.
        pose proof (N.mod_upper_bound n 10). lia.
      * destruct ds; discriminate.
      * intro a. destruct (Hv a) as (k & Hk). exists (N.succ k). rewrite dval_app, Hk, dval_single.
        rewrite N.pow_succ_r'. pose proof (N.div_mod' n 10). pose proof (N.mod_upper_bound n 10). lia.
Qed.

Lemma dec_spec n : exists ds, dec n = ds /\ digits_ok ds /\ ds <> [] /\ dval 0 ds = n.
Proof.
  unfold dec.
  assert (n < 2 ^ N.of_nat (S (N.to_nat (N.log2 n)))) as H.
  { rewrite Nat2N.inj_succ, N2Nat.id. destruct (N.eq_dec n 0) as [->|Hn]; [reflexivity|].
    apply N.log2_spec. lia. }
  destruct (dec_aux_spec _ n [] H) as (ds & Heq & Hok & Hne & Hv).
  exists ds. rewrite Heq, app_nil_r. repeat split; try assumption.
  destruct (Hv 0) as (k & Hk). rewrite Hk. lia.
Qed.

Lemma pad0_spec w l : digits_ok l -> l <> [] -> digits_ok (pad0 w l) /\ pad0 w l <> [] /\ dval 0 (pad0 w l) = dval 0 l.
Proof.
  intros Hok Hne. unfold pad0. repeat split.
  - apply digits_ok_app; [apply digits_ok_zeros|assumption].
  - destruct (repeat 48 (w - length l)); [assumption|discriminate].
  - now rewrite dval_app, dval_zeros.
Qed.

(* ================================================================ scanning what fmt prints *)

(* bytes that are neither a newline nor the first byte of a white-space rune *)
Definition plain (b : N) : Prop := 33 <= b < 127.

Lemma space_width_plain b r : plain b -> space_width (b :: r) = 0%nat.
Proof.
  unfold plain, space_width. intro H. cbn [nth].
  repeat match goal with |- context [b =? ?k] => rewrite (proj2 (N.eqb_neq b k)) by lia end.
  reflexivity.
Qed.

Lemma skip_space_plain f b r : plain b -> skip_space f (b :: r) = Some (b :: r).
Proof.
  intro H. destruct f; [reflexivity|]. cbn [skip_space].
  rewrite (proj2 (N.eqb_neq b 10)) by (unfold plain in H; lia). now rewrite space_width_plain.
Qed.

Lemma digit_plain b : is_digit b = true -> plain b.
Proof. rewrite is_digit_spec. unfold plain. lia. Qed.

Lemma digit_not_sign b : is_digit b = true -> (b =? 45) || (b =? 43) = false.
Proof. rewrite is_digit_spec. intro. rewrite !(proj2 (N.eqb_neq _ _)) by lia. reflexivity. Qed.

Definition stops (rest : bytes) : Prop := rest = [] \/ exists b r, rest = b :: r /\ is_digit b = false.

Lemma signed_digits_pos ds rest :
  digits_ok ds -> ds <> [] -> stops rest -> dval 0 ds < two63 ->
  signed_digits (ds ++ rest) = Some (Z.of_N (dval 0 ds), rest).
Proof.
  intros Hok Hne Hr Hv. destruct ds as [|d ds]; [congruence|].
  inversion Hok; subst. unfold signed_digits. cbn [app]. rewrite digit_not_sign by assumption.
  rewrite H1. change (d :: ds ++ rest) with ((d :: ds) ++ rest). rewrite take_digits_spec by assumption.
  unfold mk_int64. rewrite (proj2 (N.eqb_neq d 45)) by (apply is_digit_spec in H1; lia).
  now rewrite (proj2 (N.ltb_lt _ _) Hv).
Qed.

Lemma signed_digits_neg ds rest :
  digits_ok ds -> ds <> [] -> stops rest -> dval 0 ds <= two63 ->
  signed_digits (45 :: ds ++ rest) = Some ((- Z.of_N (dval 0 ds))%Z, rest).
Proof.
  intros Hok Hne Hr Hv. destruct ds as [|d ds]; [congruence|].
  inversion Hok; subst. unfold signed_digits. cbn [app N.eqb Pos.eqb orb]. rewrite H1.
  change (d :: ds ++ rest) with ((d :: ds) ++ rest). rewrite take_digits_spec by assumption.
  unfold mk_int64. now rewrite (proj2 (N.leb_le _ _) Hv).
Qed.

Lemma int64_ok_spec z : int64_ok z = true <-> (- Z.of_N two63 <= z < Z.of_N two63)%Z.
Proof. unfold int64_ok. rewrite andb_true_iff, Z.leb_le, Z.ltb_lt. tauto. Qed.

(* %06d and %d print something %d scans back, whatever follows as long as it is not a digit *)
Lemma signed_digits_fmt (pad : bool) z rest : int64_ok z = true -> stops rest ->
  signed_digits ((if pad then fmt_d06 z else fmt_d z) ++ rest) = Some (z, rest).
Proof.
  intros Hz Hr. apply int64_ok_spec in Hz. unfold fmt_d06, fmt_d.
  destruct (z <? 0)%Z eqn:E.
  - apply Z.ltb_lt in E. destruct (dec_spec (Z.to_N (- z))) as (ds & Hd & Hok & Hne & Hv).
    rewrite Hd. destruct (pad0_spec 5 ds Hok Hne) as (Hok' & Hne' & Hv').
    assert (Z.of_N (dval 0 ds) = (- z)%Z) as Hzz by (rewrite Hv; lia).
    destruct pad; cbn [app].
    + rewrite signed_digits_neg; try assumption.
      * rewrite Hv', Hzz. f_equal. f_equal. lia.
      * rewrite Hv'. lia.
    + rewrite signed_digits_neg; try assumption.
      * rewrite Hzz. f_equal. f_equal. lia.
      * lia.
  - apply Z.ltb_ge in E. destruct (dec_spec (Z.to_N z)) as (ds & Hd & Hok & Hne & Hv).
    rewrite Hd. destruct (pad0_spec 6 ds Hok Hne) as (Hok' & Hne' & Hv').
    assert (Z.of_N (dval 0 ds) = z) as Hzz by (rewrite Hv; lia).
    destruct pad.
    + rewrite signed_digits_pos; try assumption.
      * rewrite Hv', Hzz. reflexivity.
      * rewrite Hv'. lia.
    + rewrite signed_digits_pos; try assumption.
      * rewrite Hzz. reflexivity.
      * lia.
Qed.

(* the printed number starts with a digit or a minus sign *)
Lemma fmt_head (pad : bool) z : exists b r, (if pad then fmt_d06 z else fmt_d z) = b :: r /\ plain b /\ b <> 77.
Proof.
  unfold fmt_d06, fmt_d. destruct (z <? 0)%Z.
  - destruct pad; eexists _, _; (split; [reflexivity|]); unfold plain; lia.
  - destruct (dec_spec (Z.to_N z)) as (ds & Hd & Hok & Hne & Hv). rewrite Hd.
    destruct (pad0_spec 6 ds Hok Hne) as (Hok' & Hne' & _).
    destruct pad.
    + destruct (pad0 6 ds) as [|b r]; [congruence|]. inversion Hok'; subst. exists b, r. split; [reflexivity|].
      split; [now apply digit_plain|]. apply is_digit_spec in H1. lia.
    + destruct ds as [|b r]; [congruence|]. inversion Hok; subst. exists b, r. split; [reflexivity|].
      split; [now apply digit_plain|]. apply is_digit_spec in H1. lia.
Qed.

Lemma scan_int_fmt (pad : bool) z rest : int64_ok z = true -> stops rest ->
  scan_int ((if pad then fmt_d06 z else fmt_d z) ++ rest) = Some (z, rest).
Proof.
  intros Hz Hr. unfold scan_int.
  destruct (fmt_head pad z) as (b & r & Hb & Hp & _).
  pose proof (signed_digits_fmt pad z rest Hz Hr) as Hs.
  destruct pad; rewrite Hb in *; cbn [app] in *; rewrite skip_space_plain by assumption; exact Hs.
Qed.

Lemma strip_prefix_app p l : strip_prefix p (p ++ l) = Some l.
Proof. induction p; cbn; [reflexivity|]. now rewrite N.eqb_refl. Qed.

Lemma stops_dot r : stops (46 :: r).
Proof. right. eexists _, _. split; reflexivity. Qed.

(* ================================================================ the round trip *)

Theorem parse_gen_name fd : int64_ok (fd_num fd) = true -> parse_name (gen_name fd) = Some fd.
Proof.
  intro Hz. destruct fd as [t z]. cbn [fd_num] in Hz. unfold gen_name, parse_name. cbn [fd_type fd_num].
  destruct t.
  - (* manifest: the first Sscanf fails on 'M' *)
    assert (scan_int (s_MANIFEST ++ fmt_d06 z) = None) as -> by reflexivity.
    unfold manifest_scan. rewrite strip_prefix_app.
    pose proof (scan_int_fmt true z [] Hz (or_introl eq_refl)) as H. rewrite app_nil_r in H. rewrite H.
    reflexivity.
  - rewrite (scan_int_fmt true z _ Hz (stops_dot _)). reflexivity.
  - rewrite (scan_int_fmt true z _ Hz (stops_dot _)). reflexivity.
  - rewrite (scan_int_fmt true z _ Hz (stops_dot _)). reflexivity.
Qed.

Theorem parse_gen_old_name fd : int64_ok (fd_num fd) = true -> parse_name (gen_old_name fd) = Some fd.
Proof.
  intro Hz. destruct fd as [t z]. destruct t; try exact (parse_gen_name _ Hz).
  cbn [fd_num] in Hz. unfold gen_old_name, parse_name. cbn [fd_type fd_num].
  rewrite (scan_int_fmt true z _ Hz (stops_dot _)). reflexivity.
Qed.

Corollary gen_name_inj a b : int64_ok (fd_num a) = true -> int64_ok (fd_num b) = true -> gen_name a = gen_name b -> a = b.
Proof. intros Ha Hb E. apply parse_gen_name in Ha, Hb. rewrite E in Ha. congruence. Qed.

(* ---- whatever parses is an int64 *)
Lemma mk_int64_ok neg v z : mk_int64 neg v = Some z -> int64_ok z = true.
Proof.
  unfold mk_int64. intro H. apply int64_ok_spec. destruct neg.
  - destruct (v <=? two63) eqn:E; [|discriminate]. apply N.leb_le in E. inversion H. unfold two63 in *. lia.
  - destruct (v <? two63) eqn:E; [|discriminate]. apply N.ltb_lt in E. inversion H. unfold two63 in *. lia.
Qed.

Lemma signed_digits_ok l z r : signed_digits l = Some (z, r) -> int64_ok z = true.
Proof.
  unfold signed_digits. destruct l as [|b l']; [discriminate|].
  destruct (if (b =? 45) || (b =? 43) then l' else b :: l') as [|d l2] eqn:E; [discriminate|].
  destruct (is_digit d); [|discriminate]. destruct (take_digits (d :: l2) 0) as [v rest].
  destruct (mk_int64 (b =? 45) v) eqn:M; [|discriminate]. intro H. inversion H; subst. eapply mk_int64_ok; eassumption.
Qed.

Lemma scan_int_ok l z r : scan_int l = Some (z, r) -> int64_ok z = true.
Proof. unfold scan_int. destruct (skip_space (length l) l); [|discriminate]. apply signed_digits_ok. Qed.

Theorem parse_name_int64 l fd : parse_name l = Some fd -> int64_ok (fd_num fd) = true.
Proof.
  assert (forall l fd, manifest_scan l = Some fd -> int64_ok (fd_num fd) = true) as HM.
  { clear. intros l fd. unfold manifest_scan. destruct (strip_prefix s_MANIFEST l); [|discriminate].
    destruct (scan_int b) as [[z rest]|] eqn:E; [|discriminate]. destruct (scan_word rest); [discriminate|].
    intro H. inversion H; subst. cbn. eapply scan_int_ok; eassumption. }
  unfold parse_name. destruct (scan_int l) as [[z r]|] eqn:E; [|apply HM].
  destruct r as [|b r']; [apply HM|]. destruct (b =? 46); [|apply HM].
  destruct (scan_word r') as [[w rest]|]; [|apply HM].
  destruct (type_of_tail w); [|discriminate]. intro H. inversion H; subst. cbn. eapply scan_int_ok; eassumption.
Qed.

(* so the round trip holds for everything GetMeta can read out of a CURRENT file *)
Corollary parse_name_regen l fd : parse_name l = Some fd -> parse_name (gen_name fd) = Some fd.
Proof. intro H. apply parse_gen_name. eapply parse_name_int64; eassumption. Qed.

(* ---- the other names the storage itself writes are not descriptors *)
Lemma parse_name_head b r : plain b -> is_digit b = false -> b <> 45 -> b <> 43 -> b <> 77 -> parse_name (b :: r) = None.
Proof.
  intros Hp Hd H45 H43 H77. unfold parse_name, scan_int.
  rewrite skip_space_plain by assumption. unfold signed_digits.
  rewrite (proj2 (N.eqb_neq b 45)), (proj2 (N.eqb_neq b 43)) by assumption. cbn [orb]. rewrite Hd.
  unfold manifest_scan. cbn [s_MANIFEST strip_prefix]. rewrite (proj2 (N.eqb_neq 77 b)) by congruence. reflexivity.
Qed.

Lemma parse_name_C r : parse_name (67 :: r) = None.
Proof. apply parse_name_head; unfold plain; try lia. reflexivity. Qed.

Lemma parse_name_L r : parse_name (76 :: r) = None.
Proof. apply parse_name_head; unfold plain; try lia. reflexivity. Qed.

Theorem parse_pend_name z : parse_name (pend_name z) = None.
Proof. apply parse_name_C. Qed.

Theorem parse_specials :
  parse_name s_CURRENT = None /\ parse_name s_CURRENT_bak = None /\ parse_name s_LOCK = None /\
  parse_name s_LOG = None /\ parse_name s_LOG_old = None.
Proof. repeat split; first [apply parse_name_C | apply parse_name_L]. Qed.

(* the names a directory written by this storage may hold *)
Inductive stored_name : bytes -> Prop :=
| sn_gen fd : int64_ok (fd_num fd) = true -> stored_name (gen_name fd)
| sn_old fd : int64_ok (fd_num fd) = true -> stored_name (gen_old_name fd)
| sn_current : stored_name s_CURRENT
| sn_bak : stored_name s_CURRENT_bak
| sn_pend z : stored_name (pend_name z)
| sn_lock : stored_name s_LOCK
| sn_log : stored_name s_LOG
| sn_logold : stored_name s_LOG_old.

Theorem parse_stored_name l fd : stored_name l -> parse_name l = Some fd -> l = gen_name fd \/ l = gen_old_name fd.
Proof.
  intros Hs Hp. destruct Hs as [fd' H|fd' H| | |z| | | ].
  - rewrite parse_gen_name in Hp by assumption. inversion Hp. now left.
  - rewrite parse_gen_old_name in Hp by assumption. inversion Hp. now right.
  - exfalso. assert (parse_name s_CURRENT = None) by apply parse_name_C. congruence.
  - exfalso. assert (parse_name s_CURRENT_bak = None) by apply parse_name_C. congruence.
  - exfalso. rewrite parse_pend_name in Hp. discriminate.
  - exfalso. assert (parse_name s_LOCK = None) by apply parse_name_L. congruence.
  - exfalso. assert (parse_name s_LOG = None) by apply parse_name_L. congruence.
  - exfalso. assert (parse_name s_LOG_old = None) by apply parse_name_L. congruence.
Qed.

(* ---- numbers outside int64 do not parse at all; longer digit strings denote the same descriptor *)
Lemma digits_head ds : digits_ok ds -> ds <> [] -> exists d r, ds = d :: r /\ is_digit d = true.
Proof. intros H Hn. destruct ds; [congruence|]. inversion H; subst. eauto. Qed.

Theorem parse_overflow ds rest : digits_ok ds -> ds <> [] -> stops rest -> two63 <= dval 0 ds ->
  parse_name (ds ++ rest) = None /\ parse_name (s_MANIFEST ++ ds ++ rest) = None.
Proof.
  intros Hok Hne Hr Hv.
  assert (signed_digits (ds ++ rest) = None) as Hsd.
  { destruct (digits_head ds Hok Hne) as (d & r & -> & Hd). unfold signed_digits. cbn [app].
    rewrite digit_not_sign by assumption. rewrite Hd. change (d :: r ++ rest) with ((d :: r) ++ rest).
    rewrite take_digits_spec by assumption. unfold mk_int64.
    rewrite (proj2 (N.eqb_neq d 45)) by (apply is_digit_spec in Hd; lia).
    now rewrite (proj2 (N.ltb_ge _ _) Hv). }
  assert (scan_int (ds ++ rest) = None) as Hsi.
  { unfold scan_int. destruct (digits_head ds Hok Hne) as (d & r & E & Hd). rewrite E in *. cbn [app] in *.
    rewrite skip_space_plain by now apply digit_plain. exact Hsd. }
  split.
  - unfold parse_name. rewrite Hsi. unfold manifest_scan.
    destruct (digits_head ds Hok Hne) as (d & r & -> & Hd). cbn [app s_MANIFEST strip_prefix].
    rewrite (proj2 (N.eqb_neq 77 d)) by (apply is_digit_spec in Hd; lia). reflexivity.
  - unfold parse_name. assert (scan_int (s_MANIFEST ++ ds ++ rest) = None) as -> by reflexivity.
    unfold manifest_scan. rewrite strip_prefix_app, Hsi. reflexivity.
Qed.

Theorem parse_leading_zeros k z t : (0 <= z)%Z -> int64_ok z = true -> t <> TManifest ->
  parse_name (repeat 48 k ++ gen_name (FD t z)) = Some (FD t z) /\
  parse_name (s_MANIFEST ++ repeat 48 k ++ fmt_d06 z) = Some (FD TManifest z).
Proof.
  intros Hz0 Hz Ht. apply int64_ok_spec in Hz.
  assert (fmt_d06 z = pad0 6 (dec (Z.to_N z))) as Hf by (unfold fmt_d06; now rewrite (proj2 (Z.ltb_ge z 0) Hz0)).
  destruct (dec_spec (Z.to_N z)) as (ds & Hd & Hok & Hne & Hv).
  destruct (pad0_spec 6 ds Hok Hne) as (Hok' & Hne' & Hv').
  set (zs := repeat 48 k ++ pad0 6 ds).
  assert (digits_ok zs) as Hzs by (apply digits_ok_app; [apply digits_ok_zeros|assumption]).
  assert (zs <> []) as Hzn by (unfold zs; destruct (repeat 48 k); [assumption|discriminate]).
  assert (dval 0 zs = Z.to_N z) as Hzv by (unfold zs; now rewrite dval_app, dval_zeros, Hv', Hv).
  assert (forall rest, stops rest -> scan_int (zs ++ rest) = Some (z, rest)) as Hscan.
  { intros rest Hr. unfold scan_int. destruct (digits_head zs Hzs Hzn) as (d & r & E & Hd').
    assert (skip_space (length (zs ++ rest)) (zs ++ rest) = Some (zs ++ rest)) as ->.
    { rewrite E. cbn [app]. apply skip_space_plain. now apply digit_plain. }
    rewrite signed_digits_pos; try assumption.
    - rewrite Hzv. f_equal. f_equal. lia.
    - rewrite Hzv. lia. }
  split.
  - unfold gen_name. cbn [fd_type fd_num]. rewrite Hf, Hd.
    destruct t; try congruence; rewrite app_assoc; fold zs; unfold parse_name;
      rewrite (Hscan _ (stops_dot _)); reflexivity.
  - rewrite Hf, Hd. rewrite <- (app_nil_r (repeat 48 k ++ pad0 6 ds)). fold zs.
    unfold parse_name. assert (scan_int (s_MANIFEST ++ zs ++ []) = None) as -> by reflexivity.
    unfold manifest_scan. rewrite strip_prefix_app, (Hscan [] (or_introl eq_refl)). reflexivity.
Qed.

(* ================================================================ views *)

Lemma beq_refl a : beq a a = true.
Proof. now apply beq_eq. Qed.

Lemma beq_neq a b : a <> b -> beq a b = false.
Proof. intro H. destruct (beq a b) eqn:E; [|reflexivity]. apply beq_eq in E. contradiction. Qed.

Lemma beq_sym a b : beq a b = beq b a.
Proof.
  destruct (beq a b) eqn:E.
  - apply beq_eq in E. subst. symmetry. apply beq_refl.
  - destruct (beq b a) eqn:E2; [|reflexivity]. apply beq_eq in E2. subst. rewrite beq_refl in E. discriminate.
Qed.

Ltac beq_case a b := let E := fresh "E" in destruct (beq a b) eqn:E; [apply beq_eq in E; subst|].

Lemma lookup_set_at {A} (v : list (bytes * A)) n x m :
  lookup (set_at v n x) m = if beq n m then Some x else lookup v m.
Proof.
  induction v as [|[k y] v IH]; cbn [set_at lookup].
  - reflexivity.
  - beq_case k n.
    + cbn [lookup]. destruct (beq n m); reflexivity.
    + cbn [lookup]. rewrite IH. beq_case k m; [|reflexivity]. now rewrite beq_sym, E.
Qed.

Lemma lookup_remove_at {A} (v : list (bytes * A)) n m :
  lookup (remove_at v n) m = if beq n m then None else lookup v m.
Proof.
  induction v as [|[k y] v IH]; cbn [remove_at lookup].
  - destruct (beq n m); reflexivity.
  - beq_case k n.
    + rewrite IH. destruct (beq n m); reflexivity.
    + cbn [lookup]. rewrite IH. beq_case k m; [|reflexivity]. now rewrite beq_sym, E.
Qed.

Lemma lookup_rename_at {A} (v : list (bytes * A)) a b x m : lookup v a = Some x ->
  lookup (rename_at v a b) m = if beq b m then Some x else if beq a m then None else lookup v m.
Proof. intro H. unfold rename_at. rewrite H, lookup_set_at, lookup_remove_at. reflexivity. Qed.

Lemma remove_at_absent {A} (v : list (bytes * A)) n : lookup v n = None -> remove_at v n = v.
Proof.
  induction v as [|[k y] v IH]; cbn [remove_at lookup]; [reflexivity|].
  destruct (beq k n); [discriminate|]. intro H. now rewrite IH.
Qed.

Lemma in_names_lookup {A} (v : list (bytes * A)) n : In n (map fst v) <-> lookup v n <> None.
Proof.
  induction v as [|[k y] v IH]; cbn [map fst In lookup].
  - split; [tauto|congruence].
  - beq_case k n.
    + split; [discriminate|]. now left.
    + rewrite IH. split; [intros [->|H]; [|assumption]|intro H; now right].
      rewrite beq_refl in E. discriminate.
Qed.

Lemma vapply_all_app v a b : vapply_all v (a ++ b) = vapply_all (vapply_all v a) b.
Proof. unfold vapply_all. apply fold_left_app. Qed.

Lemma lookup_write_file v n d m :
  lookup (vapply_all v (write_file_synced n d)) m = if beq n m then Some d else lookup v m.
Proof.
  unfold write_file_synced, vapply_all. cbn [fold_left vapply].
  rewrite lookup_set_at, beq_refl. cbn [app]. rewrite !lookup_set_at. destruct (beq n m); reflexivity.
Qed.

Lemma lookup_switch v p c m : p <> s_CURRENT ->
  lookup (vapply_all v (write_file_synced p c ++ [ORename p s_CURRENT; OSyncDir])) m =
  if beq s_CURRENT m then Some c else if beq p m then None else lookup v m.
Proof.
  intro Hp. rewrite vapply_all_app. set (v1 := vapply_all v (write_file_synced p c)).
  unfold vapply_all at 1. cbn [fold_left vapply].
  assert (lookup v1 p = Some c) as H1 by (unfold v1; now rewrite lookup_write_file, beq_refl).
  rewrite (lookup_rename_at _ _ _ _ _ H1). unfold v1. rewrite lookup_write_file.
  destruct (beq s_CURRENT m); [reflexivity|]. destruct (beq p m); reflexivity.
Qed.

Lemma fmt_d_head z : exists b r, fmt_d z = b :: r /\ (b = 45 \/ is_digit b = true).
Proof.
  unfold fmt_d. destruct (z <? 0)%Z; [eexists _, _; split; [reflexivity|now left]|].
  destruct (dec_spec (Z.to_N z)) as (ds & Hd & Hok & Hne & _). rewrite Hd.
  destruct (digits_head ds Hok Hne) as (d & r & -> & Hd'). eexists _, _. split; [reflexivity|now right].
Qed.

Lemma pend_name_not_current z : pend_name z <> s_CURRENT.
Proof. unfold pend_name, s_CURRENT_dot, s_CURRENT. cbn [app]. congruence. Qed.

Lemma pend_name_not_bak z : pend_name z <> s_CURRENT_bak.
Proof.
  unfold pend_name, s_CURRENT_dot, s_CURRENT_bak. cbn [app]. destruct (fmt_d_head z) as (b & r & -> & [->|H]).
  - congruence.
  - intro E. inversion E; subst. discriminate.
Qed.

Definition unlink_all (v : view) (l : list bytes) : view := fold_left (fun v n => remove_at v n) l v.

Lemma vapply_unlinks v l : vapply_all v (map OUnlink l) = unlink_all v l.
Proof. revert v. induction l; intro v; [reflexivity|]. cbn. apply IHl. Qed.

Lemma lookup_unlink_all l : forall v m,
  lookup (unlink_all v l) m = if existsb (fun n => beq n m) l then None else lookup v m.
Proof.
  induction l as [|n l IH]; intros v m; [reflexivity|].
  cbn [unlink_all fold_left existsb]. fold (unlink_all (remove_at v n) l). rewrite IH, lookup_remove_at.
  destruct (beq n m); cbn [orb]; [destruct (existsb _ l); reflexivity|reflexivity].
Qed.

Lemma unlink_all_absent l : forall v, (forall n, In n l -> lookup v n = None) -> unlink_all v l = v.
Proof.
  induction l as [|n l IH]; intros v H; [reflexivity|].
  cbn [unlink_all fold_left]. fold (unlink_all (remove_at v n) l).
  rewrite remove_at_absent by (apply H; now left). apply IH. intros k Hk. apply H. now right.
Qed.

(* ================================================================ GetMeta: the choice *)

Lemma check_meta_content fd : int64_ok (fd_num fd) = true -> check_content (meta_content fd) = Some fd.
Proof.
  intro H. unfold check_content, meta_content. rewrite rev_app_distr. cbn [rev app]. cbn [N.eqb Pos.eqb].
  rewrite rev_involutive. now apply parse_gen_name.
Qed.

Lemma check_content_int64 c fd : check_content c = Some fd -> int64_ok (fd_num fd) = true.
Proof.
  unfold check_content. destruct (rev c) as [|b r]; [discriminate|]. destruct (b =? 10); [|discriminate].
  apply parse_name_int64.
Qed.

Lemma try_current_ok v n fd : try_current v n = TOk fd ->
  exists c, lookup v n = Some c /\ check_content c = Some fd /\ has v (gen_name fd) = true.
Proof.
  unfold try_current. destruct (lookup v n) as [c|]; [|discriminate].
  destruct (check_content c) as [fd'|] eqn:E; [|discriminate].
  destruct (has v (gen_name fd')) eqn:H; [|discriminate]. intro X. inversion X; subst. eauto.
Qed.

Lemma try_currents_some v l : forall ce lg n fd,
  tc_cur (try_currents v l ce lg) = Some (n, fd) -> In n l /\ try_current v n = TOk fd.
Proof.
  induction l as [|k l IH]; intros ce lg n fd; cbn [try_currents tc_cur]; [discriminate|].
  destruct (try_current v k) eqn:E.
  - cbn. intro H. inversion H; subst. split; [now left|assumption].
  - intro H. destruct (IH _ _ _ _ H). split; [now right|assumption].
  - intro H. destruct (IH _ _ _ _ H). split; [now right|assumption].
  - intro H. destruct (IH _ _ _ _ H). split; [now right|assumption].
Qed.

Lemma try_currents_nofile v l : forall ce lg, (forall n, In n l -> lookup v n = None) ->
  try_currents v l ce lg = TC None ce lg.
Proof.
  induction l as [|k l IH]; intros ce lg H; [reflexivity|].
  cbn [try_currents]. unfold try_current. rewrite (H k) by now left. apply IH. intros n Hn. apply H. now right.
Qed.

Lemma chosen_valid v n fd : g_chosen (get_meta_choice v) = Some (n, fd) ->
  try_current v n = TOk fd /\ (In n (pend_names v) \/ n = s_CURRENT \/ n = s_CURRENT_bak).
Proof.
  unfold get_meta_choice. cbn [g_chosen].
  destruct (tc_cur (try_currents v (pend_names v) false false)) as [[pn pfd]|] eqn:Ep;
  destruct (tc_cur (try_currents v [s_CURRENT; s_CURRENT_bak] false false)) as [[cn cfd]|] eqn:Ec.
  - apply try_currents_some in Ep, Ec. destruct Ep as [Hp1 Hp2], Ec as [Hc1 Hc2].
    destruct (fd_num pfd >? fd_num cfd)%Z; intro H; inversion H; subst.
    + split; [assumption|now left].
    + split; [assumption|]. right. destruct Hc1 as [<-|[<-|[]]]; auto.
  - apply try_currents_some in Ep. intro H. inversion H; subst. split; [tauto|now left].
  - apply try_currents_some in Ec. intro H. inversion H; subst. destruct Ec as [Hc1 Hc2]. split; [assumption|]. right. destruct Hc1 as [<-|[<-|[]]]; auto.
  - discriminate.
Qed.

(* ---- the pending numbers come from the names *)
Definition pnum (n : bytes) : option Z :=
  if is_prefix s_CURRENT_dot n && negb (beq n s_CURRENT_bak) then parse_int64 (skipn 8 n) else None.

Lemma in_pend_nums l z : In z (pend_nums l) <-> exists n, In n l /\ pnum n = Some z.
Proof.
  induction l as [|k l IH]; cbn [pend_nums In].
  - split; [tauto|intros (n & [] & _)].
  - unfold pnum at 1 in IH. fold (pnum k).
    assert ((if is_prefix s_CURRENT_dot k && negb (beq k s_CURRENT_bak)
             then match parse_int64 (skipn 8 k) with Some z0 => z0 :: pend_nums l | None => pend_nums l end
             else pend_nums l) = match pnum k with Some z0 => z0 :: pend_nums l | None => pend_nums l end) as ->.
    { unfold pnum. destruct (is_prefix s_CURRENT_dot k && negb (beq k s_CURRENT_bak)); reflexivity. }
    destruct (pnum k) as [zk|] eqn:Ek.
    + cbn [In]. rewrite IH. split.
      * intros [->|(n & Hn & Hp)]; [exists k; split; [now left|assumption]|exists n; split; [now right|assumption]].
      * intros (n & [->|Hn] & Hp); [left; congruence|right; eauto].
    + rewrite IH. split.
      * intros (n & Hn & Hp). exists n. split; [now right|assumption].
      * intros (n & [->|Hn] & Hp); [congruence|eauto].
Qed.

Lemma in_insert_desc z y l : In y (insert_desc z l) <-> y = z \/ In y l.
Proof.
  induction l as [|x l IH]; cbn [insert_desc In]; [intuition|].
  destruct (x <=? z)%Z; cbn [In]; [intuition|]. rewrite IH. intuition.
Qed.

Lemma in_sort_desc y l : In y (sort_desc l) <-> In y l.
Proof. induction l as [|x l IH]; cbn [sort_desc In]; [tauto|]. rewrite in_insert_desc, IH. intuition. Qed.

Lemma in_pend_names v q : In q (pend_names v) <-> exists n z, lookup v n <> None /\ pnum n = Some z /\ q = pend_name z.
Proof.
  unfold pend_names. rewrite in_map_iff. split.
  - intros (z & <- & Hz). apply in_sort_desc, in_pend_nums in Hz. destruct Hz as (n & Hn & Hp).
    exists n, z. split; [now apply in_names_lookup|]. split; [assumption|reflexivity].
  - intros (n & z & Hn & Hp & ->). exists z. split; [reflexivity|]. apply in_sort_desc, in_pend_nums.
    exists n. split; [now apply in_names_lookup|assumption].
Qed.

Lemma pnum_current : pnum s_CURRENT = None. Proof. reflexivity. Qed.
Lemma pnum_bak : pnum s_CURRENT_bak = None. Proof. reflexivity. Qed.

(* ================================================================ GetMeta: read-only is pure, the repair is a fixpoint *)

Theorem get_meta_ro_no_ops v : snd (get_meta_ops true v) = [].
Proof. unfold get_meta_ops. destruct (g_chosen (get_meta_choice v)) as [[n fd]|]; reflexivity. Qed.

Theorem get_meta_ro_view v : snd (get_meta true v) = v.
Proof.
  unfold get_meta. pose proof (get_meta_ro_no_ops v) as H.
  destruct (get_meta_ops true v) as [r ops]. cbn in H. subst ops. reflexivity.
Qed.

Theorem get_meta_fs_ro s : snd (get_meta_fs true s) = s.
Proof.
  unfold get_meta_fs. pose proof (get_meta_ro_no_ops (vol_view s)) as H.
  destruct (get_meta_ops true (vol_view s)) as [r ops]. cbn in H. subst ops. reflexivity.
Qed.

(* the answer does not depend on the mode *)
Theorem get_meta_result_mode ro v : fst (get_meta_ops ro v) = get_meta_result v.
Proof.
  unfold get_meta_result, get_meta_ops. destruct (g_chosen (get_meta_choice v)) as [[n fd]|]; reflexivity.
Qed.

Theorem open_file_ro_pure v : has v s_LOCK = true -> open_file_view true v = v.
Proof. unfold open_file_view. now intros ->. Qed.

(* what setMeta leaves behind *)
Lemma set_meta_lookup v fd m :
  let v2 := vapply_all v (set_meta_ops v fd) in
  lookup v2 s_CURRENT = Some (meta_content fd) /\
  (m <> s_CURRENT -> m <> s_CURRENT_bak -> m <> pend_name (fd_num fd) -> lookup v2 m = lookup v m) /\
  (lookup v2 m <> None -> lookup v m <> None \/ m = s_CURRENT \/ m = s_CURRENT_bak).
Proof.
  cbn zeta. unfold set_meta_ops.
  pose proof (pend_name_not_current (fd_num fd)) as Hpc.
  destruct (lookup v s_CURRENT) as [b|] eqn:Ec.
  - destruct (beq b (meta_content fd)) eqn:Eb.
    + apply beq_eq in Eb. subst b. cbn [vapply_all fold_left]. split; [assumption|]. split; [reflexivity|tauto].
    + destruct (try_current v s_CURRENT).
      1: { rewrite vapply_all_app. split; [|split].
      * rewrite lookup_switch, beq_refl by assumption. reflexivity.
      * intros H1 H2 H3. rewrite lookup_switch by assumption.
        rewrite (beq_neq s_CURRENT m), (beq_neq (pend_name (fd_num fd)) m) by congruence.
        rewrite lookup_write_file. now rewrite (beq_neq s_CURRENT_bak m) by congruence.
      * rewrite lookup_switch by assumption. beq_case s_CURRENT m; [tauto|].
        destruct (beq (pend_name (fd_num fd)) m); [congruence|]. rewrite lookup_write_file.
        beq_case s_CURRENT_bak m; tauto. }
      all: (split; [|split]);
        [rewrite lookup_switch, beq_refl by assumption; reflexivity
        |intros H1 H2 H3; rewrite lookup_switch by assumption;
         now rewrite (beq_neq s_CURRENT m), (beq_neq (pend_name (fd_num fd)) m) by congruence
        |rewrite lookup_switch by assumption; beq_case s_CURRENT m; [tauto|];
         destruct (beq (pend_name (fd_num fd)) m); [congruence|]; tauto].
  - split; [|split].
    + rewrite lookup_switch, beq_refl by assumption. reflexivity.
    + intros H1 H2 H3. rewrite lookup_switch by assumption.
      now rewrite (beq_neq s_CURRENT m), (beq_neq (pend_name (fd_num fd)) m) by congruence.
    + rewrite lookup_switch by assumption. beq_case s_CURRENT m; [tauto|].
      destruct (beq (pend_name (fd_num fd)) m); [congruence|]. tauto.
Qed.

Lemma set_meta_ops_same v fd : lookup v s_CURRENT = Some (meta_content fd) -> set_meta_ops v fd = [].
Proof. intro H. unfold set_meta_ops. now rewrite H, beq_refl. Qed.

Lemma gen_name_not_family fd : int64_ok (fd_num fd) = true ->
  gen_name fd <> s_CURRENT /\ gen_name fd <> s_CURRENT_bak /\ forall z, gen_name fd <> pend_name z.
Proof.
  intro H. pose proof (parse_gen_name fd H) as P. destruct parse_specials as (P1 & P2 & _).
  repeat split; try congruence. intros z E. rewrite E, parse_pend_name in P. discriminate.
Qed.

Lemma existsb_beq_in l m : existsb (fun n => beq n m) l = true <-> In m l.
Proof.
  rewrite existsb_exists. split.
  - intros (x & Hx & E). apply beq_eq in E. now subst.
  - intro H. exists m. split; [assumption|apply beq_refl].
Qed.

Lemma get_meta_ops_unfold ro v :
  get_meta_ops ro v =
  match g_chosen (get_meta_choice v) with
  | Some (name, fd) =>
      (GOk fd,
       if negb ro && (negb (beq name s_CURRENT) || negb (match g_pend (get_meta_choice v) with [] => true | _ => false end))
       then set_meta_ops v fd ++ map OUnlink (g_pend (get_meta_choice v))
       else [])
  | None => (GErr (g_err (get_meta_choice v)), [])
  end.
Proof. reflexivity. Qed.

(* The read-write repair leaves a directory on which GetMeta gives the same answer and whose repair
   operations change nothing any more (they are re-issued only for pending files whose names are not in the
   form %d prints: unlink of names that do not exist). *)
Theorem get_meta_repair_fixpoint v :
  let v' := vapply_all v (snd (get_meta_ops false v)) in
  fst (get_meta_ops false v') = fst (get_meta_ops false v) /\
  vapply_all v' (snd (get_meta_ops false v')) = v' /\
  (pend_names v' = [] -> snd (get_meta_ops false v') = []).
Proof.
  cbn zeta. rewrite !(get_meta_ops_unfold false v).
  destruct (g_chosen (get_meta_choice v)) as [[name fd]|] eqn:Ech; cbn [fst snd].
  2: { cbn [vapply_all fold_left]. rewrite get_meta_ops_unfold, Ech. cbn [fst snd vapply_all fold_left]. auto. }
  destruct (negb false && (negb (beq name s_CURRENT) || negb match g_pend (get_meta_choice v) with [] => true | _ :: _ => false end)) eqn:Erep.
  2: { cbn [vapply_all fold_left]. rewrite get_meta_ops_unfold, Ech, Erep. cbn [fst snd vapply_all fold_left]. auto. }
  (* the repair ran *)
  destruct (chosen_valid _ _ _ Ech) as [Hval _].
  destruct (try_current_ok _ _ _ Hval) as (c & _ & Hc & Hhas).
  pose proof (check_content_int64 _ _ Hc) as Hi.
  destruct (gen_name_not_family fd Hi) as (Hg1 & Hg2 & Hg3).
  change (g_pend (get_meta_choice v)) with (pend_names v).
  rewrite vapply_all_app, vapply_unlinks.
  set (v2 := vapply_all v (set_meta_ops v fd)). set (v' := unlink_all v2 (pend_names v)).
  assert (forall m, lookup v' m = if existsb (fun n => beq n m) (pend_names v) then None else lookup v2 m) as Hl
    by (intro m; unfold v'; apply lookup_unlink_all).
  assert (existsb (fun n => beq n s_CURRENT) (pend_names v) = false) as Hnc.
  { destruct (existsb _ (pend_names v)) eqn:E; [|reflexivity]. apply existsb_beq_in in E.
    apply in_pend_names in E. destruct E as (n & z & _ & _ & E). symmetry in E. now apply pend_name_not_current in E. }
  assert (lookup v' s_CURRENT = Some (meta_content fd)) as Hcur.
  { rewrite Hl, Hnc. apply (set_meta_lookup v fd s_CURRENT). }
  assert (has v' (gen_name fd) = true) as Hhas'.
  { unfold has. rewrite Hl.
    destruct (existsb (fun n => beq n (gen_name fd)) (pend_names v)) eqn:E.
    - apply existsb_beq_in, in_pend_names in E. destruct E as (n & z & _ & _ & E). now apply Hg3 in E.
    - destruct (set_meta_lookup v fd (gen_name fd)) as (_ & Hsame & _). unfold v2. rewrite Hsame by auto.
      exact Hhas. }
  assert (forall q, In q (pend_names v') -> lookup v' q = None) as Hpend.
  { intros q Hq. apply in_pend_names in Hq. destruct Hq as (n & z & Hn & Hp & ->).
    rewrite Hl. destruct (existsb (fun k => beq k (pend_name z)) (pend_names v)) eqn:E; [reflexivity|].
    exfalso. apply not_true_iff_false in E. apply E. apply existsb_beq_in, in_pend_names.
    exists n, z. split; [|split; [assumption|reflexivity]].
    rewrite Hl in Hn. destruct (existsb (fun k => beq k n) (pend_names v)); [congruence|].
    destruct (set_meta_lookup v fd n) as (_ & _ & Hnames). destruct (Hnames Hn) as [H|[-> | ->]]; [assumption| |].
    - rewrite pnum_current in Hp. discriminate.
    - rewrite pnum_bak in Hp. discriminate. }
  (* the second call *)
  assert (g_chosen (get_meta_choice v') = Some (s_CURRENT, fd)) as Hch'.
  { unfold get_meta_choice. cbn [g_chosen]. rewrite (try_currents_nofile v' (pend_names v')) by assumption.
    cbn [tc_cur try_currents]. unfold try_current at 1. rewrite Hcur, (check_meta_content fd Hi), Hhas'. reflexivity. }
  unfold get_meta_ops. rewrite Hch'. cbn [fst snd]. rewrite beq_refl. cbn [negb orb andb].
  change (g_pend (get_meta_choice v')) with (pend_names v').
  split; [reflexivity|]. split.
  - destruct (match pend_names v' with [] => true | _ :: _ => false end); cbn [negb]; [reflexivity|].
    rewrite (set_meta_ops_same v' fd Hcur). cbn [app]. rewrite vapply_unlinks. now apply unlink_all_absent.
  - intros ->. reflexivity.
Qed.

(* the repair is re-issued for ever when a pending file has a name %d does not print: CURRENT.05 *)
Definition ex_noncanon_dir : view :=
  [(s_CURRENT, meta_content (FD TManifest 1)); (gen_name (FD TManifest 1), [109]); (s_CURRENT_dot ++ [48; 53], [120])].

Theorem get_meta_repair_reissued :
  let v' := vapply_all ex_noncanon_dir (snd (get_meta_ops false ex_noncanon_dir)) in
  v' = ex_noncanon_dir /\ snd (get_meta_ops false v') = [OUnlink (pend_name 5)] /\
  fst (get_meta_ops false v') = GOk (FD TManifest 1).
Proof. vm_compute. repeat split; reflexivity. Qed.

(* ================================================================ the storage object *)

Lemma nth_error_set_nth {A} (l : list A) i x : forall j,
  nth_error (set_nth l i x) j = if Nat.eqb i j then (match nth_error l i with Some _ => Some x | None => None end) else nth_error l j.
Proof.
  revert i. induction l as [|y l IH]; intros i j.
  - destruct i, j; cbn; try reflexivity. destruct (Nat.eqb i j); reflexivity.
  - destruct i, j; cbn [set_nth nth_error Nat.eqb]; try reflexivity. apply IH.
Qed.

Definition open_rw (st : fstor) : bool := negb (so_ro st) && negb (so_closed st).
Definition open_ro (st : fstor) : bool := so_ro st && negb (so_closed st).

Definition count (f : fstor -> bool) (l : list fstor) : nat := length (filter f l).

(* the flock state says who is open *)
Definition os_inv (p : proc) : Prop :=
  match p_os p with
  | OsFree => count open_rw (p_stors p) = 0%nat /\ count open_ro (p_stors p) = 0%nat
  | OsShared n => count open_rw (p_stors p) = 0%nat /\ count open_ro (p_stors p) = n /\ (1 <= n)%nat
  | OsExcl => count open_rw (p_stors p) = 1%nat /\ count open_ro (p_stors p) = 0%nat
  end.

Inductive freach : proc -> Prop :=
| fr_init ex : freach (PR ex OsFree [])
| fr_step p c : freach p -> freach (fst (fst (fstep p c))).

Lemma count_app f a b : count f (a ++ b) = (count f a + count f b)%nat.
Proof. unfold count. now rewrite filter_app, app_length. Qed.

Lemma count_set_nth f l i x st : nth_error l i = Some st ->
  (count f (set_nth l i x) + (if f st then 1 else 0) = count f l + (if f x then 1 else 0))%nat.
Proof.
  revert i. induction l as [|y l IH]; intros i H; [destruct i; discriminate|].
  destruct i; cbn [set_nth nth_error] in *.
  - inversion H; subst. unfold count. cbn [filter]. destruct (f st), (f x); cbn [length]; lia.
  - specialize (IH _ H). unfold count in *. cbn [filter]. destruct (f y); cbn [length]; lia.
Qed.

Lemma os_inv_step p c : os_inv p -> os_inv (fst (fst (fstep p c))).
Proof.
  intro I. destruct c as [ro|s|l|s|s m]; cbn [fstep].
  - destruct (negb (p_exists p) && ro); [exact I|].
    unfold os_inv in *. destruct (p_os p) as [|n|] eqn:Eo, ro; cbn [fst p_os p_stors]; try exact I;
      rewrite !count_app; unfold count at 2 4; cbn; lia.
  - destruct (nth_error (p_stors p) s) as [st|] eqn:E; [|exact I].
    destruct (so_closed st) eqn:Ecl; [exact I|]. destruct (so_ro st) eqn:Ero; [exact I|].
    destruct (so_slock st); [exact I|]. cbn [fst]. unfold os_inv in *. cbn [p_os p_stors].
    pose proof (count_set_nth open_rw _ _ (ST false false (Some (so_nlock st)) (so_nlock st + 1)) _ E) as H1.
    pose proof (count_set_nth open_ro _ _ (ST false false (Some (so_nlock st)) (so_nlock st + 1)) _ E) as H2.
    unfold open_rw at 2 4 in H1. unfold open_ro at 2 4 in H2. cbn [so_ro so_closed] in H1, H2. rewrite Ecl, Ero in H1, H2. cbn [negb andb] in H1, H2.
    destruct (p_os p); lia.
  - destruct l as [s id|]; [|exact I].
    destruct (nth_error (p_stors p) s) as [st|] eqn:E; [|exact I].
    destruct (so_slock st) as [cur|]; [|exact I]. destruct (cur =? id); [|exact I].
    cbn [fst]. unfold os_inv in *. cbn [p_os p_stors].
    pose proof (count_set_nth open_rw _ _ (ST (so_ro st) (so_closed st) None (so_nlock st)) _ E) as H1.
    pose proof (count_set_nth open_ro _ _ (ST (so_ro st) (so_closed st) None (so_nlock st)) _ E) as H2.
    unfold open_rw at 2 4 in H1. unfold open_ro at 2 4 in H2. cbn [so_ro so_closed] in H1, H2.
    destruct (p_os p); lia.
  - destruct (nth_error (p_stors p) s) as [st|] eqn:E; [|exact I].
    destruct (so_closed st) eqn:Ecl; [exact I|]. cbn [fst]. unfold os_inv in *. cbn [p_os p_stors].
    pose proof (count_set_nth open_rw _ _ (ST (so_ro st) true (so_slock st) (so_nlock st)) _ E) as H1.
    pose proof (count_set_nth open_ro _ _ (ST (so_ro st) true (so_slock st) (so_nlock st)) _ E) as H2.
    unfold open_rw at 2 4 in H1. unfold open_ro at 2 4 in H2. cbn [so_ro so_closed] in H1, H2. rewrite Ecl in H1, H2.
    unfold os_release. destruct (so_ro st); cbn [negb andb] in H1, H2.
    + destruct (p_os p) as [|n|]; [lia| |lia]. destruct n as [|[|n]]; lia.
    + destruct (p_os p); lia.
  - destruct (nth_error (p_stors p) s); exact I.
Qed.

Theorem os_inv_reach p : freach p -> os_inv p.
Proof. induction 1; [cbn; auto|now apply os_inv_step]. Qed.

Lemma count_pos f l i st : nth_error l i = Some st -> f st = true -> (1 <= count f l)%nat.
Proof.
  revert i. induction l as [|y l IH]; intros i H Hf; [destruct i; discriminate|].
  destruct i; cbn [nth_error] in H.
  - inversion H; subst. unfold count. cbn [filter]. rewrite Hf. cbn. lia.
  - specialize (IH _ H Hf). unfold count in *. cbn [filter]. destruct (f y); cbn [length]; lia.
Qed.

(* one read-write owner: while it is open every OpenFile is refused and changes nothing *)
Theorem fs_single_owner p s st ro :
  freach p -> nth_error (p_stors p) s = Some st -> so_ro st = false -> so_closed st = false ->
  p_exists p = true -> fstep p (FOpenFile ro) = (p, SErrFlock, None).
Proof.
  intros R E Hro Hcl Hex. pose proof (os_inv_reach _ R) as I.
  assert (open_rw st = true) as Hop by (unfold open_rw; now rewrite Hro, Hcl). pose proof (count_pos open_rw _ _ _ E Hop) as Hc.
  unfold os_inv in I. cbn [fstep]. rewrite Hex. cbn [negb andb].
  destruct p as [ex os stors]. cbn [p_os p_stors p_exists] in *. subst ex.
  destruct os; try lia. destruct ro; reflexivity.
Qed.

(* readers share, and exclude the writer *)
Theorem fs_readers_exclude_writer p s st :
  freach p -> nth_error (p_stors p) s = Some st -> so_ro st = true -> so_closed st = false -> p_exists p = true ->
  snd (fst (fstep p (FOpenFile false))) = SErrFlock /\ snd (fst (fstep p (FOpenFile true))) = SOk.
Proof.
  intros R E Hro Hcl Hex. pose proof (os_inv_reach _ R) as I.
  assert (open_ro st = true) as Hop by (unfold open_ro; now rewrite Hro, Hcl). pose proof (count_pos open_ro _ _ _ E Hop) as Hc.
  unfold os_inv in I. cbn [fstep].
  rewrite Hex; cbn [negb andb]. destruct (p_os p); try lia; split; reflexivity.
Qed.

(* Lock / Unlock / Close order laws of one storage *)
Theorem fs_second_lock p s st id :
  nth_error (p_stors p) s = Some st -> so_closed st = false -> so_ro st = false -> so_slock st = Some id ->
  fstep p (FLock s) = (p, SErrLocked, None).
Proof. intros E H1 H2 H3. cbn [fstep]. now rewrite E, H1, H2, H3. Qed.

Theorem fs_lock_then_unlock p s st :
  nth_error (p_stors p) s = Some st -> so_closed st = false -> so_ro st = false -> so_slock st = None ->
  exists l p1, fstep p (FLock s) = (p1, SOk, Some l) /\
    snd (fst (fstep p1 (FLock s))) = SErrLocked /\
    snd (fst (fstep (fst (fst (fstep p1 (FUnlock l)))) (FLock s))) = SOk.
Proof.
  intros E H1 H2 H3.
  set (st1 := ST false false (Some (so_nlock st)) (so_nlock st + 1)).
  set (p1 := PR (p_exists p) (p_os p) (set_nth (p_stors p) s st1)).
  assert (nth_error (p_stors p1) s = Some st1) as E1
    by (unfold p1; cbn [p_stors]; now rewrite nth_error_set_nth, Nat.eqb_refl, E).
  exists (LK s (so_nlock st)), p1. split; [cbn [fstep]; now rewrite E, H1, H2, H3|].
  split; [now rewrite (fs_second_lock p1 s st1 (so_nlock st) E1)|].
  set (st2 := ST false false None (so_nlock st + 1)).
  set (p2 := PR (p_exists p1) (p_os p1) (set_nth (p_stors p1) s st2)).
  assert (fstep p1 (FUnlock (LK s (so_nlock st))) = (p2, SOk, None)) as ->.
  { cbn [fstep]. rewrite E1. cbn [so_slock st1]. rewrite N.eqb_refl. reflexivity. }
  cbn [fst].
  assert (nth_error (p_stors p2) s = Some st2) as E2
    by (unfold p2; cbn [p_stors]; now rewrite nth_error_set_nth, Nat.eqb_refl, E1).
  cbn [fstep]. rewrite E2. reflexivity.
Qed.

(* Unlock of a lock that is no longer the current one (released before, or a newer lock was granted since)
   changes nothing — in particular it does not release the newer lock *)
Theorem fs_stale_unlock_harmless p s st id :
  nth_error (p_stors p) s = Some st -> so_slock st <> Some id -> fstep p (FUnlock (LK s id)) = (p, SOk, None).
Proof.
  intros E H. cbn [fstep]. rewrite E. destruct (so_slock st) as [cur|]; [|reflexivity].
  destruct (cur =? id) eqn:X; [|reflexivity]. apply N.eqb_eq in X. congruence.
Qed.

Theorem fs_ro_lock_always p s st :
  nth_error (p_stors p) s = Some st -> so_closed st = false -> so_ro st = true ->
  fstep p (FLock s) = (p, SOk, Some LKnone).
Proof. intros E H1 H2. cbn [fstep]. now rewrite E, H1, H2. Qed.

(* Close: the flock is released (the directory can be opened again), every later call reports ErrClosed
   (errReadOnly / ErrInvalidFile where those guards come first), a second Close changes nothing *)
Theorem fs_close p s st :
  freach p -> nth_error (p_stors p) s = Some st -> so_closed st = false -> so_ro st = false -> p_exists p = true ->
  let p1 := fst (fst (fstep p (FClose s))) in
  snd (fst (fstep p (FClose s))) = SOk /\
  p_os p1 = OsFree /\
  fstep p1 (FClose s) = (p1, SErrClosed, None) /\
  fstep p1 (FLock s) = (p1, SErrClosed, None) /\
  (forall m, snd (fst (fstep p1 (FMeth s m))) =
             match m with
             | MSetMeta false | MOpen false | MCreate false | MRemove false | MRename false _ => SErrInvalidFile
             | MRename true true | MLog => SOk
             | _ => SErrClosed
             end) /\
  forall ro, snd (fst (fstep p1 (FOpenFile ro))) = SOk.
Proof.
  intros R E Hcl Hro Hex. pose proof (os_inv_reach _ R) as I.
  assert (open_rw st = true) as Hop by (unfold open_rw; now rewrite Hro, Hcl).
  pose proof (count_pos open_rw _ _ _ E Hop) as Hc.
  assert (p_os p = OsExcl) as Hos by (unfold os_inv in I; destruct (p_os p); [lia|lia|reflexivity]).
  set (st1 := ST false true (so_slock st) (so_nlock st)).
  set (p1 := PR (p_exists p) OsFree (set_nth (p_stors p) s st1)).
  assert (fstep p (FClose s) = (p1, SOk, None)) as Hstep.
  { cbn [fstep]. rewrite E, Hcl, Hos, Hro. reflexivity. }
  cbn zeta. rewrite Hstep. cbn [fst snd].
  assert (nth_error (p_stors p1) s = Some st1) as E1
    by (unfold p1; cbn [p_stors]; now rewrite nth_error_set_nth, Nat.eqb_refl, E).
  split; [reflexivity|]. split; [reflexivity|].
  split; [cbn [fstep]; rewrite E1; reflexivity|].
  split; [cbn [fstep]; rewrite E1; reflexivity|].
  split.
  - intro m. cbn [fstep]. rewrite E1. cbn [fst snd]. unfold guard, st1. cbn [so_closed so_ro].
    destruct m as [b| | |b|b|b|b b'|]; try destruct b; try destruct b'; reflexivity.
  - intro ro. cbn [fstep]. unfold p1. cbn [p_exists p_os]. rewrite Hex. destruct ro; reflexivity.
Qed.

(* ================================================================ statements as Props/C18.v quotes them *)

Theorem name_roundtrip fd : int64_ok (fd_num fd) = true ->
  parse_name (gen_name fd) = Some fd /\ parse_name (gen_old_name fd) = Some fd /\
  (forall fd', int64_ok (fd_num fd') = true -> gen_name fd' = gen_name fd -> fd' = fd).
Proof.
  intro H. split; [now apply parse_gen_name|split; [now apply parse_gen_old_name|]].
  intros fd' H' E. now apply gen_name_inj.
Qed.

Theorem getmeta_readonly_pure :
  (forall v, snd (get_meta_ops true v) = []) /\
  (forall v, snd (get_meta true v) = v) /\
  (forall s, snd (get_meta_fs true s) = s) /\
  (forall ro v, fst (get_meta_ops ro v) = get_meta_result v).
Proof.
  split; [exact get_meta_ro_no_ops|split; [exact get_meta_ro_view|split; [exact get_meta_fs_ro|exact get_meta_result_mode]]].
Qed.

Theorem open_file_ro_creates_lock : open_file_view true [] = [(s_LOCK, [])].
Proof. reflexivity. Qed.

(* a reachable process state: a read-write storage is open and holds its in-process lock *)
Definition ex_proc : proc :=
  fst (fst (fstep (fst (fst (fstep (PR false OsFree []) (FOpenFile false)))) (FLock 0%nat))).

Theorem ex_proc_reachable :
  freach ex_proc /\ p_os ex_proc = OsExcl /\ p_exists ex_proc = true /\
  nth_error (p_stors ex_proc) 0 = Some (ST false false (Some 0) 1) /\
  snd (fst (fstep (PR false OsFree []) (FOpenFile true))) = SErrNotExist.
Proof. split; [repeat constructor|]. repeat split; reflexivity. Qed.
