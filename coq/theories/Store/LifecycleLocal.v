(* Store/LifecycleLocal.v — proofs about ONE call on ONE DB record of the lifecycle machine (Store/Lifecycle.v,
   property C18): case analyses over the whole API enumeration. The global lifting is in LifecycleProofs.v. *)
From Coq Require Import List NArith Bool String Lia.
From GL Require Import Store.Lifecycle.
Import ListNotations.
Open Scope nat_scope.

(* ---------------------------------------------------------------- small facts *)

Lemma all_api_complete : forall m, In m all_api.
Proof. intros m; destruct m; try destruct empty; try destruct nonnil; cbn; tauto. Qed.

Lemma is_closed_iff : forall m, is_closed m = true <-> m = Closed.
Proof. intros m; destruct m; cbn; split; congruence. Qed.

Lemma is_closed_false_iff : forall m, is_closed m = false <-> m <> Closed.
Proof. intros m; destruct m; cbn; split; congruence. Qed.

Lemma mlog_apply_mut : forall s m, mlog (apply_mut s m) = mlog s ++ [m].
Proof. intros s m; destruct m; reflexivity. Qed.

Lemma locked_apply_mut : forall s m, locked (apply_mut s m) = locked s.
Proof. intros s m; destruct m; reflexivity. Qed.

Lemma hasdb_apply_mut : forall s m, hasdb (apply_mut s m) = hasdb s.
Proof. intros s m; destruct m; reflexivity. Qed.

Lemma mlog_apply_muts : forall ms s, mlog (apply_muts s ms) = mlog s ++ ms.
Proof.
  unfold apply_muts. induction ms as [|m ms IH]; intros s; cbn [fold_left].
  - now rewrite app_nil_r.
  - rewrite IH, mlog_apply_mut, <- app_assoc. reflexivity.
Qed.

Lemma locked_apply_muts : forall ms s, locked (apply_muts s ms) = locked s.
Proof.
  unfold apply_muts. induction ms as [|m ms IH]; intros s; cbn [fold_left]; [reflexivity|].
  now rewrite IH, locked_apply_mut.
Qed.

Lemma hasdb_apply_muts : forall ms s, hasdb (apply_muts s ms) = hasdb s.
Proof.
  unfold apply_muts. induction ms as [|m ms IH]; intros s; cbn [fold_left]; [reflexivity|].
  now rewrite IH, hasdb_apply_mut.
Qed.

Lemma apply_muts_nil : forall s, apply_muts s [] = s.
Proof. reflexivity. Qed.

Lemma nth_error_upd_same : forall A (l : list A) i x y, nth_error l i = Some y -> nth_error (upd l i x) i = Some x.
Proof. induction l as [|a l IH]; intros [|i] x y H; cbn in *; try discriminate; eauto. Qed.

Lemma nth_error_upd_other : forall A (l : list A) i j x, i <> j -> nth_error (upd l i x) j = nth_error l j.
Proof.
  induction l as [|a l IH]; intros [|i] [|j] x H; cbn; try reflexivity; try congruence.
  apply IH. congruence.
Qed.

Lemma upd_id : forall A (l : list A) i x, nth_error l i = Some x -> upd l i x = l.
Proof. induction l as [|a l IH]; intros [|i] x H; cbn in *; try discriminate; [congruence|]. f_equal; eauto. Qed.

Lemma upd_none : forall A (l : list A) i x, nth_error l i = None -> upd l i x = l.
Proof. induction l as [|a l IH]; intros [|i] x H; cbn in *; try discriminate; try reflexivity. f_equal; eauto. Qed.

Lemma Forall_upd : forall A (P : A -> Prop) l i x, Forall P l -> P x -> Forall P (upd l i x).
Proof.
  induction l as [|a l IH]; intros i x Hl Hx; [destruct i; constructor|].
  inversion Hl; subst. destruct i; cbn; constructor; auto.
Qed.

Lemma Forall_nth_error : forall A (P : A -> Prop) l i x, Forall P l -> nth_error l i = Some x -> P x.
Proof. intros A P l i x Hl H. rewrite Forall_forall in Hl. apply Hl. eapply nth_error_In; eauto. Qed.

(* ---------------------------------------------------------------- per-DB invariant *)

Definition all_done (l : list txn) : Prop := Forall (fun t => tdone t = true) l.

Record db_ok (db : dbrec) : Prop := {
  ok_bg  : dmode db = ROpened \/ dmode db = Closed -> dbg db = false;
  ok_txn : dmode db <> RW -> all_done (dtxns db)
}.

Lemma has_open_txn_false : forall db, all_done (dtxns db) -> has_open_txn db = false.
Proof.
  intros db H. unfold has_open_txn. induction H as [|t l Ht _ IH]; cbn; [reflexivity|].
  now rewrite Ht, IH.
Qed.

Lemma has_open_txn_false_inv : forall db, has_open_txn db = false -> all_done (dtxns db).
Proof.
  intros db. unfold has_open_txn, all_done. induction (dtxns db) as [|t l IH]; cbn; intros H; constructor.
  - apply orb_false_iff in H. destruct H as [H _]. now apply negb_false_iff in H.
  - apply IH. apply orb_false_iff in H. tauto.
Qed.

Lemma all_done_close : forall l, all_done (close_txns l).
Proof. induction l; cbn; constructor; auto. Qed.

Lemma all_done_nth : forall l h t, all_done l -> nth_error l h = Some t -> tdone t = true.
Proof. intros l h t H1 H2. exact (Forall_nth_error _ _ _ _ _ H1 H2). Qed.

Lemma all_done_upd : forall l h t, all_done l -> tdone t = true -> all_done (upd l h t).
Proof. intros; apply Forall_upd; auto. Qed.

Lemma all_done_app : forall l t, all_done l -> tdone t = true -> all_done (l ++ [t]).
Proof. intros. apply Forall_app. split; auto. Qed.

Ltac inv_res H := injection H as <- <- <-.

(* case-splitting tactic: destructs every scrutinee appearing in the hypothesis H : local_step .. = (..) *)
Ltac blast H :=
  unfold local_step in H; cbn in H;
  unfold db_step, snap_step, txn_step, iter_step, read_sched, sched_bg, release_muts in H; cbn in H;
  repeat (match type of H with
          | context [match nth_error ?l ?h with _ => _ end] => destruct (nth_error l h) eqn:?
          | context [match dmode ?d with _ => _ end] => destruct (dmode d) eqn:?
          | context [if ?b then _ else _] => destruct b eqn:?
          | context [match ?x with _ => _ end] => destruct x eqn:?
          end; cbn in H);
  try discriminate H.

(* mode transitions of one call: unchanged, RW -> RSwitched, or open -> Closed *)
Lemma local_step_mode : forall db h m db' ms o,
  local_step true db h m = (db', ms, o) ->
  dmode db' = dmode db \/ (dmode db = RW /\ dmode db' = RSwitched /\ m = DbSetReadOnly) \/
  (dmode db <> Closed /\ dmode db' = Closed /\ m = DbClose).
Proof.
  intros db h m db' ms o H.
  destruct m; blast H; inv_res H; cbn; auto;
    try (right; left; repeat split; congruence); try (right; right; repeat split; congruence).
Qed.

Lemma nth_open_txn : forall db h t, nth_error (dtxns db) h = Some t -> tdone t = false -> all_done (dtxns db) -> False.
Proof. intros db h t H1 H2 H3. rewrite (all_done_nth _ _ _ H3 H1) in H2. discriminate. Qed.

Lemma has_bg_not : forall m b, has_bg m && b = true -> m = ROpened \/ m = Closed -> False.
Proof. intros m b H [->| ->]; cbn in H; discriminate. Qed.

Lemma local_step_ok : forall db h m db' ms o,
  db_ok db -> local_step true db h m = (db', ms, o) -> db_ok db'.
Proof.
  intros db h m db' ms o [Hbg Htx] H.
  destruct m; blast H; inv_res H; try (constructor; assumption);
    constructor; cbn; intros;
    repeat match goal with
    | E : dmode db = _ |- _ => rewrite E in *
    end;
    try (intuition congruence);
    try (apply Hbg; intuition congruence);
    try (apply all_done_close);
    try (apply all_done_upd; [apply Htx; congruence | reflexivity]);
    try (apply all_done_app; [apply Htx; congruence | reflexivity]);
    try (apply Htx; congruence);
    try (exfalso; eapply nth_open_txn; [eassumption | eassumption | apply Htx; congruence]).
  all: try (exfalso; eapply has_bg_not; eassumption).
  apply has_open_txn_false_inv.
  match goal with E : has_open_txn db && true = false |- _ => rewrite andb_true_r in E; exact E end.
  exfalso. match goal with E : _ \/ _ |- _ => destruct E as [E|E] end.
  - eapply nth_open_txn; [eassumption | eassumption | apply Htx; congruence].
  - match goal with E : is_closed _ = false |- _ => rewrite is_closed_false_iff in E; contradiction end.
Qed.

(* rewrite the goal with every recorded case equation *)
Ltac rw_eqs :=
  repeat match goal with
         | E : ?x = _ |- context [?x] => rewrite E
         end.

(* ---------------------------------------------------------------- what one call does on a closed DB *)

Lemma local_closed : forall db h m db' ms o,
  db_ok db -> dmode db = Closed -> local_step true db h m = (db', ms, o) ->
  ms = [] /\ o = closed_outcome db h m /\ dmode db' = Closed /\ dbg db' = dbg db /\ dseek db' = dseek db /\
  (recv m = RDb -> m <> DbNewIterator -> db' = db).
Proof.
  intros db h m db' ms o [Hbg Htx] M H.
  assert (Hd : all_done (dtxns db)) by (apply Htx; congruence).
  destruct m; unfold local_step in H; cbn in H;
    unfold db_step, snap_step, txn_step, iter_step, read_sched, sched_bg, release_muts in H; rewrite ?M in H;
    blast H; inv_res H; unfold closed_outcome; cbn; rw_eqs; cbn; rw_eqs;
    repeat split; try reflexivity; try congruence; try (intros; discriminate);
    try (exfalso; eapply nth_open_txn; eassumption).
Qed.

(* ---------------------------------------------------------------- what one call does on a read-only DB *)

Lemma local_ro : forall db h m db' ms o,
  db_ok db -> is_ro (dmode db) = true -> local_step true db h m = (db', ms, o) ->
  (recv m = RDb -> takes_write_lock m = true -> db' = db /\ ms = [] /\ o = ErrReadOnly) /\
  (recv m = RDb -> db_read m = true -> ms = [] /\ o = Ok /\ dmode db' = dmode db) /\
  (m = DbClose -> o = Ok /\ dmode db' = Closed) /\
  (ms = [] \/ ((m = DbClose \/ m = ItRelease) /\ dmode db = RSwitched)).
Proof.
  intros db h m db' ms o [Hbg Htx] M H.
  assert (Hd : all_done (dtxns db)) by (apply Htx; intros E; rewrite E in M; discriminate).
  assert (Hn : has_open_txn db = false) by (apply has_open_txn_false; exact Hd).
  assert (Hc : existsb (fun t => negb (tdone t) && ttab t) (dtxns db) = false).
  { clear -Hd. induction Hd as [|t l Ht _ IH]; cbn; [reflexivity|]. now rewrite Ht, IH. }
  destruct (dmode db) eqn:MD; try discriminate M;
    destruct m; unfold local_step in H; cbn in H;
    unfold db_step, snap_step, txn_step, iter_step, read_sched, sched_bg, release_muts, close_muts in H; rewrite ?MD, ?Hc in H;
    blast H; inv_res H; cbn;
    repeat split; try reflexivity; try congruence; try (intros; discriminate); auto;
    try (exfalso; eapply nth_open_txn; eassumption);
    try (left; reflexivity);
    try (match goal with E : dbg db = true |- _ => rewrite Hbg in E by auto; discriminate end);
    try (right; split; [auto | congruence]).
  exfalso. assert (E : true = false) by (apply Hbg; auto). discriminate E.
Qed.

(* ---------------------------------------------------------------- quiet DBs issue no mutation *)

(* closed, opened read-only, or switched to read-only with the background work drained (the repaired code: the
   compaction goroutines start nothing once the DB is read-only, whatever the seek-compaction option) *)
(* the iterator pins the current version (or none): releasing it removes no file *)
Definition pins_current (v : nat) (i : iter) : bool :=
  match ik i with
  | IEmpty => true
  | IReal _ => irel i || Nat.eqb (iver i) v
  end.

Definition quietb (db : dbrec) : bool :=
  match dmode db with
  | Closed | ROpened => true
  | RSwitched => negb (dbg db) && forallb (pins_current (dver db)) (diters db)
  | RW => false
  end.

Lemma forallb_upd : forall A (p : A -> bool) l i x, forallb p l = true -> p x = true -> forallb p (upd l i x) = true.
Proof.
  induction l as [|a l IH]; intros [|i] x H Hx; cbn in *; auto;
    apply andb_true_iff in H; destruct H as [H1 H2]; apply andb_true_iff; split; auto.
Qed.

Lemma forallb_snoc : forall A (p : A -> bool) l x, forallb p l = true -> p x = true -> forallb p (l ++ [x]) = true.
Proof. intros. rewrite forallb_app. cbn. now rewrite H, H0. Qed.

Lemma forallb_nth : forall A (p : A -> bool) l i x, forallb p l = true -> nth_error l i = Some x -> p x = true.
Proof. intros A p l i x H E. rewrite forallb_forall in H. apply H. eapply nth_error_In; eauto. Qed.

Lemma pins_no_release : forall v i o, pins_current v i = true -> ik i = IReal o ->
  negb (irel i) && negb (Nat.eqb (iver i) v) = true -> False.
Proof.
  intros v i o P K H. unfold pins_current in P. rewrite K in P.
  apply andb_true_iff in H. destruct H as [H1 H2]. apply negb_true_iff in H1. apply negb_true_iff in H2.
  rewrite H1, H2 in P. discriminate.
Qed.

Lemma local_quiet : forall db h m db' ms o,
  db_ok db -> quietb db = true -> local_step true db h m = (db', ms, o) -> ms = [] /\ quietb db' = true.
Proof.
  intros db h m db' ms o [Hbg Htx] Q H.
  assert (Hd : all_done (dtxns db)) by (apply Htx; intros E; unfold quietb in Q; rewrite E in Q; discriminate).
  assert (Hc : existsb (fun t => negb (tdone t) && ttab t) (dtxns db) = false).
  { clear -Hd. induction Hd as [|t l Ht _ IH]; cbn; [reflexivity|]. now rewrite Ht, IH. }
  unfold quietb in *.
  destruct (dmode db) eqn:MD; try discriminate Q.
  - (* ROpened *)
    assert (B : dbg db = false) by auto.
    destruct m; unfold local_step in H; cbn in H;
      unfold db_step, snap_step, txn_step, iter_step, read_sched, sched_bg, release_muts, close_muts in H; rewrite ?MD, ?Hc, ?B in H;
      blast H; inv_res H; cbn; rewrite ?MD; auto;
      try (exfalso; eapply nth_open_txn; eassumption).
  - (* RSwitched, drained, every live iterator pins the current version *)
    apply andb_true_iff in Q. destruct Q as [Q2 Q3].
    apply negb_true_iff in Q2.
    destruct m; unfold local_step in H; cbn in H;
      unfold db_step, snap_step, txn_step, iter_step, read_sched, sched_bg, release_muts, close_muts in H;
      rewrite ?MD, ?Hc, ?Q2 in H; cbn [negb andb] in H;
      blast H; inv_res H; cbn; rewrite ?MD, ?Q2; cbn;
      try (exfalso; eapply nth_open_txn; eassumption);
      try (exfalso; eapply pins_no_release; [eapply forallb_nth; eassumption | eassumption | eassumption]);
      (split; [reflexivity|]); auto;
      try (apply forallb_snoc; [assumption | unfold pins_current; cbn; rewrite ?PeanoNat.Nat.eqb_refl, ?orb_true_r; reflexivity]);
      try (apply forallb_upd; [assumption |
             match goal with E : nth_error (diters db) _ = Some ?i |- _ =>
               pose proof (forallb_nth _ _ _ _ _ Q3 E) as P; unfold pins_current in *; cbn in *;
               destruct (ik i); cbn; auto end]).
    match goal with E : irel _ = false, P : _ || _ = true |- _ => rewrite E in P; exact P end.
  - (* Closed *)
    assert (B : dbg db = false) by auto.
    destruct m; unfold local_step in H; cbn in H;
      unfold db_step, snap_step, txn_step, iter_step, read_sched, sched_bg, release_muts, close_muts in H; rewrite ?MD, ?Hc, ?B in H;
      blast H; inv_res H; cbn; rewrite ?MD; auto;
      try (exfalso; eapply nth_open_txn; eassumption).
Qed.

Lemma drain_quiet : forall db, db_ok db -> quietb db = true -> drain_db db = (db, []).
Proof.
  intros db [Hbg _] Q. unfold drain_db, quietb in *.
  destruct (dmode db) eqn:MD; try discriminate Q.
  - rewrite Hbg; auto.
  - apply andb_true_iff in Q. destruct Q as [Q2 _].
    apply negb_true_iff in Q2. now rewrite Q2.
  - rewrite Hbg; auto.
Qed.

(* ---------------------------------------------------------------- released handles *)

Lemma local_snap_released : forall db h m,
  nth_error (dsnaps db) h = Some true -> m = SnGet \/ m = SnHas \/ m = SnNewIterator ->
  exists db', local_step true db h m = (db', [], ErrSnapshotReleased) /\ dmode db' = dmode db /\ dsnaps db' = dsnaps db.
Proof.
  intros db h m H [->|[->| ->]]; unfold local_step; cbn; rewrite H; cbn; eexists; split; try reflexivity; auto.
Qed.

Lemma local_iter_released : forall db h i m,
  nth_error (diters db) h = Some i -> irel i = true -> ierr i = Ok -> it_move m = true ->
  local_step true db h m =
    (set_iters db (upd (diters db) h (mkIter (ik i) true ErrIterReleased (ihasr i) (iver i))), [], ErrIterReleased).
Proof.
  intros db h i m H R E M. destruct m; try discriminate M; unfold local_step; cbn; rewrite H; cbn;
    unfold iter_step; rewrite E, R; reflexivity.
Qed.

Lemma local_iter_sticky : forall db h i m,
  nth_error (diters db) h = Some i -> ierr i <> Ok ->
  it_move m = true \/ m = ItValid \/ m = ItError \/ m = ItKey \/ m = ItValue ->
  local_step true db h m = (db, [], ierr i).
Proof.
  intros db h i m H E M.
  destruct M as [M|[->|[->|[->| ->]]]]; try (unfold local_step; cbn; rewrite H; reflexivity).
  destruct m; try discriminate M; unfold local_step; cbn; rewrite H; cbn; unfold iter_step;
    destruct (ierr i); try reflexivity; contradiction.
Qed.

Lemma local_iter_setreleaser_released : forall db h i b,
  nth_error (diters db) h = Some i -> irel i = true -> local_step true db h (ItSetReleaser b) = (db, [], Panics).
Proof. intros db h i b H R. unfold local_step; cbn; rewrite H; cbn. unfold iter_step. now rewrite R. Qed.

Lemma local_txn_done : forall db h t m,
  nth_error (dtxns db) h = Some t -> tdone t = true -> recv m = RTxn ->
  exists db', local_step true db h m = (db', [],
    match m with
    | TrWrite true | TrDiscard => Ok
    | TrCommit => if is_closed (dmode db) then ErrClosed else ErrTransactionDone
    | _ => ErrTransactionDone
    end) /\ dmode db' = dmode db /\ dtxns db' = dtxns db /\ (m <> TrNewIterator -> db' = db).
Proof.
  intros db h t m H D R.
  destruct m; try destruct empty; try discriminate R; unfold local_step; cbn; rewrite H; cbn;
    unfold txn_step; rewrite ?D; try destruct (is_closed (dmode db));
    eexists; split; try reflexivity; cbn; repeat split; auto; congruence.
Qed.

