(* Store/StorContract.v — the storage contract, written down ONCE: what goleveldb's DB layer, the checker's own
   storage (harness/lib/vstor) and the L2 persistence model assume of a storage.Storage used sequentially.
   Definitions only (proofs: Store/MemStorageProofs.v, Store/FileStorageSeqProofs.v; theorems: Props/C18M.v).

   The contract (file map + open-handle set + lock + meta), as documented in leveldb/storage/storage.go plus the
   assumptions spelled out in DESIGN.md:
     Create(fd)   binds fd to a NEW empty file (an existing file of that name is replaced, its open handles keep the old
                  file) and returns its writer; Open(fd) returns a reader over the bytes the file holds at that moment
                  (os.ErrNotExist when absent): a reader keeps working whatever happens to the name afterwards;
     Remove(fd)   unbinds (os.ErrNotExist when absent); Rename(a, b) moves the file of a to b, replacing b's (a = b: no-op);
     Write through a writer appends to ITS file (visible under whatever name binds that file now, if any);
     SetMeta(fd) / GetMeta: the last descriptor set; os.ErrNotExist when none was set or it names no existing file;
     Lock: a second Lock fails with ErrLocked until the locker handed out is unlocked; a stale locker unlocks nothing;
     List(ft): the bound descriptors whose type intersects ft;
     invalid descriptors (FileDescOk) are refused with ErrInvalidFile before anything else;
     after Close every method of the storage returns ErrClosed (Rename(a, a) excepted: it is decided before);
     a handle closed once answers ErrClosed to everything.
   A call sequence names handles and lockers by their creation index (the k-th successful Open/Create, the k-th
   successful Lock). *)
From Coq Require Import List NArith ZArith Bool.
From GL Require Import Base.Bytes.
Import ListNotations.
Open Scope N_scope.

(* storage.FileDesc as a caller may pass it: any type code, any int64 number *)
Record xfd := XFD { x_ty : N; x_num : Z }.

Definition xfd_eqb (a b : xfd) : bool := (x_ty a =? x_ty b) && (x_num a =? x_num b)%Z.

(* storage.FileDescOk *)
Definition xfd_ok (f : xfd) : bool :=
  ((x_ty f =? 1) || (x_ty f =? 2) || (x_ty f =? 4) || (x_ty f =? 8)) && (0 <=? x_num f)%Z.

Inductive serrc :=
| EClosed       (* storage.ErrClosed *)
| ELocked       (* storage.ErrLocked *)
| EInvalid      (* storage.ErrInvalidFile *)
| ENotExist     (* os.ErrNotExist *)
| EFileOpen     (* errFileOpen "leveldb/storage: file still open" (memStorage only) *)
| ECorrupt      (* *storage.ErrCorrupted (file storage GetMeta) *)
| EOsClosed     (* os.ErrClosed "file already closed" (file storage handles) *)
| EOther.

Definition serrc_code (e : serrc) : N :=
  match e with
  | EClosed => 1 | ELocked => 2 | EInvalid => 3 | ENotExist => 4 | EFileOpen => 5 | ECorrupt => 6 | EOsClosed => 7
  | EOther => 9
  end.

Inductive sop :=
| SLock | SUnlock (k : nat)
| SSetMeta (f : xfd) | SGetMeta | SList (mask : N)
| SOpen (f : xfd) | SCreate (f : xfd) | SRemove (f : xfd) | SRename (a b : xfd) | SClose
| HWrite (h : nat) (d : bytes) | HSync (h : nat) | HReadAll (h : nat) | HClose (h : nat).

Inductive sres :=
| ROk
| RErr (e : serrc)
| RFd (f : xfd)
| RList (l : list xfd)          (* sorted by (type, number) *)
| RData (d : bytes)
| RLockId (k : nat)
| RHandle (h : nat)
| RUnspec                        (* the model does not say (compared with nothing) *)
| RBadOp.                        (* the call names a handle that does not exist / of the wrong kind (not generated) *)

(* ---- finite maps keyed by descriptors: association lists, first binding counts; [dset] replaces in place *)
Fixpoint dlookup {A} (k : xfd) (d : list (xfd * A)) : option A :=
  match d with
  | [] => None
  | (k', v) :: d' => if xfd_eqb k k' then Some v else dlookup k d'
  end.

Fixpoint dremove {A} (k : xfd) (d : list (xfd * A)) : list (xfd * A) :=
  match d with
  | [] => []
  | (k', v) :: d' => if xfd_eqb k k' then dremove k d' else (k', v) :: dremove k d'
  end.

Fixpoint dset {A} (k : xfd) (v : A) (d : list (xfd * A)) : list (xfd * A) :=
  match d with
  | [] => [(k, v)]
  | (k', v') :: d' => if xfd_eqb k k' then (k, v) :: d' else (k', v') :: dset k v d'
  end.

(* ---- List: sorted by (type, number) *)
Definition xfd_leb (a b : xfd) : bool :=
  (x_ty a <? x_ty b) || ((x_ty a =? x_ty b) && (x_num a <=? x_num b)%Z).

Fixpoint xinsert (a : xfd) (l : list xfd) : list xfd :=
  match l with
  | [] => [a]
  | b :: l' => if xfd_leb a b then a :: l else b :: xinsert a l'
  end.

Definition xsort (l : list xfd) : list xfd := fold_right xinsert [] l.

Definition list_fds (mask : N) (keys : list xfd) : list xfd :=
  xsort (filter (fun k => negb (N.land (x_ty k) mask =? 0)) keys).

Fixpoint set_nth {A} (l : list A) (i : nat) (x : A) : list A :=
  match l, i with
  | [], _ => []
  | _ :: l', O => x :: l'
  | y :: l', S i' => y :: set_nth l' i' x
  end.

(* ================================================================ the contract machine *)

(* a bound file: its bytes and the handle (creation index) of the writer that may still append to it *)
Definition cfile := (bytes * option nat)%type.

Inductive chandle :=
| CW (closed : bool)                    (* a writer *)
| CR (snap : bytes) (closed : bool).    (* a reader: the bytes of the file when it was opened *)

Record cst := CS {
  c_dir : list (xfd * cfile);
  c_hs : list chandle;
  c_lock : option nat;
  c_nlock : nat;
  c_meta : option xfd;
  c_closed : bool }.

Definition c_empty : cst := CS [] [] None 0 None false.

Definition with_dir (c : cst) (d : list (xfd * cfile)) : cst :=
  CS d (c_hs c) (c_lock c) (c_nlock c) (c_meta c) (c_closed c).
Definition with_hs (c : cst) (h : list chandle) : cst :=
  CS (c_dir c) h (c_lock c) (c_nlock c) (c_meta c) (c_closed c).

(* append to the file whose writer is h *)
Definition cappend (h : nat) (d : bytes) (e : xfd * cfile) : xfd * cfile :=
  let '(k, (data, ow)) := e in
  match ow with
  | Some h' => if Nat.eqb h' h then (k, (data ++ d, ow)) else e
  | None => e
  end.

Definition cstep (c : cst) (o : sop) : cst * sres :=
  let closed := c_closed c in
  match o with
  | SLock =>
      if closed then (c, RErr EClosed)
      else match c_lock c with
           | Some _ => (c, RErr ELocked)
           | None => (CS (c_dir c) (c_hs c) (Some (c_nlock c)) (S (c_nlock c)) (c_meta c) closed, RLockId (c_nlock c))
           end
  | SUnlock k =>
      match c_lock c with
      | Some k' => if Nat.eqb k k'
                   then (CS (c_dir c) (c_hs c) None (c_nlock c) (c_meta c) closed, ROk) else (c, ROk)
      | None => (c, ROk)
      end
  | SSetMeta f =>
      if negb (xfd_ok f) then (c, RErr EInvalid)
      else if closed then (c, RErr EClosed)
      else (CS (c_dir c) (c_hs c) (c_lock c) (c_nlock c) (Some f) closed, ROk)
  | SGetMeta =>
      if closed then (c, RErr EClosed)
      else match c_meta c with
           | None => (c, RErr ENotExist)
           | Some f => match dlookup f (c_dir c) with
                       | Some _ => (c, RFd f)
                       | None => (c, RErr ENotExist)
                       end
           end
  | SList mask =>
      if closed then (c, RErr EClosed) else (c, RList (list_fds mask (map fst (c_dir c))))
  | SOpen f =>
      if negb (xfd_ok f) then (c, RErr EInvalid)
      else if closed then (c, RErr EClosed)
      else match dlookup f (c_dir c) with
           | None => (c, RErr ENotExist)
           | Some (data, _) => (with_hs c (c_hs c ++ [CR data false]), RHandle (length (c_hs c)))
           end
  | SCreate f =>
      if negb (xfd_ok f) then (c, RErr EInvalid)
      else if closed then (c, RErr EClosed)
      else (CS (dset f ([], Some (length (c_hs c))) (c_dir c)) (c_hs c ++ [CW false])
               (c_lock c) (c_nlock c) (c_meta c) closed, RHandle (length (c_hs c)))
  | SRemove f =>
      if negb (xfd_ok f) then (c, RErr EInvalid)
      else if closed then (c, RErr EClosed)
      else match dlookup f (c_dir c) with
           | None => (c, RErr ENotExist)
           | Some _ => (with_dir c (dremove f (c_dir c)), ROk)
           end
  | SRename a b =>
      if negb (xfd_ok a) || negb (xfd_ok b) then (c, RErr EInvalid)
      else if xfd_eqb a b then (c, ROk)
      else if closed then (c, RErr EClosed)
      else match dlookup a (c_dir c) with
           | None => (c, RErr ENotExist)
           | Some e => (with_dir c (dset b e (dremove a (c_dir c))), ROk)
           end
  | SClose =>
      if closed then (c, RErr EClosed)
      else (CS (c_dir c) (c_hs c) (c_lock c) (c_nlock c) (c_meta c) true, ROk)
  | HWrite h d =>
      match nth_error (c_hs c) h with
      | Some (CW false) => (with_dir c (map (cappend h d) (c_dir c)), ROk)
      | Some (CW true) => (c, RErr EClosed)
      | _ => (c, RBadOp)
      end
  | HSync h =>
      match nth_error (c_hs c) h with
      | Some (CW false) => (c, ROk)
      | Some (CW true) => (c, RErr EClosed)
      | _ => (c, RBadOp)
      end
  | HReadAll h =>
      match nth_error (c_hs c) h with
      | Some (CR snap false) => (c, RData snap)
      | Some (CR _ true) => (c, RErr EClosed)
      | _ => (c, RBadOp)
      end
  | HClose h =>
      match nth_error (c_hs c) h with
      | Some (CW false) => (with_hs c (set_nth (c_hs c) h (CW true)), ROk)
      | Some (CR snap false) => (with_hs c (set_nth (c_hs c) h (CR snap true)), ROk)
      | Some _ => (c, RErr EClosed)
      | None => (c, RBadOp)
      end
  end.

Fixpoint crun (c : cst) (ops : list sop) : cst * list sres :=
  match ops with
  | [] => (c, [])
  | o :: ops' => let '(c1, r) := cstep c o in let '(c2, rs) := crun c1 ops' in (c2, r :: rs)
  end.

(* ================================================================ the checker's storage (harness/lib/vstor/vstor.go)
   is the contract with two differences: Close only logs (the checker reuses one storage across reopenings of
   the DB), and GetMeta returns the descriptor set last whether or not a file of that name exists. *)
Definition vstep (c : cst) (o : sop) : cst * sres :=
  match o with
  | SClose => (c, ROk)
  | SGetMeta =>
      match c_meta c with
      | None => (c, RErr ENotExist)
      | Some f => (c, RFd f)
      end
  | _ => cstep c o
  end.

(* where vstor leaves the contract *)
Definition dev_vstor (c : cst) (o : sop) : bool :=
  match o with
  | SClose => true
  | SGetMeta => match c_meta c with
                | Some f => match dlookup f (c_dir c) with None => true | Some _ => false end
                | None => false
                end
  | _ => false
  end.

Fixpoint vrun (c : cst) (ops : list sop) : cst * list sres :=
  match ops with
  | [] => (c, [])
  | o :: ops' => let '(c1, r) := vstep c o in let '(c2, rs) := vrun c1 ops' in (c2, r :: rs)
  end.
