(* Store/OpenCrashProofs.v — Open (Store/OpenPath.v) against the record-level crash model (Store/Crash.v): what
   Open keeps of a crash image is what the model's recover returns for the record-level image the bytes denote.
   Proof file.

   File NUMBERS.  The record-level model numbers its journals 1, 2, 3, …; the implementation takes journal numbers
   from the counter it shares with tables and manifests.  recover looks at numbers only to compare the manifest's
   journal number with a journal's, so any order embedding f of the real numbers into the model's relates the two
   (image_map, recover_full_image_map). *)
From Coq Require Import List NArith ZArith Bool Lia.
From GL Require Import Base.Bytes Base.Order Codec.IKey Codec.Journal Codec.JournalSpec Codec.Batch
  Codec.SessionRecordSpec Codec.SessionRecordProofs
  Lsm.Lsm Lsm.History Lsm.ReadPath Lsm.ReadPathMem Lsm.BatchWriteProofs
  Store.Crash Store.CrashProofs Store.ManifestReplayProofs Store.OpenPath Store.OpenJournalProofs Store.OpenPathProofs.
From GL Require Mem.MemDB Store.Sweep.
Import ListNotations.
Open Scope N_scope.

(* ---------------------------------------------------------------- renumbering a record-level image *)
Definition jfile_map (f : N -> N) (j : jfile) : jfile :=
  {| j_num := f (j_num j); j_recs := j_recs j; j_synced := j_synced j |}.
Definition medit_map (f : N -> N) (e : medit) : medit :=
  {| m_jnum := option_map f (m_jnum e); m_seq := m_seq e; m_tab := m_tab e |}.
Definition image_map (f : N -> N) (img : image) : image :=
  {| i_live := jfile_map f (i_live img); i_frozen := option_map (jfile_map f) (i_frozen img);
     i_man := map (medit_map f) (i_man img) |}.

(* f preserves and reflects the order *)
Definition order_embedding (f : N -> N) : Prop := forall a b, (f a <=? f b) = (a <=? b).

Lemma replay_man_map f es : forall jn sq tabs,
  replay_man (map (medit_map f) es) (f jn) sq tabs =
  (let '(a, b, t) := replay_man es jn sq tabs in (f a, b, t)).
Proof.
  induction es as [|e es IH]; intros jn sq tabs; cbn [map replay_man]; [reflexivity|].
  cbn [medit_map m_jnum m_seq m_tab].
  destruct (m_jnum e) as [j|]; cbn [option_map]; apply IH.
Qed.

Lemma recover_full_image_map f img : order_embedding f -> f 0 = 0 ->
  recover_full (image_map f img) = recover_full img.
Proof.
  intros Hf H0. unfold recover_full, image_map. cbn [i_man i_frozen i_live].
  pose proof (replay_man_map f (i_man img) 0 0 []) as E. rewrite H0 in E. rewrite E.
  destruct (replay_man (i_man img) 0 0 []) as [[jn sq] tabs].
  set (js := match i_frozen img with Some fz => [fz] | None => [] end ++ [i_live img]).
  assert (Ejs : match option_map (jfile_map f) (i_frozen img) with Some fz => [fz] | None => [] end ++ [jfile_map f (i_live img)]
                = map (jfile_map f) js).
  { unfold js. destruct (i_frozen img); reflexivity. }
  rewrite Ejs. clear Ejs E. generalize (sq, tabs). induction js as [|j js IH]; intros st; [reflexivity|].
  cbn [map filter jfile_map j_num]. rewrite Hf. destruct (jn <=? j_num j); cbn [fold_left jfile_map j_recs]; apply IH.
Qed.

(* ---------------------------------------------------------------- replay over consecutive journals *)
Lemma replay_journal_app a : forall b cur acc,
  replay_journal (a ++ b) cur acc = replay_journal b (fst (replay_journal a cur acc)) (snd (replay_journal a cur acc)).
Proof.
  induction a as [|x a IH]; intros b cur acc; cbn [app replay_journal]; [reflexivity|].
  destruct (b_seq x <? cur); apply IH.
Qed.

Lemma fold_replay_concat (ls : list (list Crash.batch)) : forall st,
  fold_left (fun st l => replay_journal l (fst st) (snd st)) ls st = replay_journal (concat ls) (fst st) (snd st).
Proof.
  induction ls as [|l ls IH]; intros [cur acc]; cbn [fold_left concat fst snd]; [reflexivity|].
  rewrite IH, replay_journal_app. reflexivity.
Qed.

Section OpenCrash.
  Variable jcrc : bytes -> N.
  Variable jp : jparams.
  Variable rp : SR.rparams.
  Variable kp : kparams.

  Local Notation jdesc := (OpenPathProofs.jdesc).
  Local Notation kept_prefixes := (OpenPathProofs.kept_prefixes).
  Local Notation selected := (OpenPathProofs.selected).

  (* a journal file of the image as a file of the record-level model: all of it, and the prefix a crash kept *)
  Definition jfull (jd : jdesc) : jfile :=
    {| j_num := jd_num jd; j_recs := map jb_abs (jd_bs jd); j_synced := jd_synced jd |}.
  Definition jfile_of (jd : jdesc) (k : nat) : jfile :=
    {| j_num := jd_num jd; j_recs := map jb_abs (firstn k (jd_bs jd)); j_synced := Nat.min k (jd_synced jd) |}.

  Lemma jprefix_jfull jd k : jprefix (jfull jd) k = jfile_of jd k.
  Proof. unfold jprefix, jfull, jfile_of. cbn [j_num j_recs j_synced]. rewrite firstn_map. reflexivity. Qed.

  Lemma jsel_no_prev jn n : 1 <= n -> SW.jsel jn 0 n = (jn <=? n).
  Proof. intros H. unfold SW.jsel. replace (n =? 0) with false by (symmetry; apply N.eqb_neq; lia). apply orb_false_r. Qed.

  (* the record-level image the bytes denote: the manifest records read, the journal prefixes kept *)
  Definition rimage (newb : SR.atrec -> list Crash.batch) (rs : list SR.srec) (jfz : option jdesc) (kf : nat)
      (jl : jdesc) (kl : nat) : image :=
    {| i_live := jfile_of jl kl; i_frozen := option_map (fun jf => jfile_of jf kf) jfz;
       i_man := map (medit_of rp newb) rs |}.

  Lemma recover_of_prefixes newb cmp rs j nf q live cps jfz jl bss :
    replay_result rp cmp rs = SpecOk j 0%Z nf q live cps ->
    1 <= jd_num jl -> match jfz with Some jf => 1 <= jd_num jf /\ jd_num jf < jd_num jl | None => True end ->
    kept_prefixes (selected j 0%Z (olist jfz ++ [jl])) bss ->
    exists kf kl, (jd_synced jl <= kl)%nat /\
      match jfz with Some jf => (jd_synced jf <= kf)%nat | None => True end /\
      recover_full (rimage newb rs jfz kf jl kl) =
        (snd (accepted (concat bss) q), flat_map newb (flat_map SR.sr_adds rs) ++ map jb_abs (fst (accepted (concat bss) q))).
  Proof.
    intros Espec Hl Hf Hp.
    pose proof (manifest_replay_abs rp newb cmp rs j 0%Z nf q live cps Espec) as Eman.
    unfold selected in Hp. change (Z.to_N 0) with 0 in Hp.
    assert (R : forall kf kl, recover_full (rimage newb rs jfz kf jl kl) =
              fold_left (fun st l => replay_journal l (fst st) (snd st))
                (map j_recs (filter (fun x => Z.to_N j <=? j_num x)
                                    (olist (option_map (fun jf => jfile_of jf kf) jfz) ++ [jfile_of jl kl])))
                (q, flat_map newb (flat_map SR.sr_adds rs))).
    { intros kf kl. unfold recover_full, rimage. cbn [i_man i_frozen i_live]. rewrite Eman.
      set (js := filter _ _). clearbody js. generalize (q, flat_map newb (flat_map SR.sr_adds rs)).
      induction js as [|x js IH]; intros st; cbn [map fold_left]; [reflexivity|apply IH]. }
    destruct jfz as [jf|]; cbn [olist app filter] in Hp.
    - destruct Hf as (Hf1 & Hf2).
      rewrite (jsel_no_prev _ _ Hf1), (jsel_no_prev _ _ Hl) in Hp.
      destruct (Z.to_N j <=? jd_num jf) eqn:Ef; destruct (Z.to_N j <=? jd_num jl) eqn:El.
      + inversion Hp as [|? b1 ? l1 (kf & Hkf & ->) Hp1]; subst.
        inversion Hp1 as [|? b2 ? l2 (kl & Hkl & ->) Hp2]; subst. inversion Hp2; subst.
        exists kf, kl. split; [exact Hkl|]. split; [exact Hkf|].
        rewrite R. cbn [option_map olist app filter jfile_of j_num]. rewrite Ef, El. cbn [map j_recs].
        rewrite (fold_replay_concat [_; _]). unfold jfile_of. cbn [concat fst snd j_recs]. rewrite !app_nil_r, <- map_app.
        rewrite accepted_replay. reflexivity.
      + apply N.leb_le in Ef. apply N.leb_gt in El. lia.
      + inversion Hp as [|? b2 ? l2 (kl & Hkl & ->) Hp2]; subst. inversion Hp2; subst.
        exists (jd_synced jf), kl. split; [exact Hkl|]. split; [lia|].
        rewrite R. cbn [option_map olist app filter jfile_of j_num]. rewrite Ef, El. cbn [map j_recs].
        rewrite (fold_replay_concat [_]). unfold jfile_of. cbn [concat fst snd j_recs]. rewrite !app_nil_r.
        rewrite accepted_replay. reflexivity.
      + inversion Hp; subst.
        exists (jd_synced jf), (jd_synced jl). split; [lia|]. split; [lia|].
        rewrite R. cbn [option_map olist app filter jfile_of j_num]. rewrite Ef, El. cbn [map fold_left concat accepted fst snd]. 
        rewrite app_nil_r. reflexivity.
    - rewrite (jsel_no_prev _ _ Hl) in Hp.
      destruct (Z.to_N j <=? jd_num jl) eqn:El.
      + inversion Hp as [|? b2 ? l2 (kl & Hkl & ->) Hp2]; subst. inversion Hp2; subst.
        exists 0%nat, kl. split; [exact Hkl|]. split; [exact I|].
        rewrite R. cbn [option_map olist app filter jfile_of j_num]. rewrite El. cbn [map j_recs].
        rewrite (fold_replay_concat [_]). unfold jfile_of. cbn [concat fst snd j_recs]. rewrite !app_nil_r.
        rewrite accepted_replay. reflexivity.
      + inversion Hp; subst.
        exists 0%nat, (jd_synced jl). split; [lia|]. split; [exact I|].
        rewrite R. cbn [option_map olist app filter jfile_of j_num]. rewrite El. cbn [map fold_left concat accepted fst snd].
        rewrite app_nil_r. reflexivity.
  Qed.

  (* ---------------------------------------------------------------- no record carries a previous-journal number *)
  Lemma last_some_none {A} (l : list (option A)) : Forall (fun o => o = None) l -> forall acc, last_some_from acc l = acc.
  Proof. induction 1 as [|o l -> Hl IH]; intros acc; [reflexivity|]. cbn [last_some_from]. apply IH. Qed.

  Lemma no_prev_pj cmp rs j pj nf q live cps :
    Forall (fun r => SR.has r (SR.tPrevJournalNum rp) = false) rs ->
    replay_result rp cmp rs = SpecOk j pj nf q live cps -> pj = 0%Z.
  Proof.
    intros Hn E. unfold replay_result in E.
    destruct (scalar_of (SR.tComparer rp) SR.sr_comparer rs); [|discriminate].
    destruct (negb (beq b cmp)); [discriminate|].
    destruct (scalar_of (SR.tNextFileNum rp) SR.sr_nextfile rs); [|discriminate].
    destruct (scalar_of (SR.tJournalNum rp) SR.sr_journal rs); [|discriminate].
    destruct (scalar_of (SR.tSeqNum rp) SR.sr_seq rs); [|discriminate].
    injection E as _ Epj _ _ _ _. rewrite <- Epj.
    unfold scalar_of, last_some. rewrite last_some_none; [reflexivity|].
    apply Forall_forall. intros o Ho. apply in_map_iff in Ho as (r & <- & Hr).
    rewrite Forall_forall in Hn. rewrite (Hn r Hr). reflexivity.
  Qed.

  Lemma jprefix_map f j k : jprefix (jfile_map f j) k = jfile_map f (jprefix j k).
  Proof. reflexivity. Qed.

  (* ---------------------------------------------------------------- the image is an image of the model state *)
  (* how a described storage image (manifest records mrecs with ks synced, journals jfz? and jl) relates to a state s
     of the record-level model, under the renumbering f *)
  Definition denotes (newb : SR.atrec -> list Crash.batch) (f : N -> N) (s : pstate)
      (mrecs : list (SR.srec * bytes)) (ks : nat) (jfz : option jdesc) (jl : jdesc) : Prop :=
    p_live s = jfile_map f (jfull jl) /\
    match jfz, p_frozen s with
    | Some jf, Some fz => fz = jfile_map f (jfull jf)
    | None, Some fz => j_synced fz = 0%nat          (* a never-synced file may have vanished *)
    | None, None => True
    | Some _, None => False
    end /\
    p_man s = map (medit_map f) (map (medit_of rp newb) (map fst mrecs)) /\
    p_msynced s = ks.

  Lemma rimage_is_image newb f s mrecs ks jfz jl k kf kl :
    denotes newb f s mrecs ks jfz jl -> (ks <= k)%nat -> (jd_synced jl <= kl)%nat ->
    match jfz with Some jf => (jd_synced jf <= kf)%nat | None => True end ->
    is_image s (image_map f (rimage newb (firstn k (map fst mrecs)) jfz kf jl kl)).
  Proof.
    intros (Hl & Hf & Hm & Hs) Hk Hkl Hkf. unfold is_image, image_map, rimage. cbn [i_live i_frozen i_man].
    split; [|split].
    - exists kl. rewrite Hl. cbn [jfile_map jfull j_synced]. split; [exact Hkl|].
      rewrite jprefix_map, jprefix_jfull. reflexivity.
    - destruct jfz as [jf|]; destruct (p_frozen s) as [fz|]; cbn [option_map]; try exact Hf; try exact I.
      subst fz. exists kf. cbn [jfile_map jfull j_synced]. split; [exact Hkf|].
      rewrite jprefix_map, jprefix_jfull. reflexivity.
    - exists k. rewrite Hs, Hm. split; [exact Hk|]. rewrite !firstn_map. reflexivity.
  Qed.
End OpenCrash.

Section OpenRefines.
  Variable jcrc : bytes -> N.
  Variable jp : jparams.
  Hypothesis jpok : jparams_ok jp.
  Variable rp : SR.rparams.
  Hypothesis rpok : rparams_ok rp.
  Variable kp : kparams.
  Hypothesis kpok : kparams_ok kp.
  Hypothesis seek_val : keyTypeSeek kp <= keyTypeVal kp.
  Variable mp : MemDB.mparams.
  Hypothesis mpok : MemDB.mparams_ok mp.
  Variable tp : Table.tparams.
  Variable tcrc : bytes -> N.
  Variable compress : bytes -> bytes.
  Variable snappy : bool.
  Variable fgen : option (bytes * (list (N * list bytes) -> bytes)).
  Variable blockSize ri : N.
  Variable c : comparer.
  Hypothesis cok : comparer_ok c.

  Local Notation bhl := 12.
  Local Notation openb := (open_bytes jcrc jp rp kp bhl mp tp tcrc compress snappy fgen blockSize ri c).
  Local Notation image_ok := (OpenPathProofs.image_ok jcrc jp rp kp).
  Local Notation manifest_ok := (OpenPathProofs.manifest_ok rp).
  Local Notation jb_entries := (OpenJournalProofs.jb_entries kp).
  Local Notation sort_levels := (OpenPathProofs.sort_levels c).

  Definition pair_batch (x : N * N) : Crash.batch := {| b_seq := fst x; b_n := snd x |}.

  Lemma map_pair_batch l : map pair_batch (map jb_pair l) = map jb_abs l.
  Proof. rewrite map_map. reflexivity. Qed.

  (* the numbers of the journal files: positive, the older one below the newer one *)
  Definition jnums_ok (jfz : option jdesc) (jl : jdesc) : Prop :=
    1 <= jd_num jl /\ match jfz with Some jf => 1 <= jd_num jf /\ jd_num jf < jd_num jl | None => True end.

  Definition no_prev (mrecs : list (SR.srec * bytes)) : Prop :=
    Forall (fun x => SR.has (fst x) (SR.tPrevJournalNum rp) = false) mrecs.

  Lemma kept_prefixes_in (sel : list jdesc) bss b : OpenPathProofs.kept_prefixes sel bss -> In b (concat bss) ->
    exists jd, In jd sel /\ In b (jd_bs jd).
  Proof.
    induction 1 as [|jd x sel' bss' (k0 & _ & ->) F IH]; cbn [concat]; [intros []|].
    intros Hb. apply in_app_or in Hb as [Hb|Hb].
    - exists jd. split; [left; reflexivity|eapply in_firstn; exact Hb].
    - destruct (IH Hb) as (jd' & A & B). exists jd'. split; [right; exact A|exact B].
  Qed.

  (* Read-only Open of a byte-level image of a state s of the record-level model: it succeeds, the image it read is
     a record-level image of s, and the batches in its buffer, preceded by those the manifest's tables make
     durable, are exactly what the model's recover returns for that image — with db.seq the model's running
     number.  Hence (crash_safe_inv) every acknowledged batch is there, only issued batches are, in issue order. *)
  Theorem open_ro_refines_recover o hts img m mrecs ks jfz jl newb f s :
    oo_strict_man o = false -> oo_strict_j o = false -> oo_ro o = true -> oo_err_exist o = false ->
    heights_okl mp hts ->
    image_ok o img m mrecs ks (olist jfz ++ [jl]) -> manifest_ok o mrecs ks -> no_prev mrecs -> jnums_ok jfz jl ->
    order_embedding f -> f 0 = 0 -> pinv s -> denotes rp newb f s mrecs ks jfz jl ->
    exists r rimg k j nf q live cps lv bss d,
      openb o hts img = OOk r /\
      is_image s (image_map f rimg) /\ (ks <= k)%nat /\
      replay_result rp (oo_cmp_name o) (firstn k (map fst mrecs)) = SpecOk j 0%Z nf q live cps /\
      recover_full rimg = (os_seq r, flat_map newb (flat_map SR.sr_adds (firstn k (map fst mrecs))) ++ map pair_batch (os_kept r)) /\
      recover (image_map f rimg) = recover rimg /\
      (forall b, In b (p_acked s) -> In b (recover rimg)) /\
      (forall b, In b (recover rimg) -> In b (p_issued s)) /\
      sorted_b (recover rimg) /\
      os_seq r = snd (accepted (concat bss) q) /\
      os_kept r = map jb_pair (fst (accepted (concat bss) q)) /\
      (forall b, In b (concat bss) -> In b (jd_bs jl) \/ exists jf, jfz = Some jf /\ In b (jd_bs jf)) /\
      os_bs r = mkBS (Some d) None (levels_of (si_files img) (sort_levels lv)) /\
      (forall l : nat, nth l lv [] = live_at (Z.of_nat l) live) /\
      mem_ok c kp mp d /\
      (forall x, In x (mem_entries mp (Some d)) <-> In x (flat_map jb_entries (fst (accepted (concat bss) q)))) /\
      os_image r = img /\ os_removed r = [].
  Proof.
    intros Hsm Hsj Hro Hee Hh Himg Hman Hnp (Hn1 & Hn2) Hf Hf0 Hinv Hden.
    destruct (open_ro_written jcrc jp jpok rp rpok kp kpok seek_val mp mpok tp tcrc compress snappy fgen blockSize ri c cok
                o hts img m mrecs ks _ Hsm Hsj Hro Hee Hh Himg Hman)
      as (k & j & pj & nf & q & live & cps & lv & bss & r & d & Hk & Espec & Hp & Eopen & Eseq & Ekept & Ebs & Hlv & Hmok & Hin & Eimg & Erm & _).
    assert (Epj : pj = 0%Z).
    { apply (no_prev_pj rp (oo_cmp_name o) _ _ _ _ _ _ _ ) with (2 := Espec).
      apply Forall_forall. intros x Hx. apply in_firstn in Hx. apply in_map_iff in Hx as (y & <- & Hy).
      unfold no_prev in Hnp. rewrite Forall_forall in Hnp. exact (Hnp y Hy). }
    subst pj.
    assert (Hn2' : match jfz with Some jf => 1 <= jd_num jf /\ jd_num jf < jd_num jl | None => True end) by exact Hn2.
    destruct (recover_of_prefixes jcrc rp newb (oo_cmp_name o) _ j nf q live cps jfz jl bss Espec Hn1 Hn2' Hp)
      as (kf & kl & Hkl & Hkf & Erec).
    set (rimg := rimage rp newb (firstn k (map fst mrecs)) jfz kf jl kl) in *.
    assert (Him : is_image s (image_map f rimg)) by (apply (rimage_is_image rp newb f s mrecs ks jfz jl k kf kl Hden Hk Hkl Hkf)).
    assert (Erecm : recover (image_map f rimg) = recover rimg).
    { unfold recover. rewrite (recover_full_image_map f rimg Hf Hf0). reflexivity. }
    destruct (crash_safe_inv s _ Hinv Him) as (Hack & Hiss & Hsort). rewrite Erecm in Hack, Hiss, Hsort.
    exists r, rimg, k, j, nf, q, live, cps, lv, bss, d.
    split; [exact Eopen|]. split; [exact Him|]. split; [exact Hk|]. split; [exact Espec|]. split.
    { rewrite Erec, Eseq, Ekept, map_pair_batch. reflexivity. }
    split; [exact Erecm|]. split; [exact Hack|]. split; [exact Hiss|]. split; [exact Hsort|].
    split; [exact Eseq|]. split; [exact Ekept|]. split.
    { (* the kept batches come from the journal files *)
      intros b Hb. destruct (kept_prefixes_in _ _ b Hp Hb) as (jd & Hjd & Hin').
      unfold OpenPathProofs.selected in Hjd. apply filter_In in Hjd as [Hjd _].
      apply in_app_or in Hjd as [Hjd|[<-|[]]]; [|left; exact Hin'].
      destruct jfz as [jf|]; [|destruct Hjd]. destruct Hjd as [<-|[]]. right. exists jf. split; [reflexivity|exact Hin']. }
    split; [exact Ebs|]. split; [exact Hlv|]. split; [exact Hmok|]. split; [exact Hin|]. split; [exact Eimg|exact Erm].
  Qed.

  (* Read-write Open of such an image, in the partial-correctness form: WHENEVER it returns a DB, the record-level
     image it read is an image of s and what it kept — now all in tables, the buffer empty — together with what the
     manifest's tables make durable is what the model's recover returns; db.seq is the model's running number.
     Not proved: that it returns (the table writer accepts the buffer's keys, sessionRecord.encode is given no
     negative number, the janitor finds every table the version names). *)
  Theorem open_rw_refines_recover_partial o hts img m mrecs ks jfz jl newb f s r :
    oo_strict_man o = false -> oo_strict_j o = false -> oo_ro o = false -> oo_err_exist o = false ->
    heights_okl mp hts ->
    image_ok o img m mrecs ks (olist jfz ++ [jl]) -> manifest_ok o mrecs ks -> no_prev mrecs -> jnums_ok jfz jl ->
    order_embedding f -> f 0 = 0 -> pinv s -> denotes rp newb f s mrecs ks jfz jl ->
    openb o hts img = OOk r ->
    exists rimg k j nf q live cps d,
      is_image s (image_map f rimg) /\ (ks <= k)%nat /\
      replay_result rp (oo_cmp_name o) (firstn k (map fst mrecs)) = SpecOk j 0%Z nf q live cps /\
      recover_full rimg = (os_seq r, flat_map newb (flat_map SR.sr_adds (firstn k (map fst mrecs))) ++ map pair_batch (os_kept r)) /\
      (forall b, In b (p_acked s) -> In b (recover rimg)) /\
      (forall b, In b (recover rimg) -> In b (p_issued s)) /\
      sorted_b (recover rimg) /\
      bs_mem (os_bs r) = Some d /\ mem_entries mp (Some d) = [] /\ bs_frozen (os_bs r) = None.
  Proof.
    intros Hsm Hsj Hro Hee Hh Himg Hman Hnp (Hn1 & Hn2) Hf Hf0 Hinv Hden Eopen.
    assert (Hnd : NoDup (map jd_num (olist jfz ++ [jl]))).
    { destruct jfz as [jf|]; cbn [olist app map]; [|repeat constructor; intros []].
      destruct Hn2 as (_ & Hlt). constructor; [intros [E|[]]; lia|]. repeat constructor. intros []. }
    destruct (open_rw_written jcrc jp jpok rp rpok kp kpok seek_val mp mpok tp tcrc compress snappy fgen blockSize ri c cok
                o hts img m mrecs ks _ r Hsm Hsj Hro Hee Hh Himg Hman Hnd Eopen)
      as (k & j & pj & nf & q & live & cps & bss & d & Hk & Espec & Hp & Eseq & Ekept & Emem & Eent & Efz).
    assert (Epj : pj = 0%Z).
    { apply (no_prev_pj rp (oo_cmp_name o) _ _ _ _ _ _ _ ) with (2 := Espec).
      apply Forall_forall. intros x Hx. apply in_firstn in Hx. apply in_map_iff in Hx as (y & <- & Hy).
      unfold no_prev in Hnp. rewrite Forall_forall in Hnp. exact (Hnp y Hy). }
    subst pj.
    assert (Hn2' : match jfz with Some jf => 1 <= jd_num jf /\ jd_num jf < jd_num jl | None => True end) by exact Hn2.
    destruct (recover_of_prefixes jcrc rp newb (oo_cmp_name o) _ j nf q live cps jfz jl bss Espec Hn1 Hn2' Hp)
      as (kf & kl & Hkl & Hkf & Erec).
    set (rimg := rimage rp newb (firstn k (map fst mrecs)) jfz kf jl kl) in *.
    assert (Him : is_image s (image_map f rimg)) by (apply (rimage_is_image rp newb f s mrecs ks jfz jl k kf kl Hden Hk Hkl Hkf)).
    assert (Erecm : recover (image_map f rimg) = recover rimg).
    { unfold recover. rewrite (recover_full_image_map f rimg Hf Hf0). reflexivity. }
    destruct (crash_safe_inv s _ Hinv Him) as (Hack & Hiss & Hsort). rewrite Erecm in Hack, Hiss, Hsort.
    exists rimg, k, j, nf, q, live, cps, d.
    split; [exact Him|]. split; [exact Hk|]. split; [exact Espec|]. split.
    { rewrite Erec, Eseq, Ekept, map_pair_batch. reflexivity. }
    split; [exact Hack|]. split; [exact Hiss|]. split; [exact Hsort|].
    split; [exact Emem|]. split; [exact Eent|exact Efz].
  Qed.
End OpenRefines.

(* ---------------------------------------------------------------- what the recovered DB answers *)
From GL Require Import Lsm.ReadPathProofs Lsm.ReorgProofs Store.OpenEndProofs.

Section OpenEndToEnd.
  Variable jcrc : bytes -> N.
  Variable jp : jparams.
  Hypothesis jpok : jparams_ok jp.
  Variable rp : SR.rparams.
  Hypothesis rpok : rparams_ok rp.
  Variable kp : kparams.
  Hypothesis kpok : kparams_ok kp.
  Hypothesis seek_val : keyTypeSeek kp <= keyTypeVal kp.
  Variable mp : MemDB.mparams.
  Hypothesis mpok : MemDB.mparams_ok mp.
  Variable tp : Table.tparams.
  Variable tcrc : bytes -> N.
  Variable compress : bytes -> bytes.
  Variable snappy : bool.
  Variable fgen : option (bytes * (list (N * list bytes) -> bytes)).
  Variable blockSize ri : N.
  Variable c : comparer.
  Hypothesis cok : comparer_ok c.
  (* the reader's side *)
  Variable decompress : bytes -> option bytes.
  Variable fname : option bytes.
  Variable ufc : bytes -> N -> bytes -> bool.
  Variable verify : bool.

  Local Notation bhl := 12.
  Local Notation openb := (open_bytes jcrc jp rp kp bhl mp tp tcrc compress snappy fgen blockSize ri c).
  Local Notation image_ok := (OpenPathProofs.image_ok jcrc jp rp kp).
  Local Notation manifest_ok := (OpenPathProofs.manifest_ok rp).
  Local Notation sort_levels := (OpenPathProofs.sort_levels c).
  Local Notation wfb := (wf_bstate c kp mp tp tcrc decompress fname ufc verify ri).
  Local Notation absS := (ReadPath.abs c mp tp tcrc decompress fname ufc verify ri).
  Local Notation getb := (db_get_bytes c kp mp tp tcrc decompress fname ufc verify).

  (* the plain map driven by a list of batches of the record-level model, whose records the ghost [cont] gives *)
  Definition cmap (cont : Crash.batch -> list brec) (m : amap) (l : list Crash.batch) : amap :=
    fold_left (fun m b => fold_left (a_apply c kp) (cont b) m) l m.

  Lemma cmap_app cont m a b : cmap cont m (a ++ b) = cmap cont (cmap cont m a) b.
  Proof. unfold cmap. apply fold_left_app. Qed.

  Lemma cmap_batches cont (acc : list jbatch) : (forall b, In b acc -> cont (jb_abs b) = jb_recs b) -> forall m,
    cmap cont m (map jb_abs acc) = apply_batches c kp m acc.
  Proof.
    induction acc as [|b r IH]; intros H m; [reflexivity|].
    cbn [map cmap fold_left apply_batches]. rewrite (H b (or_introl eq_refl)).
    apply IH. intros x Hx. apply H. right; exact Hx.
  Qed.

  Lemma accepted_bound M bs : (forall b, In b bs -> fst b + jb_n b <= M) -> forall cur, cur <= M ->
    snd (accepted bs cur) <= M.
  Proof.
    induction bs as [|b r IH]; intros H cur Hc; cbn [accepted]; [exact Hc|].
    destruct (fst b <? cur); [apply IH; [intros x Hx; apply H; right; exact Hx|exact Hc]|].
    specialize (IH (fun x Hx => H x (or_intror Hx)) (fst b + jb_n b) (H b (or_introl eq_refl))).
    destruct (accepted r (fst b + jb_n b)). exact IH.
  Qed.

  (* what the tables named by a manifest prefix hold: a well-formed layout that answers like the plain map of the
     batches those tables make durable (C01, C06 and C13 are about exactly this: flushes and compactions keep it),
     read at a sequence number s0 that nothing in the tables exceeds and below which every journal batch that the
     sequence rule accepts starts.  s0 is the recorded sequence number q after a flush at run time (the rule tests
     "first number < q", the batches written after the flush start above q) and q - 1 when the manifest was written
     by a recovery (which records one more than the last number it replayed). *)
  Definition tables_answer (o : oopts) (img : simage) (mrecs : list (SR.srec * bytes)) (ks : nat)
      (newb : SR.atrec -> list Crash.batch) (cont : Crash.batch -> list brec) (jfz : option jdesc) (jl : jdesc) : Prop :=
    forall k j nf q live cps lv d0, (ks <= k)%nat ->
      replay_result rp (oo_cmp_name o) (firstn k (map fst mrecs)) = SpecOk j 0%Z nf q live cps ->
      (forall l : nat, nth l lv [] = live_at (Z.of_nat l) live) -> MemDB.mdb_new mp = MemDB.Ok d0 ->
      let st0 := mkBS (Some d0) None (levels_of (si_files img) (sort_levels lv)) in
      wfb st0 /\ uniq_in (all_entries (absS st0)) /\ q <= keyMaxSeq kp /\
      exists s0, s0 <= q /\
        (forall x, In x (all_entries (absS st0)) -> e_seq x <= s0) /\
        (forall b, (In b (jd_bs jl) \/ exists jf, jfz = Some jf /\ In b (jd_bs jf)) -> q <= fst b -> s0 < fst b) /\
        forall key, wf_bytes key ->
          bapi (getb st0 key s0) =
          Some (a_get c key (cmap cont [] (flat_map newb (flat_map SR.sr_adds (firstn k (map fst mrecs)))))).

  (* the journals' batches: their records are what the ghost says, and their sequence numbers are in range *)
  Definition journal_batches_ok (cont : Crash.batch -> list brec) (jfz : option jdesc) (jl : jdesc) : Prop :=
    forall b, (In b (jd_bs jl) \/ exists jf, jfz = Some jf /\ In b (jd_bs jf)) ->
      cont (jb_abs b) = jb_recs b /\ fst b + jb_n b <= keyMaxSeq kp.

  Theorem open_ro_end_to_end o hts img m mrecs ks jfz jl newb cont f s :
    oo_strict_man o = false -> oo_strict_j o = false -> oo_ro o = true -> oo_err_exist o = false ->
    heights_okl mp hts ->
    image_ok o img m mrecs ks (olist jfz ++ [jl]) -> manifest_ok o mrecs ks -> no_prev rp mrecs -> jnums_ok jfz jl ->
    order_embedding f -> f 0 = 0 -> pinv s -> denotes rp newb f s mrecs ks jfz jl ->
    journal_batches_ok cont jfz jl -> tables_answer o img mrecs ks newb cont jfz jl ->
    exists r L,
      openb o hts img = OOk r /\ wfb (os_bs r) /\
      (forall b, In b (p_acked s) -> In b L) /\ (forall b, In b L -> In b (p_issued s)) /\ sorted_b L /\
      os_image r = img /\
      forall key, wf_bytes key -> bapi (getb (os_bs r) key (os_seq r)) = Some (a_get c key (cmap cont [] L)).
  Proof.
    intros Hsm Hsj Hro Hee Hh Himg Hman Hnp Hnum Hf Hf0 Hinv Hden Hjb Htab.
    destruct (open_ro_refines_recover jcrc jp jpok rp rpok kp kpok seek_val mp mpok tp tcrc compress snappy fgen blockSize ri
                c cok o hts img m mrecs ks jfz jl newb f s Hsm Hsj Hro Hee Hh Himg Hman Hnp Hnum Hf Hf0 Hinv Hden)
      as (r & rimg & k & j & nf & q & live & cps & lv & bss & d & Eopen & Him & Hk & Espec & Erec & _ & Hack & Hiss & Hsort &
          Eseq & Ekept & Hfrom & Ebs & Hlv & Hmok & Hin & Eimg & _).
    destruct (OpenPathProofs.new_mem_ok kp seek_val mp mpok c) as (d0 & Enew & Hm0 & Hent0).
    destruct (Htab k j nf q live cps lv d0 Hk Espec Hlv Enew) as (W0 & Hu & Hqm & s0 & Hs0 & Hold & Hgap & Hans).
    set (st0 := mkBS (Some d0) None (levels_of (si_files img) (sort_levels lv))) in *.
    set (acc := fst (accepted (concat bss) q)) in *.
    set (tabs := flat_map newb (flat_map SR.sr_adds (firstn k (map fst mrecs)))) in *.
    assert (Hbok : Forall (OpenJournalProofs.jb_ok kp) (concat bss)).
    { apply Forall_forall. intros b Hb. destruct Himg as (_ & _ & _ & _ & Hjs). rewrite Forall_forall in Hjs.
      destruct (Hfrom b Hb) as [Hl|(jf & -> & Hl)].
      - assert (Hjl : In jl (olist jfz ++ [jl])) by (apply in_or_app; right; left; reflexivity).
        destruct (Hjs jl Hjl) as (Hall & _).
        rewrite Forall_forall in Hall. exact (Hall b Hl).
      - assert (Hjf : In jf (olist (Some jf) ++ [jl])) by (left; reflexivity).
        destruct (Hjs jf Hjf) as (Hall & _).
        rewrite Forall_forall in Hall. exact (Hall b Hl). }
    assert (Hemax : snd (accepted (concat bss) q) <= keyMaxSeq kp).
    { apply accepted_bound; [|exact Hqm]. intros b Hb. exact (proj2 (Hjb b (Hfrom b Hb))). }
    assert (EL : recover rimg = tabs ++ map jb_abs acc).
    { unfold recover. rewrite Erec. cbn [snd]. rewrite Ekept, map_pair_batch. reflexivity. }
    assert (Hgap' : forall b, In b (concat bss) -> q <= fst b -> s0 < fst b) by (intros b Hb; exact (Hgap b (Hfrom b Hb))).
    exists r, (recover rimg). split; [exact Eopen|].
    assert (Ewm : os_bs r = with_mem st0 d) by (rewrite Ebs; reflexivity).
    assert (Hcont : forall b, In b acc -> cont (jb_abs b) = jb_recs b).
    { intros b Hb. apply accepted_in in Hb. exact (proj1 (Hjb b (Hfrom b Hb))). }
    split.
    { (* well-formed: any key will do to invoke the theorem *)
      destruct (replayed_state_answers c cok kp kpok seek_val mp mpok tp tcrc decompress fname ufc verify ri
                  st0 d0 d (concat bss) s0 q [] (cmap cont [] tabs) W0 eq_refl Hent0 Hu Hold Hs0 Hgap' Hbok Hemax Hmok Hin (Forall_nil _)
                  (Hans [] (Forall_nil _))) as (W' & _).
      rewrite Ewm. exact W'. }
    split; [exact Hack|]. split; [exact Hiss|]. split; [exact Hsort|]. split; [exact Eimg|].
    intros key Wk.
    destruct (replayed_state_answers c cok kp kpok seek_val mp mpok tp tcrc decompress fname ufc verify ri
                st0 d0 d (concat bss) s0 q key (cmap cont [] tabs) W0 eq_refl Hent0 Hu Hold Hs0 Hgap' Hbok Hemax Hmok Hin Wk
                (Hans key Wk)) as (_ & G).
    rewrite Ewm, Eseq, G, EL, cmap_app, (cmap_batches cont acc Hcont). reflexivity.
  Qed.
End OpenEndToEnd.
