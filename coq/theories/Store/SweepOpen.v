From Coq Require Import NArith PeanoNat List Bool Lia Permutation Sorted.
From GL Require Import Store.Sweep Store.SweepProofs Store.SweepInv Store.SweepCommit Store.SweepSteps.
Import ListNotations.
Open Scope N_scope.

Local Arguments N.eqb : simpl never.
Local Arguments N.leb : simpl never.
Local Arguments N.ltb : simpl never.
Local Arguments N.add : simpl never.
Local Arguments N.max : simpl never.
Local Arguments tget : simpl never.
Local Arguments tset : simpl never.
Local Arguments tdel : simpl never.
Local Arguments retag : simpl never.
Local Arguments keys_with : simpl never.
Local Arguments tabs_of : simpl never.
Local Arguments fadd : simpl never.
Local Arguments fdel : simpl never.
Local Arguments fmem : simpl never.
Local Arguments nmem : simpl never.
Local Arguments needed : simpl never.
Local Arguments jsel : simpl never.
Local Arguments install : simpl never.
Local Arguments do_rm : simpl never.
Local Arguments mark_failed : simpl never.
Local Arguments reuse_num : simpl never.

Local Arguments commit : simpl never.
Local Arguments rj_flush : simpl never.

(* ---------- Open: the states between session.recover and the end of the janitor ---------- *)

Record InvO (s : st) : Prop := {
  o_fl : NoDup (files s);
  o_k : NoDup (map fst (tb s));
  o_cls : forall t c, tget (tb s) t = Some c -> (c = CTab \/ c = COut KFlush) /\ t < next s;
  o_held : held s = [];
  o_pins : pins s = [];
  o_mf : mfailed s = false;
  o_fz : frozen s = None;
  o_fd : fdone s = false;
  o_fe : fempty s = false;
  o_jobs : jf s = job_off /\ jc s = job_off /\ jt s = job_off;
  o_t : IT (trace s);
  o_op : opened s = false;
  o_v : exists v, views s = [v] /\ man s = Some (v_man v) /\ v_man v < next s /\ view_wf v /\
        (forall t, In t (v_tabs v) -> t < next s) /\
        (hasman s = true ->
           v_prev v = None /\ (forall t, In t (v_tabs v) <-> tget (tb s) t = Some CTab) /\
           sjnum s = v_jnum v /\ (forall t c, tget (tb s) t = Some c -> t <> v_man v) /\
           In (FManifest, v_man v) (files s)) }.

Lemma InvO_InvC : forall s, InvO s -> InvC s.
Proof.
  intros s H. constructor; try apply H.
  destruct (o_v s H) as [v [Ev (_&_&W&_)]]. intros v0 Hv0. rewrite Ev in Hv0. destruct Hv0 as [ <- |[]]. auto.
Qed.

Lemma do_rm_InvO : forall f ok why s, InvO s -> (needed s f = false \/ f = (FJournal, 0)) ->
  InvO (fst (do_rm f ok why s)).
Proof.
  intros f ok why s H Hn.
  pose proof (do_rm_files_NoDup f ok why s (o_fl s H)) as Hfl.
  destruct (do_rm_eq f ok why s) as (E1&E2&E3&E4&E5&E6&E7&E8&E9&E10&E11&E12&E13&E14&E15&E16&E17&E18&E19&E20).
  constructor; auto.
  - rewrite E2. apply H.
  - rewrite E2, E1. apply H.
  - rewrite E3. apply H.
  - rewrite E16. apply H.
  - rewrite E6. apply H.
  - rewrite E10. apply H.
  - rewrite E11. apply H.
  - rewrite E12. apply H.
  - rewrite E13, E14, E15. apply H.
  - rewrite E19. apply IT_cons; auto. apply H.
  - rewrite E17. apply H.
  - rewrite E8, E4, E1, E5, E2, E7. destruct (o_v s H) as [v (Ev&Em&Lm&W&Lt&Hh)]. exists v.
    split; auto. split; auto. split; auto. split; auto. split; auto.
    intros Hm. destruct (Hh Hm) as (P1&P2&P3&P4&P5). split; auto. split; auto. split; auto. split; auto.
    destruct E20 as [E20|E20]; rewrite E20; auto. apply fdel_In. split; auto.
    intros Ef. destruct Hn as [Hn|Hn]; [|subst f; discriminate].
    subst f. unfold needed in Hn. cbn in Hn. rewrite Ev in Hn. cbn in Hn. rewrite N.eqb_refl in Hn. discriminate.
Qed.

Lemma rj_flush_InvO : forall n s, InvO s ->
  InvO (rj_flush n s) /\ next s <= next (rj_flush n s) /\ hasman (rj_flush n s) = hasman s /\
  journal (rj_flush n s) = journal s /\ man (rj_flush n s) = man s /\ views (rj_flush n s) = views s /\
  (forall m, In (FJournal, m) (files (rj_flush n s)) <-> In (FJournal, m) (files s)).
Proof.
  induction n as [|n IH]; intros s H.
  - unfold rj_flush. split; [exact H | split; [lia | repeat split; auto]].
  - unfold rj_flush. fold rj_flush. set (t := next s).
    set (s1 := set_tb (tset (tb s) t (COut KFlush))
                 (set_residue (filter (fun x => negb (fd_eqb (FTable, t) (fst x))) (residue s))
                    (set_files (fadd (files s) (FTable, t)) (set_next (t + 1) s)))).
    assert (Hfresh : tget (tb s) t = None).
    { destruct (tget (tb s) t) eqn:Eg; auto. destruct (o_cls s H t _ Eg). unfold t in *. lia. }
    assert (H1 : InvO s1).
    { destruct (o_v s H) as [v (Ev&Em&Lm&W&Lt&Hh)].
      constructor; cbn; try apply H.
      - apply fadd_NoDup, (o_fl s H).
      - apply tset_NoDup, (o_k s H).
      - intros u c. rewrite tget_tset. destruct (N.eqb_spec t u) as [ <- |].
        + intros E; inversion E; subst. split; auto. lia.
        + intros Hc. destruct (o_cls s H u c Hc). split; auto. unfold t. lia.
      - exists v. split; auto. split; auto. split; [unfold t; lia|]. split; auto.
        split; [intros u Hu; specialize (Lt u Hu); unfold t; lia|].
        intros Hm. destruct (Hh Hm) as (P1&P2&P3&P4&P5). split; auto. split; [|split; [auto|split]].
        + intros u. rewrite tget_tset, P2. destruct (N.eqb_spec t u) as [ <- |]; [|tauto].
          split; [|discriminate]. intros Hu. rewrite Hfresh in Hu. discriminate.
        + intros u c. rewrite tget_tset. destruct (N.eqb_spec t u) as [ <- |]; [|apply P4].
          intros _. unfold t. lia.
        + apply fadd_In. right. auto. }
    destruct (IH s1 H1) as (I1&I2&I3&I4&I5&I6&I7). split; auto.
    subst s1. cbn in *. split; [unfold t in *; lia | split; [auto | split; [auto | split; [auto | split; [auto|]]]]].
    intros m. rewrite I7, fadd_In. split; [intros [E|Hin]; [discriminate | auto] | auto].
Qed.

(* the commits of recoverJournal: a record that sets the journal number and adds the tables flushed
   since the last one; the first one of the session creates its manifest *)
Lemma commit_open : forall j rmok s, InvO s ->
  let s' := fst (commit (Some KFlush) [] (Some j) false COk rmok s) in
  InvO s' /\ hasman s' = true /\ (exists v, views s' = [v] /\ v_jnum v = j) /\
  (forall t, tget (tb s') t <> Some (COut KFlush)) /\ next s <= next s' /\ journal s' = journal s /\
  (forall t c, tget (tb s') t = Some c -> exists c0, tget (tb s) t = Some c0) /\
  (forall m, In (FJournal, m) (files s') <-> In (FJournal, m) (files s)).
Proof.
  intros j rmok s H. unfold commit. rewrite (o_mf s H). rewrite !orb_false_r.
  destruct (o_v s H) as [v0 (Ev0&Em0&Lm0&W0&Lt0&Hh0)].
  pose proof (install_back (Some KFlush) [] (Some j)) as Hback.
  pose proof (install_tab (Some KFlush) [] (Some j)) as Htab.
  assert (Hnew : forall s1 t, (forall u c, tget (tb s1) u = Some c -> c = CTab \/ c = COut KFlush) ->
            forall c, tget (tb (install (Some KFlush) [] (Some j) s1)) t = Some c -> c = CTab /\ exists c0, tget (tb s1) t = Some c0).
  { intros s1 t Hcl c Hc. destruct (Hback s1 t c Hc) as [c0 [Hc0 Hor]]. split; [|exists c0; auto].
    destruct (Hcl t c0 Hc0) as [->| ->].
    - destruct Hor as [->|[(_&_&[])|[k (_&E&_)]]]; [auto | discriminate].
    - destruct Hor as [->|[(E&_)|[k (_&_&E)]]]; [|discriminate | auto].
      assert (tget (tb (install (Some KFlush) [] (Some j) s1)) t = Some CTab) by (apply Htab; right; exists KFlush; auto).
      congruence. }
  destruct (hasman s) eqn:Ehm; cbn [negb].
  - (* flushManifest *)
    destruct (Hh0 eq_refl) as (P1&P2&P3&P4&P5).
    rewrite Ev0. cbn [hd fst].
    set (r := apply_rec v0 (outs_of (Some KFlush) s) [] (Some j) (next s)).
    destruct (install_fields (Some KFlush) [] (Some j) s) as (F1&F2&F3&F4&F5&F6&F7&F8&F9&F10&F11&F12&F13&F14).
    pose proof (install_keys (Some KFlush) [] (Some j) s) as Hkeys.
    specialize (Hnew s). specialize (Htab s).
    remember (install (Some KFlush) [] (Some j) s) as s2 eqn:Es2.
    assert (Hcl : forall u c, tget (tb s) u = Some c -> c = CTab \/ c = COut KFlush) by (intros u c Hc; apply (o_cls s H u c Hc)).
    assert (Hr_tabs : forall t, In t (v_tabs r) <-> tget (tb s2) t = Some CTab).
    { intros t. unfold r, apply_rec. cbn. rewrite in_app_iff, filter_In, outs_In by apply (o_k s H).
      rewrite Htab, P2. cbn. split.
      - intros [[Ht _]|Ht]; [left; auto | right; exists KFlush; auto].
      - intros [[Ht _]|[k [E Ht]]]; [left; auto | right; inversion E; subst; auto]. }
    split; [|split; [|split; [|split; [|split; [|split; [|split]]]]]]; cbn.
    + constructor; cbn; try (rewrite ?F1, ?F2, ?F3, ?F6, ?F9, ?F10, ?F11, ?F12, ?F13; apply H).
      * rewrite Hkeys. apply (o_k s H).
      * intros t c Hc. destruct (Hnew t Hcl c Hc) as [-> [c0 Hc0]]. split; auto. rewrite F2. apply (o_cls s H t c0 Hc0).
      * subst s2. cbn. apply H.
      * subst s2. cbn. apply H.
      * exists r. split; auto. rewrite F4, F2, F5, F14. unfold r at 1 2 3. cbn.
        split; auto. split; auto. split; [split; cbn; auto|].
        { intros t Ht. apply Hr_tabs in Ht. destruct (Hnew t Hcl _ Ht) as [_ [c0 Hc0]]. apply (o_cls s H t c0 Hc0). }
        split.
        { intros t Ht. apply Hr_tabs in Ht. destruct (Hnew t Hcl _ Ht) as [_ [c0 Hc0]]. apply (o_cls s H t c0 Hc0). }
        intros _. split; auto. split; auto. split; auto. split.
        { intros t c Hc. destruct (Hnew t Hcl c Hc) as [_ [c0 Hc0]]. apply (P4 t c0 Hc0). }
        rewrite F1. auto.
    + rewrite F5. auto.
    + exists r. split; auto.
    + intros t Hc. destruct (Hnew t Hcl _ Hc) as [E _]. discriminate.
    + rewrite F2. lia.
    + auto.
    + intros t c Hc. apply (Hnew t Hcl c Hc).
    + intros m. rewrite F1. tauto.
  - (* newManifest *)
    set (m := next s).
    set (s1 := set_next (m + 1) s).
    destruct (install_fields (Some KFlush) [] (Some j) s1) as (F1&F2&F3&F4&F5&F6&F7&F8&F9&F10&F11&F12&F13&F14).
    pose proof (install_keys (Some KFlush) [] (Some j) s1) as Hkeys.
    specialize (Hnew s1). specialize (Htab s1).
    remember (install (Some KFlush) [] (Some j) s1) as s2 eqn:Es2.
    cbn in F1, F2, F3, F4, F5, F6, F7, F8, F9, F10, F11, F12, F13, F14, Hkeys.
    assert (Hcl : forall u c, tget (tb s1) u = Some c -> c = CTab \/ c = COut KFlush) by (intros u c Hc; apply (o_cls s H u c Hc)).
    set (v := {| v_tabs := tabs_of (tb s2); v_jnum := sjnum s2; v_prev := None; v_next := next s2; v_man := m |}).
    set (s3 := set_views [v] (set_files (fadd (files s2) (FManifest, m)) s2)).
    rewrite Em0.
    assert (Hn : needed s3 (FManifest, v_man v0) = false).
    { unfold needed. cbn. rewrite orb_false_r. apply N.eqb_neq. unfold m. lia. }
    destruct (do_rm_eq (FManifest, v_man v0) rmok RFailed s3) as (E1&E2&E3&E4&E5&E6&E7&E8&E9&E10&E11&E12&E13&E14&E15&E16&E17&E18&E19&E20).
    assert (Hfl3 : NoDup (files s3)) by (subst s3; cbn; apply fadd_NoDup; rewrite F1; apply (o_fl s H)).
    pose proof (do_rm_files_NoDup (FManifest, v_man v0) rmok RFailed s3 Hfl3) as Hfl4.
    remember (fst (do_rm (FManifest, v_man v0) rmok RFailed s3)) as s4 eqn:Es4.
    subst s3. cbn in E1, E2, E3, E4, E5, E6, E7, E8, E9, E10, E11, E12, E13, E14, E15, E16, E17, E18, E19, E20.
    assert (K2 : NoDup (map fst (tb s2))) by (rewrite Hkeys; apply (o_k s H)).
    assert (Hv_tab : forall t, In t (v_tabs v) <-> tget (tb s2) t = Some CTab) by (intros; apply tabs_of_In; auto).
    assert (Hlt2 : forall t c, tget (tb s2) t = Some c -> t < m).
    { intros t c Hc. destruct (Hnew t Hcl c Hc) as [_ [c0 Hc0]]. apply (o_cls s H t c0 Hc0). }
    split; [|split; [|split; [|split; [|split; [|split; [|split]]]]]]; cbn.
    + constructor; cbn.
      * auto.
      * rewrite E2. auto.
      * rewrite E2, E1, F2. intros t c Hc. specialize (Hlt2 t _ Hc). destruct (Hnew t Hcl c Hc) as [-> _]. split; [auto | lia].
      * rewrite E3, F3. apply H.
      * rewrite E16, F11. apply H.
      * reflexivity.
      * rewrite E10, F9. apply H.
      * rewrite E11, F10. apply H.
      * rewrite E12. subst s2. cbn. apply H.
      * rewrite E13, E14, E15. subst s2. cbn. apply H.
      * rewrite E19. apply IT_cons; auto. rewrite F13. apply H.
      * rewrite E17, F12. apply H.
      * exists v. rewrite E8, E1, E2, E7, F2. cbn. split; auto. split; auto. split; [lia|].
        split; [split; cbn; rewrite F2; [lia | intros t Ht; apply Hv_tab in Ht; specialize (Hlt2 t _ Ht); lia]|].
        split; [intros t Ht; apply Hv_tab in Ht; specialize (Hlt2 t _ Ht); lia|].
        intros _. split; auto. split; auto. split; auto. split.
        { intros t c Hc. specialize (Hlt2 t c Hc). lia. }
        destruct E20 as [E20|E20]; rewrite E20; [apply fadd_In; left; auto|].
        apply fdel_In. split; [apply fadd_In; left; auto|]. intros E. inversion E. unfold m in *. lia.
    + reflexivity.
    + exists v. rewrite E8. split; auto; cbn; rewrite F14; auto.
    + rewrite E2. intros t Hc. destruct (Hnew t Hcl _ Hc) as [E _]. discriminate.
    + rewrite E1, F2. unfold m. lia.
    + rewrite E9, F8. auto.
    + rewrite E2. intros t c Hc. apply (Hnew t Hcl c Hc).
    + intros m0. destruct E20 as [E20|E20]; rewrite E20; rewrite ?fdel_In, fadd_In, F1.
      * split; [intros [E|Hin]; [discriminate | auto] | auto].
      * split; [intros [[E|Hin] _]; [discriminate | auto] | intros Hin; split; [auto | discriminate]].
Qed.

Lemma needed_do_rm : forall f ok why s g, needed (fst (do_rm f ok why s)) g = needed s g.
Proof.
  intros. destruct (do_rm_eq f ok why s) as (E1&E2&E3&E4&E5&E6&E7&E8&E9&E10&E11&E12&E13&E14&E15&E16&E17&E18&E19&_).
  unfold needed. rewrite E2, E3, E8, E16, E12, E10. reflexivity.
Qed.

Lemma do_rm_seq_InvO : forall rem bad s, InvO s ->
  (forall f, In f rem -> needed s f = false \/ f = (FJournal, 0)) ->
  InvO (fst (do_rm_seq rem bad s)) /\
  tb (fst (do_rm_seq rem bad s)) = tb s /\ views (fst (do_rm_seq rem bad s)) = views s /\
  journal (fst (do_rm_seq rem bad s)) = journal s /\ next (fst (do_rm_seq rem bad s)) = next s /\
  man (fst (do_rm_seq rem bad s)) = man s /\ hasman (fst (do_rm_seq rem bad s)) = hasman s /\
  sjnum (fst (do_rm_seq rem bad s)) = sjnum s.
Proof.
  induction rem as [|f rem IH]; intros bad s H Hn; cbn [do_rm_seq].
  - cbn. split; [auto | repeat split; reflexivity].
  - pose proof (do_rm_InvO f (negb (fmem bad f)) RFailed s H (Hn f (or_introl eq_refl))) as H1.
    destruct (do_rm_eq f (negb (fmem bad f)) RFailed s) as (E1&E2&E3&E4&E5&E6&E7&E8&E9&E10&E11&E12&E13&E14&E15&E16&E17&E18&E19&_).
    pose proof (needed_do_rm f (negb (fmem bad f)) RFailed s) as Hnd.
    destruct (do_rm f (negb (fmem bad f)) RFailed s) as [s1 ok]. cbn [fst] in *.
    destruct ok.
    + destruct (IH bad s1 H1) as (I0&I1&I2&I3&I4&I5&I6&I7).
      { intros g Hg. rewrite Hnd. apply Hn. right; auto. }
      split; [auto|]. rewrite I1, I2, I3, I4, I5, I6, I7. repeat split; auto.
    + cbn. split; [auto | repeat split; auto].
Qed.

Lemma do_rm_seq_files : forall rem bad s, NoDup rem -> incl rem (files s) ->
  snd (do_rm_seq rem bad s) = true ->
  forall f, In f (files (fst (do_rm_seq rem bad s))) <-> In f (files s) /\ ~ In f rem.
Proof.
  induction rem as [|g rem IH]; intros bad s Hnd Hin Hok f; cbn [do_rm_seq] in *.
  - cbn. tauto.
  - inversion Hnd as [|x l Hnot Hnd']; subst.
    assert (Hg : fmem (files s) g = true) by (apply fmem_In; apply Hin; left; auto).
    unfold do_rm in *. rewrite Hg in *.
    destruct (negb (fmem bad g)) eqn:Eb; cbn [fst snd] in *; [|discriminate].
    set (s1 := set_residue (filter (fun x => negb (fd_eqb g (fst x))) (residue (set_trace ((g, needed s g) :: trace s) s)))
                 (set_files (fdel (files (set_trace ((g, needed s g) :: trace s) s)) g) (set_trace ((g, needed s g) :: trace s) s))) in *.
    assert (Hin1 : incl rem (files s1)).
    { intros h Hh. subst s1. cbn. apply fdel_In. split; [apply Hin; right; auto|]. intro; subst; auto. }
    rewrite (IH bad s1 Hnd' Hin1 Hok f). subst s1. cbn. rewrite fdel_In. cbn. intuition congruence.
Qed.

Lemma tget_const_map : forall l t c, tget (map (fun t => (t, CTab)) l) t = Some c -> c = CTab /\ In t l.
Proof.
  induction l as [|x l IH]; intros t c; [discriminate|]. cbn [map]. unfold tget; fold tget.
  destruct (N.eqb_spec t x) as [->|].
  - intros E; inversion E; subst. split; auto. left; auto.
  - intros Hc. destruct (IH t c Hc). split; auto. right; auto.
Qed.

Lemma nsorted_le_last : forall l, nsorted l -> forall j, In j l -> j <= last l 0.
Proof.
  unfold nsorted. intros l H. induction H; intros j Hj; [destruct Hj|].
  destruct Hj as [ <- |Hj].
  - destruct l as [|y l]; [cbn; lia|]. rewrite Forall_forall in H0.
    assert (Hl : In (last (y :: l) 0) (y :: l)).
    { clear. revert y. induction l as [|z l IHl]; intros y; [left; reflexivity|]. right. apply IHl. }
    specialize (H0 _ Hl). cbn [last] in *. exact H0.
  - destruct l as [|y l]; [destruct Hj|]. apply IHStronglySorted in Hj. exact Hj.
Qed.

Lemma bump_next_InvO : forall s n, InvO s -> next s <= n -> InvO (set_next n s).
Proof.
  intros s n H Hle. constructor; cbn; try apply H.
  - intros t c Hc. destruct (o_cls s H t c Hc). split; auto. lia.
  - destruct (o_v s H) as [v (Ev&Em&Lm&W&Lt&Hh)]. exists v. split; auto. split; auto. split; [lia|].
    split; auto. split; auto. intros t Ht. specialize (Lt t Ht). lia.
Qed.

Lemma rj_loop_InvO : forall sel fl ofd mbad bad s, InvO s -> nsorted sel -> NoDup sel ->
  (forall j, In j sel -> j < next s) ->
  (forall o, ofd = Some o -> o < next s /\ forall j, In j sel -> o < j) ->
  InvO (fst (fst (rj_loop sel fl ofd mbad bad s))) /\
  next s <= next (fst (fst (rj_loop sel fl ofd mbad bad s))) /\
  journal (fst (fst (rj_loop sel fl ofd mbad bad s))) = journal s /\
  (forall o, snd (rj_loop sel fl ofd mbad bad s) = Some o -> o < next (fst (fst (rj_loop sel fl ofd mbad bad s)))) /\
  (forall m, In (FJournal, m) (files (fst (fst (rj_loop sel fl ofd mbad bad s)))) -> In (FJournal, m) (files s)).
Proof.
  induction sel as [|j sel IH]; intros fl ofd mbad bad s H Hs Hnd Hlt Hofd.
  - cbn. split; auto. split; [lia|]. split; auto. split; auto. intros o Ho. destruct (Hofd o Ho); auto.
  - cbn [rj_loop].
    assert (Hs' : nsorted sel) by (unfold nsorted in *; inversion Hs; auto).
    assert (Hnd' : NoDup sel) by (inversion Hnd; auto).
    assert (Hjlt : forall j', In j' sel -> j < j') by (apply nsorted_head_lt; auto).
    assert (Hstage : forall s1 ok,
              (s1, ok) = match ofd with
                         | None => (s, true)
                         | Some o =>
                             let '(s', _) := commit (Some KFlush) [] (Some j) false COk
                                               (negb mbad) s in
                             do_rm (FJournal, o) (negb (fmem bad (FJournal, o))) RFailed s'
                         end ->
              InvO s1 /\ next s <= next s1 /\ journal s1 = journal s /\
              (forall m, In (FJournal, m) (files s1) -> In (FJournal, m) (files s))).
    { intros s1 ok E. destruct ofd as [o|].
      - destruct (Hofd o eq_refl) as [Ho1 Ho2].
        pose proof (commit_open j (negb mbad) s H) as Hc.
        destruct (commit (Some KFlush) [] (Some j) false COk (negb mbad) s) as [s' x].
        cbn [fst] in Hc. destruct Hc as (C1&C2&[v [Ev Ej]]&C4&C5&C6&_&C8).
        assert (Hn : needed s' (FJournal, o) = false \/ (FJournal, o) = (FJournal, 0)).
        { destruct (N.eqb_spec o 0) as [->|Hz]; auto. left. apply needed_journal_old; auto.
          - intros v0 Hv0. rewrite Ev in Hv0. destruct Hv0 as [ <- |[]].
            destruct (o_v s' C1) as [v1 (Ev1&_&_&_&_&Hh)]. rewrite Ev in Ev1. inversion Ev1; subst. apply (Hh C2).
          - intros v0 Hv0. rewrite Ev in Hv0. destruct Hv0 as [ <- |[]]. rewrite Ej. apply Ho2. left; auto. }
        pose proof (do_rm_InvO (FJournal, o) (negb (fmem bad (FJournal, o))) RFailed s' C1 Hn) as H1.
        destruct (do_rm_eq (FJournal, o) (negb (fmem bad (FJournal, o))) RFailed s') as (E1&E2&E3&E4&E5&E6&E7&E8&E9&E10&E11&E12&E13&E14&E15&E16&E17&E18&E19&E20).
        destruct (do_rm (FJournal, o) (negb (fmem bad (FJournal, o))) RFailed s') as [s1' ok']. inversion E; subst.
        cbn [fst] in *. split; auto. rewrite E1, E9. split; auto. split; auto.
        intros m Hm. apply C8. destruct E20 as [E20|E20]; rewrite E20 in Hm; auto. apply fdel_In in Hm. tauto.
      - inversion E; subst. split; auto. split; [lia | auto]. }
    destruct (match ofd with
              | None => (s, true)
              | Some o =>
                  let '(s', _) := commit (Some KFlush) [] (Some j) false COk
                                    (negb mbad) s in
                  do_rm (FJournal, o) (negb (fmem bad (FJournal, o))) RFailed s'
              end) as [s1 ok] eqn:Est.
    destruct (Hstage s1 ok eq_refl) as (H1&Hn1&Hj1&Hf1).
    destruct ok.
    + destruct (rj_flush_InvO (N.to_nat (hd 0 fl)) s1 H1) as (G1&G2&G3&G4&G5&G6&G7).
      set (s2 := rj_flush (N.to_nat (hd 0 fl)) s1) in *.
      destruct (IH (tl fl) (Some j) mbad bad s2 G1 Hs' Hnd') as (I1&I2&I3&I4&I5).
      * intros j' Hj'. assert (j' < next s) by (apply Hlt; right; auto). lia.
      * intros o Ho. inversion Ho; subst. split; auto. assert (o < next s) by (apply Hlt; left; auto). lia.
      * split; auto. split; [lia|]. split; [congruence |]. split; auto.
        intros m Hm. apply Hf1. apply G7. apply I5. auto.
    + cbn [fst snd]. split; auto. split; auto. split; auto. split; auto.
      intros o Ho. destruct (Hofd o Ho). lia.
Qed.

Local Arguments rj_loop : simpl never.
Local Arguments do_rm_seq : simpl never.
Local Arguments janitor : simpl never.
Local Arguments rj_select : simpl never.

(* the janitor's plan names only files nobody needs *)
Lemma janitor_rem_unneeded : forall s rem, InvO s -> hasman s = true ->
  (exists v, views s = [v] /\ v_jnum v = journal s) ->
  janitor (jstate_of s) (files s) = JRemove rem ->
  forall f, In f rem -> needed s f = false \/ f = (FJournal, 0).
Proof.
  intros s rem H Hm [v [Ev Ej]] Hjan f Hf.
  unfold janitor in Hjan. destruct (Nat.eqb _ _); [|discriminate]. inversion Hjan; subst; clear Hjan.
  apply filter_In in Hf. destruct Hf as [Hin Hk]. apply negb_true_iff in Hk.
  destruct (o_v s H) as [v1 (Ev1&Em1&_&_&_&Hh)]. rewrite Ev in Ev1. inversion Ev1; subst v1.
  destruct (Hh Hm) as (P1&P2&P3&P4&P5).
  destruct f as [[] n]; unfold jkeep, jstate_of in Hk; cbn in Hk.
  - left. unfold needed. cbn. rewrite Ev. cbn. rewrite orb_false_r. rewrite Em1 in Hk. rewrite N.eqb_sym. auto.
  - rewrite (o_fz s H) in Hk. apply N.leb_gt in Hk.
    destruct (N.eqb_spec n 0) as [->|Hz]; auto. left. apply needed_journal_old; auto.
    + intros v0 Hv0. rewrite Ev in Hv0. destruct Hv0 as [ <- |[]]. auto.
    + intros v0 Hv0. rewrite Ev in Hv0. destruct Hv0 as [ <- |[]]. rewrite Ej. auto.
  - left. apply nmem_false in Hk. rewrite tabs_of_In in Hk by apply (o_k s H).
    apply needed_table_false; auto.
    + apply (o_k s H).
    + rewrite (o_held s H). intros h [].
    + intros v0 Hv0. rewrite Ev in Hv0. destruct Hv0 as [ <- |[]]. rewrite P2. auto.
    + rewrite (o_pins s H). intros [].
  - left. reflexivity.
Qed.

(* Open from any closed state: the invariant of the result, and if Open succeeds the listing is exact: every
   file of the exact set is there, and every file there belongs to the exact set or is a journal numbered
   above the new one (which cannot exist when the manifest's journal number is not above its next file
   number) *)
Theorem open_db_spec : forall v fl mbad bad s, InvC s -> In v (views s) ->
  Good (open_db v fl mbad bad s) /\
  (opened (open_db v fl mbad bad s) = true ->
     (forall f, In f (exact_set (open_db v fl mbad bad s)) -> In f (files (open_db v fl mbad bad s))) /\
     (forall f, In f (files (open_db v fl mbad bad s)) ->
        In f (exact_set (open_db v fl mbad bad s)) \/
        exists n, f = (FJournal, n) /\ journal (open_db v fl mbad bad s) < n /\ v_next v < v_jnum v) /\
     (forall t c, tget (tb (open_db v fl mbad bad s)) t = Some c -> c = CTab) /\
     frozen (open_db v fl mbad bad s) = None /\
     residue (open_db v fl mbad bad s) =
       map (fun f => (f, RStray)) (filter (fun f => negb (is_live (open_db v fl mbad bad s) f)) (files (open_db v fl mbad bad s)))).
Proof.
  intros v fl mbad bad s H Hv.
  destruct (c_v s H v Hv) as [Wm Wt].
  unfold open_db.
  set (s0 := set_tb (map (fun t => (t, CTab)) (ndedup (v_tabs v)))
      (set_next (v_next v) (set_sjnum (v_jnum v) (set_man (Some (v_man v)) (set_hasman false (set_mfailed false
      (set_views [v] (set_held [] (set_pins [] (set_jf job_off (set_jc job_off (set_jt job_off
      (set_frozen None (set_fdone false (set_fempty false (set_residue [] s)))))))))))))))).
  assert (H0 : InvO s0).
  { constructor; cbn; try reflexivity; try apply H.
    - rewrite map_map. cbn. rewrite map_id. apply ndedup_NoDup.
    - intros t c Hc. apply tget_const_map in Hc. destruct Hc as [-> Hin]. split; auto.
      apply Wt. apply ndedup_In; auto.
    - repeat split.
    - exists v. split; auto. split; auto. split; auto. split; [split; auto|]. split; auto. discriminate. }
  assert (Hop0 : opened s0 = false) by apply H.
  assert (Hfiles0 : files s0 = files s) by reflexivity.
  set (sel := rj_select (v_jnum v) (pjn v) (files s)).
  destruct (rj_select_spec (v_jnum v) (pjn v) (files s) (c_fl s H)) as (_&Hsorted&Hnodup). fold sel in Hsorted, Hnodup.
  set (s1 := match sel with [] => s0 | _ => mark_num (last sel 0) s0 end).
  assert (H1 : InvO s1 /\ forall j, In j sel -> j < next s1).
  { subst s1. destruct sel as [|j0 sel0] eqn:Esel; [split; auto; intros j []|].
    unfold mark_num. split.
    - apply bump_next_InvO; auto. lia.
    - intros j Hj. apply (nsorted_le_last _ Hsorted) in Hj. cbn [next set_next]. lia. }
  destruct H1 as [H1 Hsel1].
  destruct (rj_loop_InvO sel fl None mbad bad s1 H1 Hsorted Hnodup Hsel1) as (L1&L2&L3&L4&L5); [intros o Ho; discriminate|].
  destruct (rj_loop sel fl None mbad bad s1) as [[s2 ok] ofd]. cbn [fst snd] in *.
  destruct ok; cbn [negb]; [|split; [unfold Good; rewrite (o_op s2 L1); apply InvO_InvC; auto | rewrite (o_op s2 L1); discriminate]].
  set (j := next s2).
  set (s3 := set_journal j (set_files (fadd (files s2) (FJournal, j)) (set_next (j + 1) s2))).
  assert (H3 : InvO s3).
  { assert (Hb : InvO (set_next (j + 1) s2)) by (apply bump_next_InvO; auto; unfold j; lia).
    constructor; cbn; try apply Hb; [apply fadd_NoDup, (o_fl s2 L1)|].
    destruct (o_v _ Hb) as [v' (Ev'&Em'&Lm'&W'&Lt'&Hh')]. cbn in *. exists v'.
    split; auto. split; auto. split; auto. split; auto. split; auto.
    intros Hm. destruct (Hh' Hm) as (P1&P2&P3&P4&P5). split; auto. split; auto. split; auto. split; auto.
    apply fadd_In. right. auto. }
  assert (Hlt3 : forall t c, tget (tb s3) t = Some c -> t < j) by (intros t c Hc; apply (o_cls s2 L1 t c Hc)).
  pose proof (commit_open j (negb mbad) s3 H3) as Hc.
  destruct (commit (Some KFlush) [] (Some j) false COk (negb mbad) s3) as [s4 x].
  cbn [fst] in Hc. destruct Hc as (C1&C2&[v4 [Ev4 Ej4]]&C4&C5&C6&C7&C8).
  assert (Hj4 : journal s4 = j) by (rewrite C6; reflexivity).
  assert (Hn4 : j + 1 <= next s4) by (cbn in C5; lia).
  assert (Hj4file : In (FJournal, j) (files s4)) by (apply C8; subst s3; cbn; apply fadd_In; left; auto).
  assert (Hstage : forall s5 ok5,
            (s5, ok5) = match ofd with
                        | Some o => do_rm (FJournal, o) (negb (fmem bad (FJournal, o))) RFailed s4
                        | None => (s4, true)
                        end ->
            InvO s5 /\ tb s5 = tb s4 /\ views s5 = views s4 /\ journal s5 = j /\ next s5 = next s4 /\
            hasman s5 = true /\ man s5 = man s4 /\ sjnum s5 = sjnum s4 /\
            In (FJournal, j) (files s5) /\ (forall n, In (FJournal, n) (files s5) -> In (FJournal, n) (files s4))).
  { intros s5 ok5 E. destruct ofd as [o|].
    - assert (Ho : o < j) by (apply L4; auto).
      assert (Hn : needed s4 (FJournal, o) = false \/ (FJournal, o) = (FJournal, 0)).
      { destruct (N.eqb_spec o 0) as [->|Hz]; auto. left. apply needed_journal_old; auto.
        - intros v0 Hv0. rewrite Ev4 in Hv0. destruct Hv0 as [ <- |[]].
          destruct (o_v s4 C1) as [v1 (Ev1&_&_&_&_&Hh)]. rewrite Ev4 in Ev1. inversion Ev1; subst. apply (Hh C2).
        - intros v0 Hv0. rewrite Ev4 in Hv0. destruct Hv0 as [ <- |[]]. rewrite Ej4. auto. }
      pose proof (do_rm_InvO (FJournal, o) (negb (fmem bad (FJournal, o))) RFailed s4 C1 Hn) as H5.
      destruct (do_rm_eq (FJournal, o) (negb (fmem bad (FJournal, o))) RFailed s4) as (E1&E2&E3&E4&E5&E6&E7&E8&E9&E10&E11&E12&E13&E14&E15&E16&E17&E18&E19&E20).
      destruct (do_rm (FJournal, o) (negb (fmem bad (FJournal, o))) RFailed s4) as [s5' ok5']. inversion E; subst.
      cbn [fst] in *. split; auto. rewrite E2, E8, E9, E1, E5, E4, E7.
      split; auto. split; auto. split; auto. split; auto. split; auto. split; auto. split; auto. split.
      + destruct E20 as [E20|E20]; rewrite E20; auto. apply fdel_In. split; auto. intros Ef. inversion Ef. lia.
      + intros n Hn'. destruct E20 as [E20|E20]; rewrite E20 in Hn'; auto. apply fdel_In in Hn'. tauto.
    - inversion E; subst. split; auto. repeat split; auto. }
  destruct (match ofd with
            | Some o => do_rm (FJournal, o) (negb (fmem bad (FJournal, o))) RFailed s4
            | None => (s4, true)
            end) as [s5 ok5] eqn:Est.
  destruct (Hstage s5 ok5 eq_refl) as (H5&T1&T2&T3&T4&T5&T6&T7&T8&T9).
  destruct ok5; cbn [negb]; [|split; [unfold Good; rewrite (o_op s5 H5); apply InvO_InvC; auto | rewrite (o_op s5 H5); discriminate]].
  destruct (janitor (jstate_of s5) (files s5)) as [ts|rem] eqn:Ejan;
    [split; [unfold Good; rewrite (o_op s5 H5); apply InvO_InvC; auto | rewrite (o_op s5 H5); discriminate]|].
  assert (Hviews5 : exists v, views s5 = [v] /\ v_jnum v = journal s5).
  { exists v4. rewrite T2, T3. auto. }
  pose proof (janitor_rem_unneeded s5 rem H5 T5 Hviews5 Ejan) as Hun.
  destruct (do_rm_seq_InvO rem bad s5 H5 Hun) as (H6&U1&U2&U3&U4&U5&U6&U7).
  assert (Hrem : rem = filter (fun f => negb (jkeep (jstate_of s5) f)) (files s5) /\
                 forall t, In t (tabs_of (tb s5)) -> In (FTable, t) (files s5)).
  { pose proof (janitor_spec (jstate_of s5) (files s5) (o_fl s5 H5)) as Hsp. rewrite Ejan in Hsp.
    destruct Hsp as (Sp1&Sp2&_). split; auto. }
  destruct Hrem as [Hrem Htabs5].
  assert (Hfiles6 : snd (do_rm_seq rem bad s5) = true ->
            forall f, In f (files (fst (do_rm_seq rem bad s5))) <-> In f (files s5) /\ ~ In f rem).
  { apply do_rm_seq_files.
    - rewrite Hrem. apply NoDup_filter, (o_fl s5 H5).
    - rewrite Hrem. intros f Hf. apply filter_In in Hf. tauto. }
  destruct (do_rm_seq rem bad s5) as [s6 ok6]. cbn [fst snd] in *.
  destruct ok6; cbn [negb]; [|split; [unfold Good; rewrite (o_op s6 H6); apply InvO_InvC; auto | rewrite (o_op s6 H6); discriminate]].
  specialize (Hfiles6 eq_refl).
  destruct (o_v s6 H6) as [v6 (Ev6&Em6&Lm6&W6&Lt6&Hh6)].
  rewrite U6, T5 in Hh6. destruct (Hh6 eq_refl) as (P1&P2&P3&P4&P5).
  assert (Ev64 : v6 = v4) by (rewrite U2, T2, Ev4 in Ev6; inversion Ev6; auto). subst v6.
  destruct (o_jobs s6 H6) as (J1&J2&J3).
  assert (Hcls6 : forall t c, tget (tb s6) t = Some c -> c = CTab /\ t < j).
  { intros t c Hc. rewrite U1, T1 in Hc. split.
    - destruct (o_cls s4 C1 t c Hc) as [[->| ->] _]; auto. exfalso. apply (C4 t); auto.
    - destruct (C7 t c Hc) as [c0 Hc0]. apply (Hlt3 t c0 Hc0). }
  assert (Hkeep6 : forall f, In f (files s6) <-> In f (files s5) /\ jkeep (jstate_of s5) f = true).
  { intros f. rewrite Hfiles6, Hrem, filter_In, negb_true_iff. destruct (jkeep (jstate_of s5) f); intuition congruence. }
  split; [unfold Good; cbn [opened set_opened]; constructor; cbn|].
  - apply (o_fl s6 H6).
  - apply (o_k s6 H6).
  - rewrite U4, T4, U3, T3, (o_fz s6 H6), (o_pins s6 H6). split; [|split; [|split; [|split]]].
    + lia.
    + intros y Hy. rewrite Em6 in Hy. inversion Hy; subst. rewrite U4, T4 in Lm6. auto.
    + intros z Hz; discriminate.
    + intros t c Hc. destruct (Hcls6 t c Hc) as [_ Hlt]. repeat split; try lia; try discriminate.
      rewrite Em6. intros E. inversion E. apply (P4 t c Hc). auto.
    + intros t [].
  - rewrite (o_held s6 H6). intros h t [].
  - rewrite (o_pins s6 H6). intros t [].
  - intros k _ t. split; intro Hc; destruct (Hcls6 t _ Hc); discriminate.
  - intros v0 t c. cbn. rewrite Ev6. intros [ <- |[]] Ht Hc. destruct (Hcls6 t c Hc). auto.
  - intros _. cbn. exists v4. split; auto.
  - rewrite Ev6. intros v0 [ <- |[]]. auto.
  - rewrite Ev6. intros v0 [ <- |[]]. auto.
  - rewrite Ev6, U3, T3, P3, Ej4. split; [intros v0 [ <- |[]]|]; lia.
  - rewrite (o_fd s6 H6). intros E; discriminate.
  - rewrite Ev6. intros v0 [ <- |[]]. split; auto.
  - apply (o_t s6 H6).
  - reflexivity.
  - intros _.
    set (sf := set_opened true (set_residue (map (fun f => (f, RStray)) (filter (fun f => negb (is_live s6 f)) (files s6))) s6)).
    assert (Hold : (forall f, In f (exact_set sf) -> In f (files sf)) /\
                   (forall f, In f (files sf) -> In f (exact_set sf) \/
                      exists n, f = (FJournal, n) /\ journal sf < n /\ v_next v < v_jnum v));
      [|destruct Hold as [Ho1 Ho2]; split; [exact Ho1|]; split; [exact Ho2|];
        split; [intros t c Hc; apply (Hcls6 t c Hc) | split; [apply (o_fz s6 H6) | reflexivity]]].
    subst sf. unfold exact_set. cbn [tb journal man files set_opened set_residue].
    rewrite Em6, U3, T3, U1.
    assert (Ejs : jstate_of s5 = {| js_tabs := tabs_of (tb s5); js_manifest := v_man v4; js_journal := j; js_frozen := None |}).
    { unfold jstate_of. rewrite <- U5, Em6, T3, (o_fz s5 H5). reflexivity. }
    split.
    + intros f Hf. apply in_app_or in Hf. destruct Hf as [Hf|Hf].
      * apply in_map_iff in Hf. destruct Hf as [t [ <- Ht]]. apply Hkeep6. split; [apply Htabs5; auto|].
        rewrite Ejs. cbn. apply nmem_In. auto.
      * destruct Hf as [ <- |[ <- |[]]].
        -- apply Hkeep6. split; auto. rewrite Ejs. cbn. apply N.leb_le. lia.
        -- auto.
    + intros f Hf. apply Hkeep6 in Hf. destruct Hf as [Hf5 Hk]. rewrite Ejs in Hk.
      destruct f as [[] n]; cbn in Hk.
      * apply N.eqb_eq in Hk. subst n. left. apply in_or_app. right. right. left. auto.
      * apply N.leb_le in Hk. destruct (N.eqb_spec n j) as [->|Hne].
        -- left. apply in_or_app. right. left. auto.
        -- right. exists n. split; auto. split; [lia|].
           assert (Hn2 : In (FJournal, n) (files s2)).
           { apply T9 in Hf5. apply C8 in Hf5. subst s3. cbn in Hf5. apply fadd_In in Hf5.
             destruct Hf5 as [E|]; auto. inversion E. congruence. }
           apply L5 in Hn2.
           assert (Hfs1 : files s1 = files s).
           { subst s1. destruct sel; reflexivity. }
           rewrite Hfs1 in Hn2.
           destruct (jsel (v_jnum v) (pjn v) n) eqn:Esel.
           ++ assert (Hin : In n sel).
              { destruct (rj_select_spec (v_jnum v) (pjn v) (files s) (c_fl s H)) as (Sp&_&_). apply Sp. auto. }
              specialize (Hsel1 n Hin). unfold j in *. lia.
           ++ unfold jsel in Esel. apply orb_false_iff in Esel. destruct Esel as [Esel _]. apply N.leb_gt in Esel.
              assert (Hn0 : v_next v <= next s1).
              { subst s1. destruct sel; [cbn; lia|]. unfold mark_num. cbn. lia. }
              unfold j in *. lia.
      * apply nmem_In in Hk. left. apply in_or_app. left. apply in_map_iff. exists n. auto.
      * discriminate.
Qed.

Theorem open_db_Good : forall v fl mbad bad s, InvC s -> In v (views s) -> Good (open_db v fl mbad bad s).
Proof. intros. apply open_db_spec; auto. Qed.

(* ---------- every step keeps the invariant; never_remove_needed ---------- *)

Lemma nth_In_views : forall (l : list view) i, (i < length l)%nat -> In (nth i l dflt_view) l.
Proof. intros. apply nth_In; auto. Qed.

Theorem step_Good : forall s o s', Good s -> step s o = Some s' -> Good s'.
Proof.
  intros s o s' H Hs. unfold Good in H.
  destruct (opened s) eqn:Eo.
  - assert (Hi : forall s'', Inv s'' -> Good s'') by (intros s'' Hi; unfold Good; rewrite (i_o s'' Hi); auto).
    destruct o.
    + apply Hi. eapply step_pin; eauto.
    + apply Hi. eapply step_unpin; eauto.
    + apply Hi. eapply step_acquire; eauto.
    + apply Hi. eapply step_release; eauto.
    + apply Hi. eapply step_rotate; eauto.
    + apply Hi. eapply step_begin; eauto.
    + apply Hi. eapply step_create; eauto.
    + apply Hi. eapply step_finish; eauto.
    + apply Hi. eapply step_drop; eauto.
    + apply Hi. eapply step_commit; eauto.
    + apply Hi. eapply step_revert; eauto.
    + apply Hi. eapply step_abandon; eauto.
    + apply Hi. eapply step_dropfrozen; eauto.
    + apply Hi. eapply step_discard; eauto.
    + apply Hi. eapply step_loopremove; eauto.
    + pose proof (step_close s s' H Hs) as Hc. unfold Good. rewrite (c_o s' Hc). auto.
    + cbn in Hs. rewrite Eo in Hs. discriminate.
  - destruct o;
      try (cbn in Hs; rewrite ?Eo in Hs; cbn in Hs; try discriminate;
           try (destruct (cur_of k s); discriminate); try (destruct (frozen s); discriminate); fail).
    unfold step in Hs. rewrite Eo in Hs. cbn [negb andb] in Hs.
    destruct (Nat.ltb vi (length (views s))) eqn:El; [|discriminate]. inversion Hs; subst.
    apply open_db_Good; auto. apply nth_In. apply Nat.ltb_lt. auto.
Qed.

Theorem run_Good : forall ops s s', Good s -> run s ops = Some s' -> Good s'.
Proof.
  induction ops as [|o ops IH]; intros s s' H Hr; cbn in Hr.
  - inversion Hr; subst; auto.
  - destruct (step s o) as [s1|] eqn:Es; [|discriminate]. eapply IH; [eapply step_Good; eauto | auto].
Qed.

Lemma boot_Good : forall l v ru, NoDup l -> view_wf v -> Good (boot l v ru).
Proof.
  intros l v ru Hl Hv. unfold Good. cbn. constructor; cbn; auto.
  - intros v0 [ <- |[]]. auto.
  - intros f b [].
Qed.

(* No Remove call of any step, in any order of steps, from any listing and any (well-formed) manifest
   content, hits a file that is needed at the moment of the call; the only exception is a journal file
   numbered 0, which recoverJournal selects only because an absent prev-journal field reads as 0. *)
Theorem never_remove_needed : forall l v ru ops s,
  NoDup l -> view_wf v -> run (boot l v ru) ops = Some s ->
  forall f b, In (f, b) (trace s) -> b = false \/ f = (FJournal, 0).
Proof.
  intros l v ru ops s Hl Hv Hr.
  pose proof (run_Good ops _ _ (boot_Good l v ru Hl Hv) Hr) as H. unfold Good in H.
  destruct (opened s); [apply (i_t s H) | apply (c_t s H)].
Qed.
