(* Store/SweepProofs.v — proofs about the pure parts of Store/Sweep.v: list helpers, the janitor
   (checkAndCleanFiles) and recoverJournal's choice of journals, and the link to the L2 persistence
   model Store/Crash.v (its recover reads exactly the journals the choice predicate selects). *)
From Coq Require Import NArith PeanoNat List Bool Lia Permutation Sorted.
From GL Require Import Store.Sweep.
Import ListNotations.
Open Scope N_scope.

(* ---------- list helpers ---------- *)

Lemma ftype_eqb_eq : forall a b, ftype_eqb a b = true <-> a = b.
Proof. destruct a, b; cbn; split; congruence. Qed.

Lemma fd_eqb_eq : forall a b, fd_eqb a b = true <-> a = b.
Proof.
  intros [a n] [b m]; unfold fd_eqb; cbn. rewrite andb_true_iff, ftype_eqb_eq, N.eqb_eq.
  split; [intros [-> ->]; reflexivity | intros H; inversion H; auto].
Qed.

Lemma fd_eqb_refl : forall a, fd_eqb a a = true.
Proof. intros; apply fd_eqb_eq; reflexivity. Qed.

Lemma fd_eqb_neq : forall a b, fd_eqb a b = false <-> a <> b.
Proof. intros. rewrite <- fd_eqb_eq. destruct (fd_eqb a b); split; congruence. Qed.

Lemma fmem_In : forall l x, fmem l x = true <-> In x l.
Proof.
  intros; unfold fmem; rewrite existsb_exists; split.
  - intros [y [Hy He]]. apply fd_eqb_eq in He. subst; auto.
  - intros; exists x; split; auto using fd_eqb_refl.
Qed.

Lemma fmem_false : forall l x, fmem l x = false <-> ~ In x l.
Proof. intros. rewrite <- fmem_In. destruct (fmem l x); split; congruence. Qed.

Lemma fdel_In : forall l x y, In y (fdel l x) <-> In y l /\ y <> x.
Proof.
  intros; unfold fdel; rewrite filter_In, negb_true_iff, fd_eqb_neq. intuition congruence.
Qed.

Lemma fadd_In : forall l x y, In y (fadd l x) <-> y = x \/ In y l.
Proof.
  intros; unfold fadd. destruct (fmem l x) eqn:E.
  - apply fmem_In in E. split; [auto | intros [->|]; auto].
  - cbn. intuition.
Qed.

Lemma fdel_NoDup : forall l x, NoDup l -> NoDup (fdel l x).
Proof. intros; unfold fdel; apply NoDup_filter; auto. Qed.

Lemma fadd_NoDup : forall l x, NoDup l -> NoDup (fadd l x).
Proof.
  intros; unfold fadd. destruct (fmem l x) eqn:E; auto. constructor; auto. apply fmem_false; auto.
Qed.

Lemma nmem_In : forall l x, nmem l x = true <-> In x l.
Proof.
  intros; unfold nmem; rewrite existsb_exists; split.
  - intros [y [Hy He]]. apply N.eqb_eq in He. subst; auto.
  - intros; exists x; split; auto using N.eqb_refl.
Qed.

Lemma nmem_false : forall l x, nmem l x = false <-> ~ In x l.
Proof. intros. rewrite <- nmem_In. destruct (nmem l x); split; congruence. Qed.

Lemma ndel_In : forall l x y, In y (ndel l x) <-> In y l /\ y <> x.
Proof.
  intros; unfold ndel; rewrite filter_In, negb_true_iff, N.eqb_neq. intuition congruence.
Qed.

Lemma ndedup_In : forall l x, In x (ndedup l) <-> In x l.
Proof.
  induction l as [|y l IH]; cbn; intros; [tauto|].
  destruct (nmem l y) eqn:E.
  - rewrite IH. apply nmem_In in E. split; [auto | intros [->|]; auto].
  - cbn. rewrite IH. tauto.
Qed.

Lemma ndedup_NoDup : forall l, NoDup (ndedup l).
Proof.
  induction l as [|y l IH]; cbn; [constructor|].
  destruct (nmem l y) eqn:E; auto. constructor; auto. rewrite ndedup_In. apply nmem_false; auto.
Qed.

Lemma ninsert_In : forall l x y, In y (ninsert x l) <-> y = x \/ In y l.
Proof.
  induction l as [|z l IH]; cbn; intros; [intuition|].
  destruct (x <=? z); cbn; [intuition|]. rewrite IH. intuition.
Qed.

Lemma nsort_In : forall l y, In y (nsort l) <-> In y l.
Proof.
  induction l as [|z l IH]; cbn; intros; [tauto|]. rewrite ninsert_In, IH. intuition.
Qed.

Definition nsorted (l : list N) : Prop := StronglySorted N.le l.

Lemma ninsert_sorted : forall l x, nsorted l -> nsorted (ninsert x l).
Proof.
  unfold nsorted. induction l as [|z l IH]; cbn; intros x H; [repeat constructor|].
  inversion H; subst.
  destruct (x <=? z) eqn:E.
  - apply N.leb_le in E. constructor; auto. constructor; auto.
    rewrite Forall_forall in *. intros y Hy. specialize (H3 y Hy). lia.
  - apply N.leb_gt in E. constructor; auto.
    rewrite Forall_forall in *. intros y Hy. apply ninsert_In in Hy. destruct Hy as [->|Hy]; [lia | auto].
Qed.

Lemma nsort_sorted : forall l, nsorted (nsort l).
Proof. induction l; cbn; [constructor | apply ninsert_sorted; auto]. Qed.

Lemma ninsert_perm : forall l x, Permutation (x :: l) (ninsert x l).
Proof.
  induction l as [|z l IH]; cbn; intros; auto.
  destruct (x <=? z); auto. eapply perm_trans; [apply perm_swap|]. constructor; auto.
Qed.

Lemma nsort_perm : forall l, Permutation l (nsort l).
Proof.
  induction l; cbn; auto. eapply perm_trans; [|apply ninsert_perm]. constructor; auto.
Qed.

Lemma nsort_NoDup : forall l, NoDup l -> NoDup (nsort l).
Proof. intros. eapply Permutation_NoDup; [apply nsort_perm | auto]. Qed.

Lemma nsorted_filter : forall p l, nsorted l -> nsorted (filter p l).
Proof.
  unfold nsorted. intros p l H. induction H; cbn; [constructor|].
  destruct (p a); auto. constructor; auto.
  rewrite Forall_forall in *. intros y Hy. apply filter_In in Hy. apply H0. tauto.
Qed.

(* in a sorted list without repetition an element is strictly below everything behind it *)
Lemma nsorted_head_lt : forall x l, nsorted (x :: l) -> NoDup (x :: l) -> forall y, In y l -> x < y.
Proof.
  unfold nsorted. intros x l Hs Hn y Hy. inversion Hs; subst. inversion Hn; subst.
  rewrite Forall_forall in H2. specialize (H2 y Hy).
  assert (x <> y) by (intro; subst; auto). lia.
Qed.

(* ---------- the janitor ---------- *)

Lemma jkeep_table : forall s t, jkeep s (FTable, t) = true <-> In t (js_tabs s).
Proof. intros; cbn. apply nmem_In. Qed.

Lemma jkeep_manifest : forall s m, jkeep s (FManifest, m) = true <-> m = js_manifest s.
Proof. intros; cbn. apply N.eqb_eq. Qed.

Lemma jkeep_journal : forall s n, jkeep s (FJournal, n) = true <->
  match js_frozen s with Some z => z <= n | None => js_journal s <= n end.
Proof. intros; cbn. destruct (js_frozen s); apply N.leb_le. Qed.

Lemma jkeep_temp : forall s n, jkeep s (FTemp, n) = false.
Proof. reflexivity. Qed.

(* counting: the listed tables the version names are as many as the version's distinct numbers
   exactly when none is missing *)
Lemma NoDup_incl_length_eq : forall (a b : list N), NoDup a -> NoDup b -> incl a b -> length a = length b -> incl b a.
Proof.
  intros a b Ha Hb Hi Hl. apply NoDup_length_incl; auto. lia.
Qed.

Definition listed_tabs (s : jstate) (l : list fd) : list N :=
  map snd (filter (fun f => ftype_eqb (fst f) FTable && nmem (js_tabs s) (snd f)) l).

Lemma listed_tabs_In : forall s l t, In t (listed_tabs s l) <-> In (FTable, t) l /\ In t (js_tabs s).
Proof.
  intros; unfold listed_tabs. rewrite in_map_iff. split.
  - intros [[ty n] [E H]]. cbn in E; subst. apply filter_In in H. destruct H as [H1 H2].
    cbn in H2. apply andb_true_iff in H2. destruct H2 as [H2 H3]. apply ftype_eqb_eq in H2. subst.
    apply nmem_In in H3. auto.
  - intros [H1 H2]. exists (FTable, t). split; auto. apply filter_In. split; auto.
    cbn. apply nmem_In in H2. rewrite H2. reflexivity.
Qed.

Lemma listed_tabs_NoDup : forall s l, NoDup l -> NoDup (listed_tabs s l).
Proof.
  intros s l H. unfold listed_tabs.
  assert (Hf : NoDup (filter (fun f => ftype_eqb (fst f) FTable && nmem (js_tabs s) (snd f)) l))
    by (apply NoDup_filter; auto).
  assert (Ht : forall f, In f (filter (fun f => ftype_eqb (fst f) FTable && nmem (js_tabs s) (snd f)) l) -> fst f = FTable).
  { intros f Hf'. apply filter_In in Hf'. destruct Hf' as [_ E]. apply andb_true_iff in E.
    destruct E as [E _]. apply ftype_eqb_eq in E. auto. }
  revert Hf Ht. generalize (filter (fun f => ftype_eqb (fst f) FTable && nmem (js_tabs s) (snd f)) l).
  induction l0 as [|[ty n] l0 IH]; cbn; intros Hn Ht; [constructor|].
  inversion Hn; subst. constructor.
  - intro Hin. apply in_map_iff in Hin. destruct Hin as [[ty' n'] [E Hin]]. cbn in E; subst.
    assert (ty' = FTable) by (apply (Ht (ty', n)); auto).
    assert (ty = FTable) by (apply (Ht (ty, n)); auto). subst. auto.
  - apply IH; auto.
Qed.

Lemma jan_nt_length : forall s l, jan_nt s l = length (listed_tabs s l).
Proof. intros; unfold jan_nt, listed_tabs. rewrite map_length. reflexivity. Qed.

Lemma jan_count : forall s l, NoDup l ->
  (Nat.eqb (jan_nt s l) (length (ndedup (js_tabs s))) = true <-> forall t, In t (js_tabs s) -> In (FTable, t) l).
Proof.
  intros s l Hl. rewrite Nat.eqb_eq, jan_nt_length.
  assert (Hi : incl (listed_tabs s l) (ndedup (js_tabs s))).
  { intros t Ht. apply listed_tabs_In in Ht. apply ndedup_In. tauto. }
  split.
  - intros E t Ht.
    assert (In t (listed_tabs s l)).
    { apply (NoDup_incl_length_eq (listed_tabs s l) (ndedup (js_tabs s))); auto using listed_tabs_NoDup, ndedup_NoDup.
      apply ndedup_In; auto. }
    apply listed_tabs_In in H. tauto.
  - intros H. apply Nat.le_antisymm.
    + apply NoDup_incl_length; [apply listed_tabs_NoDup; auto | exact Hi].
    + apply NoDup_incl_length; [apply ndedup_NoDup|].
      intros t Ht. rewrite ndedup_In in Ht. apply listed_tabs_In. split; auto.
Qed.

(* the files actually removed by a run of the loop: every call but a failing last one *)
Definition rm_done (calls : list fd) (ok : bool) : list fd := if ok then calls else removelast calls.

Lemma rm_seq_spec : forall rem fs bad, NoDup rem -> incl rem fs ->
  let '(calls, fs', ok) := rm_seq fs rem bad in
  (exists rest, rem = calls ++ rest /\ (ok = true -> rest = [])) /\
  (ok = false -> exists pre f, calls = pre ++ [f] /\ In f bad) /\
  (forall f, In f fs' <-> In f fs /\ ~ In f (rm_done calls ok)).
Proof.
  induction rem as [|f rem IH]; intros fs bad Hn Hi; cbn.
  - split; [exists []; split; auto|]. split; [discriminate|]. intros; tauto.
  - inversion Hn; subst.
    assert (Hf : fmem fs f = true) by (apply fmem_In; apply Hi; left; auto).
    rewrite Hf. cbn. rewrite orb_false_r.
    destruct (fmem bad f) eqn:Eb.
    + split; [exists rem; split; [reflexivity | discriminate]|].
      split.
      * intros _. exists [], f. split; auto. apply fmem_In; auto.
      * intros g; cbn. tauto.
    + assert (Hi' : incl rem (fdel fs f)).
      { intros g Hg. apply fdel_In. split; [apply Hi; right; auto|]. intro; subst; auto. }
      specialize (IH (fdel fs f) bad H2 Hi'). destruct (rm_seq (fdel fs f) rem bad) as [[calls fs'] ok].
      destruct IH as [[rest [E Hok]] [Hbad Hfs]].
      split; [exists rest; split; [cbn; f_equal; auto | auto]|].
      split.
      * intros Hk. destruct (Hbad Hk) as [pre [g [Ec Hg]]]. exists (f :: pre), g. split; auto. cbn. f_equal; auto.
      * intros g. rewrite Hfs, fdel_In.
        assert (Hd : forall x, In x (rm_done (f :: calls) ok) <-> x = f \/ In x (rm_done calls ok)).
        { intros x. unfold rm_done. destruct ok; cbn; [intuition|].
          destruct calls as [|c calls]; cbn.
          - destruct (Hbad eq_refl) as [pre [g' [Ec _]]]. destruct pre; discriminate.
          - intuition. }
        rewrite Hd. intuition congruence.
Qed.

(* the janitor, for every listing: either a table of the version is missing and nothing is touched, or the
   removal list is exactly the complement of jkeep in listing order; running the Remove loop removes only
   files outside jkeep, stops at the first failing call, and if none fails the listing left is exactly the
   part of the old listing that jkeep accepts *)
Lemma janitor_spec : forall s l, NoDup l ->
  match janitor s l with
  | JMissing ts =>
      ts <> [] /\ forall t, In t ts <-> In t (js_tabs s) /\ ~ In (FTable, t) l
  | JRemove rem =>
      (forall t, In t (js_tabs s) -> In (FTable, t) l) /\
      rem = filter (fun f => negb (jkeep s f)) l /\
      forall bad,
        let '(calls, l', ok) := rm_seq l rem bad in
        (forall f, In f calls -> In f l /\ jkeep s f = false) /\
        (forall f, In f l -> jkeep s f = true -> In f l') /\
        (forall f, In f l' -> In f l) /\
        (ok = true -> forall f, In f l' <-> In f l /\ jkeep s f = true) /\
        (ok = false -> exists pre f, calls = pre ++ [f] /\ In f bad)
  end.
Proof.
  intros s l Hl. unfold janitor.
  destruct (Nat.eqb (jan_nt s l) (length (ndedup (js_tabs s)))) eqn:E.
  - rewrite (jan_count s l Hl) in E. split; auto. split; auto. intros bad.
    set (rem := filter (fun f => negb (jkeep s f)) l).
    assert (Hn : NoDup rem) by (apply NoDup_filter; auto).
    assert (Hi : incl rem l) by (intros f Hf; apply filter_In in Hf; tauto).
    pose proof (rm_seq_spec rem l bad Hn Hi) as H.
    destruct (rm_seq l rem bad) as [[calls l'] ok].
    destruct H as [[rest [Er Hok]] [Hbad Hfs]].
    assert (Hc : forall f, In f calls -> In f l /\ jkeep s f = false).
    { intros f Hf. assert (In f rem) by (rewrite Er; apply in_or_app; auto).
      apply filter_In in H. rewrite negb_true_iff in H. auto. }
    assert (Hdone : forall f, In f (rm_done calls ok) -> In f calls).
    { intros f. unfold rm_done. destruct ok; auto. clear. induction calls as [|c calls IH]; cbn; auto.
      destruct calls; cbn in *; [tauto|]. intros [->|H]; auto. }
    split; auto. split.
    { intros f Hf Hk. apply Hfs. split; auto. intro Hd. apply Hdone, Hc in Hd. destruct Hd; congruence. }
    split; [intros f Hf; apply Hfs in Hf; tauto|].
    split; auto.
    intros -> f. rewrite Hfs. unfold rm_done. rewrite (Hok eq_refl), app_nil_r in Er. subst calls.
    unfold rem. rewrite filter_In, negb_true_iff. destruct (jkeep s f); intuition congruence.
  - assert (Hnot : ~ (forall t, In t (js_tabs s) -> In (FTable, t) l)).
    { intro H. rewrite <- (jan_count s l Hl) in H. congruence. }
    assert (Hm : forall t, In t (filter (fun t => negb (fmem l (FTable, t))) (ndedup (js_tabs s))) <->
                 In t (js_tabs s) /\ ~ In (FTable, t) l).
    { intros t. rewrite filter_In, ndedup_In, negb_true_iff, fmem_false. tauto. }
    split; auto.
    intro E0. apply Hnot. intros t Ht.
    destruct (fmem l (FTable, t)) eqn:Em; [apply fmem_In; auto|].
    apply fmem_false in Em. assert (In t []) by (rewrite <- E0; apply Hm; auto). destruct H.
Qed.

(* ---------- recoverJournal's choice ---------- *)

Lemma journals_of_In : forall l n, In n (journals_of l) <-> In (FJournal, n) l.
Proof.
  intros; unfold journals_of. rewrite in_map_iff. split.
  - intros [[ty m] [E H]]. cbn in E; subst. apply filter_In in H. destruct H as [H E]. cbn in E.
    apply ftype_eqb_eq in E. subst. auto.
  - intros H. exists (FJournal, n). split; auto. apply filter_In. split; auto.
Qed.

Lemma journals_of_NoDup : forall l, NoDup l -> NoDup (journals_of l).
Proof.
  induction l as [|[ty n] l IH]; cbn; intros H; [constructor|]. inversion H; subst.
  unfold journals_of; cbn. destruct (ftype_eqb ty FJournal) eqn:E; [|apply IH; auto].
  apply ftype_eqb_eq in E. subst. cbn. constructor; [|apply IH; auto].
  intro Hin. apply journals_of_In in Hin. auto.
Qed.

(* the journals replayed are exactly the listed journals the predicate selects, in increasing order, no
   repetition *)
Lemma rj_select_spec : forall jn pj l, NoDup l ->
  (forall n, In n (rj_select jn pj l) <-> In (FJournal, n) l /\ jsel jn pj n = true) /\
  nsorted (rj_select jn pj l) /\ NoDup (rj_select jn pj l).
Proof.
  intros jn pj l Hl. unfold rj_select. split; [|split].
  - intros n. rewrite filter_In, nsort_In, journals_of_In. tauto.
  - apply nsorted_filter, nsort_sorted.
  - apply NoDup_filter, nsort_NoDup, journals_of_NoDup; auto.
Qed.

(* ---------- link to the L2 persistence model (Store/Crash.v) ---------- *)
From GL Require Store.Crash.

(* jsel with an absent prev-journal field (the Go field holds 0) is L2's test "jn <= number", except for
   a journal numbered 0 *)
Lemma jsel_no_prev : forall jn n, n <> 0 -> jsel jn 0 n = (jn <=? n).
Proof. intros. unfold jsel. apply N.eqb_neq in H. rewrite H. apply orb_false_r. Qed.

Definition crash_journals (img : Crash.image) : list Crash.jfile :=
  (match Crash.i_frozen img with Some f => [f] | None => [] end) ++ [Crash.i_live img].

(* L2's recover replays exactly the journals of the image that recoverJournal's predicate selects under the
   journal number the manifest replay yields: "needed for recovery" is what [recover] reads *)
Lemma crash_recover_reads : forall img,
  (forall j, In j (crash_journals img) -> Crash.j_num j <> 0) ->
  let '(jn, sq, tabs) := Crash.replay_man (Crash.i_man img) 0 0 [] in
  Crash.recover_full img =
    fold_left (fun st j => Crash.replay_journal (Crash.j_recs j) (fst st) (snd st))
      (filter (fun j => jsel jn 0 (Crash.j_num j)) (crash_journals img)) (sq, tabs).
Proof.
  intros img H. unfold Crash.recover_full.
  destruct (Crash.replay_man (Crash.i_man img) 0 0 []) as [[jn sq] tabs].
  f_equal. apply filter_ext_in. intros j Hj. symmetry. apply jsel_no_prev. apply H. exact Hj.
Qed.

(* a frozen journal the predicate does not select is irrelevant: removing it leaves recover unchanged *)
Lemma crash_unselected_irrelevant : forall live f man,
  Crash.j_num f <> 0 ->
  (let '(jn, _, _) := Crash.replay_man man 0 0 [] in jsel jn 0 (Crash.j_num f) = false) ->
  Crash.recover_full {| Crash.i_live := live; Crash.i_frozen := Some f; Crash.i_man := man |} =
  Crash.recover_full {| Crash.i_live := live; Crash.i_frozen := None; Crash.i_man := man |}.
Proof.
  intros live f man Hn H. unfold Crash.recover_full; cbn.
  destruct (Crash.replay_man man 0 0 []) as [[jn sq] tabs].
  rewrite jsel_no_prev in H by auto. rewrite H. reflexivity.
Qed.
