(* Store/RepairBytes.v — leveldb.Recover as ONE function on a storage image given as BYTES.
   Model file: definitions only (proofs: Store/RepairBytesProofs.v).

   Go code followed, step by step, by CALLING the models of the layers (nothing is re-modelled here):
     leveldb/db.go  Recover          newSession (Store/OpenPath.v sess_new), recoverTable, openDB (open_rw / open_ro)
                    recoverTable     the option masking (StrictReader off: the scan iterator is ALWAYS the non-strict
                                     one; Comparer/Filter := the session's internal-key wrappers, the repaired
                                     behaviour), List(TypeTable) + sortFds, markFileNum(last), per file the inner
                                     recoverTable, rec.setSeqNum(maxSeq), s.create() (new_manifest with an empty
                                     record), s.commit(rec, false) (commit)
                    inner recoverTable(fd)   table.NewReader on the file's bytes (Lsm/ReadPath.v tf_reader =
                                     Codec/Table.v open_table with iComparer and the iFilter-wrapped policy),
                                     tr.NewIterator(nil, nil) drained by "for iter.Next()" (Codec/Table.v new_titer,
                                     ti_next, ti_get), parseInternalKey per key (Codec/IKey.v parse_ikey), the counters
                                     tgoodKey / tcorruptedKey / tcorruptedBlock, tSeq, imin / imax, the three-way
                                     decision (dropped under StrictRecovery when anything is corrupted; rebuilt when
                                     good keys exist and something is corrupted; kept; dropped when no good key)
                    buildTable       s.newTemp() (a per-session counter starting at 0), a second iterator over the same
                                     reader, validInternalKey, table.Writer with the masked options (Lsm/WritePath.v
                                     table_bytes: iComparer with Separator/Successor, the iFilter generator), Rename
                                     of the temporary file over the table
     leveldb/db_util.go  checkAndCleanFiles   inside open_rw (Store/Sweep.v janitor; temporary files are removed)

   Not modelled: storage errors (C08), logging (the per-table counters that the log lines print are returned as
   [tstat] records), the buffer pool, NoSync.  (approx) the number of error-callback invocations is computed from the
   index block's entries (every entry is opened exactly once by a complete non-strict forward scan) instead of being
   counted during the walk; an index block that verifies but does not decode counts as one callback. *)
From Coq Require Import List NArith ZArith Bool.
From GL Require Import Base.Bytes Base.Order Codec.IKey Codec.Block Codec.Table Codec.TableCheck Lsm.Lsm Lsm.ReadPath
  Store.OpenPath.
From GL Require Lsm.WritePath Store.Repair Mem.MemDB.
Import ListNotations.
Open Scope N_scope.

Module WP := GL.Lsm.WritePath.
Module RP := GL.Store.Repair.

Inductive tverdict := TKept | TRebuilt | TDropped.

(* what the log lines "table@recovery recovered/dropped/unrecoverable @num Gk Ck Cb S Q" say about one file *)
Record tstat := mkTS {
  ts_num : N; ts_verdict : tverdict;
  ts_good : N; ts_ckeys : N; ts_cblocks : N;     (* tgoodKey, tcorruptedKey, tcorruptedBlock *)
  ts_seq : N;                                    (* tSeq *)
  ts_size : N }.                                 (* the size recorded (new size when rebuilt) *)

Section RepairBytes.
  Variable jcrc : bytes -> N.
  Variable jp : Journal.jparams.
  Variable rp : SR.rparams.
  Variable kp : kparams.
  Variable bhl : N.
  Variable mp : MemDB.mparams.
  Variable tp : tparams.
  Variable tcrc : bytes -> N.
  Variable compress : bytes -> bytes.
  Variable decompress : bytes -> option bytes.
  Variable fname : option bytes.                   (* name of the configured filter policy *)
  Variable ufc : bytes -> N -> bytes -> bool.      (* its Contains through the filter block *)
  Variable verify : bool.                          (* StrictBlockChecksum *)
  Variable wo : WP.wopts.                          (* the options that reach table.Writer in buildTable *)
  Variable fgen : option (bytes * (list (N * list bytes) -> bytes)).   (* the same filter as openDB's flushes see it *)
  Variable c : comparer.                           (* the user comparer *)

  (* table.NewReader(reader, size, fd, nil, bpool, o) with o.Comparer = iComparer, o.Filter = iFilter *)
  Definition rt_reader (data : bytes) : treader :=
    tf_reader c tp tcrc decompress fname ufc verify (mkTF 0 [] [] data).

  (* "for iter.Next() { ... }" on tr.NewIterator(nil, nil), non-strict; None = the fuel ran out *)
  Fixpoint drain (rd : treader) (fuel : nat) (t : titer) : option (list (bytes * bytes)) :=
    match fuel with
    | O => None
    | S f =>
        let '(ok, t') := ti_next (ibc c) rd t in
        if ok then
          match ti_get t' with
          | Some kv => option_map (cons kv) (drain rd f t')
          | None => Some []                       (* (approx) Key() of an iterator without data *)
          end
        else Some []
    end.

  (* every entry lies in the file: more entries than bytes can only come from a crafted index *)
  Definition scan_fuel (data : bytes) : nat := S (S (length data)).

  Definition scan (data : bytes) : option (list (bytes * bytes)) :=
    let rd := rt_reader data in
    match new_titer (ibc c) rd None false with
    | inl _ => Some []                            (* iterator.NewEmptyIterator(r.err) *)
    | inr t => drain rd (scan_fuel data) t
    end.

  (* the error callback: once per data block whose handle or content is refused as corrupted *)
  Definition handle_corrupt (rd : treader) (v : bytes) : bool :=
    match decode_bh v with
    | BhOk h _ => match tr_fetch rd h with Corrupt => true | _ => false end
    | BhBad => true
    | BhPanic => false
    end.
  Definition cblocks_of (data : bytes) : N :=
    let rd := rt_reader data in
    match tr_index rd with
    | Ok ib =>
        match block_entries ib with
        | Ok ients => N.of_nat (length (filter (fun e => handle_corrupt rd (snd e)) ients))
        | _ => 1
        end
    | _ => 0                                      (* the empty iterator has no callback *)
    end.

  Definition key_valid (k : bytes) : bool := match parse_ikey kp k with Some _ => true | None => false end.
  Definition key_seq (k : bytes) : N := match parse_ikey kp k with Some (_, s, _) => s | None => 0 end.
  Definition good_of (l : list (bytes * bytes)) : list (bytes * bytes) := filter (fun kv => key_valid (fst kv)) l.
  Definition tseq_of (l : list (bytes * bytes)) : N :=
    fold_left (fun m kv => if m <? key_seq (fst kv) then key_seq (fst kv) else m) l 0.

  (* the state threaded through the loop over the files *)
  Record rb := mkRB {
    rb_c : cst;                (* storage, session *)
    rb_rec : SR.srec;          (* rec *)
    rb_maxseq : N;             (* maxSeq *)
    rb_temp : N;               (* s.stTempFileNum *)
    rb_stats : list tstat }.

  Definition set_files (cs : cst) (fs : files) : cst := mkC fs (c_meta cs) (c_sess cs) (c_removed cs) (c_commits cs).

  (* the inner recoverTable(fd) *)
  Definition recover_one_bytes (strict : bool) (st : rb) (num : N) : ores rb :=
    let cs := rb_c st in
    let data := match f_lookup (c_files cs) (SW.FTable, num) with Some d => d | None => [] end in
    match scan data with
    | None => OErr OEFuel
    | Some all =>
        let g := good_of all in
        let ngood := N.of_nat (length g) in
        let nck := N.of_nat (length all) - ngood in
        let ncb := cblocks_of data in
        let tseq := tseq_of g in
        let corrupted := (0 <? nck) || (0 <? ncb) in
        let dropped := mkRB cs (rb_rec st) (rb_maxseq st) (rb_temp st)
                            (rb_stats st ++ [mkTS num TDropped ngood nck ncb tseq (lenN data)]) in
        if strict && corrupted then OOk dropped
        else
          match g with
          | [] => OOk dropped
          | kv0 :: _ =>
              let imin := fst kv0 in
              let imax := fst (last g kv0) in
              let maxseq := if rb_maxseq st <? tseq then tseq else rb_maxseq st in
              if corrupted then
                (* buildTable: a second iterator over the same reader yields the same entries *)
                match WP.table_bytes c kp tp tcrc compress wo g with
                | None => OErr OEFlush                       (* tw.Append refused a key; the temporary file is removed *)
                | Some nd =>
                    let tmp := (SW.FTemp, rb_temp st) in
                    let fs1 := f_set (c_files cs) tmp nd in                       (* Create, Write, Sync, Close *)
                    let fs2 := f_set (f_del fs1 tmp) (SW.FTable, num) nd in       (* Rename(tmpFd, fd) *)
                    OOk (mkRB (set_files cs fs2)
                              (SR.add_table rp (rb_rec st) (SR.mkat 0%Z (Z.of_N num) (Z.of_N (lenN nd)) imin imax))
                              maxseq (rb_temp st + 1)
                              (rb_stats st ++ [mkTS num TRebuilt ngood nck ncb tseq (lenN nd)]))
                end
              else
                OOk (mkRB cs
                          (SR.add_table rp (rb_rec st) (SR.mkat 0%Z (Z.of_N num) (Z.of_N (lenN data)) imin imax))
                          maxseq (rb_temp st)
                          (rb_stats st ++ [mkTS num TKept ngood nck ncb tseq (lenN data)]))
          end
    end.

  Fixpoint recover_loop (strict : bool) (nums : list N) (st : rb) : ores rb :=
    match nums with
    | [] => OOk st
    | n :: r => odo st' <- recover_one_bytes strict st n; recover_loop strict r st'
    end.

  (* s.stor.List(storage.TypeTable) + sortFds *)
  Definition table_files (fs : files) : list N :=
    map snd (filter (fun x => match fst x with SW.FTable => true | _ => false end) (f_list fs)).

  (* recoverTable(s, o) up to and including the commit *)
  Definition recover_tables_bytes (o : oopts) (strict : bool) (img : simage) : ores (cst * list tstat * N) :=
    let nums := table_files (si_files img) in
    let s0 := match nums with [] => sess_new | _ => mark_file_num sess_new (last nums 0) end in
    let cs0 := mkC (si_files img) (si_meta img) s0 [] [] in
    odo st <- recover_loop strict nums (mkRB cs0 SR.sr_empty 0 0 []);
    let rec := SR.set_seq rp (rb_rec st) (rb_maxseq st) in
    odo c1 <- new_manifest jcrc jp rp (oo_cmp_name o) SR.sr_empty [] (rb_c st);                 (* s.create() *)
    odo c2 <- commit jcrc jp rp c o rec (fst c1);                                               (* s.commit(rec, false) *)
    OOk (fst c2, rb_stats st, rb_maxseq st).

  Record rbres := mkRR { rr_stats : list tstat; rr_maxseq : N; rr_state : ostate }.

  (* leveldb.Recover *)
  Definition recover_bytes (o : oopts) (strict : bool) (hts : list N) (img : simage) : ores rbres :=
    odo r <- recover_tables_bytes o strict img;
    let '(cs, stats, mx) := r in
    odo s <- (if oo_ro o
              then open_ro jcrc jp rp kp bhl mp tp tcrc compress (WP.wo_snappy wo) fgen (WP.wo_blockSize wo) (WP.wo_ri wo) c o hts cs
              else open_rw jcrc jp rp kp bhl mp tp tcrc compress (WP.wo_snappy wo) fgen (WP.wo_blockSize wo) (WP.wo_ri wo) c o hts cs);
    OOk (mkRR stats mx s).

  (* ------------------------------------------------------------------ the block map the byte model derives *)
  (* the abstract file of Store/Repair.v: one block per index entry; readable = the handle decodes, the checksum
     verifies (under [verify]), the content decompresses and parses as a block *)
  Definition fblock_of (rd : treader) (v : bytes) : RP.fblock :=
    match decode_bh v with
    | BhOk h _ =>
        match tr_fetch rd h with
        | Ok b => match block_entries b with
                  | Ok kvs => {| RP.fb_damaged := false; RP.fb_entries := map entry_of kvs |}
                  | _ => {| RP.fb_damaged := true; RP.fb_entries := [] |}
                  end
        | _ => {| RP.fb_damaged := true; RP.fb_entries := [] |}
        end
    | _ => {| RP.fb_damaged := true; RP.fb_entries := [] |}
    end.
  Definition blocks_of (data : bytes) : list RP.fblock :=
    let rd := rt_reader data in
    match tr_index rd with
    | Ok ib => match block_entries ib with Ok ients => map (fun e => fblock_of rd (snd e)) ients | _ => [] end
    | _ => []
    end.
  Definition file_of_bytes (num : N) (data : bytes) : RP.tfile := {| RP.tf_num := num; RP.tf_blocks := blocks_of data |}.
  Definition files_of_image (fs : files) : list RP.tfile :=
    map (fun n => file_of_bytes n (match f_lookup fs (SW.FTable, n) with Some d => d | None => [] end)) (table_files fs).

  (* the tables the recovery registered, as L1 tables (number, good entries) *)
  Definition stat_kept (s : tstat) : bool := match ts_verdict s with TDropped => false | _ => true end.
End RepairBytes.
