(* Store/CrashProofs.v — crash safety of the record-level persistence model: after any history — including
   failed writes, crashes and recoveries, and crashes inside a recovery — recovery of any admissible image
   contains every batch acknowledged as durable, only issued batches, each at most once, in issue order. *)
From GL Require Import Store.Crash.
From Coq Require Import Arith Lia ZifyN ZifyNat ZifyBool.

(* ---- manifest replay as three independent folds ---- *)
Fixpoint last_jn (es : list medit) (d : N) : N :=
  match es with [] => d | e :: r => last_jn r (match m_jnum e with Some j => j | None => d end) end.
Fixpoint last_sq (es : list medit) (d : N) : N :=
  match es with [] => d | e :: r => last_sq r (match m_seq e with Some q => q | None => d end) end.
Definition mtabs (es : list medit) : list batch := concat (map m_tab es).

Lemma replay_man_eq es jn sq tabs :
  replay_man es jn sq tabs = (last_jn es jn, last_sq es sq, tabs ++ mtabs es).
Proof.
  revert jn sq tabs; induction es as [|e r IH]; intros jn sq tabs; cbn [replay_man last_jn last_sq].
  - unfold mtabs; cbn. rewrite app_nil_r. reflexivity.
  - rewrite IH. unfold mtabs. cbn [map concat]. rewrite app_assoc. reflexivity.
Qed.

Lemma last_jn_app es e d : last_jn (es ++ [e]) d = match m_jnum e with Some j => j | None => last_jn es d end.
Proof. revert d; induction es as [|x r IH]; intros d; cbn [app last_jn]; [reflexivity|apply IH]. Qed.
Lemma last_sq_app es e d : last_sq (es ++ [e]) d = match m_seq e with Some q => q | None => last_sq es d end.
Proof. revert d; induction es as [|x r IH]; intros d; cbn [app last_sq]; [reflexivity|apply IH]. Qed.
Lemma mtabs_app es1 es2 : mtabs (es1 ++ es2) = mtabs es1 ++ mtabs es2.
Proof. unfold mtabs. rewrite map_app, concat_app. reflexivity. Qed.
Lemma mtabs_single e : mtabs [e] = m_tab e.
Proof. unfold mtabs. cbn. apply app_nil_r. Qed.

Lemma firstn_app_le {A} (l1 l2 : list A) k : (k <= length l1)%nat -> firstn k (l1 ++ l2) = firstn k l1.
Proof. intros H. rewrite firstn_app. replace (k - length l1)%nat with 0%nat by lia. cbn. apply app_nil_r. Qed.

Lemma firstn_app_all {A} (l1 l2 : list A) k : k = (length l1 + length l2)%nat -> firstn k (l1 ++ l2) = l1 ++ l2.
Proof. intros ->. rewrite <- app_length. apply firstn_all. Qed.

Lemma firstn_le_app {A} (l : list A) k1 k2 : (k1 <= k2)%nat -> exists r, firstn k2 l = firstn k1 l ++ r.
Proof.
  intros H. exists (skipn k1 (firstn k2 l)).
  rewrite <- (firstn_skipn k1 (firstn k2 l)) at 1. rewrite firstn_firstn.
  replace (Nat.min k1 k2) with k1 by lia. reflexivity.
Qed.

Lemma mtabs_firstn_incl es k1 k2 b : (k1 <= k2)%nat -> In b (mtabs (firstn k1 es)) -> In b (mtabs (firstn k2 es)).
Proof.
  intros H Hb. destruct (firstn_le_app es k1 k2 H) as [r ->]. rewrite mtabs_app. apply in_or_app. left; exact Hb.
Qed.

Lemma in_firstn {A} (l : list A) k x : In x (firstn k l) -> In x l.
Proof. intros H. rewrite <- (firstn_skipn k l). apply in_or_app. left; exact H. Qed.

Lemma in_firstn_mono {A} (l : list A) k1 k2 x : (k1 <= k2)%nat -> In x (firstn k1 l) -> In x (firstn k2 l).
Proof. intros H Hx. destruct (firstn_le_app l k1 k2 H) as [r ->]. apply in_or_app. left; exact Hx. Qed.

Lemma firstn_incl_app {A} (l x : list A) k1 k2 b : (k1 <= k2)%nat -> (k1 <= length l)%nat ->
  In b (firstn k1 l) -> In b (firstn k2 (l ++ x)).
Proof.
  intros H1 H2 Hb. destruct (firstn_le_app (l ++ x) k1 k2 H1) as [r ->].
  rewrite (firstn_app_le l x k1 H2). apply in_or_app. left; exact Hb.
Qed.

Lemma firstn_min_len {A} (l : list A) k : firstn k l = firstn (Nat.min k (length l)) l.
Proof.
  destruct (Nat.le_gt_cases k (length l)) as [H|H].
  - replace (Nat.min k (length l)) with k by lia. reflexivity.
  - replace (Nat.min k (length l)) with (length l) by lia. rewrite firstn_all. apply firstn_all2. lia.
Qed.

(* ---- chains: what the sequence check of recovery accepts ---- *)
(* gchain cur l cur': replaying l with running number cur accepts every batch (its first sequence number is
   not below the running number) and ends with a running number <= cur' *)
Fixpoint gchain (cur : N) (l : list batch) (cur' : N) : Prop :=
  match l with
  | [] => cur <= cur'
  | b :: r => cur <= b_seq b /\ 1 <= b_n b /\ gchain (b_seq b + b_n b) r cur'
  end.

Lemma gchain_weaken l : forall c1 c2 e1 e2, gchain c1 l e1 -> c2 <= c1 -> e1 <= e2 -> gchain c2 l e2.
Proof.
  induction l as [|b r IH]; intros c1 c2 e1 e2 H H1 H2; cbn [gchain] in *; [lia|].
  destruct H as (A & B & C). repeat split; [lia|exact B|]. eapply IH; [exact C|lia|exact H2].
Qed.

Lemma gchain_le l : forall c e, gchain c l e -> c <= e.
Proof.
  induction l as [|b r IH]; intros c e H; cbn [gchain] in H; [exact H|].
  destruct H as (A & B & C). apply IH in C. lia.
Qed.

Lemma gchain_app l1 : forall c mid l2 e, gchain c l1 mid -> gchain mid l2 e -> gchain c (l1 ++ l2) e.
Proof.
  induction l1 as [|b r IH]; intros c mid l2 e H1 H2; cbn [gchain app] in *.
  - eapply gchain_weaken; [exact H2|exact H1|lia].
  - destruct H1 as (A & B & C). repeat split; auto. eapply IH; eauto.
Qed.

Lemma gchain_firstn l : forall c e k, gchain c l e -> gchain c (firstn k l) e.
Proof.
  induction l as [|b r IH]; intros c e k H; destruct k as [|k]; cbn [firstn gchain] in *; auto.
  - destruct H as (A & B & C). apply gchain_le in C. lia.
  - destruct H as (A & B & C). repeat split; auto.
Qed.

Lemma gchain_in l : forall c e b, gchain c l e -> In b l -> c <= b_seq b /\ b_seq b + b_n b <= e /\ 1 <= b_n b.
Proof.
  induction l as [|x r IH]; intros c e b H Hb; [destruct Hb|].
  cbn [gchain] in H. destruct H as (A & B & C). destruct Hb as [->|Hb].
  - pose proof (gchain_le _ _ _ C). lia.
  - destruct (IH _ _ _ C Hb) as (P & Q & R). lia.
Qed.

Lemma replay_gchain l : forall cur e acc, gchain cur l e ->
  snd (replay_journal l cur acc) = acc ++ l /\ fst (replay_journal l cur acc) <= e /\ cur <= fst (replay_journal l cur acc).
Proof.
  induction l as [|b r IH]; intros cur e acc H; cbn [replay_journal gchain] in *.
  - cbn. rewrite app_nil_r. repeat split; lia.
  - destruct H as (A & B & C). replace (b_seq b <? cur) with false by (symmetry; apply N.ltb_ge; exact A).
    destruct (IH _ _ (acc ++ [b]) C) as (R1 & R2 & R3). rewrite R1, <- app_assoc. repeat split; [exact R2|lia].
Qed.

(* after replaying a chain the remaining interval is still a (trivial) chain end: the running number reached is
   a valid start for anything that was valid from the chain's end *)
Lemma replay_gchain_end l : forall cur e acc, gchain cur l e ->
  gchain (fst (replay_journal l cur acc)) [] e.
Proof. intros cur e acc H. cbn. apply (replay_gchain l cur e acc H). Qed.

(* sortedness *)
Definition below (cur : N) (l : list batch) : Prop := forall b, In b l -> b_seq b + b_n b <= cur.
Fixpoint sorted_b (l : list batch) : Prop :=
  match l with
  | [] => True
  | a :: r => (forall b, In b r -> b_seq a + b_n a <= b_seq b) /\ sorted_b r
  end.

Lemma gchain_sorted l : forall c e, gchain c l e -> sorted_b l /\ below e l.
Proof.
  induction l as [|b r IH]; intros c e H; cbn [gchain] in H; [split; [exact I|intros ? []]|].
  destruct H as (A & B & C). destruct (IH _ _ C) as [S Bl]. split.
  - split; [|exact S]. intros y Hy. destruct (gchain_in _ _ _ y C Hy). lia.
  - intros y [<-|Hy]; [pose proof (gchain_le _ _ _ C); lia|apply Bl; exact Hy].
Qed.

Lemma sorted_b_app l1 l2 : sorted_b l1 -> sorted_b l2 ->
  (forall a b, In a l1 -> In b l2 -> b_seq a + b_n a <= b_seq b) -> sorted_b (l1 ++ l2).
Proof.
  induction l1 as [|x r IH]; intros H1 H2 H3; cbn [app sorted_b] in *; [exact H2|].
  destruct H1 as [A B]. split.
  - intros y Hy. apply in_app_or in Hy as [Hy|Hy]; [apply A; exact Hy|apply H3; [left; reflexivity|exact Hy]].
  - apply IH; [exact B|exact H2|]. intros a b Ha Hb. apply H3; [right; exact Ha|exact Hb].
Qed.

(* ---- the invariant of reachable states ---- *)
(* fc, lc: running numbers from which the frozen / the live journal's records are accepted *)
Definition jstart_ok (s : pstate) (fc lc : N) : Prop :=
  match p_frozen s with
  | Some f => gchain fc (j_recs f) lc /\ j_num f + 1 = j_num (p_live s) /\ p_fseq s <= lc /\
              gchain fc (j_recs f) (p_fseq s + 1)
  | None => True
  end /\ gchain lc (j_recs (p_live s)) (p_seq s + 1).

(* what replaying any manifest prefix that contains the durable one yields: tables that form a chain ending
   at some t, with both t and the recorded sequence number not beyond the start of the journals to replay *)
Definition man_ok (s : pstate) (fc lc : N) : Prop :=
  forall k, (p_msynced s <= k <= length (p_man s))%nat ->
    let es := firstn k (p_man s) in
    let jn := last_jn es 0 in let sq := last_sq es 0 in
    exists t, gchain 0 (mtabs es) t /\ t <= sq + 1 /\ jn <= j_num (p_live s) /\
    match p_frozen s with
    | None => sq <= lc /\ t <= lc
    | Some f =>
        if p_fedit s
        then (jn <= j_num f /\ sq <= fc /\ t <= fc) \/
             (jn = j_num (p_live s) /\ sq <= lc /\ t <= lc /\ incl (j_recs f) (mtabs es))
        else jn <= j_num f /\ sq <= fc /\ t <= fc
    end.

Record pinv (s : pstate) : Prop := {
  pi_starts : exists fc lc, jstart_ok s fc lc /\ man_ok s fc lc /\
      (p_fedit s = true -> last_jn (p_man s) 0 = j_num (p_live s));
  pi_sync_le : (j_synced (p_live s) <= length (j_recs (p_live s)))%nat /\
               (p_msynced s <= length (p_man s))%nat /\ (1 <= p_msynced s)%nat;
  pi_fedit : p_fedit s = true -> p_frozen s <> None;
  pi_acked : forall b, In b (p_acked s) ->
      In b (firstn (j_synced (p_live s)) (j_recs (p_live s))) \/
      (exists f, p_frozen s = Some f /\ In b (firstn (j_synced f) (j_recs f))) \/
      In b (mtabs (firstn (p_msynced s) (p_man s)));
  pi_issued : forall b, (In b (mtabs (p_man s)) \/ In b (j_recs (p_live s)) \/
                         (exists f, p_frozen s = Some f /\ In b (j_recs f))) -> In b (p_issued s)
}.

Ltac psimp := unfold man_ok, jstart_ok in *;
  cbn [p_live p_frozen p_fedit p_fseq p_man p_msynced p_seq p_issued p_acked j_num j_recs j_synced] in *.

Lemma pinv_init : pinv p_init.
Proof.
  constructor; cbn.
  - exists 0, 0. split; [split; [exact I|first [lia | (intros HH; discriminate HH)]]|]. split; [|discriminate].
    intros k Hk. cbn in Hk. assert (k = 1%nat) by lia. subst k. cbn. exists 0. repeat split; first [lia | (intros HH; discriminate HH)].
  - lia.
  - discriminate.
  - intros b [].
  - intros b [[]|[[]|[f [H _]]]]. discriminate.
Qed.

Lemma pinv_write s n sync : pinv s -> pinv (pstep s (PWrite n sync)).
Proof.
  intros H0. pose proof H0 as [[fs [ls [[Hf Hl] [Hm Hj]]]] [S1 [S2 S3]] Hfe Ha Hi]. cbn [pstep].
  destruct (n =? 0) eqn:En; [exact H0|]. apply N.eqb_neq in En.
  set (b := {| b_seq := p_seq s + 1; b_n := n |}).
  constructor; cbn [p_live p_frozen p_fedit p_fseq p_man p_msynced p_seq p_issued p_acked jappend j_num j_recs j_synced].
  - exists fs, ls. split; [split|split].
    + exact Hf.
    + cbn [jappend j_recs]. eapply gchain_app; [exact Hl|]. cbn. repeat split; lia.
    + exact Hm.
    + exact Hj.
  - split; [|split; assumption]. rewrite app_length. cbn [length]. destruct sync; lia.
  - exact Hfe.
  - intros x Hx. destruct sync.
    + apply in_app_or in Hx as [Hx|Hx].
      * destruct (Ha x Hx) as [H1|[H1|H1]]; auto. left.
        eapply firstn_incl_app; [|exact S1|exact H1]. rewrite app_length; cbn; lia.
      * destruct Hx as [<-|[]]. left. rewrite firstn_all. apply in_or_app. right; left; reflexivity.
    + destruct (Ha x Hx) as [H1|[H1|H1]]; auto. left.
      eapply firstn_incl_app; [|exact S1|exact H1]. lia.
  - intros x Hx. apply in_or_app. destruct Hx as [Hx|[Hx|Hx]].
    + left. apply Hi. left; exact Hx.
    + apply in_app_or in Hx as [Hx|[<-|[]]]; [left; apply Hi; right; left; exact Hx|right; left; reflexivity].
    + left. apply Hi. right; right; exact Hx.
Qed.

Lemma pinv_syncj s : pinv s -> pinv (pstep s PSyncJournal).
Proof.
  intros [[fs [ls [[Hf Hl] [Hm Hj]]]] [S1 [S2 S3]] Hfe Ha Hi]. cbn [pstep].
  constructor; cbn [p_live p_frozen p_fedit p_fseq p_man p_msynced p_seq p_issued p_acked j_num j_recs j_synced].
  - exists fs, ls. exact (conj (conj Hf Hl) (conj Hm Hj)).
  - split; [lia|split; assumption].
  - exact Hfe.
  - intros x Hx. destruct (Ha x Hx) as [H1|[H1|H1]]; auto. left. rewrite firstn_all. eapply in_firstn; exact H1.
  - exact Hi.
Qed.

Lemma pinv_skip s n : pinv s -> pinv (pstep s (PSkipSeq n)).
Proof.
  intros [[fs [ls [[Hf Hl] [Hm Hj]]]] [S1 [S2 S3]] Hfe Ha Hi]. cbn [pstep].
  constructor; cbn [p_live p_frozen p_fedit p_fseq p_man p_msynced p_seq p_issued p_acked j_num j_recs j_synced]; auto.
  exists fs, ls. psimp. split; [split; [exact Hf|eapply gchain_weaken; [exact Hl|lia|lia]]|]. exact (conj Hm Hj).
Qed.

Lemma pinv_rotate s : pinv s -> pinv (pstep s PRotate).
Proof.
  intros H0. pose proof H0 as [[fs [ls [[Hf Hl] [Hm Hj]]]] [S1 [S2 S3]] Hfe Ha Hi]. cbn [pstep].
  destruct (p_frozen s) as [f|] eqn:Fz; [exact H0|].
  constructor; cbn [p_live p_frozen p_fedit p_fseq p_man p_msynced p_seq p_issued p_acked j_num j_recs j_synced].
  - exists ls, (p_seq s + 1). psimp. split; [split; [split; [exact Hl|split; [reflexivity|split; [lia|exact Hl]]]|unfold gchain; lia]|]. split; [|discriminate].
    intros k Hk. specialize (Hm k Hk). rewrite Fz in Hm. cbn zeta in *.
    destruct Hm as (t & M1 & M0 & M2 & M3 & M4). exists t. split; [exact M1|]. split; [exact M0|]. split; [lia|]. auto.
  - split; [cbn; lia|split; assumption].
  - discriminate.
  - intros x Hx. destruct (Ha x Hx) as [H1|[[f [H1 _]]|H1]]; [|congruence|auto].
    right; left. exists (p_live s). split; [reflexivity|exact H1].
  - intros x [Hx|[[]|[f [Hf' Hx]]]]; [apply Hi; left; exact Hx|].
    injection Hf' as <-. apply Hi. right; left; exact Hx.
Qed.

Lemma pinv_flushedit s : pinv s -> pinv (pstep s PFlushEdit).
Proof.
  intros H0. pose proof H0 as [[fs [ls [[Hf Hl] [Hm Hj]]]] [S1 [S2 S3]] Hfe Ha Hi]. cbn [pstep].
  destruct (p_frozen s) as [f|] eqn:Fz; [|exact H0].
  destruct (last (map Some (j_recs f)) None) as [bl|] eqn:L; [|exact H0].
  destruct (p_fedit s) eqn:Fe; [exact H0|].
  destruct Hf as (Hfc & Hfn & Hfq & Hfe2).
  set (e := {| m_jnum := Some (j_num (p_live s)); m_seq := Some (p_fseq s); m_tab := j_recs f |}).
  assert (Full := Hm (length (p_man s)) (conj S2 (le_n _))). psimp. rewrite Fz, Fe, firstn_all in Full. cbn zeta in Full.
  destruct Full as (t & F1 & F0 & F2 & F3 & F4 & F5).
  constructor; cbn [p_live p_frozen p_fedit p_fseq p_man p_msynced p_seq p_issued p_acked].
  - exists fs, ls. split; [split; [split; [exact Hfc|split; [assumption|split; assumption]]|exact Hl]|]. split.
    + psimp. intros k Hk. rewrite app_length in Hk. cbn [length] in Hk. cbn zeta.
      destruct (Nat.eq_dec k (length (p_man s) + 1)) as [->|Hne].
      * rewrite firstn_app_all by reflexivity. rewrite last_jn_app, last_sq_app, mtabs_app. cbn [e m_jnum m_seq].
        rewrite !mtabs_single. cbn [e m_tab]. exists (N.min ls (p_fseq s + 1)).
        split.
        { eapply gchain_app; [exact F1|]. destruct (N.min_spec ls (p_fseq s + 1)) as [[_ ->]|[_ ->]].
          - eapply gchain_weaken; [exact Hfc|exact F5|lia].
          - eapply gchain_weaken; [exact Hfe2|exact F5|lia]. }
        split; [lia|]. split; [lia|]. right. split; [reflexivity|]. split; [exact Hfq|]. split; [lia|].
        intros x Hx. apply in_or_app. right; exact Hx.
      * rewrite firstn_app_le by lia. assert (Hk' : (p_msynced s <= k <= length (p_man s))%nat) by lia.
        specialize (Hm k Hk'). rewrite Fz, Fe in Hm. cbn zeta in Hm. destruct Hm as (t' & M1 & M0 & M2 & M3).
        exists t'. split; [exact M1|]. split; [exact M0|]. split; [exact M2|]. left. exact M3.
    + intros _. rewrite last_jn_app. reflexivity.
  - split; [exact S1|]. split; [rewrite app_length; cbn; lia|exact S3].
  - intros _. congruence.
  - intros x Hx. destruct (Ha x Hx) as [H1|[H1|H1]]; auto. right; right.
    rewrite firstn_app_le by exact S2. exact H1.
  - intros x [Hx|[Hx|[f' [Hf' Hx]]]].
    + rewrite mtabs_app in Hx. apply in_app_or in Hx as [Hx|Hx]; [apply Hi; left; exact Hx|].
      rewrite mtabs_single in Hx. cbn [e m_tab] in Hx.
      apply Hi. right; right. exists f. split; [reflexivity|exact Hx].
    + apply Hi. right; left; exact Hx.
    + apply Hi. right; right. exists f'. split; assumption.
Qed.

Lemma pinv_mansync s : pinv s -> pinv (pstep s PManSync).
Proof.
  intros [[fs [ls [[Hf Hl] [Hm Hj]]]] [S1 [S2 S3]] Hfe Ha Hi]. cbn [pstep].
  constructor; cbn [p_live p_frozen p_fedit p_fseq p_man p_msynced p_seq p_issued p_acked].
  - exists fs, ls. split; [exact (conj Hf Hl)|]. split; [|exact Hj].
    psimp. intros k Hk. apply Hm. lia.
  - split; [exact S1|]. split; [lia|lia].
  - exact Hfe.
  - intros x Hx. destruct (Ha x Hx) as [H1|[H1|H1]]; auto. right; right.
    eapply mtabs_firstn_incl; [exact S2|exact H1].
  - exact Hi.
Qed.

Lemma pinv_compact s : pinv s -> pinv (pstep s PCompactEdit).
Proof.
  intros [[fs [ls [[Hf Hl] [Hm Hj]]]] [S1 [S2 S3]] Hfe Ha Hi]. cbn [pstep].
  set (e := {| m_jnum := None; m_seq := None; m_tab := [] |}).
  constructor; cbn [p_live p_frozen p_fedit p_fseq p_man p_msynced p_seq p_issued p_acked].
  - exists fs, ls. split; [exact (conj Hf Hl)|]. split.
    + psimp. intros k Hk. rewrite app_length in Hk. cbn [length] in Hk. cbn zeta.
      destruct (Nat.eq_dec k (length (p_man s) + 1)) as [->|Hne].
      * rewrite firstn_app_all by reflexivity. rewrite last_jn_app, last_sq_app, mtabs_app. cbn [e m_jnum m_seq].
        rewrite !mtabs_single. cbn [e m_tab]. rewrite !app_nil_r.
        assert (Full := Hm (length (p_man s)) (conj S2 (le_n _))). rewrite firstn_all in Full. exact Full.
      * rewrite firstn_app_le by lia. apply Hm. lia.
    + intros Fe. rewrite last_jn_app. cbn. apply Hj. exact Fe.
  - split; [exact S1|]. split; [rewrite app_length; cbn; lia|exact S3].
  - exact Hfe.
  - intros x Hx. destruct (Ha x Hx) as [H1|[H1|H1]]; auto. right; right.
    rewrite firstn_app_le by exact S2. exact H1.
  - intros x [Hx|Hx]; [|apply Hi; right; exact Hx].
    rewrite mtabs_app, mtabs_single in Hx. cbn [e m_tab] in Hx. rewrite app_nil_r in Hx. apply Hi. left; exact Hx.
Qed.

Lemma pinv_drop s : pinv s -> pinv (pstep s PDropFrozen).
Proof.
  intros H0. pose proof H0 as [[fs [ls [[Hf Hl] [Hm Hj]]]] [S1 [S2 S3]] Hfe Ha Hi]. cbn [pstep].
  match goal with |- pinv (if ?c then _ else _) => destruct c eqn:Cond end; [|exact H0].
  destruct (p_frozen s) as [f|] eqn:Fz.
  2:{ cbn in Cond. destruct (p_fedit s) eqn:Fe; [exfalso; apply (Hfe eq_refl); reflexivity|discriminate]. }
  destruct Hf as (Hfc & Hfn & Hfq & Hfe2).
  assert (Key : forall k, (p_msynced s <= k <= length (p_man s))%nat ->
            exists t, gchain 0 (mtabs (firstn k (p_man s))) t /\ t <= last_sq (firstn k (p_man s)) 0 + 1 /\
            last_jn (firstn k (p_man s)) 0 <= j_num (p_live s) /\ last_sq (firstn k (p_man s)) 0 <= ls /\ t <= ls).
  { intros k Hk. specialize (Hm k Hk). psimp. cbn zeta in Hm. rewrite Fz in Hm. destruct Hm as (t & M1 & M0 & M2 & M3).
    exists t. split; [exact M1|]. split; [exact M0|]. split; [exact M2|].
    apply orb_prop in Cond as [Cond|Cond].
    - destruct (j_recs f) eqn:R; [|discriminate]. cbn in Hfc.
      destruct (p_fedit s); [destruct M3 as [(_ & M3 & M4)|(_ & M3 & M4 & _)]; lia|destruct M3 as (_ & M3 & M4); lia].
    - apply andb_prop in Cond as [Fe Len]. rewrite Fe in M3. apply Nat.eqb_eq in Len.
      assert (k = length (p_man s)) by lia. subst k. rewrite firstn_all in *.
      specialize (Hj Fe). destruct M3 as [(M3 & _)|(_ & M3 & M4 & _)]; lia. }
  constructor; cbn [p_live p_frozen p_fedit p_fseq p_man p_msynced p_seq p_issued p_acked].
  - exists fs, ls. split; [split; [exact I|exact Hl]|]. split; [|discriminate].
    psimp. intros k Hk. cbn zeta. destruct (Key k Hk) as (t & K1 & K0 & K2 & K3 & K4). exists t. auto.
  - auto.
  - discriminate.
  - intros x Hx. destruct (Ha x Hx) as [H1|[[f' [Ef H1]]|H1]]; auto.
    injection Ef as <-. right; right.
    apply orb_prop in Cond as [Cond|Cond].
    + destruct (j_recs f); [rewrite firstn_nil in H1; destruct H1|discriminate].
    + apply andb_prop in Cond as [Fe Len]. apply Nat.eqb_eq in Len. rewrite <- Len, firstn_all.
      assert (Full := Hm (length (p_man s)) (conj S2 (le_n _))). psimp. rewrite Fz, Fe, firstn_all in Full. cbn zeta in Full.
      destruct Full as (t & _ & _ & _ & [(F & _)|(_ & _ & _ & F)]).
      * specialize (Hj Fe). lia.
      * apply F. eapply in_firstn; exact H1.
  - intros x [Hx|[Hx|[f' [Ef _]]]]; [apply Hi; left; exact Hx|apply Hi; right; left; exact Hx|discriminate].
Qed.

Lemma pinv_txn s n : pinv s -> pinv (pstep s (PTxnCommit n)).
Proof.
  intros H0. pose proof H0 as [[fs [ls [[Hf Hl] [Hm Hj]]]] [S1 [S2 S3]] Hfe Ha Hi]. cbn [pstep].
  destruct (p_frozen s) as [f|] eqn:Fz; [exact H0|].
  destruct (j_recs (p_live s)) as [|r0 rs] eqn:Lr; [|exact H0].
  destruct (n =? 0) eqn:En; [exact H0|]. apply N.eqb_neq in En.
  cbn in Hl.
  set (b := {| b_seq := p_seq s + 1; b_n := n |}).
  set (e := {| m_jnum := None; m_seq := Some (p_seq s + n); m_tab := [b] |}).
  assert (Full := Hm (length (p_man s)) (conj S2 (le_n _))). psimp. rewrite Fz, firstn_all in Full. cbn zeta in Full.
  destruct Full as (t & F1 & F0 & F2 & F3 & F4).
  constructor; cbn [p_live p_frozen p_fedit p_fseq p_man p_msynced p_seq p_issued p_acked].
  - exists fs, (p_seq s + n + 1). split; [split; [exact I|psimp; rewrite Lr; cbn; lia]|]. split; [|discriminate].
    psimp. intros k Hk. rewrite app_length in Hk. cbn [length] in Hk.
    assert (k = (length (p_man s) + 1)%nat) by lia. subst k. cbn zeta.
    rewrite firstn_app_all by reflexivity. rewrite last_jn_app, last_sq_app, mtabs_app, mtabs_single. cbn [e m_jnum m_seq m_tab].
    exists (p_seq s + n + 1). split; [|split; [lia|split; [exact F2|split; lia]]].
    eapply gchain_app; [exact F1|]. cbn. repeat split; lia.
  - split; [rewrite Lr; exact S1|]. rewrite app_length. cbn. lia.
  - discriminate.
  - intros x Hx. right; right.
    replace (S (length (p_man s))) with (length (p_man s) + 1)%nat by lia.
    rewrite firstn_app_all by reflexivity. rewrite mtabs_app, mtabs_single. cbn [e m_tab].
    apply in_app_or in Hx as [Hx|[<-|[]]]; [|apply in_or_app; right; left; reflexivity].
    destruct (Ha x Hx) as [H1|[[f' [Ef _]]|H1]]; [|discriminate|].
    + rewrite firstn_nil in H1. destruct H1.
    + apply in_or_app. left. rewrite <- (firstn_all (p_man s)). eapply mtabs_firstn_incl; [exact S2|exact H1].
  - intros x Hx. apply in_or_app. destruct Hx as [Hx|[Hx|[f' [Ef _]]]]; [| |discriminate].
    + rewrite mtabs_app, mtabs_single in Hx. cbn [e m_tab] in Hx.
      apply in_app_or in Hx as [Hx|[<-|[]]]; [left; apply Hi; left; exact Hx|right; left; reflexivity].
    + rewrite Lr in Hx. destruct Hx.
Qed.

(* ---- what any admissible image of a reachable state looks like to recovery ---- *)
Lemma jprefix_recs j k : j_recs (jprefix j k) = firstn k (j_recs j).
Proof. reflexivity. Qed.

(* the replayed part of the frozen journal as recovery sees it *)
Definition fz_of (jn : N) (img : image) : option jfile :=
  match i_frozen img with
  | Some f => if jn <=? j_num f then Some (all_synced f) else None
  | None => None
  end.

Lemma image_decomp s img : pinv s -> is_image s img ->
  exists jn sq tabs t c1 c2 fr lv,
    replay_man (i_man img) 0 0 [] = (jn, sq, tabs) /\
    lv = j_recs (i_live img) /\ fr = match fz_of jn img with Some f => j_recs f | None => [] end /\
    gchain 0 tabs t /\ t <= sq + 1 /\ sq <= c1 /\ t <= c1 /\ gchain c1 fr c2 /\ gchain c2 lv (p_seq s + 1) /\
    jn <= j_num (i_live img) /\
    (forall f, fz_of jn img = Some f -> jn <= j_num f /\ j_num f + 1 = j_num (i_live img)) /\
    (forall b, In b (p_acked s) -> In b tabs \/ In b fr \/ In b lv) /\
    (forall b, In b tabs \/ In b fr \/ In b lv -> In b (p_issued s)) /\
    tabs = mtabs (i_man img) /\ (1 <= length (i_man img))%nat /\
    (forall b f, p_frozen s = Some f -> In b (firstn (j_synced f) (j_recs f)) -> In b tabs \/ In b fr) /\
    (forall b, In b (mtabs (firstn (p_msynced s) (p_man s))) -> In b tabs).
Proof.
  intros [[fs [ls [[Hf Hl] [Hm Hj]]]] [S1 [S2 S3]] Hfe Ha Hi] [[kl [Hkl Il]] [Ifz [km [Hkm Im]]]].
  rewrite Im, replay_man_eq. cbn [app].
  rewrite (firstn_min_len (p_man s) km).
  set (k := Nat.min km (length (p_man s))).
  assert (Hk : (p_msynced s <= k <= length (p_man s))%nat) by (unfold k; lia).
  specialize (Hm k Hk). cbn zeta in Hm. destruct Hm as (t & M1 & M0 & M2 & M3).
  set (es := firstn k (p_man s)) in *.
  set (jn := last_jn es 0) in *. set (sq := last_sq es 0) in *.
  assert (Tissued : forall b, In b (mtabs es) -> In b (p_issued s)).
  { intros b Hb. apply Hi. left. unfold es in Hb. rewrite <- (firstn_all (p_man s)).
    eapply mtabs_firstn_incl; [|exact Hb]. lia. }
  assert (TabsAck : forall b, In b (mtabs (firstn (p_msynced s) (p_man s))) -> In b (mtabs es)).
  { intros b Hb. unfold es. eapply mtabs_firstn_incl; [|exact Hb]. lia. }
  assert (LiveIss : forall b, In b (firstn kl (j_recs (p_live s))) -> In b (p_issued s)).
  { intros b Hb. apply Hi. right; left. eapply in_firstn. exact Hb. }
  assert (Len1 : (1 <= length es)%nat).
  { unfold es. rewrite firstn_length. lia. }
  assert (Liv : j_recs (i_live img) = firstn kl (j_recs (p_live s))) by (rewrite Il; reflexivity).
  assert (LivN : j_num (i_live img) = j_num (p_live s)) by (rewrite Il; reflexivity).
  unfold fz_of.
  destruct (p_frozen s) as [f|] eqn:Fz.
  - destruct Hf as (Hfc & Hfn & Hfq & Hfe2).
    assert (Cases : (jn <= j_num f /\ sq <= fs /\ t <= fs) \/
                    (jn = j_num (p_live s) /\ sq <= ls /\ t <= ls /\ incl (j_recs f) (mtabs es))).
    { destruct (p_fedit s); [exact M3|left; exact M3]. }
    destruct (i_frozen img) as [f'|] eqn:IF.
    + destruct Ifz as [kf [Hkf ->]]. cbn [jprefix j_num].
      destruct Cases as [(C1 & C2 & C3)|(C1 & C2 & C3 & C4)].
      * exists jn, sq, (mtabs es), t, fs, ls, (firstn kf (j_recs f)), (firstn kl (j_recs (p_live s))).
        replace (jn <=? j_num f) with true by (symmetry; apply N.leb_le; exact C1).
        cbn [all_synced j_recs jprefix].
        split; [reflexivity|]. split; [exact (eq_sym Liv)|]. split; [reflexivity|].
        split; [exact M1|]. split; [exact M0|]. split; [exact C2|]. split; [exact C3|].
        split; [apply gchain_firstn; exact Hfc|]. split; [apply gchain_firstn; exact Hl|].
        split; [lia|]. split; [intros f0 E; injection E as <-; cbn; lia|].
        split; [|split; [|split; [reflexivity|split; [exact Len1|split; [|exact TabsAck]]]]].
        3:{ intros b f0 Ef H1. injection Ef as <-. right. eapply in_firstn_mono; [exact Hkf|exact H1]. }
        { intros b Hb. destruct (Ha b Hb) as [H1|[[f0 [Ef H1]]|H1]].
          - right; right. eapply in_firstn_mono; [exact Hkl|exact H1].
          - injection Ef as <-. right; left. eapply in_firstn_mono; [exact Hkf|exact H1].
          - left. apply TabsAck. exact H1. }
        { intros b [Hb|[Hb|Hb]]; [apply Tissued; exact Hb| |apply LiveIss; exact Hb].
          apply Hi. right; right. exists f. split; [reflexivity|eapply in_firstn; exact Hb]. }
      * exists jn, sq, (mtabs es), t, ls, ls, [], (firstn kl (j_recs (p_live s))).
        replace (jn <=? j_num f) with false by (symmetry; apply N.leb_gt; lia).
        split; [reflexivity|]. split; [exact (eq_sym Liv)|]. split; [reflexivity|].
        split; [exact M1|]. split; [exact M0|]. split; [exact C2|]. split; [exact C3|].
        split; [cbn; lia|]. split; [apply gchain_firstn; exact Hl|].
        split; [lia|]. split; [intros f0 E; discriminate|].
        split; [|split; [|split; [reflexivity|split; [exact Len1|split; [|exact TabsAck]]]]].
        3:{ intros b f0 Ef H1. injection Ef as <-. left. apply C4. eapply in_firstn. exact H1. }
        { intros b Hb. destruct (Ha b Hb) as [H1|[[f0 [Ef H1]]|H1]].
          - right; right. eapply in_firstn_mono; [exact Hkl|exact H1].
          - injection Ef as <-. left. apply C4. eapply in_firstn. exact H1.
          - left. apply TabsAck. exact H1. }
        { intros b [Hb|[[]|Hb]]; [apply Tissued; exact Hb|apply LiveIss; exact Hb]. }
    + (* the frozen journal file vanished: it had no durable record *)
      assert (Sq : sq <= ls /\ t <= ls).
      { destruct Cases as [(_ & C2 & C3)|(_ & C2 & C3 & _)]; [pose proof (gchain_le _ _ _ Hfc); lia|lia]. }
      exists jn, sq, (mtabs es), t, ls, ls, [], (firstn kl (j_recs (p_live s))).
      split; [reflexivity|]. split; [exact (eq_sym Liv)|]. split; [reflexivity|].
      split; [exact M1|]. split; [exact M0|]. split; [apply Sq|]. split; [apply Sq|].
      split; [cbn; lia|]. split; [apply gchain_firstn; exact Hl|].
      split; [lia|]. split; [intros f0 E; discriminate|].
      split; [|split; [|split; [reflexivity|split; [exact Len1|split; [|exact TabsAck]]]]].
      3:{ intros b f0 Ef H1. injection Ef as <-. rewrite Ifz in H1. cbn in H1. destruct H1. }
      { intros b Hb. destruct (Ha b Hb) as [H1|[[f0 [Ef H1]]|H1]].
        - right; right. eapply in_firstn_mono; [exact Hkl|exact H1].
        - injection Ef as <-. rewrite Ifz in H1. cbn in H1. destruct H1.
        - left. apply TabsAck. exact H1. }
      { intros b [Hb|[[]|Hb]]; [apply Tissued; exact Hb|apply LiveIss; exact Hb]. }
  - destruct (i_frozen img) as [f'|]; [destruct Ifz|].
    destruct M3 as [M3 M4].
    exists jn, sq, (mtabs es), t, ls, ls, [], (firstn kl (j_recs (p_live s))).
    split; [reflexivity|]. split; [exact (eq_sym Liv)|]. split; [reflexivity|].
    split; [exact M1|]. split; [exact M0|]. split; [exact M3|]. split; [exact M4|].
    split; [cbn; lia|]. split; [apply gchain_firstn; exact Hl|].
    split; [lia|]. split; [intros f0 E; discriminate|].
    split; [|split; [|split; [reflexivity|split; [exact Len1|split; [|exact TabsAck]]]]].
    3:{ intros b f0 Ef H1. discriminate. }
    { intros b Hb. destruct (Ha b Hb) as [H1|[[f0 [Ef H1]]|H1]].
      - right; right. eapply in_firstn_mono; [exact Hkl|exact H1].
      - discriminate.
      - left. apply TabsAck. exact H1. }
    { intros b [Hb|[[]|Hb]]; [apply Tissued; exact Hb|apply LiveIss; exact Hb]. }
Qed.

Lemma recover_full_eq img jn sq tabs : replay_man (i_man img) 0 0 [] = (jn, sq, tabs) ->
  jn <= j_num (i_live img) ->
  recover_full img =
    let st1 := match fz_of jn img with Some f => replay_journal (j_recs f) sq tabs | None => (sq, tabs) end in
    replay_journal (j_recs (i_live img)) (fst st1) (snd st1).
Proof.
  intros E Hl. unfold recover_full, fz_of. rewrite E.
  assert (L : (jn <=? j_num (i_live img)) = true) by (apply N.leb_le; exact Hl).
  destruct (i_frozen img) as [f|]; cbn [app filter].
  - destruct (jn <=? j_num f); rewrite L; cbn [fold_left fst snd all_synced j_recs]; reflexivity.
  - rewrite L. cbn [fold_left fst snd]. reflexivity.
Qed.

(* Crash safety: for every history of the model — writes with or without sync, failed writes, rotations,
   flushes split into their crash points, transaction commits, compaction edits, and crashes followed by
   recovery (whose own steps are again crash points) — and every admissible crash image of the state it reaches,
   recovery yields a list of batches that (1) contains every batch acknowledged as durable, (2) contains only
   issued batches, (3) is strictly ordered by sequence number: the recovered contents are those of a subset of
   the issued batches applied in their original order, each entirely present or entirely absent. *)
Theorem crash_safe_inv s img : pinv s -> is_image s img ->
  (forall b, In b (p_acked s) -> In b (recover img)) /\
  (forall b, In b (recover img) -> In b (p_issued s)) /\
  sorted_b (recover img).
Proof.
  intros Hi Him.
  destruct (image_decomp s img Hi Him) as (jn & sq & tabs & t & c1 & c2 & fr & lv & E & Elv & Efr & G0 & T0 & Q1 & T1 & G1 & G2 & JL & FZ & Ack & Iss & _ & _ & _ & _).
  unfold recover. rewrite (recover_full_eq img jn sq tabs E JL). cbn zeta.
  assert (R1 : snd (match fz_of jn img with Some f => replay_journal (j_recs f) sq tabs | None => (sq, tabs) end) = tabs ++ fr /\
               fst (match fz_of jn img with Some f => replay_journal (j_recs f) sq tabs | None => (sq, tabs) end) <= c2).
  { destruct (fz_of jn img) as [f|]; subst fr.
    - destruct (replay_gchain (j_recs f) sq c2 tabs ltac:(eapply gchain_weaken; [exact G1|exact Q1|lia])) as (A & B & _). split; assumption.
    - cbn [fst snd]. rewrite app_nil_r. split; [reflexivity|]. cbn in G1. lia. }
  destruct R1 as [R1 R1b].
  destruct (match fz_of jn img with Some f => replay_journal (j_recs f) sq tabs | None => (sq, tabs) end) as [q1 a1].
  cbn [fst snd] in *. subst a1. rewrite <- Elv.
  destruct (replay_gchain lv q1 (p_seq s + 1) (tabs ++ fr) ltac:(eapply gchain_weaken; [exact G2|exact R1b|lia])) as (A & _ & _).
  rewrite A. split; [|split].
  - intros b Hb. destruct (Ack b Hb) as [H|[H|H]]; apply in_or_app; [left; apply in_or_app; left; exact H|left; apply in_or_app; right; exact H|right; exact H].
  - intros b Hb. apply Iss. apply in_app_or in Hb as [Hb|Hb]; [apply in_app_or in Hb as [Hb|Hb]; auto|auto].
  - destruct (gchain_sorted _ _ _ G0) as [S0 B0]. destruct (gchain_sorted _ _ _ G1) as [S1 B1]. destruct (gchain_sorted _ _ _ G2) as [S2 _].
    apply sorted_b_app; [apply sorted_b_app; [exact S0|exact S1|]|exact S2|].
    + intros a b Ha Hb. specialize (B0 a Ha). destruct (gchain_in _ _ _ b G1 Hb) as (P & _ & _). lia.
    + intros a b Ha Hb. destruct (gchain_in _ _ _ b G2 Hb) as (P & _ & _).
      apply in_app_or in Ha as [Ha|Ha].
      * specialize (B0 a Ha). pose proof (gchain_le _ _ _ G1). lia.
      * specialize (B1 a Ha). lia.
Qed.

(* ---- a crash followed by the in-memory part of recovery re-establishes the invariant ---- *)
Lemma replay_tight l : forall c e c' acc, gchain c l e -> c' <= c ->
  l <> [] -> gchain c' l (fst (replay_journal l c' acc)).
Proof.
  induction l as [|b r IH]; intros c e c' acc H Hc Hne; [congruence|].
  cbn [gchain replay_journal] in *. destruct H as (A & B & C).
  replace (b_seq b <? c') with false by (symmetry; apply N.ltb_ge; lia).
  split; [lia|]. split; [exact B|].
  destruct r as [|b2 r'].
  - cbn. lia.
  - apply (IH _ _ _ (acc ++ [b]) C); [lia|discriminate].
Qed.

Lemma replay_nil c acc : replay_journal [] c acc = (c, acc).
Proof. reflexivity. Qed.

Lemma gchain_rebase l : forall c c' e, gchain c l e ->
  (forall b, hd_error l = Some b -> c' <= b_seq b) -> (l = [] -> c' <= e) -> gchain c' l e.
Proof.
  intros c c' e H H1 H2. destruct l as [|b r]; cbn [gchain] in *.
  - apply H2. reflexivity.
  - destruct H as (A & B & C). split; [apply H1; reflexivity|]. split; assumption.
Qed.

Lemma mk_image_is_image s kl kf km : pinv s -> is_image s (mk_image s kl kf km).
Proof.
  intros [_ [S1 [S2 S3]] _ _ _]. unfold is_image, mk_image; cbn [i_live i_frozen i_man].
  split; [|split].
  - exists (Nat.max kl (j_synced (p_live s))). split; [lia|reflexivity].
  - destruct (p_frozen s) as [f|]; cbn [option_map]; [|exact I].
    exists (Nat.max kf (j_synced f)). split; [lia|reflexivity].
  - exists (Nat.max km (p_msynced s)). split; [lia|reflexivity].
Qed.

Definition fzm (jn : N) (img : image) (dur : bool) : option jfile :=
  match i_frozen img with
  | Some f => if jn <=? j_num f then Some (if dur then all_synced f else f) else None
  | None => None
  end.

Lemma fzm_recs jn img dur :
  match fzm jn img dur with Some f => j_recs f | None => [] end =
  match fz_of jn img with Some f => j_recs f | None => [] end.
Proof.
  unfold fzm, fz_of. destruct (i_frozen img) as [f|]; [|reflexivity].
  destruct (jn <=? j_num f); [|reflexivity]. destruct dur; reflexivity.
Qed.

Lemma fzm_some jn img dur f : fzm jn img dur = Some f ->
  exists f0, fz_of jn img = Some (all_synced f0) /\ i_frozen img = Some f0 /\ f = (if dur then all_synced f0 else f0).
Proof.
  unfold fzm, fz_of. destruct (i_frozen img) as [f0|]; [|discriminate].
  destruct (jn <=? j_num f0); [|discriminate]. intros H; injection H as <-. exists f0. auto.
Qed.

(* the general restart lemma: dur = true after a crash (any admissible image), dur = false for a clean reopen
   (full image, every manifest edit synced) *)
Lemma pinv_restart_gen s img dur : pinv s -> is_image s img ->
  (dur = false -> img = full_image s /\ length (p_man s) = p_msynced s) ->
  pinv (restart_state s img dur).
Proof.
  intros Hinv Him Hdur.
  destruct (image_decomp s img Hinv Him) as (jn & sq & tabs & t & c1 & c2 & fr & lv & E & Elv & Efr & G0 & T0 & Q1 & T1 & G1 & G2 & JL & FZ & Ack & Iss & Etabs & Len1 & FrozAck & TabsAck).
  pose proof Hinv as [_ [S1 [S2 S3]] _ Ha _].
  unfold restart_state. rewrite E. fold (fzm jn img dur).
  rewrite <- (fzm_recs jn img dur) in Efr.
  set (T := N.max sq t).
  assert (HT : T <= c1 /\ sq <= T /\ t <= T /\ T <= sq + 1) by (unfold T; lia).
  destruct HT as (HT1 & HT2 & HT3 & HT4).
  pose proof (gchain_le _ _ _ G1) as C12.
  assert (Q : exists q1 a1, match fzm jn img dur with Some f => replay_journal (j_recs f) sq tabs | None => (sq, tabs) end = (q1, a1) /\
              sq <= q1 /\ q1 <= c2 /\ a1 = tabs ++ fr /\ gchain T fr (N.max T q1)).
  { destruct (fzm jn img dur) as [f|] eqn:EF; subst fr.
    - destruct (replay_gchain (j_recs f) sq c2 tabs ltac:(eapply gchain_weaken; [exact G1|exact Q1|lia])) as (A & B & C).
      destruct (replay_journal (j_recs f) sq tabs) as [q1 a1] eqn:ER. cbn [fst snd] in *.
      exists q1, a1. split; [reflexivity|]. split; [exact C|]. split; [exact B|]. split; [exact A|].
      destruct (j_recs f) as [|b0 r0] eqn:ERecs.
      + cbn. lia.
      + assert (TG : gchain sq (b0 :: r0) q1).
        { pose proof (replay_tight (b0 :: r0) c1 c2 sq tabs G1 Q1 ltac:(discriminate)) as X. rewrite ER in X. exact X. }
        eapply gchain_weaken; [eapply (gchain_rebase _ sq T); [exact TG| |discriminate]|apply N.le_refl|lia].
        intros b Hb. cbn in Hb. injection Hb as <-. cbn in G1. lia.
    - exists sq, tabs. rewrite app_nil_r. split; [reflexivity|]. cbn in G1. cbn. repeat split; lia. }
  destruct Q as (q1 & a1 & EQ & Q0 & Q2 & Q3 & GF). rewrite EQ. cbn [fst snd]. subst a1.
  set (A := N.max T q1) in *.
  assert (HA : A <= c2) by (unfold A; lia).
  rewrite <- Elv.
  destruct (replay_gchain lv q1 (p_seq s + 1) (tabs ++ fr) ltac:(eapply gchain_weaken; [exact G2|exact Q2|lia])) as (RA & RB & RC).
  destruct (replay_journal lv q1 (tabs ++ fr)) as [q2 a2] eqn:ER2. cbn [fst snd] in *.
  assert (GL : gchain A lv (q2 + 1)).
  { destruct lv as [|b0 r0] eqn:ELv.
    - cbn in ER2. injection ER2 as <- _. cbn. unfold A. lia.
    - pose proof (replay_tight (b0 :: r0) c2 (p_seq s + 1) q1 (tabs ++ fr) G2 Q2 ltac:(discriminate)) as X.
      rewrite ER2 in X. cbn [fst] in X.
      eapply gchain_weaken; [eapply (gchain_rebase _ q1 A); [exact X| |discriminate]|apply N.le_refl|lia].
      intros b Hb. cbn in Hb. injection Hb as <-. cbn in G2. lia. }
  assert (MarkN : forall j : jfile, j_num (if dur then all_synced j else j) = j_num j) by (intros j; destruct dur; reflexivity).
  assert (MarkR : forall j : jfile, j_recs (if dur then all_synced j else j) = j_recs j) by (intros j; destruct dur; reflexivity).
  assert (Msync : (if dur then length (i_man img) else p_msynced s) = length (i_man img)).
  { destruct dur; [reflexivity|]. destruct (Hdur eq_refl) as [-> Hl]. cbn. lia. }
  constructor; cbn [p_live p_frozen p_fedit p_fseq p_man p_msynced p_seq p_issued p_acked].
  - exists T, A. split; [|split; [|discriminate]].
    + unfold jstart_ok; cbn [p_live p_frozen p_fseq p_seq]. rewrite MarkR, MarkN.
      split; [|rewrite <- Elv; exact GL].
      destruct (fzm jn img dur) as [f|] eqn:EF; [|exact I].
      destruct (fzm_some _ _ _ _ EF) as (f0 & EF0 & IF0 & Ef).
      destruct (FZ _ EF0) as [F1 F2]. cbn [all_synced j_num] in F1, F2.
      assert (Nf : j_num f = j_num f0) by (subst f; destruct dur; reflexivity).
      rewrite <- Efr. split; [exact GF|]. split; [lia|]. split; [unfold A; lia|].
      eapply gchain_weaken; [exact GF|apply N.le_refl|unfold A; lia].
    + unfold man_ok; cbn [p_live p_frozen p_fedit p_man p_msynced]. rewrite Msync, MarkN.
      intros k Hk. assert (k = length (i_man img)) by lia. subst k. rewrite firstn_all. cbn zeta.
      rewrite replay_man_eq in E. cbn [app] in E. injection E as E1 E2 E3.
      assert (X1 : last_jn (i_man img) 0 = jn) by exact E1.
      assert (X2 : last_sq (i_man img) 0 = sq) by exact E2.
      assert (X3 : mtabs (i_man img) = tabs) by exact E3.
      rewrite X1, X2, X3. exists t. split; [exact G0|]. split; [exact T0|]. split; [exact JL|].
      destruct (fzm jn img dur) as [f|] eqn:EF.
      * destruct (fzm_some _ _ _ _ EF) as (f0 & EF0 & IF0 & Ef).
        destruct (FZ _ EF0) as [F1 F2]. cbn [all_synced j_num] in F1.
        assert (Nf : j_num f = j_num f0) by (subst f; destruct dur; reflexivity).
        repeat split; [lia|assumption|assumption].
      * split; unfold A; lia.
  - rewrite Msync. split; [|split; [lia|exact Len1]].
    destruct dur; [cbn; lia|]. destruct (Hdur eq_refl) as [-> _]. cbn. exact S1.
  - discriminate.
  - intros b Hb. rewrite Msync, firstn_all, <- Etabs.
    destruct dur.
    + (* after a crash everything found is durable *)
      destruct (Ack b Hb) as [H|[H|H]].
      * right; right. exact H.
      * right; left. destruct (fzm jn img true) as [f|] eqn:EF; [|subst fr; destruct H].
        exists f. split; [reflexivity|].
        destruct (fzm_some _ _ _ _ EF) as (f0 & _ & _ & ->). cbn [all_synced j_synced j_recs]. rewrite firstn_all.
        rewrite Efr in H. cbn [all_synced j_recs] in H. exact H.
      * left. cbn [all_synced j_synced j_recs]. rewrite firstn_all, <- Elv. exact H.
    + (* clean reopen: files and sync marks unchanged *)
      destruct (Hdur eq_refl) as [Eimg Hl].
      destruct (Ha b Hb) as [H1|[[f0 [Ef H1]]|H1]].
      * left. rewrite Eimg. cbn. exact H1.
      * destruct (FrozAck b f0 Ef H1) as [H|H]; [right; right; exact H|].
        right; left. destruct (fzm jn img false) as [f|] eqn:EF; [|subst fr; destruct H].
        exists f. split; [reflexivity|].
        destruct (fzm_some _ _ _ _ EF) as (f1 & _ & IF1 & ->).
        rewrite Eimg in IF1. cbn in IF1. rewrite Ef in IF1. injection IF1 as <-. exact H1.
      * right; right. apply TabsAck. exact H1.
  - intros b Hb. apply Iss. destruct Hb as [Hb|[Hb|[f [Ef Hb]]]].
    + left. rewrite Etabs. exact Hb.
    + right; right. rewrite Elv. rewrite MarkR in Hb. exact Hb.
    + right; left. rewrite Efr, Ef. exact Hb.
Qed.

Lemma pinv_restart s kl kf km : pinv s -> pinv (pstep s (PRestart kl kf km)).
Proof.
  intros H. cbn [pstep]. apply pinv_restart_gen; [exact H|apply mk_image_is_image; exact H|discriminate].
Qed.

Lemma jprefix_full j : (j_synced j <= length (j_recs j))%nat -> jprefix j (length (j_recs j)) = j.
Proof.
  intros H. unfold jprefix. rewrite firstn_all. replace (Nat.min (length (j_recs j)) (j_synced j)) with (j_synced j) by lia.
  destruct j; reflexivity.
Qed.

Lemma pinv_reopen s : pinv s -> pinv (pstep s PReopen).
Proof.
  intros H. cbn [pstep]. destruct (Nat.eqb (length (p_man s)) (p_msynced s)) eqn:E; [|exact H].
  apply Nat.eqb_eq in E.
  apply pinv_restart_gen; [exact H| |intros _; split; [reflexivity|exact E]].
  (* the full image is admissible *)
  pose proof H as [[fs [ls [[Hf _] _]]] [S1 [S2 S3]] _ _ _].
  unfold is_image, full_image; cbn [i_live i_frozen i_man].
  split; [|split].
  - exists (length (j_recs (p_live s))). split; [exact S1|]. symmetry. apply jprefix_full. exact S1.
  - destruct (p_frozen s) as [f|] eqn:Fz; [|exact I].
    (* the frozen journal's sync mark is within its records: it was the live journal when it was written *)
    exists (Nat.max (length (j_recs f)) (j_synced f)). split; [lia|].
    unfold jprefix. destruct f as [n r sy]; cbn [j_num j_recs j_synced].
    rewrite firstn_all2 by lia. f_equal. lia.
  - exists (length (p_man s)). split; [exact S2|]. rewrite firstn_all. reflexivity.
Qed.

Lemma pinv_step s o : pinv s -> pinv (pstep s o).
Proof.
  intros H. destruct o.
  - apply pinv_write; exact H.
  - apply pinv_syncj; exact H.
  - apply pinv_rotate; exact H.
  - apply pinv_flushedit; exact H.
  - apply pinv_mansync; exact H.
  - apply pinv_drop; exact H.
  - apply pinv_txn; exact H.
  - apply pinv_compact; exact H.
  - apply pinv_skip; exact H.
  - apply pinv_restart; exact H.
  - apply pinv_reopen; exact H.
Qed.

Lemma pinv_run ops : pinv (prun ops).
Proof.
  unfold prun. assert (G : forall s, pinv s -> pinv (fold_left pstep ops s)).
  { induction ops as [|o ops IH]; intros s H; cbn [fold_left]; [exact H|]. apply IH. apply pinv_step. exact H. }
  apply G. apply pinv_init.
Qed.

Theorem crash_safe ops img : is_image (prun ops) img ->
  (forall b, In b (p_acked (prun ops)) -> In b (recover img)) /\
  (forall b, In b (recover img) -> In b (p_issued (prun ops))) /\
  sorted_b (recover img).
Proof. apply crash_safe_inv. apply pinv_run. Qed.

(* the image that keeps everything written (a clean close) is admissible *)
Lemma clean_close_is_image : forall s, pinv s ->
  is_image s (mk_image s (length (j_recs (p_live s)))
                         (match p_frozen s with Some f => length (j_recs f) | None => 0 end)
                         (length (p_man s))).
Proof. intros s H. apply mk_image_is_image. exact H. Qed.
