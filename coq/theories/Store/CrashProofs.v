(* Store/CrashProofs.v — crash safety of the record-level persistence model: after a crash at any point of
   any history, recovery of any admissible image contains every batch acknowledged as durable, only issued
   batches, each at most once, in issue order. *)
From GL Require Import Store.Crash.
From Coq Require Import Arith Lia ZifyN ZifyNat ZifyBool.

(* ---- manifest replay as three independent folds ---- *)
Fixpoint last_jn (es : list medit) (d : N) : N :=
  match es with [] => d | e :: r => last_jn r (match m_jnum e with Some j => j | None => d end) end.
Fixpoint last_sq (es : list medit) (d : N) : N :=
  match es with [] => d | e :: r => last_sq r (match m_seq e with Some q => q | None => d end) end.
Definition mtabs (es : list medit) : list batch := concat (map m_tab es).

Lemma replay_man_eq es jn sq tabs :
  replay_man es jn sq tabs = (last_jn es jn, last_sq es sq, tabs ++ mtabs es).
Proof.
  revert jn sq tabs; induction es as [|e r IH]; intros jn sq tabs; cbn [replay_man last_jn last_sq].
  - unfold mtabs; cbn. rewrite app_nil_r. reflexivity.
  - rewrite IH. unfold mtabs. cbn [map concat]. rewrite app_assoc. reflexivity.
Qed.

Lemma last_jn_app es e d : last_jn (es ++ [e]) d = match m_jnum e with Some j => j | None => last_jn es d end.
Proof. revert d; induction es as [|x r IH]; intros d; cbn [app last_jn]; [reflexivity|apply IH]. Qed.
Lemma last_sq_app es e d : last_sq (es ++ [e]) d = match m_seq e with Some q => q | None => last_sq es d end.
Proof. revert d; induction es as [|x r IH]; intros d; cbn [app last_sq]; [reflexivity|apply IH]. Qed.
Lemma mtabs_app es1 es2 : mtabs (es1 ++ es2) = mtabs es1 ++ mtabs es2.
Proof. unfold mtabs. rewrite map_app, concat_app. reflexivity. Qed.

Lemma mtabs_single e : mtabs [e] = m_tab e.
Proof. unfold mtabs. cbn. apply app_nil_r. Qed.

Lemma firstn_app_le {A} (l1 l2 : list A) k : (k <= length l1)%nat -> firstn k (l1 ++ l2) = firstn k l1.
Proof. intros H. rewrite firstn_app. replace (k - length l1)%nat with 0%nat by lia. cbn. apply app_nil_r. Qed.

Lemma firstn_app_all {A} (l1 l2 : list A) k : k = (length l1 + length l2)%nat -> firstn k (l1 ++ l2) = l1 ++ l2.
Proof. intros ->. rewrite <- app_length. apply firstn_all. Qed.

Lemma firstn_le_app {A} (l : list A) k1 k2 : (k1 <= k2)%nat -> exists r, firstn k2 l = firstn k1 l ++ r.
Proof.
  intros H. exists (skipn k1 (firstn k2 l)).
  rewrite <- (firstn_skipn k1 (firstn k2 l)) at 1. rewrite firstn_firstn.
  replace (Nat.min k1 k2) with k1 by lia. reflexivity.
Qed.

Lemma mtabs_firstn_incl es k1 k2 b : (k1 <= k2)%nat -> In b (mtabs (firstn k1 es)) -> In b (mtabs (firstn k2 es)).
Proof.
  intros H Hb. destruct (firstn_le_app es k1 k2 H) as [r ->]. rewrite mtabs_app. apply in_or_app. left; exact Hb.
Qed.

(* ---- chains of contiguous batches ---- *)
(* chain lo l hi: the batches of l are contiguous, start right after lo and end at hi *)
Fixpoint chain (lo : N) (l : list batch) (hi : N) : Prop :=
  match l with
  | [] => lo = hi
  | b :: r => b_seq b = lo + 1 /\ 1 <= b_n b /\ chain (lo + b_n b) r hi
  end.

Lemma chain_app lo l1 mid l2 hi : chain lo l1 mid -> chain mid l2 hi -> chain lo (l1 ++ l2) hi.
Proof.
  revert lo; induction l1 as [|b r IH]; intros lo H1 H2; cbn [chain app] in *.
  - subst. exact H2.
  - destruct H1 as (A & B & C). repeat split; auto.
Qed.

Lemma chain_snoc lo l hi b : chain lo l hi -> b_seq b = hi + 1 -> 1 <= b_n b -> chain lo (l ++ [b]) (hi + b_n b).
Proof. intros H1 H2 H3. eapply chain_app; [exact H1|]. cbn. auto. Qed.

Lemma chain_le lo l hi : chain lo l hi -> lo <= hi.
Proof.
  revert lo; induction l as [|b r IH]; intros lo H; cbn [chain] in H; [lia|].
  destruct H as (_ & B & C). apply IH in C. lia.
Qed.

Lemma last_some_nonempty (l : list batch) x : last (map Some (x :: l)) None <> None.
Proof.
  revert x; induction l as [|y r IH]; intros x; [cbn; discriminate|].
  change (last (map Some (x :: y :: r)) None) with (last (map Some (y :: r)) None). apply IH.
Qed.

Lemma chain_last lo l hi : chain lo l hi ->
  match last (map Some l) None with Some b => b_last b = hi | None => lo = hi end.
Proof.
  revert lo; induction l as [|b r IH]; intros lo H; cbn [chain map last] in *; [exact H|].
  destruct H as (A & B & C). destruct r as [|b2 r'].
  - cbn in *. subst hi. unfold b_last. lia.
  - cbn [map] in *. specialize (IH _ C).
    pose proof (last_some_nonempty r' b2) as NE. cbn [map] in NE.
    destruct (last (Some b2 :: map Some r') None); [exact IH|congruence].
Qed.

Lemma chain_in_bounds lo l hi b : chain lo l hi -> In b l -> lo < b_seq b /\ b_seq b + b_n b <= hi + 1 /\ 1 <= b_n b.
Proof.
  revert lo; induction l as [|x r IH]; intros lo H Hb; [destruct Hb|].
  cbn [chain] in H. destruct H as (A & B & C). destruct Hb as [->|Hb].
  - pose proof (chain_le _ _ _ C). lia.
  - destruct (IH _ C Hb) as (P & Q & R). lia.
Qed.

(* accepted-by-recovery chains: every batch starts at or after the running sequence number *)
Fixpoint ge_chain (cur : N) (l : list batch) : Prop :=
  match l with
  | [] => True
  | b :: r => cur <= b_seq b /\ ge_chain (b_seq b + b_n b) r
  end.

Lemma chain_ge_chain lo l hi cur : chain lo l hi -> cur <= lo + 1 -> ge_chain cur l.
Proof.
  revert lo cur; induction l as [|b r IH]; intros lo cur H Hc; cbn [chain ge_chain] in *; [exact I|].
  destruct H as (A & B & C). split; [lia|]. eapply IH; [exact C|lia].
Qed.

Lemma ge_chain_firstn cur l k : ge_chain cur l -> ge_chain cur (firstn k l).
Proof.
  revert cur k; induction l as [|b r IH]; intros cur [|k] H; cbn [firstn ge_chain] in *; auto.
  destruct H as [A B]. split; [exact A|apply IH; exact B].
Qed.

Lemma replay_accepts l cur acc : ge_chain cur l ->
  snd (replay_journal l cur acc) = acc ++ l.
Proof.
  revert cur acc; induction l as [|b r IH]; intros cur acc H; cbn [replay_journal]; [cbn; rewrite app_nil_r; reflexivity|].
  destruct H as [A B]. replace (b_seq b <? cur) with false by (symmetry; apply N.ltb_ge; exact A).
  rewrite (IH _ _ B). rewrite <- app_assoc. reflexivity.
Qed.

(* the running number after replaying a prefix of a chain stays within the chain *)
Lemma replay_cur_bound lo l hi cur acc : chain lo l hi -> cur <= lo + 1 -> forall k,
  fst (replay_journal (firstn k l) cur acc) <= hi + 1.
Proof.
  revert lo cur acc; induction l as [|b r IH]; intros lo cur acc H Hc k.
  - cbn in H. subst. destruct k; cbn [firstn replay_journal fst]; lia.
  - cbn [chain] in H. destruct H as (A & B & C). destruct k as [|k]; cbn [firstn replay_journal].
    + cbn [fst]. pose proof (chain_le _ _ _ C). lia.
    + replace (b_seq b <? cur) with false by (symmetry; apply N.ltb_ge; lia).
      eapply IH; [exact C|lia].
Qed.

(* whatever is replayed, the result stays sorted and below the running number (this is what the sequence
   check of decodeBatchToMem buys): no duplicates, issue order *)
Definition below (cur : N) (l : list batch) : Prop := forall b, In b l -> b_seq b + b_n b <= cur.
Fixpoint sorted_b (l : list batch) : Prop :=
  match l with
  | [] => True
  | a :: r => (forall b, In b r -> b_seq a + b_n a <= b_seq b) /\ sorted_b r
  end.

Lemma sorted_b_snoc l b : sorted_b l -> (forall a, In a l -> b_seq a + b_n a <= b_seq b) -> sorted_b (l ++ [b]).
Proof.
  induction l as [|x r IH]; intros H1 H2; cbn [app sorted_b] in *; [split; [intros ? []|exact I]|].
  destruct H1 as [A B]. split.
  - intros y Hy. apply in_app_or in Hy as [Hy|[<-|[]]]; [apply A; exact Hy|apply H2; left; reflexivity].
  - apply IH; [exact B|]. intros a Ha. apply H2. right; exact Ha.
Qed.

Lemma replay_sorted l cur acc : sorted_b acc -> below cur acc ->
  sorted_b (snd (replay_journal l cur acc)) /\ below (fst (replay_journal l cur acc)) (snd (replay_journal l cur acc)).
Proof.
  revert cur acc; induction l as [|b r IH]; intros cur acc Hs Hb; cbn [replay_journal]; [split; assumption|].
  destruct (b_seq b <? cur) eqn:E; [apply IH; assumption|].
  apply N.ltb_ge in E. apply IH.
  - apply sorted_b_snoc; [exact Hs|]. intros a Ha. specialize (Hb a Ha). lia.
  - intros x Hx. apply in_app_or in Hx as [Hx|[<-|[]]]; [specialize (Hb x Hx); nia|lia].
Qed.

Lemma replay_incl l cur acc b : In b (snd (replay_journal l cur acc)) -> In b acc \/ In b l.
Proof.
  revert cur acc; induction l as [|x r IH]; intros cur acc H; cbn [replay_journal] in H; [left; exact H|].
  destruct (b_seq x <? cur).
  - apply IH in H as [H|H]; [left; exact H|right; right; exact H].
  - apply IH in H as [H|H]; [|right; right; exact H].
    apply in_app_or in H as [H|[<-|[]]]; [left; exact H|right; left; reflexivity].
Qed.

Lemma chain_sorted lo l hi : chain lo l hi -> sorted_b l /\ below (hi + 1) l.
Proof.
  revert lo; induction l as [|b r IH]; intros lo H; cbn [chain] in H; [split; [exact I|intros ? []]|].
  destruct H as (A & B & C). destruct (IH _ C) as [S Bl]. split.
  - split; [|exact S]. intros y Hy. destruct (chain_in_bounds _ _ _ y C Hy). lia.
  - intros y [<-|Hy]; [pose proof (chain_le _ _ _ C); lia|apply Bl; exact Hy].
Qed.

(* ---- the invariant of reachable states ---- *)
Definition jstart_ok (s : pstate) (fstart lstart : N) : Prop :=
  match p_frozen s with
  | Some f => chain fstart (j_recs f) lstart /\ j_num f + 1 = j_num (p_live s)
  | None => True
  end /\ chain lstart (j_recs (p_live s)) (p_seq s).

(* what replaying any manifest prefix that contains the durable one yields *)
Definition man_ok (s : pstate) (fstart lstart : N) : Prop :=
  forall k, (p_msynced s <= k <= length (p_man s))%nat ->
    let es := firstn k (p_man s) in
    let jn := last_jn es 0 in let sq := last_sq es 0 in
    chain 0 (mtabs es) sq /\ jn <= j_num (p_live s) /\
    match p_frozen s with
    | None => sq = lstart
    | Some f =>
        if p_fedit s
        then (jn <= j_num f /\ sq = fstart) \/ (jn = j_num (p_live s) /\ sq = lstart /\ incl (j_recs f) (mtabs es))
        else jn <= j_num f /\ sq = fstart
    end.

Record pinv (s : pstate) : Prop := {
  pi_starts : exists fstart lstart, jstart_ok s fstart lstart /\ man_ok s fstart lstart /\
      (* when the flush edit has been appended, replaying the whole manifest reaches the live journal *)
      (p_fedit s = true -> last_jn (p_man s) 0 = j_num (p_live s));
  pi_sync_le : (j_synced (p_live s) <= length (j_recs (p_live s)))%nat /\
               (p_msynced s <= length (p_man s))%nat /\ (1 <= p_msynced s)%nat;
  pi_fedit : p_fedit s = true -> p_frozen s <> None;
  pi_acked : forall b, In b (p_acked s) ->
      In b (firstn (j_synced (p_live s)) (j_recs (p_live s))) \/
      (exists f, p_frozen s = Some f /\ In b (firstn (j_synced f) (j_recs f))) \/
      In b (mtabs (firstn (p_msynced s) (p_man s)));
  pi_issued : forall b, (In b (mtabs (p_man s)) \/ In b (j_recs (p_live s)) \/
                         (exists f, p_frozen s = Some f /\ In b (j_recs f))) -> In b (p_issued s)
}.

Lemma firstn_incl_app {A} (l x : list A) k1 k2 b : (k1 <= k2)%nat -> (k1 <= length l)%nat ->
  In b (firstn k1 l) -> In b (firstn k2 (l ++ x)).
Proof.
  intros H1 H2 Hb. destruct (firstn_le_app (l ++ x) k1 k2 H1) as [r ->].
  rewrite (firstn_app_le l x k1 H2). apply in_or_app. left; exact Hb.
Qed.

Lemma pinv_init : pinv p_init.
Proof.
  constructor; cbn.
  - exists 0, 0. split; [split; [exact I|reflexivity]|]. split; [|discriminate].
    intros k Hk. cbn in Hk. assert (k = 1%nat) by lia. subst k. cbn. repeat split; lia.
  - lia.
  - discriminate.
  - intros b [].
  - intros b [[]|[[]|[f [H _]]]]. discriminate.
Qed.

(* each case of the step function preserves the invariant *)
Lemma pinv_write s n sync : pinv s -> pinv (pstep s (PWrite n sync)).
Proof.
  intros H0. pose proof H0 as [[fs [ls [[Hf Hl] [Hm Hj]]]] [S1 [S2 S3]] Hfe Ha Hi]. cbn [pstep].
  destruct (n =? 0) eqn:En; [exact H0|].
  apply N.eqb_neq in En.
  set (b := {| b_seq := p_seq s + 1; b_n := n |}).
  constructor; cbn [p_live p_frozen p_fedit p_man p_msynced p_seq p_issued p_acked jappend j_num j_recs j_synced].
  - exists fs, ls. split; [split|split].
    + exact Hf.
    + cbn [jappend j_recs]. apply chain_snoc; [exact Hl|reflexivity|cbn; lia].
    + exact Hm.
    + exact Hj.
  - split; [|split; assumption]. rewrite app_length. cbn [length]. destruct sync; lia.
  - exact Hfe.
  - intros x Hx. destruct sync.
    + apply in_app_or in Hx as [Hx|Hx].
      * destruct (Ha x Hx) as [H1|[H1|H1]]; auto. left.
        eapply firstn_incl_app; [|exact S1|exact H1]. rewrite app_length; cbn; lia.
      * destruct Hx as [<-|[]]. left. rewrite firstn_all. apply in_or_app. right; left; reflexivity.
    + destruct (Ha x Hx) as [H1|[H1|H1]]; auto. left.
      eapply firstn_incl_app; [|exact S1|exact H1]. lia.
  - intros x Hx. apply in_or_app. destruct Hx as [Hx|[Hx|Hx]].
    + left. apply Hi. left; exact Hx.
    + apply in_app_or in Hx as [Hx|[<-|[]]]; [left; apply Hi; right; left; exact Hx|right; left; reflexivity].
    + left. apply Hi. right; right; exact Hx.
Qed.

Lemma pinv_syncj s : pinv s -> pinv (pstep s PSyncJournal).
Proof.
  intros [[fs [ls [[Hf Hl] [Hm Hj]]]] [S1 [S2 S3]] Hfe Ha Hi]. cbn [pstep].
  constructor; cbn [p_live p_frozen p_fedit p_man p_msynced p_seq p_issued p_acked j_num j_recs j_synced].
  - exists fs, ls. exact (conj (conj Hf Hl) (conj Hm Hj)).
  - split; [lia|split; assumption].
  - exact Hfe.
  - intros x Hx. destruct (Ha x Hx) as [H1|[H1|H1]]; auto. left. rewrite firstn_all.
    rewrite <- (firstn_skipn (j_synced (p_live s)) (j_recs (p_live s))). apply in_or_app. left; exact H1.
  - exact Hi.
Qed.

Ltac psimp := unfold man_ok, jstart_ok in *;
  cbn [p_live p_frozen p_fedit p_man p_msynced p_seq p_issued p_acked j_num j_recs j_synced] in *.

Lemma pinv_rotate s : pinv s -> pinv (pstep s PRotate).
Proof.
  intros H0. pose proof H0 as [[fs [ls [[Hf Hl] [Hm Hj]]]] [S1 [S2 S3]] Hfe Ha Hi]. cbn [pstep].
  destruct (p_frozen s) as [f|] eqn:Fz; [exact H0|].
  constructor; cbn [p_live p_frozen p_fedit p_man p_msynced p_seq p_issued p_acked j_num j_recs j_synced].
  - exists ls, (p_seq s). split; [split; [split; [exact Hl|reflexivity]|reflexivity]|]. split; [|discriminate].
    psimp. intros k Hk. specialize (Hm k Hk). rewrite Fz in Hm. cbn zeta in *.
    destruct Hm as (M1 & M2 & M3). split; [exact M1|]. split; [lia|]. split; [exact M2|exact M3].
  - split; [cbn; lia|split; assumption].
  - discriminate.
  - intros x Hx. destruct (Ha x Hx) as [H1|[[f [H1 _]]|H1]]; [|congruence|auto].
    right; left. exists (p_live s). split; [reflexivity|exact H1].
  - intros x [Hx|[[]|[f [Hf' Hx]]]]; [apply Hi; left; exact Hx|].
    injection Hf' as <-. apply Hi. right; left; exact Hx.
Qed.

Lemma last_in_list (l : list batch) bl : last (map Some l) None = Some bl -> In bl l.
Proof.
  induction l as [|y l IH]; cbn [map last]; [discriminate|].
  destruct l as [|z l']; cbn [map] in *; [intros H; injection H as <-; left; reflexivity|].
  intros H. right. apply IH. exact H.
Qed.

Lemma pinv_flushedit s : pinv s -> pinv (pstep s PFlushEdit).
Proof.
  intros H0. pose proof H0 as [[fs [ls [[Hf Hl] [Hm Hj]]]] [S1 [S2 S3]] Hfe Ha Hi]. cbn [pstep].
  destruct (p_frozen s) as [f|] eqn:Fz; [|exact H0].
  destruct (last (map Some (j_recs f)) None) as [bl|] eqn:L; [|exact H0].
  destruct (p_fedit s) eqn:Fe; [exact H0|].
  destruct Hf as [Hfc Hfn].
  assert (Hbl : b_last bl = ls) by (pose proof (chain_last _ _ _ Hfc) as X; rewrite L in X; exact X).
  set (e := {| m_jnum := Some (j_num (p_live s)); m_seq := Some (b_last bl); m_tab := j_recs f |}).
  assert (Full := Hm (length (p_man s)) (conj S2 (le_n _))). rewrite Fz, Fe, firstn_all in Full. cbn zeta in Full.
  destruct Full as (F1 & F2 & F3 & F4).
  constructor; cbn [p_live p_frozen p_fedit p_man p_msynced p_seq p_issued p_acked].
  - exists fs, ls. split; [split; [split; assumption|exact Hl]|]. split.
    + psimp. intros k Hk. rewrite app_length in Hk. cbn [length] in Hk. cbn zeta.
      destruct (Nat.eq_dec k (length (p_man s) + 1)) as [->|Hne].
      * rewrite firstn_app_all by reflexivity. rewrite last_jn_app, last_sq_app, mtabs_app. cbn [e m_jnum m_seq].
        rewrite !mtabs_single. cbn [e m_tab].
        split; [rewrite Hbl; eapply chain_app; [rewrite F4 in F1; exact F1|exact Hfc]|].
        split; [lia|]. right. split; [reflexivity|]. split; [exact Hbl|].
        intros x Hx. apply in_or_app. right; exact Hx.
      * rewrite firstn_app_le by lia. assert (Hk' : (p_msynced s <= k <= length (p_man s))%nat) by lia.
        specialize (Hm k Hk'). rewrite Fz, Fe in Hm. cbn zeta in Hm. destruct Hm as (M1 & M2 & M3 & M4).
        split; [exact M1|]. split; [exact M2|]. left. split; assumption.
    + intros _. rewrite last_jn_app. reflexivity.
  - split; [exact S1|]. split; [rewrite app_length; cbn; lia|exact S3].
  - intros _. congruence.
  - intros x Hx. destruct (Ha x Hx) as [H1|[H1|H1]]; auto. right; right.
    rewrite firstn_app_le by exact S2. exact H1.
  - intros x [Hx|[Hx|[f' [Hf' Hx]]]].
    + rewrite mtabs_app in Hx. apply in_app_or in Hx as [Hx|Hx]; [apply Hi; left; exact Hx|].
      rewrite mtabs_single in Hx. cbn [e m_tab] in Hx.
      apply Hi. right; right. exists f. split; [reflexivity|exact Hx].
    + apply Hi. right; left; exact Hx.
    + apply Hi. right; right. exists f'. split; assumption.
Qed.

Lemma pinv_mansync s : pinv s -> pinv (pstep s PManSync).
Proof.
  intros [[fs [ls [[Hf Hl] [Hm Hj]]]] [S1 [S2 S3]] Hfe Ha Hi]. cbn [pstep].
  constructor; cbn [p_live p_frozen p_fedit p_man p_msynced p_seq p_issued p_acked].
  - exists fs, ls. split; [exact (conj Hf Hl)|]. split; [|exact Hj].
    psimp. intros k Hk. apply Hm. lia.
  - split; [exact S1|]. split; [lia|lia].
  - exact Hfe.
  - intros x Hx. destruct (Ha x Hx) as [H1|[H1|H1]]; auto. right; right.
    eapply mtabs_firstn_incl; [exact S2|exact H1].
  - exact Hi.
Qed.

Lemma pinv_compact s : pinv s -> pinv (pstep s PCompactEdit).
Proof.
  intros [[fs [ls [[Hf Hl] [Hm Hj]]]] [S1 [S2 S3]] Hfe Ha Hi]. cbn [pstep].
  set (e := {| m_jnum := None; m_seq := None; m_tab := [] |}).
  constructor; cbn [p_live p_frozen p_fedit p_man p_msynced p_seq p_issued p_acked].
  - exists fs, ls. split; [exact (conj Hf Hl)|]. split.
    + psimp. intros k Hk. rewrite app_length in Hk. cbn [length] in Hk. cbn zeta.
      destruct (Nat.eq_dec k (length (p_man s) + 1)) as [->|Hne].
      * rewrite firstn_app_all by reflexivity. rewrite last_jn_app, last_sq_app, mtabs_app. cbn [e m_jnum m_seq].
        rewrite !mtabs_single. cbn [e m_tab]. rewrite !app_nil_r.
        assert (Full := Hm (length (p_man s)) (conj S2 (le_n _))). rewrite firstn_all in Full. exact Full.
      * rewrite firstn_app_le by lia. apply Hm. lia.
    + intros Fe. rewrite last_jn_app. cbn. apply Hj. exact Fe.
  - split; [exact S1|]. split; [rewrite app_length; cbn; lia|exact S3].
  - exact Hfe.
  - intros x Hx. destruct (Ha x Hx) as [H1|[H1|H1]]; auto. right; right.
    rewrite firstn_app_le by exact S2. exact H1.
  - intros x [Hx|Hx]; [|apply Hi; right; exact Hx].
    rewrite mtabs_app, mtabs_single in Hx. cbn [e m_tab] in Hx. rewrite app_nil_r in Hx. apply Hi. left; exact Hx.
Qed.

Lemma pinv_drop s : pinv s -> pinv (pstep s PDropFrozen).
Proof.
  intros H0. pose proof H0 as [[fs [ls [[Hf Hl] [Hm Hj]]]] [S1 [S2 S3]] Hfe Ha Hi]. cbn [pstep].
  match goal with |- pinv (if ?c then _ else _) => destruct c eqn:Cond end; [|exact H0].
  destruct (p_frozen s) as [f|] eqn:Fz.
  2:{ (* no frozen journal: the flag cannot be set *)
      cbn in Cond. destruct (p_fedit s) eqn:Fe; [exfalso; apply (Hfe eq_refl); reflexivity|discriminate]. }
  destruct Hf as [Hfc Hfn].
  (* in both admissible situations every manifest prefix in range now points at the live journal's start *)
  assert (Key : forall k, (p_msynced s <= k <= length (p_man s))%nat ->
            chain 0 (mtabs (firstn k (p_man s))) (last_sq (firstn k (p_man s)) 0) /\
            last_jn (firstn k (p_man s)) 0 <= j_num (p_live s) /\ last_sq (firstn k (p_man s)) 0 = ls).
  { intros k Hk. specialize (Hm k Hk). psimp. cbn zeta in Hm. rewrite Fz in Hm. destruct Hm as (M1 & M2 & M3).
    split; [exact M1|]. split; [exact M2|].
    apply orb_prop in Cond as [Cond|Cond].
    - (* empty frozen journal: its start is the live journal's start *)
      destruct (j_recs f) eqn:R; [|discriminate]. cbn in Hfc. subst ls.
      destruct (p_fedit s); [destruct M3 as [[_ M3]|[_ [M3 _]]]; exact M3|destruct M3 as [_ M3]; exact M3].
    - apply andb_prop in Cond as [Fe Len]. rewrite Fe in M3. apply Nat.eqb_eq in Len.
      assert (k = length (p_man s)) by lia. subst k. rewrite firstn_all in *.
      specialize (Hj Fe). destruct M3 as [[M3 _]|[_ [M3 _]]]; [lia|exact M3]. }
  constructor; cbn [p_live p_frozen p_fedit p_man p_msynced p_seq p_issued p_acked].
  - exists fs, ls. split; [split; [exact I|exact Hl]|]. split; [|discriminate].
    psimp. intros k Hk. cbn zeta. destruct (Key k Hk) as (K1 & K2 & K3). auto.
  - auto.
  - discriminate.
  - intros x Hx. destruct (Ha x Hx) as [H1|[[f' [Ef H1]]|H1]]; auto.
    injection Ef as <-. right; right.
    apply orb_prop in Cond as [Cond|Cond].
    + destruct (j_recs f); [rewrite firstn_nil in H1; destruct H1|discriminate].
    + apply andb_prop in Cond as [Fe Len]. apply Nat.eqb_eq in Len. rewrite <- Len, firstn_all.
      assert (Full := Hm (length (p_man s)) (conj S2 (le_n _))). psimp. rewrite Fz, Fe, firstn_all in Full. cbn zeta in Full.
      destruct Full as (_ & _ & [[F _]|[_ [_ F]]]).
      * specialize (Hj Fe). lia.
      * apply F. rewrite <- (firstn_skipn (j_synced f) (j_recs f)). apply in_or_app. left; exact H1.
  - intros x [Hx|[Hx|[f' [Ef _]]]]; [apply Hi; left; exact Hx|apply Hi; right; left; exact Hx|discriminate].
Qed.

Lemma pinv_txn s n : pinv s -> pinv (pstep s (PTxnCommit n)).
Proof.
  intros H0. pose proof H0 as [[fs [ls [[Hf Hl] [Hm Hj]]]] [S1 [S2 S3]] Hfe Ha Hi]. cbn [pstep].
  destruct (p_frozen s) as [f|] eqn:Fz; [exact H0|].
  destruct (j_recs (p_live s)) as [|r0 rs] eqn:Lr; [|exact H0].
  destruct (n =? 0) eqn:En; [exact H0|]. apply N.eqb_neq in En.
  cbn in Hl. subst ls.
  set (b := {| b_seq := p_seq s + 1; b_n := n |}).
  set (e := {| m_jnum := None; m_seq := Some (p_seq s + n); m_tab := [b] |}).
  assert (Full := Hm (length (p_man s)) (conj S2 (le_n _))). psimp. rewrite Fz, firstn_all in Full. cbn zeta in Full.
  destruct Full as (F1 & F2 & F3).
  constructor; cbn [p_live p_frozen p_fedit p_man p_msynced p_seq p_issued p_acked].
  - exists fs, (p_seq s + n). split; [split; [exact I|psimp; rewrite Lr; reflexivity]|]. split; [|discriminate].
    psimp. intros k Hk. rewrite app_length in Hk. cbn [length] in Hk.
    assert (k = (length (p_man s) + 1)%nat) by lia. subst k. cbn zeta.
    rewrite firstn_app_all by reflexivity. rewrite last_jn_app, last_sq_app, mtabs_app, mtabs_single. cbn [e m_jnum m_seq m_tab].
    split; [|split; [exact F2|reflexivity]].
    eapply chain_app; [exact F1|]. rewrite F3. cbn. repeat split; lia.
  - split; [rewrite Lr; exact S1|]. rewrite app_length. cbn. lia.
  - discriminate.
  - intros x Hx. right; right.
    replace (S (length (p_man s))) with (length (p_man s) + 1)%nat by lia.
    rewrite firstn_app_all by reflexivity. rewrite mtabs_app, mtabs_single. cbn [e m_tab].
    apply in_app_or in Hx as [Hx|[<-|[]]]; [|apply in_or_app; right; left; reflexivity].
    destruct (Ha x Hx) as [H1|[[f' [Ef _]]|H1]]; [|discriminate|].
    + rewrite firstn_nil in H1. destruct H1.
    + apply in_or_app. left. rewrite <- (firstn_all (p_man s)). eapply mtabs_firstn_incl; [exact S2|exact H1].
  - intros x Hx. apply in_or_app. destruct Hx as [Hx|[Hx|[f' [Ef _]]]]; [| |discriminate].
    + rewrite mtabs_app, mtabs_single in Hx. cbn [e m_tab] in Hx.
      apply in_app_or in Hx as [Hx|[<-|[]]]; [left; apply Hi; left; exact Hx|right; left; reflexivity].
    + rewrite Lr in Hx. destruct Hx.
Qed.

Lemma pinv_step s o : pinv s -> pinv (pstep s o).
Proof.
  intros H. destruct o.
  - apply pinv_write; exact H.
  - apply pinv_syncj; exact H.
  - apply pinv_rotate; exact H.
  - apply pinv_flushedit; exact H.
  - apply pinv_mansync; exact H.
  - apply pinv_drop; exact H.
  - apply pinv_txn; exact H.
  - apply pinv_compact; exact H.
Qed.

Lemma pinv_run ops : pinv (prun ops).
Proof.
  unfold prun. assert (G : forall s, pinv s -> pinv (fold_left pstep ops s)).
  { induction ops as [|o ops IH]; intros s H; cbn [fold_left]; [exact H|]. apply IH. apply pinv_step. exact H. }
  apply G. apply pinv_init.
Qed.

(* ---- recovery of an image ---- *)
Lemma firstn_min_len {A} (l : list A) k : firstn k l = firstn (Nat.min k (length l)) l.
Proof.
  destruct (Nat.le_gt_cases k (length l)) as [H|H].
  - replace (Nat.min k (length l)) with k by lia. reflexivity.
  - replace (Nat.min k (length l)) with (length l) by lia. rewrite firstn_all. apply firstn_all2. lia.
Qed.

Lemma jprefix_recs j k : j_recs (jprefix j k) = firstn k (j_recs j).
Proof. reflexivity. Qed.

Lemma in_firstn {A} (l : list A) k x : In x (firstn k l) -> In x l.
Proof. intros H. rewrite <- (firstn_skipn k l). apply in_or_app. left; exact H. Qed.

Lemma in_firstn_mono {A} (l : list A) k1 k2 x : (k1 <= k2)%nat -> In x (firstn k1 l) -> In x (firstn k2 l).
Proof. intros H Hx. destruct (firstn_le_app l k1 k2 H) as [r ->]. apply in_or_app. left; exact Hx. Qed.

Lemma sorted_b_app l1 l2 : sorted_b l1 -> sorted_b l2 ->
  (forall a b, In a l1 -> In b l2 -> b_seq a + b_n a <= b_seq b) -> sorted_b (l1 ++ l2).
Proof.
  induction l1 as [|x r IH]; intros H1 H2 H3; cbn [app sorted_b] in *; [exact H2|].
  destruct H1 as [A B]. split.
  - intros y Hy. apply in_app_or in Hy as [Hy|Hy]; [apply A; exact Hy|apply H3; [left; reflexivity|exact Hy]].
  - apply IH; [exact B|exact H2|]. intros a b Ha Hb. apply H3; [right; exact Ha|exact Hb].
Qed.

Lemma sorted_b_firstn l k : sorted_b l -> sorted_b (firstn k l).
Proof.
  revert k; induction l as [|x r IH]; intros [|k] H; cbn [firstn sorted_b] in *; auto.
  destruct H as [A B]. split; [|apply IH; exact B]. intros y Hy. apply A. eapply in_firstn; exact Hy.
Qed.

(* tables followed by a prefix of a journal chain that starts at or after the tables' end *)
Lemma sorted_tabs_journal tabs sq a X b k : chain 0 tabs sq -> sq <= a -> chain a X b ->
  sorted_b (tabs ++ firstn k X).
Proof.
  intros H1 H2 H3. destruct (chain_sorted _ _ _ H1) as [S1 B1]. destruct (chain_sorted _ _ _ H3) as [S3 _].
  apply sorted_b_app; [exact S1|apply sorted_b_firstn; exact S3|].
  intros x y Hx Hy. specialize (B1 x Hx). apply in_firstn in Hy.
  destruct (chain_in_bounds _ _ _ y H3 Hy) as (P & _ & _). lia.
Qed.

(* Crash safety: for every history of the model and every admissible crash image of the state it reaches,
   recovery (manifest replay, then journal replay with the sequence check) yields a list of batches that
   (1) contains every batch acknowledged as durable, (2) contains only issued batches, (3) is strictly
   ordered by sequence number — i.e. the recovered contents are what a subset of the issued batches, applied
   in their original order, each at most once, produces. *)
Theorem crash_safe ops img : is_image (prun ops) img ->
  (forall b, In b (p_acked (prun ops)) -> In b (recover img)) /\
  (forall b, In b (recover img) -> In b (p_issued (prun ops))) /\
  sorted_b (recover img).
Proof.
  set (s := prun ops). intros [[kl [Hkl Il]] [Ifz [km [Hkm Im]]]].
  destruct (pinv_run ops) as [[fs [ls [[Hf Hl] [Hm Hj]]]] [S1 [S2 S3]] Hfe Ha Hi]. fold s in Hf, Hl, Hm, Hj, S1, S2, S3, Hfe, Ha, Hi.
  unfold recover. rewrite Im, replay_man_eq. cbn [app].
  rewrite (firstn_min_len (p_man s) km).
  set (k := Nat.min km (length (p_man s))).
  assert (Hk : (p_msynced s <= k <= length (p_man s))%nat) by (unfold k; lia).
  specialize (Hm k Hk). cbn zeta in Hm. destruct Hm as (M1 & M2 & M3).
  set (es := firstn k (p_man s)) in *.
  set (jn := last_jn es 0) in *. set (sq := last_sq es 0) in *.
  rewrite Il.
  assert (Tissued : forall b, In b (mtabs es) -> In b (p_issued s)).
  { intros b Hb. apply Hi. left. unfold es in Hb. rewrite <- (firstn_all (p_man s)).
    eapply mtabs_firstn_incl; [|exact Hb]. lia. }
  assert (TabsAck : forall b, In b (mtabs (firstn (p_msynced s) (p_man s))) -> In b (mtabs es)).
  { intros b Hb. unfold es. eapply mtabs_firstn_incl; [|exact Hb]. lia. }
  assert (LiveIss : forall b, In b (firstn kl (j_recs (p_live s))) -> In b (p_issued s)).
  { intros b Hb. apply Hi. right; left. eapply in_firstn. exact Hb. }
  (* the common ending when only the live journal is replayed, starting at sq <= ls *)
  assert (OnlyLive : sq <= ls ->
    (forall b, In b (p_acked s) -> In b (firstn (j_synced (p_live s)) (j_recs (p_live s))) \/ In b (mtabs es)) ->
    let r := snd (replay_journal (firstn kl (j_recs (p_live s))) sq (mtabs es)) in
    (forall b, In b (p_acked s) -> In b r) /\ (forall b, In b r -> In b (p_issued s)) /\ sorted_b r).
  { intros Sq AckIn r.
    assert (GL : ge_chain sq (firstn kl (j_recs (p_live s)))).
    { apply ge_chain_firstn. eapply chain_ge_chain; [exact Hl|lia]. }
    pose proof (replay_accepts _ sq (mtabs es) GL) as RL. unfold r. rewrite RL.
    split; [|split].
    - intros b Hb. destruct (AckIn b Hb) as [H1|H1]; apply in_or_app;
        [right; eapply in_firstn_mono; [exact Hkl|exact H1]|left; exact H1].
    - intros b Hb. apply in_app_or in Hb as [Hb|Hb]; [apply Tissued; exact Hb|apply LiveIss; exact Hb].
    - eapply sorted_tabs_journal; [exact M1|exact Sq|exact Hl]. }
  destruct (p_frozen s) as [f|] eqn:Fz.
  - (* a frozen journal exists *)
    destruct Hf as [Hfc Hfn].
    assert (Cases : (jn <= j_num f /\ sq = fs) \/ (jn = j_num (p_live s) /\ sq = ls /\ incl (j_recs f) (mtabs es))).
    { destruct (p_fedit s); [exact M3|left; exact M3]. }
    destruct (i_frozen img) as [f'|] eqn:IF.
    + destruct Ifz as [kf [Hkf ->]].
      destruct Cases as [[C1 C2]|[C1 [C2 C3]]].
      * (* both journals are replayed *)
        cbn [app filter]. cbn [jprefix j_num].
        replace (jn <=? j_num f) with true by (symmetry; apply N.leb_le; exact C1).
        replace (jn <=? j_num (p_live s)) with true by (symmetry; apply N.leb_le; exact M2).
        cbn [fold_left fst snd j_recs jprefix].
        assert (GF : ge_chain sq (firstn kf (j_recs f))).
        { apply ge_chain_firstn. eapply chain_ge_chain; [exact Hfc|lia]. }
        pose proof (replay_accepts _ sq (mtabs es) GF) as RA.
        pose proof (replay_cur_bound fs (j_recs f) ls sq (mtabs es) Hfc ltac:(lia) kf) as RC.
        destruct (replay_journal (firstn kf (j_recs f)) sq (mtabs es)) as [c1 a1] eqn:E1. cbn [fst snd] in *. subst a1.
        assert (GL : ge_chain c1 (firstn kl (j_recs (p_live s)))).
        { apply ge_chain_firstn. eapply chain_ge_chain; [exact Hl|exact RC]. }
        rewrite (replay_accepts _ c1 (mtabs es ++ firstn kf (j_recs f)) GL).
        split; [|split].
        { intros b Hb. destruct (Ha b Hb) as [H1|[[f0 [Ef H1]]|H1]].
          - apply in_or_app. right. eapply in_firstn_mono; [exact Hkl|exact H1].
          - injection Ef as <-. apply in_or_app. left. apply in_or_app. right. eapply in_firstn_mono; [exact Hkf|exact H1].
          - apply in_or_app. left. apply in_or_app. left. apply TabsAck. exact H1. }
        { intros b Hb. apply in_app_or in Hb as [Hb|Hb]; [|apply LiveIss; exact Hb].
          apply in_app_or in Hb as [Hb|Hb]; [apply Tissued; exact Hb|].
          apply Hi. right; right. exists f. split; [reflexivity|eapply in_firstn; exact Hb]. }
        { destruct (chain_sorted _ _ _ Hl) as [SL _].
          apply sorted_b_app; [eapply sorted_tabs_journal; [exact M1| |exact Hfc]; lia|apply sorted_b_firstn; exact SL|].
          intros x y Hx Hy. apply in_firstn in Hy. destruct (chain_in_bounds _ _ _ y Hl Hy) as (P & _ & _).
          apply in_app_or in Hx as [Hx|Hx].
          - destruct (chain_sorted _ _ _ M1) as [_ TB]. specialize (TB x Hx). pose proof (chain_le _ _ _ Hfc). lia.
          - apply in_firstn in Hx. destruct (chain_in_bounds _ _ _ x Hfc Hx) as (_ & Q & _). lia. }
      * (* the manifest prefix already contains the flush edit: only the live journal is replayed *)
        cbn [app filter]. cbn [jprefix j_num].
        replace (jn <=? j_num f) with false by (symmetry; apply N.leb_gt; lia).
        replace (jn <=? j_num (p_live s)) with true by (symmetry; apply N.leb_le; exact M2).
        cbn [fold_left fst snd j_recs jprefix].
        apply OnlyLive; [lia|]. intros b Hb. destruct (Ha b Hb) as [H1|[[f0 [Ef H1]]|H1]]; [left; exact H1| |right; apply TabsAck; exact H1].
        injection Ef as <-. right. apply C3. eapply in_firstn. exact H1.
    + (* the frozen journal file vanished: it had no durable record *)
      cbn [app filter]. cbn [jprefix j_num].
      replace (jn <=? j_num (p_live s)) with true by (symmetry; apply N.leb_le; exact M2).
      cbn [fold_left fst snd j_recs jprefix].
      apply OnlyLive.
      * destruct Cases as [[_ C2]|[_ [C2 _]]]; [pose proof (chain_le _ _ _ Hfc); lia|lia].
      * intros b Hb. destruct (Ha b Hb) as [H1|[[f0 [Ef H1]]|H1]]; [left; exact H1| |right; apply TabsAck; exact H1].
        injection Ef as <-. rewrite Ifz in H1. cbn in H1. destruct H1.
  - (* no frozen journal *)
    destruct (i_frozen img) as [f'|]; [destruct Ifz|].
    cbn [app filter]. cbn [jprefix j_num].
    replace (jn <=? j_num (p_live s)) with true by (symmetry; apply N.leb_le; exact M2).
    cbn [fold_left fst snd j_recs jprefix].
    apply OnlyLive; [lia|]. intros b Hb. destruct (Ha b Hb) as [H1|[[f0 [Ef H1]]|H1]]; [left; exact H1|discriminate|right; apply TabsAck; exact H1].
Qed.

(* the image that keeps everything written (a clean close) is admissible *)
Lemma clean_close_is_image : forall s, pinv s ->
  is_image s (mk_image s (length (j_recs (p_live s)))
                         (match p_frozen s with Some f => length (j_recs f) | None => 0 end)
                         (length (p_man s))).
Proof.
  intros s [_ [S1 [S2 S3]] _ _ _]. unfold is_image, mk_image; cbn [i_live i_frozen i_man].
  split; [|split].
  - exists (Nat.max (length (j_recs (p_live s))) (j_synced (p_live s))). split; [lia|reflexivity].
  - destruct (p_frozen s) as [f|]; cbn [option_map]; [|exact I].
    exists (Nat.max (length (j_recs f)) (j_synced f)). split; [lia|reflexivity].
  - exists (Nat.max (length (p_man s)) (p_msynced s)). split; [lia|reflexivity].
Qed.
