(* Store/Sweep.v — the janitor and the deletions that do not go through the reference loop.
   Model file: definitions only (proofs: Store/SweepProofs.v, Store/SweepInv.v).

   Go code modelled (leveldb/):
     db_util.go      checkAndCleanFiles  — jkeep / janitor / the sequential Remove loop that stops at the first error
     db.go           recoverJournal      — which journals are replayed (fd.Num >= stJournalNum || fd.Num == stPrevJournalNum),
                                           markFileNum, per replayed journal: flush, commit, Remove of the previous one;
                                           newMem(0); last commit; Remove of the last one.   openDB: recoverJournal, janitor
     db_state.go     newMem (rotation), dropFrozenMem
     db_compaction.go memCompaction / tableCompaction as jobs: build (tOps.create, tWriter.finish / drop), commit
                                           (retried), revert when the job exits while building (stops at the first failing
                                           Remove), nothing removed when it exits while committing
     table.go        tOps.create, tWriter.finish, tWriter.drop (Remove, then reuseFileNum), tOps.remove (through the file
                                           cache: a removal requested while readers hold the table runs when the last one lets
                                           go; the Remove error is only logged; reuseFileNum when no cached block can survive)
     db_transaction.go Commit (one attempt = one OCommit), discard (after a failed commit: a fresh manifest first when the
                                           manifest writer is marked failed; the tables are kept if that fails too)
     session.go      commit: newManifest when there is no writer yet / the writer is marked failed / the size bound is
                                           reached (an oracle flag), flushManifest otherwise; session_util.go newManifest
                                           (snapshot record, CURRENT switched, old manifest removed — its error only logged),
                                           allocFileNum / reuseFileNum / markFileNum, recordCommited
   The table-file reference loop itself is Conc/RefLoop.v: here it is the step OLoopRemove, enabled only for a table
   that is in no version a reader can still reach — what C07_files_safe_end_to_end proves of the loop.

   What a later session.recover would compute from the storage is carried as [views]: normally one view; after a
   manifest record was written but its write or sync failed, two (the record may or may not be found).  "Needed" is
   defined from the views: a table some view names, a journal recoverJournal would select under some view, the
   manifest some view was read from; plus the tables of the current version, of replaced versions readers still hold,
   and tables an open reader holds through the file cache.  Every Remove call is logged together with the verdict
   [needed] at the moment of the call. *)
From Coq Require Import NArith List Bool.
Import ListNotations.
Open Scope N_scope.

(* ---------- file descriptors and listings ---------- *)

Inductive ftype := FManifest | FJournal | FTable | FTemp.
Definition fd : Type := (ftype * N)%type.

Definition ftype_eqb (a b : ftype) : bool :=
  match a, b with
  | FManifest, FManifest | FJournal, FJournal | FTable, FTable | FTemp, FTemp => true
  | _, _ => false
  end.
Definition fd_eqb (a b : fd) : bool := ftype_eqb (fst a) (fst b) && (snd a =? snd b).

Definition fmem (l : list fd) (x : fd) : bool := existsb (fd_eqb x) l.
Definition fdel (l : list fd) (x : fd) : list fd := filter (fun y => negb (fd_eqb x y)) l.
(* Create truncates an existing file: the listing does not change *)
Definition fadd (l : list fd) (x : fd) : list fd := if fmem l x then l else x :: l.

Definition nmem (l : list N) (x : N) : bool := existsb (N.eqb x) l.
Definition ndel (l : list N) (x : N) : list N := filter (fun y => negb (x =? y)) l.
Fixpoint ndedup (l : list N) : list N :=
  match l with
  | [] => []
  | x :: l' => if nmem l' x then ndedup l' else x :: ndedup l'
  end.
Fixpoint ninsert (x : N) (l : list N) : list N :=
  match l with
  | [] => [x]
  | y :: l' => if x <=? y then x :: l else y :: ninsert x l'
  end.
Definition nsort (l : list N) : list N := fold_right ninsert [] l.

(* ---------- db_util.go: checkAndCleanFiles ---------- *)

(* what the janitor reads: the tables of the current version (all levels), s.manifestFd.Num, db.journalFd.Num,
   db.frozenJournalFd (None = Zero()) *)
Record jstate := { js_tabs : list N; js_manifest : N; js_journal : N; js_frozen : option N }.

Definition jkeep (s : jstate) (f : fd) : bool :=
  match fst f with
  | FManifest => snd f =? js_manifest s
  | FJournal => match js_frozen s with
                | Some z => z <=? snd f
                | None => js_journal s <=? snd f
                end
  | FTable => nmem (js_tabs s) (snd f)
  | FTemp => false
  end.

(* nt: listed table files that the version names; len(tmap): distinct table numbers of the version *)
Definition jan_nt (s : jstate) (l : list fd) : nat :=
  length (filter (fun f => ftype_eqb (fst f) FTable && nmem (js_tabs s) (snd f)) l).

Inductive jplan :=
| JMissing (ts : list N)      (* ErrCorrupted{ErrMissingFiles}: nothing is removed *)
| JRemove (rem : list fd).    (* the Remove calls, in listing order *)

Definition janitor (s : jstate) (l : list fd) : jplan :=
  if Nat.eqb (jan_nt s l) (length (ndedup (js_tabs s)))
  then JRemove (filter (fun f => negb (jkeep s f)) l)
  else JMissing (filter (fun t => negb (fmem l (FTable, t))) (ndedup (js_tabs s))).

(* for _, fd := range rem { if err := Remove(fd); err != nil { return err } }: the calls issued, the listing
   afterwards, whether the loop ran to its end.  bad: the files whose Remove fails *)
Fixpoint rm_seq (fs rem bad : list fd) : list fd * list fd * bool :=
  match rem with
  | [] => ([], fs, true)
  | f :: rem' =>
      if fmem bad f || negb (fmem fs f) then ([f], fs, false)
      else let '(calls, fs', ok) := rm_seq (fdel fs f) rem' bad in (f :: calls, fs', ok)
  end.

(* ---------- what session.recover computes; db.go recoverJournal's choice ---------- *)

(* the version's tables, stJournalNum, stPrevJournalNum (None: no record carries the field; the Go field then
   holds 0), stNextFileNum, and the manifest CURRENT names *)
Record view := { v_tabs : list N; v_jnum : N; v_prev : option N; v_next : N; v_man : N }.

Definition pjn (v : view) : N := match v_prev v with Some p => p | None => 0 end.

(* fd.Num >= db.s.stJournalNum || fd.Num == db.s.stPrevJournalNum *)
Definition jsel (jn pj n : N) : bool := (jn <=? n) || (n =? pj).

Definition journals_of (l : list fd) : list N :=
  map snd (filter (fun f => ftype_eqb (fst f) FJournal) l).

(* the journals recoverJournal replays, in the order it replays them *)
Definition rj_select (jn pj : N) (l : list fd) : list N :=
  filter (jsel jn pj) (nsort (journals_of l)).

(* ---------- the running DB ---------- *)

Inductive jkind := KFlush | KComp | KTxn.
Definition jkind_eqb (a b : jkind) : bool :=
  match a, b with KFlush, KFlush | KComp, KComp | KTxn, KTxn => true | _, _ => false end.

(* where a table that the process knows of stands *)
Inductive tclass :=
| CTab                (* in the current version *)
| CObs                (* left the versions; the reference loop has not asked for its removal yet *)
| CPend               (* removal requested through the file cache, waiting for the last reader *)
| CCur (k : jkind)    (* being written by job k (tWriter open) *)
| COut (k : jkind).   (* finished by job k, listed in its record, not committed *)

Definition is_tab (c : tclass) : bool := match c with CTab => true | _ => false end.
Definition is_obs (c : tclass) : bool := match c with CObs => true | _ => false end.
Definition is_pend (c : tclass) : bool := match c with CPend => true | _ => false end.
Definition is_cur (k : jkind) (c : tclass) : bool := match c with CCur k' => jkind_eqb k k' | _ => false end.
Definition is_out (k : jkind) (c : tclass) : bool := match c with COut k' => jkind_eqb k k' | _ => false end.

(* why a file that nobody needs is still there *)
Inductive reason :=
| RFailed       (* its Remove failed *)
| RSkipped      (* a revert stopped at an earlier failing Remove *)
| RKept         (* Transaction.discard kept it: the fresh manifest could not be written *)
| RAbandoned    (* its job ended while committing, or the DB was closed before the loop got to it *)
| RStray.       (* found by Open, kept by the janitor (a journal numbered above the new one) *)

Record job := { j_on : bool; j_del : list N; j_cfail : bool }.
Definition job_off : job := {| j_on := false; j_del := []; j_cfail := false |}.

(* association list table number -> class, at most one entry per number *)
Fixpoint tget (m : list (N * tclass)) (t : N) : option tclass :=
  match m with
  | [] => None
  | (t', c) :: m' => if t =? t' then Some c else tget m' t
  end.
Definition tdel (m : list (N * tclass)) (t : N) : list (N * tclass) :=
  filter (fun x => negb (t =? fst x)) m.
Definition tset (m : list (N * tclass)) (t : N) (c : tclass) : list (N * tclass) := (t, c) :: tdel m t.
Definition keys_with (p : tclass -> bool) (m : list (N * tclass)) : list N :=
  map fst (filter (fun x => p (snd x)) m).
Definition tabs_of (m : list (N * tclass)) : list N := keys_with is_tab m.
Definition retag (f : N -> tclass -> tclass) (m : list (N * tclass)) : list (N * tclass) :=
  map (fun x => (fst x, f (fst x) (snd x))) m.

Record st := {
  files : list fd;
  next : N;
  tb : list (N * tclass);
  held : list (list N);
  man : option N;
  hasman : bool;
  mfailed : bool;
  sjnum : N;
  views : list view;
  journal : N;
  frozen : option N;
  fdone : bool;
  fempty : bool;
  jf : job;
  jc : job;
  jt : job;
  pins : list N;
  opened : bool;
  reuse : bool;
  residue : list (fd * reason);
  trace : list (fd * bool)
}.

Definition set_files (x : list fd) (s : st) : st :=
  {| files := x; next := next s; tb := tb s; held := held s; man := man s; hasman := hasman s; mfailed := mfailed s; sjnum := sjnum s; views := views s; journal := journal s; frozen := frozen s; fdone := fdone s; fempty := fempty s; jf := jf s; jc := jc s; jt := jt s; pins := pins s; opened := opened s; reuse := reuse s; residue := residue s; trace := trace s |}.
Definition set_next (x : N) (s : st) : st :=
  {| files := files s; next := x; tb := tb s; held := held s; man := man s; hasman := hasman s; mfailed := mfailed s; sjnum := sjnum s; views := views s; journal := journal s; frozen := frozen s; fdone := fdone s; fempty := fempty s; jf := jf s; jc := jc s; jt := jt s; pins := pins s; opened := opened s; reuse := reuse s; residue := residue s; trace := trace s |}.
Definition set_tb (x : list (N * tclass)) (s : st) : st :=
  {| files := files s; next := next s; tb := x; held := held s; man := man s; hasman := hasman s; mfailed := mfailed s; sjnum := sjnum s; views := views s; journal := journal s; frozen := frozen s; fdone := fdone s; fempty := fempty s; jf := jf s; jc := jc s; jt := jt s; pins := pins s; opened := opened s; reuse := reuse s; residue := residue s; trace := trace s |}.
Definition set_held (x : list (list N)) (s : st) : st :=
  {| files := files s; next := next s; tb := tb s; held := x; man := man s; hasman := hasman s; mfailed := mfailed s; sjnum := sjnum s; views := views s; journal := journal s; frozen := frozen s; fdone := fdone s; fempty := fempty s; jf := jf s; jc := jc s; jt := jt s; pins := pins s; opened := opened s; reuse := reuse s; residue := residue s; trace := trace s |}.
Definition set_man (x : option N) (s : st) : st :=
  {| files := files s; next := next s; tb := tb s; held := held s; man := x; hasman := hasman s; mfailed := mfailed s; sjnum := sjnum s; views := views s; journal := journal s; frozen := frozen s; fdone := fdone s; fempty := fempty s; jf := jf s; jc := jc s; jt := jt s; pins := pins s; opened := opened s; reuse := reuse s; residue := residue s; trace := trace s |}.
Definition set_hasman (x : bool) (s : st) : st :=
  {| files := files s; next := next s; tb := tb s; held := held s; man := man s; hasman := x; mfailed := mfailed s; sjnum := sjnum s; views := views s; journal := journal s; frozen := frozen s; fdone := fdone s; fempty := fempty s; jf := jf s; jc := jc s; jt := jt s; pins := pins s; opened := opened s; reuse := reuse s; residue := residue s; trace := trace s |}.
Definition set_mfailed (x : bool) (s : st) : st :=
  {| files := files s; next := next s; tb := tb s; held := held s; man := man s; hasman := hasman s; mfailed := x; sjnum := sjnum s; views := views s; journal := journal s; frozen := frozen s; fdone := fdone s; fempty := fempty s; jf := jf s; jc := jc s; jt := jt s; pins := pins s; opened := opened s; reuse := reuse s; residue := residue s; trace := trace s |}.
Definition set_sjnum (x : N) (s : st) : st :=
  {| files := files s; next := next s; tb := tb s; held := held s; man := man s; hasman := hasman s; mfailed := mfailed s; sjnum := x; views := views s; journal := journal s; frozen := frozen s; fdone := fdone s; fempty := fempty s; jf := jf s; jc := jc s; jt := jt s; pins := pins s; opened := opened s; reuse := reuse s; residue := residue s; trace := trace s |}.
Definition set_views (x : list view) (s : st) : st :=
  {| files := files s; next := next s; tb := tb s; held := held s; man := man s; hasman := hasman s; mfailed := mfailed s; sjnum := sjnum s; views := x; journal := journal s; frozen := frozen s; fdone := fdone s; fempty := fempty s; jf := jf s; jc := jc s; jt := jt s; pins := pins s; opened := opened s; reuse := reuse s; residue := residue s; trace := trace s |}.
Definition set_journal (x : N) (s : st) : st :=
  {| files := files s; next := next s; tb := tb s; held := held s; man := man s; hasman := hasman s; mfailed := mfailed s; sjnum := sjnum s; views := views s; journal := x; frozen := frozen s; fdone := fdone s; fempty := fempty s; jf := jf s; jc := jc s; jt := jt s; pins := pins s; opened := opened s; reuse := reuse s; residue := residue s; trace := trace s |}.
Definition set_frozen (x : option N) (s : st) : st :=
  {| files := files s; next := next s; tb := tb s; held := held s; man := man s; hasman := hasman s; mfailed := mfailed s; sjnum := sjnum s; views := views s; journal := journal s; frozen := x; fdone := fdone s; fempty := fempty s; jf := jf s; jc := jc s; jt := jt s; pins := pins s; opened := opened s; reuse := reuse s; residue := residue s; trace := trace s |}.
Definition set_fdone (x : bool) (s : st) : st :=
  {| files := files s; next := next s; tb := tb s; held := held s; man := man s; hasman := hasman s; mfailed := mfailed s; sjnum := sjnum s; views := views s; journal := journal s; frozen := frozen s; fdone := x; fempty := fempty s; jf := jf s; jc := jc s; jt := jt s; pins := pins s; opened := opened s; reuse := reuse s; residue := residue s; trace := trace s |}.
Definition set_fempty (x : bool) (s : st) : st :=
  {| files := files s; next := next s; tb := tb s; held := held s; man := man s; hasman := hasman s; mfailed := mfailed s; sjnum := sjnum s; views := views s; journal := journal s; frozen := frozen s; fdone := fdone s; fempty := x; jf := jf s; jc := jc s; jt := jt s; pins := pins s; opened := opened s; reuse := reuse s; residue := residue s; trace := trace s |}.
Definition set_jf (x : job) (s : st) : st :=
  {| files := files s; next := next s; tb := tb s; held := held s; man := man s; hasman := hasman s; mfailed := mfailed s; sjnum := sjnum s; views := views s; journal := journal s; frozen := frozen s; fdone := fdone s; fempty := fempty s; jf := x; jc := jc s; jt := jt s; pins := pins s; opened := opened s; reuse := reuse s; residue := residue s; trace := trace s |}.
Definition set_jc (x : job) (s : st) : st :=
  {| files := files s; next := next s; tb := tb s; held := held s; man := man s; hasman := hasman s; mfailed := mfailed s; sjnum := sjnum s; views := views s; journal := journal s; frozen := frozen s; fdone := fdone s; fempty := fempty s; jf := jf s; jc := x; jt := jt s; pins := pins s; opened := opened s; reuse := reuse s; residue := residue s; trace := trace s |}.
Definition set_jt (x : job) (s : st) : st :=
  {| files := files s; next := next s; tb := tb s; held := held s; man := man s; hasman := hasman s; mfailed := mfailed s; sjnum := sjnum s; views := views s; journal := journal s; frozen := frozen s; fdone := fdone s; fempty := fempty s; jf := jf s; jc := jc s; jt := x; pins := pins s; opened := opened s; reuse := reuse s; residue := residue s; trace := trace s |}.
Definition set_pins (x : list N) (s : st) : st :=
  {| files := files s; next := next s; tb := tb s; held := held s; man := man s; hasman := hasman s; mfailed := mfailed s; sjnum := sjnum s; views := views s; journal := journal s; frozen := frozen s; fdone := fdone s; fempty := fempty s; jf := jf s; jc := jc s; jt := jt s; pins := x; opened := opened s; reuse := reuse s; residue := residue s; trace := trace s |}.
Definition set_opened (x : bool) (s : st) : st :=
  {| files := files s; next := next s; tb := tb s; held := held s; man := man s; hasman := hasman s; mfailed := mfailed s; sjnum := sjnum s; views := views s; journal := journal s; frozen := frozen s; fdone := fdone s; fempty := fempty s; jf := jf s; jc := jc s; jt := jt s; pins := pins s; opened := x; reuse := reuse s; residue := residue s; trace := trace s |}.
Definition set_reuse (x : bool) (s : st) : st :=
  {| files := files s; next := next s; tb := tb s; held := held s; man := man s; hasman := hasman s; mfailed := mfailed s; sjnum := sjnum s; views := views s; journal := journal s; frozen := frozen s; fdone := fdone s; fempty := fempty s; jf := jf s; jc := jc s; jt := jt s; pins := pins s; opened := opened s; reuse := x; residue := residue s; trace := trace s |}.
Definition set_residue (x : list (fd * reason)) (s : st) : st :=
  {| files := files s; next := next s; tb := tb s; held := held s; man := man s; hasman := hasman s; mfailed := mfailed s; sjnum := sjnum s; views := views s; journal := journal s; frozen := frozen s; fdone := fdone s; fempty := fempty s; jf := jf s; jc := jc s; jt := jt s; pins := pins s; opened := opened s; reuse := reuse s; residue := x; trace := trace s |}.
Definition set_trace (x : list (fd * bool)) (s : st) : st :=
  {| files := files s; next := next s; tb := tb s; held := held s; man := man s; hasman := hasman s; mfailed := mfailed s; sjnum := sjnum s; views := views s; journal := journal s; frozen := frozen s; fdone := fdone s; fempty := fempty s; jf := jf s; jc := jc s; jt := jt s; pins := pins s; opened := opened s; reuse := reuse s; residue := residue s; trace := x |}.

Definition getjob (k : jkind) (s : st) : job :=
  match k with KFlush => jf s | KComp => jc s | KTxn => jt s end.
Definition setjob (k : jkind) (j : job) (s : st) : st :=
  match k with KFlush => set_jf j s | KComp => set_jc j s | KTxn => set_jt j s end.

(* allocFileNum / reuseFileNum / markFileNum *)
Definition reuse_num (n : N) (s : st) : st := if next s =? n + 1 then set_next n s else s.
Definition mark_num (n : N) (s : st) : st := set_next (N.max (next s) (n + 1)) s.

(* ---------- needed ---------- *)

Definition needed (s : st) (f : fd) : bool :=
  match fst f with
  | FTable =>
      nmem (tabs_of (tb s)) (snd f)
      || existsb (fun h => nmem h (snd f)) (held s)
      || existsb (fun v => nmem (v_tabs v) (snd f)) (views s)
      || nmem (pins s) (snd f)
  | FJournal =>
      (* what recoverJournal would replay; a frozen journal that holds no record is never needed *)
      existsb (fun v => jsel (v_jnum v) (pjn v) (snd f)) (views s)
      && negb (fempty s && match frozen s with Some z => z =? snd f | None => false end)
  | FManifest => existsb (fun v => v_man v =? snd f) (views s)
  | FTemp => false
  end.

(* one storage.Remove call: logged with the verdict at this moment; ok = false: the call fails.  A call on a
   file that does not exist fails too (os.ErrNotExist) *)
Definition do_rm (f : fd) (ok : bool) (why : reason) (s : st) : st * bool :=
  let s1 := set_trace ((f, needed s f) :: trace s) s in
  if fmem (files s) f then
    if ok then
      (set_residue (filter (fun x => negb (fd_eqb f (fst x))) (residue s1)) (set_files (fdel (files s1) f) s1), true)
    else (set_residue ((f, why) :: residue s1) s1, false)
  else (s1, false).

(* the delFunc of tOps.remove *)
Definition del_func (t : N) (ok : bool) (s : st) : st :=
  let s1 := fst (do_rm (FTable, t) ok RFailed (set_tb (tdel (tb s) t) s)) in
  if reuse s1 then reuse_num t s1 else s1.

(* tOps.remove: fileCache.Delete(…, delFunc) *)
Definition tops_remove (t : N) (ok : bool) (s : st) : st :=
  if nmem (pins s) t then set_tb (tset (tb s) t CPend) s else del_func t ok s.

Fixpoint tops_remove_all (ts : list N) (bad : list fd) (s : st) : st :=
  match ts with
  | [] => s
  | t :: ts' => tops_remove_all ts' bad (tops_remove t (negb (fmem bad (FTable, t))) s)
  end.

(* ---------- session.commit ---------- *)

Inductive cout :=
| COk
| CFailClean     (* nothing of the record can be found later *)
| CFailDirty.    (* flushManifest failed after bytes of the record were written: it may or may not be found *)

Definition dflt_view : view := {| v_tabs := []; v_jnum := 0; v_prev := None; v_next := 0; v_man := 0 |}.

Definition apply_rec (v : view) (adds dels : list N) (jn : option N) (nx : N) : view :=
  {| v_tabs := filter (fun t => negb (nmem dels t)) (v_tabs v) ++ adds;
     v_jnum := match jn with Some j => j | None => v_jnum v end;
     v_prev := v_prev v; v_next := nx; v_man := v_man v |}.

Definition outs_of (ko : option jkind) (s : st) : list N :=
  match ko with Some k => keys_with (is_out k) (tb s) | None => [] end.

(* setVersion + recordCommited of a committed record: the job's finished tables enter the version, the deleted
   ones leave it *)
Definition install (ko : option jkind) (dels : list N) (jn : option N) (s : st) : st :=
  let f := fun (t : N) (c : tclass) =>
    match c with
    | COut k' => match ko with Some k => if jkind_eqb k k' then CTab else c | None => c end
    | CTab => if nmem dels t then CObs else c
    | _ => c
    end in
  set_sjnum (match jn with Some j => j | None => sjnum s end) (set_tb (retag f (tb s)) s).

(* the caller of a failing commit remembers the failure (tr.commitFailed; the compaction job goes on retrying) *)
Definition mark_failed (ko : option jkind) (s : st) : st :=
  match ko with
  | Some k => let j := getjob k s in setjob k {| j_on := j_on j; j_del := j_del j; j_cfail := true |} s
  | None => s
  end.

(* session.commit(rec): ko = the job whose finished tables the record adds (None: an empty record), dels = the
   tables it deletes, jn = its journal number if it sets one, rot = the size bound asks for a new manifest,
   o = how it ends, rmok = whether removing the old (or, on failure, the new) manifest file succeeds.
   Returns the state and whether the commit succeeded. *)
Definition commit (ko : option jkind) (dels : list N) (jn : option N) (rot : bool) (o : cout) (rmok : bool) (s : st)
  : st * bool :=
  if negb (hasman s) || mfailed s || rot then
    let m := next s in
    let s1 := set_next (m + 1) s in
    match o with
    | COk =>
        let s2 := install ko dels jn s1 in
        let v := {| v_tabs := tabs_of (tb s2); v_jnum := sjnum s2; v_prev := None; v_next := next s2; v_man := m |} in
        let s3 := set_views [v] (set_files (fadd (files s2) (FManifest, m)) s2) in
        let s4 := match man s with
                  | Some old => fst (do_rm (FManifest, old) rmok RFailed s3)
                  | None => s3
                  end in
        (set_man (Some m) (set_hasman true (set_mfailed false s4)), true)
    | _ =>
        let s2 := set_files (fadd (files s1) (FManifest, m)) s1 in
        let s3 := fst (do_rm (FManifest, m) rmok RFailed s2) in
        (mark_failed ko (reuse_num m s3), false)
    end
  else
    let v0 := hd dflt_view (views s) in
    let r := apply_rec v0 (outs_of ko s) dels jn (next s) in
    match o with
    | COk => (set_views [r] (install ko dels jn s), true)
    | CFailClean => (mark_failed ko (set_mfailed true s), false)
    | CFailDirty => (mark_failed ko (set_mfailed true (set_views (views s ++ [r]) s)), false)
    end.

(* ---------- Open: session.recover (the view), recoverJournal, checkAndCleanFiles ---------- *)

(* n tables flushed while replaying: tOps.create + finish, listed in the record of the next commit *)
Fixpoint rj_flush (n : nat) (s : st) : st :=
  match n with
  | O => s
  | S n' =>
      let t := next s in
      rj_flush n' (set_tb (tset (tb s) t (COut KFlush))
                     (set_residue (filter (fun x => negb (fd_eqb (FTable, t) (fst x))) (residue s))
                        (set_files (fadd (files s) (FTable, t)) (set_next (t + 1) s))))
  end.

(* the loop over the selected journals; ofd = the journal replayed before this one.  Result: state, whether
   recovery can go on, the last journal replayed *)
Fixpoint rj_loop (sel fl : list N) (ofd : option N) (mbad : bool) (bad : list fd) (s : st) : st * bool * option N :=
  match sel with
  | [] => (s, true, ofd)
  | j :: sel' =>
      let '(s1, ok) :=
        match ofd with
        | None => (s, true)
        | Some o =>
            let '(s', _) := commit (Some KFlush) [] (Some j) false COk
                              (negb mbad) s in
            do_rm (FJournal, o) (negb (fmem bad (FJournal, o))) RFailed s'
        end in
      if ok then rj_loop sel' (tl fl) (Some j) mbad bad (rj_flush (N.to_nat (hd 0 fl)) s1)
      else (s1, false, ofd)
  end.

Fixpoint do_rm_seq (rem bad : list fd) (s : st) : st * bool :=
  match rem with
  | [] => (s, true)
  | f :: rem' =>
      let '(s1, ok) := do_rm f (negb (fmem bad f)) RFailed s in
      if ok then do_rm_seq rem' bad s1 else (s1, false)
  end.

Definition jstate_of (s : st) : jstate :=
  {| js_tabs := tabs_of (tb s); js_manifest := match man s with Some m => m | None => 0 end;
     js_journal := journal s; js_frozen := frozen s |}.

Definition is_live (s : st) (f : fd) : bool :=
  match fst f with
  | FTable => match tget (tb s) (snd f) with Some _ => true | None => false end
  | FJournal => (snd f =? journal s) || match frozen s with Some z => z =? snd f | None => false end
  | FManifest => match man s with Some m => m =? snd f | None => false end
  | FTemp => false
  end.

(* Open on the listing [files s] when session.recover computes v; fl: tables flushed per replayed journal;
   mbad: the Remove of the old manifest by the session's first commit fails (its error is only logged; the
   janitor tries again); bad: other Remove calls that fail.  [opened] of the result says whether Open succeeded. *)
Definition open_db (v : view) (fl : list N) (mbad : bool) (bad : list fd) (s : st) : st :=
  let s0 :=
    set_tb (map (fun t => (t, CTab)) (ndedup (v_tabs v)))
      (set_next (v_next v) (set_sjnum (v_jnum v) (set_man (Some (v_man v)) (set_hasman false (set_mfailed false
      (set_views [v] (set_held [] (set_pins [] (set_jf job_off (set_jc job_off (set_jt job_off
      (set_frozen None (set_fdone false (set_fempty false (set_residue [] s))))))))))))))) in
  let sel := rj_select (v_jnum v) (pjn v) (files s) in
  let s1 := match sel with [] => s0 | _ => mark_num (last sel 0) s0 end in
  let '(s2, ok, ofd) := rj_loop sel fl None mbad bad s1 in
  if negb ok then s2 else
  (* newMem(0) *)
  let j := next s2 in
  let s3 := set_journal j (set_files (fadd (files s2) (FJournal, j)) (set_next (j + 1) s2)) in
  let '(s4, _) := commit (Some KFlush) [] (Some j) false COk
                    (negb mbad) s3 in
  let '(s5, ok5) := match ofd with
                    | Some o => do_rm (FJournal, o) (negb (fmem bad (FJournal, o))) RFailed s4
                    | None => (s4, true)
                    end in
  if negb ok5 then s5 else
  match janitor (jstate_of s5) (files s5) with
  | JMissing _ => s5
  | JRemove rem =>
      let '(s6, ok6) := do_rm_seq rem bad s5 in
      if negb ok6 then s6 else
      set_opened true
        (set_residue (map (fun f => (f, RStray)) (filter (fun f => negb (is_live s6 f)) (files s6))) s6)
  end.

(* ---------- the steps ---------- *)

Inductive op :=
| OPin (t : N)                      (* a reader opens table t through the file cache *)
| OUnpin (t : N) (ok : bool)        (* … and lets go of it; ok: outcome of the Remove this may trigger *)
| OAcquire                          (* session.version() by a reader (iterator, snapshot read, compaction) *)
| ORelease (i : nat)                (* version.release() of the i-th held version *)
| ORotate (ok empty : bool)         (* newMem: ok = the journal file could be created; empty = the buffer frozen holds nothing *)
| OBegin (k : jkind) (dels : list N)
| OCreate (k : jkind) (ok : bool)   (* tOps.create *)
| OFinish (k : jkind)               (* tWriter.finish succeeded *)
| ODrop (k : jkind) (ok : bool)     (* tWriter.drop *)
| OCommit (k : jkind) (rot : bool) (o : cout) (rmok : bool)
| ORevert (k : jkind) (bad : list fd)
| OAbandon (k : jkind)
| ODropFrozen (ok : bool)
| ODiscard (o : cout) (rmok : bool) (bad : list fd)
| OLoopRemove (t : N) (ok : bool)   (* the reference loop calls tOps.remove(t) *)
| OClose
| OOpen (vi : nat) (fl : list N) (mbad : bool) (bad : list fd).

Fixpoint remove_nth {A} (i : nat) (l : list A) : list A :=
  match i, l with
  | _, [] => []
  | O, _ :: l' => l'
  | S i', x :: l' => x :: remove_nth i' l'
  end.

Fixpoint nremove1 (l : list N) (x : N) : list N :=
  match l with
  | [] => []
  | y :: l' => if x =? y then l' else y :: nremove1 l' x
  end.

Definition cur_of (k : jkind) (s : st) : option N :=
  match keys_with (is_cur k) (tb s) with t :: _ => Some t | [] => None end.

(* tables the job's end leaves behind, with the reason *)
Definition orphan (ts : list N) (why : reason) (s : st) : st :=
  set_residue (map (fun t => ((FTable, t), why)) ts ++ residue s)
    (set_tb (filter (fun x => negb (nmem ts (fst x))) (tb s)) s).

(* for _, r := range rec.addedTables { if err := Remove(…); err != nil { return err } } *)
Fixpoint revert_seq (ts : list N) (bad : list fd) (s : st) : st :=
  match ts with
  | [] => s
  | t :: ts' =>
      let '(s1, ok) := do_rm (FTable, t) (negb (fmem bad (FTable, t))) RFailed (set_tb (tdel (tb s) t) s) in
      if ok then revert_seq ts' bad s1 else orphan ts' RSkipped s1
  end.

Definition all_off (s : st) : bool := negb (j_on (jf s)) && negb (j_on (jc s)) && negb (j_on (jt s)).

Definition step (s : st) (o : op) : option st :=
  match o with
  | OPin t =>
      if opened s
         && (match tget (tb s) t with
             | Some CTab => true
             | Some CObs => existsb (fun h => nmem h t) (held s)
             | Some (COut KTxn) => true
             | _ => false
             end)
      then Some (set_pins (t :: pins s) s) else None
  | OUnpin t ok =>
      if opened s && nmem (pins s) t then
        let s1 := set_pins (nremove1 (pins s) t) s in
        match tget (tb s1) t with
        | Some CPend => if nmem (pins s1) t then Some s1 else Some (del_func t ok s1)
        | _ => Some s1
        end
      else None
  | OAcquire => if opened s then Some (set_held (tabs_of (tb s) :: held s) s) else None
  | ORelease i => if opened s && Nat.ltb i (length (held s)) then Some (set_held (remove_nth i (held s)) s) else None
  | ORotate ok empty =>
      if opened s && negb (j_on (jt s)) && match frozen s with None => true | Some _ => false end then
        let j := next s in
        let s1 := set_next (j + 1) s in
        if ok then
          Some (set_fempty empty (set_fdone false (set_frozen (Some (journal s)) (set_journal j
                  (set_files (fadd (files s1) (FJournal, j)) s1)))))
        else Some (reuse_num j s1)
      else None
  | OBegin k dels =>
      if opened s && negb (j_on (getjob k s))
         && match k with
            | KFlush => match frozen s with Some _ => negb (fdone s) && negb (fempty s) | None => false end
                        && match dels with [] => true | _ => false end
            | KComp => forallb (nmem (tabs_of (tb s))) dels
            | KTxn => match frozen s with None => true | Some _ => false end
                      && match dels with [] => true | _ => false end
            end
      then Some (setjob k {| j_on := true; j_del := dels; j_cfail := false |} s) else None
  | OCreate k ok =>
      let j := getjob k s in
      if opened s && j_on j && (negb (j_cfail j) || jkind_eqb k KTxn)
         && match cur_of k s with None => true | Some _ => false end then
        let t := next s in
        let s1 := set_next (t + 1) s in
        if ok then
          Some (set_tb (tset (tb s1) t (CCur k))
                  (set_residue (filter (fun x => negb (fd_eqb (FTable, t) (fst x))) (residue s1))
                     (set_files (fadd (files s1) (FTable, t)) s1)))
        else Some s1
      else None
  | OFinish k =>
      match cur_of k s with
      | Some t => if opened s then Some (set_tb (tset (tb s) t (COut k)) s) else None
      | None => None
      end
  | ODrop k ok =>
      match cur_of k s with
      | Some t =>
          if opened s then
            let '(s1, done) := do_rm (FTable, t) ok RFailed (set_tb (tdel (tb s) t) s) in
            Some (if done then reuse_num t s1 else s1)
          else None
      | None => None
      end
  | OCommit k rot o rmok =>
      let j := getjob k s in
      if opened s && j_on j && match cur_of k s with None => true | Some _ => false end
         && match k with
            | KTxn => match keys_with (is_out KTxn) (tb s) with [] => false | _ => true end
            | _ => true
            end
      then
        let jn := match k with KFlush => Some (journal s) | _ => None end in
        let '(s1, ok) := commit (Some k) (j_del j) jn rot o rmok s in
        if ok then
          Some (setjob k job_off (match k with KFlush => set_fdone true s1 | _ => s1 end))
        else Some s1
      else None
  | ORevert k bad =>
      let j := getjob k s in
      if opened s && j_on j && negb (j_cfail j) && negb (jkind_eqb k KTxn)
         && match cur_of k s with None => true | Some _ => false end
      then Some (setjob k job_off (revert_seq (keys_with (is_out k) (tb s)) bad s)) else None
  | OAbandon k =>
      let j := getjob k s in
      if opened s && j_on j && negb (jkind_eqb k KTxn)
         && match cur_of k s with None => true | Some _ => false end
      then Some (setjob k job_off (orphan (keys_with (is_out k) (tb s)) RAbandoned s)) else None
  | ODropFrozen ok =>
      match frozen s with
      | Some z =>
          if opened s && (fdone s || fempty s) then
            let s1 := fst (do_rm (FJournal, z) ok RFailed s) in
            Some (set_fempty false (set_fdone false (set_frozen None s1)))
          else None
      | None => None
      end
  | ODiscard o rmok bad =>
      let j := jt s in
      if opened s && j_on j && match cur_of KTxn s with None => true | Some _ => false end then
        let '(s1, keep) :=
          if j_cfail j && mfailed s then
            let '(s', ok) := commit None [] None false o rmok s in (s', negb ok)
          else (s, false) in
        let outs := keys_with (is_out KTxn) (tb s1) in
        if keep then Some (set_jt job_off (orphan outs RKept s1))
        else Some (set_jt job_off (tops_remove_all outs bad s1))
      else None
  | OLoopRemove t ok =>
      if opened s
         && match tget (tb s) t with Some CObs => true | _ => false end
         && negb (existsb (fun h => nmem h t) (held s))
      then Some (tops_remove t ok s) else None
  | OClose =>
      if opened s && all_off s
         && match pins s with [] => true | _ => false end
         && match held s with [] => true | _ => false end
      then Some (set_opened false (set_tb [] (set_residue [] (set_hasman false s)))) else None
  | OOpen vi fl mbad bad =>
      if negb (opened s) && Nat.ltb vi (length (views s))
      then Some (open_db (nth vi (views s) dflt_view) fl mbad bad s) else None
  end.

Fixpoint run (s : st) (ops : list op) : option st :=
  match ops with
  | [] => Some s
  | o :: ops' => match step s o with Some s' => run s' ops' | None => None end
  end.

(* a closed DB: any listing, what session.recover would compute from it, whether removed tables' numbers are
   given back (no block cache, or BlockCacheEvictRemoved) *)
Definition boot (l : list fd) (v : view) (ru : bool) : st :=
  {| files := l; next := 0; tb := []; held := []; man := None; hasman := false; mfailed := false; sjnum := 0;
     views := [v]; journal := 0; frozen := None; fdone := false; fempty := false;
     jf := job_off; jc := job_off; jt := job_off; pins := []; opened := false; reuse := ru;
     residue := []; trace := [] |}.

(* the storage an Open on an empty directory sees right after session.create *)
Definition boot_new (ru : bool) : st :=
  boot [(FManifest, 0)] {| v_tabs := []; v_jnum := 0; v_prev := None; v_next := 1; v_man := 0 |} ru.

(* nothing in flight: no job, no reader, nothing the loop still has to remove, no frozen buffer *)
Definition quiescent (s : st) : bool :=
  opened s && all_off s
  && match pins s with [] => true | _ => false end
  && match held s with [] => true | _ => false end
  && forallb (fun x => is_tab (snd x)) (tb s)
  && match frozen s with None => true | Some _ => false end.

(* the files a quiescent DB needs *)
Definition exact_set (s : st) : list fd :=
  map (fun t => (FTable, t)) (tabs_of (tb s)) ++ [(FJournal, journal s)]
  ++ match man s with Some m => [(FManifest, m)] | None => [] end.
