(* Store/ApiTotalityProofs.v -- what the totality table (Store/ApiTotality.v) says, for EVERY entry point and every
   argument class, whether the harness has a case for it or not. *)
From GL Require Import Store.ApiTotality.
From Coq Require Import List NArith String Bool Lia.
Import ListNotations.
Open Scope string_scope.
Open Scope N_scope.

Lemma lookup_row_in : forall t e ex, lookup_row t e = Some ex -> In (e, ex) t.
Proof.
  induction t as [|[n x] t IH]; intros e ex H; cbn in H; [discriminate|].
  destruct (String.eqb n e) eqn:E.
  - apply String.eqb_eq in E. inversion H. subst. left. reflexivity.
  - right. apply IH. exact H.
Qed.

Lemma lookup_exc_in : forall ex c m, lookup_exc ex c = Some m -> In (c, m) ex.
Proof.
  induction ex as [|[n x] ex IH]; intros c m H; cbn in H; [discriminate|].
  destruct (String.eqb n c) eqn:E.
  - apply String.eqb_eq in E. inversion H. subst. left. reflexivity.
  - right. apply IH. exact H.
Qed.

Lemma exception_listed : forall e ex c m,
  lookup_row api_totality_table e = Some ex -> lookup_exc ex c = Some m -> In (e, c, m) all_exceptions.
Proof.
  intros e ex c m Hr Hc. unfold all_exceptions. apply in_flat_map.
  exists (e, ex). split; [apply lookup_row_in; exact Hr|].
  cbn [fst snd]. apply in_map_iff. exists (c, m). split; [reflexivity|apply lookup_exc_in; exact Hc].
Qed.

Lemma table_no_hang_ok : table_no_hang = true.
Proof. vm_compute. reflexivity. Qed.

Lemma table_died_ok : table_died_only_option_sizes = true.
Proof. vm_compute. reflexivity. Qed.

Lemma table_masks_ok : table_masks_sane = true.
Proof. vm_compute. reflexivity. Qed.

Lemma table_rows_distinct_ok : table_rows_distinct = true.
Proof. vm_compute. reflexivity. Qed.

(* 1. no entry point, with no argument, is allowed to hang *)
Lemma api_never_hangs : forall e c, outcome_allowed e c oc_hang = false.
Proof.
  intros e c. unfold outcome_allowed, allowed_mask.
  destruct (lookup_row api_totality_table e) as [ex|] eqn:Hr; [|reflexivity].
  destruct (lookup_exc ex c) as [m|] eqn:Hc; [|reflexivity].
  pose proof (exception_listed _ _ _ _ Hr Hc) as Hin.
  pose proof table_no_hang_ok as Hk. unfold table_no_hang in Hk.
  rewrite forallb_forall in Hk. specialize (Hk _ Hin). cbn [snd] in Hk.
  apply negb_true_iff in Hk. exact Hk.
Qed.

(* 2. the death of the process is allowed for one class of one entry point only: Open with an option that is a size in
      bytes set to an extreme value *)
Lemma api_died_only_option_sizes : forall e c,
  outcome_allowed e c oc_died = true -> e = "leveldb.Open" /\ c = "option extreme (a size in bytes)".
Proof.
  intros e c. unfold outcome_allowed, allowed_mask.
  destruct (lookup_row api_totality_table e) as [ex|] eqn:Hr; [|discriminate].
  destruct (lookup_exc ex c) as [m|] eqn:Hc; [|vm_compute; discriminate].
  intros Hb.
  pose proof (exception_listed _ _ _ _ Hr Hc) as Hin.
  pose proof table_died_ok as Hk. unfold table_died_only_option_sizes in Hk.
  rewrite forallb_forall in Hk. specialize (Hk _ Hin). cbn [fst snd] in Hk.
  rewrite Hb in Hk. cbn [negb orb] in Hk.
  apply andb_true_iff in Hk. destruct Hk as [H1 H2].
  apply String.eqb_eq in H1. apply String.eqb_eq in H2. split; assumption.
Qed.

(* 3. an argument class that is not listed for its entry point RETURNS: the allowed outcomes are exactly ok and error *)
Lemma api_default_returns : forall e ex c o,
  lookup_row api_totality_table e = Some ex -> lookup_exc ex c = None ->
  (outcome_allowed e c o = true <-> o = oc_ok \/ o = oc_error).
Proof.
  intros e ex c o Hr Hc. unfold outcome_allowed, allowed_mask. rewrite Hr, Hc.
  unfold m_ret, oc_ok, oc_error. split.
  - intros H. destruct o as [|p]; [left; reflexivity|].
    destruct p as [p|p|]; [| |right; reflexivity]; exfalso.
    + destruct p; cbn in H; discriminate.
    + destruct p; cbn in H; discriminate.
  - intros [H|H]; subst o; reflexivity.
Qed.

(* 3a. the bloom filter entry points since the repairs of leveldb/filter/bloom.go: for NO argument class may
       NewBloomFilter, NewGenerator, Add or Contains panic or allocate hugely, and Generate may not panic for any
       bitsPerKey (negative, zero, huge): only a nil Buffer is a documented misuse, and a huge bitsPerKey is the size
       the caller asks for (at most the ceiling of 2^32-8 bits = 512 MiB: outcome class 4 next to "returns") *)
Lemma api_bloom_must_return : forall c,
  outcome_allowed "filter.NewBloomFilter" c oc_panic = false /\ outcome_allowed "filter.NewBloomFilter" c oc_alloc = false /\
  outcome_allowed "filter.Filter.Contains" c oc_panic = false /\ outcome_allowed "filter.Filter.Contains" c oc_alloc = false /\
  outcome_allowed "filter.FilterGenerator.Add" c oc_panic = false /\
  (c <> "required argument nil" -> outcome_allowed "filter.FilterGenerator.Generate" c oc_panic = false) /\
  (c <> "required argument nil" -> c <> "n huge" -> outcome_allowed "filter.FilterGenerator.Generate" c oc_alloc = false).
Proof.
  intros c. repeat split; try reflexivity.
  - intros H1. unfold outcome_allowed, allowed_mask.
    change (lookup_row api_totality_table "filter.FilterGenerator.Generate") with (Some [("required argument nil", 7); ("n huge", 19)]).
    cbn [lookup_exc]. destruct (String.eqb_spec "required argument nil" c) as [E|_]; [congruence|].
    destruct (String.eqb "n huge" c); reflexivity.
  - intros H1 H2. unfold outcome_allowed, allowed_mask.
    change (lookup_row api_totality_table "filter.FilterGenerator.Generate") with (Some [("required argument nil", 7); ("n huge", 19)]).
    cbn [lookup_exc]. destruct (String.eqb_spec "required argument nil" c) as [E|_]; [congruence|].
    destruct (String.eqb_spec "n huge" c) as [E|_]; [congruence|reflexivity].
Qed.

(* 4. an entry point without a row allows nothing: every observation of it is a mismatch *)
Lemma api_unknown_entry_rejected : forall e c o,
  lookup_row api_totality_table e = None -> outcome_allowed e c o = false.
Proof. intros e c o H. unfold outcome_allowed, allowed_mask. rewrite H. reflexivity. Qed.
