(* Store/LifecycleProofs.v — proofs about the lifecycle machine of Store/Lifecycle.v (property C18): global
   invariant (lock <-> exactly one open DB, per-DB invariants), lifted over arbitrary call sequences, and the
   C18 theorems. The per-call case analyses are in LifecycleLocal.v. *)
From Coq Require Import List NArith Bool Lia.
From GL Require Import Store.Lifecycle Store.LifecycleLocal.
Import ListNotations.
Open Scope nat_scope.

(* ---------------------------------------------------------------- global invariant *)

Definition isopen (db : dbrec) : bool := negb (is_closed (dmode db)).

Fixpoint nopen (l : list dbrec) : nat :=
  match l with
  | [] => 0
  | db :: l' => (if isopen db then 1 else 0) + nopen l'
  end.

Record wf (s : state) : Prop := {
  wf_db   : Forall db_ok (dbs s);
  wf_lock : nopen (dbs s) = if locked (stor s) then 1 else 0;   (* the lock is held iff exactly one DB is open *)
  wf_has  : dbs s <> [] -> hasdb (stor s) = true
}.

Lemma nopen_app : forall l db, nopen (l ++ [db]) = nopen l + (if isopen db then 1 else 0).
Proof. induction l as [|a l IH]; intros db; cbn; [lia|]. rewrite IH. lia. Qed.

Lemma nopen_upd : forall l d db db', nth_error l d = Some db ->
  nopen (upd l d db') + (if isopen db then 1 else 0) = nopen l + (if isopen db' then 1 else 0).
Proof.
  induction l as [|a l IH]; intros [|d] db db' H; cbn in *; try discriminate.
  - injection H as ->. lia.
  - specialize (IH _ _ db' H). lia.
Qed.

Lemma upd_not_nil : forall A (l : list A) d x, l <> [] -> upd l d x <> [].
Proof. intros A [|a l] [|d] x H; cbn; congruence. Qed.

Lemma nopen_zero_closed : forall l d db, nopen l = 0 -> nth_error l d = Some db -> dmode db = Closed.
Proof.
  induction l as [|a l IH]; intros [|d] db H E; cbn in *; try discriminate.
  - injection E as ->. unfold isopen in H. destruct (is_closed (dmode db)) eqn:C; cbn in H; [|lia].
    now apply is_closed_iff.
  - eapply IH; eauto. lia.
Qed.

Lemma nopen_open_pos : forall l d db, nth_error l d = Some db -> isopen db = true -> 1 <= nopen l.
Proof.
  induction l as [|a l IH]; intros [|d] db E O; cbn in *; try discriminate.
  - injection E as ->. rewrite O. lia.
  - specialize (IH _ _ E O). lia.
Qed.

Lemma nopen_one_unique : forall l d1 d2 a b, nopen l = 1 ->
  nth_error l d1 = Some a -> isopen a = true -> nth_error l d2 = Some b -> isopen b = true -> d1 = d2.
Proof.
  induction l as [|x l IH]; intros [|d1] [|d2] a b H E1 O1 E2 O2; cbn in *; try discriminate; auto.
  - injection E1 as E1. subst x. rewrite O1 in H.
    assert (Z : nopen l = 0) by lia.
    pose proof (nopen_zero_closed _ _ _ Z E2) as C. unfold isopen in O2. rewrite C in O2. discriminate.
  - injection E2 as E2. subst x. rewrite O2 in H.
    assert (Z : nopen l = 0) by lia.
    pose proof (nopen_zero_closed _ _ _ Z E1) as C. unfold isopen in O1. rewrite C in O1. discriminate.
  - f_equal. destruct (isopen x).
    + pose proof (nopen_open_pos _ _ _ E1 O1). lia.
    + eapply IH; eauto.
Qed.

Lemma wf_init : forall has fs nf, wf (init_state has fs nf).
Proof. intros; constructor; cbn; [constructor | reflexivity | congruence]. Qed.

Lemma step_wf : forall s c, wf s -> wf (fst (step true s c)).
Proof.
  intros s c [Hdb Hlk Hhas]. destruct c as [ro seek | d h m | d]; cbn [step].
  - (* Open *)
    unfold open_step. destruct (locked (stor s)) eqn:L; cbn [fst]; [constructor; rewrite ?L; assumption|].
    destruct ro.
    + destruct (hasdb (stor s)) eqn:HD; cbn [fst]; [|constructor; rewrite ?L, ?HD; assumption].
      constructor; cbn.
      * apply Forall_app; split; [assumption|]. constructor; [|constructor].
        constructor; cbn; [reflexivity | intros; constructor].
      * rewrite nopen_app, Hlk. reflexivity.
      * intros _. exact HD.
    + constructor; cbn.
      * apply Forall_app; split; [assumption|]. constructor; [|constructor].
        constructor; cbn; [intros [E|E]; discriminate | intros E; congruence].
      * rewrite nopen_app, Hlk. reflexivity.
      * reflexivity.
  - (* API call *)
    destruct (nth_error (dbs s) d) as [db|] eqn:E; [|constructor; assumption].
    destruct (local_step true db h m) as [[db' ms] o] eqn:LS. cbn [fst].
    pose proof (Forall_nth_error _ _ _ _ _ Hdb E) as Ok0.
    pose proof (local_step_ok _ _ _ _ _ _ Ok0 LS) as Ok1.
    pose proof (local_step_mode _ _ _ _ _ _ LS) as MT.
    pose proof (nopen_upd _ _ _ db' E) as NU.
    constructor; cbn [stor dbs].
    + apply Forall_upd; assumption.
    + unfold isopen in *.
      destruct MT as [MT|[(M0 & M1 & _)|(M0 & M1 & _)]].
      * rewrite MT in *. replace (negb (is_closed (dmode db)) && is_closed (dmode db)) with false
          by (destruct (is_closed (dmode db)); reflexivity).
        rewrite locked_apply_muts. lia.
      * rewrite M0, M1 in *. cbn in *. rewrite locked_apply_muts. lia.
      * rewrite M1 in *. apply is_closed_false_iff in M0. rewrite M0 in *. cbn in *.
        destruct (locked (stor s)); lia.
    + intros _. assert (N : dbs s <> []) by (intros Z; rewrite Z in E; destruct d; discriminate).
      destruct (negb (is_closed (dmode db)) && is_closed (dmode db')); cbn; rewrite hasdb_apply_muts; auto.
  - (* drain *)
    destruct (nth_error (dbs s) d) as [db|] eqn:E; [|constructor; assumption].
    pose proof (Forall_nth_error _ _ _ _ _ Hdb E) as [Hbg Htx].
    unfold drain_db. destruct (dbg db) eqn:B; cbn [fst stor dbs].
    + constructor; cbn [stor dbs].
      * apply Forall_upd; [assumption|]. constructor; cbn; auto.
      * pose proof (nopen_upd _ _ _ (bump (set_bg db false)) E) as NU. unfold isopen in *. cbn in NU.
        rewrite locked_apply_muts. lia.
      * intros _. rewrite hasdb_apply_muts. apply Hhas. intros Z; rewrite Z in E; destruct d; discriminate.
    + rewrite (upd_id _ _ _ _ E). constructor; assumption.
Qed.

Lemma run_wf : forall l s, wf s -> wf (run true s l).
Proof. induction l as [|c l IH]; intros s H; cbn; [assumption|]. apply IH. now apply step_wf. Qed.

(* states reachable from any initial storage content by any call sequence *)
(* reachable in the machine of code variant [parks]; [reachable] = the repaired code (parks = true) *)
Definition reachable_of (parks : bool) (s : state) : Prop := exists has fs nf l, s = run parks (init_state has fs nf) l.
Definition reachable (s : state) : Prop := reachable_of true s.

Lemma reachable_wf : forall s, reachable s -> wf s.
Proof. intros s (has & fs & nf & l & ->). apply run_wf, wf_init. Qed.

Lemma reachable_step : forall s c, reachable s -> reachable (fst (step true s c)).
Proof.
  intros s c (has & fs & nf & l & ->). exists has, fs, nf, (l ++ [c]).
  generalize (init_state has fs nf). induction l as [|x l IH]; intros s0; cbn; [reflexivity|]. apply IH.
Qed.

Lemma reachable_run : forall l s, reachable s -> reachable (run true s l).
Proof. induction l as [|c l IH]; intros s H; cbn; [assumption|]. apply IH. now apply reachable_step. Qed.

(* ---------------------------------------------------------------- helpers on the global step *)

Lemma wf_open_locked : forall s d db, wf s -> nth_error (dbs s) d = Some db -> dmode db <> Closed ->
  locked (stor s) = true /\ nopen (dbs s) = 1.
Proof.
  intros s d db [_ Hlk _] E M.
  assert (O : isopen db = true) by (unfold isopen; apply is_closed_false_iff in M; now rewrite M).
  pose proof (nopen_open_pos _ _ _ E O). destruct (locked (stor s)); [split; [reflexivity|assumption]|lia].
Qed.

Lemma wf_others_closed : forall s d db d' db', wf s -> nth_error (dbs s) d = Some db -> dmode db <> Closed ->
  d' <> d -> nth_error (dbs s) d' = Some db' -> dmode db' = Closed.
Proof.
  intros s d db d' db' W E M N E'.
  destruct (wf_open_locked _ _ _ W E M) as [_ One].
  destruct (is_closed (dmode db')) eqn:C; [now apply is_closed_iff|].
  exfalso. apply N. eapply (nopen_one_unique _ d' d db' db One); eauto; unfold isopen.
  - now rewrite C.
  - apply is_closed_false_iff in M. now rewrite M.
Qed.

Lemma step_api_eq : forall s d h m db db' ms o,
  nth_error (dbs s) d = Some db -> local_step true db h m = (db', ms, o) ->
  step true s (CApi d h m) =
    (mkState (if negb (is_closed (dmode db)) && is_closed (dmode db') then set_locked (apply_muts (stor s) ms) false
              else apply_muts (stor s) ms) (upd (dbs s) d db'), o).
Proof. intros s d h m db db' ms o E L. cbn [step]. rewrite E, L. reflexivity. Qed.

Lemma state_eta : forall s, mkState (stor s) (dbs s) = s.
Proof. intros [a b]; reflexivity. Qed.

(* ---------------------------------------------------------------- single owner *)

Lemma single_owner_locked : forall s d db ro seek,
  reachable s -> nth_error (dbs s) d = Some db -> dmode db <> Closed ->
  step true s (COpen ro seek) = (s, ErrLocked).
Proof.
  intros s d db ro seek R E M. destruct (wf_open_locked _ _ _ (reachable_wf _ R) E M) as [L _].
  cbn [step]. unfold open_step. now rewrite L.
Qed.

Lemma single_owner_unique : forall s d1 d2 a b,
  reachable s -> nth_error (dbs s) d1 = Some a -> dmode a <> Closed ->
  nth_error (dbs s) d2 = Some b -> dmode b <> Closed -> d1 = d2.
Proof.
  intros s d1 d2 a b R E1 M1 E2 M2.
  destruct (PeanoNat.Nat.eq_dec d1 d2) as [|N]; [assumption|].
  pose proof (wf_others_closed _ _ _ _ _ (reachable_wf _ R) E2 M2 N E1). contradiction.
Qed.

Lemma close_releases : forall s d db h,
  reachable s -> nth_error (dbs s) d = Some db -> dmode db <> Closed ->
  let s' := fst (step true s (CApi d h DbClose)) in
  snd (step true s (CApi d h DbClose)) = Ok /\ locked (stor s') = false /\
  (exists db', nth_error (dbs s') d = Some db' /\ dmode db' = Closed) /\
  forall ro seek, snd (step true s' (COpen ro seek)) = Ok /\
                  length (dbs (fst (step true s' (COpen ro seek)))) = S (length (dbs s')).
Proof.
  intros s d db h R E M s'.
  pose proof (reachable_wf _ R) as W.
  assert (W' : wf s') by (apply step_wf; assumption).
  assert (LS : exists ms db', local_step true db h DbClose = (db', ms, Ok) /\ dmode db' = Closed).
  { unfold local_step; cbn. unfold db_step. destruct (dmode db) eqn:MD; try congruence; cbn.
    - rewrite andb_false_r. eexists _, _; split; reflexivity.
    - eexists _, _; split; reflexivity.
    - eexists _, _; split; reflexivity. }
  destruct LS as (ms & db' & LS & MC).
  subst s'. rewrite (step_api_eq _ _ _ _ _ _ _ _ E LS) in *. cbn [fst snd stor dbs] in *.
  apply is_closed_false_iff in M. rewrite M, MC in *. cbn in *.
  assert (HD : hasdb (stor s) = true).
  { apply (wf_has _ W). intros Z; rewrite Z in E; destruct d; discriminate. }
  repeat split.
  - exists db'. split; [eapply nth_error_upd_same; eauto|assumption].
  - unfold open_step; cbn. rewrite hasdb_apply_muts, HD. destruct ro; reflexivity.
  - unfold open_step; cbn. rewrite hasdb_apply_muts, HD. destruct ro; cbn; rewrite app_length; cbn; lia.
Qed.

(* ---------------------------------------------------------------- closed is closed *)

Lemma closed_is_closed : forall s d db h m,
  reachable s -> nth_error (dbs s) d = Some db -> dmode db = Closed ->
  let s' := fst (step true s (CApi d h m)) in
  snd (step true s (CApi d h m)) = closed_outcome db h m /\
  stor s' = stor s /\
  (exists db', nth_error (dbs s') d = Some db' /\ dmode db' = Closed /\ dbg db' = false) /\
  (forall d', d' <> d -> nth_error (dbs s') d' = nth_error (dbs s) d') /\
  (recv m = RDb -> m <> DbNewIterator -> s' = s).
Proof.
  intros s d db h m R E M s'.
  pose proof (reachable_wf _ R) as W.
  pose proof (Forall_nth_error _ _ _ _ _ (wf_db _ W) E) as Ok0.
  destruct (local_step true db h m) as [[db' ms] o] eqn:LS.
  destruct (local_closed _ _ _ _ _ _ Ok0 M LS) as (-> & -> & MC & BG & _ & Same).
  subst s'. rewrite (step_api_eq _ _ _ _ _ _ _ _ E LS). cbn [fst snd stor dbs].
  rewrite M. cbn. repeat split.
  - exists db'. split; [eapply nth_error_upd_same; eauto|]. split; [assumption|].
    rewrite BG. apply (ok_bg _ Ok0). now right.
  - intros d' N. apply nth_error_upd_other. congruence.
  - intros RD NI. rewrite (Same RD NI), (upd_id _ _ _ _ E). apply state_eta.
Qed.

Lemma double_close_harmless : forall s d db h,
  nth_error (dbs s) d = Some db -> dmode db = Closed -> step true s (CApi d h DbClose) = (s, ErrClosed).
Proof.
  intros s d db h E M. cbn [step]. rewrite E. unfold local_step; cbn. unfold db_step. rewrite M. cbn.
  rewrite (upd_id _ _ _ _ E). now rewrite state_eta.
Qed.

(* ---------------------------------------------------------------- read-only *)

Lemma ro_rejects_writes_serves_reads : forall s d db h m,
  reachable s -> nth_error (dbs s) d = Some db -> is_ro (dmode db) = true ->
  let s' := fst (step true s (CApi d h m)) in
  let o := snd (step true s (CApi d h m)) in
  (recv m = RDb -> takes_write_lock m = true -> o = ErrReadOnly /\ s' = s) /\
  (recv m = RDb -> db_read m = true -> o = Ok /\ stor s' = stor s) /\
  (m <> DbClose -> m <> ItRelease -> stor s' = stor s) /\
  (dmode db = ROpened -> mlog (stor s') = mlog (stor s)).
Proof.
  intros s d db h m R E M s' o.
  pose proof (reachable_wf _ R) as W.
  pose proof (Forall_nth_error _ _ _ _ _ (wf_db _ W) E) as Ok0.
  destruct (local_step true db h m) as [[db' ms] o'] eqn:LS.
  destruct (local_ro _ _ _ _ _ _ Ok0 M LS) as (Wr & Rd & Cl & Ms).
  pose proof (local_step_mode _ _ _ _ _ _ LS) as MT.
  subst s' o. rewrite (step_api_eq _ _ _ _ _ _ _ _ E LS). cbn [fst snd stor dbs].
  assert (NC : is_closed (dmode db) = false) by (destruct (dmode db); cbn in *; congruence).
  repeat split.
  - destruct (Wr H H0) as (_ & _ & ->). reflexivity.
  - destruct (Wr H H0) as (-> & -> & _). rewrite NC. cbn. rewrite (upd_id _ _ _ _ E). apply state_eta.
  - destruct (Rd H H0) as (_ & -> & _). reflexivity.
  - destruct (Rd H H0) as (-> & _ & MD). rewrite MD, NC. reflexivity.
  - intros NCl NRel. destruct Ms as [->|([->| ->] & _)]; [|congruence|congruence].
    destruct MT as [MT|[(M0 & _)|(_ & _ & ->)]]; [| rewrite M0 in M; discriminate | congruence].
    rewrite MT, NC. reflexivity.
  - intros RO. destruct Ms as [->|(_ & SW)]; [|congruence].
    destruct (negb (is_closed (dmode db)) && is_closed (dmode db')); reflexivity.
Qed.

(* ---------------------------------------------------------------- quiet states issue no mutation *)

Definition quiet (s : state) : Prop := Forall (fun db => quietb db = true) (dbs s).

Definition no_rw_open (c : call) : bool := match c with COpen false _ => false | _ => true end.

Lemma step_quiet : forall s c, wf s -> quiet s -> no_rw_open c = true ->
  mlog (stor (fst (step true s c))) = mlog (stor s) /\ quiet (fst (step true s c)).
Proof.
  intros s c W Q NR. destruct c as [ro seek | d h m | d]; cbn [step].
  - destruct ro; [|discriminate]. unfold open_step.
    destruct (locked (stor s)); [split; [reflexivity|assumption]|].
    destruct (hasdb (stor s)); cbn [fst]; [|split; [reflexivity|assumption]].
    split; [reflexivity|]. unfold quiet; cbn. apply Forall_app; split; [assumption|].
    constructor; [reflexivity|constructor].
  - destruct (nth_error (dbs s) d) as [db|] eqn:E; [|split; [reflexivity|assumption]].
    destruct (local_step true db h m) as [[db' ms] o] eqn:LS. cbn [fst].
    pose proof (Forall_nth_error _ _ _ _ _ (wf_db _ W) E) as Ok0.
    pose proof (Forall_nth_error _ _ _ _ _ Q E) as Q0. cbn in Q0.
    destruct (local_quiet _ _ _ _ _ _ Ok0 Q0 LS) as [-> Q1]. cbn [stor dbs]. split.
    + destruct (negb (is_closed (dmode db)) && is_closed (dmode db')); reflexivity.
    + unfold quiet; cbn. apply Forall_upd; assumption.
  - destruct (nth_error (dbs s) d) as [db|] eqn:E; [|split; [reflexivity|assumption]].
    pose proof (Forall_nth_error _ _ _ _ _ (wf_db _ W) E) as Ok0.
    pose proof (Forall_nth_error _ _ _ _ _ Q E) as Q0. cbn in Q0.
    rewrite (drain_quiet _ Ok0 Q0). cbn. rewrite (upd_id _ _ _ _ E). split; [reflexivity|assumption].
Qed.

Lemma run_quiet : forall l s, wf s -> quiet s -> forallb no_rw_open l = true ->
  mlog (stor (run true s l)) = mlog (stor s).
Proof.
  induction l as [|c l IH]; intros s W Q NR; cbn; [reflexivity|].
  cbn in NR. apply andb_true_iff in NR. destruct NR as [N1 N2].
  destruct (step_quiet _ _ W Q N1) as [M Q'].
  rewrite IH; auto. now apply step_wf.
Qed.

Lemma unlocked_quiet : forall s, wf s -> locked (stor s) = false -> quiet s.
Proof.
  intros s W L. unfold quiet. apply Forall_forall. intros db I.
  destruct (In_nth_error _ _ I) as [d E].
  pose proof (wf_lock _ W) as N. rewrite L in N.
  unfold quietb. now rewrite (nopen_zero_closed _ _ _ N E).
Qed.

(* opening read-only and anything done afterwards without re-opening read-write issues no mutation at all *)
Lemma ro_open_pure : forall s seek l,
  reachable s -> locked (stor s) = false -> forallb no_rw_open l = true ->
  mlog (stor (run true s (COpen true seek :: l))) = mlog (stor s).
Proof.
  intros s seek l R L NR. pose proof (reachable_wf _ R) as W.
  apply (run_quiet (COpen true seek :: l) s W (unlocked_quiet _ W L)). exact NR.
Qed.

(* every real iterator of the DB has been released *)
Definition iters_released (db : dbrec) : bool :=
  forallb (fun i => match ik i with IEmpty => true | IReal _ => irel i end) (diters db).

Lemma iters_released_pins : forall db v, iters_released db = true -> forallb (pins_current v) (diters db) = true.
Proof.
  intros db v H. unfold iters_released in H. rewrite forallb_forall in *. intros i I. specialize (H i I).
  unfold pins_current. destruct (ik i); [now rewrite H|reflexivity].
Qed.

(* a DB switched to read-only, whatever its seek-compaction option: once the iterators obtained before have been
   released and the background work has drained, nothing done afterwards (short of re-opening read-write)
   issues a mutation *)
Lemma ro_quiesces : forall s d db l,
  reachable s -> nth_error (dbs s) d = Some db -> dmode db = RSwitched ->
  iters_released db = true ->
  forallb no_rw_open l = true ->
  let s1 := fst (step true s (CDrain d)) in
  mlog (stor (run true s1 l)) = mlog (stor s1).
Proof.
  intros s d db l R E M IR NR s1.
  pose proof (reachable_wf _ R) as W.
  assert (W1 : wf s1) by (apply step_wf; assumption).
  apply run_quiet; [assumption| |assumption].
  subst s1. cbn [step]. rewrite E. unfold drain_db.
  assert (NCl : dmode db <> Closed) by congruence.
  assert (Oth : forall d' db', d' <> d -> nth_error (dbs s) d' = Some db' -> quietb db' = true).
  { intros d' db' N E'. unfold quietb. now rewrite (wf_others_closed _ _ _ _ _ W E NCl N E'). }
  unfold quiet. apply Forall_forall. intros x I. destruct (In_nth_error _ _ I) as [d' E']. clear I.
  destruct (dbg db) eqn:B; cbn [fst dbs] in E'.
  - destruct (PeanoNat.Nat.eq_dec d' d) as [->|N].
    + rewrite (nth_error_upd_same _ _ _ _ _ E) in E'. injection E' as <-.
      unfold quietb; cbn. rewrite M. cbn. apply iters_released_pins. exact IR.
    + rewrite nth_error_upd_other in E' by congruence. eauto.
  - rewrite (upd_id _ _ _ _ E) in E'.
    destruct (PeanoNat.Nat.eq_dec d' d) as [->|N]; [|eauto].
    rewrite E in E'. injection E' as <-. unfold quietb. rewrite M, B. cbn.
    apply iters_released_pins. exact IR.
Qed.

(* ---------------------------------------------------------------- released handles report their own errors *)

Lemma released_snapshot_reports : forall s d db h m,
  nth_error (dbs s) d = Some db -> nth_error (dsnaps db) h = Some true ->
  m = SnGet \/ m = SnHas \/ m = SnNewIterator ->
  snd (step true s (CApi d h m)) = ErrSnapshotReleased /\ stor (fst (step true s (CApi d h m))) = stor s.
Proof.
  intros s d db h m E H Hm.
  destruct (local_snap_released db h m H Hm) as (db' & LS & MD & _).
  rewrite (step_api_eq _ _ _ _ _ _ _ _ E LS). cbn [fst snd stor]. rewrite MD.
  destruct (is_closed (dmode db)); cbn; auto.
Qed.

Lemma released_iterator_reports : forall s d db h i m,
  nth_error (dbs s) d = Some db -> nth_error (diters db) h = Some i ->
  irel i = true -> ierr i = Ok -> it_move m = true ->
  let s' := fst (step true s (CApi d h m)) in
  snd (step true s (CApi d h m)) = ErrIterReleased /\ stor s' = stor s /\
  (* and the error sticks: Error(), Valid(), Key(), Value() and every later movement report it *)
  forall m', it_move m' = true \/ m' = ItValid \/ m' = ItError \/ m' = ItKey \/ m' = ItValue ->
    step true s' (CApi d h m') = (s', ErrIterReleased).
Proof.
  intros s d db h i m E H R Er Mv s'.
  pose proof (local_iter_released db h i m H R Er Mv) as LS.
  subst s'. rewrite (step_api_eq _ _ _ _ _ _ _ _ E LS). cbn [fst snd stor dbs].
  assert (C : negb (is_closed (dmode db)) && is_closed (dmode db) = false) by (destruct (is_closed (dmode db)); reflexivity).
  cbn [dmode set_iters]. rewrite C. rewrite apply_muts_nil. repeat split.
  intros m' Hm'.
  set (i' := mkIter (ik i) true ErrIterReleased (ihasr i) (iver i)).
  set (db' := set_iters db (upd (diters db) h i')).
  assert (E' : nth_error (upd (dbs s) d db') d = Some db') by (eapply nth_error_upd_same; eauto).
  assert (H' : nth_error (diters db') h = Some i') by (cbn; eapply nth_error_upd_same; eauto).
  assert (NE : ierr i' <> Ok) by (cbn; discriminate).
  pose proof (local_iter_sticky db' h i' m' H' NE Hm') as LS'.
  erewrite step_api_eq by (cbn [dbs]; eauto). cbn [stor dbs].
  assert (C' : negb (is_closed (dmode db')) && is_closed (dmode db') = false) by (destruct (is_closed (dmode db')); reflexivity).
  rewrite C', apply_muts_nil. cbn [ierr i'].
  f_equal. f_equal. apply upd_id. exact E'.
Qed.

Lemma released_iterator_setreleaser_panics : forall s d db h i b,
  nth_error (dbs s) d = Some db -> nth_error (diters db) h = Some i -> irel i = true ->
  step true s (CApi d h (ItSetReleaser b)) = (s, Panics).
Proof.
  intros s d db h i b E H R.
  rewrite (step_api_eq _ _ _ _ _ _ _ _ E (local_iter_setreleaser_released db h i b H R)).
  assert (C : negb (is_closed (dmode db)) && is_closed (dmode db) = false) by (destruct (is_closed (dmode db)); reflexivity).
  rewrite C, apply_muts_nil, (upd_id _ _ _ _ E), state_eta. reflexivity.
Qed.

Lemma finished_transaction_reports : forall s d db h t m,
  nth_error (dbs s) d = Some db -> nth_error (dtxns db) h = Some t -> tdone t = true -> recv m = RTxn ->
  snd (step true s (CApi d h m)) =
    match m with
    | TrWrite true | TrDiscard => Ok
    | TrCommit => if is_closed (dmode db) then ErrClosed else ErrTransactionDone
    | _ => ErrTransactionDone
    end /\ stor (fst (step true s (CApi d h m))) = stor s.
Proof.
  intros s d db h t m E H D Rc.
  destruct (local_txn_done db h t m H D Rc) as (db' & LS & MD & _).
  rewrite (step_api_eq _ _ _ _ _ _ _ _ E LS). cbn [fst snd stor]. rewrite MD.
  destruct (is_closed (dmode db)); cbn; auto.
Qed.

(* Close finishes every transaction of the DB (db.go Close: db.tr.Discard()) *)
Lemma closed_db_transactions_done : forall s d db h t,
  reachable s -> nth_error (dbs s) d = Some db -> dmode db <> RW -> nth_error (dtxns db) h = Some t -> tdone t = true.
Proof.
  intros s d db h t R E M H.
  pose proof (Forall_nth_error _ _ _ _ _ (wf_db _ (reachable_wf _ R)) E) as Ok0.
  eapply all_done_nth; [apply (ok_txn _ Ok0 M)|eassumption].
Qed.

Lemma closed_db_methods_return_ErrClosed : forall db h m, recv m = RDb -> closed_outcome db h m = ErrClosed.
Proof. intros db h m R. unfold closed_outcome. now rewrite R. Qed.

(* the code BEFORE the repair (parks = false) did not quiesce: witness = create, write, SetReadOnly, drain, then
   a Get followed by a drain -- the Get schedules a seek compaction which the still-running table-compaction
   goroutine executes *)
Lemma ro_quiesces_refuted_before_repair :
  exists s d db l,
    reachable_of false s /\ nth_error (dbs s) d = Some db /\ dmode db = RSwitched /\ iters_released db = true /\
    forallb no_rw_open l = true /\
    let s1 := fst (step false s (CDrain d)) in
    mlog (stor (run false s1 l)) <> mlog (stor s1).
Proof.
  exists (run false (init_state false [] 1%N) [COpen false true; CApi 0 0 DbPut; CApi 0 0 DbSetReadOnly]), 0.
  eexists. exists [CApi 0 0 DbGet; CDrain 0].
  split; [eexists _, _, _, _; reflexivity|].
  split; [vm_compute; reflexivity|].
  split; [reflexivity|]. split; [reflexivity|]. split; [reflexivity|].
  vm_compute. discriminate.
Qed.

(* the same calls on the repaired code leave the mutation log alone (instance of ro_quiesces, by computation) *)
Lemma ro_quiesces_same_calls_repaired :
  let s := run true (init_state false [] 1%N) [COpen false true; CApi 0 0 DbPut; CApi 0 0 DbSetReadOnly] in
  let s1 := fst (step true s (CDrain 0)) in
  mlog (stor (run true s1 [CApi 0 0 DbGet; CDrain 0])) = mlog (stor s1).
Proof. vm_compute. reflexivity. Qed.
