(* Store/FaultsProofs.v — safety of the fault model of Store/Faults.v: the file view and the memory view both
   satisfy the invariant of Store/CrashProofs.v after every step, failing or not; hence every crash image
   (and the clean-close image) of every reachable state recovers every acknowledged batch, only issued
   batches, without sharing of sequence numbers; the guarantee survives dropping errored journal records. *)
From GL Require Import Store.Crash Store.CrashProofs Store.Faults.
From Coq Require Import Arith Lia ZifyN ZifyNat ZifyBool.

(* ---- the pieces preserve the L2 invariant ---- *)
Lemma collapse_eq es :
  collapse es = {| m_jnum := Some (last_jn es 0); m_seq := Some (last_sq es 0); m_tab := mtabs es |}.
Proof. unfold collapse. rewrite replay_man_eq. reflexivity. Qed.

Lemma replay_collapse es : replay_man [collapse es] 0 0 [] = replay_man es 0 0 [].
Proof.
  rewrite !replay_man_eq, collapse_eq. cbn [last_jn last_sq m_jnum m_seq]. rewrite mtabs_single. reflexivity.
Qed.

Lemma pinv_collapse_man p : pinv p -> pinv (collapse_man p).
Proof.
  intros [[fs [ls [[Hf Hl] [Hm Hj]]]] [S1 [S2 S3]] Hfe Ha Hi].
  assert (Full := Hm (length (p_man p)) (conj S2 (le_n _))). rewrite firstn_all in Full.
  unfold collapse_man, set_man.
  constructor; cbn [p_live p_frozen p_fedit p_fseq p_man p_msynced p_seq p_issued p_acked].
  - exists fs, ls. split; [exact (conj Hf Hl)|]. split.
    + unfold man_ok; cbn [p_live p_frozen p_fedit p_man p_msynced]. intros k Hk. cbn [length] in Hk.
      assert (k = 1%nat) by lia. subst k. cbn [firstn]. rewrite collapse_eq.
      cbn [last_jn last_sq m_jnum m_seq]. rewrite mtabs_single. cbn [m_tab]. exact Full.
    + intros Fe. rewrite collapse_eq. cbn [last_jn m_jnum]. apply Hj. exact Fe.
  - cbn [length]. split; [exact S1|lia].
  - exact Hfe.
  - intros b Hb. destruct (Ha b Hb) as [H1|[H1|H1]]; auto. right; right.
    cbn [firstn]. rewrite collapse_eq, mtabs_single. cbn [m_tab].
    rewrite <- (firstn_all (p_man p)). eapply mtabs_firstn_incl; [exact S2|exact H1].
  - intros b Hb. apply Hi. destruct Hb as [Hb|Hb]; [left|right; exact Hb].
    rewrite collapse_eq, mtabs_single in Hb. exact Hb.
Qed.

Lemma pinv_set_acked p a : pinv p -> incl a (p_acked p) -> pinv (set_acked p a).
Proof.
  intros [St Sy Hfe Ha Hi] Hin. unfold set_acked. constructor; cbn [p_live p_frozen p_fedit p_fseq p_man p_msynced p_seq p_issued p_acked]; auto.
Qed.

Lemma pinv_txn_ghost p n : pinv p -> pinv (txn_ghost p n).
Proof.
  intros H0. pose proof H0 as [[fs [ls [[Hf Hl] [Hm Hj]]]] [S1 [S2 S3]] Hfe Ha Hi]. unfold txn_ghost.
  destruct (p_frozen p) as [f|] eqn:Fz; [exact H0|].
  destruct (j_recs (p_live p)) as [|r0 rs] eqn:Lr; [|exact H0].
  destruct (n =? 0) eqn:En; [exact H0|]. apply N.eqb_neq in En.
  cbn in Hl.
  set (b := {| b_seq := p_seq p + 1; b_n := n |}).
  set (e := {| m_jnum := None; m_seq := Some (p_seq p + n); m_tab := [b] |}).
  assert (Full := Hm (length (p_man p)) (conj S2 (le_n _))). psimp. rewrite Fz, firstn_all in Full. cbn zeta in Full.
  destruct Full as (t & F1 & F0 & F2 & F3 & F4).
  constructor; cbn [p_live p_frozen p_fedit p_fseq p_man p_msynced p_seq p_issued p_acked].
  - exists fs, (p_seq p + n + 1). split; [split; [exact I|psimp; rewrite Lr; cbn; lia]|]. split; [|discriminate].
    psimp. intros k Hk. rewrite app_length in Hk. cbn [length] in Hk. cbn zeta.
    destruct (Nat.eq_dec k (length (p_man p) + 1)) as [->|Hne].
    + rewrite firstn_app_all by reflexivity. rewrite last_jn_app, last_sq_app, mtabs_app, mtabs_single. cbn [e m_jnum m_seq m_tab].
      exists (p_seq p + n + 1). split; [|split; [lia|split; [exact F2|split; lia]]].
      eapply gchain_app; [exact F1|]. cbn. repeat split; lia.
    + rewrite firstn_app_le by lia. assert (Hk' : (p_msynced p <= k <= length (p_man p))%nat) by lia.
      specialize (Hm k Hk'). rewrite Fz in Hm. cbn zeta in Hm. destruct Hm as (t' & M1 & M0 & M2 & M3 & M4).
      exists t'. split; [exact M1|]. split; [exact M0|]. split; [exact M2|]. split; lia.
  - split; [rewrite Lr; exact S1|]. rewrite app_length. cbn. lia.
  - discriminate.
  - intros x Hx. destruct (Ha x Hx) as [H1|[[f' [Ef _]]|H1]]; [rewrite firstn_nil in H1; destruct H1|discriminate|].
    right; right. rewrite firstn_app_le by exact S2. exact H1.
  - intros x Hx. apply in_or_app. destruct Hx as [Hx|[Hx|[f' [Ef _]]]]; [| |discriminate].
    + rewrite mtabs_app, mtabs_single in Hx. cbn [e m_tab] in Hx.
      apply in_app_or in Hx as [Hx|[<-|[]]]; [left; apply Hi; left; exact Hx|right; left; reflexivity].
    + rewrite Lr in Hx. destruct Hx.
Qed.

Lemma pinv_drop_unsynced p : pinv p -> pinv (drop_unsynced p).
Proof.
  intros H0. pose proof H0 as [[fs [ls [[Hf Hl] [Hm Hj]]]] [S1 [S2 S3]] Hfe Ha Hi]. unfold drop_unsynced.
  destruct (p_frozen p) as [f|] eqn:Fz; [|exact H0].
  destruct (Nat.eqb (j_synced f) 0 && negb (p_fedit p)) eqn:C; [|exact H0].
  apply andb_prop in C as [C1 C2]. apply Nat.eqb_eq in C1. apply negb_true_iff in C2.
  destruct Hf as (Hfc & Hfn & Hfq & Hfe2). pose proof (gchain_le _ _ _ Hfc) as Fle.
  constructor; cbn [p_live p_frozen p_fedit p_fseq p_man p_msynced p_seq p_issued p_acked].
  - exists fs, ls. split; [split; [exact I|exact Hl]|]. split; [|discriminate].
    psimp. intros k Hk. specialize (Hm k Hk). cbn zeta in *. rewrite Fz, C2 in Hm.
    destruct Hm as (t & M1 & M0 & M2 & M3 & M4 & M5). exists t.
    split; [exact M1|]. split; [exact M0|]. split; [lia|]. split; lia.
  - auto.
  - discriminate.
  - intros x Hx. destruct (Ha x Hx) as [H1|[[f' [Ef H1]]|H1]]; auto.
    injection Ef as <-. rewrite C1 in H1. cbn in H1. destruct H1.
  - intros x [Hx|[Hx|[f' [Ef _]]]]; [apply Hi; left; exact Hx|apply Hi; right; left; exact Hx|discriminate].
Qed.

Lemma drop_unsynced_acked p : p_acked (drop_unsynced p) = p_acked p.
Proof. unfold drop_unsynced. destruct (p_frozen p) as [f|]; [|reflexivity]. destruct (Nat.eqb (j_synced f) 0 && negb (p_fedit p)); reflexivity. Qed.
Lemma drop_unsynced_seq p : p_seq (drop_unsynced p) = p_seq p.
Proof. unfold drop_unsynced. destruct (p_frozen p) as [f|]; [|reflexivity]. destruct (Nat.eqb (j_synced f) 0 && negb (p_fedit p)); reflexivity. Qed.

Lemma pinv_clear_live p : pinv p -> pinv (clear_live p).
Proof.
  intros H0. pose proof H0 as [[fs [ls [[Hf Hl] [Hm Hj]]]] [S1 [S2 S3]] Hfe Ha Hi]. unfold clear_live.
  destruct (j_recs (p_live p)) as [|x [|y r]] eqn:Lr; [exact H0| |exact H0].
  destruct (Nat.eqb (j_synced (p_live p)) 0) eqn:C; [|exact H0]. apply Nat.eqb_eq in C.
  pose proof (gchain_le _ _ _ Hl) as Lle.
  constructor; cbn [p_live p_frozen p_fedit p_fseq p_man p_msynced p_seq p_issued p_acked j_num j_recs j_synced].
  - exists fs, ls. split; [split|split].
    + unfold jstart_ok in *. cbn [p_frozen p_live p_fseq j_num]. destruct (p_frozen p); exact Hf.
    + cbn. exact Lle.
    + exact Hm.
    + exact Hj.
  - cbn. split; [lia|split; assumption].
  - exact Hfe.
  - intros b Hb. destruct (Ha b Hb) as [H1|[H1|H1]]; auto. rewrite C in H1. cbn in H1. destruct H1.
  - intros b [Hb|[[]|Hb]]; apply Hi; auto.
Qed.

Lemma clear_live_acked p : p_acked (clear_live p) = p_acked p.
Proof. unfold clear_live. destruct (j_recs (p_live p)) as [|x [|y r]]; try reflexivity. destruct (Nat.eqb (j_synced (p_live p)) 0); reflexivity. Qed.
Lemma clear_live_seq p : p_seq (clear_live p) = p_seq p.
Proof. unfold clear_live. destruct (j_recs (p_live p)) as [|x [|y r]]; try reflexivity. destruct (Nat.eqb (j_synced (p_live p)) 0); reflexivity. Qed.

(* every acknowledged batch starts at or below the current sequence number *)
Lemma pinv_acked_below p a : pinv p -> In a (p_acked p) -> b_seq a <= p_seq p.
Proof.
  intros [[fs [ls [[Hf Hl] [Hm Hj]]]] [S1 [S2 S3]] Hfe Ha Hi] Hin.
  pose proof (gchain_le _ _ _ Hl) as Lle.
  destruct (Ha a Hin) as [H1|[[f [Ef H1]]|H1]].
  - apply in_firstn in H1. destruct (gchain_in _ _ _ a Hl H1) as (_ & Q & R). lia.
  - rewrite Ef in Hf. destruct Hf as (Hfc & _ & _ & _). apply in_firstn in H1.
    destruct (gchain_in _ _ _ a Hfc H1) as (_ & Q & R). lia.
  - specialize (Hm (p_msynced p) (conj (le_n _) S2)). cbn zeta in Hm. destruct Hm as (t & M1 & M0 & M2 & M3).
    destruct (gchain_in _ _ _ a M1 H1) as (_ & Q & R).
    assert (t <= ls).
    { destruct (p_frozen p) as [f|] eqn:Fz.
      - destruct Hf as (Hfc & _ & _ & _). pose proof (gchain_le _ _ _ Hfc).
        destruct (p_fedit p); [destruct M3 as [(_ & _ & M3)|(_ & _ & M3 & _)]; lia|destruct M3 as (_ & _ & M3); lia].
      - destruct M3; lia. }
    lia.
Qed.

(* every batch found in the files starts at or below the current sequence number *)
Lemma pinv_resident_below p b : pinv p ->
  In b (mtabs (p_man p)) \/ In b (j_recs (p_live p)) \/ (exists f, p_frozen p = Some f /\ In b (j_recs f)) ->
  b_seq b <= p_seq p.
Proof.
  intros [[fs [ls [[Hf Hl] [Hm Hj]]]] [S1 [S2 S3]] Hfe Ha Hi] Hin.
  pose proof (gchain_le _ _ _ Hl) as Lle.
  destruct Hin as [H1|[H1|[f [Ef H1]]]].
  - specialize (Hm (length (p_man p)) (conj S2 (le_n _))). rewrite firstn_all in Hm. cbn zeta in Hm.
    destruct Hm as (t & M1 & M0 & M2 & M3).
    destruct (gchain_in _ _ _ b M1 H1) as (_ & Q & R).
    assert (t <= ls).
    { destruct (p_frozen p) as [f|] eqn:Fz.
      - destruct Hf as (Hfc & _ & _ & _). pose proof (gchain_le _ _ _ Hfc).
        destruct (p_fedit p); [destruct M3 as [(_ & _ & M3)|(_ & _ & M3 & _)]; lia|destruct M3 as (_ & _ & M3); lia].
      - destruct M3; lia. }
    lia.
  - destruct (gchain_in _ _ _ b Hl H1) as (_ & Q & R). lia.
  - rewrite Ef in Hf. destruct Hf as (Hfc & _ & _ & _).
    destruct (gchain_in _ _ _ b Hfc H1) as (_ & Q & R). lia.
Qed.

(* ---- how one L2 step moves the sequence number and the acknowledged list ---- *)
Definition is_restart (o : pop) : bool :=
  match o with PRestart _ _ _ | PReopen => true | _ => false end.

Lemma restart_state_acked s img d : p_acked (restart_state s img d) = p_acked s.
Proof. unfold restart_state. destruct (replay_man (i_man img) 0 0 []) as [[jn sq] tabs]. reflexivity. Qed.

Lemma pstep_acked p o :
  p_acked (pstep p o) = p_acked p \/ exists n, p_acked (pstep p o) = p_acked p ++ [{| b_seq := p_seq p + 1; b_n := n |}].
Proof.
  destruct o; cbn [pstep].
  - destruct (n =? 0); [left; reflexivity|]. destruct sync; cbn [p_acked]; [right; exists n; reflexivity|left; reflexivity].
  - left; reflexivity.
  - destruct (p_frozen p); left; reflexivity.
  - destruct (p_frozen p) as [f|]; [|left; reflexivity]. destruct (last (map Some (j_recs f)) None); [|left; reflexivity].
    destruct (p_fedit p); left; reflexivity.
  - left; reflexivity.
  - match goal with |- context [if ?c then _ else _] => destruct c end; left; reflexivity.
  - destruct (p_frozen p); [left; reflexivity|]. destruct (j_recs (p_live p)); [|left; reflexivity].
    destruct (n =? 0); [left; reflexivity|]. right; exists n; reflexivity.
  - left; reflexivity.
  - left; reflexivity.
  - left. apply restart_state_acked.
  - destruct (Nat.eqb (length (p_man p)) (p_msynced p)); [left; apply restart_state_acked|left; reflexivity].
Qed.

Lemma restart_acked p o : is_restart o = true -> p_acked (pstep p o) = p_acked p.
Proof.
  destruct o; try discriminate; intros _; cbn [pstep]; [apply restart_state_acked|].
  destruct (Nat.eqb (length (p_man p)) (p_msynced p)); [apply restart_state_acked|reflexivity].
Qed.

Lemma pstep_seq_mono p o : is_restart o = false -> p_seq p <= p_seq (pstep p o).
Proof.
  intros Hr. destruct o; cbn [pstep]; try discriminate Hr.
  - destruct (n =? 0); cbn [p_seq]; lia.
  - cbn [p_seq]; lia.
  - destruct (p_frozen p); cbn [p_seq]; lia.
  - destruct (p_frozen p) as [f|]; [|lia]. destruct (last (map Some (j_recs f)) None); [|lia].
    destruct (p_fedit p); cbn [p_seq]; lia.
  - cbn [p_seq]; lia.
  - match goal with |- context [if ?c then _ else _] => destruct c end; cbn [p_seq]; lia.
  - destruct (p_frozen p); [lia|]. destruct (j_recs (p_live p)); [|lia].
    destruct (n =? 0); cbn [p_seq]; lia.
  - cbn [p_seq]; lia.
  - cbn [p_seq]; lia.
Qed.

Lemma pstep_skip_seq p n : p_seq (pstep p (PSkipSeq n)) = p_seq p + n.
Proof. reflexivity. Qed.
Lemma pstep_skip_acked p n : p_acked (pstep p (PSkipSeq n)) = p_acked p.
Proof. reflexivity. Qed.

(* ---- the invariant of the fault model ---- *)
Record finv (s : fstate) : Prop := {
  fi_p : pinv (f_p s);
  fi_m : pinv (f_m s);
  fi_ack : p_acked (f_p s) = p_acked (f_m s);
  fi_seq : f_txn s = None -> p_seq (f_p s) = p_seq (f_m s);
  fi_unk : forall u, In u (f_unknown s) ->
      b_seq u <= p_seq (f_p s) /\ b_seq u <= p_seq (f_m s) /\ ~ In u (p_acked (f_p s))
}.

Lemma finv_init : finv f_init.
Proof. constructor; cbn; auto using pinv_init. intros u []. Qed.

(* flags that the invariant does not mention *)
Lemma finv_ext s s' : finv s -> f_p s' = f_p s -> f_m s' = f_m s -> (f_txn s' = None -> f_txn s = None) ->
  f_unknown s' = f_unknown s -> finv s'.
Proof.
  intros [Hp Hm Ha Hs Hu] E1 E2 E3 E4. constructor; rewrite ?E1, ?E2, ?E4; auto.
Qed.

Lemma finv_both s f d : finv s ->
  (forall p, pinv p -> pinv (f p)) -> (forall p, p_seq (f p) = p_seq p + d) ->
  (forall p, p_acked (f p) = p_acked p \/ exists n, p_acked (f p) = p_acked p ++ [{| b_seq := p_seq p + 1; b_n := n |}]) ->
  p_acked (f (f_p s)) = p_acked (f (f_m s)) ->
  finv (both s f).
Proof.
  intros [Hp Hm Ha Hs Hu] Hpinv Hseq Hack Heq. unfold both. constructor; cbn [f_p f_m f_txn f_unknown]; auto.
  - intros Ht. rewrite !Hseq. rewrite (Hs Ht). reflexivity.
  - intros u Hin. destruct (Hu u Hin) as (U1 & U2 & U3). rewrite !Hseq. split; [lia|]. split; [lia|].
    destruct (Hack (f_p s)) as [->|[n ->]]; [exact U3|].
    intros Hc. apply in_app_or in Hc as [Hc|[Hc|[]]]; [exact (U3 Hc)|]. subst u. cbn in U1. lia.
Qed.

Lemma finv_committed s p' txn gone : finv s -> pinv p' ->
  (forall u, In u (f_unknown s) -> b_seq u <= p_seq p' /\ ~ In u (p_acked p')) ->
  finv (committed s p' txn gone).
Proof.
  intros H Hp' Hu. unfold committed. constructor; cbn [f_p f_m f_txn f_unknown]; auto.
  intros u Hin. destruct (Hu u Hin). auto.
Qed.

Lemma batch_eqb_true a b : batch_eqb a b = true -> a = b.
Proof.
  unfold batch_eqb. intros E. apply andb_prop in E as [E1 E2]. apply N.eqb_eq in E1, E2.
  destruct a, b; cbn in *; subst; reflexivity.
Qed.

Lemma finv_restarted s p : finv s -> pinv p -> p_acked p = p_acked (f_p s) -> finv (restarted p (f_unknown s)).
Proof.
  intros [Hp Hm Ha Hs Hu] H E. unfold restarted. constructor; cbn [f_p f_m f_txn f_unknown]; auto.
  intros u Hin. apply filter_In in Hin as [Hin R]. destruct (Hu u Hin) as (_ & _ & U3).
  assert (B : b_seq u <= p_seq p).
  { apply (pinv_resident_below p u H). unfold resident in R. apply existsb_exists in R as (y & Hy & Ey).
    apply batch_eqb_true in Ey. subst y. apply in_app_or in Hy as [Hy|Hy]; [left; exact Hy|].
    apply in_app_or in Hy as [Hy|Hy]; [right; left; exact Hy|].
    destruct (p_frozen p) as [f|]; [right; right; exists f; split; [reflexivity|exact Hy]|destruct Hy]. }
  rewrite E. auto.
Qed.

(* an extension of the acknowledged list by a batch numbered above [c] avoids the errored records *)
Lemma unk_avoid s (a' : list batch) c : finv s ->
  (a' = p_acked (f_p s) \/ exists n, a' = p_acked (f_p s) ++ [{| b_seq := c + 1; b_n := n |}]) ->
  (forall u, In u (f_unknown s) -> b_seq u <= c) ->
  forall u, In u (f_unknown s) -> ~ In u a'.
Proof.
  intros [Hp Hm Ha Hs Hu] Hext Hc u Hin. destruct (Hu u Hin) as (_ & _ & U3).
  destruct Hext as [->|[n ->]]; [exact U3|].
  intros X. apply in_app_or in X as [X|[X|[]]]; [exact (U3 X)|]. subst u. specialize (Hc _ Hin). cbn in Hc. lia.
Qed.

Lemma collapse_man_acked p : p_acked (collapse_man p) = p_acked p.
Proof. reflexivity. Qed.
Lemma collapse_man_seq p : p_seq (collapse_man p) = p_seq p.
Proof. reflexivity. Qed.

(* a commit that finds manifestFailed: fresh manifest from the memory view *)
Lemma finv_fresh s o txn gone : finv s -> is_restart o = false -> finv (fresh s o txn gone).
Proof.
  intros H Hr. pose proof H as [Hp Hm Ha Hs Hu]. unfold fresh. apply finv_committed; [exact H| |].
  - apply pinv_collapse_man. apply pinv_step. exact Hm.
  - intros u Hin. rewrite collapse_man_seq, collapse_man_acked. destruct (Hu u Hin) as (U1 & U2 & U3). split.
    + pose proof (pstep_seq_mono (f_m s) o Hr). lia.
    + eapply (unk_avoid s _ (p_seq (f_m s)) H); [|intros v Hv; apply (Hu v Hv)|exact Hin].
      rewrite Ha. destruct (pstep_acked (f_m s) o) as [->|[n ->]]; [left; reflexivity|right; exists n; reflexivity].
Qed.

Lemma finv_commit_files s o txn gone : finv s -> is_restart o = false -> finv (committed s (pstep (f_p s) o) txn gone).
Proof.
  intros H Hr. pose proof H as [Hp Hm Ha Hs Hu]. apply finv_committed; [exact H|apply pinv_step; exact Hp|].
  intros u Hin. destruct (Hu u Hin) as (U1 & U2 & U3). split.
  - pose proof (pstep_seq_mono (f_p s) o Hr). lia.
  - eapply (unk_avoid s _ (p_seq (f_p s)) H); [|intros v Hv; apply (Hu v Hv)|exact Hin].
    destruct (pstep_acked (f_p s) o) as [->|[n ->]]; [left; reflexivity|right; exists n; reflexivity].
Qed.

Lemma edit_noack p o : o = PFlushEdit \/ o = PCompactEdit -> p_acked (pstep p o) = p_acked p /\ p_seq (pstep p o) = p_seq p.
Proof.
  intros [->| ->]; cbn [pstep].
  - destruct (p_frozen p) as [f|]; [|split; reflexivity]. destruct (last (map Some (j_recs f)) None); [|split; reflexivity].
    destruct (p_fedit p); split; reflexivity.
  - split; reflexivity.
Qed.

Lemma finv_append_edit s o : finv s -> o = PFlushEdit \/ o = PCompactEdit -> finv (append_edit s o).
Proof.
  intros H Ho. pose proof H as [Hp Hm Ha Hs Hu]. unfold append_edit. destruct (f_pend s); [exact H|].
  destruct (edit_noack (f_p s) o Ho) as [E1 E2].
  constructor; cbn [f_p f_m f_txn f_unknown]; auto.
  - apply pinv_step. exact Hp.
  - rewrite E1. exact Ha.
  - rewrite E2. exact Hs.
  - intros u Hin. rewrite E1, E2. apply Hu. exact Hin.
Qed.

Lemma write_seq p n sync : p_seq (pstep p (PWrite n sync)) = p_seq p + n.
Proof. cbn [pstep]. destruct (n =? 0) eqn:E; cbn [p_seq]; [apply N.eqb_eq in E; lia|reflexivity]. Qed.

Lemma write_acked_eq p q n sync : p_acked p = p_acked q -> p_seq p = p_seq q ->
  p_acked (pstep p (PWrite n sync)) = p_acked (pstep q (PWrite n sync)).
Proof.
  intros E1 E2. cbn [pstep]. destruct (n =? 0); [exact E1|]. destruct sync; cbn [p_acked]; rewrite ?E1, ?E2; reflexivity.
Qed.

Lemma wr_ok_no_txn s : wr_ok s = true -> f_txn s = None.
Proof. unfold wr_ok. destruct (f_txn s); [rewrite andb_false_r; discriminate|reflexivity]. Qed.

Lemma finv_write s n sync : finv s -> wr_ok s = true -> finv (both s (fun p => pstep p (PWrite n sync))).
Proof.
  intros H W. pose proof H as [Hp Hm Ha Hs Hu].
  apply (finv_both s _ n H).
  - intros p Hpi. apply pinv_step. exact Hpi.
  - intros p. apply write_seq.
  - intros p. apply pstep_acked.
  - apply write_acked_eq; [exact Ha|apply Hs; apply wr_ok_no_txn; exact W].
Qed.

Lemma finv_add_unknown s b : finv s ->
  b_seq b <= p_seq (f_p s) -> b_seq b <= p_seq (f_m s) -> ~ In b (p_acked (f_p s)) -> finv (add_unknown s b).
Proof.
  intros [Hp Hm Ha Hs Hu] B1 B2 B3. unfold add_unknown. constructor; cbn [f_p f_m f_txn f_unknown]; auto.
  intros u Hin. apply in_app_or in Hin as [Hin|[<-|[]]]; auto.
Qed.

(* an errored journal record: written without sync, never acknowledged, its sequence numbers consumed *)
Lemma finv_errored_record s n : finv s -> wr_ok s = true -> n <> 0 ->
  finv (add_unknown (both s (fun p => pstep p (PWrite n false))) {| b_seq := p_seq (f_m s) + 1; b_n := n |}).
Proof.
  intros H W Hn. pose proof H as [Hp Hm Ha Hs Hu].
  pose proof (Hs (wr_ok_no_txn s W)) as Eseq.
  apply finv_add_unknown; [apply finv_write; assumption| | |]; unfold both; cbn [f_p f_m b_seq].
  - rewrite write_seq. lia.
  - rewrite write_seq. lia.
  - cbn [pstep]. destruct (n =? 0) eqn:E; [apply N.eqb_eq in E; contradiction|]. cbn [p_acked].
    intros Hin. pose proof (pinv_acked_below _ _ Hp Hin) as Q. cbn in Q. lia.
Qed.

Lemma skip_max_seq p t : p_seq p <= t -> p_seq (pstep p (PSkipSeq (t - p_seq p))) = t.
Proof. intros H. rewrite pstep_skip_seq. lia. Qed.

Lemma txn_ghost_acked p n : p_acked (txn_ghost p n) = p_acked p.
Proof.
  unfold txn_ghost. destruct (p_frozen p); [reflexivity|]. destruct (j_recs (p_live p)); [|reflexivity].
  destruct (n =? 0); reflexivity.
Qed.
Lemma txn_ghost_seq p n : p_seq p <= p_seq (txn_ghost p n).
Proof.
  unfold txn_ghost. destruct (p_frozen p); [lia|]. destruct (j_recs (p_live p)); [|lia].
  destruct (n =? 0); cbn [p_seq]; lia.
Qed.

Lemma pre_txn_facts s q : p_seq (pre_txn s q) = p_seq q /\ p_acked (pre_txn s q) = p_acked q.
Proof. unfold pre_txn. destruct (errored_live s); [split; [apply clear_live_seq|apply clear_live_acked]|split; reflexivity]. Qed.

Lemma finv_pre_txn s : finv s -> finv (both s (pre_txn s)).
Proof.
  intros H. pose proof H as [Hp Hm Ha Hs Hu]. apply (finv_both s _ 0 H).
  - intros p Hpi. unfold pre_txn. destruct (errored_live s); [apply pinv_clear_live|]; exact Hpi.
  - intros p. rewrite (proj1 (pre_txn_facts s p)). lia.
  - intros p. left. apply (proj2 (pre_txn_facts s p)).
  - rewrite !(proj2 (pre_txn_facts s _)). exact Ha.
Qed.

Theorem finv_step s o : finv s -> finv (fstep s o).
Proof.
  intros H. pose proof H as [Hp Hm Ha Hs Hu]. destruct o as [o|n whole|n| |n sync| | |o reached| | |n| |reached|freshok]; cbn [fstep].
  - (* FOk *)
    destruct o as [n sync| | | | | |n| |n|kl kf km|].
    + destruct (wr_ok s) eqn:W; [apply finv_write; assumption|exact H].
    + destruct (f_jfail s); [exact H|]. apply (finv_both s _ 0 H).
      * intros p Hpi. apply pinv_step. exact Hpi.
      * intros p. cbn. lia.
      * intros p. left. reflexivity.
      * exact Ha.
    + destruct (no_txn s); [|exact H].
      assert (R : finv (both s (fun p => pstep p PRotate))).
      { apply (finv_both s _ 0 H).
        - intros p Hpi. apply pinv_step. exact Hpi.
        - intros p. cbn [pstep]. destruct (p_frozen p); cbn [p_seq]; lia.
        - intros p. left. cbn [pstep]. destruct (p_frozen p); reflexivity.
        - cbn [pstep]. destruct (p_frozen (f_p s)), (p_frozen (f_m s)); cbn [p_acked]; exact Ha. }
      destruct (p_frozen (f_m s)); [exact R|]. eapply finv_ext; [exact R| | | |]; first [reflexivity|exact (fun X => X)].
    + destruct (f_mfail s); [apply finv_fresh; [exact H|reflexivity]|apply finv_append_edit; auto].
    + destruct (f_mfail s); [exact H|]. apply finv_commit_files; [exact H|reflexivity].
    + assert (DS : forall q, p_seq (pstep q PDropFrozen) = p_seq q /\ p_acked (pstep q PDropFrozen) = p_acked q).
      { intros q. cbn [pstep]. match goal with |- context [if ?c then _ else _] => destruct c end; split; reflexivity. }
      assert (PS : forall q, p_seq (pre_drop s q) = p_seq q /\ p_acked (pre_drop s q) = p_acked q).
      { intros q. unfold pre_drop. destruct (errored_only s); [split; [apply drop_unsynced_seq|apply drop_unsynced_acked]|split; reflexivity]. }
      apply (finv_both s _ 0 H).
      * intros p Hpi. apply pinv_step. unfold pre_drop. destruct (errored_only s); [apply pinv_drop_unsynced|]; exact Hpi.
      * intros p. rewrite (proj1 (DS _)), (proj1 (PS _)). lia.
      * intros p. left. rewrite (proj2 (DS _)), (proj2 (PS _)). reflexivity.
      * rewrite !(proj2 (DS _)), !(proj2 (PS _)). exact Ha.
    + destruct (no_txn s); [|exact H]. cbv zeta. pose proof (finv_pre_txn s H) as H0. set (s0 := both s (pre_txn s)) in *.
      destruct (f_mfail s0); [apply finv_fresh; [exact H0|reflexivity]|].
      destruct (f_pend s0); [exact H0|]. apply finv_commit_files; [exact H0|reflexivity].
    + destruct (f_mfail s); [apply finv_fresh; [exact H|reflexivity]|apply finv_append_edit; auto].
    + apply (finv_both s _ n H).
      * intros p Hpi. apply pinv_step. exact Hpi.
      * intros p. reflexivity.
      * intros p. left. reflexivity.
      * exact Ha.
    + apply (finv_restarted s _ H); [apply pinv_step; exact Hp|apply restart_acked; reflexivity].
    + destruct (no_txn s); [|exact H]. apply (finv_restarted s _ H); [apply pinv_step; apply pinv_collapse_man; exact Hp|].
      rewrite restart_acked by reflexivity. apply collapse_man_acked.
  - (* FJWrite *)
    destruct (wr_ok s && negb (n =? 0)) eqn:C; [|exact H]. apply andb_prop in C as [W Hn].
    apply negb_true_iff, N.eqb_neq in Hn.
    destruct whole.
    + eapply finv_ext; [apply (finv_errored_record s n H W Hn)| | | |]; first [reflexivity|exact (fun X => X)].
    + assert (R : finv (both s (fun p => pstep p (PSkipSeq n)))).
      { apply (finv_both s _ n H).
        - intros p Hpi. apply pinv_step. exact Hpi.
        - intros p. reflexivity.
        - intros p. left. reflexivity.
        - exact Ha. }
      eapply finv_ext; [exact R| | | |]; first [reflexivity|exact (fun X => X)].
  - (* FJSync *)
    destruct (wr_ok s && negb (n =? 0)) eqn:C; [|exact H]. apply andb_prop in C as [W Hn].
    apply negb_true_iff, N.eqb_neq in Hn.
    eapply finv_ext; [apply (finv_errored_record s n H W Hn)| | | |]; first [reflexivity|exact (fun X => X)].
  - exact H.
  - (* FWriteLate *)
    destruct (wr_ok s) eqn:W; [|exact H].
    apply (finv_both s _ n H).
    + intros p Hpi. apply pinv_set_acked; [apply pinv_step; exact Hpi|].
      destruct (pstep_acked p (PWrite n sync)) as [->|[k ->]]; [apply incl_refl|apply incl_appl, incl_refl].
    + intros p. unfold set_acked. cbn [p_seq]. apply write_seq.
    + intros p. left. reflexivity.
    + exact Ha.
  - exact H.
  - exact H.
  - (* FManFail *)
    destruct o; try exact H.
    + destruct (f_mfail s || f_pend s); [exact H|]. destruct reached.
      * eapply finv_ext; [apply (finv_append_edit s PFlushEdit H); auto| | | |]; first [reflexivity|exact (fun X => X)].
      * eapply finv_ext; [exact H| | | |]; first [reflexivity|exact (fun X => X)].
    + destruct (f_mfail s || f_pend s); [exact H|]. destruct reached.
      * eapply finv_ext; [apply (finv_append_edit s PCompactEdit H); auto| | | |]; first [reflexivity|exact (fun X => X)].
      * eapply finv_ext; [exact H| | | |]; first [reflexivity|exact (fun X => X)].
  - exact H.
  - exact H.
  - (* FTxnBegin *)
    cbv zeta. pose proof (finv_pre_txn s H) as H0.
    destruct (f_txn s) eqn:T; [exact H|]. destruct (p_frozen (f_m (both s (pre_txn s)))); [exact H|].
    destruct (j_recs (p_live (f_m (both s (pre_txn s))))); [|exact H]. destruct (n =? 0); [exact H|].
    eapply finv_ext; [exact H0| | | |]; try reflexivity. cbn. discriminate.
  - (* FTxnCommit *)
    destruct (f_txn s) as [[n fl]|] eqn:T; [|exact H].
    destruct (f_mfail s); [apply finv_fresh; [exact H|reflexivity]|].
    destruct (f_pend s); [exact H|]. apply finv_commit_files; [exact H|reflexivity].
  - (* FTxnCommitFail *)
    destruct (f_txn s) as [[n fl]|] eqn:T; [|exact H].
    destruct (f_mfail s).
    + eapply finv_ext; [exact H| | | |]; try reflexivity. cbn. discriminate.
    + destruct (f_pend s); [exact H|].
      constructor; cbn [f_p f_m f_txn f_unknown]; auto.
      * destruct reached; [apply pinv_txn_ghost; exact Hp|exact Hp].
      * destruct reached; [rewrite txn_ghost_acked|]; exact Ha.
      * discriminate.
      * intros u Hin. destruct (Hu u Hin) as (U1 & U2 & U3).
        destruct reached; [rewrite txn_ghost_acked; pose proof (txn_ghost_seq (f_p s) n)|]; repeat split; auto; lia.
  - (* FTxnDiscard *)
    destruct (f_txn s) as [[n failed]|] eqn:T; [|exact H].
    set (t := N.max (p_seq (f_p s)) (p_seq (f_m s) + (if failed then n else 0))).
    assert (T1 : p_seq (f_p s) <= t) by (unfold t; lia).
    assert (T2 : p_seq (f_m s) <= t) by (unfold t; lia).
    set (m1 := pstep (f_m s) (PSkipSeq (t - p_seq (f_m s)))).
    set (p1 := pstep (f_p s) (PSkipSeq (t - p_seq (f_p s)))).
    assert (Sm : p_seq m1 = t) by (apply skip_max_seq; exact T2).
    assert (Sp : p_seq p1 = t) by (apply skip_max_seq; exact T1).
    assert (Pm : pinv m1) by (apply pinv_step; exact Hm).
    assert (Pp : pinv p1) by (apply pinv_step; exact Hp).
    assert (Base : forall jf mf pd gn,
      finv {| f_p := p1; f_m := m1; f_jfail := jf; f_mfail := mf; f_pend := pd; f_txn := None; f_unknown := f_unknown s; f_gone := gn |}).
    { intros jf mf pd gn. constructor; cbn [f_p f_m f_txn f_unknown]; auto.
      - intros _. rewrite Sm, Sp. reflexivity.
      - intros u Hin. destruct (Hu u Hin) as (U1 & U2 & U3). rewrite Sm, Sp. repeat split; auto; lia. }
    destruct failed; [|apply Base].
    destruct (f_mfail s); [|apply Base].
    destruct freshok; [|apply Base].
    apply finv_committed; [exact H|apply pinv_collapse_man; exact Pm|].
    intros u Hin. destruct (Hu u Hin) as (U1 & U2 & U3). rewrite collapse_man_seq, collapse_man_acked, Sm.
    split; [lia|]. unfold m1. rewrite pstep_skip_acked, <- Ha. exact U3.
Qed.

Theorem finv_run_from s ops : finv s -> finv (frun_from s ops).
Proof.
  unfold frun_from. revert s. induction ops as [|o ops IH]; intros s H; cbn [fold_left]; [exact H|].
  apply IH. apply finv_step. exact H.
Qed.

Theorem finv_run ops : finv (frun ops).
Proof. apply finv_run_from. apply finv_init. Qed.

(* ---- safety ---- *)
Lemma sublist_refl {A} (l : list A) : sublist l l.
Proof. induction l; constructor; assumption. Qed.

Lemma sublist_in {A} (l1 l2 : list A) x : sublist l1 l2 -> In x l1 -> In x l2.
Proof.
  induction 1 as [|y l1 l2 _ IH|y l1 l2 _ IH]; intros Hin; [exact Hin|right; apply IH; exact Hin|].
  destruct Hin as [->|Hin]; [left; reflexivity|right; apply IH; exact Hin].
Qed.

Lemma sorted_b_sublist l1 l2 : sublist l1 l2 -> sorted_b l2 -> sorted_b l1.
Proof.
  induction 1 as [|y l1 l2 Hs IH|y l1 l2 Hs IH]; intros S; cbn [sorted_b] in *; [exact I|apply IH; apply S|].
  destruct S as [S1 S2]. split; [|apply IH; exact S2].
  intros b Hb. apply S1. eapply sublist_in; [exact Hs|exact Hb].
Qed.

Lemma batch_eq_dec (a b : batch) : {a = b} + {a <> b}.
Proof.
  destruct a as [s1 n1], b as [s2 n2].
  destruct (N.eq_dec s1 s2) as [->|N1]; [|right; intros E; injection E; intros; contradiction].
  destruct (N.eq_dec n1 n2) as [->|N2]; [left; reflexivity|right; intros E; injection E; intros; contradiction].
Qed.

(* For every state satisfying the invariant and every admissible image of its files: whatever list L a
   recovery returns that differs from the model's recovery only by missing errored journal records, L holds
   every acknowledged batch, only issued batches, strictly ordered by sequence number. *)
Theorem faults_safe_inv s img L : finv s -> is_image (f_p s) img ->
  sublist L (recover img) -> (forall b, In b (recover img) -> ~ In b L -> In b (f_unknown s)) ->
  (forall b, In b (p_acked (f_p s)) -> In b L) /\
  (forall b, In b L -> In b (p_issued (f_p s))) /\
  sorted_b L.
Proof.
  intros H Him Hsub Hdrop. pose proof H as [Hp Hm Ha Hs Hu].
  destruct (crash_safe_inv (f_p s) img Hp Him) as (C1 & C2 & C3).
  split; [|split].
  - intros b Hb. destruct (in_dec batch_eq_dec b L) as [Hin|Hnin]; [exact Hin|].
    exfalso. destruct (Hu b (Hdrop b (C1 b Hb) Hnin)) as (_ & _ & U3). exact (U3 Hb).
  - intros b Hb. apply C2. eapply sublist_in; [exact Hsub|exact Hb].
  - eapply sorted_b_sublist; [exact Hsub|exact C3].
Qed.

Theorem faults_safe ops img L : is_image (f_p (frun ops)) img ->
  sublist L (recover img) -> (forall b, In b (recover img) -> ~ In b L -> In b (f_unknown (frun ops))) ->
  (forall b, In b (p_acked (f_p (frun ops))) -> In b L) /\
  (forall b, In b L -> In b (p_issued (f_p (frun ops)))) /\
  sorted_b L.
Proof. apply faults_safe_inv. apply finv_run. Qed.

(* the model's own recovery is one such list *)
Corollary faults_safe_max ops img : is_image (f_p (frun ops)) img ->
  (forall b, In b (p_acked (f_p (frun ops))) -> In b (recover img)) /\
  (forall b, In b (recover img) -> In b (p_issued (f_p (frun ops)))) /\
  sorted_b (recover img).
Proof.
  intros Him. apply (faults_safe ops img (recover img) Him (sublist_refl _)). intros b Hb Hn. contradiction.
Qed.

(* heal + clean close: the image that keeps every written byte is admissible *)
Theorem faults_clean_close_is_image ops :
  let p := f_p (frun ops) in
  is_image p (mk_image p (length (j_recs (p_live p))) (match p_frozen p with Some f => length (j_recs f) | None => 0%nat end)
                         (length (p_man p))).
Proof. cbn zeta. apply clean_close_is_image. apply (fi_p _ (finv_run ops)). Qed.

(* ---- acknowledgements are recorded and never forgotten ---- *)
Lemma pstep_acked_incl p o : incl (p_acked p) (p_acked (pstep p o)).
Proof. destruct (pstep_acked p o) as [->|[n ->]]; [apply incl_refl|apply incl_appl, incl_refl]. Qed.

Lemma fresh_incl s x t g : p_acked (f_p s) = p_acked (f_m s) -> incl (p_acked (f_p s)) (p_acked (f_p (fresh s x t g))).
Proof. intros Ha. unfold fresh, committed. cbn [f_p]. rewrite collapse_man_acked, Ha. apply pstep_acked_incl. Qed.

Theorem acked_monotone s o : finv s -> incl (p_acked (f_p s)) (p_acked (f_p (fstep s o))).
Proof.
  intros [Hp Hm Ha Hs Hu].
  assert (Fr : forall x t g, incl (p_acked (f_p s)) (p_acked (f_p (fresh s x t g)))).
  { intros x t g. unfold fresh, committed. cbn [f_p]. rewrite collapse_man_acked, Ha. apply pstep_acked_incl. }
  assert (Ap : forall x, incl (p_acked (f_p s)) (p_acked (f_p (append_edit s x)))).
  { intros x. unfold append_edit. destruct (f_pend s); [apply incl_refl|]. cbn [f_p]. apply pstep_acked_incl. }
  destruct o as [o|n whole|n| |n sync| | |o reached| | |n| |reached|freshok]; cbn [fstep]; try apply incl_refl.
  - destruct o as [n sync| | | | | |n| |n|kl kf km|].
    + destruct (wr_ok s); [apply pstep_acked_incl|apply incl_refl].
    + destruct (f_jfail s); [apply incl_refl|apply pstep_acked_incl].
    + destruct (no_txn s); [|apply incl_refl]. destruct (p_frozen (f_m s)); apply pstep_acked_incl.
    + destruct (f_mfail s); [apply Fr|apply Ap].
    + destruct (f_mfail s); [apply incl_refl|apply pstep_acked_incl].
    + eapply incl_tran; [|apply pstep_acked_incl]. unfold pre_drop. destruct (errored_only s); [rewrite drop_unsynced_acked|]; apply incl_refl.
    + destruct (no_txn s); [|apply incl_refl]. cbv zeta.
      assert (E0 : p_acked (f_p (both s (pre_txn s))) = p_acked (f_p s)) by apply (proj2 (pre_txn_facts s _)).
      assert (E1 : p_acked (f_m (both s (pre_txn s))) = p_acked (f_m s)) by apply (proj2 (pre_txn_facts s _)).
      set (s0 := both s (pre_txn s)) in *. rewrite <- E0.
      destruct (f_mfail s0); [apply fresh_incl; rewrite E0, E1; exact Ha|].
      destruct (f_pend s0); [apply incl_refl|apply pstep_acked_incl].
    + destruct (f_mfail s); [apply Fr|apply Ap].
    + apply pstep_acked_incl.
    + unfold restarted. cbn [f_p]. apply pstep_acked_incl.
    + destruct (no_txn s); [|apply incl_refl]. unfold restarted. cbn [f_p].
      eapply incl_tran; [|apply pstep_acked_incl]. rewrite collapse_man_acked. apply incl_refl.
  - destruct (wr_ok s && negb (n =? 0)); [|apply incl_refl]. destruct whole; apply pstep_acked_incl.
  - destruct (wr_ok s && negb (n =? 0)); [|apply incl_refl]. apply pstep_acked_incl.
  - destruct (wr_ok s); apply incl_refl.
  - destruct o; try apply incl_refl.
    + destruct (f_mfail s || f_pend s); [apply incl_refl|]. destruct reached; [apply Ap|apply incl_refl].
    + destruct (f_mfail s || f_pend s); [apply incl_refl|]. destruct reached; [apply Ap|apply incl_refl].
  - cbv zeta. destruct (f_txn s); [apply incl_refl|]. destruct (p_frozen (f_m (both s (pre_txn s)))); [apply incl_refl|].
    destruct (j_recs (p_live (f_m (both s (pre_txn s))))); [|apply incl_refl]. destruct (n =? 0); [apply incl_refl|].
    unfold both. cbn [f_p]. rewrite (proj2 (pre_txn_facts s _)). apply incl_refl.
  - destruct (f_txn s) as [[n fl]|]; [|apply incl_refl]. destruct (f_mfail s); [apply Fr|].
    destruct (f_pend s); [apply incl_refl|apply pstep_acked_incl].
  - destruct (f_txn s) as [[n fl]|]; [|apply incl_refl]. destruct (f_mfail s); [apply incl_refl|].
    destruct (f_pend s); [apply incl_refl|]. cbn [f_p]. destruct reached; [rewrite txn_ghost_acked|]; apply incl_refl.
  - destruct (f_txn s) as [[n failed]|]; [|apply incl_refl].
    destruct failed; [destruct (f_mfail s); [destruct freshok|]|]; cbn [f_p committed];
      rewrite ?collapse_man_acked, ?pstep_skip_acked, ?Ha; apply incl_refl.
Qed.

Theorem acked_monotone_run s ops : finv s -> incl (p_acked (f_p s)) (p_acked (f_p (frun_from s ops))).
Proof.
  unfold frun_from. revert s. induction ops as [|o ops IH]; intros s H; cbn [fold_left]; [apply incl_refl|].
  eapply incl_tran; [apply acked_monotone; exact H|]. apply IH. apply finv_step. exact H.
Qed.

(* a synced write that the model lets succeed is acknowledged at once *)
Theorem sync_write_acked s n : wr_ok s = true -> n <> 0 -> fres s (FOk (PWrite n true)) = ROk /\
  In {| b_seq := p_seq (f_p s) + 1; b_n := n |} (p_acked (f_p (fstep s (FOk (PWrite n true))))).
Proof.
  intros W Hn. cbn [fres fstep]. rewrite W. split; [reflexivity|]. unfold both. cbn [f_p pstep].
  destruct (n =? 0) eqn:E; [apply N.eqb_eq in E; contradiction|]. cbn [p_acked]. apply in_or_app. right; left; reflexivity.
Qed.

(* ---- the DB stays usable: from ANY state (whatever failed before), once no fault is active, discarding
   the open transaction, finishing the pending commit and flush, and rotating the journal lead to a state
   that accepts and acknowledges a synced write ---- *)
Lemma last_map_some {A} (l : list A) : l <> [] -> last (map Some l) None <> None.
Proof.
  induction l as [|x r IH]; [congruence|]. intros _. destruct r as [|y r']; [cbn; discriminate|].
  change (last (map Some (x :: y :: r')) None) with (last (map Some (y :: r')) None). apply IH. discriminate.
Qed.

Lemma flush_ensures q f : p_frozen (pstep q PFlushEdit) = Some f -> j_recs f <> [] -> p_fedit (pstep q PFlushEdit) = true.
Proof.
  cbn [pstep]. destruct (p_frozen q) as [g|] eqn:Fz.
  - destruct (last (map Some (j_recs g)) None) eqn:L.
    + destruct (p_fedit q) eqn:Fe; [intros _ _; exact Fe|]. intros _ _. reflexivity.
    + rewrite Fz. intros E Hne. injection E as <-. exfalso. exact (last_map_some _ Hne L).
  - rewrite Fz. discriminate.
Qed.

Lemma drop_after_sync q : (forall f, p_frozen q = Some f -> j_recs f <> [] -> p_fedit q = true) ->
  p_frozen (pstep (pstep q PManSync) PDropFrozen) = None.
Proof.
  intros Hq. cbn [pstep p_frozen p_fedit p_man p_msynced]. rewrite Nat.eqb_refl.
  destruct (p_frozen q) as [f|] eqn:Fz.
  - destruct (j_recs f) as [|r0 rs] eqn:R; [reflexivity|].
    rewrite (Hq f eq_refl ltac:(rewrite R; discriminate)). reflexivity.
  - cbn [orb]. destruct (p_fedit q); cbn [andb]; reflexivity.
Qed.

Lemma drop_none q : p_frozen q = None -> p_frozen (pstep q PDropFrozen) = None.
Proof.
  intros E. cbn [pstep]. match goal with |- context [if ?c then _ else _] => destruct c end; [reflexivity|exact E].
Qed.

Lemma drop_unsynced_cases q : drop_unsynced q = q \/ p_frozen (drop_unsynced q) = None.
Proof.
  unfold drop_unsynced. destruct (p_frozen q) as [f|] eqn:Fz; [|left; reflexivity].
  destruct (Nat.eqb (j_synced f) 0 && negb (p_fedit q)); [right; reflexivity|left; reflexivity].
Qed.

Lemma pre_drop_after_sync s X : (forall f, p_frozen X = Some f -> j_recs f <> [] -> p_fedit X = true) ->
  p_frozen (pstep (pre_drop s (pstep X PManSync)) PDropFrozen) = None.
Proof.
  intros HX. unfold pre_drop. destruct (errored_only s); [|apply drop_after_sync; exact HX].
  destruct (drop_unsynced_cases (pstep X PManSync)) as [-> |E]; [apply drop_after_sync; exact HX|apply drop_none; exact E].
Qed.

Lemma discard_no_txn s b : f_txn (fstep s (FTxnDiscard b)) = None.
Proof.
  cbn [fstep]. destruct (f_txn s) as [[n failed]|] eqn:T; [|exact T].
  destruct failed; [destruct (f_mfail s); [destruct b|]|]; reflexivity.
Qed.

Theorem usable_after_faults s : wr_ok (frun_from s (removelast heal_ops)) = true.
Proof.
  unfold heal_ops, frun_from. cbn [removelast fold_left].
  pose proof (discard_no_txn s true) as T1. set (s1 := fstep s (FTxnDiscard true)) in *.
  (* the four commit steps end with both views equal to a synced state whose flush edit is in place *)
  assert (K : exists X, (forall f, p_frozen X = Some f -> j_recs f <> [] -> p_fedit X = true) /\
            let s4 := fstep (fstep (fstep s1 (FOk PManSync)) (FOk PFlushEdit)) (FOk PManSync) in
            f_m s4 = pstep X PManSync /\ f_p s4 = pstep X PManSync /\ f_txn s4 = None).
  { cbn [fstep]. destruct (f_mfail s1) eqn:MF.
    - (* manifestFailed: the flush commit writes a fresh manifest *)
      rewrite MF. unfold fresh, committed. cbn [f_mfail f_p f_m f_txn].
      exists (collapse_man (pstep (f_m s1) PFlushEdit)). split; [|auto].
      intros f Hf Hne. change (p_frozen (collapse_man (pstep (f_m s1) PFlushEdit))) with (p_frozen (pstep (f_m s1) PFlushEdit)) in Hf.
      change (p_fedit (collapse_man (pstep (f_m s1) PFlushEdit))) with (p_fedit (pstep (f_m s1) PFlushEdit)).
      eapply flush_ensures; eassumption.
    - unfold committed at 3. cbn [f_mfail]. unfold append_edit. cbn [f_pend committed f_p f_m f_mfail f_txn].
      exists (pstep (pstep (f_p s1) PManSync) PFlushEdit). split; [|auto].
      intros f Hf Hne. eapply flush_ensures; eassumption. }
  destruct K as (X & HX & K). cbn zeta in K. destruct K as (K1 & K2 & K3).
  set (s4 := fstep (fstep (fstep s1 (FOk PManSync)) (FOk PFlushEdit)) (FOk PManSync)) in *.
  clearbody s4. cbn [fstep]. unfold no_txn, both. cbn [f_txn f_m f_p]. rewrite K3, K1.
  rewrite (pre_drop_after_sync s4 X HX). unfold wr_ok, set_jfail. cbn [f_jfail f_txn]. rewrite ?K3. reflexivity.
Qed.

(* so the write that follows is acknowledged *)
Corollary usable_write_acked s :
  let s' := frun_from s (removelast heal_ops) in
  fres s' (FOk (PWrite 1 true)) = ROk /\
  In {| b_seq := p_seq (f_p s') + 1; b_n := 1 |} (p_acked (f_p (fstep s' (FOk (PWrite 1 true))))).
Proof. cbn zeta. apply sync_write_acked; [apply usable_after_faults|discriminate]. Qed.

(* ---- recovery never meets a missing table: no manifest image names a table that a discard removed ---- *)
(* [g] is nowhere in the files or buffers of [p], and numbered at or below its sequence number *)
Definition absent (p : pstate) (g : batch) : Prop :=
  b_seq g <= p_seq p /\ ~ In g (mtabs (p_man p)) /\ ~ In g (j_recs (p_live p)) /\
  (forall f, p_frozen p = Some f -> ~ In g (j_recs f)).

Lemma absent_pstep p o g : absent p g -> is_restart o = false -> absent (pstep p o) g.
Proof.
  intros (A1 & A2 & A3 & A4) Hr. assert (Habs : absent p g) by (repeat split; assumption). destruct o; try discriminate Hr; cbn [pstep].
  - destruct (n =? 0); [exact Habs|]. unfold absent; cbn [p_seq p_man p_live p_frozen jappend j_recs].
    split; [lia|]. split; [exact A2|]. split; [|exact A4].
    intros Hin. apply in_app_or in Hin as [Hin|[Hin|[]]]; [exact (A3 Hin)|]. subst g. cbn in A1. lia.
  - exact Habs.
  - destruct (p_frozen p) as [f|] eqn:Fz; [exact Habs|].
    unfold absent; cbn [p_seq p_man p_live p_frozen j_recs]. repeat split; auto.
    intros f E. injection E as <-. exact A3.
  - destruct (p_frozen p) as [f|] eqn:Fz; [|exact Habs].
    destruct (last (map Some (j_recs f)) None); [|exact Habs].
    destruct (p_fedit p); [exact Habs|].
    unfold absent; cbn [p_seq p_man p_live p_frozen]. split; [exact A1|]. split; [|split; [exact A3|intros f0 E; injection E as <-; exact (A4 f eq_refl)]].
    rewrite mtabs_app, mtabs_single. cbn [m_tab]. intros Hin. apply in_app_or in Hin as [Hin|Hin]; [exact (A2 Hin)|].
    exact (A4 f eq_refl Hin).
  - exact Habs.
  - match goal with |- context [if ?c then _ else _] => destruct c end; [|exact Habs].
    unfold absent; cbn [p_seq p_man p_live p_frozen]. repeat split; auto. intros f E. discriminate E.
  - destruct (p_frozen p) as [f|] eqn:Fz; [exact Habs|].
    destruct (j_recs (p_live p)) as [|r0 rs] eqn:Lr; [|exact Habs].
    destruct (n =? 0); [exact Habs|].
    unfold absent; cbn [p_seq p_man p_live p_frozen]. split; [lia|]. split; [|split; [rewrite Lr; exact A3|intros f E; discriminate E]].
    rewrite mtabs_app, mtabs_single. cbn [m_tab]. intros Hin. apply in_app_or in Hin as [Hin|[Hin|[]]]; [exact (A2 Hin)|].
    subst g. cbn in A1. lia.
  - unfold absent; cbn [p_seq p_man p_live p_frozen]. split; [exact A1|]. split; [|split; assumption].
    rewrite mtabs_app, mtabs_single. cbn [m_tab]. rewrite app_nil_r. exact A2.
  - unfold absent; cbn [p_seq p_man p_live p_frozen]. split; [lia|]. exact (conj A2 (conj A3 A4)).
Qed.

Lemma absent_collapse_man p g : absent p g -> absent (collapse_man p) g.
Proof.
  intros (A1 & A2 & A3 & A4). unfold absent, collapse_man, set_man; cbn [p_seq p_man p_live p_frozen].
  repeat split; auto. rewrite collapse_eq, mtabs_single. exact A2.
Qed.

Lemma absent_drop_unsynced p g : absent p g -> absent (drop_unsynced p) g.
Proof.
  intros (A1 & A2 & A3 & A4). unfold drop_unsynced. destruct (p_frozen p) as [f|] eqn:Fz; [|repeat split; auto; rewrite Fz; exact A4].
  destruct (Nat.eqb (j_synced f) 0 && negb (p_fedit p)); [|repeat split; auto; rewrite Fz; exact A4].
  unfold absent; cbn [p_seq p_man p_live p_frozen]. repeat split; auto. intros f0 E. discriminate E.
Qed.

Lemma absent_set_acked p a g : absent p g -> absent (set_acked p a) g.
Proof. intros H. exact H. Qed.

Lemma absent_txn_ghost p n g : absent p g -> absent (txn_ghost p n) g.
Proof.
  intros (A1 & A2 & A3 & A4). assert (Habs : absent p g) by (repeat split; assumption). unfold txn_ghost.
  destruct (p_frozen p) as [f|] eqn:Fz; [exact Habs|].
  destruct (j_recs (p_live p)) as [|r0 rs] eqn:Lr; [|exact Habs].
  destruct (n =? 0); [exact Habs|].
  unfold absent; cbn [p_seq p_man p_live p_frozen]. split; [lia|]. split; [|split; [rewrite Lr; exact A3|intros f E; discriminate E]].
  rewrite mtabs_app, mtabs_single. cbn [m_tab]. intros Hin. apply in_app_or in Hin as [Hin|[Hin|[]]]; [exact (A2 Hin)|].
  subst g. cbn in A1. lia.
Qed.

Lemma above_absent p b : pinv p -> p_seq p < b_seq b ->
  ~ In b (mtabs (p_man p)) /\ ~ In b (j_recs (p_live p)) /\ (forall f, p_frozen p = Some f -> ~ In b (j_recs f)).
Proof.
  intros Hp Hlt. split; [|split].
  - intros Hin. pose proof (pinv_resident_below p b Hp (or_introl Hin)). lia.
  - intros Hin. pose proof (pinv_resident_below p b Hp (or_intror (or_introl Hin))). lia.
  - intros f Ef Hin. pose proof (pinv_resident_below p b Hp (or_intror (or_intror (ex_intro _ f (conj Ef Hin))))). lia.
Qed.

Record ginv (s : fstate) : Prop := {
  gi_txn : forall n fl, f_txn s = Some (n, fl) -> n <> 0 /\ (f_mfail s = false -> p_seq (f_p s) = p_seq (f_m s));
  gi_gone : forall g, In g (f_gone s) -> absent (f_p s) g /\ absent (f_m s) g
}.

Lemma ginv_init : ginv f_init.
Proof. constructor; cbn; [discriminate|intros g []]. Qed.

Lemma ginv_both s f d : ginv s -> (forall p, p_seq (f p) = p_seq p + d) ->
  (forall p g, absent p g -> absent (f p) g) -> ginv (both s f).
Proof.
  intros [Gt Gg] Hseq Hab. unfold both. constructor; cbn [f_p f_m f_txn f_mfail f_gone].
  - intros n fl T. destruct (Gt n fl T) as [N0 E]. split; [exact N0|]. intros MF. rewrite !Hseq, (E MF). reflexivity.
  - intros g Hin. destruct (Gg g Hin). split; apply Hab; assumption.
Qed.

Lemma ginv_committed s p' gone : (forall g, In g gone -> absent p' g) -> ginv (committed s p' None gone).
Proof.
  intros Hab. unfold committed. constructor; cbn [f_p f_m f_txn f_mfail f_gone]; [discriminate|].
  intros g Hin. split; apply Hab; exact Hin.
Qed.

Lemma ginv_committed_txn s p' : ginv s -> (forall g, In g (f_gone s) -> absent p' g) -> ginv (committed s p' (f_txn s) (f_gone s)).
Proof.
  intros [Gt Gg] Hab. unfold committed. constructor; cbn [f_p f_m f_txn f_mfail f_gone].
  - intros n fl T. destruct (Gt n fl T) as [N0 _]. split; [exact N0|reflexivity].
  - intros g Hin. split; apply Hab; exact Hin.
Qed.

Lemma ginv_flags s s' : ginv s -> f_p s' = f_p s -> f_m s' = f_m s -> f_gone s' = f_gone s ->
  (forall n fl, f_txn s' = Some (n, fl) -> n <> 0 /\ (f_mfail s' = false -> p_seq (f_p s) = p_seq (f_m s))) -> ginv s'.
Proof.
  intros [Gt Gg] E1 E2 E3 Ht. constructor; rewrite ?E1, ?E2, ?E3; auto.
Qed.

Lemma absent_clear_live p g : absent p g -> absent (clear_live p) g.
Proof.
  intros (A1 & A2 & A3 & A4). assert (Habs : absent p g) by (repeat split; assumption). unfold clear_live.
  destruct (j_recs (p_live p)) as [|x [|y r]]; try exact Habs.
  destruct (Nat.eqb (j_synced (p_live p)) 0); [|exact Habs].
  unfold absent; cbn [p_seq p_man p_live p_frozen j_recs]. repeat split; auto.
Qed.

Lemma ginv_pre_txn s : ginv s -> ginv (both s (pre_txn s)).
Proof.
  intros G. apply (ginv_both s _ 0 G).
  - intros p. rewrite (proj1 (pre_txn_facts s p)). lia.
  - intros p g Hg. unfold pre_txn. destruct (errored_live s); [apply absent_clear_live|]; exact Hg.
Qed.

Lemma ginv_freshN s x : ginv s -> is_restart x = false -> ginv (committed s (collapse_man (pstep (f_m s) x)) None (f_gone s)).
Proof.
  intros [Gt Gg] Hr. apply ginv_committed. intros g Hin. apply absent_collapse_man, absent_pstep; [apply (Gg g Hin)|exact Hr].
Qed.

Lemma ginv_filesN s x : ginv s -> is_restart x = false -> ginv (committed s (pstep (f_p s) x) None (f_gone s)).
Proof.
  intros [Gt Gg] Hr. apply ginv_committed. intros g Hin. apply absent_pstep; [apply (Gg g Hin)|exact Hr].
Qed.

Theorem ginv_step s o : finv s -> ginv s -> ginv (fstep s o).
Proof.
  intros H G. pose proof H as [Hp Hm Ha Hs Hu]. pose proof G as [Gt Gg].
  assert (Fresh : forall x, is_restart x = false -> ginv (committed s (collapse_man (pstep (f_m s) x)) (f_txn s) (f_gone s))).
  { intros x Hr. apply ginv_committed_txn; [exact G|]. intros g Hin. apply absent_collapse_man, absent_pstep; [apply (Gg g Hin)|exact Hr]. }
  assert (FreshN : forall x, is_restart x = false -> ginv (committed s (collapse_man (pstep (f_m s) x)) None (f_gone s))).
  { intros x Hr. apply ginv_committed. intros g Hin. apply absent_collapse_man, absent_pstep; [apply (Gg g Hin)|exact Hr]. }
  assert (Files : forall x, is_restart x = false -> ginv (committed s (pstep (f_p s) x) (f_txn s) (f_gone s))).
  { intros x Hr. apply ginv_committed_txn; [exact G|]. intros g Hin. apply absent_pstep; [apply (Gg g Hin)|exact Hr]. }
  assert (FilesN : forall x, is_restart x = false -> ginv (committed s (pstep (f_p s) x) None (f_gone s))).
  { intros x Hr. apply ginv_committed. intros g Hin. apply absent_pstep; [apply (Gg g Hin)|exact Hr]. }
  assert (App : forall x, x = PFlushEdit \/ x = PCompactEdit -> ginv (append_edit s x)).
  { intros x Hx. unfold append_edit. destruct (f_pend s); [exact G|].
    destruct (edit_noack (f_p s) x Hx) as [_ E2].
    constructor; cbn [f_p f_m f_txn f_mfail f_gone].
    - intros n fl T. destruct (Gt n fl T) as [N0 E]. split; [exact N0|]. intros MF. rewrite E2. exact (E MF).
    - intros g Hin. destruct (Gg g Hin) as [G1 G2]. split; [|exact G2]. apply absent_pstep; [exact G1|destruct Hx as [-> | ->]; reflexivity]. }
  assert (Restart : forall p u, ginv (restarted p u)).
  { intros p u. unfold restarted. constructor; cbn [f_txn f_gone]; [discriminate|intros g []]. }
  destruct o as [o|n whole|n| |n sync| | |o reached| | |n| |reached|freshok]; cbn [fstep]; try exact G.
  - destruct o as [n sync| | | | | |n| |n|kl kf km|].
    + destruct (wr_ok s); [|exact G]. apply (ginv_both s _ n G); [intros p; apply write_seq|].
      intros p g Hg. apply absent_pstep; [exact Hg|reflexivity].
    + destruct (f_jfail s); [exact G|]. apply (ginv_both s _ 0 G); [intros p; cbn; lia|].
      intros p g Hg. apply absent_pstep; [exact Hg|reflexivity].
    + destruct (no_txn s); [|exact G].
      assert (R : ginv (both s (fun p => pstep p PRotate))).
      { apply (ginv_both s _ 0 G); [intros p; cbn [pstep]; destruct (p_frozen p); cbn [p_seq]; lia|].
        intros p g Hg. apply absent_pstep; [exact Hg|reflexivity]. }
      destruct (p_frozen (f_m s)); [exact R|]. destruct R as [Rt Rg]. constructor; [exact Rt|exact Rg].
    + destruct (f_mfail s); [apply Fresh; reflexivity|apply App; auto].
    + destruct (f_mfail s); [exact G|apply Files; reflexivity].
    + apply (ginv_both s _ 0 G).
      * intros p. assert (E : p_seq (pre_drop s p) = p_seq p) by (unfold pre_drop; destruct (errored_only s); [apply drop_unsynced_seq|reflexivity]).
        assert (D : p_seq (pstep (pre_drop s p) PDropFrozen) = p_seq (pre_drop s p)).
        { cbn [pstep]. match goal with |- context [if ?c then _ else _] => destruct c end; reflexivity. }
        rewrite D, E. lia.
      * intros p g Hg. apply absent_pstep; [|reflexivity]. unfold pre_drop. destruct (errored_only s); [apply absent_drop_unsynced|]; exact Hg.
    + destruct (no_txn s); [|exact G]. cbv zeta. pose proof (ginv_pre_txn s G) as G0. set (s0 := both s (pre_txn s)) in *.
      destruct (f_mfail s0); [apply ginv_freshN; [exact G0|reflexivity]|].
      destruct (f_pend s0); [exact G0|apply ginv_filesN; [exact G0|reflexivity]].
    + destruct (f_mfail s); [apply Fresh; reflexivity|apply App; auto].
    + apply (ginv_both s _ n G); [intros p; reflexivity|]. intros p g Hg. apply absent_pstep; [exact Hg|reflexivity].
    + apply Restart.
    + destruct (no_txn s); [apply Restart|exact G].
  - destruct (wr_ok s && negb (n =? 0)); [|exact G]. destruct whole.
    + assert (R : ginv (both s (fun p => pstep p (PWrite n false)))).
      { apply (ginv_both s _ n G); [intros p; apply write_seq|]. intros p g Hg. apply absent_pstep; [exact Hg|reflexivity]. }
      destruct R as [Rt Rg]. constructor; [exact Rt|exact Rg].
    + assert (R : ginv (both s (fun p => pstep p (PSkipSeq n)))).
      { apply (ginv_both s _ n G); [intros p; reflexivity|]. intros p g Hg. apply absent_pstep; [exact Hg|reflexivity]. }
      destruct R as [Rt Rg]. constructor; [exact Rt|exact Rg].
  - destruct (wr_ok s && negb (n =? 0)); [|exact G].
    assert (R : ginv (both s (fun p => pstep p (PWrite n false)))).
    { apply (ginv_both s _ n G); [intros p; apply write_seq|]. intros p g Hg. apply absent_pstep; [exact Hg|reflexivity]. }
    destruct R as [Rt Rg]. constructor; [exact Rt|exact Rg].
  - destruct (wr_ok s); [|exact G]. apply (ginv_both s _ n G).
    + intros p. unfold set_acked. cbn [p_seq]. apply write_seq.
    + intros p g Hg. apply absent_set_acked, absent_pstep; [exact Hg|reflexivity].
  - (* FManFail: manifestFailed is set, the sequence numbers do not move *)
    destruct o; try exact G.
    + destruct (f_mfail s || f_pend s); [exact G|]. destruct reached.
      * destruct (App PFlushEdit (or_introl eq_refl)) as [At Ag]. constructor; cbn [f_p f_m f_txn f_mfail f_gone]; [|exact Ag].
        intros n fl T. destruct (At n fl T) as [N0 _]. split; [exact N0|discriminate].
      * constructor; cbn [f_p f_m f_txn f_mfail f_gone]; [|exact Gg].
        intros n fl T. destruct (Gt n fl T) as [N0 _]. split; [exact N0|discriminate].
    + destruct (f_mfail s || f_pend s); [exact G|]. destruct reached.
      * destruct (App PCompactEdit (or_intror eq_refl)) as [At Ag]. constructor; cbn [f_p f_m f_txn f_mfail f_gone]; [|exact Ag].
        intros n fl T. destruct (At n fl T) as [N0 _]. split; [exact N0|discriminate].
      * constructor; cbn [f_p f_m f_txn f_mfail f_gone]; [|exact Gg].
        intros n fl T. destruct (Gt n fl T) as [N0 _]. split; [exact N0|discriminate].
  - (* FTxnBegin *)
    cbv zeta. pose proof (ginv_pre_txn s G) as [_ Gg0].
    destruct (f_txn s) eqn:T; [exact G|]. destruct (p_frozen (f_m (both s (pre_txn s)))); [exact G|].
    destruct (j_recs (p_live (f_m (both s (pre_txn s))))); [|exact G]. destruct (n =? 0) eqn:En; [exact G|]. apply N.eqb_neq in En.
    constructor; cbn [f_p f_m f_txn f_mfail f_gone]; [|exact Gg0].
    intros n' fl E. injection E as <- <-. split; [exact En|]. intros _. unfold both. cbn [f_p f_m].
    rewrite !(proj1 (pre_txn_facts s _)). apply Hs. reflexivity.
  - (* FTxnCommit *)
    destruct (f_txn s) as [[n fl]|] eqn:T; [|exact G].
    destruct (f_mfail s); [apply FreshN; reflexivity|]. destruct (f_pend s); [exact G|apply FilesN; reflexivity].
  - (* FTxnCommitFail *)
    destruct (f_txn s) as [[n fl]|] eqn:T; [|exact G]. destruct (Gt n fl eq_refl) as [N0 _].
    destruct (f_mfail s).
    + constructor; cbn [f_p f_m f_txn f_mfail f_gone]; [|exact Gg].
      intros n' fl' E. injection E as <- <-. split; [exact N0|discriminate].
    + destruct (f_pend s); [exact G|]. constructor; cbn [f_p f_m f_txn f_mfail f_gone].
      * intros n' fl' E. injection E as <- <-. split; [exact N0|discriminate].
      * intros g Hin. destruct (Gg g Hin) as [G1 G2]. split; [|exact G2]. destruct reached; [apply absent_txn_ghost|]; exact G1.
  - (* FTxnDiscard *)
    destruct (f_txn s) as [[n failed]|] eqn:T; [|exact G]. destruct (Gt n failed eq_refl) as [N0 Eq].
    set (t := N.max (p_seq (f_p s)) (p_seq (f_m s) + (if failed then n else 0))).
    assert (T1 : p_seq (f_p s) <= t) by (unfold t; lia).
    assert (T2 : p_seq (f_m s) <= t) by (unfold t; lia).
    set (b := {| b_seq := p_seq (f_m s) + 1; b_n := n |}).
    set (m1 := pstep (f_m s) (PSkipSeq (t - p_seq (f_m s)))).
    set (p1 := pstep (f_p s) (PSkipSeq (t - p_seq (f_p s)))).
    assert (Sm : p_seq m1 = t) by (apply skip_max_seq; exact T2).
    assert (Sp : p_seq p1 = t) by (apply skip_max_seq; exact T1).
    assert (Old : forall g, In g (f_gone s) -> absent p1 g /\ absent m1 g).
    { intros g Hin. destruct (Gg g Hin). split; apply absent_pstep; auto. }
    assert (Bm : failed = true -> absent m1 b).
    { intros ->. destruct (above_absent (f_m s) b Hm ltac:(cbn; lia)) as (X1 & X2 & X3).
      unfold absent. rewrite Sm. split; [unfold t; cbn; lia|]. auto. }
    destruct failed.
    + destruct (f_mfail s) eqn:MF.
      * destruct freshok.
        -- apply ginv_committed. intros g Hin. apply absent_collapse_man.
           apply in_app_or in Hin as [Hin|[<-|[]]]; [apply (Old g Hin)|apply Bm; reflexivity].
        -- constructor; cbn [f_p f_m f_txn f_mfail f_gone]; [discriminate|exact Old].
      * constructor; cbn [f_p f_m f_txn f_mfail f_gone]; [discriminate|].
        intros g Hin. apply in_app_or in Hin as [Hin|[<-|[]]]; [apply (Old g Hin)|]. split; [|apply Bm; reflexivity].
        (* no manifestFailed: the files were rebuilt from memory after the failure, both views number alike *)
        specialize (Eq eq_refl).
        destruct (above_absent (f_p s) b Hp ltac:(cbn; lia)) as (X1 & X2 & X3).
        unfold absent. rewrite Sp. split; [unfold t; cbn; lia|]. auto.
    + constructor; cbn [f_p f_m f_txn f_mfail f_gone]; [discriminate|exact Old].
Qed.

Theorem ginv_run ops : ginv (frun ops).
Proof.
  unfold frun, frun_from.
  assert (Gen : forall s, finv s -> ginv s -> ginv (fold_left fstep ops s)).
  { induction ops as [|o ops IH]; intros s H G; cbn [fold_left]; [exact G|].
    apply IH; [apply finv_step; exact H|apply ginv_step; assumption]. }
  apply Gen; [apply finv_init|apply ginv_init].
Qed.

(* Open never finds the manifest naming a removed table: recovery of every admissible image succeeds *)
Theorem recovery_succeeds ops img : is_image (f_p (frun ops)) img ->
  frecover (frun ops) img = Some (recover img).
Proof.
  intros Him. unfold frecover. destruct (names_gone (frun ops) img) eqn:N; [exfalso|reflexivity].
  unfold names_gone in N. apply existsb_exists in N as (g & Hg & N). apply existsb_exists in N as (x & Hx & E).
  apply batch_eqb_true in E. subst x.
  destruct (gi_gone _ (ginv_run ops) g Hg) as [(_ & A2 & _) _].
  destruct Him as (_ & _ & k & _ & E). rewrite E in Hx. apply A2.
  change (concat (map m_tab (firstn k (p_man (f_p (frun ops)))))) with (mtabs (firstn k (p_man (f_p (frun ops))))) in Hx.
  rewrite <- (firstn_all (p_man (f_p (frun ops)))).
  destruct (Nat.le_gt_cases k (length (p_man (f_p (frun ops))))) as [Hle|Hgt].
  - eapply mtabs_firstn_incl; [exact Hle|exact Hx].
  - rewrite firstn_all. rewrite firstn_all2 in Hx by lia. exact Hx.
Qed.
