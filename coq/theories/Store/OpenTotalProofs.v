(* Store/OpenTotalProofs.v — read-write Open (Store/OpenPath.v open_rw) RETURNS a DB on every well-formed crash
   image: totality.  Proof file.

   The side conditions, each stated on the image and discharged through the whole of recoverJournal by one
   invariant (tinv):
     - sessionRecord.encode is given no negative number: the numbers the manifest prefix leaves (journal number,
       next file number, every live table's number and size) are not negative, and everything the recovery adds is
       a counter value above them or a length;
     - versionStaging / setCompPtr index no negative level: the recovery adds tables at level 0 only and fills the
       snapshot record with the version's own level positions;
     - session.flushMemdb's table writer accepts the buffer (Store/OpenRwProofs.v flush_memdb_total);
     - checkAndCleanFiles finds every table the final version names: the tables the manifest prefix names exist in
       the image (image_tabs_ok), the recovery's own tables are created before the edit that names them, nothing
       removes a table file, and the storage lists a name once (NoDup of the names). *)
From Coq Require Import List NArith ZArith Bool Lia Permutation.
From GL Require Import Base.Bytes Base.Order Codec.IKey Codec.Journal Codec.JournalSpec Codec.JournalProofs
  Codec.Batch Codec.SessionRecordSpec Codec.SessionRecordProofs
  Lsm.Lsm Lsm.ReadPath Lsm.ReadPathMem Lsm.BatchWriteProofs
  Store.CrashProofs Store.CrashBytes Store.ManifestReplayProofs
  Store.OpenPath Store.OpenJournalProofs Store.OpenPathProofs Store.OpenRwProofs.
From GL Require Mem.MemDB Store.Sweep Store.SweepProofs.
Import ListNotations.
Open Scope N_scope.

(* ---------------------------------------------------------------- files *)
Lemma f_lookup_set_same fs x d : f_lookup (f_set fs x d) x = Some d.
Proof.
  unfold f_set. cbn [f_lookup].
  replace (SW.fd_eqb x x) with true; [reflexivity|]. symmetry. apply fd_eqb_eq. reflexivity.
Qed.

Lemma f_lookup_set_keeps fs x d y : f_lookup fs y <> None -> f_lookup (f_set fs x d) y <> None.
Proof.
  intros H. destruct (SW.fd_eqb y x) eqn:E.
  - apply fd_eqb_eq in E. subst y. rewrite f_lookup_set_same. discriminate.
  - rewrite f_lookup_set_other; [exact H|]. intros ->. rewrite (proj2 (fd_eqb_eq x x) eq_refl) in E. discriminate.
Qed.

Lemma in_keys_del fs x k : In k (map fst (f_del fs x)) -> In k (map fst fs) /\ k <> x.
Proof.
  unfold f_del. intros H. apply in_map_iff in H as (e & <- & He). apply filter_In in He as (He & Hn).
  split; [apply in_map; exact He|]. intros E. rewrite E in Hn. rewrite (proj2 (fd_eqb_eq x x) eq_refl) in Hn. discriminate.
Qed.

Lemma nodup_del fs x : NoDup (map fst fs) -> NoDup (map fst (f_del fs x)).
Proof.
  induction fs as [|e fs IH]; cbn [map f_del filter]; [intros H; exact H|].
  intros H. inversion H as [|? ? Hni Hnd]; subst.
  destruct (negb (SW.fd_eqb x (fst e))); cbn [map]; [|exact (IH Hnd)].
  constructor; [|exact (IH Hnd)]. intros Hin. apply Hni. exact (proj1 (in_keys_del fs x _ Hin)).
Qed.

Lemma nodup_set fs x d : NoDup (map fst fs) -> NoDup (map fst (f_set fs x d)).
Proof.
  intros H. unfold f_set. cbn [map fst]. constructor; [|apply nodup_del; exact H].
  intros Hin. exact (proj2 (in_keys_del fs x x Hin) eq_refl).
Qed.

Lemma fd_insert_perm x l : Permutation (x :: l) (fd_insert x l).
Proof.
  induction l as [|y l IH]; cbn [fd_insert]; [apply Permutation_refl|].
  destruct (fd_lt x y); [apply Permutation_refl|].
  eapply perm_trans; [apply perm_swap|]. apply perm_skip. exact IH.
Qed.

Lemma f_list_perm fs : Permutation (map fst fs) (f_list fs).
Proof.
  unfold f_list. induction (map fst fs) as [|x l IH]; cbn [fold_right]; [apply Permutation_refl|].
  eapply perm_trans; [apply perm_skip; exact IH|]. apply fd_insert_perm.
Qed.

Lemma f_lookup_in fs x : f_lookup fs x <> None -> In x (map fst fs).
Proof.
  induction fs as [|[y d] fs IH]; cbn [f_lookup map fst]; [intros H; contradiction H; reflexivity|].
  destruct (SW.fd_eqb x y) eqn:E; [intros _; left; symmetry; apply fd_eqb_eq; exact E|].
  intros H. right. exact (IH H).
Qed.

(* table files are kept from fs to fs' *)
Definition tabs_kept (fs fs' : files) : Prop :=
  forall t, f_lookup fs (SW.FTable, t) <> None -> f_lookup fs' (SW.FTable, t) <> None.

Lemma tabs_kept_refl fs : tabs_kept fs fs.
Proof. intros t H. exact H. Qed.
Lemma tabs_kept_trans a b c : tabs_kept a b -> tabs_kept b c -> tabs_kept a c.
Proof. intros H1 H2 t H. exact (H2 t (H1 t H)). Qed.
Lemma tabs_kept_set fs x d : tabs_kept fs (f_set fs x d).
Proof. intros t H. apply f_lookup_set_keeps. exact H. Qed.
Lemma tabs_kept_del_manifest fs m : tabs_kept fs (f_del fs (SW.FManifest, m)).
Proof. intros t H. rewrite f_lookup_del_other; [exact H|discriminate]. Qed.
Lemma tabs_kept_del_journal fs m : tabs_kept fs (f_del fs (SW.FJournal, m)).
Proof. intros t H. rewrite f_lookup_del_other; [exact H|discriminate]. Qed.

(* ---------------------------------------------------------------- small facts about the sorts and the staging *)
Lemma ins_by_in less (t x : SR.atrec) l : In x (ins_by less t l) <-> x = t \/ In x l.
Proof.
  induction l as [|y l IH]; cbn [ins_by In]; [intuition|].
  destruct (less t y); cbn [In]; [intuition|]. rewrite IH. intuition.
Qed.

Lemma sort_by_in less (x : SR.atrec) l : In x (sort_by less l) <-> In x l.
Proof.
  unfold sort_by. induction l as [|y l IH]; cbn [fold_right In]; [reflexivity|].
  rewrite ins_by_in, IH. intuition.
Qed.

Lemma sort_level_in c i (x : SR.atrec) l : In x (sort_level c i l) <-> In x l.
Proof. destruct i; cbn [sort_level]; apply sort_by_in. Qed.

Lemma trim_levels_in L : forall l, In l (SR.trim_levels L) -> In l L.
Proof.
  induction L as [|x r IH]; cbn [SR.trim_levels]; [intros l []|].
  intros l. destruct (SR.trim_levels r) as [|y r'] eqn:E.
  - destruct x; [intros []|]. intros [<-|[]]. left; reflexivity.
  - intros [<-|H]; [left; reflexivity|right; apply IH; exact H].
Qed.

Lemma nth_in_concat {A} (L : list (list A)) i x : In x (nth i L []) -> In x (concat L).
Proof.
  intros H. destruct (nth_in_or_default i L []) as [Hin|E]; [|rewrite E in H; destruct H].
  apply in_concat. exists (nth i L []). split; assumption.
Qed.

Section Staging.
  Variable rp : SR.rparams.

  Lemma pfold_add_total adds : Forall (fun t => (0 <= SR.at_level t)%Z) adds -> forall stg,
    exists stg', SR.pfold SR.commit_add adds stg = SR.POk stg' /\
      forall i x, In x (SR.sc_added (nth i stg' SR.sc_empty)) ->
                  In x (SR.sc_added (nth i stg SR.sc_empty)) \/ In (snd x) adds.
  Proof.
    induction 1 as [|t adds Ht Hr IH]; intros stg; cbn [SR.pfold].
    - exists stg. split; [reflexivity|]. intros i x H. left; exact H.
    - unfold SR.commit_add at 1, SR.grow_levels. replace (SR.at_level t <? 0)%Z with false by lia. cbn [SR.pbind].
      set (n := Z.to_nat (SR.at_level t)). set (lv := stg ++ repeat SR.sc_empty (S n - length stg)).
      destruct (IH (SR.upd_nth n (fun sc => SR.mksc (SR.map_put (SR.at_num t) t (SR.sc_added sc))
                                                      (SR.set_del (SR.at_num t) (SR.sc_deleted sc))) lv)) as (stg' & E & Hin).
      exists stg'. split; [exact E|]. intros i x Hx. destruct (Hin i x Hx) as [H|H]; [|right; right; exact H].
      destruct (Nat.eq_dec i n) as [->|Hne].
      + rewrite nth_upd_same in H by (unfold lv, n; apply grown_length). cbn [SR.sc_added SR.map_put] in H.
        destruct H as [<-|H]; [right; left; reflexivity|]. left. unfold lv in H. rewrite nth_grow in H.
        unfold SR.map_del in H. apply filter_In in H. exact (proj1 H).
      + rewrite nth_upd_other in H by exact Hne. unfold lv in H. rewrite nth_grow in H. left; exact H.
  Qed.

  Lemma finish_level_in base sc x : In x (SR.finish_level base sc) -> In x base \/ In x (map snd (SR.sc_added sc)).
  Proof.
    unfold SR.finish_level. destruct (SR.sc_added sc) as [|a l].
    - destruct (SR.sc_deleted sc); [intros H; left; exact H|].
      intros H. apply in_app_or in H as [H|H]; [left; apply filter_In in H; exact (proj1 H)|right; exact H].
    - intros H. apply in_app_or in H as [H|H]; [left; apply filter_In in H; exact (proj1 H)|right; exact H].
  Qed.

  Lemma finish_go_in c base stg x : In x (concat (finish_go c base stg)) ->
    In x (concat base) \/ exists i y, In y (SR.sc_added (nth i stg SR.sc_empty)) /\ snd y = x.
  Proof.
    unfold finish_go. intros H. apply in_concat in H as (l & Hl & Hx).
    apply trim_levels_in in Hl. apply in_map_iff in Hl as (i & <- & _).
    unfold finish_level_go in Hx.
    assert (Hf : In x (SR.finish_level (nth i base []) (nth i stg SR.sc_empty))).
    { destruct (SR.sc_added (nth i stg SR.sc_empty)); [exact Hx|]. apply sort_level_in in Hx. exact Hx. }
    apply finish_level_in in Hf as [Hf|Hf].
    - left. exact (nth_in_concat base i x Hf).
    - right. apply in_map_iff in Hf as (y & Ey & Hy). exists i, y. split; assumption.
  Qed.

  Lemma pfold_cps_total cs : Forall (fun c => (0 <= SR.cp_level c)%Z) cs -> forall cps,
    exists cps', SR.pfold SR.set_comp_ptr cs cps = SR.POk cps'.
  Proof.
    induction 1 as [|x cs Hx Hr IH]; intros cps; cbn [SR.pfold]; [eexists; reflexivity|].
    unfold SR.set_comp_ptr at 1. replace (SR.cp_level x <? 0)%Z with false by lia. cbn [SR.pbind]. apply IH.
  Qed.

  Lemma oconcat_some l : Forall (fun x : option bytes => x <> None) l -> exists b, SR.oconcat l = Some b.
  Proof.
    induction 1 as [|x l Hx Hl (b & E)]; cbn [SR.oconcat]; [eexists; reflexivity|].
    destruct x as [a|]; [|contradiction Hx; reflexivity]. cbn [SR.obind]. rewrite E. cbn [SR.obind]. eexists; reflexivity.
  Qed.

  Lemma put_varint_some x : (0 <= x)%Z -> exists b, SR.put_varint x = Some b.
  Proof. intros H. unfold SR.put_varint. replace (x <? 0)%Z with false by lia. eexists; reflexivity. Qed.
End Staging.

Section OpenTotal.
  Variable jcrc : bytes -> N.
  Variable jp : jparams.
  Hypothesis jpok : jparams_ok jp.
  Variable rp : SR.rparams.
  Hypothesis rpok : rparams_ok rp.
  Variable kp : kparams.
  Hypothesis kpok : kparams_ok kp.
  Hypothesis seek_val : keyTypeSeek kp <= keyTypeVal kp.
  Variable mp : MemDB.mparams.
  Hypothesis mpok : MemDB.mparams_ok mp.
  Variable tp : Table.tparams.
  Variable tcrc : bytes -> N.
  Variable compress : bytes -> bytes.
  Variable snappy : bool.
  Variable fgen : option (bytes * (list (N * list bytes) -> bytes)).
  Variable blockSize ri : N.
  Variable c : comparer.
  Hypothesis cok : comparer_ok c.

  Local Notation bhl := 12.
  Local Notation minv := (OpenJournalProofs.mem_inv kp mp c).
  Local Notation jb_ok := (OpenJournalProofs.jb_ok kp).
  Local Notation jb_enc := (OpenJournalProofs.jb_enc kp).
  Local Notation newman := (new_manifest jcrc jp rp).
  Local Notation flushman := (flush_manifest jcrc jp rp).
  Local Notation commitm := (OpenPath.commit jcrc jp rp c).
  Local Notation commitrj := (commit_rj jcrc jp rp c).
  Local Notation flushm := (flush_memdb rp kp mp tp tcrc compress snappy fgen blockSize ri c).
  Local Notation rrec := (replay_record rp kp bhl mp tp tcrc compress snappy fgen blockSize ri c).
  Local Notation loop_rw := (rj_loop jcrc jp rp kp bhl mp tp tcrc compress snappy fgen blockSize ri c).
  Local Notation openb := (open_bytes jcrc jp rp kp bhl mp tp tcrc compress snappy fgen blockSize ri c).
  Local Notation image_ok := (OpenPathProofs.image_ok jcrc jp rp kp).
  Local Notation manifest_ok := (OpenPathProofs.manifest_ok rp).
  Local Notation jfile_ok := (OpenPathProofs.jfile_ok jcrc jp kp).

  (* ---------------------------------------------------------------- the invariant *)
  (* a table record: number and size fit (not negative), its file exists *)
  Definition at_nn (fs : files) (t : SR.atrec) : Prop :=
    (0 <= SR.at_num t)%Z /\ (0 <= SR.at_size t)%Z /\ f_lookup fs (SW.FTable, Z.to_N (SR.at_num t)) <> None.

  Definition rec_ok (fs : files) (r : SR.srec) : Prop :=
    (0 <= SR.sr_journal r)%Z /\ (0 <= SR.sr_nextfile r)%Z /\ SR.sr_dels r = [] /\
    Forall (fun t => (0 <= SR.at_level t)%Z /\ at_nn fs t) (SR.sr_adds r) /\
    Forall (fun x => (0 <= SR.cp_level x)%Z) (SR.sr_cps r).

  Definition sess_ok (fs : files) (s : sess) : Prop :=
    (0 <= s_next s)%Z /\ (0 <= s_jnum s)%Z /\ Forall (at_nn fs) (concat (s_levels s)).

  Definition cst_ok (cs : cst) : Prop := NoDup (map fst (c_files cs)) /\ sess_ok (c_files cs) (c_sess cs).

  Definition tinv (st : rj) : Prop := minv st /\ cst_ok (r_c st) /\ rec_ok (c_files (r_c st)) (r_rec st).

  Lemma at_nn_mono fs fs' t : tabs_kept fs fs' -> at_nn fs t -> at_nn fs' t.
  Proof. intros K (A & B & C). split; [exact A|]. split; [exact B|]. exact (K _ C). Qed.

  Lemma rec_ok_mono fs fs' r : tabs_kept fs fs' -> rec_ok fs r -> rec_ok fs' r.
  Proof.
    intros K (A & B & C & D & E). split; [exact A|]. split; [exact B|]. split; [exact C|]. split; [|exact E].
    eapply Forall_impl; [|exact D]. intros t (L & H). split; [exact L|exact (at_nn_mono _ _ _ K H)].
  Qed.

  Lemma levels_ok_mono fs fs' (v : list (list SR.atrec)) : tabs_kept fs fs' ->
    Forall (at_nn fs) (concat v) -> Forall (at_nn fs') (concat v).
  Proof. intros K H. eapply Forall_impl; [|exact H]. intros t. apply at_nn_mono. exact K. Qed.

  (* ---------------------------------------------------------------- the record under the setters *)
  Lemma rec_ok_set_journal fs r n : (0 <= n)%Z -> rec_ok fs r -> rec_ok fs (SR.set_journal rp r n).
  Proof. intros Hn (A & B & C & D & E). repeat split; cbn; assumption. Qed.
  Lemma rec_ok_set_prevjournal fs r n : rec_ok fs r -> rec_ok fs (SR.set_prevjournal rp r n).
  Proof. intros (A & B & C & D & E). repeat split; cbn; assumption. Qed.
  Lemma rec_ok_set_seq fs r n : rec_ok fs r -> rec_ok fs (SR.set_seq rp r n).
  Proof. intros (A & B & C & D & E). repeat split; cbn; assumption. Qed.
  Lemma rec_ok_set_nextfile fs r n : (0 <= n)%Z -> rec_ok fs r -> rec_ok fs (SR.set_nextfile rp r n).
  Proof. intros Hn (A & B & C & D & E). repeat split; cbn; assumption. Qed.
  Lemma rec_ok_set_comparer fs r n : rec_ok fs r -> rec_ok fs (SR.set_comparer rp r n).
  Proof. intros (A & B & C & D & E). repeat split; cbn; assumption. Qed.
  Lemma rec_ok_reset_added fs r : rec_ok fs r -> rec_ok fs (SR.reset_added rp r).
  Proof. intros (A & B & C & D & E). repeat split; cbn; try assumption. constructor. Qed.
  Lemma rec_ok_add_table fs r t : (0 <= SR.at_level t)%Z -> at_nn fs t -> rec_ok fs r -> rec_ok fs (SR.add_table rp r t).
  Proof.
    intros L H (A & B & C & D & E). repeat split; cbn; try assumption.
    apply Forall_app. split; [exact D|]. constructor; [split; assumption|constructor].
  Qed.
  Lemma rec_ok_add_comp_ptr fs r x : (0 <= SR.cp_level x)%Z -> rec_ok fs r -> rec_ok fs (SR.add_comp_ptr rp r x).
  Proof.
    intros L (A & B & C & D & E). repeat split; cbn; try assumption.
    apply Forall_app. split; [exact E|]. constructor; [exact L|constructor].
  Qed.
  Lemma rec_ok_empty fs : rec_ok fs SR.sr_empty.
  Proof. repeat split; cbn; try lia; constructor. Qed.

  Lemma rec_ok_add_cptrs fs cps : forall level r, (0 <= level)%Z -> rec_ok fs r -> rec_ok fs (add_cptrs rp level cps r).
  Proof.
    induction cps as [|[ik|] cps IH]; intros level r Hl H; cbn [add_cptrs]; [exact H| |].
    - apply IH; [lia|]. apply rec_ok_add_comp_ptr; [cbn; exact Hl|exact H].
    - apply IH; [lia|exact H].
  Qed.

  Lemma rec_ok_fill fs s r snapshot name : (0 <= s_next s)%Z -> (0 <= s_jnum s)%Z -> rec_ok fs r ->
    rec_ok fs (fill_record rp s r snapshot name).
  Proof.
    intros Hn Hj H. unfold fill_record.
    pose proof (rec_ok_set_nextfile fs r (s_next s) Hn H) as H1.
    destruct snapshot; [|exact H1].
    apply rec_ok_set_comparer. apply rec_ok_add_cptrs; [lia|].
    set (r2 := if SR.has _ (SR.tJournalNum rp) then _ else _).
    assert (H2 : rec_ok fs r2) by (unfold r2; destruct (SR.has _ _); [exact H1|apply rec_ok_set_journal; assumption]).
    destruct (SR.has r2 _); [exact H2|apply rec_ok_set_seq; exact H2].
  Qed.

  Lemma rec_ok_vfill fs v r : Forall (at_nn fs) (concat v) -> rec_ok fs r -> rec_ok fs (v_fill_record rp v r).
  Proof.
    intros Hv. unfold v_fill_record. set (listed := map SR.at_num (SR.sr_adds r)). clearbody listed.
    assert (Hc : forall lt, In lt (combine (seq 0 (length v)) v) -> forall t, In t (snd lt) -> at_nn fs t).
    { intros [i ts] Hin t Ht. apply in_combine_r in Hin. rewrite Forall_forall in Hv. apply Hv.
      apply in_concat. exists ts. split; assumption. }
    revert r. induction (combine (seq 0 (length v)) v) as [|lt l IH]; intros r Hr; cbn [fold_left]; [exact Hr|].
    apply IH; [intros x Hx; apply Hc; right; exact Hx|].
    assert (Ht : forall t, In t (snd lt) -> at_nn fs t) by (apply Hc; left; reflexivity).
    clear IH Hc. revert r Hr. induction (snd lt) as [|t ts IHt]; intros r Hr; cbn [fold_left]; [exact Hr|].
    apply IHt; [intros x Hx; apply Ht; right; exact Hx|].
    destruct (SR.memZ _ _); [exact Hr|].
    destruct (Ht t (or_introl eq_refl)) as (A & B & C).
    apply rec_ok_add_table; [cbn; lia| |exact Hr]. split; [exact A|]. split; [exact B|exact C].
  Qed.

  Lemma encode_total fs r : rec_ok fs r -> exists b, SR.encode rp r = Some b.
  Proof.
    intros (A & B & C & D & E). unfold SR.encode. apply oconcat_some.
    constructor; [destruct (SR.has r _); discriminate|].
    constructor.
    { destruct (SR.has r _); [|discriminate]. destruct (put_varint_some _ A) as (b & ->). discriminate. }
    constructor.
    { destruct (SR.has r _); [|discriminate]. destruct (put_varint_some _ B) as (b & ->). discriminate. }
    constructor; [destruct (SR.has r _); discriminate|].
    rewrite C. cbn [map app]. apply Forall_app. split.
    - apply Forall_forall. intros x Hx. apply in_map_iff in Hx as (y & <- & _). discriminate.
    - apply Forall_forall. intros x Hx. apply in_map_iff in Hx as (t & <- & Ht).
      rewrite Forall_forall in D. destruct (D t Ht) as (_ & N1 & N2 & _).
      unfold SR.enc_at. destruct (put_varint_some _ N1) as (b1 & ->). destruct (put_varint_some _ N2) as (b2 & ->).
      discriminate.
  Qed.

  Lemma record_commited_total fs s r : rec_ok fs r -> (0 <= s_jnum s)%Z ->
    exists s', record_commited rp s r = OOk s' /\ s_next s' = s_next s /\ (0 <= s_jnum s')%Z /\
               s_levels s' = s_levels s /\ s_manfd s' = s_manfd s /\ s_hasman s' = s_hasman s.
  Proof.
    intros (A & B & C & D & E) Hj. unfold record_commited.
    destruct (pfold_cps_total (SR.sr_cps r) E (s_cptrs s)) as (cps & ->).
    eexists. split; [reflexivity|]. cbn [s_next s_jnum s_levels s_manfd s_hasman].
    repeat split; try reflexivity. destruct (SR.has r _); assumption.
  Qed.

  (* ---------------------------------------------------------------- newManifest, flushManifest, commit *)
  Lemma new_manifest_total name rec v st :
    cst_ok st -> rec_ok (c_files st) rec -> Forall (at_nn (c_files st)) (concat v) ->
    exists st' rec', newman name rec v st = OOk (st', rec') /\
      NoDup (map fst (c_files st')) /\ tabs_kept (c_files st) (c_files st') /\ rec_ok (c_files st') rec' /\
      (0 <= s_next (c_sess st'))%Z /\ (0 <= s_jnum (c_sess st'))%Z /\ s_levels (c_sess st') = s_levels (c_sess st) /\
      same_journals None (c_files st) (c_files st').
  Proof.
    intros (Hnd & Hn & Hj & Hlv) Hr Hv. unfold new_manifest.
    set (s := c_sess st) in *.
    set (s1 := mkSess (s_next s + 1) _ _ _ _ _ _ _ _).
    set (rec' := v_fill_record rp v (fill_record rp s1 rec true name)).
    assert (Hr' : rec_ok (c_files st) rec').
    { unfold rec'. apply rec_ok_vfill; [exact Hv|]. apply rec_ok_fill; [unfold s1; cbn; lia|exact Hj|exact Hr]. }
    destruct (encode_total _ _ Hr') as (b & Eb). rewrite Eb.
    destruct (record_commited_total _ s1 rec' Hr' Hj) as (s2 & E2 & N2 & J2 & L2 & _). rewrite E2. cbn [obind].
    set (fs1 := f_set (c_files st) _ _).
    assert (K1 : tabs_kept (c_files st) fs1) by apply tabs_kept_set.
    assert (D1 : NoDup (map fst fs1)) by (apply nodup_set; exact Hnd).
    assert (J1 : same_journals None (c_files st) fs1) by apply same_journals_set_manifest.
    destruct (s_hasman s || negb (s_manfd s <? 0)%Z).
    - eexists. exists rec'. split; [reflexivity|]. cbn [c_files c_sess s_next s_jnum s_levels].
      assert (K2 : tabs_kept (c_files st) (f_del fs1 (SW.FManifest, Z.to_N (s_manfd s)))).
      { eapply tabs_kept_trans; [exact K1|apply tabs_kept_del_manifest]. }
      split; [apply nodup_del; exact D1|]. split; [exact K2|]. split; [exact (rec_ok_mono _ _ _ K2 Hr')|].
      split; [rewrite N2; unfold s1; cbn; lia|]. split; [exact J2|]. split; [rewrite L2; reflexivity|].
      eapply same_journals_trans; [exact J1|apply same_journals_del_manifest].
    - eexists. exists rec'. split; [reflexivity|]. cbn [c_files c_sess s_next s_jnum s_levels].
      split; [exact D1|]. split; [exact K1|]. split; [exact (rec_ok_mono _ _ _ K1 Hr')|].
      split; [rewrite N2; unfold s1; cbn; lia|]. split; [exact J2|]. split; [rewrite L2; reflexivity|exact J1].
  Qed.

  Lemma flush_manifest_total name rec st :
    cst_ok st -> rec_ok (c_files st) rec ->
    exists st' rec', flushman name rec st = OOk (st', rec') /\
      NoDup (map fst (c_files st')) /\ tabs_kept (c_files st) (c_files st') /\ rec_ok (c_files st') rec' /\
      (0 <= s_next (c_sess st'))%Z /\ (0 <= s_jnum (c_sess st'))%Z /\ s_levels (c_sess st') = s_levels (c_sess st) /\
      same_journals None (c_files st) (c_files st').
  Proof.
    intros (Hnd & Hn & Hj & Hlv) Hr. unfold flush_manifest.
    set (s := c_sess st) in *.
    set (rec' := fill_record rp s rec false name).
    assert (Hr' : rec_ok (c_files st) rec') by (unfold rec'; apply rec_ok_fill; assumption).
    destruct (encode_total _ _ Hr') as (b & Eb). rewrite Eb.
    destruct (record_commited_total _ s rec' Hr' Hj) as (s2 & E2 & N2 & J2 & L2 & _). rewrite E2. cbn [obind].
    eexists. exists rec'. split; [reflexivity|]. cbn [c_files c_sess s_next s_jnum s_levels].
    assert (K1 : tabs_kept (c_files st) (f_set (c_files st) (SW.FManifest, Z.to_N (s_manfd s)) (man_bytes jcrc jp (s_manrecs s ++ [b]))))
      by apply tabs_kept_set.
    split; [apply nodup_set; exact Hnd|]. split; [exact K1|]. split; [exact (rec_ok_mono _ _ _ K1 Hr')|].
    split; [rewrite N2; exact Hn|]. split; [exact J2|]. split; [rewrite L2; reflexivity|].
    apply same_journals_set_manifest.
  Qed.

  Lemma spawn_total fs base rec : rec_ok fs rec -> Forall (at_nn fs) (concat base) ->
    exists nv, spawn c base rec = OOk nv /\ Forall (at_nn fs) (concat nv).
  Proof.
    intros (A & B & C & D & E) Hb. unfold spawn, SR.commit. rewrite C. cbn [SR.pfold SR.pbind].
    assert (Dl : Forall (fun t => (0 <= SR.at_level t)%Z) (SR.sr_adds rec)).
    { eapply Forall_impl; [|exact D]. intros t H. exact (proj1 H). }
    destruct (pfold_add_total (SR.sr_adds rec) Dl []) as (stg & -> & Hin).
    eexists. split; [reflexivity|]. apply Forall_forall. intros x Hx.
    apply finish_go_in in Hx as [Hx|(i & y & Hy & <-)].
    - rewrite Forall_forall in Hb. exact (Hb x Hx).
    - destruct (Hin i y Hy) as [H|H]; [destruct i; destruct H|].
      rewrite Forall_forall in D. exact (proj2 (D _ H)).
  Qed.

  Lemma commit_total o rec st : cst_ok st -> rec_ok (c_files st) rec ->
    exists st' rec', commitm o rec st = OOk (st', rec') /\ cst_ok st' /\ rec_ok (c_files st') rec' /\
      tabs_kept (c_files st) (c_files st') /\ same_journals None (c_files st) (c_files st').
  Proof.
    intros Hc Hr. pose proof Hc as (Hnd & Hn & Hj & Hlv). unfold OpenPath.commit.
    destruct (spawn_total _ _ _ Hr Hlv) as (nv & -> & Hnv). cbn [obind].
    destruct (negb (s_hasman (c_sess st))).
    - destruct (new_manifest_total (oo_cmp_name o) rec nv st Hc Hr Hnv) as (st1 & rec1 & -> & D1 & K1 & R1 & N1 & J1 & _ & S1).
      cbn [obind]. eexists. exists rec1. split; [reflexivity|]. cbn [c_files c_sess].
      split; [|split; [exact R1|split; [exact K1|exact S1]]].
      split; [exact D1|]. unfold set_levels, sess_ok. cbn [s_next s_jnum s_levels].
      split; [exact N1|]. split; [exact J1|exact (levels_ok_mono _ _ _ K1 Hnv)].
    - destruct (oo_maxman o <=? _)%Z.
      + set (nr3 := if SR.has rec (SR.tSeqNum rp) then _ else _).
        assert (Hnr : rec_ok (c_files st) nr3).
        { unfold nr3. destruct Hr as (A & _).
          destruct (SR.has rec (SR.tJournalNum rp)), (SR.has rec (SR.tPrevJournalNum rp)), (SR.has rec (SR.tSeqNum rp));
            repeat first [apply rec_ok_set_seq | apply rec_ok_set_prevjournal | apply rec_ok_set_journal; [exact A|] | apply rec_ok_empty]. }
        destruct (new_manifest_total (oo_cmp_name o) nr3 nv st Hc Hnr Hnv) as (st1 & rec1 & -> & D1 & K1 & R1 & N1 & J1 & _ & S1).
        cbn [obind fst]. eexists. exists rec. split; [reflexivity|]. cbn [c_files c_sess].
        split; [|split; [exact (rec_ok_mono _ _ _ K1 Hr)|split; [exact K1|exact S1]]].
        split; [exact D1|]. unfold set_levels, sess_ok. cbn [s_next s_jnum s_levels].
        split; [exact N1|]. split; [exact J1|exact (levels_ok_mono _ _ _ K1 Hnv)].
      + destruct (flush_manifest_total (oo_cmp_name o) rec st Hc Hr) as (st1 & rec1 & -> & D1 & K1 & R1 & N1 & J1 & _ & S1).
        cbn [obind]. eexists. exists rec1. split; [reflexivity|]. cbn [c_files c_sess].
        split; [|split; [exact R1|split; [exact K1|exact S1]]].
        split; [exact D1|]. unfold set_levels, sess_ok. cbn [s_next s_jnum s_levels].
        split; [exact N1|]. split; [exact J1|exact (levels_ok_mono _ _ _ K1 Hnv)].
  Qed.

  Lemma minv_same (a b : rj) : r_seq b = r_seq a -> r_mdb b = r_mdb a -> r_hts b = r_hts a -> minv a -> minv b.
  Proof. intros E1 E2 E3 H. unfold OpenJournalProofs.mem_inv in *. rewrite E1, E2, E3. exact H. Qed.

  Lemma commit_rj_total o j a : tinv a ->
    exists b, commitrj o j a = OOk b /\ tinv b /\ r_seq b = r_seq a /\ r_mdb b = r_mdb a /\ r_hts b = r_hts a /\
      r_kept b = r_kept a /\ same_journals None (c_files (r_c a)) (c_files (r_c b)).
  Proof.
    intros (Hm & Hc & Hr). unfold commit_rj.
    assert (Hr' : rec_ok (c_files (r_c a)) (SR.set_seq rp (SR.set_journal rp (r_rec a) (Z.of_N j)) (r_seq a))).
    { apply rec_ok_set_seq. apply rec_ok_set_journal; [lia|exact Hr]. }
    destruct (commit_total o _ (r_c a) Hc Hr') as (cs & rec & -> & Hc' & Hrr & _ & S). cbn [obind fst snd].
    eexists. split; [reflexivity|]. cbn [r_seq r_mdb r_hts r_kept r_c r_rec].
    split; [|repeat split; try reflexivity; exact S].
    split; [apply (minv_same a); try reflexivity; exact Hm|]. split; [exact Hc'|exact Hrr].
  Qed.

  (* ---------------------------------------------------------------- flushMemdb *)
  Lemma flush_memdb_total_inv st : tinv st ->
    exists st', flushm st = OOk st' /\ tinv st' /\ r_seq st' = r_seq st /\ r_mdb st' = r_mdb st /\
      r_hts st' = r_hts st /\ r_kept st' = r_kept st /\ same_journals None (c_files (r_c st)) (c_files (r_c st')).
  Proof.
    intros (Hm & (Hnd & Hn & Hj & Hlv) & Hr).
    destruct (flush_memdb_total rp kp seek_val mp mpok tp tcrc compress snappy fgen blockSize ri c st (proj1 Hm)) as (st' & E).
    exists st'. split; [exact E|].
    destruct (flush_memdb_facts rp kp mp tp tcrc compress snappy fgen blockSize ri c _ _ E) as (A1 & A2 & A3 & A4 & A5).
    split; [|repeat split; assumption].
    revert E. unfold flush_memdb. destruct (Table.twrite _ _ _ _ _ _ _ _ _) as [file|]; [|discriminate].
    intros E. injection E as <-. unfold tinv, cst_ok. cbn [r_c r_rec c_files c_sess].
    set (t := s_next (c_sess (r_c st))) in *.
    set (fs' := f_set (c_files (r_c st)) (SW.FTable, Z.to_N t) file).
    assert (K : tabs_kept (c_files (r_c st)) fs') by apply tabs_kept_set.
    split; [apply (minv_same st); try reflexivity; exact Hm|]. split.
    - split; [apply nodup_set; exact Hnd|]. unfold sess_ok. cbn [r_c c_files c_sess s_next s_jnum s_levels].
      split; [lia|]. split; [exact Hj|exact (levels_ok_mono _ _ _ K Hlv)].
    - apply rec_ok_add_table; [cbn; lia| |exact (rec_ok_mono _ _ _ K Hr)].
      split; [cbn; exact Hn|]. split; [cbn; lia|]. cbn [SR.at_num]. unfold fs'. rewrite f_lookup_set_same. discriminate.
  Qed.

  Lemma remove_journal_inv st old : tinv st -> tinv (remove_file (SW.FJournal, old) st).
  Proof.
    intros (Hm & (Hnd & Hn & Hj & Hlv) & Hr). unfold remove_file, tinv, cst_ok, sess_ok. cbn [r_c r_rec c_files c_sess].
    assert (K : tabs_kept (c_files (r_c st)) (f_del (c_files (r_c st)) (SW.FJournal, old))) by apply tabs_kept_del_journal.
    split; [apply (minv_same st); try reflexivity; exact Hm|]. split.
    - split; [apply nodup_del; exact Hnd|]. split; [exact Hn|]. split; [exact Hj|exact (levels_ok_mono _ _ _ K Hlv)].
    - exact (rec_ok_mono _ _ _ K Hr).
  Qed.

  (* ---------------------------------------------------------------- the replay of one journal, with its flushes *)
  Lemma replay_record_total o j b st : oo_strict_j o = false -> jb_ok b -> tinv st ->
    exists st', rrec o true j (jb_enc b) st = OOk st' /\ tinv st'.
  Proof.
    intros Hns Hb (Hm & Hc & Hr).
    destruct (replay_record_written rp kp kpok seek_val mp mpok tp tcrc compress snappy fgen blockSize ri c cok
                o j b st Hns Hb Hm) as (st1 & E1 & Ec1 & Er1 & Hinv1 & _).
    revert E1. unfold replay_record.
    destruct (decode_to_mem kp bhl (ibc c) mp (jb_enc b) (r_seq st) (r_mdb st) (r_hts st)) as [sq bl d hts|e d hts| |];
      try discriminate.
    - cbn [andb]. intros E1. injection E1 as <-. cbn [r_c r_rec] in *.
      set (st1 := mkRJ _ _ _ _ _ _) in *.
      assert (T1 : tinv st1) by (split; [exact Hinv1|split; [exact Hc|exact Hr]]).
      destruct (oo_wbuf o <=? MemDB.mdb_size d)%Z; [|exists st1; split; [reflexivity|exact T1]].
      destruct (flush_memdb_total_inv st1 T1) as (st2 & -> & T2 & F1 & F2 & F3 & _). cbn [obind].
      destruct (reset_mem_ok kp seek_val mp mpok c (r_mdb st2) (proj1 (proj1 T2))) as (d0 & -> & Hm0 & He0).
      cbn [of_mres obind]. eexists. split; [reflexivity|].
      destruct T2 as (M2 & C2 & R2). unfold tinv, set_mdb. cbn [r_c r_rec]. split; [|split; assumption].
      unfold OpenJournalProofs.mem_inv. cbn [r_mdb r_hts r_seq]. split; [exact Hm0|]. split; [exact (proj1 (proj2 M2))|].
      intros x Hx. rewrite He0 in Hx. destruct Hx.
    - rewrite Hns. intros E1. injection E1 as <-. eexists. split; [reflexivity|].
      cbn [r_c r_rec] in *. split; [exact Hinv1|split; [exact Hc|exact Hr]].
  Qed.

  Lemma replay_recs_total o j bs : oo_strict_j o = false -> Forall jb_ok bs -> forall st, tinv st ->
    exists st', replay_recs rp kp mp tp tcrc compress snappy fgen blockSize ri c o true j (map jb_enc bs) st = OOk st' /\
      tinv st'.
  Proof.
    intros Hns. induction 1 as [|b r Hb Hr IH]; intros st T; cbn [map replay_recs]; [exists st; split; [reflexivity|exact T]|].
    destruct (replay_record_total o j b st Hns Hb T) as (st1 & -> & T1). cbn [obind]. exact (IH st1 T1).
  Qed.

  (* ---------------------------------------------------------------- the loop over the journals *)
  Lemma loop_rw_total o sel : oo_strict_j o = false -> forall ofd st,
    Forall (jfile_ok (oo_jck o) (c_files (r_c st))) sel -> NoDup (olist ofd ++ map jd_num sel) -> tinv st ->
    exists st' ofd', loop_rw o (map jd_num sel) ofd st = OOk (st', ofd') /\ tinv st'.
  Proof.
    intros Hns. induction sel as [|jd sel IH]; intros ofd st Hsel Hnd T.
    - cbn [map rj_loop]. exists st, ofd. split; [reflexivity|exact T].
    - inversion Hsel as [|? ? Hjd Hrest]; subst. destruct Hjd as (Hbs & d & Ed & Hcb).
      destruct (crash_file_records jcrc jp jpok (oo_jck o) _ _ _ Hcb) as (k & Hk & Erecs).
      cbn [map rj_loop]. unfold journal_bytes at 1. rewrite Ed.
      set (pre := match ofd with None => OOk st | Some old => _ end).
      assert (P1 : exists st1, pre = OOk st1 /\ tinv st1 /\ same_journals ofd (c_files (r_c st)) (c_files (r_c st1))).
      { unfold pre. destruct ofd as [old|].
        - assert (Fa : exists a, (if (0 <? MemDB.mdb_len (r_mdb st))%Z then flushm st else OOk st) = OOk a /\ tinv a /\
                                 same_journals None (c_files (r_c st)) (c_files (r_c a))).
          { destruct (0 <? MemDB.mdb_len (r_mdb st))%Z.
            - destruct (flush_memdb_total_inv st T) as (a & Ea & Ta & _ & _ & _ & _ & Ja). exists a. split; [exact Ea|split; [exact Ta|exact Ja]].
            - exists st. split; [reflexivity|]. split; [exact T|apply same_journals_refl]. }
          destruct Fa as (a & -> & Ta & Ja). cbn [obind].
          destruct (commit_rj_total o (jd_num jd) a Ta) as (b & -> & Tb & _ & _ & _ & _ & Jb). cbn [obind].
          eexists. split; [reflexivity|]. split.
          + apply remove_journal_inv. destruct Tb as (M & C & R). split; [exact M|]. split; [exact C|].
            cbn [set_rec r_c r_rec]. apply rec_ok_reset_added. exact R.
          + unfold remove_file, set_rec. cbn [r_c c_files].
            eapply same_journals_trans; [exact (same_journals_trans None _ _ _ Ja Jb)|]. apply same_journals_del_journal.
        - exists st. split; [reflexivity|]. split; [exact T|apply same_journals_refl]. }
      destruct P1 as (st1 & -> & T1 & J1). cbn [obind].
      destruct (reset_mem_ok kp seek_val mp mpok c (r_mdb st1) (proj1 (proj1 T1))) as (d0 & -> & Hm0 & He0).
      cbn [of_mres obind]. rewrite Hns.
      rewrite (replay_outcomes_recs rp kp mp tp tcrc compress snappy fgen blockSize ri c o true (jd_num jd) _
                 (jread_tolerant_clean jcrc jp jpok (oo_jck o) d)).
      rewrite Erecs, firstn_map.
      assert (Hbk : Forall jb_ok (firstn k (jd_bs jd))).
      { apply Forall_forall. intros x Hx. rewrite Forall_forall in Hbs. apply Hbs. eapply in_firstn; exact Hx. }
      assert (T1' : tinv (set_mdb st1 d0)).
      { destruct T1 as (M & C & R). unfold tinv, set_mdb. cbn [r_c r_rec]. split; [|split; assumption].
        unfold OpenJournalProofs.mem_inv. cbn [r_mdb r_hts r_seq]. split; [exact Hm0|]. split; [exact (proj1 (proj2 M))|].
        intros x Hx. rewrite He0 in Hx. destruct Hx. }
      destruct (replay_recs_total o (jd_num jd) _ Hns Hbk _ T1') as (st2 & E2 & T2). rewrite E2. cbn [obind].
      destruct (replay_recs_written_rw rp kp kpok seek_val mp mpok tp tcrc compress snappy fgen blockSize ri c cok
                  o (jd_num jd) _ Hns Hbk _ _ (proj1 T1') E2) as (_ & J2 & _ & _).
      unfold set_mdb in J2. cbn [r_c] in J2.
      assert (Hnd' : NoDup (olist (Some (jd_num jd)) ++ map jd_num sel)).
      { clear - Hnd. destruct ofd; cbn [olist app map] in Hnd |- *; [inversion Hnd; assumption|exact Hnd]. }
      assert (Hsel2 : Forall (jfile_ok (oo_jck o) (c_files (r_c st2))) sel).
      { apply Forall_forall. intros x Hx. rewrite Forall_forall in Hrest.
        apply (jfile_ok_same jcrc jp kp (oo_jck o) (c_files (r_c st1)) _ x None); [|exact J2|discriminate].
        apply (jfile_ok_same jcrc jp kp (oo_jck o) (c_files (r_c st)) _ x ofd); [exact (Hrest x Hx)|exact J1|].
        intros E. subst ofd. cbn [olist app map] in Hnd. inversion Hnd as [|? ? Hni _]; subst.
        apply Hni. right. apply in_map. exact Hx. }
      exact (IH _ _ Hsel2 Hnd' T2).
  Qed.

  Lemma remove_all_files rem : forall st, c_sess (r_c (remove_all rem st)) = c_sess (r_c st).
  Proof. induction rem as [|x rem IH]; intros st; cbn [remove_all]; [reflexivity|]. rewrite IH. reflexivity. Qed.

  (* ---------------------------------------------------------------- the image *)
  (* the numbers the manifest leaves fit, the tables it names exist, the storage lists a name once *)
  Definition image_tabs_ok (o : oopts) (img : simage) (mrecs : list (SR.srec * bytes)) (ks : nat) : Prop :=
    NoDup (map fst (si_files img)) /\
    forall k j pj nf q live cps, (ks <= k)%nat ->
      replay_result rp (oo_cmp_name o) (firstn k (map fst mrecs)) = SpecOk j pj nf q live cps ->
      (0 <= j)%Z /\ (0 <= nf)%Z /\ Forall (at_nn (si_files img)) live.

  Lemma sort_levels_in lv live x : (forall l : nat, nth l lv [] = live_at (Z.of_nat l) live) ->
    In x (concat (OpenPathProofs.sort_levels c lv)) -> In x live.
  Proof.
    intros Hlv H. unfold OpenPathProofs.sort_levels in H. apply in_concat in H as (l & Hl & Hx).
    apply in_map_iff in Hl as ([i ts] & <- & Hin). cbn [fst snd] in Hx. apply sort_level_in in Hx.
    apply in_combine_r in Hin. apply (In_nth _ _ []) in Hin as (n & _ & En).
    rewrite Hlv in En. subst ts. unfold live_at in Hx. apply filter_In in Hx. exact (proj1 Hx).
  Qed.

  (* Open, read-write, on a well-formed crash image: it returns a DB *)
  Theorem open_rw_total o hts img m mrecs ks js :
    oo_strict_man o = false -> oo_strict_j o = false -> oo_ro o = false -> oo_err_exist o = false ->
    heights_okl mp hts -> image_ok o img m mrecs ks js -> manifest_ok o mrecs ks -> NoDup (map jd_num js) ->
    image_tabs_ok o img mrecs ks ->
    exists r, openb o hts img = OOk r.
  Proof.
    intros Hsm Hsj Hro Hee Hh (Hmeta & (dm & Edm & Hcb) & Hrecs & Hlist & Hjs) Hman Hnd (Hfnd & Htabs).
    destruct (session_recover_written jcrc jp jpok rp rpok c o m mrecs ks dm Hsm Hrecs Hcb Hman)
      as (k & j & pj & nf & q & live & cps & s & lv & Hk & Espec & Es & Enf & Ej & Epj & Eq & Emf & Ehm & Elv & Hlv).
    destruct (Htabs k j pj nf q live cps Hk Espec) as (Hj0 & Hnf0 & Hlive).
    destruct (new_mem_ok kp seek_val mp mpok c) as (d0 & Enew & Hm0 & Hent0).
    unfold open_bytes, manifest_of. rewrite Hmeta, Edm. cbn [option_map obind]. rewrite Es. cbn [obind].
    rewrite Hee, Hro. unfold open_rw. cbn [c_sess c_files c_meta c_removed c_commits]. rewrite Enew. cbn [of_mres obind].
    cbn [c_sess c_files c_meta c_removed c_commits].
    assert (Esel : jsel_list s (si_files img) = map jd_num (selected j pj js)).
    { unfold jsel_list, SW.rj_select, selected. rewrite Hlist, Ej, Epj. apply filter_map_comm. }
    rewrite Esel.
    set (cs1 := match map jd_num (selected j pj js) with [] => _ | _ :: _ => _ end).
    assert (Ecs1 : c_files cs1 = si_files img) by (unfold cs1; destruct (map jd_num (selected j pj js)); reflexivity).
    assert (Hs_ok : sess_ok (si_files img) s).
    { split; [rewrite Enf; exact Hnf0|]. split; [rewrite Ej; exact Hj0|]. rewrite Elv.
      apply Forall_forall. intros x Hx. rewrite Forall_forall in Hlive. apply Hlive. exact (sort_levels_in lv live x Hlv Hx). }
    assert (Hcs1 : cst_ok cs1).
    { unfold cs1. destruct (map jd_num (selected j pj js)); unfold cst_ok; cbn [c_files c_sess]; (split; [exact Hfnd|]); [exact Hs_ok|].
      destruct Hs_ok as (A & B & C). unfold mark_file_num, sess_ok. cbn [s_next s_jnum s_levels]. split; [lia|]. split; assumption. }
    set (st0 := mkRJ cs1 SR.sr_empty (s_seq s) d0 hts []).
    assert (T0 : tinv st0).
    { unfold tinv, st0. cbn [r_c r_rec]. split; [|split; [exact Hcs1|apply rec_ok_empty]].
      unfold OpenJournalProofs.mem_inv. cbn [r_mdb r_hts r_seq]. split; [exact Hm0|]. split; [exact Hh|].
      intros x Hx. rewrite Hent0 in Hx. destruct Hx. }
    assert (Hsel : Forall (jfile_ok (oo_jck o) (c_files (r_c st0))) (selected j pj js)).
    { unfold st0. cbn [r_c]. rewrite Ecs1. apply Forall_forall. intros x Hx. apply filter_In in Hx as [Hx _].
      rewrite Forall_forall in Hjs. exact (Hjs x Hx). }
    assert (Hnd0 : NoDup (olist None ++ map jd_num (selected j pj js))).
    { cbn [olist app]. unfold selected. clear - Hnd. induction js as [|x l IH]; [constructor|].
      cbn [map] in Hnd. inversion Hnd as [|? ? Hni Hnd']; subst. cbn [filter].
      destruct (SW.jsel _ _ _); [|exact (IH Hnd')]. cbn [map]. constructor; [|exact (IH Hnd')].
      intros Hin. apply Hni. apply in_map_iff in Hin as (y & Ey & Hy). apply filter_In in Hy as [Hy _].
      rewrite <- Ey. apply in_map. exact Hy. }
    destruct (loop_rw_total o _ Hsj None st0 Hsel Hnd0 T0) as (st1 & ofd & -> & T1). cbn [obind].
    set (fl := match map jd_num (selected j pj js) with [] => OOk st1 | _ :: _ => _ end).
    assert (F2 : exists st2, fl = OOk st2 /\ tinv st2).
    { unfold fl. destruct (map jd_num (selected j pj js)); [exists st1; split; [reflexivity|exact T1]|].
      destruct (0 <? MemDB.mdb_len (r_mdb st1))%Z; [|exists st1; split; [reflexivity|exact T1]].
      destruct (flush_memdb_total_inv st1 T1) as (a & Ea & Ta & _). exists a. split; assumption. }
    destruct F2 as (st2 & -> & T2). cbn [obind].
    set (st3 := mkRJ _ _ _ _ _ _).
    assert (T3 : tinv st3).
    { destruct T2 as (M & (Dn & A & B & L) & R). unfold tinv, st3, cst_ok. cbn [r_c r_rec c_files c_sess].
      set (fs' := f_set _ _ _).
      assert (K : tabs_kept (c_files (r_c st2)) fs') by apply tabs_kept_set.
      split; [apply (minv_same st2); try reflexivity; exact M|]. split.
      - split; [apply nodup_set; exact Dn|]. unfold sess_ok. cbn [r_c c_files c_sess s_next s_jnum s_levels].
        split; [lia|]. split; [exact B|exact (levels_ok_mono _ _ _ K L)].
      - exact (rec_ok_mono _ _ _ K R). }
    destruct (commit_rj_total o (Z.to_N (s_next (c_sess (r_c st2)))) st3 T3) as (st4 & -> & T4 & _). cbn [obind].
    set (st5 := match ofd with Some old => remove_file _ st4 | None => st4 end).
    assert (T5 : tinv st5) by (unfold st5; destruct ofd; [apply remove_journal_inv|]; exact T4).
    destruct T5 as (_ & (Dn5 & _ & _ & L5) & _).
    set (jst := {| SW.js_tabs := _; SW.js_manifest := _; SW.js_journal := _; SW.js_frozen := _ |}).
    assert (Hl5 : NoDup (f_list (c_files (r_c st5)))).
    { eapply Permutation_NoDup; [apply f_list_perm|exact Dn5]. }
    pose proof (SweepProofs.jan_count jst _ Hl5) as Hjc.
    unfold SW.janitor.
    replace (Nat.eqb (SW.jan_nt jst (f_list (c_files (r_c st5)))) (length (SW.ndedup (SW.js_tabs jst)))) with true.
    { eexists. reflexivity. }
    symmetry. apply Hjc. intros t Ht. unfold jst in Ht. cbn [SW.js_tabs] in Ht. unfold table_nums in Ht.
    apply in_map_iff in Ht as (x & <- & Hx). rewrite Forall_forall in L5. destruct (L5 x Hx) as (_ & _ & Hf).
    eapply Permutation_in; [apply f_list_perm|]. apply f_lookup_in. exact Hf.
  Qed.
End OpenTotal.

(* ---------------------------------------------------------------- totality composed with the refinement *)
From GL Require Import Store.Crash Store.OpenCrashProofs.

Section OpenTotalRefines.
  Variable jcrc : bytes -> N.
  Variable jp : jparams.
  Hypothesis jpok : jparams_ok jp.
  Variable rp : SR.rparams.
  Hypothesis rpok : rparams_ok rp.
  Variable kp : kparams.
  Hypothesis kpok : kparams_ok kp.
  Hypothesis seek_val : keyTypeSeek kp <= keyTypeVal kp.
  Variable mp : MemDB.mparams.
  Hypothesis mpok : MemDB.mparams_ok mp.
  Variable tp : Table.tparams.
  Variable tcrc : bytes -> N.
  Variable compress : bytes -> bytes.
  Variable snappy : bool.
  Variable fgen : option (bytes * (list (N * list bytes) -> bytes)).
  Variable blockSize ri : N.
  Variable c : comparer.
  Hypothesis cok : comparer_ok c.

  Local Notation openb := (open_bytes jcrc jp rp kp 12 mp tp tcrc compress snappy fgen blockSize ri c).

  Lemma jnums_nodup jfz jl : jnums_ok jfz jl -> NoDup (map jd_num (olist jfz ++ [jl])).
  Proof.
    intros (Hn1 & Hn2). destruct jfz as [jf|]; cbn [olist app map]; [|repeat constructor; intros []].
    destruct Hn2 as (_ & Hlt). constructor; [intros [E|[]]; lia|]. repeat constructor. intros [].
  Qed.

  (* read-write Open of a byte image of a pinv state RETURNS a DB *)
  Theorem open_rw_total_pinv o hts img m mrecs ks jfz jl :
    oo_strict_man o = false -> oo_strict_j o = false -> oo_ro o = false -> oo_err_exist o = false ->
    heights_okl mp hts ->
    image_ok jcrc jp rp kp o img m mrecs ks (olist jfz ++ [jl]) -> manifest_ok rp o mrecs ks -> jnums_ok jfz jl ->
    image_tabs_ok rp o img mrecs ks ->
    exists r, openb o hts img = OOk r.
  Proof.
    intros Hsm Hsj Hro Hee Hh Himg Hman Hnum Htabs.
    exact (open_rw_total jcrc jp jpok rp rpok kp kpok seek_val mp mpok tp tcrc compress snappy fgen blockSize ri c cok
             o hts img m mrecs ks _ Hsm Hsj Hro Hee Hh Himg Hman (jnums_nodup jfz jl Hnum) Htabs).
  Qed.

  (* ... and what it returns is what the record-level recover returns: total correctness of the kept batches *)
  Theorem open_rw_refines_recover_total o hts img m mrecs ks jfz jl newb f s :
    oo_strict_man o = false -> oo_strict_j o = false -> oo_ro o = false -> oo_err_exist o = false ->
    heights_okl mp hts ->
    image_ok jcrc jp rp kp o img m mrecs ks (olist jfz ++ [jl]) -> manifest_ok rp o mrecs ks -> no_prev rp mrecs ->
    jnums_ok jfz jl -> order_embedding f -> f 0 = 0 -> pinv s -> denotes rp newb f s mrecs ks jfz jl ->
    image_tabs_ok rp o img mrecs ks ->
    exists r rimg k j nf q live cps d,
      openb o hts img = OOk r /\
      is_image s (image_map f rimg) /\ (ks <= k)%nat /\
      replay_result rp (oo_cmp_name o) (firstn k (map fst mrecs)) = SpecOk j 0%Z nf q live cps /\
      recover_full rimg = (os_seq r, flat_map newb (flat_map SR.sr_adds (firstn k (map fst mrecs))) ++ map pair_batch (os_kept r)) /\
      (forall b, In b (p_acked s) -> In b (recover rimg)) /\
      (forall b, In b (recover rimg) -> In b (p_issued s)) /\
      sorted_b (recover rimg) /\
      bs_mem (os_bs r) = Some d /\ mem_entries mp (Some d) = [] /\ bs_frozen (os_bs r) = None.
  Proof.
    intros Hsm Hsj Hro Hee Hh Himg Hman Hnp Hnum Hf Hf0 Hinv Hden Htabs.
    destruct (open_rw_total_pinv o hts img m mrecs ks jfz jl Hsm Hsj Hro Hee Hh Himg Hman Hnum Htabs) as (r & Eopen).
    destruct (open_rw_refines_recover_partial jcrc jp jpok rp rpok kp kpok seek_val mp mpok tp tcrc compress snappy fgen
                blockSize ri c cok o hts img m mrecs ks jfz jl newb f s r Hsm Hsj Hro Hee Hh Himg Hman Hnp Hnum Hf Hf0 Hinv Hden Eopen)
      as (rimg & k & j & nf & q & live & cps & d & H).
    exists r, rimg, k, j, nf, q, live, cps, d. split; [exact Eopen|exact H].
  Qed.
End OpenTotalRefines.
