(* Store/Crash.v — L2: persistence at record granularity.  Journals are lists of batches with a synced
   prefix; the manifest is a list of edits with a synced prefix; a table is the list of batches it was
   flushed from.  Mirrors db_write.go (writeJournal: write then optional Sync), db_state.go (newMem:
   rotation), db_compaction.go (memCompaction: table, commit, dropFrozenMem), db_transaction.go (Commit),
   session.go (recover) and db.go (recoverJournal incl. the sequence check of decodeBatchToMem).
   Byte-level cuts are lifted to "a prefix of the record list" by C12's truncation theorem.
   Model file: definitions only. *)
From Coq Require Export List NArith Bool.
Export ListNotations.
Open Scope N_scope.

(* a batch is identified by the sequence number of its first record and its number of records *)
Record batch := { b_seq : N; b_n : N }.
Definition b_last (b : batch) : N := b_seq b + b_n b - 1.
Definition batch_eqb (a b : batch) : bool := (b_seq a =? b_seq b) && (b_n a =? b_n b).

Record jfile := { j_num : N; j_recs : list batch; j_synced : nat }.

(* a manifest edit: optionally sets the journal number and the sequence number, and adds a table holding
   these batches (a flush adds the frozen buffer's batches, a transaction commit its own batch, a table
   compaction nothing new) *)
Record medit := { m_jnum : option N; m_seq : option N; m_tab : list batch }.

Record pstate := {
  p_live : jfile;
  p_frozen : option jfile;
  p_fedit : bool;           (* memCompaction has appended the edit that supersedes the frozen journal *)
  p_fseq : N;               (* db.frozenSeq: db.seq when the frozen buffer was rotated out *)
  p_man : list medit;
  p_msynced : nat;          (* number of manifest edits known durable *)
  p_seq : N;                (* db.seq *)
  p_issued : list batch;    (* ghost: every batch issued, in order *)
  p_acked : list batch      (* ghost: batches acknowledged as durable (sync write, committed transaction) *)
}.

Definition p_init : pstate :=
  {| p_live := {| j_num := 1; j_recs := []; j_synced := 0 |}; p_frozen := None; p_fedit := false; p_fseq := 0;
     p_man := [{| m_jnum := Some 1; m_seq := Some 0; m_tab := [] |}]; p_msynced := 1;
     p_seq := 0; p_issued := []; p_acked := [] |}.

(* ---- crash images: per file any prefix of the records that contains the synced prefix ---- *)
Record image := { i_live : jfile; i_frozen : option jfile; i_man : list medit }.

Definition jprefix (j : jfile) (k : nat) : jfile :=
  {| j_num := j_num j; j_recs := firstn k (j_recs j); j_synced := min k (j_synced j) |}.

Definition is_image (s : pstate) (img : image) : Prop :=
  (exists k, (j_synced (p_live s) <= k)%nat /\ i_live img = jprefix (p_live s) k) /\
  (match p_frozen s, i_frozen img with
   | Some f, Some f' => exists k, (j_synced f <= k)%nat /\ f' = jprefix f k
   | Some f, None => j_synced f = 0%nat            (* a never-synced file may vanish *)
   | None, None => True
   | None, Some _ => False
   end) /\
  (exists k, (p_msynced s <= k)%nat /\ i_man img = firstn k (p_man s)).

(* executable image constructor used by the correspondence check *)
Definition mk_image (s : pstate) (kl kf km : nat) : image :=
  {| i_live := jprefix (p_live s) (max kl (j_synced (p_live s)));
     i_frozen := option_map (fun f => jprefix f (max kf (j_synced f))) (p_frozen s);
     i_man := firstn (max km (p_msynced s)) (p_man s) |}.

(* ---- recovery ---- *)
(* session.recover: replay the manifest: tables accumulate, the last journal/sequence numbers win *)
Fixpoint replay_man (es : list medit) (jn sq : N) (tabs : list batch) : N * N * list batch :=
  match es with
  | [] => (jn, sq, tabs)
  | e :: rest =>
      replay_man rest (match m_jnum e with Some j => j | None => jn end)
                      (match m_seq e with Some q => q | None => sq end)
                      (tabs ++ m_tab e)
  end.

(* recoverJournal: decodeBatchToMem rejects (and the non-strict reader skips) a batch whose first sequence
   number is below the running one; after a batch the running number is first + count *)
Fixpoint replay_journal (recs : list batch) (cur : N) (acc : list batch) : N * list batch :=
  match recs with
  | [] => (cur, acc)
  | b :: rest => if b_seq b <? cur then replay_journal rest cur acc
                 else replay_journal rest (b_seq b + b_n b) (acc ++ [b])
  end.

Definition recover_full (img : image) : N * list batch :=
  let '(jn, sq, tabs) := replay_man (i_man img) 0 0 [] in
  let js := (match i_frozen img with Some f => [f] | None => [] end) ++ [i_live img] in
  let js := filter (fun j => jn <=? j_num j) js in
  fold_left (fun st j => replay_journal (j_recs j) (fst st) (snd st)) js (sq, tabs).

Definition recover (img : image) : list batch := snd (recover_full img).

(* the state in which a reopened DB finds itself after replaying the journals of a crash image into memory
   (before it flushes them): everything found on storage is durable now; a frozen journal that the
   manifest already supersedes is ignored; db.seq is the running number after the replay, and db.frozenSeq
   plays the role of "db.seq after the older journal" for the table recovery is about to write from it *)
Definition all_synced (j : jfile) : jfile := {| j_num := j_num j; j_recs := j_recs j; j_synced := length (j_recs j) |}.

(* dur = true: the image is what survived a crash, hence durable; dur = false: a clean close and reopen — the
   files are unchanged and what was not synced is still not synced *)
Definition restart_state (s : pstate) (img : image) (dur : bool) : pstate :=
  let '(jn, sq, tabs) := replay_man (i_man img) 0 0 [] in
  let mark := fun j => if dur then all_synced j else j in
  let fz := match i_frozen img with
            | Some f => if jn <=? j_num f then Some (mark f) else None
            | None => None
            end in
  let st1 := match fz with Some f => replay_journal (j_recs f) sq tabs | None => (sq, tabs) end in
  let st2 := replay_journal (j_recs (i_live img)) (fst st1) (snd st1) in
  {| p_live := mark (i_live img); p_frozen := fz; p_fedit := false; p_fseq := fst st1;
     p_man := i_man img; p_msynced := if dur then length (i_man img) else p_msynced s; p_seq := fst st2;
     p_issued := p_issued s; p_acked := p_acked s |}.

(* the image in which nothing is lost and the sync marks are those of the state *)
Definition full_image (s : pstate) : image :=
  {| i_live := p_live s; i_frozen := p_frozen s; i_man := p_man s |}.


Inductive pop :=
| PWrite (n : N) (sync : bool)     (* journal append of a batch of n >= 1 records, then Sync if asked *)
| PSyncJournal                     (* a later sync write also makes earlier records durable *)
| PRotate                          (* newMem: the live journal becomes the frozen one *)
| PFlushEdit                       (* table written and synced, edit appended to the manifest (not yet synced) *)
| PManSync                         (* manifest Sync *)
| PDropFrozen                      (* frozen journal removed (only after its edit is durable) *)
| PTxnCommit (n : N)               (* transaction: table synced, one edit with the new sequence number *)
| PCompactEdit                     (* table compaction edit: no logical change *)
| PSkipSeq (n : N)                 (* a failed journal write: nothing durable, its sequence numbers consumed *)
| PRestart (kl kf km : nat)        (* crash leaving the image (kl, kf, km), then reopen up to the in-memory replay;
                                      the rest of recovery is PFlushEdit/PManSync/PDropFrozen/PRotate steps *)
| PReopen.                         (* clean close (every manifest edit synced) and reopen *)

Definition jappend (j : jfile) (b : batch) (sync : bool) : jfile :=
  let recs := j_recs j ++ [b] in
  {| j_num := j_num j; j_recs := recs; j_synced := if sync then length recs else j_synced j |}.

Definition pstep (s : pstate) (o : pop) : pstate :=
  match o with
  | PWrite n sync =>
      if n =? 0 then s else
      let b := {| b_seq := p_seq s + 1; b_n := n |} in
      {| p_live := jappend (p_live s) b sync; p_frozen := p_frozen s; p_fedit := p_fedit s; p_fseq := p_fseq s; p_man := p_man s; p_msynced := p_msynced s;
         p_seq := p_seq s + n; p_issued := p_issued s ++ [b];
         p_acked := if sync then p_acked s ++ [b] else p_acked s |}
  | PSyncJournal =>
      {| p_live := {| j_num := j_num (p_live s); j_recs := j_recs (p_live s); j_synced := length (j_recs (p_live s)) |};
         p_frozen := p_frozen s; p_fedit := p_fedit s; p_fseq := p_fseq s; p_man := p_man s; p_msynced := p_msynced s; p_seq := p_seq s;
         p_issued := p_issued s; p_acked := p_acked s |}
  | PRotate =>
      match p_frozen s with
      | Some _ => s
      | None =>
          {| p_live := {| j_num := j_num (p_live s) + 1; j_recs := []; j_synced := 0 |};
             p_frozen := Some (p_live s); p_fedit := false; p_fseq := p_seq s; p_man := p_man s; p_msynced := p_msynced s; p_seq := p_seq s;
             p_issued := p_issued s; p_acked := p_acked s |}
      end
  | PFlushEdit =>
      (* memCompaction skips an empty frozen buffer; otherwise the edit records the live journal's number
         and the frozen buffer's last sequence number (db.frozenSeq) and adds the flushed table *)
      match p_frozen s with
      | Some f =>
          match last (map Some (j_recs f)) None with
          | Some bl =>
              if p_fedit s then s else
              {| p_live := p_live s; p_frozen := p_frozen s; p_fedit := true; p_fseq := p_fseq s;
                 p_man := p_man s ++ [{| m_jnum := Some (j_num (p_live s)); m_seq := Some (p_fseq s);
                                         m_tab := j_recs f |}];
                 p_msynced := p_msynced s; p_seq := p_seq s; p_issued := p_issued s; p_acked := p_acked s |}
          | None => s
          end
      | None => s
      end
  | PManSync =>
      {| p_live := p_live s; p_frozen := p_frozen s; p_fedit := p_fedit s; p_fseq := p_fseq s; p_man := p_man s; p_msynced := length (p_man s);
         p_seq := p_seq s; p_issued := p_issued s; p_acked := p_acked s |}
  | PDropFrozen =>
      (* an empty frozen buffer is dropped without an edit; otherwise only after its edit is durable *)
      if match p_frozen s with Some f => match j_recs f with [] => true | _ => false end | None => false end
         || (p_fedit s && Nat.eqb (length (p_man s)) (p_msynced s)) then
        {| p_live := p_live s; p_frozen := None; p_fedit := false; p_fseq := p_fseq s; p_man := p_man s; p_msynced := p_msynced s;
           p_seq := p_seq s; p_issued := p_issued s; p_acked := p_acked s |}
      else s
  | PTxnCommit n =>
      (* OpenTransaction waits until there is no frozen buffer and the live one is empty *)
      match p_frozen s, j_recs (p_live s) with
      | None, [] =>
          if n =? 0 then s else
          let b := {| b_seq := p_seq s + 1; b_n := n |} in
          {| p_live := p_live s; p_frozen := None; p_fedit := false; p_fseq := p_fseq s;
             p_man := p_man s ++ [{| m_jnum := None; m_seq := Some (p_seq s + n); m_tab := [b] |}];
             p_msynced := S (length (p_man s));      (* Commit syncs the manifest before returning *)
             p_seq := p_seq s + n; p_issued := p_issued s ++ [b]; p_acked := p_acked s ++ [b] |}
      | _, _ => s
      end
  | PSkipSeq n =>
      {| p_live := p_live s; p_frozen := p_frozen s; p_fedit := p_fedit s; p_fseq := p_fseq s; p_man := p_man s;
         p_msynced := p_msynced s; p_seq := p_seq s + n; p_issued := p_issued s; p_acked := p_acked s |}
  | PRestart kl kf km => restart_state s (mk_image s kl kf km) true
  | PReopen => if Nat.eqb (length (p_man s)) (p_msynced s) then restart_state s (full_image s) false else s
  | PCompactEdit =>
      {| p_live := p_live s; p_frozen := p_frozen s; p_fedit := p_fedit s; p_fseq := p_fseq s;
         p_man := p_man s ++ [{| m_jnum := None; m_seq := None; m_tab := [] |}];
         p_msynced := p_msynced s; p_seq := p_seq s; p_issued := p_issued s; p_acked := p_acked s |}
  end.

Definition prun (ops : list pop) : pstate := fold_left pstep ops p_init.

