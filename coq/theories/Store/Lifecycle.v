(* Store/Lifecycle.v — executable lifecycle machine for property C18 (definitions only, no proofs).

   Mirrors, call by call, what leveldb/{db.go, db_write.go, db_state.go, db_snapshot.go, db_iter.go,
   db_transaction.go, session.go, iterator/iter.go, util/util.go} do with
     - the storage lock (session.go newSession / release),
     - the closed flag (db_state.go ok/setClosed), the read-only persistent error (db_write.go SetReadOnly,
       db_compaction.go compactionError: the write lock is kept for ever, writers receive ErrReadOnly from
       compPerErrC),
     - the write lock held by an open transaction (db_transaction.go OpenTransaction / setDone),
     - the released flags of snapshots, iterators (dbIter and iterator.emptyIterator) and transactions.
   Data is not modelled (the Go-map oracle of the harness checks it); storage content is an abstract set of
   file numbers plus a MUTATION LOG.  The log is an UPPER bound: an entry means "the call may issue this
   mutating storage operation" (whether a Put rotates the journal or a Get schedules a seek compaction depends
   on sizes); the theorems prove ABSENCE of entries, the correspondence run checks that the implementation
   never mutates where the model's log does not grow.

   Background work (memdb flush, table compaction) is the flag [dbg] "work may be pending or scheduled" and the
   pseudo call [CDrain] "background work runs until nothing is needed" (leveldb.VerifWaitIdle in the harness).

   Code variants.  The machine takes one boolean, [parks]:
     parks = true  : the code after the repair "a DB in the persistent-error state starts no flush and no table
                     compaction" (db_compaction.go: mCompaction / tCompaction test compPerErrC before they start
                     work, and return): on a DB switched to read-only ([RSwitched]) the job that was running at
                     the switch may still finish ([dbg] stays as it was, the next [CDrain] runs it), nothing is
                     scheduled afterwards -- a read may still send its seek-compaction request, the goroutine
                     that receives it starts nothing;
     parks = false : the code before (former known finding switched-ro-keeps-compacting): SetReadOnly did not
                     park the table-compaction goroutine and reads of a switched DB kept scheduling seek
                     compactions ([dbg] set by reads whenever [dseek], i.e. Options.DisableSeeksCompaction =
                     false).  Kept for the refutation witness only.
   Every theorem of Props/C18.v is about parks = true. *)
From Coq Require Import List NArith Bool String.
Import ListNotations.
Open Scope N_scope.

(* ---------------------------------------------------------------- outcomes *)

Inductive outcome :=
| Ok                    (* normal result (including ErrNotFound / false) *)
| ErrClosed             (* leveldb.ErrClosed *)
| ErrReadOnly           (* leveldb.ErrReadOnly *)
| ErrSnapshotReleased   (* leveldb.ErrSnapshotReleased *)
| ErrIterReleased       (* leveldb.ErrIterReleased = iterator.ErrIterReleased *)
| ErrTransactionDone    (* errTransactionDone "leveldb: transaction already closed" *)
| ErrLocked             (* storage.ErrLocked *)
| ErrOther              (* any other error (e.g. os.ErrNotExist opening a missing DB read-only) *)
| Panics                (* documented panic of util.ReleaseSetter: SetReleaser on a released resource / second releaser *)
| Blocks                (* the call waits for the write lock held by an open transaction *)
| Unspecified           (* use of an UNRELEASED iterator whose DB is closed / whose transaction is finished:
                           documented unsafe, exercised and logged by the harness, not part of the verdict *)
| NoHandle.             (* the call names a DB or handle index that does not exist (not an API behaviour) *)

Definition outcome_code (o : outcome) : N :=
  match o with
  | Ok => 0 | ErrClosed => 1 | ErrReadOnly => 2 | ErrSnapshotReleased => 3 | ErrIterReleased => 4
  | ErrTransactionDone => 5 | ErrLocked => 6 | ErrOther => 7 | Panics => 8 | Blocks => 9
  | Unspecified => 10 | NoHandle => 11
  end.

Definition outcome_eqb (a b : outcome) : bool := outcome_code a =? outcome_code b.

(* ---------------------------------------------------------------- the public API *)

(* Every exported method of *leveldb.DB, *leveldb.Snapshot, *leveldb.Transaction and of the
   iterator.Iterator interface.  The harness enumerates the same sets with package reflect and the
   correspondence run compares the names ([api_name], Corr/C18Run.v KEnum). *)
Inductive api_call :=
(* *DB *)
| DbGet | DbHas | DbNewIterator | DbGetSnapshot | DbGetProperty | DbStats | DbSizeOf | DbClose
| DbOpenTransaction
| DbWrite (empty : bool)            (* empty = nil batch or batch of length 0 *)
| DbPut | DbDelete | DbCompactRange | DbSetReadOnly
(* *Snapshot *)
| SnString | SnGet | SnHas | SnNewIterator | SnRelease
(* *Transaction *)
| TrGet | TrHas | TrNewIterator | TrPut | TrDelete
| TrWrite (empty : bool)
| TrCommit | TrDiscard
(* iterator.Iterator *)
| ItFirst | ItLast | ItSeek | ItNext | ItPrev | ItRelease
| ItSetReleaser (nonnil : bool)
| ItValid | ItError | ItKey | ItValue.

Inductive receiver := RDb | RSnap | RTxn | RIter.

Definition recv (m : api_call) : receiver :=
  match m with
  | DbGet | DbHas | DbNewIterator | DbGetSnapshot | DbGetProperty | DbStats | DbSizeOf | DbClose
  | DbOpenTransaction | DbWrite _ | DbPut | DbDelete | DbCompactRange | DbSetReadOnly => RDb
  | SnString | SnGet | SnHas | SnNewIterator | SnRelease => RSnap
  | TrGet | TrHas | TrNewIterator | TrPut | TrDelete | TrWrite _ | TrCommit | TrDiscard => RTxn
  | _ => RIter
  end.

Definition api_name (m : api_call) : string :=
  match m with
  | DbGet => "DB.Get" | DbHas => "DB.Has" | DbNewIterator => "DB.NewIterator" | DbGetSnapshot => "DB.GetSnapshot"
  | DbGetProperty => "DB.GetProperty" | DbStats => "DB.Stats" | DbSizeOf => "DB.SizeOf" | DbClose => "DB.Close"
  | DbOpenTransaction => "DB.OpenTransaction" | DbWrite _ => "DB.Write" | DbPut => "DB.Put" | DbDelete => "DB.Delete"
  | DbCompactRange => "DB.CompactRange" | DbSetReadOnly => "DB.SetReadOnly"
  | SnString => "Snapshot.String" | SnGet => "Snapshot.Get" | SnHas => "Snapshot.Has"
  | SnNewIterator => "Snapshot.NewIterator" | SnRelease => "Snapshot.Release"
  | TrGet => "Transaction.Get" | TrHas => "Transaction.Has" | TrNewIterator => "Transaction.NewIterator"
  | TrPut => "Transaction.Put" | TrDelete => "Transaction.Delete" | TrWrite _ => "Transaction.Write"
  | TrCommit => "Transaction.Commit" | TrDiscard => "Transaction.Discard"
  | ItFirst => "Iterator.First" | ItLast => "Iterator.Last" | ItSeek => "Iterator.Seek" | ItNext => "Iterator.Next"
  | ItPrev => "Iterator.Prev" | ItRelease => "Iterator.Release" | ItSetReleaser _ => "Iterator.SetReleaser"
  | ItValid => "Iterator.Valid" | ItError => "Iterator.Error" | ItKey => "Iterator.Key" | ItValue => "Iterator.Value"
  end%string.

(* the whole enumeration (completeness is proved in LifecycleProofs.all_api_complete) *)
Definition all_api : list api_call :=
  [DbGet; DbHas; DbNewIterator; DbGetSnapshot; DbGetProperty; DbStats; DbSizeOf; DbClose; DbOpenTransaction;
   DbWrite false; DbWrite true; DbPut; DbDelete; DbCompactRange; DbSetReadOnly;
   SnString; SnGet; SnHas; SnNewIterator; SnRelease;
   TrGet; TrHas; TrNewIterator; TrPut; TrDelete; TrWrite false; TrWrite true; TrCommit; TrDiscard;
   ItFirst; ItLast; ItSeek; ItNext; ItPrev; ItRelease; ItSetReleaser false; ItSetReleaser true;
   ItValid; ItError; ItKey; ItValue].

(* DB methods that enter the writer path: they take the write lock (writeLockC), or receive the persistent
   error of a read-only DB from compPerErrC, or ErrClosed from closeC. *)
Definition takes_write_lock (m : api_call) : bool :=
  match m with
  | DbPut | DbDelete | DbWrite false | DbCompactRange | DbOpenTransaction | DbSetReadOnly => true
  | _ => false
  end.

(* calls that may themselves issue mutating storage operations on a read-write DB *)
Definition mutates (m : api_call) : bool :=
  match m with
  | DbPut | DbDelete | DbWrite false | DbCompactRange | DbOpenTransaction | DbClose => true
  | TrPut | TrDelete | TrWrite false | TrCommit | TrDiscard => true
  | _ => false
  end.

(* DB methods that only read *)
Definition db_read (m : api_call) : bool :=
  match m with
  | DbGet | DbHas | DbNewIterator | DbGetSnapshot | DbGetProperty | DbStats | DbSizeOf | DbWrite true => true
  | _ => false
  end.

(* iterator movement *)
Definition it_move (m : api_call) : bool :=
  match m with ItFirst | ItLast | ItSeek | ItNext | ItPrev => true | _ => false end.

(* ---------------------------------------------------------------- storage *)

(* mutating storage operations (vstor: create, write, sync, remove, rename, setmeta) *)
Inductive mut :=
| MCreate (f : N) | MWrite (f : N) | MSync (f : N) | MRemove (f : N) | MRename (f g : N) | MSetMeta (f : N).

Record storage := mkStor {
  locked : bool;        (* storage.Lock taken (session.storLock) *)
  hasdb  : bool;        (* a manifest / CURRENT exists *)
  files  : list N;      (* abstract collection of file numbers *)
  nextf  : N;           (* next unused file number *)
  mlog   : list mut     (* mutation log, oldest first *)
}.

Fixpoint remove_n (f : N) (l : list N) : list N :=
  match l with
  | [] => []
  | x :: l' => if x =? f then remove_n f l' else x :: remove_n f l'
  end.

Definition apply_mut (s : storage) (m : mut) : storage :=
  match m with
  | MCreate f => mkStor (locked s) (hasdb s) (f :: remove_n f (files s)) (N.max (nextf s) (f + 1)) (mlog s ++ [m])
  | MRemove f => mkStor (locked s) (hasdb s) (remove_n f (files s)) (nextf s) (mlog s ++ [m])
  | MRename f g => mkStor (locked s) (hasdb s) (g :: remove_n g (remove_n f (files s))) (nextf s) (mlog s ++ [m])
  | _ => mkStor (locked s) (hasdb s) (files s) (nextf s) (mlog s ++ [m])
  end.

Definition apply_muts (s : storage) (ms : list mut) : storage := fold_left apply_mut ms s.

Definition set_locked (s : storage) (b : bool) : storage := mkStor b (hasdb s) (files s) (nextf s) (mlog s).
Definition set_hasdb (s : storage) (b : bool) : storage := mkStor (locked s) b (files s) (nextf s) (mlog s).

(* ---------------------------------------------------------------- DB and handle states *)

Inductive mode :=
| RW          (* opened read-write *)
| ROpened     (* opened with Options.ReadOnly: journals replayed into memory, no background goroutines *)
| RSwitched   (* opened read-write, then SetReadOnly *)
| Closed.

Definition is_closed (m : mode) : bool := match m with Closed => true | _ => false end.
Definition is_ro (m : mode) : bool := match m with ROpened | RSwitched => true | _ => false end.
(* the DB was opened read-write: its goroutines (compaction, and the session's reference loop that removes the
   tables of released versions) were started; after SetReadOnly the compaction goroutines finish the job in
   flight and, in the repaired code, start nothing else ([sched_bg]) *)
Definition has_bg (m : mode) : bool := match m with RW | RSwitched => true | _ => false end.

Inductive ikind :=
| IReal (owner : option nat)   (* *dbIter; owner = Some t for an iterator of transaction t *)
| IEmpty.                      (* iterator.emptyIterator returned instead of a real one *)

Record iter := mkIter {
  ik    : ikind;
  irel  : bool;       (* Release was called (dbIter.dir = dirReleased / BasicReleaser.released) *)
  ierr  : outcome;    (* the stored error; Ok = nil *)
  ihasr : bool;       (* a releaser is set *)
  iver  : nat         (* the version the iterator pins (value of dver when it was created) *)
}.

Record txn := mkTxn {
  tdone : bool;       (* Transaction.closed *)
  ttab  : bool        (* the transaction may have flushed tables (Discard removes them) *)
}.

Record dbrec := mkDb {
  dmode  : mode;
  dseek  : bool;            (* seek-triggered compaction enabled (not Options.DisableSeeksCompaction) *)
  dbg    : bool;            (* background work may be pending or scheduled *)
  dver   : nat;             (* number of version edits that may have been installed (flush, compaction, commit) *)
  dsnaps : list bool;       (* snapshots in creation order; true = released *)
  diters : list iter;
  dtxns  : list txn
}.

Record state := mkState { stor : storage; dbs : list dbrec }.

Definition init_state (has : bool) (fs : list N) (nf : N) : state :=
  mkState (mkStor false has fs nf []) [].

Definition has_open_txn (db : dbrec) : bool := existsb (fun t => negb (tdone t)) (dtxns db).

Fixpoint upd {A} (l : list A) (i : nat) (x : A) : list A :=
  match l, i with
  | [], _ => []
  | _ :: l', O => x :: l'
  | y :: l', S i' => y :: upd l' i' x
  end.

Definition set_mode (db : dbrec) (m : mode) := mkDb m (dseek db) (dbg db) (dver db) (dsnaps db) (diters db) (dtxns db).
Definition set_bg (db : dbrec) (b : bool) := mkDb (dmode db) (dseek db) b (dver db) (dsnaps db) (diters db) (dtxns db).
Definition set_snaps (db : dbrec) (l : list bool) := mkDb (dmode db) (dseek db) (dbg db) (dver db) l (diters db) (dtxns db).
Definition set_iters (db : dbrec) (l : list iter) := mkDb (dmode db) (dseek db) (dbg db) (dver db) (dsnaps db) l (dtxns db).
Definition set_txns (db : dbrec) (l : list txn) := mkDb (dmode db) (dseek db) (dbg db) (dver db) (dsnaps db) (diters db) l.
(* a version edit may have been installed *)
Definition bump (db : dbrec) := mkDb (dmode db) (dseek db) (dbg db) (S (dver db)) (dsnaps db) (diters db) (dtxns db).

Definition add_iter (db : dbrec) (i : iter) := set_iters db (diters db ++ [i]).

(* compaction goroutines exist AND still start work: read-write mode; the switched mode only in the code before
   the repair (parks = false) *)
Definition sched_bg (parks : bool) (m : mode) : bool :=
  match m with RW => true | RSwitched => negb parks | _ => false end.

(* a read of the tables may schedule a seek compaction (db.get: cSched -> compTrigger; dbIter.sampleSeek) when
   there is a compaction goroutine that will act on the request *)
Definition read_sched (parks : bool) (db : dbrec) : dbrec :=
  if sched_bg parks (dmode db) && dseek db then set_bg db true else db.

(* ---------------------------------------------------------------- abstract mutations of the write paths *)

Definition journal_file : N := 1.   (* stands for "the current journal" *)
Definition manifest_file : N := 2.  (* stands for "the current manifest" *)
Definition table_file : N := 3.     (* stands for "some table" *)

Definition write_muts : list mut := [MWrite journal_file; MSync journal_file].
Definition rotate_muts : list mut := [MCreate journal_file].
Definition table_muts : list mut := [MCreate table_file; MWrite table_file; MSync table_file].
Definition commit_muts : list mut := [MWrite manifest_file; MSync manifest_file].
Definition bg_muts : list mut :=
  table_muts ++ commit_muts ++ [MRemove table_file; MRemove journal_file; MCreate manifest_file; MSetMeta manifest_file].
Definition open_muts : list mut :=
  table_muts ++ [MCreate manifest_file; MWrite manifest_file; MSync manifest_file; MSetMeta manifest_file;
                 MCreate journal_file; MRemove journal_file; MRemove table_file; MRemove manifest_file].

(* ---------------------------------------------------------------- one API call on one DB record *)

Definition res := (dbrec * list mut * outcome)%type.

(* DB.Close on an open DB (db.go Close): discards the open transaction (its tables are removed), stops the
   background goroutines (an aborted job reverts: removes the tables it built), releases the storage lock
   (done by [step]); snapshots are NOT released. *)
Definition close_txns (l : list txn) : list txn := map (fun t => mkTxn true (ttab t)) l.
Definition close_muts (db : dbrec) : list mut :=
  (if existsb (fun t => negb (tdone t) && ttab t) (dtxns db) then [MRemove table_file] else []) ++
  (if dbg db then [MRemove table_file] else []).

Definition db_step (parks : bool) (db : dbrec) (m : api_call) : res :=
  match dmode db with
  | Closed =>
      match m with
      | DbNewIterator => (add_iter db (mkIter IEmpty false ErrClosed false (dver db)), [], ErrClosed)
      | _ => (db, [], ErrClosed)          (* db.ok() at entry; Close: setClosed fails *)
      end
  | RW =>
      if has_open_txn db && takes_write_lock m then (db, [], Blocks) else
      match m with
      | DbGet | DbHas => (read_sched parks db, [], Ok)
      | DbNewIterator => (add_iter db (mkIter (IReal None) false Ok false (dver db)), [], Ok)
      | DbGetSnapshot => (set_snaps db (dsnaps db ++ [false]), [], Ok)
      | DbGetProperty | DbStats | DbSizeOf | DbWrite true => (db, [], Ok)
      | DbPut | DbDelete | DbWrite false => (set_bg db true, write_muts ++ rotate_muts, Ok)
      | DbCompactRange => (bump (set_bg db true), rotate_muts ++ bg_muts, Ok)
      | DbOpenTransaction => (set_txns (bump (set_bg db true)) (dtxns db ++ [mkTxn false false]), rotate_muts ++ bg_muts, Ok)
      | DbSetReadOnly => (set_mode db RSwitched, [], Ok)
      | DbClose => (mkDb Closed (dseek db) false (dver db) (dsnaps db) (diters db) (close_txns (dtxns db)), close_muts db, Ok)
      | _ => (db, [], NoHandle)
      end
  | _ (* ROpened, RSwitched: the write lock is held for ever, compPerErrC delivers ErrReadOnly *) =>
      match m with
      | DbGet | DbHas => (read_sched parks db, [], Ok)
      | DbNewIterator => (add_iter db (mkIter (IReal None) false Ok false (dver db)), [], Ok)
      | DbGetSnapshot => (set_snaps db (dsnaps db ++ [false]), [], Ok)
      | DbGetProperty | DbStats | DbSizeOf | DbWrite true => (db, [], Ok)
      | DbPut | DbDelete | DbWrite false | DbCompactRange | DbOpenTransaction | DbSetReadOnly => (db, [], ErrReadOnly)
      | DbClose => (mkDb Closed (dseek db) false (dver db) (dsnaps db) (diters db) (close_txns (dtxns db)), close_muts db, Ok)
      | _ => (db, [], NoHandle)
      end
  end.

(* db_snapshot.go: released is checked first, then db.ok() *)
Definition snap_step (parks : bool) (db : dbrec) (h : nat) (released : bool) (m : api_call) : res :=
  match m with
  | SnString => (db, [], Ok)
  | SnGet | SnHas =>
      if released then (db, [], ErrSnapshotReleased)
      else if is_closed (dmode db) then (db, [], ErrClosed)
      else (read_sched parks db, [], Ok)
  | SnNewIterator =>
      if released then (add_iter db (mkIter IEmpty false ErrSnapshotReleased false (dver db)), [], ErrSnapshotReleased)
      else if is_closed (dmode db) then (add_iter db (mkIter IEmpty false ErrClosed false (dver db)), [], ErrClosed)
      else (add_iter db (mkIter (IReal None) false Ok false (dver db)), [], Ok)
  | SnRelease => (set_snaps db (upd (dsnaps db) h true), [], Ok)
  | _ => (db, [], NoHandle)
  end.

(* db_transaction.go: every method checks tr.closed; Commit checks db.ok() first; Write returns nil for an
   empty batch before anything else *)
Definition txn_step (parks : bool) (db : dbrec) (h : nat) (t : txn) (m : api_call) : res :=
  match m with
  | TrWrite true => (db, [], Ok)
  | TrGet | TrHas => if tdone t then (db, [], ErrTransactionDone) else (read_sched parks db, [], Ok)
  | TrNewIterator =>
      if tdone t then (add_iter db (mkIter IEmpty false ErrTransactionDone false (dver db)), [], ErrTransactionDone)
      else (add_iter db (mkIter (IReal (Some h)) false Ok false (dver db)), [], Ok)
  | TrPut | TrDelete | TrWrite false =>
      if tdone t then (db, [], ErrTransactionDone)
      else (set_txns db (upd (dtxns db) h (mkTxn false true)), table_muts, Ok)
  | TrCommit =>
      if is_closed (dmode db) then (db, [], ErrClosed)
      else if tdone t then (db, [], ErrTransactionDone)
      else (set_txns (bump (set_bg db true)) (upd (dtxns db) h (mkTxn true (ttab t))), table_muts ++ commit_muts, Ok)
  | TrDiscard =>
      if tdone t then (db, [], Ok)
      else (set_txns db (upd (dtxns db) h (mkTxn true (ttab t))), if ttab t then [MRemove table_file] else [], Ok)
  | _ => (db, [], NoHandle)
  end.

(* the resources under an unreleased real iterator are gone: its DB is closed, or its transaction finished *)
Definition iter_unsafe (db : dbrec) (i : iter) : bool :=
  match ik i with
  | IEmpty => false
  | IReal o =>
      negb (irel i) &&
      (is_closed (dmode db) ||
       match o with
       | None => false
       | Some t => match nth_error (dtxns db) t with Some tx => tdone tx | None => true end
       end)
  end.

(* db_iter.go dbIter / iterator.emptyIterator + util.BasicReleaser.  The outcome of an iterator call is the
   class of it.Error() right after the call (Panics for the documented SetReleaser panics). *)
(* releasing a real iterator drops its reference on the version it pins; when that version is no longer the
   current one, the tables it alone kept alive are removed by the session's reference loop (session_util.go
   refLoop -> tOps.remove) — unless the DB is closed (the loop has stopped) *)
Definition release_muts (db : dbrec) (i : iter) : list mut :=
  match ik i with
  | IEmpty => []
  | IReal _ => if has_bg (dmode db) && (negb (irel i) && negb (Nat.eqb (iver i) (dver db))) then [MRemove table_file] else []
  end.

(* db_iter.go dbIter / iterator.emptyIterator + util.BasicReleaser.  The outcome of an iterator call is the
   class of it.Error() right after the call (Panics for the documented SetReleaser panics). *)
Definition iter_step (parks : bool) (db : dbrec) (h : nat) (i : iter) (m : api_call) : res :=
  let put i' := set_iters db (upd (diters db) h i') in
  match m with
  | ItSetReleaser nonnil =>
      if irel i then (db, [], Panics)
      else if ihasr i && nonnil then (db, [], Panics)
      else (put (mkIter (ik i) (irel i) (ierr i) nonnil (iver i)), [], ierr i)
  | ItRelease =>
      if iter_unsafe db i then (put (mkIter (ik i) true (ierr i) false (iver i)), [], Unspecified)
      else (put (mkIter (ik i) true (ierr i) false (iver i)), release_muts db i, ierr i)
  | ItValid | ItError | ItKey | ItValue => (db, [], ierr i)
  | ItFirst | ItLast | ItSeek | ItNext | ItPrev =>
      match ierr i with
      | Ok =>
          if irel i then (put (mkIter (ik i) true ErrIterReleased (ihasr i) (iver i)), [], ErrIterReleased)
          else if iter_unsafe db i then (db, [], Unspecified)
          else (read_sched parks db, [], Ok)
      | e => (db, [], e)
      end
  | _ => (db, [], NoHandle)
  end.

Definition local_step (parks : bool) (db : dbrec) (h : nat) (m : api_call) : res :=
  match recv m with
  | RDb => db_step parks db m
  | RSnap => match nth_error (dsnaps db) h with Some r => snap_step parks db h r m | None => (db, [], NoHandle) end
  | RTxn => match nth_error (dtxns db) h with Some t => txn_step parks db h t m | None => (db, [], NoHandle) end
  | RIter => match nth_error (diters db) h with Some i => iter_step parks db h i m | None => (db, [], NoHandle) end
  end.

(* ---------------------------------------------------------------- calls and the global step *)

Inductive call :=
| COpen (ro seek : bool)               (* leveldb.Open(stor, o); ro = o.ReadOnly, seek = not o.DisableSeeksCompaction *)
| CApi (d h : nat) (m : api_call)      (* method m on DB d (creation order), handle h of m's receiver kind *)
| CDrain (d : nat).                    (* background work of DB d runs until none is needed *)

(* Open (db.go Open / openDB, session.go newSession): takes the storage lock or fails; read-only: a missing DB
   is an error, journals are replayed into memory (recoverJournalRO), nothing is written, no compaction
   goroutines; read-write: creates the DB if missing, flushes the replayed journals, writes the manifest,
   creates a journal, removes obsolete files, starts the compaction goroutines. *)
Definition open_step (s : state) (ro seek : bool) : state * outcome :=
  if locked (stor s) then (s, ErrLocked)
  else if ro then
    if hasdb (stor s)
    then (mkState (set_locked (stor s) true) (dbs s ++ [mkDb ROpened seek false 0 [] [] []]), Ok)
    else (s, ErrOther)
  else (mkState (set_locked (set_hasdb (apply_muts (stor s) open_muts) true) true)
                (dbs s ++ [mkDb RW seek true 0 [] [] []]), Ok).

Definition drain_db (db : dbrec) : dbrec * list mut :=
  if dbg db then (bump (set_bg db false), bg_muts) else (db, []).

Definition step (parks : bool) (s : state) (c : call) : state * outcome :=
  match c with
  | COpen ro seek => open_step s ro seek
  | CDrain d =>
      match nth_error (dbs s) d with
      | None => (s, NoHandle)
      | Some db => let '(db', ms) := drain_db db in (mkState (apply_muts (stor s) ms) (upd (dbs s) d db'), Ok)
      end
  | CApi d h m =>
      match nth_error (dbs s) d with
      | None => (s, NoHandle)
      | Some db =>
          let '(db', ms, o) := local_step parks db h m in
          let st := apply_muts (stor s) ms in
          (* session.release(): Close of an open DB unlocks the storage *)
          let st' := if negb (is_closed (dmode db)) && is_closed (dmode db') then set_locked st false else st in
          (mkState st' (upd (dbs s) d db'), o)
      end
  end.

Fixpoint run (parks : bool) (s : state) (l : list call) : state :=
  match l with
  | [] => s
  | c :: l' => run parks (fst (step parks s c)) l'
  end.

Fixpoint run_out (parks : bool) (s : state) (l : list call) : list outcome :=
  match l with
  | [] => []
  | c :: l' => snd (step parks s c) :: run_out parks (fst (step parks s c)) l'
  end.

(* ---------------------------------------------------------------- the expected class on a closed DB *)

(* What each method must return on a closed DB, as a table of its own (the theorem closed_is_closed states
   that [local_step] agrees with it):
     - every *DB method: ErrClosed (NewIterator: an iterator whose Error() is ErrClosed);
     - *Snapshot: released -> its own released error, else ErrClosed; String and Release always succeed;
     - *Transaction (Close has discarded it): the transaction-done error, except Commit which tests the DB
       first (ErrClosed), Write of an empty batch (nil) and Discard (no-op);
     - iterators: the error they already hold; a released real iterator reports ErrIterReleased once moved;
       an unreleased real iterator is unspecified; SetReleaser panics on a released iterator. *)
Definition closed_outcome (db : dbrec) (h : nat) (m : api_call) : outcome :=
  match recv m with
  | RDb => ErrClosed
  | RSnap =>
      match nth_error (dsnaps db) h with
      | None => NoHandle
      | Some r =>
          match m with
          | SnString | SnRelease => Ok
          | _ => if r then ErrSnapshotReleased else ErrClosed
          end
      end
  | RTxn =>
      match nth_error (dtxns db) h with
      | None => NoHandle
      | Some _ =>
          match m with
          | TrCommit => ErrClosed
          | TrDiscard | TrWrite true => Ok
          | _ => ErrTransactionDone
          end
      end
  | RIter =>
      match nth_error (diters db) h with
      | None => NoHandle
      | Some i =>
          match m with
          | ItSetReleaser nonnil => if irel i then Panics else if ihasr i && nonnil then Panics else ierr i
          | ItRelease => if iter_unsafe db i then Unspecified else ierr i
          | ItValid | ItError | ItKey | ItValue => ierr i
          | _ =>
              match ierr i with
              | Ok => if irel i then ErrIterReleased else if iter_unsafe db i then Unspecified else Ok
              | e => e
              end
          end
      end
  end.
