(* Store/CrashBytes.v — byte-level crash images of the journal-format files (journals, manifest) and their
   reduction to the record-level images of Store/Crash.v.  Model file: definitions only (proofs in
   Store/CrashBytesProofs.v).

   A journal-format file holding the records recs is the byte string the writer model of Codec/Journal.v
   produces for their encodings (jwrite, any flush pattern).  db_write.go writeJournal: Next, Write, Flush,
   and Sync if asked; session_util.go flushManifest: Next, encode, Flush, Sync — so a Sync happens after
   whole records only, and the bytes that are durable once record k has been synced are the stream written
   for the first k records.  A crash keeps those, any further prefix of the bytes written later (cut at an
   arbitrary byte, inside a chunk header or payload, inside the zero padding of a block) and may leave
   anything behind the cut (nothing, zeros, garbage, stale blocks).
   Recovery reads the bytes with the tolerant reader exactly as recoverJournal (leveldb/db.go) drives it
   (jread false ck: Next, ReadFrom, io.ErrUnexpectedEOF => skip), decodes every record it yields and skips
   the ones that do not decode ("journal error ... (skipped)": !strict && errors.IsCorrupted(err)). *)
From GL Require Export Store.Crash Codec.Journal Codec.JournalSpec.

Section CrashBytes.
  Variable crc : bytes -> N.
  Variable p : jparams.

  Section Recs.
    Variable A : Type.
    Variable enc : A -> bytes.            (* the record's own encoding (batch.go / session_record.go) *)
    Variable dec : bytes -> option A.     (* its decoder; None = "corrupted", skipped by the tolerant replay *)

    (* the file after the records recs were appended *)
    Definition jbytes (fl : list bool) (recs : list A) : bytes := jwrite crc p fl (map enc recs).

    (* the length of the file when the k-th record had been written and flushed (where a Sync can happen) *)
    Definition synced_len (fl : list bool) (recs : list A) (k : nat) : nat := length (jbytes fl (firstn k recs)).

    (* what a crash leaves: the first n bytes, then an arbitrary tail *)
    Definition crash_bytes (fl : list bool) (recs : list A) (n : nat) (tail : bytes) : bytes :=
      firstn n (jbytes fl recs) ++ tail.

    Definition keep_decoded (rs : list bytes) : list A :=
      flat_map (fun r => match dec r with Some a => [a] | None => [] end) rs.

    (* the replay loop of recoverJournal over the bytes found *)
    Definition recover_records (ck : bool) (d : bytes) : list bytes := recs_of (jread crc p false ck d).
    Definition recover_bytes (ck : bool) (d : bytes) : list A := keep_decoded (recover_records ck d).
  End Recs.

  (* ---- the computable hypothesis on what lies behind the cut ----
     no_forgery_tail ck rs d: whatever the block parser accepts anywhere in d is, in order, a leading run of the
     chunks originally written for rs, and once it has rejected something (zero header, bad type, length
     overflow, checksum mismatch: "rest of block dropped") it accepts nothing any more.  It is a theorem
     for a pure cut (CrashBytesProofs.no_forgery_tail_cut); for zeros or garbage behind the cut it says
     that the 32-bit checksum did not accept a chunk that was never written — which no checksum can
     exclude in principle, hence a hypothesis, exactly as no_forgery in C12 (it is a boolean one can
     evaluate on the concrete image; the harness does, with the real CRC-32C). *)
  Fixpoint lead_chunks (evs : list bev) : list chunk * list bev :=
    match evs with
    | BChunk c :: evs' => let (cs, r) := lead_chunks evs' in (c :: cs, r)
    | _ => ([], evs)
    end.

  Definition is_bad (e : bev) : bool := match e with BBad _ _ => true | BChunk _ => false end.

  Fixpoint chunks_prefixb (a b : list chunk) : bool :=
    match a, b with
    | [], _ => true
    | x :: a', y :: b' => chunk_eqb x y && chunks_prefixb a' b'
    | _ :: _, [] => false
    end.

  Definition no_forgery_tail (ck : bool) (rs : list bytes) (d : bytes) : bool :=
    let (cs, rest) := lead_chunks (stream_events crc p ck d) in
    chunks_prefixb cs (lay_chunks (layout p rs)) && forallb is_bad rest.

  (* ---- byte-level images of a persistence state ---- *)
  Variable enc_batch : batch -> bytes.
  Variable dec_batch : bytes -> option batch.
  Variable enc_edit : medit -> bytes.
  Variable dec_edit : bytes -> option medit.

  Record bimage := { bi_live : bytes; bi_frozen : option bytes; bi_man : bytes }.

  (* d is what a crash can leave of a file that holds recs, of which the first k records were synced *)
  Definition is_crash_bytes {A} (enc : A -> bytes) (ck : bool) (recs : list A) (k : nat) (d : bytes) : Prop :=
    exists fl n tail,
      (synced_len A enc fl recs k <= n)%nat /\ d = crash_bytes A enc fl recs n tail /\
      no_forgery_tail ck (map enc recs) d = true.

  (* ck: opt.StrictJournalChecksum for journals; the manifest reader always verifies checksums *)
  Definition is_byte_image (ck : bool) (s : pstate) (b : bimage) : Prop :=
    is_crash_bytes enc_batch ck (j_recs (p_live s)) (j_synced (p_live s)) (bi_live b) /\
    (match p_frozen s, bi_frozen b with
     | Some f, Some d => is_crash_bytes enc_batch ck (j_recs f) (j_synced f) d
     | Some f, None => j_synced f = 0%nat            (* a never-synced file may vanish *)
     | None, None => True
     | None, Some _ => False
     end) /\
    is_crash_bytes enc_edit true (p_man s) (p_msynced s) (bi_man b).

  (* the record-level image recovery sees in a byte-level image *)
  Definition abs_image (ck : bool) (s : pstate) (b : bimage) : image :=
    {| i_live := {| j_num := j_num (p_live s); j_recs := recover_bytes batch dec_batch ck (bi_live b);
                    j_synced := j_synced (p_live s) |};
       i_frozen := match p_frozen s, bi_frozen b with
                   | Some f, Some d => Some {| j_num := j_num f; j_recs := recover_bytes batch dec_batch ck d;
                                               j_synced := j_synced f |}
                   | _, _ => None
                   end;
       i_man := recover_bytes medit dec_edit true (bi_man b) |}.

  (* recovery of a byte-level image *)
  Definition recover_image_bytes (ck : bool) (s : pstate) (b : bimage) : list batch := recover (abs_image ck s b).
End CrashBytes.

(* ---- the batch record's own encoding, as recoverJournal decodes it (leveldb/batch.go) ----
   decodeBatchHeader: 8 bytes sequence number and 4 bytes record count, little endian ("too short" below 12
   bytes); decodeBatch: per record a type byte (0 delete, 1 put; anything else "invalid type"), a uvarint key
   length and the key, for a put a uvarint value length and the value ("invalid key/value length" when the
   varint is malformed or the field overruns the data); decodeBatchToMem: "invalid records length" unless the
   number of records equals the header's count.  The comparison with the running sequence number (seq <
   expectSeq, "invalid sequence number") is replay_journal's in Store/Crash.v.  Every one of these errors is
   an ErrCorrupted, which the tolerant replay logs and skips.  Lengths are N here (Go converts the uvarint
   to int: a length of 2^63 or more is outside the model). *)
From GL Require Import Base.Varint.

Fixpoint batch_walk (fuel : nat) (data : bytes) (i : N) : option N :=
  match data with
  | [] => Some i
  | kt :: d1 =>
      match fuel with
      | O => None
      | S f =>
          if 1 <? kt then None
          else match uvarint d1 with
               | UvOk x n =>
                   if Varint.lenN d1 <? n + x then None
                   else let d2 := Varint.dropN (n + x) d1 in
                        if kt =? 1 then
                          match uvarint d2 with
                          | UvOk y n2 =>
                              if Varint.lenN d2 <? n2 + y then None
                              else batch_walk f (Varint.dropN (n2 + y) d2) (i + 1)
                          | _ => None
                          end
                        else batch_walk f d2 (i + 1)
               | _ => None
               end
      end
  end.

(* hl: batchHeaderLen (Gen/Consts.v: ldb_batchHeaderLen); the offsets 0 and 8 are literals in batch.go *)
Definition dec_batch_go (hl : N) (r : bytes) : option batch :=
  if Varint.lenN r <? hl then None
  else
    let seq := le_decode (Varint.takeN 8 r) in
    let n := le_decode (Varint.takeN 4 (Varint.dropN 8 r)) in
    match batch_walk (length r) (Varint.dropN hl r) 0 with
    | Some c => if c =? n then Some {| b_seq := seq; b_n := n |} else None
    | None => None
    end.

(* an encoder with that decoder, used for non-vacuity only: header, then b_n deletions of the empty key *)
Definition enc_batch_dels (b : batch) : bytes :=
  le_encode 8 (b_seq b) ++ le_encode 4 (b_n b) ++ N.iter (b_n b) (fun l => 0 :: 0 :: l) [].
