(* Store/FileStorageSeq.v — the file storage (leveldb/storage/file_storage.go) used SEQUENTIALLY and WITHOUT crashes, as one
   storage.Storage: Open / Create / Remove / Rename / List / Lock / SetMeta / GetMeta / Close and the file handles
   (fileWrap over *os.File).  Built from the pieces of Store/FileStorage.v: the name codec ([gen_name],
   [gen_old_name], [has_old_name], [parse_name]), the method guards ([guard]), setMeta's operations ([set_meta_ops]),
   GetMeta's choice and repair ([get_meta]).  Definitions only (proofs: Store/FileStorageSeqProofs.v).

   The directory: entries named fsGenName(fd) are kept under their descriptor ([q_dir]; the codec theorems
   parse_gen_name / gen_name_inj of FileStorageProofs.v make this a faithful picture of those names), every other
   entry under its name ([q_other]: old-style ".sst" table names and foreign files found at OpenFile), the CURRENT
   family (CURRENT, CURRENT.bak, CURRENT.<n>) as a view of its own ([q_cur]).  LOCK and LOG never parse as
   descriptors (parse_specials) and are left out.  Files are inodes: a name binds an inode; an open handle keeps its inode
   whatever happens to the name (unlink / rename over it).  Create on an existing name truncates THAT inode
   (O_TRUNC).  A writer has its own file position (the files are not opened with O_APPEND): after another handle
   truncated or extended the file, its next write lands at its own position (a hole reads as zero bytes).
   A reader sees the inode's current bytes; [QR]'s [snap] field is a ghost (the bytes at Open), used only to state
   where the file storage leaves the contract.
   Unix semantics (file_storage_unix.go): rename replaces atomically, an open file can be unlinked. *)
From Coq Require Import List NArith ZArith Bool.
From GL Require Import Base.Bytes Base.NIdx Store.FileStorage Store.StorContract.
Import ListNotations.
Open Scope N_scope.

Definition ftype_of (t : N) : ftype := match ftype_of_code t with Some x => x | None => TTemp end.
Definition fd_of (f : xfd) : fdesc := FD (ftype_of (x_ty f)) (x_num f).
Definition xfd_of (fd : fdesc) : xfd := XFD (ftype_code (fd_type fd)) (fd_num fd).

Inductive qhandle :=
| QW (ino : nat) (pos : N) (closed : bool)
| QR (ino : nat) (snap : bytes) (closed : bool).

Record qst := QS {
  q_dir : list (xfd * nat);
  q_other : list (bytes * nat);
  q_inos : list bytes;
  q_hs : list qhandle;
  q_cur : view;
  q_closed : bool;
  q_lock : option nat;
  q_nlock : nat }.

Definition q_empty : qst := QS [] [] [] [] [] false None 0.

Definition q_ino (s : qst) (i : nat) : bytes := nth i (q_inos s) [].

(* the directory as GetMeta / setMeta see it: names and contents *)
Definition q_view (s : qst) : view :=
  q_cur s ++ map (fun e => (gen_name (fd_of (fst e)), q_ino s (snd e))) (q_dir s)
          ++ map (fun e => (fst e, q_ino s (snd e))) (q_other s).

Definition is_cur_name (n : bytes) : bool := is_prefix s_CURRENT n.
Definition cur_part (v : view) : view := filter (fun e => is_cur_name (fst e)) v.

Definition qerr (e : serr) : option serrc :=
  match e with
  | SOk => None
  | SErrClosed => Some EClosed
  | SErrInvalidFile => Some EInvalid
  | SErrLocked => Some ELocked
  | _ => Some EOther
  end.

(* the guards of a method on a read-write storage *)
Definition qguard (s : qst) (m : fmeth) : option serrc := qerr (guard (ST false (q_closed s) None 0) m).

(* pwrite at the handle's position: the file is extended with zero bytes up to pos when it is shorter *)
Definition write_at (c : bytes) (pos : N) (d : bytes) : bytes :=
  let c' := if lenN c <? pos then c ++ zeros (pos - lenN c) else c in
  takeN c' pos ++ d ++ dropN c' (pos + lenN d).

Fixpoint filter_parse (names : list bytes) : list xfd :=
  match names with
  | [] => []
  | n :: r => match parse_name n with
              | Some fd => xfd_of fd :: filter_parse r
              | None => filter_parse r
              end
  end.

Definition q_with (s : qst) (d : list (xfd * nat)) (o : list (bytes * nat)) (inos : list bytes) (hs : list qhandle) : qst :=
  QS d o inos hs (q_cur s) (q_closed s) (q_lock s) (q_nlock s).

Definition qstep (s : qst) (o : sop) : qst * sres :=
  match o with
  | SLock =>
      if q_closed s then (s, RErr EClosed)
      else match q_lock s with
           | Some _ => (s, RErr ELocked)
           | None => (QS (q_dir s) (q_other s) (q_inos s) (q_hs s) (q_cur s) (q_closed s) (Some (q_nlock s)) (S (q_nlock s)),
                      RLockId (q_nlock s))
           end
  | SUnlock k =>
      match q_lock s with
      | Some k' => if Nat.eqb k k'
                   then (QS (q_dir s) (q_other s) (q_inos s) (q_hs s) (q_cur s) (q_closed s) None (q_nlock s), ROk)
                   else (s, ROk)
      | None => (s, ROk)
      end
  | SSetMeta f =>
      match qguard s (MSetMeta (xfd_ok f)) with
      | Some e => (s, RErr e)
      | None =>
          let v := q_view s in
          let v' := vapply_all v (set_meta_ops v (fd_of f)) in
          (QS (q_dir s) (q_other s) (q_inos s) (q_hs s) (cur_part v') (q_closed s) (q_lock s) (q_nlock s), ROk)
      end
  | SGetMeta =>
      match qguard s MGetMeta with
      | Some e => (s, RErr e)
      | None =>
          let '(r, v') := get_meta false (q_view s) in
          (QS (q_dir s) (q_other s) (q_inos s) (q_hs s) (cur_part v') (q_closed s) (q_lock s) (q_nlock s),
           match r with
           | GOk fd => RFd (xfd_of fd)
           | GErr GNotExist => RErr ENotExist
           | GErr GCorrupted => RErr ECorrupt
           end)
      end
  | SList mask =>
      match qguard s MList with
      | Some e => (s, RErr e)
      | None => (s, RList (list_fds mask (filter_parse (map fst (q_view s)))))
      end
  | SOpen f =>
      match qguard s (MOpen (xfd_ok f)) with
      | Some e => (s, RErr e)
      | None =>
          let found := match dlookup f (q_dir s) with
                       | Some i => Some i
                       | None => if has_old_name (fd_of f) then lookup (q_other s) (gen_old_name (fd_of f)) else None
                       end in
          match found with
          | Some i => (q_with s (q_dir s) (q_other s) (q_inos s) (q_hs s ++ [QR i (q_ino s i) false]), RHandle (length (q_hs s)))
          | None => (s, RErr ENotExist)
          end
      end
  | SCreate f =>
      match qguard s (MCreate (xfd_ok f)) with
      | Some e => (s, RErr e)
      | None =>
          match dlookup f (q_dir s) with
          | Some i => (q_with s (q_dir s) (q_other s) (set_nth (q_inos s) i []) (q_hs s ++ [QW i 0 false]),
                       RHandle (length (q_hs s)))
          | None =>
              let i := length (q_inos s) in
              (q_with s (dset f i (q_dir s)) (q_other s) (q_inos s ++ [[]]) (q_hs s ++ [QW i 0 false]),
               RHandle (length (q_hs s)))
          end
      end
  | SRemove f =>
      match qguard s (MRemove (xfd_ok f)) with
      | Some e => (s, RErr e)
      | None =>
          match dlookup f (q_dir s) with
          | Some _ => (q_with s (dremove f (q_dir s)) (q_other s) (q_inos s) (q_hs s), ROk)
          | None =>
              if has_old_name (fd_of f) && has (q_other s) (gen_old_name (fd_of f))
              then (q_with s (q_dir s) (remove_at (q_other s) (gen_old_name (fd_of f))) (q_inos s) (q_hs s), ROk)
              else (s, RErr ENotExist)
          end
      end
  | SRename a b =>
      match qguard s (MRename (xfd_ok a && xfd_ok b) (xfd_eqb a b)) with
      | Some e => (s, RErr e)
      | None =>
          if xfd_eqb a b then (s, ROk)
          else match dlookup a (q_dir s) with
               | Some i => (q_with s (dset b i (dremove a (q_dir s))) (q_other s) (q_inos s) (q_hs s), ROk)
               | None => (s, RErr ENotExist)
               end
      end
  | SClose =>
      if q_closed s then (s, RErr EClosed)
      else (QS (q_dir s) (q_other s) (q_inos s) (q_hs s) (q_cur s) true (q_lock s) (q_nlock s), ROk)
  | HWrite h d =>
      match nth_error (q_hs s) h with
      | Some (QW i pos false) =>
          (q_with s (q_dir s) (q_other s) (set_nth (q_inos s) i (write_at (q_ino s i) pos d))
                  (set_nth (q_hs s) h (QW i (pos + lenN d) false)), ROk)
      | Some (QW _ _ true) => (s, RErr EOsClosed)
      | _ => (s, RBadOp)
      end
  | HSync h =>
      match nth_error (q_hs s) h with
      | Some (QW _ _ false) => (s, ROk)
      | Some (QW _ _ true) => (s, RErr EOsClosed)
      | _ => (s, RBadOp)
      end
  | HReadAll h =>
      match nth_error (q_hs s) h with
      | Some (QR i _ false) => (s, RData (q_ino s i))
      | Some (QR _ _ true) => (s, RErr EOsClosed)
      | _ => (s, RBadOp)
      end
  | HClose h =>
      match nth_error (q_hs s) h with
      | Some (QW i pos false) => (q_with s (q_dir s) (q_other s) (q_inos s) (set_nth (q_hs s) h (QW i pos true)), ROk)
      | Some (QR i snap false) => (q_with s (q_dir s) (q_other s) (q_inos s) (set_nth (q_hs s) h (QR i snap true)), ROk)
      | Some _ => (s, RErr EClosed)
      | None => (s, RBadOp)
      end
  end.

Fixpoint qrun (s : qst) (ops : list sop) : qst * list sres :=
  match ops with
  | [] => (s, [])
  | o :: ops' => let '(s1, r) := qstep s o in let '(s2, rs) := qrun s1 ops' in (s2, r :: rs)
  end.

(* ================================================================ abstraction to the contract's state *)

Fixpoint last_qwriter_from (hs : list qhandle) (j : nat) (i : nat) (acc : option nat) : option nat :=
  match hs with
  | [] => acc
  | QW j' _ _ :: hs' => last_qwriter_from hs' j (S i) (if Nat.eqb j' j then Some i else acc)
  | QR _ _ _ :: hs' => last_qwriter_from hs' j (S i) acc
  end.
Definition last_qwriter (hs : list qhandle) (j : nat) : option nat := last_qwriter_from hs j 0 None.

Definition abs_qhandle (h : qhandle) : chandle :=
  match h with
  | QW _ _ cl => CW cl
  | QR _ snap cl => CR snap cl
  end.

Definition abs_qentry (s : qst) (e : xfd * nat) : xfd * cfile :=
  (fst e, (q_ino s (snd e), last_qwriter (q_hs s) (snd e))).

(* the descriptor CURRENT names (the last SetMeta of a sequential run) *)
Definition q_meta (s : qst) : option xfd :=
  match lookup (q_cur s) s_CURRENT with
  | Some b => option_map xfd_of (check_content b)
  | None => None
  end.

Definition q_abs (s : qst) : cst :=
  CS (map (abs_qentry s) (q_dir s)) (map abs_qhandle (q_hs s)) (q_lock s) (q_nlock s) (q_meta s) (q_closed s).

(* ================================================================ where the file storage leaves the contract *)

Definition qh_closed (h : qhandle) : bool := match h with QW _ _ c | QR _ _ c => c end.
Definition qh_ino (h : qhandle) : nat := match h with QW i _ _ | QR i _ _ => i end.

(* some handle on inode i is not closed *)
Definition ino_busy (s : qst) (i : nat) : bool :=
  existsb (fun h => negb (qh_closed h) && Nat.eqb (qh_ino h) i) (q_hs s).

(* [dev_fs s o]: the file storage in state s may answer o differently from the contract or change its state
   differently.  Every class is witnessed in Props/C18M.v.  SetMeta / GetMeta are left out of the refinement
   THEOREM (see there): they are covered by the theorems of Props/C04FS.v and compared by (K) on every run. *)
Definition dev_fs (s : qst) (o : sop) : bool :=
  match o with
  | SSetMeta _ | SGetMeta => true                        (* F0: not part of the theorem *)
  | SOpen f | SRemove f =>                               (* F1: old-style ".sst" names are consulted *)
      xfd_ok f && negb (q_closed s)
      && match dlookup f (q_dir s) with
         | Some _ => false
         | None => has_old_name (fd_of f) && has (q_other s) (gen_old_name (fd_of f))
         end
  | SList _ =>                                           (* F1/F2: other names that parse as descriptors are listed *)
      negb (q_closed s) && negb (match filter_parse (map fst (q_other s)) with [] => true | _ => false end)
  | SCreate f =>                                         (* F3: the inode is truncated under its open handles *)
      xfd_ok f && negb (q_closed s)
      && match dlookup f (q_dir s) with Some i => ino_busy s i | None => false end
  | HWrite h _ | HSync h =>                              (* F4: a closed handle answers os.ErrClosed, not ErrClosed *)
      match nth_error (q_hs s) h with Some hd => qh_closed hd | None => false end
  | HReadAll h =>                                        (* F4; F5: a reader sees the file's current bytes *)
      match nth_error (q_hs s) h with
      | Some (QR i snap cl) => cl || negb (beq snap (q_ino s i))
      | _ => false
      end
  | _ => false
  end.

Fixpoint fs_dev_free (s : qst) (ops : list sop) : bool :=
  match ops with
  | [] => true
  | o :: ops' => negb (dev_fs s o) && fs_dev_free (fst (qstep s o)) ops'
  end.
