(* Store/RepairSeqProofs.v — whole-function facts about Store/RepairBytes.v recover_bytes (leveldb.Recover on bytes):
   (A) a record that carries a sequence number hands it to the session through session.commit, whichever way the
       manifest is written (new manifest, new manifest because of the size limit, flushed record);
   (B) db.seq never decreases through recoverJournal / recoverJournalRO on ARBITRARY journal bytes, as long as no
       applied batch makes "batchSeq + batchLen" wrap around 2^64 (the applied batches are the ghost os_kept);
   (C) the loop of recoverTable over the table files: every file gets one log line, the files not yet visited are
       untouched, the running maximum dominates the sequence number of every registered table;
   (D) the composition: db.seq of the DB Recover returns is at or above the sequence number of every good key of
       every table it registered. *)
From Coq Require Import List NArith ZArith Bool Lia Permutation.
From GL Require Import Base.Bytes Base.Order Codec.IKey Codec.Table Lsm.ReadPath
  Store.OpenPath Store.OpenJournalProofs Store.OpenTotalProofs Store.RepairBytes Store.RepairBytesProofs.
From GL Require Codec.Batch Codec.SessionRecord Mem.MemDB.
Import ListNotations.
Local Open Scope N_scope.

Lemma fold_left_inv {A B} (P : A -> Prop) (f : A -> B -> A) l :
  (forall a b, P a -> P (f a b)) -> forall a, P a -> P (fold_left f l a).
Proof. intros H. induction l as [|x l IH]; intros a Ha; cbn [fold_left]; [exact Ha | apply IH, H, Ha]. Qed.

(* ------------------------------------------------------------------ (A) the sequence number through commit *)
Section SeqSet.
  Variable jcrc : bytes -> N.
  Variable jp : Journal.jparams.
  Variable rp : SR.rparams.
  Variable c : comparer.

  Definition seqset (n : N) (r : SR.srec) : Prop := SR.has r (SR.tSeqNum rp) = true /\ SR.sr_seq r = n.

  Ltac keep H := destruct H as [A B]; split; [unfold SR.has; cbn [SR.sr_has]; apply N.setbit_iff; right; exact A | exact B].

  Lemma seqset_set_seq r n : seqset n (SR.set_seq rp r n).
  Proof. split; [unfold SR.has, SR.set_seq; cbn [SR.sr_has]; apply N.setbit_eq | reflexivity]. Qed.
  Lemma seqset_nextfile r n z : seqset n r -> seqset n (SR.set_nextfile rp r z).
  Proof. intros H. unfold SR.set_nextfile. keep H. Qed.
  Lemma seqset_journal r n z : seqset n r -> seqset n (SR.set_journal rp r z).
  Proof. intros H. unfold SR.set_journal. keep H. Qed.
  Lemma seqset_comparer r n z : seqset n r -> seqset n (SR.set_comparer rp r z).
  Proof. intros H. unfold SR.set_comparer. keep H. Qed.
  Lemma seqset_cp r n z : seqset n r -> seqset n (SR.add_comp_ptr rp r z).
  Proof. intros H. unfold SR.add_comp_ptr. keep H. Qed.
  Lemma seqset_table r n z : seqset n r -> seqset n (SR.add_table rp r z).
  Proof. intros H. unfold SR.add_table. keep H. Qed.

  Lemma seqset_cptrs n cps : forall level r, seqset n r -> seqset n (add_cptrs rp level cps r).
  Proof.
    induction cps as [|[ik|] cps IH]; intros level r H; cbn [add_cptrs]; [exact H| |apply IH; exact H].
    apply IH. apply seqset_cp. exact H.
  Qed.

  Lemma seqset_fill n s r snapshot name : seqset n r -> seqset n (fill_record rp s r snapshot name).
  Proof.
    intros H. unfold fill_record. cbv zeta.
    pose proof (seqset_nextfile r n (s_next s) H) as H1.
    destruct snapshot; [|exact H1].
    apply seqset_comparer, seqset_cptrs.
    set (r2 := if SR.has (SR.set_nextfile rp r (s_next s)) (SR.tJournalNum rp) then _ else _).
    assert (H2 : seqset n r2) by (unfold r2; destruct (SR.has _ (SR.tJournalNum rp)); [exact H1 | apply seqset_journal; exact H1]).
    rewrite (proj1 H2). exact H2.
  Qed.

  Lemma seqset_vfill n v r : seqset n r -> seqset n (v_fill_record rp v r).
  Proof.
    intros H. unfold v_fill_record. cbv zeta. apply fold_left_inv; [|exact H].
    intros a lt Ha. apply fold_left_inv; [|exact Ha].
    intros a' t Ha'. destruct (SR.memZ _ _); [exact Ha' | apply seqset_table; exact Ha'].
  Qed.

  Lemma record_commited_seq n s r s2 : seqset n r -> record_commited rp s r = OOk s2 -> s_seq s2 = n.
  Proof.
    intros [A B]. unfold record_commited. destruct (SR.pfold _ _ _); try discriminate.
    intros E. injection E as <-. cbn [s_seq]. rewrite A. exact B.
  Qed.

  Lemma new_manifest_seq n name rec v st st' rec' : seqset n rec ->
    new_manifest jcrc jp rp name rec v st = OOk (st', rec') -> s_seq (c_sess st') = n /\ seqset n rec'.
  Proof.
    intros H. unfold new_manifest. cbv zeta.
    set (r' := v_fill_record rp v _).
    assert (H' : seqset n r') by (apply seqset_vfill, seqset_fill; exact H). clearbody r'.
    destruct (SR.encode rp r') as [b|]; [|discriminate].
    destruct (record_commited rp _ r') as [s2|e] eqn:Erc; cbn [obind]; [|discriminate].
    apply (record_commited_seq n _ _ _ H') in Erc.
    destruct (s_hasman (c_sess st) || negb (s_manfd (c_sess st) <? 0)%Z); intros E; injection E as <- <-;
      cbn [c_sess s_seq]; split; assumption.
  Qed.

  Lemma flush_manifest_seq n name rec st st' rec' : seqset n rec ->
    flush_manifest jcrc jp rp name rec st = OOk (st', rec') -> s_seq (c_sess st') = n /\ seqset n rec'.
  Proof.
    intros H. unfold flush_manifest. cbv zeta.
    set (r' := fill_record rp _ rec false name).
    assert (H' : seqset n r') by (apply seqset_fill; exact H). clearbody r'.
    destruct (SR.encode rp r') as [b|]; [|discriminate].
    destruct (record_commited rp _ r') as [s2|e] eqn:Erc; cbn [obind]; [|discriminate].
    apply (record_commited_seq n _ _ _ H') in Erc.
    intros E; injection E as <- <-. cbn [c_sess s_seq]. split; assumption.
  Qed.

  Theorem commit_seq n o rec st st' rec' : seqset n rec ->
    commit jcrc jp rp c o rec st = OOk (st', rec') -> s_seq (c_sess st') = n.
  Proof.
    intros H. unfold commit. destruct (spawn c _ _) as [nv|e]; cbn [obind]; [|discriminate].
    destruct (negb (s_hasman (c_sess st))).
    - destruct (new_manifest _ _ _ _ rec nv st) as [[st1 rec1]|e] eqn:E1; cbn [obind]; [|discriminate].
      intros E; injection E as <- _. cbn [c_sess set_levels s_seq]. exact (proj1 (new_manifest_seq _ _ _ _ _ _ _ H E1)).
    - destruct (oo_maxman o <=? _)%Z.
      + match goal with |- context [new_manifest _ _ _ _ ?r nv st] => set (nr := r) end.
        assert (Hn : seqset n nr).
        { unfold nr. rewrite (proj1 H). rewrite (proj2 H). apply seqset_set_seq. }
        clearbody nr.
        destruct (new_manifest _ _ _ _ nr nv st) as [[st1 rec1]|e] eqn:E1; cbn [obind]; [|discriminate].
        intros E; injection E as <- _. cbn [c_sess set_levels s_seq fst]. exact (proj1 (new_manifest_seq _ _ _ _ _ _ _ Hn E1)).
      + destruct (flush_manifest _ _ _ _ rec st) as [[st1 rec1]|e] eqn:E1; cbn [obind]; [|discriminate].
        intros E; injection E as <- _. cbn [c_sess set_levels s_seq]. exact (proj1 (flush_manifest_seq _ _ _ _ _ _ H E1)).
  Qed.
End SeqSet.

(* ------------------------------------------------------------------ (B) db.seq through the journal replay *)
Section SeqMono.
  (* side condition on the key constants (keyMaxSeq = 2^56-1), re-proved for the generated constants on every run *)
  Variable jcrc : bytes -> N.
  Variable jp : Journal.jparams.
  Variable rp : SR.rparams.
  Variable kp : kparams.
  Hypothesis kpok : kparams_ok kp.
  Variable bhl : N.
  Variable mp : MemDB.mparams.
  Variable tp : tparams.
  Variable tcrc : bytes -> N.
  Variable compress : bytes -> bytes.
  Variable snappy : bool.
  Variable fgen : option (bytes * (list (N * list bytes) -> bytes)).
  Variable blockSize ri : N.
  Variable c : comparer.

  Definition nowrap (l : list (N * N)) : Prop := forall x, In x l -> fst x + snd x < 2 ^ 64.

  (* b continues a: more batches applied, none of which makes "batchSeq + uint64(batchLen)" wrap (decodeBatchToMem
     accepts a header only if first seq + count <= keyMaxSeq), and db.seq did not decrease *)
  Definition ext (a b : rj) : Prop :=
    exists l, r_kept b = r_kept a ++ l /\ nowrap l /\ r_seq a <= r_seq b.

  Lemma ext_refl a : ext a a.
  Proof. exists []. split; [symmetry; apply app_nil_r | split; [intros x []|lia]]. Qed.
  Lemma ext_same a b : r_seq b = r_seq a -> r_kept b = r_kept a -> ext a b.
  Proof. intros S K. exists []. split; [rewrite K; symmetry; apply app_nil_r | split; [intros x []|lia]]. Qed.
  Lemma ext_trans a b d : ext a b -> ext b d -> ext a d.
  Proof.
    intros (l1 & K1 & N1 & S1) (l2 & K2 & N2 & S2). exists (l1 ++ l2). split; [rewrite K2, K1; symmetry; apply app_assoc|].
    split; [|lia]. intros x Hx. apply in_app_or in Hx as [Hx|Hx]; [apply N1|apply N2]; exact Hx.
  Qed.
  Lemma ext_left a a' b : r_seq a' = r_seq a -> r_kept a' = r_kept a -> ext a' b -> ext a b.
  Proof. intros S K H. eapply ext_trans; [apply (ext_same a a' S K) | exact H]. Qed.

  Lemma decode_to_mem_seq data e d hs sq bl d' hs' :
    BT.decode_to_mem kp bhl (ibc c) mp data e d hs = BT.TmOk sq bl d' hs' -> e <= sq.
  Proof.
    unfold BT.decode_to_mem. destruct (BT.decode_header _) as [x|[s b]]; [discriminate|].
    destruct (s <? e) eqn:El; [discriminate|]. apply N.ltb_ge in El.
    destruct ((keyMaxSeq kp <? s) || (keyMaxSeq kp - s <? b)); [discriminate|].
    destruct (BT.decode_loop _ _ _ _ _ _) as [st|x st| |]; try discriminate.
    destruct (BT.tm_n st =? Z.of_N b)%Z; [|discriminate]. intros E. injection E as <- _ _ _. exact El.
  Qed.

  Lemma decode_to_mem_rng data e d hs sq bl d' hs' :
    BT.decode_to_mem kp bhl (ibc c) mp data e d hs = BT.TmOk sq bl d' hs' -> sq + bl <= keyMaxSeq kp.
  Proof.
    unfold BT.decode_to_mem. destruct (BT.decode_header _) as [x|[s b]]; [discriminate|].
    destruct (s <? e); [discriminate|].
    destruct ((keyMaxSeq kp <? s) || (keyMaxSeq kp - s <? b)) eqn:Er; [discriminate|].
    destruct (BT.decode_loop _ _ _ _ _ _) as [st|x st| |]; try discriminate.
    destruct (BT.tm_n st =? Z.of_N b)%Z; [|discriminate]. intros E. injection E as <- <- _ _.
    apply Bool.orb_false_iff in Er as [E1 E2]. apply N.ltb_ge in E1. apply N.ltb_ge in E2. lia.
  Qed.

  Lemma key_max_lt : keyMaxSeq kp < 2 ^ 64.
  Proof.
    destruct kpok as (_ & _ & _ & _ & Hm & _). rewrite Hm. change (2 ^ 56) with 72057594037927936.
    change (2 ^ 64) with 18446744073709551616. lia.
  Qed.

  Local Notation rrec := (replay_record rp kp bhl mp tp tcrc compress snappy fgen blockSize ri c).
  Local Notation routs := (replay_outcomes rp kp bhl mp tp tcrc compress snappy fgen blockSize ri c).
  Local Notation flushm := (flush_memdb rp kp mp tp tcrc compress snappy fgen blockSize ri c).
  Local Notation commitrj := (commit_rj jcrc jp rp c).
  Local Notation loop_rw := (rj_loop jcrc jp rp kp bhl mp tp tcrc compress snappy fgen blockSize ri c).
  Local Notation loop_ro := (rj_loop_ro jcrc jp rp kp bhl mp tp tcrc compress snappy fgen blockSize ri c).

  Lemma flush_ext st st' : flushm st = OOk st' -> ext st st'.
  Proof. intros E. apply flush_memdb_facts in E as (S & _ & _ & K & _). apply ext_same; assumption. Qed.

  Lemma commit_rj_ext o j a b : commitrj o j a = OOk b -> ext a b.
  Proof.
    unfold commit_rj. destruct (commit _ _ _ _ o _ (r_c a)) as [[cs rec]|e]; cbn [obind]; [|discriminate].
    intros E; injection E as <-. apply ext_same; reflexivity.
  Qed.

  Lemma replay_record_ext o flush j data st st' : rrec o flush j data st = OOk st' -> ext st st'.
  Proof.
    unfold replay_record.
    destruct (BT.decode_to_mem kp bhl (ibc c) mp data (r_seq st) (r_mdb st) (r_hts st)) as [sq bl d hts|e d hts| |] eqn:Ed;
      try discriminate.
    - pose proof (decode_to_mem_rng _ _ _ _ _ _ _ _ Ed) as Hr.
      apply decode_to_mem_seq in Ed. pose proof key_max_lt as Hk.
      set (st1 := mkRJ _ _ _ _ _ _).
      assert (W : sq + bl < 2 ^ 64) by lia.
      assert (X : ext st st1).
      { exists [(sq, bl)]. split; [reflexivity|]. split.
        - intros x [<-|[]]. exact W.
        - unfold st1. cbn [r_seq]. unfold BT.u64. change 18446744073709551616 with (2 ^ 64).
          rewrite N.mod_small by exact W. lia. }
      destruct (flush && (oo_wbuf o <=? MemDB.mdb_size d)%Z).
      + destruct (flushm st1) as [st2|e2] eqn:Ef; cbn [obind]; [|discriminate].
        destruct (MemDB.mdb_reset mp (r_mdb st2)) as [d0| |]; cbn [of_mres obind]; try discriminate.
        intros E. injection E as <-. eapply ext_trans; [exact X|]. eapply ext_trans; [apply (flush_ext _ _ Ef)|].
        apply ext_same; reflexivity.
      + intros E. injection E as <-. exact X.
    - destruct (oo_strict_j o); [discriminate|]. intros E. injection E as <-. apply ext_same; reflexivity.
  Qed.

  Lemma replay_outcomes_ext o flush j l : forall st st', routs o flush j l st = OOk st' -> ext st st'.
  Proof.
    induction l as [|x l IH]; intros st st'; cbn [replay_outcomes].
    - intros E. injection E as <-. apply ext_refl.
    - destruct x; try discriminate; try (apply IH).
      destruct (rrec o flush j b st) as [st1|e] eqn:E1; cbn [obind]; [|discriminate].
      intros E. eapply ext_trans; [apply (replay_record_ext _ _ _ _ _ _ E1) | apply (IH _ _ E)].
  Qed.

  Lemma loop_rw_ext o js : forall ofd st st' ofd', loop_rw o js ofd st = OOk (st', ofd') -> ext st st'.
  Proof.
    induction js as [|j more IH]; intros ofd st st' ofd'; cbn [rj_loop].
    - intros E. injection E as <- _. apply ext_refl.
    - set (pre := match ofd with None => OOk st | Some old => _ end).
      destruct pre as [st1|e] eqn:Epre; cbn [obind]; [|discriminate].
      assert (X1 : ext st st1).
      { unfold pre in Epre. destruct ofd as [old|]; [|injection Epre as <-; apply ext_refl].
        destruct (if (0 <? MemDB.mdb_len (r_mdb st))%Z then flushm st else OOk st) as [a|e] eqn:Ea; cbn [obind] in Epre; [|discriminate].
        assert (Xa : ext st a).
        { destruct (0 <? MemDB.mdb_len (r_mdb st))%Z; [apply (flush_ext _ _ Ea) | injection Ea as <-; apply ext_refl]. }
        destruct (commitrj o j a) as [b|e] eqn:Eb; cbn [obind] in Epre; [|discriminate].
        injection Epre as <-. eapply ext_trans; [exact Xa|]. eapply ext_trans; [apply (commit_rj_ext _ _ _ _ Eb)|].
        apply ext_same; reflexivity. }
      destruct (MemDB.mdb_reset mp (r_mdb st1)) as [d0| |]; cbn [of_mres obind]; try discriminate.
      destruct (routs o true j _ (set_mdb st1 d0)) as [st2|e] eqn:E2; cbn [obind]; [|discriminate].
      intros E. eapply ext_trans; [exact X1|].
      eapply ext_trans; [apply (ext_same st1 (set_mdb st1 d0)); reflexivity|].
      eapply ext_trans; [apply (replay_outcomes_ext _ _ _ _ _ _ E2) | apply (IH _ _ _ _ E)].
  Qed.

  Lemma loop_ro_ext o js : forall st st', loop_ro o js st = OOk st' -> ext st st'.
  Proof.
    induction js as [|j more IH]; intros st st'; cbn [rj_loop_ro].
    - intros E. injection E as <-. apply ext_refl.
    - destruct (routs o false j _ st) as [st1|e] eqn:E1; cbn [obind]; [|discriminate].
      intros E. eapply ext_trans; [apply (replay_outcomes_ext _ _ _ _ _ _ E1) | apply (IH _ _ E)].
  Qed.

  Lemma remove_all_ext rem : forall st, ext st (remove_all rem st).
  Proof.
    induction rem as [|x rem IH]; intros st; cbn [remove_all]; [apply ext_refl|].
    eapply ext_trans; [|apply IH]. apply ext_same; reflexivity.
  Qed.

  (* openDB read-write: db.seq starts at the session's sequence number and does not decrease *)
  Theorem open_rw_seq o hts cs r :
    open_rw jcrc jp rp kp bhl mp tp tcrc compress snappy fgen blockSize ri c o hts cs = OOk r ->
    nowrap (os_kept r) /\ s_seq (c_sess cs) <= os_seq r.
  Proof.
    unfold open_rw. cbv zeta.
    destruct (MemDB.mdb_new mp) as [d0| |]; cbn [of_mres obind]; try discriminate.
    set (st0 := mkRJ _ SR.sr_empty (s_seq (c_sess cs)) d0 hts []).
    destruct (loop_rw o _ None st0) as [[st1 ofd]|e] eqn:E1; cbn [obind]; [|discriminate].
    apply loop_rw_ext in E1.
    set (fl := match jsel_list (c_sess cs) (c_files cs) with [] => OOk st1 | _ => _ end).
    destruct fl as [st2|e] eqn:E2; cbn [obind]; [|discriminate].
    assert (X2 : ext st1 st2).
    { unfold fl in E2. destruct (jsel_list _ _); [injection E2 as <-; apply ext_refl|].
      destruct (0 <? MemDB.mdb_len (r_mdb st1))%Z; [apply (flush_ext _ _ E2) | injection E2 as <-; apply ext_refl]. }
    cbn [of_mres obind].
    set (st3 := mkRJ _ (r_rec st2) (r_seq st2) (r_mdb st2) (r_hts st2) (r_kept st2)).
    destruct (commitrj o _ st3) as [st4|e] eqn:E4; cbn [obind]; [|discriminate].
    apply commit_rj_ext in E4.
    set (st5 := match ofd with Some old => remove_file _ st4 | None => st4 end).
    assert (X5 : ext st4 st5) by (unfold st5; destruct ofd; [apply ext_same; reflexivity | apply ext_refl]).
    destruct (SW.janitor _ _) as [ts|rem]; [discriminate|].
    intros E. injection E as <-. cbn [os_kept os_seq].
    assert (X : ext st0 (remove_all rem st5)).
    { eapply ext_trans; [exact E1|]. eapply ext_trans; [exact X2|].
      eapply ext_trans; [apply (ext_same st2 st3); reflexivity|].
      eapply ext_trans; [exact E4|]. eapply ext_trans; [exact X5|apply remove_all_ext]. }
    destruct X as (l & K & Nl & S). unfold st0 in K, S. cbn [r_kept r_seq app] in K, S.
    rewrite K. split; [exact Nl|exact S].
  Qed.

  Theorem open_ro_seq o hts cs r :
    open_ro jcrc jp rp kp bhl mp tp tcrc compress snappy fgen blockSize ri c o hts cs = OOk r ->
    nowrap (os_kept r) /\ s_seq (c_sess cs) <= os_seq r.
  Proof.
    unfold open_ro. cbv zeta.
    destruct (MemDB.mdb_new mp) as [d0| |]; cbn [of_mres obind]; try discriminate.
    destruct (loop_ro o _ _) as [st|e] eqn:E1; cbn [obind]; [|discriminate].
    apply loop_ro_ext in E1. destruct E1 as (l & K & Nl & S). cbn [r_kept r_seq app] in K, S.
    intros E. injection E as <-. cbn [os_kept os_seq]. rewrite K. split; [exact Nl|exact S].
  Qed.
End SeqMono.

(* ------------------------------------------------------------------ (C) the loop over the table files *)
Lemma nodup_table_files fs : NoDup (map fst fs) -> NoDup (table_files fs).
Proof.
  intros H. unfold table_files.
  assert (Hl : NoDup (f_list fs)) by (eapply Permutation_NoDup; [apply f_list_perm | exact H]).
  induction Hl as [|[t n] l Hx Hl IH]; [constructor|].
  cbn [filter fst]. destruct t; try exact IH.
  cbn [map snd]. constructor; [|exact IH].
  intros Hin. apply in_map_iff in Hin as ([t' n'] & E & Hf). apply filter_In in Hf as [Hin' Ht].
  cbn [fst snd] in *. destruct t'; try discriminate. subst n'. contradiction.
Qed.

Lemma rename_lookup (fs : files) tmpn num nd x : x <> (SW.FTable, num) -> fst x <> SW.FTemp ->
  f_lookup (f_set (f_del (f_set fs (SW.FTemp, tmpn) nd) (SW.FTemp, tmpn)) (SW.FTable, num) nd) x = f_lookup fs x.
Proof.
  intros Hx Ht. rewrite f_lookup_set_other by exact Hx.
  assert (Hx2 : x <> (SW.FTemp, tmpn)) by (intros ->; apply Ht; reflexivity).
  rewrite f_lookup_del_other by exact Hx2. rewrite f_lookup_set_other by exact Hx2. reflexivity.
Qed.

Section Whole.
  Variable jcrc : bytes -> N.
  Variable jp : Journal.jparams.
  Variable rp : SR.rparams.
  Variable kp : kparams.
  Hypothesis kpok : kparams_ok kp.
  Variable bhl : N.
  Variable mp : MemDB.mparams.
  Variable tp : tparams.
  Variable tcrc : bytes -> N.
  Variable compress : bytes -> bytes.
  Variable decompress : bytes -> option bytes.
  Variable fname : option bytes.
  Variable ufc : bytes -> N -> bytes -> bool.
  Variable verify : bool.
  Variable wo : WP.wopts.
  Variable fgen : option (bytes * (list (N * list bytes) -> bytes)).
  Variable c : comparer.

  Local Notation one := (recover_one_bytes rp kp tp tcrc compress decompress fname ufc verify wo c).
  Local Notation loop := (recover_loop rp kp tp tcrc compress decompress fname ufc verify wo c).
  Local Notation scanb := (scan tp tcrc decompress fname ufc verify c).
  Local Notation cblocksb := (cblocks_of tp tcrc decompress fname ufc verify c).

  Definition img_file (fs : files) (n : N) : bytes :=
    match f_lookup fs (SW.FTable, n) with Some d => d | None => [] end.

  (* the log line of one file is a function of the file's bytes (and StrictRecovery) *)
  Definition stat_of (strict : bool) (num : N) (data : bytes) (all : list (bytes * bytes)) (s : tstat) : Prop :=
    let g := good_of kp all in
    let corrupted := (0 <? N.of_nat (length all) - N.of_nat (length g)) || (0 <? cblocksb data) in
    ts_num s = num /\ ts_good s = N.of_nat (length g) /\
    ts_ckeys s = N.of_nat (length all) - N.of_nat (length g) /\ ts_cblocks s = cblocksb data /\
    ts_seq s = tseq_of kp g /\
    ts_verdict s = (if (strict && corrupted) || match g with [] => true | _ => false end then TDropped
                    else if corrupted then TRebuilt else TKept).

  Lemma one_facts strict st num st' : one strict st num = OOk st' ->
    exists all s, scanb (img_file (c_files (rb_c st)) num) = Some all /\
      stat_of strict num (img_file (c_files (rb_c st)) num) all s /\
      rb_stats st' = rb_stats st ++ [s] /\
      rb_maxseq st <= rb_maxseq st' /\
      (stat_kept s = true -> ts_seq s <= rb_maxseq st') /\
      (forall x, x <> (SW.FTable, num) -> fst x <> SW.FTemp ->
                 f_lookup (c_files (rb_c st')) x = f_lookup (c_files (rb_c st)) x).
  Proof.
    unfold recover_one_bytes, img_file. cbv zeta.
    set (data := match f_lookup (c_files (rb_c st)) (SW.FTable, num) with Some d => d | None => [] end).
    destruct (scanb data) as [all|] eqn:Hs; [|discriminate].
    set (g := good_of kp all).
    set (corrupted := (0 <? N.of_nat (length all) - N.of_nat (length g)) || (0 <? cblocksb data)).
    assert (Hmax : forall a b : N, b <= (if a <? b then b else a) /\ a <= (if a <? b then b else a)).
    { intros a b. destruct (a <? b) eqn:E; [apply N.ltb_lt in E | apply N.ltb_ge in E]; lia. }
    intros E. exists all.
    destruct (strict && corrupted) eqn:Esc.
    { injection E as <-. eexists. split; [reflexivity|]. refine (conj _ (conj eq_refl _)).
      { unfold stat_of. cbv zeta. fold g. fold corrupted. rewrite Esc. cbn [orb ts_num ts_good ts_ckeys ts_cblocks ts_seq ts_verdict].
        repeat split; reflexivity. }
      cbn [rb_stats rb_maxseq rb_c]. split; [lia|]. split; [discriminate|]. reflexivity. }
    destruct g as [|kv0 gr] eqn:Eg.
    { injection E as <-. eexists. split; [reflexivity|]. refine (conj _ (conj eq_refl _)).
      { unfold stat_of. cbv zeta. fold g. rewrite Eg. fold corrupted. rewrite Esc. cbn [orb ts_num ts_good ts_ckeys ts_cblocks ts_seq ts_verdict].
        repeat split; reflexivity. }
      cbn [rb_stats rb_maxseq rb_c]. split; [lia|]. split; [discriminate|]. reflexivity. }
    destruct corrupted eqn:Ec.
    - destruct (WP.table_bytes c kp tp tcrc compress wo (kv0 :: gr)) as [nd|]; [|discriminate].
      injection E as <-. eexists. split; [reflexivity|]. refine (conj _ (conj eq_refl _)).
      { unfold stat_of. cbv zeta. fold g. rewrite Eg. fold corrupted. rewrite Ec, Esc. cbn [orb ts_num ts_good ts_ckeys ts_cblocks ts_seq ts_verdict].
        repeat split; reflexivity. }
      cbn [rb_stats rb_maxseq rb_c ts_seq set_files c_files]. split; [apply Hmax|]. split; [intros _; apply Hmax|].
      intros x Hx Ht. apply rename_lookup; assumption.
    - injection E as <-. eexists. split; [reflexivity|]. refine (conj _ (conj eq_refl _)).
      { unfold stat_of. cbv zeta. fold g. rewrite Eg. fold corrupted. rewrite Ec, Esc. cbn [orb ts_num ts_good ts_ckeys ts_cblocks ts_seq ts_verdict].
        repeat split; reflexivity. }
      cbn [rb_stats rb_maxseq rb_c ts_seq]. split; [apply Hmax|]. split; [intros _; apply Hmax|]. reflexivity.
  Qed.

  Definition stat_fact (strict : bool) (fs0 : files) (bound : N) (s : tstat) : Prop :=
    exists all, scanb (img_file fs0 (ts_num s)) = Some all /\
      stat_of strict (ts_num s) (img_file fs0 (ts_num s)) all s /\
      (stat_kept s = true -> ts_seq s <= bound).

  Lemma stat_fact_mono strict fs0 b1 b2 s : b1 <= b2 -> stat_fact strict fs0 b1 s -> stat_fact strict fs0 b2 s.
  Proof. intros Hb (all & A & B & C). exists all. split; [exact A|]. split; [exact B|]. intros H. specialize (C H). lia. Qed.

  Lemma loop_facts strict fs0 : forall nums st st', NoDup nums ->
    loop strict nums st = OOk st' ->
    (forall n, In n nums -> f_lookup (c_files (rb_c st)) (SW.FTable, n) = f_lookup fs0 (SW.FTable, n)) ->
    exists ss, rb_stats st' = rb_stats st ++ ss /\ map ts_num ss = nums /\ rb_maxseq st <= rb_maxseq st' /\
      Forall (stat_fact strict fs0 (rb_maxseq st')) ss.
  Proof.
    induction nums as [|num r IH]; intros st st' Hnd; cbn [recover_loop].
    - intros E _. injection E as <-. exists []. split; [symmetry; apply app_nil_r|]. split; [reflexivity|]. split; [lia|constructor].
    - destruct (one strict st num) as [st1|e] eqn:E1; cbn [obind]; [|discriminate].
      intros E Hf. apply one_facts in E1 as (all & s & Hs & Hst & Hss & Hm & Hk & Hfiles).
      inversion Hnd as [|? ? Hnotin Hnd']; subst.
      destruct (IH st1 st' Hnd' E) as (ss & Kss & Knums & Km & Kall).
      { intros n Hn. rewrite Hfiles; [apply Hf; right; exact Hn| |discriminate].
        intros En. injection En as ->. contradiction. }
      exists (s :: ss). split; [rewrite Kss, Hss, <- app_assoc; reflexivity|].
      assert (En : ts_num s = num) by (exact (proj1 Hst)).
      split; [cbn [map]; rewrite En, Knums; reflexivity|]. split; [lia|].
      constructor; [|exact Kall].
      exists all. unfold img_file in *. rewrite En. rewrite <- (Hf num (or_introl eq_refl)).
      split; [exact Hs|]. split; [exact Hst|]. intros H. specialize (Hk H). lia.
  Qed.

  (* ---------------------------------------------------------------- (D) Recover: db.seq is above every registered key *)
  Theorem recover_seq_above_all o strict hts img r :
    NoDup (map fst (si_files img)) ->
    recover_bytes jcrc jp rp kp bhl mp tp tcrc compress decompress fname ufc verify wo fgen c o strict hts img = OOk r ->
    map ts_num (rr_stats r) = table_files (si_files img) /\
    rr_maxseq r <= os_seq (rr_state r) /\
    forall s, In s (rr_stats r) ->
      exists all, scanb (img_file (si_files img) (ts_num s)) = Some all /\
        stat_of strict (ts_num s) (img_file (si_files img) (ts_num s)) all s /\
        (stat_kept s = true -> ts_seq s <= rr_maxseq r /\
           forall kv, In kv (good_of kp all) -> key_seq kp (fst kv) <= os_seq (rr_state r)).
  Proof.
    intros Hnd. unfold recover_bytes, recover_tables_bytes. cbv zeta.
    set (nums := table_files (si_files img)).
    set (st0 := mkRB _ SR.sr_empty 0 0 []).
    destruct (loop strict nums st0) as [st|e] eqn:El; cbn [obind]; [|discriminate].
    destruct (new_manifest _ _ _ _ _ _ (rb_c st)) as [[c1 r1]|e] eqn:E1; cbn [obind]; [|discriminate].
    destruct (commit _ _ _ _ o _ (fst (c1, r1))) as [[c2 r2]|e] eqn:E2; cbn [obind fst]; [|discriminate].
    apply (commit_seq _ _ _ _ (rb_maxseq st)) in E2; [|apply seqset_set_seq].
    destruct (loop_facts strict (si_files img) nums st0 st (nodup_table_files _ Hnd) El) as (ss & Kss & Knums & _ & Kall).
    { intros n _. reflexivity. }
    unfold st0 in Kss. cbn [rb_stats app] in Kss.
    set (opn := if oo_ro o then _ else _).
    destruct opn as [s|e] eqn:Eo; cbn [obind]; [|discriminate].
    intros E. injection E as <-. cbn [rr_stats rr_maxseq rr_state].
    assert (Hseq : rb_maxseq st <= os_seq s).
    { rewrite <- E2. unfold opn in Eo. destruct (oo_ro o).
      - eapply proj2. eapply open_ro_seq; [exact kpok|exact Eo].
      - eapply proj2. eapply open_rw_seq; [exact kpok|exact Eo]. }
    split; [rewrite Kss; exact Knums|]. split; [exact Hseq|].
    intros x Hx. rewrite Kss in Hx. rewrite Forall_forall in Kall. destruct (Kall x Hx) as (all & A & B & C).
    exists all. split; [exact A|]. split; [exact B|]. intros Hk. specialize (C Hk). split; [exact C|].
    intros kv Hkv. pose proof (tseq_above_all kp (good_of kp all) kv Hkv) as T.
    destruct B as (_ & _ & _ & _ & Bs & _). rewrite <- Bs in T. lia.
  Qed.
End Whole.
