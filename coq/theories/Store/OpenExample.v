(* Store/OpenExample.v — a small concrete storage image built with the model's own writers (manifest record
   encoder, batch encoder, journal writer with the real CRC-32C and the generated constants) that satisfies every
   hypothesis of the Open theorems (Store/OpenCrashProofs.v): the non-vacuity instance quoted by Props/C04.v.
   The state of the record-level model is the one of C04_crash_safe_bytes_nonvacuous: a synced batch of two
   records and an unsynced batch of one; the journal is cut 13 bytes into the second record and followed by
   zeros; the manifest holds its snapshot record; there are no tables.  Proof file. *)
From Coq Require Import List NArith ZArith Bool Lia.
From GL Require Import Base.Bytes Base.Order Codec.BytesCmp Codec.BytesCmpProofs Codec.Crc Codec.IKey Codec.Journal Codec.JournalSpec Codec.Table Codec.TblCrc
  Codec.Batch Codec.BatchProofs Codec.BatchGroupProofs Codec.SessionRecord Codec.SessionRecordSpec
  Lsm.Lsm Lsm.History Lsm.ReadPath Lsm.ReadPathMem Lsm.ReadPathProofs Lsm.ReorgProofs Lsm.BatchWriteProofs
  Store.Crash Store.CrashProofs Store.CrashBytes Store.CrashBytesProofs
  Store.OpenPath Store.OpenJournalProofs Store.OpenPathProofs Store.OpenEndProofs Store.OpenCrashProofs
  Gen.Consts Gen.ConstsOk Gen.ConstsOkMem Gen.Inst Gen.InstTbl Gen.InstMem Gen.InstJournal Gen.InstJournalOk Gen.InstRecord Gen.InstRecordOk.
From GL Require Mem.MemDB Store.Sweep.
Import ListNotations.
Open Scope N_scope.

Definition ox_cname : bytes := [108; 101; 118].
Definition ox_opts (ro : bool) : oopts := mkOO false false true 4096%Z 67108864%Z ro false false ox_cname.
Definition ox_open := open_bytes jcrc jp rp kp 12 mp tblp tbl_crc (fun x => x) false None 4096 16 bytewise.
(* the manifest: one snapshot record *)
Definition ox_rec0 : srec := build rp (mkrf (Some ox_cname) (Some 1%Z) (Some 2%Z) (Some 0) [] [] []).
Definition ox_raw0 : bytes := match SessionRecord.encode rp ox_rec0 with Some b => b | None => [] end.
Definition ox_mrecs : list (srec * bytes) := [(ox_rec0, ox_raw0)].
(* the journal: two batches, the first synced *)
Definition ox_b1 : jbatch := (1, [[(1, [97], [1]); (0, [98], [])]]).
Definition ox_b2 : jbatch := (3, [[(1, [99], [7])]]).
Definition ox_jl : jdesc := mkJD 1 [ox_b1; ox_b2] 1.
Definition ox_jraws : list bytes := map (jb_enc kp) (jd_bs ox_jl).
Definition ox_jbytes : bytes := firstn 40 (jwrite jcrc jp [] ox_jraws) ++ repeat 0 10%nat.
Definition ox_img : simage :=
  mkSI (Some 0) [((Sweep.FManifest, 0), jwrite jcrc jp [] [ox_raw0]); ((Sweep.FJournal, 1), ox_jbytes)].
Definition ox_state : pstate := prun [PWrite 2 true; PWrite 1 false].
Definition ox_newb (t : atrec) : list Crash.batch := [].
Definition ox_cont (b : Crash.batch) : list brec := if b_seq b =? 1 then jb_recs ox_b1 else jb_recs ox_b2.


Ltac nle := apply N.leb_le; vm_compute; reflexivity.
Ltac nlt := apply N.ltb_lt; vm_compute; reflexivity.
Ltac natle := apply Nat.leb_le; vm_compute; reflexivity.

Lemma ox_seek_val : keyTypeSeek kp <= keyTypeVal kp.
Proof. nle. Qed.

Lemma ox_crash_file_man : is_crash_file jcrc jp true (map snd ox_mrecs) 1 (jwrite jcrc jp [] [ox_raw0]).
Proof.
  exists [], (length (jwrite jcrc jp [] [ox_raw0])), []. split; [natle|]. split; [vm_compute; reflexivity|vm_compute; reflexivity].
Qed.

Lemma ox_crash_file_j : is_crash_file jcrc jp true ox_jraws 1 ox_jbytes.
Proof.
  exists [], 40%nat, (repeat 0 10%nat). split; [natle|]. split; [vm_compute; reflexivity|vm_compute; reflexivity].
Qed.

Ltac recwf := split; [first [left; reflexivity | right; reflexivity] | repeat (constructor; [vm_compute; reflexivity|]); constructor].
Lemma ox_jb_ok : Forall (jb_ok kp) (jd_bs ox_jl).
Proof.
  constructor; [|constructor; [|constructor]].
  - split; [constructor; [recwf|constructor; [recwf|constructor]]|]. split; [nle|]. split; [nle|]. split; [nlt|nlt].
  - split; [constructor; [recwf|constructor]|]. split; [nle|]. split; [nle|]. split; [nlt|nlt].
Qed.

Lemma ox_image_ok : image_ok jcrc jp rp kp (ox_opts true) ox_img 0 ox_mrecs 1 (olist None ++ [ox_jl]).
Proof.
  split; [reflexivity|]. split.
  { eexists. split; [vm_compute; reflexivity|]. exact ox_crash_file_man. }
  split; [constructor; [vm_compute; reflexivity|constructor]|]. split; [vm_compute; reflexivity|].
  constructor; [|constructor]. split; [exact ox_jb_ok|].
  exists ox_jbytes. split; [reflexivity|exact ox_crash_file_j].
Qed.

Lemma ox_manifest_ok : manifest_ok rp (ox_opts true) ox_mrecs 1.
Proof.
  intros k Hk. assert (E : firstn k (map fst ox_mrecs) = [ox_rec0]) by (destruct k as [|[|k]]; [lia|reflexivity|reflexivity]).
  rewrite E. do 6 eexists. vm_compute. reflexivity.
Qed.

Lemma nth_all_nil {A} (lv : list (list A)) : (forall l : nat, nth l lv [] = []) -> Forall (fun x => x = []) lv.
Proof.
  induction lv as [|x lv IH]; intros H; [constructor|]. constructor; [exact (H 0%nat)|].
  apply IH. intros l. exact (H (S l)).
Qed.

Lemma sort_levels_nil c (lv : list (list SessionRecord.atrec)) : Forall (fun x => x = []) lv ->
  forall fs, Forall (fun l => l = []) (levels_of fs (sort_levels c lv)).
Proof.
  intros H fs. unfold sort_levels, levels_of. generalize 0%nat.
  induction H as [|x lv -> H IH]; intros n; cbn [length seq combine map]; constructor.
  - destruct n; reflexivity.
  - apply IH.
Qed.

Lemma ox_tables_answer :
  tables_answer rp kp mp tblp tbl_crc 16 bytewise (fun _ => None) None (fun _ _ _ => true) true
    (ox_opts true) ox_img ox_mrecs 1 ox_newb ox_cont None ox_jl.
Proof.
  intros k j nf q live cps lv d0 Hk Espec Hlv Enew.
  assert (E : firstn k (map fst ox_mrecs) = [ox_rec0]) by (destruct k as [|[|k]]; [lia|reflexivity|reflexivity]).
  rewrite E in *. vm_compute in Espec. injection Espec as <- <- <- <- <-.
  assert (Hnil : Forall (fun x => x = []) lv) by (apply nth_all_nil; intros l; rewrite Hlv; reflexivity).
  pose proof (sort_levels_nil bytewise lv Hnil (si_files ox_img)) as Hl0.
  destruct (new_mem_ok kp ox_seek_val mp mp_ok bytewise) as (d0' & Enew' & Hm0 & He0).
  rewrite Enew in Enew'. injection Enew' as <-.
  cbv zeta. set (st0 := mkBS _ _ _).
  assert (Hkm : 0 <= keyMaxSeq kp) by lia.
  destruct (empty_state_answers bytewise bytewise_ok kp kp_ok ox_seek_val mp mp_ok tblp tbl_crc
              (fun _ => None) None (fun _ _ _ => true) true 16 d0 _ [] 0 Hm0 He0 Hl0 (Forall_nil _) Hkm) as (W & Eall & _).
  fold st0 in W, Eall.
  split; [exact W|]. split; [rewrite Eall; intros a b []|]. split; [exact Hkm|].
  exists 0. split; [lia|]. split; [rewrite Eall; intros x []|]. split.
  - intros b [Hb|(jf & Ejf & _)]; [|discriminate]. destruct Hb as [<-|[<-|[]]]; intros _; nlt.
  - intros key Wk.
    destruct (empty_state_answers bytewise bytewise_ok kp kp_ok ox_seek_val mp mp_ok tblp tbl_crc
                (fun _ => None) None (fun _ _ _ => true) true 16 d0 _ key 0 Hm0 He0 Hl0 Wk Hkm) as (_ & _ & G).
    fold st0 in G. rewrite G. reflexivity.
Qed.

Lemma ox_journal_batches_ok : journal_batches_ok kp ox_cont None ox_jl.
Proof.
  intros b [Hb|(jf & Ejf & _)]; [|discriminate].
  destruct Hb as [<-|[<-|[]]]; (split; [reflexivity|nle]).
Qed.

Lemma ox_denotes : denotes rp ox_newb (fun x => x) ox_state ox_mrecs 1 None ox_jl.
Proof. split; [vm_compute; reflexivity|]. split; [vm_compute; exact I|]. split; vm_compute; reflexivity. Qed.

Lemma ox_end_to_end :
  exists r L,
    ox_open (ox_opts true) [] ox_img = OOk r /\
    wf_bstate bytewise kp mp tblp tbl_crc (fun _ => None) None (fun _ _ _ => true) true 16 (os_bs r) /\
    (forall b, In b (p_acked ox_state) -> In b L) /\ (forall b, In b L -> In b (p_issued ox_state)) /\ sorted_b L /\
    os_image r = ox_img /\
    forall key, wf_bytes key ->
      bapi (db_get_bytes bytewise kp mp tblp tbl_crc (fun _ => None) None (fun _ _ _ => true) true (os_bs r) key (os_seq r)) =
      Some (a_get bytewise key (cmap kp bytewise ox_cont [] L)).
Proof.
  apply (open_ro_end_to_end jcrc jp jp_ok rp rp_ok kp kp_ok ox_seek_val mp mp_ok tblp tbl_crc (fun x => x) false None 4096 16
           bytewise bytewise_ok (fun _ => None) None (fun _ _ _ => true) true
           (ox_opts true) [] ox_img 0 ox_mrecs 1 None ox_jl ox_newb ox_cont (fun x => x) ox_state);
    try reflexivity.
  - constructor.
  - exact ox_image_ok.
  - exact ox_manifest_ok.
  - constructor; [vm_compute; reflexivity|constructor].
  - split; [nle|exact I].
  - intros a b. reflexivity.
  - apply pinv_run.
  - exact ox_denotes.
  - exact ox_journal_batches_ok.
  - exact ox_tables_answer.
Qed.

(* the read-write Open of the same image *)
Definition ox_rw_summary (r : ores ostate) :=
  match r with
  | OOk x => Some (os_seq x, os_kept x, layout_of x, os_journal x, si_meta (os_image x), os_removed x)
  | OErr _ => None
  end.
Lemma ox_rw_opens :
  ox_rw_summary (ox_open (ox_opts false) [] ox_img) =
  Some (3, [(1, 2)], [[2]], Some 3, Some 4, [(Sweep.FManifest, 0); (Sweep.FJournal, 1)]).
Proof. vm_compute. reflexivity. Qed.

(* opening what the read-write Open left: same sequence number, same tables, nothing replayed, the same abstraction *)
Definition ox_r1 : ores ostate := ox_open (ox_opts false) [] ox_img.
Definition ox_img1 : simage := match ox_r1 with OOk r => os_image r | OErr _ => ox_img end.
Definition ox_r2 : ores ostate := ox_open (ox_opts false) [] ox_img1.
Definition ox_abs (r : ores ostate) : option lstate :=
  match r with
  | OOk x => Some (ReadPath.abs bytewise mp tblp tbl_crc (fun _ => None) None (fun _ _ _ => true) true 16 (os_bs x))
  | OErr _ => None
  end.
Lemma ox_rw_idempotent :
  ox_rw_summary ox_r2 = Some (3, [], [[2]], Some 5, Some 6, [(Sweep.FManifest, 4); (Sweep.FJournal, 3)]) /\
  ox_abs ox_r2 = ox_abs ox_r1 /\
  (* and the abstraction is not empty: the table holds the two entries of the kept batch *)
  option_map (fun st => length (all_entries st)) (ox_abs ox_r1) = Some 2%nat.
Proof. split; [vm_compute; reflexivity|]. split; vm_compute; reflexivity. Qed.

Lemma ox_image_ok_rw : image_ok jcrc jp rp kp (ox_opts false) ox_img 0 ox_mrecs 1 (olist None ++ [ox_jl]).
Proof. exact ox_image_ok. Qed.

(* the side condition of the totality theorem (Store/OpenTotalProofs.v) holds of the example image: two file names,
   listed once each; the manifest leaves journal number 1, next file number 2 and no table *)
From GL Require Import Store.OpenTotalProofs.
Lemma ox_image_tabs_ok : image_tabs_ok rp (ox_opts false) ox_img ox_mrecs 1.
Proof.
  split.
  { cbn [ox_img si_files map fst]. constructor; [intros [E|[]]; discriminate|]. constructor; [intros []|constructor]. }
  intros k j pj nf q live cps Hk.
  assert (E : firstn k (map fst ox_mrecs) = [ox_rec0]) by (destruct k as [|[|k]]; [lia|reflexivity|reflexivity]).
  rewrite E. vm_compute. intros H. injection H as <- _ <- _ <- _.
  split; [discriminate|]. split; [discriminate|constructor].
Qed.

Lemma ox_rw_total :
  image_tabs_ok rp (ox_opts false) ox_img ox_mrecs 1 /\ manifest_ok rp (ox_opts false) ox_mrecs 1 /\
  jnums_ok None ox_jl /\
  exists r, ox_open (ox_opts false) [] ox_img = OOk r.
Proof.
  split; [exact ox_image_tabs_ok|]. split; [exact ox_manifest_ok|].
  assert (Hn : jnums_ok None ox_jl) by (split; [apply N.leb_le; reflexivity|exact I]).
  split; [exact Hn|].
  exact (open_rw_total_pinv jcrc jp jp_ok rp rp_ok kp kp_ok ox_seek_val mp mp_ok tblp tbl_crc (fun x => x) false None
           4096 16 bytewise bytewise_ok (ox_opts false) [] ox_img 0 ox_mrecs 1%nat None ox_jl
           eq_refl eq_refl eq_refl eq_refl (Forall_nil _) ox_image_ok_rw ox_manifest_ok Hn ox_image_tabs_ok).
Qed.
