(* Store/RepairRefineProofs.v — the loop of recoverTable on bytes (Store/RepairBytes.v recover_loop) simulates the loop
   of the abstract model (Store/Repair.v recover_one folded over the files), file by file, when every table file
   DENOTES an abstract file: its scan yields pairs with decodable internal keys whose entries are the abstract file's
   readable entries, and the number of error callbacks is the abstract file's number of damaged blocks. *)
From Coq Require Import List NArith ZArith Bool Lia.
From GL Require Import Base.Bytes Base.Order Codec.IKey Codec.Table Lsm.Lsm Lsm.ReadPath
  Store.OpenPath Store.RepairBytes Store.RepairBytesProofs Store.RepairSeqProofs.
Import ListNotations.
Local Open Scope N_scope.

Section Refine.
  Variable rp : SR.rparams.
  Variable kp : kparams.
  Variable tp : tparams.
  Variable tcrc : bytes -> N.
  Variable compress : bytes -> bytes.
  Variable decompress : bytes -> option bytes.
  Variable fname : option bytes.
  Variable ufc : bytes -> N -> bytes -> bool.
  Variable verify : bool.
  Variable wo : WP.wopts.
  Variable c : comparer.

  Local Notation one := (recover_one_bytes rp kp tp tcrc compress decompress fname ufc verify wo c).
  Local Notation loop := (recover_loop rp kp tp tcrc compress decompress fname ufc verify wo c).
  Local Notation scanb := (scan tp tcrc decompress fname ufc verify c).
  Local Notation cblocksb := (cblocks_of tp tcrc decompress fname ufc verify c).

  Definition key_dec (kv : bytes * bytes) : Prop := ik_validb (fst kv) = true.

  Lemma valid_corr kv : key_dec kv -> RP.valid kp (entry_of kv) = key_valid kp (fst kv).
  Proof.
    unfold key_dec, ik_validb, RP.valid, key_valid, entry_of, parse_ikey, ik_dec.
    destruct (wf_bytesb (fst kv)); [|discriminate].
    destruct (split_ikey (fst kv)) as [k|]; [|discriminate]. intros _. cbn [e_kind].
    destruct (keyTypeVal kp <? ik_kind k) eqn:E.
    - apply N.leb_gt. apply N.ltb_lt. exact E.
    - apply N.leb_le. apply N.ltb_ge. exact E.
  Qed.

  Lemma seq_corr kv : key_dec kv -> key_valid kp (fst kv) = true -> e_seq (entry_of kv) = key_seq kp (fst kv).
  Proof.
    unfold key_dec, ik_validb, key_seq, key_valid, entry_of, parse_ikey, ik_dec.
    destruct (wf_bytesb (fst kv)); [|discriminate].
    destruct (split_ikey (fst kv)) as [k|]; [|discriminate]. intros _.
    destruct (keyTypeVal kp <? ik_kind k); [discriminate|]. intros _. reflexivity.
  Qed.

  Lemma good_corr all : Forall key_dec all -> filter (RP.valid kp) (map entry_of all) = map entry_of (good_of kp all).
  Proof.
    induction 1 as [|x l Hx Hl IH]; [reflexivity|]. unfold good_of in *. cbn [map filter].
    rewrite (valid_corr x Hx). destruct (key_valid kp (fst x)); cbn [map]; [f_equal|]; exact IH.
  Qed.

  Lemma tseq_corr g : Forall (fun kv => key_dec kv /\ key_valid kp (fst kv) = true) g ->
    RP.tseq (map entry_of g) = tseq_of kp g.
  Proof.
    intros H. unfold RP.tseq, tseq_of. generalize 0.
    induction H as [|x l [Hx Hv] Hl IH]; intros m1; [reflexivity|]. cbn [map fold_left].
    rewrite (seq_corr x Hx Hv). apply IH.
  Qed.

  (* the bytes of a table file denote an abstract file *)
  Definition denotes (data : bytes) (f : RP.tfile) : Prop :=
    exists all, scanb data = Some all /\ Forall key_dec all /\
      map entry_of all = RP.readable f /\ cblocksb data = RP.cblocks f.

  (* what one step of each loop did, side by side *)
  Definition step_match (fs0 : files) (s : tstat) (f : RP.tfile) : Prop :=
    ts_num s = RP.tf_num f /\ ts_good s = N.of_nat (length (RP.good kp f)) /\ ts_ckeys s = RP.ckeys kp f /\
    ts_cblocks s = RP.cblocks f /\ ts_seq s = RP.tseq (RP.good kp f).

  Definition tab_match (a : SR.atrec) (t : table) : Prop :=
    SR.at_level a = 0%Z /\ SR.at_num a = Z.of_N (t_num t) /\
    exists g, t_entries t = map entry_of g /\ SR.at_imin a = WP.key_first g /\ SR.at_imax a = WP.key_last g.

  Definition sim (st : rb) (r : RP.rstate) : Prop :=
    rb_maxseq st = RP.r_maxseq r /\ Forall2 tab_match (SR.sr_adds (rb_rec st)) (RP.r_added r).

  Lemma one_refines strict st num st' f r : one strict st num = OOk st' ->
    denotes (img_file (c_files (rb_c st)) num) f -> RP.tf_num f = num -> sim st r ->
    sim st' (RP.recover_one kp strict r f) /\
    exists s, rb_stats st' = rb_stats st ++ [s] /\ step_match (c_files (rb_c st)) s f /\
      (stat_kept s = false <-> RP.r_dropped (RP.recover_one kp strict r f) = RP.r_dropped r + 1) /\
      RP.r_goodkeys (RP.recover_one kp strict r f) = RP.r_goodkeys r + ts_good s /\
      RP.r_ckeys (RP.recover_one kp strict r f) = RP.r_ckeys r + ts_ckeys s /\
      RP.r_cblocks (RP.recover_one kp strict r f) = RP.r_cblocks r + ts_cblocks s.
  Proof.
    intros E (all & Hs & Hv & Hr & Hcb) Hn [Hm Ha].
    assert (Hg : RP.good kp f = map entry_of (good_of kp all)).
    { unfold RP.good. rewrite <- Hr. apply good_corr. exact Hv. }
    assert (Hck : RP.ckeys kp f = N.of_nat (length all) - N.of_nat (length (good_of kp all))).
    { unfold RP.ckeys. rewrite Hg, <- Hr, !map_length. reflexivity. }
    assert (Hts : RP.tseq (RP.good kp f) = tseq_of kp (good_of kp all)).
    { rewrite Hg. apply tseq_corr. apply Forall_forall. intros kv Hkv. unfold good_of in Hkv.
      apply filter_In in Hkv as [Hin Hk]. split; [|exact Hk]. rewrite Forall_forall in Hv. apply Hv. exact Hin. }
    revert E. unfold recover_one_bytes, img_file in *. cbv zeta. rewrite Hs.
    unfold RP.recover_one. cbv zeta. rewrite Hck, <- Hcb, Hts, Hg, map_length.
    set (data := match f_lookup (c_files (rb_c st)) (SW.FTable, num) with Some d => d | None => [] end) in *.
    set (g := good_of kp all) in *.
    set (corrupted := (0 <? N.of_nat (length all) - N.of_nat (length g)) || (0 <? cblocksb data)).
    assert (Hsm : forall s, ts_num s = num -> ts_good s = N.of_nat (length g) ->
                    ts_ckeys s = N.of_nat (length all) - N.of_nat (length g) -> ts_cblocks s = cblocksb data ->
                    ts_seq s = tseq_of kp g -> step_match (c_files (rb_c st)) s f).
    { intros s A B C D F. unfold step_match. rewrite Hts, Hg, map_length, Hck, <- Hcb, Hn. fold g. repeat split; assumption. }
    destruct (strict && corrupted) eqn:Esc.
    { intros E. injection E as <-. cbn [rb_maxseq rb_rec rb_stats]. split; [split; [exact Hm | exact Ha]|].
      eexists. split; [reflexivity|]. split; [apply Hsm; reflexivity|].
      cbn [stat_kept ts_verdict ts_good ts_ckeys ts_cblocks RP.r_dropped RP.r_goodkeys RP.r_ckeys RP.r_cblocks].
      repeat split; reflexivity. }
    destruct g as [|kv0 gr] eqn:Eg.
    { intros E. injection E as <-. cbn [map rb_maxseq rb_rec rb_stats]. split; [split; [exact Hm | exact Ha]|].
      eexists. split; [reflexivity|]. split; [apply Hsm; reflexivity|].
      cbn [stat_kept ts_verdict ts_good ts_ckeys ts_cblocks RP.r_dropped RP.r_goodkeys RP.r_ckeys RP.r_cblocks].
      repeat split; reflexivity. }
    assert (Hlast : fst (last (kv0 :: gr) kv0) = WP.key_last (kv0 :: gr)).
    { unfold WP.key_last. destruct gr as [|y gr']; reflexivity. }
    assert (Htab : forall sz, tab_match (SR.mkat 0%Z (Z.of_N num) sz (fst kv0) (fst (last (kv0 :: gr) kv0)))
                                {| t_num := RP.tf_num f; t_entries := map entry_of (kv0 :: gr) |}).
    { intros sz. split; [reflexivity|]. split; [cbn [SR.at_num t_num]; rewrite Hn; reflexivity|].
      exists (kv0 :: gr). split; [reflexivity|]. split; [reflexivity | exact Hlast]. }
    assert (Hnd : forall A (x : A) l, l ++ [x] <> l).
    { intros A x l H. apply (f_equal (@length A)) in H. rewrite app_length in H. cbn in H. lia. }
    cbn [map].
    destruct corrupted eqn:Ec.
    - destruct (WP.table_bytes c kp tp tcrc compress wo (kv0 :: gr)) as [nd|]; [|discriminate].
      intros E. injection E as <-. cbn [rb_maxseq rb_rec rb_stats RP.r_maxseq RP.r_added]. split.
      { split; [rewrite Hm; reflexivity|]. unfold SR.add_table. cbn [SR.sr_adds].
        apply Forall2_app; [exact Ha|]. constructor; [apply Htab|constructor]. }
      eexists. split; [reflexivity|]. split; [apply Hsm; reflexivity|].
      cbn [stat_kept ts_verdict ts_good ts_ckeys ts_cblocks RP.r_dropped RP.r_goodkeys RP.r_ckeys RP.r_cblocks].
      split; [split; [discriminate | intros H; exfalso; lia]|]. repeat split; reflexivity.
    - intros E. injection E as <-. cbn [rb_maxseq rb_rec rb_stats RP.r_maxseq RP.r_added]. split.
      { split; [rewrite Hm; reflexivity|]. unfold SR.add_table. cbn [SR.sr_adds].
        apply Forall2_app; [exact Ha|]. constructor; [apply Htab|constructor]. }
      eexists. split; [reflexivity|]. split; [apply Hsm; reflexivity|].
      cbn [stat_kept ts_verdict ts_good ts_ckeys ts_cblocks RP.r_dropped RP.r_goodkeys RP.r_ckeys RP.r_cblocks].
      split; [split; [discriminate | intros H; exfalso; lia]|]. repeat split; reflexivity.
  Qed.

  (* the whole loop: the files in the order the storage lists them, each denoting its abstract file *)
  Theorem loop_refines strict fs0 : forall nums (fl : list RP.tfile) st st' r, NoDup nums ->
    loop strict nums st = OOk st' ->
    (forall n, In n nums -> f_lookup (c_files (rb_c st)) (SW.FTable, n) = f_lookup fs0 (SW.FTable, n)) ->
    Forall2 (fun n f => RP.tf_num f = n /\ denotes (img_file fs0 n) f) nums fl ->
    sim st r ->
    sim st' (fold_left (RP.recover_one kp strict) fl r) /\
    exists ss, rb_stats st' = rb_stats st ++ ss /\
      Forall2 (fun s f => ts_num s = RP.tf_num f /\ ts_good s = N.of_nat (length (RP.good kp f)) /\
                          ts_ckeys s = RP.ckeys kp f /\ ts_cblocks s = RP.cblocks f /\
                          ts_seq s = RP.tseq (RP.good kp f)) ss fl /\
      RP.r_dropped (fold_left (RP.recover_one kp strict) fl r) =
        RP.r_dropped r + N.of_nat (length (filter (fun s => negb (stat_kept s)) ss)).
  Proof.
    induction nums as [|num nums IH]; intros fl st st' r Hnd; cbn [recover_loop].
    - intros E _ Hfl Hsim. injection E as <-. inversion Hfl; subst. cbn [fold_left]. split; [exact Hsim|].
      exists []. split; [symmetry; apply app_nil_r|]. split; [constructor|]. cbn. lia.
    - destruct (one strict st num) as [st1|e] eqn:E1; cbn [obind]; [|discriminate].
      intros E Hf Hfl Hsim. inversion Hfl as [|? f ? fl' [Hn Hden] Hfl']; subst. cbn [fold_left].
      inversion Hnd as [|? ? Hnotin Hnd']; subst.
      assert (Hden' : denotes (img_file (c_files (rb_c st)) (RP.tf_num f)) f).
      { unfold img_file in *. rewrite (Hf _ (or_introl eq_refl)). exact Hden. }
      destruct (one_refines strict st _ st1 f r E1 Hden' eq_refl Hsim) as (Hsim1 & s & Hss & Hstep & Hdrop & _).
      apply one_facts in E1 as (_ & _ & _ & _ & _ & _ & _ & Hfiles); [|exact tcrc].
      destruct (IH fl' st1 st' (RP.recover_one kp strict r f) Hnd' E) as (Hsim' & ss & Kss & Kall & Kd); [|exact Hfl'|exact Hsim1|].
      { intros n Hin. rewrite Hfiles; [apply Hf; right; exact Hin| |discriminate].
        intros En. injection En as ->. contradiction. }
      split; [exact Hsim'|]. exists (s :: ss). split; [rewrite Kss, Hss, <- app_assoc; reflexivity|].
      split; [constructor; [exact Hstep | exact Kall]|].
      rewrite Kd. cbn [filter]. destruct (stat_kept s) eqn:Ek; cbn [negb length].
      + assert (RP.r_dropped (RP.recover_one kp strict r f) = RP.r_dropped r); [|lia].
        unfold RP.recover_one. cbv zeta.
        destruct (strict && _) eqn:Eb.
        * exfalso. clear - Hdrop Ek Eb. unfold RP.recover_one in Hdrop. cbv zeta in Hdrop. rewrite Eb in Hdrop.
          cbn [RP.r_dropped] in Hdrop. destruct Hdrop as [_ H]. specialize (H eq_refl). congruence.
        * destruct (RP.good kp f) eqn:Eg; [|reflexivity].
          exfalso. clear - Hdrop Ek Eb Eg. unfold RP.recover_one in Hdrop. cbv zeta in Hdrop. rewrite Eb, Eg in Hdrop.
          cbn [RP.r_dropped] in Hdrop. destruct Hdrop as [_ H]. specialize (H eq_refl). congruence.
      + rewrite (proj1 Hdrop eq_refl). lia.
  Qed.
End Refine.
