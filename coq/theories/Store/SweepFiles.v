From Coq Require Import NArith PeanoNat List Bool Lia Permutation Sorted.
From GL Require Import Store.Sweep Store.SweepProofs Store.SweepInv Store.SweepCommit Store.SweepSteps Store.SweepOpen.
Import ListNotations.
Open Scope N_scope.

Local Arguments N.eqb : simpl never.
Local Arguments N.leb : simpl never.
Local Arguments N.ltb : simpl never.
Local Arguments N.add : simpl never.
Local Arguments N.max : simpl never.
Local Arguments tget : simpl never.
Local Arguments tset : simpl never.
Local Arguments tdel : simpl never.
Local Arguments retag : simpl never.
Local Arguments keys_with : simpl never.
Local Arguments tabs_of : simpl never.
Local Arguments fadd : simpl never.
Local Arguments fdel : simpl never.
Local Arguments fmem : simpl never.
Local Arguments nmem : simpl never.
Local Arguments needed : simpl never.
Local Arguments jsel : simpl never.
Local Arguments install : simpl never.
Local Arguments do_rm : simpl never.
Local Arguments mark_failed : simpl never.
Local Arguments reuse_num : simpl never.

Local Arguments commit : simpl never.
Local Arguments tops_remove : simpl never.
Local Arguments del_func : simpl never.
Local Arguments orphan : simpl never.
Local Arguments is_live : simpl never.
Local Arguments open_db : simpl never.

(* ---------- what is on storage while the DB runs ---------- *)

Record InvF (s : st) : Prop := {
  f_tb : forall t c, tget (tb s) t = Some c -> In (FTable, t) (files s);
  f_j : In (FJournal, journal s) (files s);
  f_z : forall z, frozen s = Some z -> In (FJournal, z) (files s);
  f_m : forall m, man s = Some m -> In (FManifest, m) (files s);
  f_acc : forall f, In f (files s) -> is_live s f = true \/ In f (map fst (residue s));
  f_res : forall f why, In (f, why) (residue s) -> In f (files s) }.

Lemma is_live_ext : forall s s' f,
  journal s' = journal s -> frozen s' = frozen s -> man s' = man s ->
  (forall t, tget (tb s') t = None <-> tget (tb s) t = None) ->
  is_live s' f = is_live s f.
Proof.
  intros s s' [ty n] Ej Ez Em Ht. unfold is_live. cbn [fst snd]. rewrite Ej, Ez, Em.
  destruct ty; auto. specialize (Ht n).
  destruct (tget (tb s') n), (tget (tb s) n); auto.
  - destruct Ht as [_ Ht]. specialize (Ht eq_refl). discriminate.
  - destruct Ht as [Ht _]. specialize (Ht eq_refl). discriminate.
Qed.

Lemma InvF_ext : forall s s',
  files s' = files s -> residue s' = residue s -> journal s' = journal s -> frozen s' = frozen s ->
  man s' = man s -> (forall t, tget (tb s') t = None <-> tget (tb s) t = None) ->
  InvF s -> InvF s'.
Proof.
  intros s s' Ef Er Ej Ez Em Ht H.
  constructor; rewrite ?Ef, ?Er, ?Ej, ?Ez, ?Em; try apply H.
  - intros t c Hc. destruct (tget (tb s) t) as [c0|] eqn:E0; [apply (f_tb s H t c0 E0)|].
    apply Ht in E0. congruence.
  - intros f Hf. rewrite (is_live_ext s s' f Ej Ez Em Ht). apply (f_acc s H f Hf).
Qed.

Lemma is_live_table : forall s t, is_live s (FTable, t) = match tget (tb s) t with Some _ => true | None => false end.
Proof. reflexivity. Qed.

(* one Remove call of a file that is not live *)
Lemma do_rm_InvF : forall f ok why s, InvF s -> is_live s f = false -> InvF (fst (do_rm f ok why s)).
Proof.
  intros f ok why s H Hl.
  assert (Hnl : forall g, is_live s g = true -> g <> f) by (intros g Hg E; subst; congruence).
  assert (Hlive : forall s', journal s' = journal s -> frozen s' = frozen s -> man s' = man s -> tb s' = tb s ->
                             forall g, is_live s' g = is_live s g).
  { intros s' Ej Ez Em Et g. apply is_live_ext; auto. intros t. rewrite Et. tauto. }
  unfold do_rm. destruct (fmem (files s) f) eqn:Ef; [destruct ok|]; cbn [fst].
  - constructor; cbn.
    + intros t c Hc. apply fdel_In. split; [apply (f_tb s H t c Hc)|]. apply Hnl. rewrite is_live_table, Hc. auto.
    + apply fdel_In. split; [apply (f_j s H)|]. apply Hnl. unfold is_live. cbn. rewrite N.eqb_refl. auto.
    + intros z Hz. apply fdel_In. split; [apply (f_z s H z Hz)|]. apply Hnl. unfold is_live. cbn. rewrite Hz, N.eqb_refl. apply orb_true_r.
    + intros m Hm. apply fdel_In. split; [apply (f_m s H m Hm)|]. apply Hnl. unfold is_live. cbn. rewrite Hm, N.eqb_refl. auto.
    + intros g Hg. apply fdel_In in Hg. destruct Hg as [Hg Hne].
      rewrite Hlive by reflexivity. destruct (f_acc s H g Hg) as [|Hr]; auto. right.
      apply in_map_iff in Hr. destruct Hr as [[g' w] [E Hin]]. cbn in E. subst g'.
      apply in_map_iff. exists (g, w). split; auto. apply filter_In. split; auto.
      cbn. apply negb_true_iff. apply fd_eqb_neq. congruence.
    + intros g w Hg. apply filter_In in Hg. destruct Hg as [Hg Hne]. cbn in Hne.
      apply negb_true_iff, fd_eqb_neq in Hne. apply fdel_In. split; [apply (f_res s H g w Hg) | congruence].
  - constructor; cbn; try apply H.
    + intros g Hg. rewrite Hlive by reflexivity. destruct (f_acc s H g Hg) as [|Hr]; [left; auto | right; right; auto].
    + intros g w [E|Hg]; [inversion E; subst; apply fmem_In; auto | apply (f_res s H g w Hg)].
  - constructor; cbn; try apply H.
Qed.

(* a table leaves the map and Remove is called on its file *)
Lemma del_rm_InvF : forall t ok s, InvF s ->
  InvF (fst (do_rm (FTable, t) ok RFailed (set_tb (tdel (tb s) t) s))).
Proof.
  intros t ok s H.
  assert (Hsub : forall u c, tget (tdel (tb s) t) u = Some c -> tget (tb s) u = Some c).
  { intros u c. rewrite tget_tdel. destruct (t =? u); [discriminate | auto]. }
  unfold do_rm. cbn [files set_tb set_trace residue].
  destruct (fmem (files s) (FTable, t)) eqn:Ef; [destruct ok|]; cbn [fst].
  - constructor; cbn.
    + intros u c Hc. apply fdel_In. split; [apply (f_tb s H u c (Hsub u c Hc))|].
      intros E. inversion E; subst. rewrite tget_tdel_eq in Hc. discriminate.
    + apply fdel_In. split; [apply (f_j s H) | discriminate].
    + intros z Hz. apply fdel_In. split; [apply (f_z s H z Hz) | discriminate].
    + intros m Hm. apply fdel_In. split; [apply (f_m s H m Hm) | discriminate].
    + intros g Hg. apply fdel_In in Hg. destruct Hg as [Hg Hne].
      destruct (f_acc s H g Hg) as [Hl|Hr].
      * left. destruct g as [[] n]; auto. unfold is_live in *. cbn in *. rewrite tget_tdel.
        destruct (N.eqb_spec t n); [congruence | auto].
      * right. apply in_map_iff in Hr. destruct Hr as [[g' w] [E Hin]]. cbn in E. subst g'.
        apply in_map_iff. exists (g, w). split; auto. apply filter_In. split; auto.
        cbn. apply negb_true_iff. apply fd_eqb_neq. congruence.
    + intros g w Hg. apply filter_In in Hg. destruct Hg as [Hg Hne]. cbn in Hne.
      apply negb_true_iff, fd_eqb_neq in Hne. apply fdel_In. split; [apply (f_res s H g w Hg) | congruence].
  - constructor; cbn; try apply H.
    + intros u c Hc. apply (f_tb s H u c (Hsub u c Hc)).
    + intros g Hg. destruct (N.eqb_spec 0 0); [|congruence].
      destruct (fd_eqb g (FTable, t)) eqn:Eg.
      * apply fd_eqb_eq in Eg. subst. right. left. auto.
      * apply fd_eqb_neq in Eg. destruct (f_acc s H g Hg) as [Hl|Hr]; [|right; right; auto].
        left. destruct g as [[] n]; auto. unfold is_live in *. cbn in *. rewrite tget_tdel.
        destruct (N.eqb_spec t n); [congruence | auto].
    + intros g w [E|Hg]; [inversion E; subst; apply fmem_In; auto | apply (f_res s H g w Hg)].
  - apply fmem_false in Ef. constructor; cbn; try apply H.
    + intros u c Hc. apply (f_tb s H u c (Hsub u c Hc)).
    + intros g Hg. destruct (f_acc s H g Hg) as [Hl|Hr]; [|right; auto].
      left. destruct g as [[] n]; auto. unfold is_live in *. cbn in *. rewrite tget_tdel.
      destruct (N.eqb_spec t n) as [->|]; [contradiction | auto].
Qed.

Lemma reuse_InvF : forall n s, InvF s -> InvF (reuse_num n s).
Proof.
  intros n s H. unfold reuse_num. destruct (next s =? n + 1); auto.
  apply (InvF_ext s); auto. intros; tauto.
Qed.

Lemma del_func_InvF : forall t ok s, InvF s -> InvF (del_func t ok s).
Proof.
  intros t ok s H. unfold del_func. pose proof (del_rm_InvF t ok s H) as H1.
  destruct (reuse _); auto. apply reuse_InvF; auto.
Qed.

Lemma tops_remove_InvF : forall t ok s, InvF s -> tget (tb s) t <> None -> InvF (tops_remove t ok s).
Proof.
  intros t ok s H Ht. unfold tops_remove. destruct (nmem (pins s) t); [|apply del_func_InvF; auto].
  apply (InvF_ext s); auto. cbn. intros u. rewrite tget_tset. destruct (N.eqb_spec t u) as [ <- |]; [|tauto].
  split; [discriminate | intros E; contradiction].
Qed.

Lemma orphan_InvF : forall ts why s, InvF s -> (forall t, In t ts -> tget (tb s) t <> None) -> InvF (orphan ts why s).
Proof.
  intros ts why s H Hts. unfold orphan.
  assert (Hget : forall u, tget (filter (fun x => negb (nmem ts (fst x))) (tb s)) u =
                           if negb (nmem ts u) then tget (tb s) u else None).
  { intros u. apply (tget_filter_keys (fun t => negb (nmem ts t))). }
  constructor; cbn; try apply H.
  - intros u c. rewrite Hget. destruct (negb (nmem ts u)); [apply (f_tb s H u c) | discriminate].
  - intros g Hg. destruct (f_acc s H g Hg) as [Hl|Hr].
    + destruct g as [[] n]; auto. unfold is_live in *. cbn in *. rewrite Hget.
      destruct (nmem ts n) eqn:En; cbn; auto. right. rewrite map_app. apply in_or_app. left.
      rewrite map_map. cbn. apply in_map_iff. exists n. split; auto. apply nmem_In; auto.
    + right. rewrite map_app. apply in_or_app. right. auto.
  - intros g w Hg. apply in_app_or in Hg. destruct Hg as [Hg|Hg]; [|apply (f_res s H g w Hg)].
    apply in_map_iff in Hg. destruct Hg as [u [E Hu]]. inversion E; subst.
    destruct (tget (tb s) u) as [c|] eqn:Ec; [apply (f_tb s H u c Ec)|]. exfalso. apply (Hts u Hu). auto.
Qed.

Lemma install_none : forall ko dels jn s t, tget (tb (install ko dels jn s)) t = None <-> tget (tb s) t = None.
Proof.
  intros. rewrite install_tget. destruct (tget (tb s) t); cbn; split; auto; discriminate.
Qed.

Lemma mark_failed_InvF : forall ko s, InvF s -> InvF (mark_failed ko s).
Proof.
  intros ko s H. destruct (mark_failed_fields ko s) as (M1&M2&M3&M4&M5&M6&M7&M8&M9).
  destruct (mark_failed_more ko s) as (M10&M11&M12&M13&M14&M15).
  apply (InvF_ext s); auto.
  - destruct ko as [k|]; cbn; auto. destruct k; reflexivity.
  - rewrite M1. tauto.
Qed.

Lemma commit_InvF : forall ko dels jn rot o rmok s, Inv s -> InvF s -> InvF (fst (commit ko dels jn rot o rmok s)).
Proof.
  intros ko dels jn rot o rmok s HI H. unfold commit.
  destruct (i_n s HI) as (A&B&C&D&F).
  destruct (negb (hasman s) || mfailed s || rot).
  - set (m := next s).
    assert (Hlive_tb : forall t, In (FTable, t) (files s) -> forall x, In (FTable, t) (fadd (files s) x)) by (intros; apply fadd_In; auto).
    destruct o.
    + (* the manifest is replaced *)
      set (s2 := install ko dels jn (set_next (m + 1) s)).
      assert (Hk2 : forall t, tget (tb s2) t = None <-> tget (tb s) t = None) by (intros; unfold s2; rewrite install_none; cbn; tauto).
      destruct (install_fields ko dels jn (set_next (m + 1) s)) as (F1&F2&F3&F4&F5&F6&F7&F8&F9&F10&F11&F12&F13&F14).
      fold s2 in F1, F2, F3, F4, F5, F6, F7, F8, F9, F10, F11, F12, F13, F14. cbn in F1, F4, F8, F9.
      assert (Hres2 : residue s2 = residue s) by reflexivity.
      assert (Hlv : forall g, g <> (FManifest, m) -> (forall old, man s = Some old -> g <> (FManifest, old)) ->
                    forall sx, tb sx = tb s2 -> journal sx = journal s -> frozen sx = frozen s -> man sx = Some m ->
                    is_live s g = true -> is_live sx g = true).
      { intros [ty n] Hg1 Hg2 sx E1 E2 E3 E4. unfold is_live. cbn [fst snd]. rewrite E1, E2, E3, E4.
        destruct ty; auto.
        - destruct (man s) as [old|] eqn:Em; [|discriminate]. intros E. apply N.eqb_eq in E. subst.
          exfalso. apply (Hg2 n); auto.
        - destruct (tget (tb s) n) eqn:E0; [|discriminate]. intros _.
          destruct (tget (tb s2) n) eqn:E2'; auto. apply Hk2 in E2'. congruence. }
      destruct (man s) as [old|] eqn:Em.
      * assert (Hom : old <> m) by (specialize (B old eq_refl); unfold m; lia).
        unfold do_rm. cbn [files set_views set_files set_trace residue].
        assert (Hpres : fmem (fadd (files s2) (FManifest, m)) (FManifest, old) = true).
        { apply fmem_In. apply fadd_In. right. rewrite F1. apply (f_m s H old Em). }
        rewrite Hpres. destruct rmok; cbn [fst]; constructor; cbn; rewrite ?F1, ?F8, ?F9.
        -- intros t c Hc. apply fdel_In. split; [|discriminate]. apply fadd_In. right.
           destruct (tget (tb s) t) as [c0|] eqn:E0; [apply (f_tb s H t c0 E0)|]. apply Hk2 in E0. congruence.
        -- apply fdel_In. split; [|discriminate]. apply fadd_In. right. apply (f_j s H).
        -- intros z Hz. apply fdel_In. split; [|discriminate]. apply fadd_In. right. apply (f_z s H z Hz).
        -- intros x Hx. inversion Hx; subst. apply fdel_In. split; [apply fadd_In; left; auto | congruence].
        -- intros g Hg. apply fdel_In in Hg. destruct Hg as [Hg Hne]. apply fadd_In in Hg.
           destruct Hg as [->|Hg].
           ++ left. unfold is_live. cbn. rewrite N.eqb_refl. auto.
           ++ destruct (fd_eqb g (FManifest, m)) eqn:Egm.
              { apply fd_eqb_eq in Egm. subst. left. unfold is_live. cbn. rewrite N.eqb_refl. auto. }
              apply fd_eqb_neq in Egm.
              destruct (f_acc s H g Hg) as [Hl|Hr].
              ** left. apply (Hlv g Egm); auto. intros old' E'. inversion E'; subst. auto.
              ** right. rewrite Hres2. apply in_map_iff in Hr. destruct Hr as [[g' w] [E Hin]]. cbn in E. subst g'.
                 apply in_map_iff. exists (g, w). split; auto. apply filter_In. split; auto.
                 cbn. apply negb_true_iff. apply fd_eqb_neq. congruence.
        -- intros g w Hg. rewrite Hres2 in Hg. apply filter_In in Hg. destruct Hg as [Hg Hne]. cbn in Hne.
           apply negb_true_iff, fd_eqb_neq in Hne. apply fdel_In. split; [|congruence].
           apply fadd_In. right. apply (f_res s H g w Hg).
        -- intros t c Hc. apply fadd_In. right.
           destruct (tget (tb s) t) as [c0|] eqn:E0; [apply (f_tb s H t c0 E0)|]. apply Hk2 in E0. congruence.
        -- apply fadd_In. right. apply (f_j s H).
        -- intros z Hz. apply fadd_In. right. apply (f_z s H z Hz).
        -- intros x Hx. inversion Hx; subst. apply fadd_In; left; auto.
        -- intros g Hg. apply fadd_In in Hg.
           destruct (fd_eqb g (FManifest, m)) eqn:Egm.
           { apply fd_eqb_eq in Egm. subst. left. unfold is_live. cbn. rewrite N.eqb_refl. auto. }
           apply fd_eqb_neq in Egm. destruct Hg as [->|Hg]; [congruence|].
           destruct (fd_eqb g (FManifest, old)) eqn:Ego.
           { apply fd_eqb_eq in Ego. subst. right. left. auto. }
           apply fd_eqb_neq in Ego.
           destruct (f_acc s H g Hg) as [Hl|Hr].
           ++ left. apply (Hlv g Egm); auto. intros old' E'. inversion E'; subst. auto.
           ++ right. right. rewrite Hres2. auto.
        -- intros g w [E|Hg]; [inversion E; subst; apply fadd_In; right; apply (f_m s H old Em)|].
           rewrite Hres2 in Hg. apply fadd_In. right. apply (f_res s H g w Hg).
      * cbn [fst]. constructor; cbn; rewrite ?F1, ?F8, ?F9.
        -- intros t c Hc. apply fadd_In. right.
           destruct (tget (tb s) t) as [c0|] eqn:E0; [apply (f_tb s H t c0 E0)|]. apply Hk2 in E0. congruence.
        -- apply fadd_In. right. apply (f_j s H).
        -- intros z Hz. apply fadd_In. right. apply (f_z s H z Hz).
        -- intros x Hx. inversion Hx; subst. apply fadd_In; left; auto.
        -- intros g Hg. apply fadd_In in Hg.
           destruct (fd_eqb g (FManifest, m)) eqn:Egm.
           { apply fd_eqb_eq in Egm. subst. left. unfold is_live. cbn. rewrite N.eqb_refl. auto. }
           apply fd_eqb_neq in Egm. destruct Hg as [->|Hg]; [congruence|].
           destruct (f_acc s H g Hg) as [Hl|Hr].
           ++ left. apply (Hlv g Egm); auto. intros old' E'. discriminate.
           ++ right. rewrite Hres2. auto.
        -- intros g w Hg. rewrite Hres2 in Hg. apply fadd_In. right. apply (f_res s H g w Hg).
    + (* newManifest fails *)
      cbn [fst]. apply mark_failed_InvF, reuse_InvF.
      assert (Hnl : man s <> Some m) by (intros E; specialize (B m E); unfold m in *; lia).
      unfold do_rm. cbn [files set_files set_next set_trace residue].
      assert (Hpres : fmem (fadd (files s) (FManifest, m)) (FManifest, m) = true) by (apply fmem_In, fadd_In; left; auto).
      rewrite Hpres.
      assert (Hlv : forall g sx, tb sx = tb s -> journal sx = journal s -> frozen sx = frozen s -> man sx = man s ->
                    is_live sx g = is_live s g).
      { intros g sx E1 E2 E3 E4. apply is_live_ext; auto. intros t. rewrite E1. tauto. }
      destruct rmok; cbn [fst]; constructor; cbn.
      * intros t c Hc. apply fdel_In. split; [|discriminate]. apply fadd_In. right. apply (f_tb s H t c Hc).
      * apply fdel_In. split; [|discriminate]. apply fadd_In. right. apply (f_j s H).
      * intros z Hz. apply fdel_In. split; [|discriminate]. apply fadd_In. right. apply (f_z s H z Hz).
      * intros x Hx. apply fdel_In. split; [apply fadd_In; right; apply (f_m s H x Hx) | congruence].
      * intros g Hg. apply fdel_In in Hg. destruct Hg as [Hg Hne]. apply fadd_In in Hg. destruct Hg as [->|Hg]; [congruence|].
        rewrite Hlv by reflexivity. destruct (f_acc s H g Hg) as [Hl|Hr]; auto. right.
        apply in_map_iff in Hr. destruct Hr as [[g' w] [E Hin]]. cbn in E. subst g'.
        apply in_map_iff. exists (g, w). split; auto. apply filter_In. split; auto.
        cbn. apply negb_true_iff. apply fd_eqb_neq. congruence.
      * intros g w Hg. apply filter_In in Hg. destruct Hg as [Hg Hne]. cbn in Hne.
        apply negb_true_iff, fd_eqb_neq in Hne. apply fdel_In. split; [|congruence].
        apply fadd_In. right. apply (f_res s H g w Hg).
      * intros t c Hc. apply fadd_In. right. apply (f_tb s H t c Hc).
      * apply fadd_In. right. apply (f_j s H).
      * intros z Hz. apply fadd_In. right. apply (f_z s H z Hz).
      * intros x Hx. apply fadd_In; right; apply (f_m s H x Hx).
      * intros g Hg. apply fadd_In in Hg. destruct Hg as [->|Hg]; [right; left; auto|].
        rewrite Hlv by reflexivity. destruct (f_acc s H g Hg) as [Hl|Hr]; auto.
      * intros g w [E|Hg]; [inversion E; subst; apply fadd_In; left; auto | apply fadd_In; right; apply (f_res s H g w Hg)].
    + (* the same *)
      cbn [fst]. apply mark_failed_InvF, reuse_InvF.
      assert (Hnl : man s <> Some m) by (intros E; specialize (B m E); unfold m in *; lia).
      unfold do_rm. cbn [files set_files set_next set_trace residue].
      assert (Hpres : fmem (fadd (files s) (FManifest, m)) (FManifest, m) = true) by (apply fmem_In, fadd_In; left; auto).
      rewrite Hpres.
      assert (Hlv : forall g sx, tb sx = tb s -> journal sx = journal s -> frozen sx = frozen s -> man sx = man s ->
                    is_live sx g = is_live s g).
      { intros g sx E1 E2 E3 E4. apply is_live_ext; auto. intros t. rewrite E1. tauto. }
      destruct rmok; cbn [fst]; constructor; cbn.
      * intros t c Hc. apply fdel_In. split; [|discriminate]. apply fadd_In. right. apply (f_tb s H t c Hc).
      * apply fdel_In. split; [|discriminate]. apply fadd_In. right. apply (f_j s H).
      * intros z Hz. apply fdel_In. split; [|discriminate]. apply fadd_In. right. apply (f_z s H z Hz).
      * intros x Hx. apply fdel_In. split; [apply fadd_In; right; apply (f_m s H x Hx) | congruence].
      * intros g Hg. apply fdel_In in Hg. destruct Hg as [Hg Hne]. apply fadd_In in Hg. destruct Hg as [->|Hg]; [congruence|].
        rewrite Hlv by reflexivity. destruct (f_acc s H g Hg) as [Hl|Hr]; auto. right.
        apply in_map_iff in Hr. destruct Hr as [[g' w] [E Hin]]. cbn in E. subst g'.
        apply in_map_iff. exists (g, w). split; auto. apply filter_In. split; auto.
        cbn. apply negb_true_iff. apply fd_eqb_neq. congruence.
      * intros g w Hg. apply filter_In in Hg. destruct Hg as [Hg Hne]. cbn in Hne.
        apply negb_true_iff, fd_eqb_neq in Hne. apply fdel_In. split; [|congruence].
        apply fadd_In. right. apply (f_res s H g w Hg).
      * intros t c Hc. apply fadd_In. right. apply (f_tb s H t c Hc).
      * apply fadd_In. right. apply (f_j s H).
      * intros z Hz. apply fadd_In. right. apply (f_z s H z Hz).
      * intros x Hx. apply fadd_In; right; apply (f_m s H x Hx).
      * intros g Hg. apply fadd_In in Hg. destruct Hg as [->|Hg]; [right; left; auto|].
        rewrite Hlv by reflexivity. destruct (f_acc s H g Hg) as [Hl|Hr]; auto.
      * intros g w [E|Hg]; [inversion E; subst; apply fadd_In; left; auto | apply fadd_In; right; apply (f_res s H g w Hg)].
  - destruct o; cbn [fst].
    + apply (InvF_ext s); auto. cbn. intros t. apply install_none.
    + apply mark_failed_InvF. apply (InvF_ext s); auto. intros; tauto.
    + apply mark_failed_InvF. apply (InvF_ext s); auto. intros; tauto.
Qed.

Lemma setjob_InvF : forall k j s, InvF s -> InvF (setjob k j s).
Proof.
  intros k j s H. apply (InvF_ext s); try (destruct k; reflexivity); auto;
    try (intros t; destruct k; cbn; tauto).
Qed.

Lemma revert_seq_InvF : forall ts bad s, InvF s -> NoDup ts -> (forall t, In t ts -> tget (tb s) t <> None) ->
  InvF (revert_seq ts bad s).
Proof.
  induction ts as [|t ts IH]; intros bad s H Hnd Hts; cbn [revert_seq]; auto.
  inversion Hnd as [|x l Hnot Hnd']; subst.
  pose proof (del_rm_InvF t (negb (fmem bad (FTable, t))) s H) as H1.
  destruct (do_rm_eq (FTable, t) (negb (fmem bad (FTable, t))) RFailed (set_tb (tdel (tb s) t) s)) as (E1&E2&_).
  destruct (do_rm (FTable, t) (negb (fmem bad (FTable, t))) RFailed (set_tb (tdel (tb s) t) s)) as [s1 ok]. cbn [fst] in *.
  assert (Hrest : forall u, In u ts -> tget (tb s1) u <> None).
  { intros u Hu. rewrite E2. cbn. rewrite tget_tdel_neq; [apply Hts; right; auto|]. intro; subst; contradiction. }
  destruct ok; [apply IH; auto | apply orphan_InvF; auto].
Qed.

Lemma tops_remove_all_InvF : forall ts bad s, InvF s -> NoDup ts -> (forall t, In t ts -> tget (tb s) t <> None) ->
  InvF (tops_remove_all ts bad s).
Proof.
  induction ts as [|t ts IH]; intros bad s H Hnd Hts; cbn [tops_remove_all]; auto.
  inversion Hnd as [|x l Hnot Hnd']; subst.
  destruct (tops_remove_fields t (negb (fmem bad (FTable, t))) s) as (_&_&_&_&_&E6&_).
  apply IH; auto.
  - apply tops_remove_InvF; auto. apply Hts; left; auto.
  - intros u Hu. rewrite E6; [apply Hts; right; auto|]. intro; subst; contradiction.
Qed.

Lemma outs_present : forall k s t, NoDup (map fst (tb s)) -> In t (keys_with (is_out k) (tb s)) -> tget (tb s) t <> None.
Proof. intros k s t Hk Ht. apply outs_In in Ht; auto. congruence. Qed.

Theorem step_InvF : forall s o s', Inv s -> InvF s -> step s o = Some s' -> opened s' = true -> InvF s'.
Proof.
  intros s o s' HI H Hs Ho. pose proof (i_k s HI) as HK.
  destruct o; cbn in Hs.
  - (* OPin *)
    destruct (opened s && _); [|discriminate]. inversion Hs; subst. apply (InvF_ext s); auto. intros; tauto.
  - (* OUnpin *)
    destruct (opened s && nmem (pins s) t); [|discriminate].
    assert (H1 : InvF (set_pins (nremove1 (pins s) t) s)) by (apply (InvF_ext s); auto; intros; tauto).
    cbn in Hs. destruct (tget (tb s) t) as [c|]; [|inversion Hs; subst; auto].
    destruct c; try (inversion Hs; subst; auto; fail).
    destruct (nmem (nremove1 (pins s) t) t); inversion Hs; subst; auto. apply del_func_InvF; auto.
  - destruct (opened s); [|discriminate]. inversion Hs; subst. apply (InvF_ext s); auto. intros; tauto.
  - destruct (opened s && _); [|discriminate]. inversion Hs; subst. apply (InvF_ext s); auto. intros; tauto.
  - (* ORotate *)
    destruct (frozen s) eqn:Efz; [rewrite andb_false_r in Hs; discriminate|].
    destruct (opened s && negb (j_on (jt s)) && true); [|discriminate].
    destruct ok; inversion Hs; subst; clear Hs.
    + assert (Hlv : forall g, is_live s g = true ->
                is_live (set_fempty empty (set_fdone false (set_frozen (Some (journal s)) (set_journal (next s)
                  (set_files (fadd (files (set_next (next s + 1) s)) (FJournal, next s)) (set_next (next s + 1) s)))))) g = true).
      { intros [[] n]; unfold is_live; cbn; auto. intros E. apply orb_true_iff in E. destruct E as [E|E].
        - apply N.eqb_eq in E. subst. rewrite N.eqb_refl. apply orb_true_r.
        - rewrite Efz in E. discriminate. }
      constructor; cbn.
      * intros t c Hc. apply fadd_In. right. apply (f_tb s H t c Hc).
      * apply fadd_In. left. auto.
      * intros z Hz. inversion Hz; subst. apply fadd_In. right. apply (f_j s H).
      * intros m Hm. apply fadd_In. right. apply (f_m s H m Hm).
      * intros g Hg. apply fadd_In in Hg. destruct Hg as [->|Hg].
        -- left. unfold is_live. cbn. rewrite N.eqb_refl. auto.
        -- destruct (f_acc s H g Hg) as [Hl|Hr]; [left; apply Hlv; auto | right; auto].
      * intros g w Hg. apply fadd_In. right. apply (f_res s H g w Hg).
    + apply reuse_InvF. apply (InvF_ext s); auto. intros; tauto.
  - (* OBegin *)
    destruct (opened s && _ && _); [|discriminate]. inversion Hs; subst. apply setjob_InvF; auto.
  - (* OCreate *)
    destruct (opened s && _ && _ && _); [|discriminate].
    destruct ok; inversion Hs; subst; clear Hs; [|apply (InvF_ext s); auto; intros; tauto].
    set (t := next s).
    constructor; cbn.
    + intros u c. rewrite tget_tset. destruct (N.eqb_spec t u) as [ <- |].
      * intros _. apply fadd_In. left. auto.
      * intros Hc. apply fadd_In. right. apply (f_tb s H u c Hc).
    + apply fadd_In. right. apply (f_j s H).
    + intros z Hz. apply fadd_In. right. apply (f_z s H z Hz).
    + intros m Hm. apply fadd_In. right. apply (f_m s H m Hm).
    + intros g Hg. apply fadd_In in Hg.
      destruct (fd_eqb g (FTable, t)) eqn:Eg.
      * apply fd_eqb_eq in Eg. subst. left. unfold is_live. cbn. rewrite tget_tset, N.eqb_refl. auto.
      * apply fd_eqb_neq in Eg. destruct Hg as [->|Hg]; [congruence|].
        destruct (f_acc s H g Hg) as [Hl|Hr].
        -- left. destruct g as [[] n]; auto. unfold is_live in *. cbn in *. rewrite tget_tset.
           destruct (t =? n); auto.
        -- right. apply in_map_iff in Hr. destruct Hr as [[g' w] [E Hin]]. cbn in E. subst g'.
           apply in_map_iff. exists (g, w). split; auto. apply filter_In. split; auto.
           cbn. apply negb_true_iff. apply fd_eqb_neq. congruence.
    + intros g w Hg. apply filter_In in Hg. destruct Hg as [Hg _]. apply fadd_In. right. apply (f_res s H g w Hg).
  - (* OFinish *)
    destruct (cur_of k s) as [t|] eqn:Ec; [|discriminate]. destruct (opened s); [|discriminate].
    inversion Hs; subst. apply cur_of_Some in Ec; auto.
    apply (InvF_ext s); auto. cbn. intros u. rewrite tget_tset. destruct (N.eqb_spec t u) as [ <- |]; [|tauto].
    split; [discriminate | congruence].
  - (* ODrop *)
    destruct (cur_of k s) as [t|] eqn:Ec; [|discriminate]. destruct (opened s); [|discriminate].
    pose proof (del_rm_InvF t ok s H) as H1.
    destruct (do_rm (FTable, t) ok RFailed (set_tb (tdel (tb s) t) s)) as [s1 done]. cbn [fst] in *.
    inversion Hs; subst. destruct done; auto. apply reuse_InvF; auto.
  - (* OCommit *)
    destruct (opened s && _ && _ && _); [|discriminate].
    pose proof (commit_InvF (Some k) (j_del (getjob k s)) (match k with KFlush => Some (journal s) | _ => None end) rot o rmok s HI H) as H1.
    destruct (commit (Some k) (j_del (getjob k s)) (match k with KFlush => Some (journal s) | _ => None end) rot o rmok s) as [s1 ok].
    cbn [fst] in *. destruct ok; inversion Hs; subst; auto.
    apply setjob_InvF. destruct k; auto. apply (InvF_ext s1); auto. intros; tauto.
  - (* ORevert *)
    destruct (opened s && _ && _ && _ && _); [|discriminate]. inversion Hs; subst.
    apply setjob_InvF, revert_seq_InvF; auto; [apply keys_with_NoDup; auto | intros t Ht; eapply outs_present; eauto].
  - (* OAbandon *)
    destruct (opened s && _ && _ && _); [|discriminate]. inversion Hs; subst.
    apply setjob_InvF, orphan_InvF; auto. intros t Ht; eapply outs_present; eauto.
  - (* ODropFrozen *)
    destruct (frozen s) as [z|] eqn:Ez; [|discriminate].
    destruct (opened s && (fdone s || fempty s)); [|discriminate]. inversion Hs; subst; clear Hs.
    destruct (i_n s HI) as (_&_&C&_). specialize (C z Ez).
    assert (Hzj : z <> journal s) by lia.
    assert (Hlv : forall g sx, g <> (FJournal, z) -> tb sx = tb s -> journal sx = journal s -> frozen sx = None -> man sx = man s ->
                  is_live s g = true -> is_live sx g = true).
    { intros [ty n] sx Hg E1 E2 E3 E4. unfold is_live. cbn [fst snd]. rewrite E1, E2, E3, E4, Ez.
      destruct ty; auto. intros E. apply orb_true_iff in E. destruct E as [E|E]; [rewrite E; auto|].
      apply N.eqb_eq in E. subst. congruence. }
    unfold do_rm. assert (Hp : fmem (files s) (FJournal, z) = true) by (apply fmem_In, (f_z s H z Ez)).
    rewrite Hp. destruct ok; cbn [fst]; constructor; cbn.
    + intros t c Hc. apply fdel_In. split; [apply (f_tb s H t c Hc) | discriminate].
    + apply fdel_In. split; [apply (f_j s H) | congruence].
    + intros z' Hz'; discriminate.
    + intros m Hm. apply fdel_In. split; [apply (f_m s H m Hm) | discriminate].
    + intros g Hg. apply fdel_In in Hg. destruct Hg as [Hg Hne]. destruct (f_acc s H g Hg) as [Hl|Hr].
      * left. apply (Hlv g); auto.
      * right. apply in_map_iff in Hr. destruct Hr as [[g' w] [E Hin]]. cbn in E. subst g'.
        apply in_map_iff. exists (g, w). split; auto. apply filter_In. split; auto.
        cbn. apply negb_true_iff. apply fd_eqb_neq. congruence.
    + intros g w Hg. apply filter_In in Hg. destruct Hg as [Hg Hne]. cbn in Hne.
      apply negb_true_iff, fd_eqb_neq in Hne. apply fdel_In. split; [apply (f_res s H g w Hg) | congruence].
    + apply (f_tb s H).
    + apply (f_j s H).
    + intros z' Hz'; discriminate.
    + apply (f_m s H).
    + intros g Hg. destruct (fd_eqb g (FJournal, z)) eqn:Eg.
      * apply fd_eqb_eq in Eg. subst. right. left. auto.
      * apply fd_eqb_neq in Eg. destruct (f_acc s H g Hg) as [Hl|Hr]; [left; apply (Hlv g); auto | right; right; auto].
    + intros g w [E|Hg]; [inversion E; subst; apply (f_z s H z Ez) | apply (f_res s H g w Hg)].
  - (* ODiscard *)
    destruct (opened s && j_on (jt s) && _); [|discriminate].
    assert (Hstage : forall s1 keep,
              (s1, keep) = (if j_cfail (jt s) && mfailed s
                            then let '(s', ok) := commit None [] None false o rmok s in (s', negb ok)
                            else (s, false)) -> InvF s1 /\ NoDup (map fst (tb s1))).
    { intros s1 keep E. destruct (j_cfail (jt s) && mfailed s).
      - pose proof (commit_InvF None [] None false o rmok s HI H) as H1.
        destruct (commit_Inv None [] None false o rmok s HI (or_introl eq_refl)) as (H2&_&_).
        destruct (commit None [] None false o rmok s) as [sc ok]. cbn [fst] in *. inversion E; subst.
        split; auto. apply (i_k _ H2).
      - inversion E; subst. auto. }
    destruct (if j_cfail (jt s) && mfailed s
              then let '(s', ok) := commit None [] None false o rmok s in (s', negb ok)
              else (s, false)) as [s1 keep] eqn:Est.
    destruct (Hstage s1 keep eq_refl) as [H1 HK1].
    destruct keep; inversion Hs; subst.
    + change (set_jt job_off (orphan (keys_with (is_out KTxn) (tb s1)) RKept s1))
        with (setjob KTxn job_off (orphan (keys_with (is_out KTxn) (tb s1)) RKept s1)).
      apply setjob_InvF, orphan_InvF; auto. intros t Ht; eapply outs_present; eauto.
    + change (set_jt job_off (tops_remove_all (keys_with (is_out KTxn) (tb s1)) bad s1))
        with (setjob KTxn job_off (tops_remove_all (keys_with (is_out KTxn) (tb s1)) bad s1)).
      apply setjob_InvF, tops_remove_all_InvF; auto; [apply keys_with_NoDup; auto | intros t Ht; eapply outs_present; eauto].
  - (* OLoopRemove *)
    destruct (opened s); [|discriminate]. cbn in Hs.
    destruct (tget (tb s) t) as [c|] eqn:Ec; [|discriminate].
    destruct (match c with CObs => true | _ => false end && _); [|discriminate]. inversion Hs; subst.
    apply tops_remove_InvF; auto. congruence.
  - (* OClose *)
    destruct (opened s && all_off s && _ && _); [|discriminate]. inversion Hs; subst. cbn in Ho. discriminate.
  - (* OOpen *)
    rewrite (i_o s HI) in Hs. discriminate.
Qed.

Lemma open_InvF : forall v fl mbad bad s, InvC s -> In v (views s) ->
  opened (open_db v fl mbad bad s) = true -> InvF (open_db v fl mbad bad s).
Proof.
  intros v fl mbad bad s H Hv Ho.
  destruct (open_db_spec v fl mbad bad s H Hv) as [Hg Hsp]. destruct (Hsp Ho) as (E1&E2&Hcls&Hfz&Hres).
  unfold Good in Hg. rewrite Ho in Hg. pose proof (i_k _ Hg) as HK.
  set (s' := open_db v fl mbad bad s) in *.
  constructor.
  - intros t c Hc. apply E1. unfold exact_set. apply in_or_app. left. apply in_map_iff. exists t. split; auto.
    apply tabs_of_In; auto. rewrite Hc. f_equal. apply (Hcls t c Hc).
  - apply E1. unfold exact_set. apply in_or_app. right. left. auto.
  - rewrite Hfz. intros z Hz; discriminate.
  - intros m Hm. apply E1. unfold exact_set. rewrite Hm. apply in_or_app. right. right. left. auto.
  - intros g Hg'. destruct (is_live s' g) eqn:El; auto. right. rewrite Hres, map_map. cbn. rewrite map_id.
    apply filter_In. split; auto. rewrite El. auto.
  - intros g w Hg'. rewrite Hres in Hg'. apply in_map_iff in Hg'. destruct Hg' as [g' [E Hin]]. inversion E; subst.
    apply filter_In in Hin. tauto.
Qed.

Theorem run_InvF : forall ops s s', Good s -> (opened s = true -> InvF s) -> run s ops = Some s' ->
  opened s' = true -> InvF s'.
Proof.
  induction ops as [|o ops IH]; intros s s' Hg Hf Hr Ho; cbn in Hr.
  - inversion Hr; subst. auto.
  - destruct (step s o) as [s1|] eqn:Es; [|discriminate].
    pose proof (step_Good s o s1 Hg Es) as Hg1.
    apply (IH s1 s'); auto. intros Ho1.
    unfold Good in Hg. destruct (opened s) eqn:Eo.
    + apply (step_InvF s o s1); auto.
    + (* only Open leads from a closed state to an opened one *)
      destruct o; try (cbn in Es; rewrite ?Eo in Es; cbn in Es; try discriminate;
                       try (destruct (cur_of k s); discriminate); try (destruct (frozen s); discriminate); fail).
      unfold step in Es. rewrite Eo in Es. cbn [negb andb] in Es.
      destruct (Nat.ltb vi (length (views s))) eqn:El; [|discriminate]. inversion Es; subst.
      apply open_InvF; auto. apply nth_In. apply Nat.ltb_lt. auto.
Qed.

(* At every quiescent point of a running DB the listing is the exact set plus only files the residue names *)
Theorem no_residue : forall l v ru ops s,
  NoDup l -> view_wf v -> run (boot l v ru) ops = Some s -> quiescent s = true ->
  forall f, In f (files s) <-> In f (exact_set s) \/ In f (map fst (residue s)).
Proof.
  intros l v ru ops s Hl Hv Hr Hq.
  pose proof (run_Good ops _ _ (boot_Good l v ru Hl Hv) Hr) as Hg.
  unfold quiescent in Hq. repeat rewrite andb_true_iff in Hq. destruct Hq as [[[[[Ho _] _] _] Hall] Hfz].
  assert (Hf : InvF s).
  { apply (run_InvF ops (boot l v ru) s); auto; [apply boot_Good; auto | cbn; discriminate]. }
  unfold Good in Hg. rewrite Ho in Hg. pose proof (i_k s Hg) as HK.
  destruct (frozen s) eqn:Ez; [discriminate|].
  intros f. split.
  - intros Hin. destruct (f_acc s Hf f Hin) as [Hlive|]; auto. left.
    unfold exact_set. destruct f as [[] n]; unfold is_live in Hlive; cbn in Hlive.
    + destruct (man s) as [m|] eqn:Em; [|discriminate]. apply N.eqb_eq in Hlive. subst.
      apply in_or_app. right. right. left. auto.
    + rewrite Ez, orb_false_r in Hlive. apply N.eqb_eq in Hlive. subst. apply in_or_app. right. left. auto.
    + destruct (tget (tb s) n) as [c|] eqn:Ec; [|discriminate]. apply in_or_app. left.
      apply in_map_iff. exists n. split; auto. apply tabs_of_In; auto. rewrite Ec. f_equal.
      apply tget_In in Ec. rewrite forallb_forall in Hall. specialize (Hall _ Ec). cbn in Hall.
      destruct c; try discriminate. auto.
    + discriminate.
  - intros [Hin|Hin].
    + unfold exact_set in Hin. apply in_app_or in Hin. destruct Hin as [Hin|Hin].
      * apply in_map_iff in Hin. destruct Hin as [t [ <- Ht]]. apply tabs_of_In in Ht; auto. apply (f_tb s Hf t _ Ht).
      * destruct Hin as [ <- |Hin]; [apply (f_j s Hf)|].
        destruct (man s) as [m|] eqn:Em; [|destruct Hin]. destruct Hin as [ <- |[]]. apply (f_m s Hf m Em).
    + apply in_map_iff in Hin. destruct Hin as [[g w] [E Hin]]. cbn in E. subst. apply (f_res s Hf f w Hin).
Qed.
