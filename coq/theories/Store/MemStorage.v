(* Store/MemStorage.v — executable model of leveldb/storage/mem_storage.go (memStorage, memFile, memReader, memWriter).
   Definitions only (proofs: Store/MemStorageProofs.v; theorems: Props/C18M.v).

   Modelled branch by branch: Lock / memStorageLock.Unlock, SetMeta, GetMeta, List, Open, Create, Remove, Rename,
   Close (a no-op), memReader.Close, memWriter.Close / Sync / Write (the embedded bytes.Buffer's Write: no closed
   test), reading through a memReader (a bytes.Reader over memFile.Bytes() taken at Open).
     files map[uint64]*memFile keyed by packFile(fd) = uint64(fd.Num)<<4 | uint64(fd.Type): the shift drops the top
       four bits of the number.  The model keys the map by the descriptor NORMALISED the same way ([mnorm]: number
       mod 2^60), which is what unpackFile gives back to List.
     memFile = bytes.Buffer + open flag.  A memFile object lives on after Remove / Rename for the handles that
       hold it ([m_files] never shrinks; [m_dir] binds names to objects).  Create on an existing name that is not
       open RESETS the same object (epoch + 1).
     memReader / memWriter carry a [closed] field that the code TESTED but never SET before the repair
       "fix: memStorage handles latch closed": a second Close returned nil and cleared the open flag of a file that
       may have been opened again by someone else.  [latch] = true is the repaired code (Close sets closed),
       [latch] = false the code before (kept for the refutation witness in Props/C18M.v).
     A reader's bytes are those of the buffer at Open; later appends never show (bytes.Buffer appends beyond the
       slice or reallocates; a memFile's buffer is never read from, so it never slides).  After a Reset of the object
       (possible under an open reader only through the pre-repair double Close) the reader's bytes are being
       overwritten: the model answers [RUnspec] there (epoch mismatch). *)
From Coq Require Import List NArith ZArith Bool.
From GL Require Import Base.Bytes Store.StorContract.
Import ListNotations.
Open Scope N_scope.

Definition two60 : Z := 1152921504606846976.

(* unpackFile (packFile fd) for a descriptor that passed FileDescOk *)
Definition mnorm (f : xfd) : xfd := XFD (x_ty f) (x_num f mod two60)%Z.

Record mfile := MF { mf_data : bytes; mf_open : bool; mf_epoch : N }.

Inductive mhandle :=
| MW (j : nat) (closed : bool)
| MR (j : nat) (snap : bytes) (epoch : N) (closed : bool).

Record mst := MS {
  m_dir : list (xfd * nat);        (* ms.files: normalised descriptor -> memFile object *)
  m_files : list mfile;            (* every memFile object ever made *)
  m_hs : list mhandle;
  m_lock : option nat;
  m_nlock : nat;
  m_meta : option xfd }.

Definition m_empty : mst := MS [] [] [] None 0 None.

Definition mf_default : mfile := MF [] false 0.
Definition m_file (m : mst) (j : nat) : mfile := nth j (m_files m) mf_default.

Definition m_with_files (m : mst) (fs : list mfile) : mst :=
  MS (m_dir m) fs (m_hs m) (m_lock m) (m_nlock m) (m_meta m).

Definition set_open (m : mst) (j : nat) (b : bool) : list mfile :=
  let f := m_file m j in set_nth (m_files m) j (MF (mf_data f) b (mf_epoch f)).

Section Mem.
  Variable latch : bool.

  Definition mstep (m : mst) (o : sop) : mst * sres :=
    match o with
    | SLock =>
        match m_lock m with
        | Some _ => (m, RErr ELocked)
        | None => (MS (m_dir m) (m_files m) (m_hs m) (Some (m_nlock m)) (S (m_nlock m)) (m_meta m), RLockId (m_nlock m))
        end
    | SUnlock k =>
        match m_lock m with
        | Some k' => if Nat.eqb k k'
                     then (MS (m_dir m) (m_files m) (m_hs m) None (m_nlock m) (m_meta m), ROk) else (m, ROk)
        | None => (m, ROk)
        end
    | SSetMeta f =>
        if negb (xfd_ok f) then (m, RErr EInvalid)
        else (MS (m_dir m) (m_files m) (m_hs m) (m_lock m) (m_nlock m) (Some f), ROk)
    | SGetMeta =>
        match m_meta m with
        | None => (m, RErr ENotExist)
        | Some f => (m, RFd f)
        end
    | SList mask => (m, RList (list_fds mask (map fst (m_dir m))))
    | SOpen f =>
        if negb (xfd_ok f) then (m, RErr EInvalid)
        else match dlookup (mnorm f) (m_dir m) with
             | None => (m, RErr ENotExist)
             | Some j =>
                 let fl := m_file m j in
                 if mf_open fl then (m, RErr EFileOpen)
                 else (MS (m_dir m) (set_open m j true) (m_hs m ++ [MR j (mf_data fl) (mf_epoch fl) false])
                          (m_lock m) (m_nlock m) (m_meta m), RHandle (length (m_hs m)))
             end
    | SCreate f =>
        if negb (xfd_ok f) then (m, RErr EInvalid)
        else match dlookup (mnorm f) (m_dir m) with
             | Some j =>
                 let fl := m_file m j in
                 if mf_open fl then (m, RErr EFileOpen)
                 else (MS (m_dir m) (set_nth (m_files m) j (MF [] true (mf_epoch fl + 1))) (m_hs m ++ [MW j false])
                          (m_lock m) (m_nlock m) (m_meta m), RHandle (length (m_hs m)))
             | None =>
                 let j := length (m_files m) in
                 (MS (dset (mnorm f) j (m_dir m)) (m_files m ++ [MF [] true 0]) (m_hs m ++ [MW j false])
                     (m_lock m) (m_nlock m) (m_meta m), RHandle (length (m_hs m)))
             end
    | SRemove f =>
        if negb (xfd_ok f) then (m, RErr EInvalid)
        else match dlookup (mnorm f) (m_dir m) with
             | Some _ => (MS (dremove (mnorm f) (m_dir m)) (m_files m) (m_hs m) (m_lock m) (m_nlock m) (m_meta m), ROk)
             | None => (m, RErr ENotExist)
             end
    | SRename a b =>
        if negb (xfd_ok a) || negb (xfd_ok b) then (m, RErr EInvalid)
        else if xfd_eqb a b then (m, ROk)
        else match dlookup (mnorm a) (m_dir m) with
             | None => (m, RErr ENotExist)
             | Some ja =>
                 let bopen := match dlookup (mnorm b) (m_dir m) with
                              | Some jb => mf_open (m_file m jb)
                              | None => false
                              end in
                 if bopen || mf_open (m_file m ja) then (m, RErr EFileOpen)
                 else (MS (dset (mnorm b) ja (dremove (mnorm a) (m_dir m))) (m_files m) (m_hs m)
                          (m_lock m) (m_nlock m) (m_meta m), ROk)
             end
    | SClose => (m, ROk)
    | HWrite h d =>
        match nth_error (m_hs m) h with
        | Some (MW j _) =>
            let fl := m_file m j in
            (m_with_files m (set_nth (m_files m) j (MF (mf_data fl ++ d) (mf_open fl) (mf_epoch fl))), ROk)
        | _ => (m, RBadOp)
        end
    | HSync h =>
        match nth_error (m_hs m) h with
        | Some (MW _ _) => (m, ROk)
        | _ => (m, RBadOp)
        end
    | HReadAll h =>
        match nth_error (m_hs m) h with
        | Some (MR j snap ep _) => if mf_epoch (m_file m j) =? ep then (m, RData snap) else (m, RUnspec)
        | _ => (m, RBadOp)
        end
    | HClose h =>
        match nth_error (m_hs m) h with
        | Some (MW j cl) =>
            if cl then (m, RErr EClosed)
            else (MS (m_dir m) (set_open m j false) (set_nth (m_hs m) h (MW j latch))
                     (m_lock m) (m_nlock m) (m_meta m), ROk)
        | Some (MR j snap ep cl) =>
            if cl then (m, RErr EClosed)
            else (MS (m_dir m) (set_open m j false) (set_nth (m_hs m) h (MR j snap ep latch))
                     (m_lock m) (m_nlock m) (m_meta m), ROk)
        | None => (m, RBadOp)
        end
    end.

  Fixpoint mrun (m : mst) (ops : list sop) : mst * list sres :=
    match ops with
    | [] => (m, [])
    | o :: ops' => let '(m1, r) := mstep m o in let '(m2, rs) := mrun m1 ops' in (m2, r :: rs)
    end.
End Mem.

(* ================================================================ abstraction to the contract's state *)

(* the last writer handle made on object j *)
Fixpoint last_writer_from (hs : list mhandle) (j : nat) (i : nat) (acc : option nat) : option nat :=
  match hs with
  | [] => acc
  | MW j' _ :: hs' => last_writer_from hs' j (S i) (if Nat.eqb j' j then Some i else acc)
  | MR _ _ _ _ :: hs' => last_writer_from hs' j (S i) acc
  end.
Definition last_writer (hs : list mhandle) (j : nat) : option nat := last_writer_from hs j 0 None.

Definition abs_handle (h : mhandle) : chandle :=
  match h with
  | MW _ cl => CW cl
  | MR _ snap _ cl => CR snap cl
  end.

Definition abs_entry (m : mst) (e : xfd * nat) : xfd * cfile :=
  (fst e, (mf_data (m_file m (snd e)), last_writer (m_hs m) (snd e))).

Definition m_abs (m : mst) : cst :=
  CS (map (abs_entry m) (m_dir m)) (map abs_handle (m_hs m)) (m_lock m) (m_nlock m) (m_meta m) false.

(* ================================================================ where memStorage leaves the contract *)

Definition h_closed (h : mhandle) : bool := match h with MW _ c | MR _ _ _ c => c end.
Definition h_file (h : mhandle) : nat := match h with MW j _ | MR j _ _ _ => j end.

Definition big_num (f : xfd) : bool := xfd_ok f && (two60 <=? x_num f)%Z.

Definition name_open (m : mst) (f : xfd) : bool :=
  match dlookup (mnorm f) (m_dir m) with
  | Some j => mf_open (m_file m j)
  | None => false
  end.

(* [dev_mem m o] = the repaired memStorage in state m may answer o differently from the contract, or change its
   state differently.  Every class is witnessed in Props/C18M.v. *)
Definition dev_mem (m : mst) (o : sop) : bool :=
  match o with
  | SClose => true                                         (* D1: Close is a no-op, nothing is refused afterwards *)
  | SGetMeta =>                                            (* D2: the descriptor is returned though no file has the name *)
      match m_meta m with
      | Some f => big_num f || match dlookup (mnorm f) (m_dir m) with None => true | Some _ => false end
      | None => false
      end
  | SSetMeta f => false
  | SOpen f => big_num f || (xfd_ok f && name_open m f)    (* D3: errFileOpen while a handle of the file is open *)
  | SCreate f => big_num f || (xfd_ok f && name_open m f)  (* D3 *)
  | SRemove f => big_num f                                 (* D4: numbers >= 2^60 alias (packFile) *)
  | SRename a b =>
      big_num a || big_num b
      || (xfd_ok a && xfd_ok b && negb (xfd_eqb a b)
          && match dlookup (mnorm a) (m_dir m) with
             | Some _ => name_open m a || name_open m b    (* D3 *)
             | None => false
             end)
  | HWrite h _ | HSync h =>                                (* D5: a closed writer still writes / syncs *)
      match nth_error (m_hs m) h with Some hd => h_closed hd | None => false end
  | HReadAll h =>                                          (* D5: a closed reader still reads; D6: bytes being overwritten *)
      match nth_error (m_hs m) h with
      | Some (MR j _ ep cl) => cl || negb (mf_epoch (m_file m j) =? ep)
      | _ => false
      end
  | _ => false
  end.

(* a run in which no call is a deviation (decided along the run of the repaired memStorage) *)
Fixpoint mem_dev_free (m : mst) (ops : list sop) : bool :=
  match ops with
  | [] => true
  | o :: ops' => negb (dev_mem m o) && mem_dev_free (fst (mstep true m o)) ops'
  end.
